#!/bin/bash
# usage: seedtest2.sh <prop> <worktree> <variant a|b> <check-prop>...
# round-2 seeded changes: <worktree>/MUTANT/<variant>/{patch.diff,run_demo.sh,meta.json,...}
prop=$1; wt=$2; v=$3; shift 3
id=${prop}-${ROUND:-2}$v
export GOFLAGS=-mod=mod GOPROXY=off GOSUMDB=off GOTOOLCHAIN=local
M=$wt/MUTANT/$v
[ -f $M/patch.diff ] || { echo "$id: no patch in $M"; exit 2; }
cd $wt; git checkout -q -- .
(bash $M/run_demo.sh >/tmp/seed2_demo_$id.clean.log 2>&1); r0=$?
git apply $M/patch.diff || { echo "$id: patch does not apply"; exit 2; }
if ! (go build ./... && go build -tags verif ./...) 2>/tmp/seed2_build_$id.log; then echo "$id: DOES NOT COMPILE"; git checkout -q -- .; exit 2; fi
t=$(go test -vet=off -count=1 ./bint/ ./eth/ ./jrpc2/ ./shovel/config/ ./shovel/glf/ ./wctx/ ./wos/ ./wslog/ 2>&1 | grep -v "^ok")
[ -n "$t" ] && { echo "$id: BASELINE FAILS: $t"; git checkout -q -- .; exit 2; }
(bash $M/run_demo.sh >/tmp/seed2_demo_$id.patched.log 2>&1); r1=$?
git apply -R $M/patch.diff 2>/dev/null; git checkout -q -- .
rest=$(git status --short | grep -v MUTANT)
echo "$id: demo clean exit=$r0 patched exit=$r1; builds + baseline ok; leftover='$rest'"
if [ $r0 -ne 0 ] || [ $r1 -eq 0 ]; then echo "$id: DEMONSTRATION NOT CONFIRMED"; exit 2; fi
mkdir -p /verif/seeded/$id && cp -r $M/* /verif/seeded/$id/
[ -z "$(git -C /repo status --short)" ] || { echo "/repo not clean"; exit 2; }
git -C /repo apply /verif/seeded/$id/patch.diff || { echo "$id: does not apply to /repo"; exit 2; }
for p in "$@"; do
  out=$(cd /verif && ./check $p 2>&1 | grep -E "VIOLATION|^C[0-9]+ tier" | cut -c1-330 | tr '\n' ' ')
  echo "seed $id: $p => $out"
done
git -C /repo apply -R /verif/seeded/$id/patch.diff 2>/dev/null; git -C /repo checkout -- .
(cd /verif/harness && bin/extract >/dev/null; go build -tags verif -o bin/vcheck ./cmd/vcheck; cd /verif/lean && lake build driver >/dev/null 2>&1)
