#!/bin/bash
# Offline build of the framework from files on disk: Lean project (all proofs + driver) and Go harness.
set -e
cd "$(dirname "$0")"
export GOFLAGS=-mod=mod GOPROXY=off GOSUMDB=off GOTOOLCHAIN=local
mkdir -p build harness/bin evidence replays
(cd lean && lake build Shovel driver 2>&1 | tail -3)
cp /repo/go.sum harness/go.sum 2>/dev/null || true
(cd harness && go build -tags verif -o bin/vcheck ./cmd/vcheck)
if [ -d harness/cmd/extract ]; then (cd harness && go build -o bin/extract ./cmd/extract); fi
echo setup ok
