#!/bin/bash
# usage: muttest.sh <file-in-repo> <python-replace-old> <python-replace-new> <prop>...
# applies a textual mutation to /repo, runs the full checks, restores the tree. For the machinery's self-test only.
f=$1; old=$2; new=$3; shift 3
cd /repo
python3 - "$f" "$old" "$new" <<'PY'
import sys
f,old,new=sys.argv[1:4]
s=open(f).read()
assert old in s, "pattern not found"
open(f,'w').write(s.replace(old,new,1))
PY
[ $? -ne 0 ] && { echo "mutation not applied"; git checkout -- .; exit 2; }
export GOFLAGS=-mod=mod GOPROXY=off GOSUMDB=off GOTOOLCHAIN=local
if ! go build ./... 2>/tmp/mut_build.log; then echo "MUTANT DOES NOT COMPILE"; cat /tmp/mut_build.log | head -5; git checkout -- .; exit 2; fi
t=$(go test -count=1 ./bint/ ./eth/ ./jrpc2/ ./shovel/config/ ./shovel/glf/ ./wctx/ ./wos/ ./wslog/ 2>&1 | grep -v "^ok" | head -3)
[ -n "$t" ] && echo "NOTE: baseline tests fail with this mutant: $t"
for p in "$@"; do
  out=$(cd /verif && ./check $p 2>&1 | grep -E "VIOLATION|^C[0-9]+ tier|KNOWN" | tr '\n' ' ')
  echo "$p => $out"
done
git checkout -- .; (cd /verif/harness && bin/extract >/dev/null; go build -tags verif -o bin/vcheck ./cmd/vcheck; cd /verif/lean && lake build driver >/dev/null 2>&1)
