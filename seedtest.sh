#!/bin/bash
# usage: seedtest.sh <id> <worktree> <check-prop>...   (self-test of the machinery against a seeded change)
# 1. confirms the seeded change in its scratch worktree (applies, builds with and without the verif tag, baseline
#    packages pass, its demonstration fails with the change and passes without it)
# 2. stores it under /verif/seeded/<id>/
# 3. applies it to /repo, runs the registered checks named, and undoes it straight afterwards.
id=$1; wt=$2; shift 2
export GOFLAGS=-mod=mod GOPROXY=off GOSUMDB=off GOTOOLCHAIN=local
M=$wt/MUTANT
[ -f $M/patch.diff ] || { echo "no patch in $M"; exit 2; }
cd $wt
git checkout -q -- . 
democmd=$(jq -r '.demo_cmd // .demonstration.command // .demo.command // empty' $M/meta.json)
place=$(jq -r '.demo_place // .demonstration.place // empty' $M/meta.json)
rundemo() { (cd $wt; bash -c "$DEMO" >/tmp/seed_demo_$id.log 2>&1; echo $?); }
if [ -n "$DEMO" ]; then
  r0=$(rundemo); echo "demo without change: exit $r0"
fi
git apply $M/patch.diff || { echo "patch does not apply"; exit 2; }
go build ./... && go build -tags verif ./... || { echo "DOES NOT COMPILE"; git checkout -q -- .; exit 2; }
t=$(go test -vet=off -count=1 ./bint/ ./eth/ ./jrpc2/ ./shovel/config/ ./shovel/glf/ ./wctx/ ./wos/ ./wslog/ 2>&1 | grep -v "^ok")
[ -n "$t" ] && { echo "BASELINE FAILS: $t"; git checkout -q -- .; exit 2; }
echo "builds (plain and -tags verif), baseline 8 packages ok"
if [ -n "$DEMO" ]; then
  r1=$(rundemo); echo "demo with change: exit $r1"; tail -5 /tmp/seed_demo_$id.log
fi
git checkout -q -- .
git status --short | grep -v MUTANT
mkdir -p /verif/seeded/$id && cp -r $M/* /verif/seeded/$id/
cd /repo && git apply /verif/seeded/$id/patch.diff || { echo "does not apply to /repo"; exit 2; }
for p in "$@"; do
  out=$(cd /verif && ./check $p 2>&1 | grep -E "VIOLATION|^C[0-9]+ tier" | cut -c1-400 | tr '\n' ' ')
  echo "$p => $out"
done
git -C /repo checkout -- .
(cd /verif/harness && bin/extract >/dev/null; go build -tags verif -o bin/vcheck ./cmd/vcheck; cd /verif/lean && lake build driver >/dev/null 2>&1)
git -C /repo status --short
