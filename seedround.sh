#!/bin/bash
# round n (ROUND set below): confirm + store + run own-property check for every delivered change
cd /verif
for p in "$@"; do
  for v in a b; do
    [ -f /tmp/seed8/$p/MUTANT/$v/patch.diff ] || { echo "$p-8$v: not delivered"; continue; }
    ROUND=8 ./seedtest2.sh $p /tmp/seed8/$p $v $p 2>&1 | grep -v "^WARNING conda"
  done
done
git -C /repo status --short
