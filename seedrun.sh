#!/bin/bash
# usage: seedrun.sh <seeded-id> <check-prop>...  — applies /verif/seeded/<id>/patch.diff to /repo, runs the
# registered checks named, and undoes the change straight afterwards (self-test of the machinery only).
id=$1; shift
export GOFLAGS=-mod=mod GOPROXY=off GOSUMDB=off GOTOOLCHAIN=local
[ -z "$(git -C /repo status --short)" ] || { echo "/repo not clean"; exit 2; }
git -C /repo apply /verif/seeded/$id/patch.diff || { echo "does not apply"; exit 2; }
for p in "$@"; do
  out=$(cd /verif && ./check $p 2>&1 | grep -E "VIOLATION|^C[0-9]+ tier" | cut -c1-400 | tr '\n' ' ')
  echo "seed $id: $p => $out"
done
git -C /repo apply -R /verif/seeded/$id/patch.diff 2>/dev/null; git -C /repo checkout -- .
(cd /verif/harness && bin/extract >/dev/null; go build -tags verif -o bin/vcheck ./cmd/vcheck; cd /verif/lean && lake build driver >/dev/null 2>&1)
(cd /verif && git checkout -q -- evidence/ 2>/dev/null)
git -C /repo status --short
