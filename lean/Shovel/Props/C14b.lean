import Shovel.Model.Plan
import Shovel.Gen.Wire
/-
  C14 / C07 — the dispatch of `jrpc2.Client.Get` as it stands in the source (regenerated on every run:
  Gen/Wire.lean) IS the dispatch the planner theorems (`all_fetched`, C14) and the response model
  (`Rpc.get`, C07) assume:
   • for every one of the 32 combinations of plan flags the fetches made are those of `Plan.dispatch`
     (blocks else headers else bare numbers; receipts else logs; traces independently);
   • full blocks go through the block cache with the blocks getter and headers through the header
     cache with the headers getter — the two kinds of segment never share a cache (a call such as
     `bcache.get(…, c.headers)` is no fetch this table knows);
   • the error of every fetch is returned at once (no later step can overwrite it).
-/
namespace Shovel.Plan
open Shovel.Gen.Wire

def armFetch : String → Option Fetch
  | "bcache.get:blocks" => some .blocks
  | "hcache.get:headers" => some .headers
  | "receipts" => some .receipts
  | "logs" => some .logs
  | "traces" => some .traces
  | _ => none

/-- the arm of a group taken for a set of flags: the first whose flag is set (or the default arm) -/
def takenArm (flags : List String) : List Arm → Option Arm
  | [] => none
  | a :: rest => if a.flag == "" || flags.contains a.flag then some a else takenArm flags rest

def srcDispatch (flags : List String) : List (Option Fetch) :=
  getGroups.flatMap fun g => match takenArm flags g with
    | some a => a.calls.map armFetch
    | none => []

def allFlags : List String := ["UseBlocks", "UseHeaders", "UseReceipts", "UseLogs", "UseTraces"]

def subsets : List String → List (List String)
  | [] => [[]]
  | x :: xs => (subsets xs).map (x :: ·) ++ subsets xs

/-- **dispatch_matches_source**: for all 32 flag sets the fetches `Client.Get` makes in the source are
    exactly those of the model's `dispatch` (bare numbered blocks are built locally: no fetch). -/
theorem dispatch_matches_source :
    (subsets allFlags).all (fun fl =>
      srcDispatch fl == ((dispatch fl).filter (· != .numbers)).map some) = true := by
  decide +kernel

/-- **errors_returned**: every fetch's error makes `Get` return at once -/
theorem errors_returned : (getGroups.all fun g => g.all (·.errReturns)) = true := by
  decide +kernel

/-- every fetch in the source is one the model knows (in particular the cache a getter is used with) -/
theorem fetches_known :
    (getGroups.all fun g => g.all fun a => a.calls.all fun c => (armFetch c).isSome) = true := by
  decide +kernel

example : (subsets allFlags).length = 32 := by decide

end Shovel.Plan
