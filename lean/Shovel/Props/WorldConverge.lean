import Shovel.Props.WorldProgress
/-
  C01 / C02 / C03 end to end: CONVERGENCE of the world model `converge`.

  `Props/World.lean` proves that ONE step, faulted anywhere, keeps the invariant (`inv_step`) and
  that one step unwinds a reorg (`unwind_step`); `Props/WorldProgress.lean` proves that healthy
  steps reach the head (`reaches_head`).  Here the two are combined:
  * `troubled_inv`: ANY number of steps with ANY faults and ANY failing answers keeps the invariant;
  * `converges_despite_faults`: after any such troubled period, healthy steps end in the database
    whose rows are EXACTLY the projection of blocks start..head;
  * `converges_after_reorg`: after a reorg, the unwinding step followed by healthy steps ends in
    the projection of the new chain, the rows below the fork being the old ones.

  The chain `c` is FIXED during the troubled period (as in `inv_step`): "growing only" is modelled
  by the source being allowed to report any block number up to `c.head` as its head (`ScriptOK`).
-/
namespace Shovel.World

/-! ### 1. a troubled period -/

/-- a **troubled period**: a sequence of steps, each with its own answer script and its own fault
    (or none); the database after a step is what the step left committed -/
def troubled (t : Task) (steps : List (Script × Option Pos)) (db : DB) : DB :=
  steps.foldl (fun db p => (converge t db p.1 p.2).db) db

/-- every script of the period consists of honest-or-failed answers about the ONE chain `c`
    (fixed during the period; the head reported may lag) -/
def AllOK (c : Chain) (steps : List (Script × Option Pos)) : Prop :=
  ∀ p ∈ steps, ScriptOK c p.1

theorem troubled_nil (t : Task) (db : DB) : troubled t [] db = db := rfl

theorem troubled_cons (t : Task) (p : Script × Option Pos) (steps : List (Script × Option Pos)) (db : DB) :
    troubled t (p :: steps) db = troubled t steps (converge t db p.1 p.2).db := rfl

theorem troubled_append (t : Task) (a b : List (Script × Option Pos)) (db : DB) :
    troubled t (a ++ b) db = troubled t b (troubled t a db) := by
  unfold troubled; rw [List.foldl_append]

/-- **troubled_inv** (C01, C02): ANY number of steps with ANY faults at ANY positions and ANY
    failing source answers leaves the invariant (and the unique-key hypothesis) intact.
    Hypotheses: exactly those of `inv_step`, plus `AllOK c steps`. -/
theorem troubled_inv (t : Task) (c : Chain) (steps : List (Script × Option Pos)) (db : DB)
    (hc : c.WF) (hstart : 0 < t.start) (hb : 1 ≤ t.batch) (hcc : 1 ≤ t.conc) (hcb : t.conc * t.batch < 2 ^ 63)
    (hhead : c.head < 2 ^ 62) (hdeps : t.deps = []) (hinv : Inv t c (t.start - 1) db) (hk : KeysOK t c db)
    (hall : AllOK c steps) :
    Inv t c (t.start - 1) (troubled t steps db) ∧ KeysOK t c (troubled t steps db) := by
  induction steps generalizing db with
  | nil => exact ⟨hinv, hk⟩
  | cons p rest ih =>
    rw [troubled_cons]
    exact ih (converge t db p.1 p.2).db
      (inv_step t c db p.1 p.2 hc (hall p (List.mem_cons_self ..)) hstart hb hcc hcb hhead hdeps hinv hk).1
      (keysOK_step t c db p.1 p.2 hk)
      (fun q hq => hall q (List.mem_cons_of_mem _ hq))

/-- under the invariant the position is at least the initial one -/
theorem start_le_top {t : Task} {c : Chain} {db : DB} (hinv : Inv t c (t.start - 1) db) :
    t.start - 1 ≤ (topOf (db.cur.filter (mineC t))).getD (t.start - 1) :=
  (top_ge (t := t) (v := db) (s0 := t.start - 1) fun x hx => (((Inv_iff _ _ _ _).mp hinv).1 x hx).1).1

/-! ### 2. convergence despite faults -/

/-- **converges_despite_faults** (C01/C02 end to end): on a growing-only chain `c`, with no stop
    configured, from any state satisfying the invariant (e.g. the empty database): after ANY
    troubled period — crashes, dropped connections, failed or lagging RPC answers, at any point of
    any step, any number of times — `m ≥ head - (start - 1)` healthy fault-free steps (`head - top'`
    suffice, `top'` the position after the period; the bound stated needs no `top'`) give a
    database whose position is the head and whose rows of this task are EXACTLY the projection of
    blocks `start..head`: every block in range indexed exactly once, in order.
    Hypotheses: those of `troubled_inv` plus those `reaches_head` adds (`t.stop = 0`,
    `t.start - 1 ≤ c.head`). -/
theorem converges_despite_faults (t : Task) (c : Chain) (steps : List (Script × Option Pos)) (db : DB)
    (hc : c.WF) (hstart : 0 < t.start) (hb : 1 ≤ t.batch) (hcc : 1 ≤ t.conc) (hcb : t.conc * t.batch < 2 ^ 63)
    (hhead : c.head < 2 ^ 62) (hdeps : t.deps = []) (hinv : Inv t c (t.start - 1) db) (hk : KeysOK t c db)
    (hall : AllOK c steps) (hstop : t.stop = 0) (hsh : t.start - 1 ≤ c.head) :
    ∀ m, c.head - (t.start - 1) ≤ m →
      let db' := run t c m (troubled t steps db)
      Inv t c (t.start - 1) db' ∧ KeysOK t c db' ∧
      (topOf (db'.cur.filter (mineC t))).getD (t.start - 1) = c.head ∧
      db'.rows.filter (mine t) = (c.slice t.start (c.head - (t.start - 1))).flatMap (rowsFor t) := by
  intro m hm
  obtain ⟨i1, k1⟩ := troubled_inv t c steps db hc hstart hb hcc hcb hhead hdeps hinv hk hall
  have := start_le_top i1
  exact reaches_head t c (troubled t steps db) hc hstart hb hcc hcb hhead hdeps i1 k1 hstop hsh m (by omega)

/-- the sharper bound: `head - top'` healthy steps suffice, `top'` the position after the period -/
theorem converges_despite_faults' (t : Task) (c : Chain) (steps : List (Script × Option Pos)) (db : DB)
    (hc : c.WF) (hstart : 0 < t.start) (hb : 1 ≤ t.batch) (hcc : 1 ≤ t.conc) (hcb : t.conc * t.batch < 2 ^ 63)
    (hhead : c.head < 2 ^ 62) (hdeps : t.deps = []) (hinv : Inv t c (t.start - 1) db) (hk : KeysOK t c db)
    (hall : AllOK c steps) (hstop : t.stop = 0) (hsh : t.start - 1 ≤ c.head) :
    ∀ m, c.head - (topOf ((troubled t steps db).cur.filter (mineC t))).getD (t.start - 1) ≤ m →
      let db' := run t c m (troubled t steps db)
      Inv t c (t.start - 1) db' ∧ KeysOK t c db' ∧
      (topOf (db'.cur.filter (mineC t))).getD (t.start - 1) = c.head ∧
      db'.rows.filter (mine t) = (c.slice t.start (c.head - (t.start - 1))).flatMap (rowsFor t) := by
  intro m hm
  obtain ⟨i1, k1⟩ := troubled_inv t c steps db hc hstart hb hcc hcb hhead hdeps hinv hk hall
  exact reaches_head t c (troubled t steps db) hc hstart hb hcc hcb hhead hdeps i1 k1 hstop hsh m hm

/-! ### 3. convergence after a reorg -/

/-- bridging lemma: the unique-key hypothesis `unwind_step` states about the database WITHOUT the
    orphaned rows is (as far as foreign rows go) the one about the database itself -/
theorem keysOK_of_pruned {t : Task} {c : Chain} {db : DB} {n : Nat}
    (hk : KeysOK t c { db with rows := db.rows.filter fun r => !(mine t r && decide (n < r.blk)) }) :
    KeysOK t c db := by
  obtain ⟨k1, k2⟩ := hk
  refine ⟨k1, fun x hx hm => k2 x ?_ hm⟩
  show x ∈ db.rows.filter _
  rw [List.mem_filter]
  exact ⟨hx, by simp [hm]⟩

/-- **converges_after_reorg** (C03 end to end).  Hypotheses: exactly those of `unwind_step` (the
    source has settled on chain `c` and grown past the recorded position; the recorded positions up
    to `g` are canonical, those above `g` are orphans, at most 1000; rows up to `g` are `c`'s
    projection, rows above are arbitrary leftovers of the orphaned batches; the script of the
    unwinding step is honest, without failures, and matched the calls: `scriptOk = true`).
    `reaches_head` needs nothing more: `Inv` after the step is `unwind_step`'s conclusion, `KeysOK`
    follows by `keysOK_of_pruned` / `keysOK_step`, and `t.start - 1 ≤ c.head` follows from `g`
    being canonical.
    Then after the unwinding step followed by `m ≥ head - (start - 1)` healthy steps the position
    is the head and the task's rows are EXACTLY the projection of `c` over `start..head` — which is
    the OLD rows of blocks up to the fork `g`, untouched, followed by the projection of `c`'s
    blocks `g+1..head`: the orphaned rows are gone, the replacing rows are present once. -/
theorem converges_after_reorg (t : Task) (c : Chain) (db : DB) (sc : Script) (g : Cur)
    (hc : c.WF) (hsc : ScriptOK c sc) (hstart : 0 < t.start) (hb : 1 ≤ t.batch) (hcc : 1 ≤ t.conc)
    (hcb : t.conc * t.batch < 2 ^ 63) (hhead : c.head < 2 ^ 62) (hdeps : t.deps = []) (hstop : t.stop = 0)
    (hnodup : ((db.cur.filter (mineC t)).map (·.num)).Nodup)
    (hg : g ∈ db.cur.filter (mineC t))
    (hbelow : ∀ x ∈ db.cur.filter (mineC t), x.num ≤ g.num →
      t.start - 1 < x.num ∧ x.num ≤ c.head ∧ x.hash = c.hashAt x.num)
    (habove : ∀ x ∈ db.cur.filter (mineC t), g.num < x.num → x.hash ≠ c.hashAt x.num)
    (hcount : ((db.cur.filter (mineC t)).filter fun x => g.num < x.num).length ≤ 1000)
    (hrows : (db.rows.filter fun r => mine t r && decide (r.blk ≤ g.num)) =
      (c.slice t.start (g.num - (t.start - 1))).flatMap (rowsFor t))
    (hk : KeysOK t c { db with rows := db.rows.filter fun r => !(mine t r && decide (g.num < r.blk)) })
    (hnone : (∀ x ∈ db.cur.filter (mineC t), x.num ≤ g.num) → ∀ r ∈ db.rows, mine t r = true → r.blk ≤ g.num)
    (hgrow : ∀ x ∈ db.cur.filter (mineC t), x.num < c.head)
    (hhonest : (∀ a ∈ sc.latest, a = some (c.head, c.hashAt c.head)) ∧ (∀ p ∈ sc.hash, p.2 ≠ none) ∧
      (∀ q ∈ sc.gets, q.2 ≠ none))
    (hok : (converge t db sc none).scriptOk = true) :
    ∀ m, c.head - (t.start - 1) ≤ m →
      let db' := run t c m (converge t db sc none).db
      Inv t c (t.start - 1) db' ∧ KeysOK t c db' ∧
      (topOf (db'.cur.filter (mineC t))).getD (t.start - 1) = c.head ∧
      db'.rows.filter (mine t) = (c.slice t.start (c.head - (t.start - 1))).flatMap (rowsFor t) ∧
      db'.rows.filter (mine t) =
        (db.rows.filter fun r => mine t r && decide (r.blk ≤ g.num)) ++
          (c.slice (g.num + 1) (c.head - g.num)).flatMap (rowsFor t) := by
  intro m hm
  obtain ⟨_, i1, _⟩ := unwind_step t c db sc g hc hsc hstart hb hcc hcb hhead hdeps hstop hnodup hg hbelow habove
    hcount hrows hk hnone hgrow hhonest hok
  have k1 : KeysOK t c (converge t db sc none).db := keysOK_step t c db sc none (keysOK_of_pruned hk)
  obtain ⟨g1, g2, _⟩ := hbelow g hg (Nat.le_refl _)
  have hsh : t.start - 1 ≤ c.head := by omega
  have := start_le_top i1
  obtain ⟨r1, r2, r3, r4⟩ :=
    reaches_head t c (converge t db sc none).db hc hstart hb hcc hcb hhead hdeps i1 k1 hstop hsh m (by omega)
  refine ⟨r1, r2, r3, r4, ?_⟩
  rw [r4, hrows, ← List.flatMap_append,
    show c.head - (t.start - 1) = (g.num - (t.start - 1)) + (c.head - g.num) by omega, slice_append,
    show t.start + (g.num - (t.start - 1)) = g.num + 1 by omega]

/-! ### 4. non-vacuity: the hypotheses are satisfiable, and concrete troubled runs converge -/

namespace Ex

/-- an honest source whose `Get` fails -/
def scFail : Script := { sc1 with gets := [((1, 1), none)] }

theorem scFail_ok : ScriptOK c6 scFail := scriptOKb_sound _ _ (by decide +kernel)

/-- an honest source that lags: it reports block 1 as its head -/
def scLag : Script := { latest := [some (1, c6.hashAt 1)], hash := [], gets := [] }

theorem scLag_ok : ScriptOK c6 scLag := scriptOKb_sound _ _ (by decide +kernel)

/-- a troubled period of `t1` on `c6`, starting at `db0`:
    1. a healthy source, but the process dies at the commit of the second transaction;
    2. no fault, but the source fails a `Get`;
    3. a step that succeeds (blocks 1, 2);
    4. a healthy source, but the connection drops at the insert;
    5. a source whose reported head lags behind the recorded position (block 1 < 2): `ahead`;
    6. the database fails the very first query of the step. -/
def period : List (Script × Option Pos) :=
  [(Script.full c6 t1 0, some .commit2), (scFail, none), (Script.full c6 t1 0, none),
   (Script.full c6 t1 2, some .insert), (scLag, none), (scFail, some (.qlatest 0))]

theorem period_ok : AllOK c6 period := by
  intro p hp
  simp only [period, List.mem_cons, List.not_mem_nil, or_false] at hp
  rcases hp with rfl | rfl | rfl | rfl | rfl | rfl
  · exact Script.full_scriptOK c6 t1 0 (by decide +kernel)
  · exact scFail_ok
  · exact Script.full_scriptOK c6 t1 0 (by decide +kernel)
  · exact Script.full_scriptOK c6 t1 2 (by decide +kernel)
  · exact scLag_ok
  · exact scFail_ok

/-- the hypotheses of `troubled_inv` are jointly satisfiable, so its conclusion applies … -/
example : Inv t1 c6 (t1.start - 1) (troubled t1 period db0) ∧ KeysOK t1 c6 (troubled t1 period db0) :=
  troubled_inv t1 c6 period db0 c6_wf (by decide) (by decide) (by decide) (by decide) (by decide +kernel) rfl
    (by decide +kernel) (by decide +kernel) period_ok

/-- … the individual steps of the period do what their description says … -/
example :
    (converge t1 db0 (Script.full c6 t1 0) (some .commit2)).outcome = .err ∧
    (converge t1 db0 (Script.full c6 t1 0) (some .commit2)).db = db0 ∧
    (converge t1 db0 scFail none).outcome = .err ∧ (converge t1 db0 scFail none).db = db0 ∧
    (converge t1 db0 (Script.full c6 t1 0) none).outcome = .ok 2 ∧
    (converge t1 (converge t1 db0 (Script.full c6 t1 0) none).db (Script.full c6 t1 2) (some .insert)).outcome = .err ∧
    (converge t1 (converge t1 db0 (Script.full c6 t1 0) none).db scLag none).outcome = .ahead ∧
    (converge t1 (converge t1 db0 (Script.full c6 t1 0) none).db scFail (some (.qlatest 0))).outcome = .err := by
  decide +kernel

/-- … and the period as a whole leaves blocks 1 and 2 indexed once, nothing else -/
example : troubled t1 period db0 =
    { cur := [{ src := "s", ig := "i", num := 2, hash := hx '2' }], rows := [foreign, row 1 "k1", row 2 "k2"] } := by
  decide +kernel

/-- the hypotheses of `converges_despite_faults` are jointly satisfiable (`m = head - (start-1) = 5`) … -/
example : Inv t1 c6 (t1.start - 1) (run t1 c6 5 (troubled t1 period db0)) ∧
    KeysOK t1 c6 (run t1 c6 5 (troubled t1 period db0)) ∧
    (topOf ((run t1 c6 5 (troubled t1 period db0)).cur.filter (mineC t1))).getD (t1.start - 1) = c6.head ∧
    (run t1 c6 5 (troubled t1 period db0)).rows.filter (mine t1) =
      (c6.slice t1.start (c6.head - (t1.start - 1))).flatMap (rowsFor t1) :=
  converges_despite_faults t1 c6 period db0 c6_wf (by decide) (by decide) (by decide) (by decide) (by decide +kernel) rfl
    (by decide +kernel) (by decide +kernel) period_ok rfl (by decide +kernel) 5 (by decide +kernel)

/-- … and the concrete run after the troubled period really ends in the full projection: positions
    2, 4, 5, the rows of blocks 1..5 once each in order, the other integration's row untouched —
    the same database as the run without any trouble (`run t1 c6 5 db0`); 2 healthy steps suffice
    (`head - top' = 3` is the guaranteed bound) -/
example : run t1 c6 5 (troubled t1 period db0) =
      { cur := [{ src := "s", ig := "i", num := 2, hash := hx '2' }, { src := "s", ig := "i", num := 4, hash := hx '4' },
                { src := "s", ig := "i", num := 5, hash := hx '5' }],
        rows := [foreign, row 1 "k1", row 2 "k2", row 3 "k3", row 4 "k4", row 5 "k5"] } ∧
    run t1 c6 5 (troubled t1 period db0) = run t1 c6 5 db0 ∧
    run t1 c6 2 (troubled t1 period db0) = run t1 c6 5 (troubled t1 period db0) ∧
    (run t1 c6 5 (troubled t1 period db0)).rows.filter (mine t1) =
      [row 1 "k1", row 2 "k2", row 3 "k3", row 4 "k4", row 5 "k5"] := by decide +kernel

/-- trouble may also strike between healthy steps: period, one healthy step, the period again
    (now every step of it errs or finds nothing matching), then healthy steps -/
example : run t1 c6 5 (troubled t1 period (run t1 c6 1 (troubled t1 period db0))) = run t1 c6 5 db0 := by
  decide +kernel

/-- the hypotheses of `converges_after_reorg` hold for the reorged state `dbR` (positions 2
    canonical and 4 orphaned, rows of the orphaned blocks 3 and 4), so its conclusion applies … -/
example :
    let db' := run t1 c6 5 (converge t1 dbR scR none).db
    Inv t1 c6 (t1.start - 1) db' ∧ KeysOK t1 c6 db' ∧
    (topOf (db'.cur.filter (mineC t1))).getD (t1.start - 1) = c6.head ∧
    db'.rows.filter (mine t1) = (c6.slice t1.start (c6.head - (t1.start - 1))).flatMap (rowsFor t1) ∧
    db'.rows.filter (mine t1) =
      (dbR.rows.filter fun r => mine t1 r && decide (r.blk ≤ g2.num)) ++
        (c6.slice (g2.num + 1) (c6.head - g2.num)).flatMap (rowsFor t1) :=
  converges_after_reorg t1 c6 dbR scR g2 c6_wf scR_ok (by decide) (by decide) (by decide) (by decide)
    (by decide +kernel) rfl rfl (by decide +kernel) (by decide +kernel) (by decide +kernel) (by decide +kernel)
    (by decide +kernel) (by decide +kernel) (by decide +kernel) (by decide +kernel) (by decide +kernel)
    (by decide +kernel) (by decide +kernel) 5 (by decide +kernel)

/-- … and the concrete run: the orphaned position 4 (hash `d`) and rows `o3`, `o4` are gone, the
    canonical rows `k3`, `k4`, `k5` are present once, rows `k1`, `k2` below the fork and the other
    integration's row are untouched; one healthy step after the unwinding step suffices -/
example : run t1 c6 5 (converge t1 dbR scR none).db =
      { cur := [g2, { src := "s", ig := "i", num := 4, hash := hx '4' }, { src := "s", ig := "i", num := 5, hash := hx '5' }],
        rows := [row 1 "k1", row 2 "k2", foreign, row 3 "k3", row 4 "k4", row 5 "k5"] } ∧
    run t1 c6 1 (converge t1 dbR scR none).db = run t1 c6 5 (converge t1 dbR scR none).db ∧
    (run t1 c6 5 (converge t1 dbR scR none).db).rows.filter (mine t1) =
      [row 1 "k1", row 2 "k2", row 3 "k3", row 4 "k4", row 5 "k5"] := by decide +kernel

/-- trouble after the reorg as well: the unwinding step, a troubled period, healthy steps -/
example : (run t1 c6 5 (troubled t1 period (converge t1 dbR scR none).db)).rows.filter (mine t1) =
    [row 1 "k1", row 2 "k2", row 3 "k3", row 4 "k4", row 5 "k5"] := by decide +kernel

end Ex

end Shovel.World

#print axioms Shovel.World.troubled_inv
#print axioms Shovel.World.converges_despite_faults
#print axioms Shovel.World.converges_despite_faults'
#print axioms Shovel.World.converges_after_reorg
