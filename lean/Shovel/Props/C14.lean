import Shovel.Model.Plan
/-
  C14 — every selectable field is actually fetched.
  The theorems are about the GENERATED planner tables (Gen/Glf.lean, Gen/Fields.lean are rewritten
  from /repo's source on every run), so editing a list or the step chain re-opens the obligations.
-/
namespace Shovel.Plan

/-- every non-trigger member of a step's list is a member of a later step's list -/
def WellOrdered : List RStep → Bool
  | [] => true
  | st :: rest => st.xs.all (fun x => st.ds.contains x || rest.any fun r => r.xs.contains x) && WellOrdered rest

theorem mem_difference {x : String} {ours : List String} {others : List (List String)} :
    x ∈ difference ours others ↔ x ∈ ours ∧ ∀ o ∈ others, x ∉ o := by
  simp [difference, List.mem_filter]

theorem anyIn_false {a b : List String} (h : anyIn a b = false) {x : String} (hx : x ∈ a) : x ∉ b := by
  intro hb
  have : anyIn a b = true := by
    simp only [anyIn, List.any_eq_true]
    exact ⟨x, hx, by simpa using hb⟩
  rw [h] at this; contradiction

/-- **chain lemma** (any lists, any needs): a needed field that occurs in some step's list ends up
    in the list of a step whose flag is set. -/
theorem planFrom_covers (steps : List RStep) (hwo : WellOrdered steps = true) (needs : List String)
    (f : String) (hf : f ∈ needs) (hx : ∃ st ∈ steps, f ∈ st.xs) :
    ∃ st ∈ steps, st.flag ∈ planFrom steps needs ∧ f ∈ st.xs := by
  induction steps generalizing needs with
  | nil => obtain ⟨st, hst, _⟩ := hx; simp at hst
  | cons st rest ih =>
    simp only [WellOrdered, Bool.and_eq_true, List.all_eq_true] at hwo
    obtain ⟨hhead, hrest⟩ := hwo
    unfold planFrom
    by_cases hany : anyIn needs st.ds = true
    · rw [if_pos hany]
      by_cases hfx : f ∈ st.xs
      · exact ⟨st, by simp, by simp, hfx⟩
      · have hf' : f ∈ difference needs [st.xs] := by
          rw [mem_difference]; exact ⟨hf, by simpa using hfx⟩
        have hx' : ∃ s ∈ rest, f ∈ s.xs := by
          obtain ⟨s, hs, hfs⟩ := hx
          rcases List.mem_cons.mp hs with rfl | hs
          · exact absurd hfs hfx
          · exact ⟨s, hs, hfs⟩
        obtain ⟨s, hs, hflag, hfs⟩ := ih hrest _ hf' hx'
        exact ⟨s, by simp [hs], by simp [hflag], hfs⟩
    · have hany' : anyIn needs st.ds = false := by simpa using hany
      rw [if_neg hany]
      have hx' : ∃ s ∈ rest, f ∈ s.xs := by
        by_cases hfx : f ∈ st.xs
        · have hnd : f ∉ st.ds := anyIn_false hany' hf
          have := hhead f hfx
          simp only [Bool.or_eq_true, List.contains_iff_mem, List.any_eq_true] at this
          rcases this with h | ⟨r, hr, hfr⟩
          · exact absurd h hnd
          · exact ⟨r, hr, hfr⟩
        · obtain ⟨s, hs, hfs⟩ := hx
          rcases List.mem_cons.mp hs with rfl | hs
          · exact absurd hfs hfx
          · exact ⟨s, hs, hfs⟩
      obtain ⟨s, hs, hflag, hfs⟩ := ih hrest _ hf hx'
      exact ⟨s, by simp [hs], hflag, hfs⟩

/-! ### facts about the generated tables (closed by kernel evaluation) -/

/-- the generated chain is well ordered -/
theorem gen_wellOrdered : WellOrdered rsteps = true := by decide +kernel

/-- every list name used by a step exists -/
theorem gen_names : (Shovel.Gen.Glf.steps.all fun s =>
    ((s.trigger :: s.remove :: s.minus).all fun n => (Shovel.Gen.Glf.lists.any (·.1 == n)))) = true := by
  decide +kernel

/-- whatever other flags are set, the fetch that `Get` performs for a set flag fills every field
    of that step's list (e.g. logs are covered by receipts, headers by blocks) -/
theorem gen_supplied : (rsteps.all fun st => st.xs.all fun f =>
    [true, false].all fun r => [true, false].all fun l => [true, false].all fun t =>
    [true, false].all fun b => [true, false].all fun h =>
      !flagBit st.flag r l t b h || suppliedByB r l t b h f) = true := by
  decide +kernel

/-- **known_complete**: every field name the row builder understands is planned by some list or
    is a context / computed field -/
theorem known_complete : (knownFields.all fun f =>
    contextFields.contains f || rsteps.any fun st => st.xs.contains f) = true := by
  decide +kernel

/-- flags only come from the five known names (so the boolean table of `gen_supplied` is exhaustive) -/
theorem gen_flags : (rsteps.map (·.flag)) = ["UseReceipts", "UseLogs", "UseTraces", "UseBlocks", "UseHeaders"] := by
  decide +kernel

theorem planFrom_flags (steps : List RStep) (needs : List String) (x : String)
    (h : x ∈ planFrom steps needs) : x ∈ steps.map (·.flag) := by
  induction steps generalizing needs with
  | nil => simp [planFrom] at h
  | cons st rest ih =>
    unfold planFrom at h
    split at h
    · rcases List.mem_cons.mp h with rfl | h
      · simp
      · simp [ih _ h]
    · simp [ih _ h]

theorem flagBit_of_mem (n : String) (flags : List String)
    (hn : n ∈ ["UseReceipts", "UseLogs", "UseTraces", "UseBlocks", "UseHeaders"]) (hm : n ∈ flags) :
    flagBit n (flags.contains "UseReceipts") (flags.contains "UseLogs") (flags.contains "UseTraces")
      (flags.contains "UseBlocks") (flags.contains "UseHeaders") = true := by
  have hc : flags.contains n = true := by simpa using hm
  simp only [List.mem_cons, List.not_mem_nil, or_false] at hn
  rcases hn with rfl | rfl | rfl | rfl | rfl <;> (rw [flagBit]; simp only [hc]; rfl)

theorem bool_mem (x : Bool) : x ∈ [true, false] := by cases x <;> simp

/-- **all_fetched** (C14): for EVERY set `S` of field names (all 2^28 subsets of the known fields
    and beyond), every known field in `S` is supplied by the fetches `Client.Get` performs for the
    plan `glf.New(S)`; no combination leaves a selected field at its zero value. -/
theorem all_fetched (S : List String) (f : String) (hf : f ∈ S) (hk : f ∈ knownFields) :
    suppliedBy (plan S) f = true := by
  have hkc := known_complete
  simp only [List.all_eq_true] at hkc
  have := hkc f hk
  simp only [Bool.or_eq_true, List.any_eq_true, List.contains_iff_mem] at this
  rcases this with hctx | ⟨st0, hst0, hfx0⟩
  · simp [suppliedBy, suppliedByB, hctx]
  · obtain ⟨st, hst, hflag, hfx⟩ := planFrom_covers rsteps gen_wellOrdered S f hf ⟨st0, hst0, hfx0⟩
    have hin : st.flag ∈ ["UseReceipts", "UseLogs", "UseTraces", "UseBlocks", "UseHeaders"] := by
      rw [← gen_flags]; exact List.mem_map_of_mem hst
    have hbit := flagBit_of_mem st.flag (plan S) hin hflag
    have hs := gen_supplied
    simp only [List.all_eq_true] at hs
    have h1 := hs st hst f hfx ((plan S).contains "UseReceipts") (bool_mem _) ((plan S).contains "UseLogs") (bool_mem _)
      ((plan S).contains "UseTraces") (bool_mem _) ((plan S).contains "UseBlocks") (bool_mem _)
      ((plan S).contains "UseHeaders") (bool_mem _)
    rw [hbit] at h1
    simpa [suppliedBy] using h1

/-! ## Non-vacuity -/
example : plan ["tx_gas_price", "log_idx", "block_time"] = ["UseLogs", "UseBlocks"] := by decide +kernel
example : suppliedBy (plan ["tx_status", "trace_action_from"]) "trace_action_from" = true := by decide +kernel
example : "tx_effective_gas_price" ∈ knownFields := by decide +kernel

end Shovel.Plan
