import Shovel.Model.Abi
import Shovel.Spec.Abi
import Shovel.Proofs.AbiFinal
/-
  C09 — scan_encode: the ABI log-data decoder (`resultScan`, model of dig.go `Result.Scan`/`scan`)
  applied to the standard ABI encoding `enc t v` (followed by arbitrary trailing bytes) yields
  exactly the rows of the row rule `rowsOf t v`.

  Proof outline (helper lemmas in `Shovel/Proofs/Abi*.lean`):
  * `AbiBase`   words (`word32`, `Buf.word`, `toI64`), positions (`At`), `slice`/`sliceFrom`;
  * `AbiLayout` layout of `enc`: static sizes, head lengths, `encTupParts`/`encArrParts` equations;
  * `AbiState`  decoder state: `writeCells`, `pushRows` (fresh, cleared rows), well-formedness;
  * `AbiStep`   one step of `scan`/`scanTup` on a buffer holding an encoding;
  * `AbiScan`   `scanL`: array-free mode, leaves are written into the current row;
  * `AbiArr`    the array loop (`loop_spec`);
  * `AbiRows`   `scanR`: row mode, scalars into the singleton, one fresh row per array element;
  * `AbiFinal`  `Result.Scan` wrapper: fallback row, broadcast, and `cellsToRow`.
-/
namespace Shovel.Abi

mutual
-- selected column positions in declaration (depth-first) order
def Ty.selList : Ty → List Nat
  | .stat s => s.toList
  | .dyn s => s.toList
  | .arr _ e => e.selList
  | .tup fs => fs.selList
def Tys.selList : Tys → List Nat
  | .nil => []
  | .cons t ts => t.selList ++ ts.selList
end

/-- the bytes a decoded cell denotes -/
def cellBytes (b : Buf) (c : Option (Nat × Nat)) : Option (List Nat) :=
  c.map fun (lo, hi) => (b.data.take hi).drop lo

def rowsBytes (b : Buf) (s : St) : List (List (Option (List Nat))) :=
  s.rows.map fun row => row.map (cellBytes b)

mutual
theorem Ty.selList_eq_sels : (t : Ty) → t.selList = t.sels
  | .stat _ => rfl
  | .dyn _ => rfl
  | .arr _ e => by rw [Ty.selList, Ty.sels]; exact Ty.selList_eq_sels e
  | .tup fs => by rw [Ty.selList, Ty.sels]; exact Tys.selList_eq_sels fs
theorem Tys.selList_eq_sels : (fs : Tys) → fs.selList = fs.sels
  | .nil => rfl
  | .cons t ts => by rw [Tys.selList, Tys.sels, Ty.selList_eq_sels t, Tys.selList_eq_sels ts]
end

/-- **scan_encode** (C09).  For every type tree in the declaration domain whose selected leaves
    are numbered 0..n-1 in declaration order (what `Event.ABIType` produces), every well-typed
    value, every trailing byte string `rest`, every capacity, and every previous state of the
    (reused) decoder: decoding the standard ABI encoding yields exactly the rows of the row rule. -/
theorem scan_encode (t : Ty) (v : Val) (rest : List Nat) (cap : Nat) (s : St)
    (hdom : t.inDomain = true) (hsel : t.selList = List.range t.nsel)
    (hwt : WellTyped t v = true)
    (hsize : (enc t v ++ rest).length < 2 ^ 63) (hcap : (enc t v ++ rest).length ≤ cap)
    (hs : s.ncols = t.nsel ∧ s.single.length = t.nsel ∧ (∀ row ∈ s.coll, row.length = t.nsel) ∧ s.n ≤ s.coll.length) :
    ∃ s', resultScan ⟨enc t v ++ rest, cap⟩ t s = .ok s' ∧
          rowsBytes ⟨enc t v ++ rest, cap⟩ s' = rowsOf t v := by
  rw [Ty.selList_eq_sels] at hsel
  exact scan_encode_core t v rest cap s hdom hsel hwt hsize hcap hs

/-- the state hypothesis of `scan_encode` is satisfiable: a fresh `NewResult(t)` meets it -/
theorem scan_encode_newResult (t : Ty) (v : Val) (rest : List Nat) (cap : Nat)
    (hdom : t.inDomain = true) (hsel : t.selList = List.range t.nsel)
    (hwt : WellTyped t v = true)
    (hsize : (enc t v ++ rest).length < 2 ^ 63) (hcap : (enc t v ++ rest).length ≤ cap) :
    ∃ s', resultScan ⟨enc t v ++ rest, cap⟩ t (newResult t) = .ok s' ∧
          rowsBytes ⟨enc t v ++ rest, cap⟩ s' = rowsOf t v :=
  scan_encode t v rest cap (newResult t) hdom hsel hwt hsize hcap
    ⟨rfl, by simp [newResult, emptyRow], by simp [newResult], Nat.le_refl _⟩

end Shovel.Abi

#print axioms Shovel.Abi.scan_encode
#print axioms Shovel.Abi.scan_encode_newResult
