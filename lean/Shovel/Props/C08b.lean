import Shovel.Model.Race
/-
  C08 — tie of the cache model's atomicity assumptions to the source (regenerated lock skeleton):
  the read budget is enforced in `cache.pruneMaxRead`, which WAITS for each segment's lock (an
  unconditional `v.Lock()`, not a `TryLock` that skips a segment whose fetch is in flight) before it
  looks at the segment's read counter and drops the segment; and `cache.get` looks the segment up and
  prunes under the cache lock, then reads / fetches under the segment lock (`Cache.lookupStep` /
  `Cache.readStep` are exactly these two critical sections).
-/
namespace Shovel.Cache
open Shovel.Gen.Locks Shovel.Race

theorem prune_waits :
    ((match events.find? (·.1 == "jrpc2.cache.pruneMaxRead") with
      | some e => e.2.head? == some (.lock "v") && e.2.contains (.unlock "v")
      | none => false) &&
     guarded "jrpc2.cache.pruneMaxRead" ["c.segments[]"] "v" &&
     guarded "jrpc2.cache.get" ["c.segments"] "c" &&
     guarded "jrpc2.cache.get" ["seg.nreads", "seg.d", "seg.done"] "seg") = true := by
  decide +kernel

end Shovel.Cache
