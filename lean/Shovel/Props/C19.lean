import Shovel.Model.Auth
import Shovel.Gen.Routes
/-
  C19 — dashboard pages that change configuration require authentication.
-/
namespace Shovel.Auth

/-- **served_iff**: a protected handler runs iff authentication is disabled, or the request is
    from a loopback address while loopback authentication is not enforced, or it carries a session
    minted by this process; otherwise the answer is the redirect to the login page. -/
theorem served_iff (cfg : Cfg) (myKey : Nat) (lb : Bool) (c : Cookie) :
    authn cfg myKey lb c = .served ↔
      (cfg.disableAuthn = true ∨ (cfg.enableLoopbackAuthn = false ∧ lb = true) ∨ c = .minted myKey) := by
  unfold authn sessionOK
  cases cfg with
  | mk d e =>
    cases d <;> cases e <;> cases lb <;> cases c <;> simp

theorem not_served_redirect (cfg : Cfg) (myKey : Nat) (lb : Bool) (c : Cookie)
    (h : authn cfg myKey lb c ≠ .served) : authn cfg myKey lb c = .redirectLogin := by
  cases hr : authn cfg myKey lb c with
  | served => exact absurd hr h
  | redirectLogin => rfl

/-- **login_sound**: a session is issued only by a POST whose password matches; a wrong password
    never issues one. -/
theorem login_sound (myKey : Nat) (method : String) (ok : Bool) (k : Nat)
    (h : login myKey method ok = .issued k) : method = "POST" ∧ ok = true ∧ k = myKey := by
  unfold login at h
  by_cases hg : (method == "GET") = true
  · simp [hg] at h
  · by_cases hp : (method == "POST") = true
    · cases ok
      · simp [hg, hp] at h
      · simp [hg, hp] at h
        exact ⟨(beq_iff_eq).mp hp, rfl, h.symm⟩
    · simp [hg, hp] at h

/-- over every request history: the set of issued tokens only ever contains this process' key and
    grows only by a correct-password POST; a protected request with a cookie minted by another
    process (another key) is served only through the two configuration switches. -/
theorem history_inv (cfg : Cfg) (myKey : Nat) (reqs : List Req) :
    let issued := reqs.foldl (fun acc r => (step cfg myKey acc r).1) []
    (∀ k ∈ issued, k = myKey) ∧
    (issued ≠ [] → ∃ r ∈ reqs, r matches .loginReq "POST" true) := by
  suffices h : ∀ (init : Issued), (∀ k ∈ init, k = myKey) →
      (∀ k ∈ reqs.foldl (fun acc r => (step cfg myKey acc r).1) init, k = myKey) ∧
      (reqs.foldl (fun acc r => (step cfg myKey acc r).1) init ≠ init → ∃ r ∈ reqs, r matches .loginReq "POST" true) by
    have := h [] (by simp)
    exact this
  induction reqs with
  | nil => intro init hi; exact ⟨hi, fun h => absurd rfl h⟩
  | cons r rest ih =>
    intro init hi
    simp only [List.foldl_cons]
    cases r with
    | protectedReq lb c =>
      have := ih init hi
      simp only [step] at *
      exact ⟨this.1, fun hne => by obtain ⟨r, hr, hm⟩ := this.2 hne; exact ⟨r, by simp [hr], hm⟩⟩
    | loginReq m ok =>
      simp only [step]
      cases hl : login myKey m ok with
      | issued k =>
        obtain ⟨hm, hok, hk⟩ := login_sound myKey m ok k hl
        have hi' : ∀ x ∈ k :: init, x = myKey := by
          intro x hx; rcases List.mem_cons.mp hx with rfl | hx
          · exact hk
          · exact hi x hx
        have := ih (k :: init) hi'
        simp only [hl] at *
        refine ⟨this.1, fun _ => ⟨.loginReq m ok, by simp, ?_⟩⟩
        subst hm; subst hok; rfl
      | page =>
        have := ih init hi
        simp only [hl] at *
        exact ⟨this.1, fun hne => by obtain ⟨r, hr, hm⟩ := this.2 hne; exact ⟨r, by simp [hr], hm⟩⟩
      | unauthorized =>
        have := ih init hi
        simp only [hl] at *
        exact ⟨this.1, fun hne => by obtain ⟨r, hr, hm⟩ := this.2 hne; exact ⟨r, by simp [hr], hm⟩⟩
      | badMethod =>
        have := ih init hi
        simp only [hl] at *
        exact ⟨this.1, fun hne => by obtain ⟨r, hr, hm⟩ := this.2 hne; exact ⟨r, by simp [hr], hm⟩⟩

open Shovel.Gen.Routes

/-- **routes_wrapped** (over the routes regenerated from cmd/shovel/main.go): every handler that
    changes or exposes the stored configuration is registered through `Authn`. -/
theorem routes_wrapped :
    (["wh.SaveSource", "wh.SaveIntegration", "wh.AddSource", "wh.AddIntegration", "wh.Updates"].all fun h =>
      routes.any (fun r => r.2.1 == h) && routes.all (fun r => r.2.1 != h || r.2.2)) = true := by
  decide +kernel

/-- **wrappers_pass_request_unchanged** (over the facts regenerated from cmd/shovel/main.go): the
    handlers wrapped around the whole route table (today: the access log) hand the request they received
    on to the routes — no statement of theirs writes its remote address, a header or a cookie, or
    substitutes another request. So the address `Authn` classifies is the connection's, not one a
    client claimed in a header. -/
theorem wrappers_pass_request_unchanged : wrapperRequestWrites = [] := by decide +kernel

/-- **session_key_encapsulated** (C19): the model's `myKey` — the process' cookie key pair — is private to the
    gate. In shovel/web/web.go the session configuration holding it is touched in exactly four places: `New`
    appends the freshly generated key, `Login` sets the cookie attributes and mints through `session.Set`,
    `Authn` verifies through `session.Get`. No handler (open or protected) reads the key, so no response can
    carry either half of it and a cookie `Authn` accepts can only have been minted by `Login`. -/
theorem session_key_encapsulated :
    sessUses = ["New: h.sess.Keys", "Authn: session.Get", "Login: h.sess.Cookie", "Login: session.Set"] := by
  decide +kernel

/-! non-vacuity -/
example : wrappers ≠ [] := by decide
example : authn ⟨false, true, ⟩ 7 true .none = .redirectLogin := by decide
example : authn ⟨false, false⟩ 7 true .garbage = .served := by decide
example : authn ⟨false, true⟩ 7 false (.minted 8) = .redirectLogin := by decide
example : authn ⟨false, true⟩ 7 false (.minted 7) = .served := by decide

end Shovel.Auth
