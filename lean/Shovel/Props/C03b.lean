import Shovel.Gen.Sql

/-! The model's rollback (`World.delView t v n`) removes, of the positions and of the rows, exactly those that
    are this pair's (`mineC` / `mine`: source name and integration name) AND lie at or above `n` — nothing else,
    with no upper bound. This file ties that to the statements the source sends: regenerated on every run. -/
namespace Shovel.World

open Shovel.Gen.Sql

/-- **rollback_statements** (C03, C02): a reorg rollback consists of exactly three database calls —
    `Task.Delete` deletes the positions `src_name = $1 and ig_name = $2 and num >= $3` bound to the task's own
    source, integration and `n`; it reads the newest remaining position of the same pair; and
    `Integration.Delete` deletes the rows `src_name = $1 and ig_name = $2 and block_num >= $3` bound to the
    context's source, the integration's own name and `n`. The predicates are those of the model's `delView`:
    the pair's stamp and a LOWER bound only (no upper bound, no other pair, no other column). -/
theorem rollback_statements :
    rollbackCalls =
      ["Task.Delete Exec: delete from shovel.task_updates where src_name = $1 and ig_name = $2 and num >= $3 <- t.srcName, t.destConfig.Name, n",
       "Task.Delete QueryRow: select num from shovel.task_updates where src_name = $1 and ig_name = $2 order by num desc limit 1 <- t.srcName, t.destConfig.Name",
       "Integration.Delete Exec: delete from %s where src_name = $1 and ig_name = $2 and block_num >= $3 <- wctx.SrcName(ctx), ig.name, n"] := by
  decide +kernel

end Shovel.World
