import Shovel.Gen.Sql

/-! The model's rollback (`World.delView t v n`) removes, of the positions and of the rows, exactly those that
    are this pair's (`mineC` / `mine`: source name and integration name) AND lie at or above `n` — nothing else,
    with no upper bound. This file ties that to the statements the source sends: regenerated on every run. -/
namespace Shovel.World

open Shovel.Gen.Sql

/-- **rollback_statements** (C03, C02): a reorg rollback consists of exactly three database calls —
    `Task.Delete` deletes the positions `src_name = $1 and ig_name = $2 and num >= $3` bound to the task's own
    source, integration and `n`; it reads the newest remaining position of the same pair; and
    `Integration.Delete` deletes the rows `src_name = $1 and ig_name = $2 and block_num >= $3` bound to the
    context's source, the integration's own name and `n`. The predicates are those of the model's `delView`:
    the pair's stamp and a LOWER bound only (no upper bound, no other pair, no other column). -/
theorem rollback_statements :
    rollbackCalls =
      ["Task.Delete Exec: delete from shovel.task_updates where src_name = $1 and ig_name = $2 and num >= $3 <- t.srcName, t.destConfig.Name, n",
       "Task.Delete QueryRow: select num from shovel.task_updates where src_name = $1 and ig_name = $2 order by num desc limit 1 <- t.srcName, t.destConfig.Name",
       "Integration.Delete Exec: delete from %s where src_name = $1 and ig_name = $2 and block_num >= $3 <- wctx.SrcName(ctx), ig.name, n"] := by
  decide +kernel

/-- **position_statements** (C01, C02, C05, C04): the statements by which a task reads and records its position
    are the model's. `latest` is "the newest position of this (source, integration)" (`DB.latestCur`: stamp
    equality, `order by num desc limit 1`); `latestDependency` is "per referenced integration its newest position
    on this source, the smallest of them first" (`depTarget`); `update` inserts one position row stamped with the
    task's own source and integration; the pruning statement partitions BY THE PAIR and keeps the `$1` newest
    positions of each (`World.prune`). -/
theorem position_statements :
    positionCalls =
      ["latest QueryRow: select num, hash from shovel.task_updates where src_name = $1 and ig_name = $2 order by num desc limit 1 <- t.srcName, t.destConfig.Name",
       "latestDependency Query: with latest as ( select distinct on (ig_name) ig_name, num, hash from shovel.task_updates where src_name = $1 and ig_name = ANY($2) order by ig_name, num desc ) select num, hash from latest order by num asc <- t.srcName, t.destConfig.Dependencies",
       "update Exec: insert into shovel.task_updates ( chain_id, src_name, ig_name, num, hash, src_num, src_hash, stop, nblocks, nrows, latency ) values ($1, $2, $3, $4, $5, $6, $7, $8, $9, $10, $11) <- t.srcChainID, t.srcName, t.destConfig.Name, num, hash, srcNum, srcHash, t.stop, nblocks, nrows, elapsed",
       "PruneTask Exec: delete from shovel.task_updates where (src_name, ig_name, num) not in ( select src_name, ig_name, num from ( select src_name, ig_name, num, row_number() over(partition by src_name, ig_name order by num desc) as rn from shovel.task_updates ) as s where rn <= $1 ) <- n"] := by
  decide +kernel

end Shovel.World
