import Shovel.Props.Rows
import Shovel.Spec.RowTx
/-
  C11 / C12 on the transaction- / trace-indexing path: `processTx` (`Shovel/Model/Row.lean`) meets
  `specTxRows` (`Shovel/Spec/RowTx.lean`).

  * `processTx_spec`   whenever the specification fixes the rows, the model produces exactly those
      `numSelected_eq`   the model's count of selected inputs vs. the spec's `selWithTop`
      `txGo_spec`        `processTx.go` vs. `txCells` / `txEvals`, aggregate `= truths.foldl Frs.add`
  * `processTx_total`  `processTx` never panics / over-reads (`accept_total`: `accept` only ever
                       answers `.ok` or `.err`, so no guard on `d.block` is needed)
  * `processTx_cells`  C11 alone: an emitted row is the list of the named item fields
  * non-vacuity examples (namespace `ExampleTx`)
-/
set_option linter.unusedSimpArgs false
namespace Shovel.Row
open Shovel.Abi

/-! ### selected inputs -/

theorem numSelected_eq (d : Decl) : d.numSelected = (selWithTop d.inputs 0).length := by
  unfold Decl.numSelected
  rw [inputCols_eq (fun k => ownTopic.count d.inputs (k + 1)) d.inputs 0 0 (by intro j; simp)]
  simp

theorem numSelected_pos (d : Decl) : d.numSelected > 0 ↔ hasSelected d = true := by
  rw [numSelected_eq]
  unfold hasSelected
  cases selWithTop d.inputs 0 <;> simp

/-! ### the filters -/

theorem holds_inactive (refs : Refs) (f : Filter) (v : DVal) (h : f.active = false) :
    holds refs f v = none := by
  cases hh : holds refs f v with
  | none => rfl
  | some r => rw [holds_active refs f v r hh] at h; cases h

/-- the evaluations of the active filters of a block-column list -/
def evalsOf (refs : Refs) (ctx : Ctx) (block : List (String × Filter)) : List (Res Bool) :=
  (block.filter fun p => p.2.active).filterMap fun p => holds refs p.2 (ctx.get p.1)

theorem evalsOf_cons_none (refs : Refs) (ctx : Ctx) (n : String) (f : Filter)
    (rest : List (String × Filter)) (h : holds refs f (ctx.get n) = none) :
    evalsOf refs ctx ((n, f) :: rest) = evalsOf refs ctx rest := by
  unfold evalsOf
  rw [List.filter_cons]
  split
  · rw [List.filterMap_cons]; simp only [h]
  · rfl

theorem evalsOf_cons_some (refs : Refs) (ctx : Ctx) (n : String) (f : Filter)
    (rest : List (String × Filter)) (r : Res Bool) (h : holds refs f (ctx.get n) = some r) :
    evalsOf refs ctx ((n, f) :: rest) = r :: evalsOf refs ctx rest := by
  unfold evalsOf
  have ha : f.active = true := holds_active refs f _ r h
  rw [List.filter_cons]
  simp only [ha, if_true]
  rw [List.filterMap_cons]; simp only [h]

/-- the row loop of `processTx`: cells are the named fields, the aggregate is the fold of the truth
    values of the active filters -/
theorem txGo_spec (refs : Refs) (ctx : Ctx) (block : List (String × Filter)) (frs : Frs)
    (h : (evalsOf refs ctx block).all (fun r => (truthOf r).isSome) = true) :
    processTx.go refs ctx block frs =
      .ok (block.map (fun p => ctx.get p.1), ((evalsOf refs ctx block).filterMap truthOf).foldl Frs.add frs) := by
  induction block generalizing frs with
  | nil => simp [processTx.go, evalsOf]
  | cons p rest ih =>
    obtain ⟨n, f⟩ := p
    simp only [processTx.go, List.map_cons]
    cases hh : holds refs f (ctx.get n) with
    | none =>
      rw [evalsOf_cons_none _ _ _ _ _ hh] at h ⊢
      rw [accept_none _ _ _ _ hh]
      simp only [ih _ h]
    | some r =>
      rw [evalsOf_cons_some _ _ _ _ _ _ hh] at h ⊢
      rw [List.all_cons, Bool.and_eq_true] at h
      cases r with
      | ok b =>
        rw [accept_ok _ _ _ _ _ hh]
        simp only [ih _ h.2, List.filterMap_cons, truthOf, List.foldl_cons]
      | err => simp [truthOf] at h
      | panic => simp [truthOf] at h
      | overread => simp [truthOf] at h

/-- **C11 / C12, tx and trace indexing**: whenever the specification fixes the rows of an item, the
    model produces exactly those rows -/
theorem processTx_spec (refs : Refs) (d : Decl) (ctx : Ctx) (rows : List (List DVal))
    (h : specTxRows refs d ctx = .rows rows) : processTx refs d ctx = .ok rows := by
  unfold specTxRows at h
  unfold processTx
  by_cases hs : hasSelected d = true
  · rw [if_pos hs] at h
    injection h with h; subst h
    rw [if_pos ((numSelected_pos d).mpr hs)]
  · rw [if_neg hs] at h
    rw [if_neg (fun hp => hs ((numSelected_pos d).mp hp))]
    by_cases he : d.block.isEmpty = true
    · rw [if_pos he] at h
      injection h with h; subst h
      rw [if_pos he]
    · rw [if_neg he] at h
      rw [if_neg he]
      dsimp only at h
      by_cases hall : (txEvals refs d ctx).all (fun r => (truthOf r).isSome) = true
      · rw [if_pos hall] at h
        injection h with h; subst h
        have hgo := txGo_spec refs ctx d.block { kind := d.agg } hall
        simp only [hgo, agg_fold]
        rfl
      · rw [if_neg hall] at h
        cases h

/-! ### totality -/

/-- `Filter.Accept` of the model only ever answers `.ok` or `.err`: every argument access is
    guarded by a match on the argument list -/
theorem accept_total (refs : Refs) (f : Filter) (v : DVal) (frs : Frs) :
    accept refs f v frs ≠ .panic ∧ accept refs f v frs ≠ .overread := by
  unfold accept
  constructor <;> (repeat' split) <;> simp

theorem txGo_total (refs : Refs) (ctx : Ctx) (block : List (String × Filter)) (frs : Frs) :
    processTx.go refs ctx block frs ≠ .panic ∧ processTx.go refs ctx block frs ≠ .overread := by
  induction block generalizing frs with
  | nil => simp [processTx.go]
  | cons p rest ih =>
    obtain ⟨n, f⟩ := p
    simp only [processTx.go]
    have ha := accept_total refs f (ctx.get n) frs
    cases hacc : accept refs f (ctx.get n) frs with
    | ok frs' =>
      have := ih frs'
      dsimp only
      cases hg : processTx.go refs ctx rest frs' with
      | ok r => simp
      | err => simp
      | panic => exact absurd hg this.1
      | overread => exact absurd hg this.2
    | err => simp
    | panic => exact absurd hacc ha.1
    | overread => exact absurd hacc ha.2

/-- `processTx` neither panics nor over-reads, for every declaration and item (no guard needed:
    `accept` cannot panic, see `accept_total`) -/
theorem processTx_total (refs : Refs) (d : Decl) (ctx : Ctx) :
    processTx refs d ctx ≠ .panic ∧ processTx refs d ctx ≠ .overread := by
  unfold processTx
  have := txGo_total refs ctx d.block { kind := d.agg }
  split
  · simp
  · split
    · simp
    · cases hg : processTx.go refs ctx d.block { kind := d.agg } with
      | ok r => simp
      | err => simp
      | panic => exact absurd hg this.1
      | overread => exact absurd hg this.2

/-! ### C11 alone -/

theorem txGo_cells (refs : Refs) (ctx : Ctx) (block : List (String × Filter)) (frs : Frs)
    (r : List DVal) (f : Frs) (h : processTx.go refs ctx block frs = .ok (r, f)) :
    r = block.map (fun p => ctx.get p.1) := by
  induction block generalizing frs r f with
  | nil =>
    simp only [processTx.go] at h
    injection h with h; injection h with h1 h2
    simp [← h1]
  | cons p rest ih =>
    obtain ⟨n, flt⟩ := p
    simp only [processTx.go] at h
    cases hacc : accept refs flt (ctx.get n) frs with
    | ok frs' =>
      rw [hacc] at h
      dsimp only at h
      cases hg : processTx.go refs ctx rest frs' with
      | ok q =>
        obtain ⟨r', f'⟩ := q
        rw [hg] at h
        dsimp only at h
        injection h with h; injection h with h1 h2
        rw [← h1, List.map_cons, ← ih _ _ _ hg]
      | err => rw [hg] at h; cases h
      | panic => rw [hg] at h; cases h
      | overread => rw [hg] at h; cases h
    | err => rw [hacc] at h; cases h
    | panic => rw [hacc] at h; cases h
    | overread => rw [hacc] at h; cases h

/-- **C11**: an emitted row has one cell per block-data column, in declaration order, holding the
    item field the column names — whatever the filters are -/
theorem processTx_cells (refs : Refs) (d : Decl) (ctx : Ctx) (row : List DVal)
    (h : processTx refs d ctx = .ok [row]) : row = d.block.map (fun p => ctx.get p.1) := by
  unfold processTx at h
  split at h
  · cases h
  · split at h
    · cases h
    · cases hg : processTx.go refs ctx d.block { kind := d.agg } with
      | ok q =>
        obtain ⟨r, f⟩ := q
        rw [hg] at h
        dsimp only at h
        injection h with h
        split at h
        · injection h with h1 _
          rw [← h1]
          exact txGo_cells refs ctx d.block _ r f hg
        · cases h
      | err => rw [hg] at h; cases h
      | panic => rw [hg] at h; cases h
      | overread => rw [hg] at h; cases h

/-! ### non-vacuity: a transaction-indexing declaration with three block fields -/

namespace ExampleTx

/-- `tx_input` must contain the ERC-20 `transfer` selector, `block_num` must exceed 100, `tx_hash`
    is carried without a filter -/
def declOf (agg : String) : Decl where
  inputs := .nil
  inputFilters := []
  block := [("tx_input", { op := "contains", args := ["0xa9059cbb"] }),
            ("block_num", { op := "gt", args := ["100"] }),
            ("tx_hash", {})]
  agg := agg
  sighash := []

def input : List Nat := [0xa9, 0x05, 0x9c, 0xbb, 0x00, 0x01]      -- transfer(...)
def inputOther : List Nat := [0x09, 0x5e, 0xa7, 0xb3, 0x00, 0x01] -- approve(...)
def hash : List Nat := [0xde, 0xad, 0xbe, 0xef]

/-- the item context; it carries more fields than the declaration names, in another order -/
def ctxOf (inp : List Nat) (num : Nat) : Ctx :=
  [("tx_hash", .bytes hash), ("tx_idx", .u64 7), ("block_num", .u64 num), ("tx_input", .bytes inp)]

def rowOf (inp : List Nat) (num : Nat) : List DVal := [.bytes inp, .u64 num, .bytes hash]

/-! aggregation "and" -/
example : specTxRows [] (declOf "and") (ctxOf input 150) = .rows [rowOf input 150] := by decide +kernel
example : processTx [] (declOf "and") (ctxOf input 150) = .ok [rowOf input 150] := by decide +kernel
/-- … and through the theorem: its hypothesis is satisfiable -/
example : processTx [] (declOf "and") (ctxOf input 150) = .ok [rowOf input 150] :=
  processTx_spec [] (declOf "and") (ctxOf input 150) _ (by decide +kernel)
example : rowOf input 150 = (declOf "and").block.map (fun p => (ctxOf input 150).get p.1) :=
  processTx_cells [] (declOf "and") (ctxOf input 150) _ (by decide +kernel)
/-- rejected: the selector matches but the block number does not exceed 100 -/
example : specTxRows [] (declOf "and") (ctxOf input 50) = .rows [] := by decide +kernel
example : processTx [] (declOf "and") (ctxOf input 50) = .ok [] := by decide +kernel
example : processTx [] (declOf "and") (ctxOf input 50) = .ok [] :=
  processTx_spec [] (declOf "and") (ctxOf input 50) _ (by decide +kernel)

/-! aggregation "or" -/
/-- the same item is emitted under "or": one filter holds -/
example : specTxRows [] (declOf "or") (ctxOf input 50) = .rows [rowOf input 50] := by decide +kernel
example : processTx [] (declOf "or") (ctxOf input 50) = .ok [rowOf input 50] := by decide +kernel
example : specTxRows [] (declOf "or") (ctxOf inputOther 150) = .rows [rowOf inputOther 150] := by decide +kernel
example : processTx [] (declOf "or") (ctxOf inputOther 150) = .ok [rowOf inputOther 150] := by decide +kernel
/-- rejected: no filter holds -/
example : specTxRows [] (declOf "or") (ctxOf inputOther 50) = .rows [] := by decide +kernel
example : processTx [] (declOf "or") (ctxOf inputOther 50) = .ok [] := by decide +kernel

/-! a field the item does not carry is a NULL cell; a column list without filters is always emitted -/
def plain : Decl := { inputs := .nil, inputFilters := [], block := [("tx_hash", {}), ("trace_action_idx", {})],
                      agg := "", sighash := [] }
example : specTxRows [] plain (ctxOf input 1) = .rows [[.bytes hash, .null]] := by decide +kernel
example : processTx [] plain (ctxOf input 1) = .ok [[.bytes hash, .null]] := by decide +kernel

/-! an event declaration (selected inputs), or one without block columns, yields nothing here -/
def withInput : Decl := { declOf "and" with inputs := .cons (.mk false true "uint256".toList .nil) .nil }
example : specTxRows [] withInput (ctxOf input 150) = .rows [] := by decide +kernel
example : processTx [] withInput (ctxOf input 150) = .ok [] := by decide +kernel
example : specTxRows [] { declOf "and" with block := [] } (ctxOf input 150) = .rows [] := by decide +kernel

/-! an unparsable filter argument: the specification leaves the outcome open, the model errs (and,
    by `processTx_total`, never panics) -/
def badArg : Decl := { declOf "and" with block := [("block_num", { op := "gt", args := ["0x64"] })] }
example : specTxRows [] badArg (ctxOf input 150) = .unspecified := by decide +kernel
example : processTx [] badArg (ctxOf input 150) = .err := by decide +kernel

end ExampleTx

end Shovel.Row

#print axioms Shovel.Row.processTx_spec
#print axioms Shovel.Row.processTx_total
#print axioms Shovel.Row.processTx_cells
