import Shovel.Model.Manager
/-
  C20 — the manager runs exactly the configured tasks, one runner each, across restarts; the file
  wins on a name clash; an unknown source is an error; after a restart every runner of the previous
  generation has stopped.
-/
namespace Shovel.Manager

/-! ### configuration merge -/

section Merge
variable {α : Type} (key : α → String)

/-- the fold both `mergeIg` and `mergeSrc` are instances of -/
def mergeAcc (acc : List α) (l : List α) : List α :=
  l.foldl (fun acc x => acc.filter (fun y => key y != key x) ++ [x]) acc

theorem mergeAcc_nil (acc : List α) : mergeAcc key acc [] = acc := rfl

theorem mergeAcc_cons (acc : List α) (x : α) (l : List α) :
    mergeAcc key acc (x :: l) = mergeAcc key (acc.filter (fun y => key y != key x) ++ [x]) l := rfl

theorem mergeAcc_nodup (l : List α) : ∀ acc : List α, (acc.map key).Nodup →
    ((mergeAcc key acc l).map key).Nodup := by
  induction l with
  | nil => intro acc h; exact h
  | cons x l ih =>
    intro acc h
    rw [mergeAcc_cons]
    apply ih
    rw [List.map_append, List.nodup_append]
    refine ⟨?_, by simp, ?_⟩
    · exact List.Nodup.sublist (List.Sublist.map key List.filter_sublist) h
    · intro a ha b hb
      simp only [List.map_cons, List.map_nil, List.mem_singleton] at hb
      subst hb
      simp only [List.mem_map, List.mem_filter] at ha
      obtain ⟨y, ⟨_, hy⟩, rfl⟩ := ha
      simpa using hy

theorem mergeAcc_mem_key (l : List α) : ∀ (acc : List α) (n : String),
    (∃ x ∈ mergeAcc key acc l, key x = n) ↔ ((∃ x ∈ acc, key x = n) ∨ (∃ x ∈ l, key x = n)) := by
  induction l with
  | nil => intro acc n; simp [mergeAcc_nil]
  | cons x l ih =>
    intro acc n
    rw [mergeAcc_cons, ih]
    constructor
    · rintro (⟨y, hy, rfl⟩ | ⟨y, hy, rfl⟩)
      · simp only [List.mem_append, List.mem_filter, List.mem_singleton] at hy
        rcases hy with ⟨hy, _⟩ | rfl
        · exact Or.inl ⟨y, hy, rfl⟩
        · exact Or.inr ⟨y, by simp, rfl⟩
      · exact Or.inr ⟨y, by simp [hy], rfl⟩
    · rintro (⟨y, hy, rfl⟩ | ⟨y, hy, rfl⟩)
      · by_cases hk : key y = key x
        · exact Or.inl ⟨x, by simp, hk.symm⟩
        · exact Or.inl ⟨y, by simp [hy, hk], rfl⟩
      · simp only [List.mem_cons] at hy
        rcases hy with rfl | hy
        · exact Or.inl ⟨y, by simp, rfl⟩
        · exact Or.inr ⟨y, hy, rfl⟩

/-- every survivor is the LAST entry of its name in the consumed list -/
theorem mergeAcc_last (l : List α) : ∀ (pre acc : List α),
    (∀ y ∈ acc, pre.reverse.find? (fun z => key z == key y) = some y) →
    ∀ y ∈ mergeAcc key acc l, (pre ++ l).reverse.find? (fun z => key z == key y) = some y := by
  induction l with
  | nil => intro pre acc h y hy; simpa using h y hy
  | cons x l ih =>
    intro pre acc h y hy
    rw [mergeAcc_cons] at hy
    have := ih (pre ++ [x]) _ ?_ y hy
    · simpa using this
    · intro z hz
      simp only [List.mem_append, List.mem_filter, List.mem_singleton] at hz
      rcases hz with ⟨hz, hne⟩ | rfl
      · have hne' : (key x == key z) = false := by
          simp only [bne_iff_ne, ne_eq] at hne
          simp only [beq_eq_false_iff_ne, ne_eq]
          exact fun e => hne e.symm
        simp only [List.reverse_append, List.reverse_cons, List.reverse_nil, List.nil_append,
          List.singleton_append, List.find?_cons, hne']
        exact h z hz
      · simp

end Merge

/-- the entry a name resolves to: the file's if the file has one, else the database's (the last
    one wins inside a list) -/
def resolveIg (db file : List IgCfg) (n : String) : Option IgCfg :=
  match file.reverse.find? (·.name == n) with
  | some x => some x
  | none => db.reverse.find? (·.name == n)

def resolveSrc (db file : List SrcCfg) (n : String) : Option SrcCfg :=
  match file.reverse.find? (·.name == n) with
  | some x => some x
  | none => db.reverse.find? (·.name == n)

theorem resolveIg_eq (db file : List IgCfg) (n : String) :
    resolveIg db file n = (db ++ file).reverse.find? (fun z => z.name == n) := by
  unfold resolveIg
  rw [List.reverse_append, List.find?_append]
  cases file.reverse.find? (fun z => z.name == n) <;> rfl

theorem resolveSrc_eq (db file : List SrcCfg) (n : String) :
    resolveSrc db file n = (db ++ file).reverse.find? (fun z => z.name == n) := by
  unfold resolveSrc
  rw [List.reverse_append, List.find?_append]
  cases file.reverse.find? (fun z => z.name == n) <;> rfl

theorem mergeIg_eq (db file : List IgCfg) : mergeIg db file = mergeAcc (·.name) [] (db ++ file) := rfl
theorem mergeSrc_eq (db file : List SrcCfg) : mergeSrc db file = mergeAcc (·.name) [] (db ++ file) := rfl

/-- **merge_precedence** (C20): the merged configuration has exactly one entry per name, and it is
    the file's entry whenever the file defines that name. -/
theorem merge_precedence (db file : List IgCfg) :
    ((mergeIg db file).map (·.name)).Nodup ∧
    (∀ n, (∃ x ∈ mergeIg db file, x.name = n) ↔ (∃ x ∈ db ++ file, x.name = n)) ∧
    (∀ x ∈ mergeIg db file, resolveIg db file x.name = some x) := by
  rw [mergeIg_eq]
  refine ⟨mergeAcc_nodup _ _ _ (by simp), fun n => ?_, fun x hx => ?_⟩
  · rw [mergeAcc_mem_key]; simp
  · rw [resolveIg_eq]
    have := mergeAcc_last (fun z : IgCfg => z.name) (db ++ file) [] [] (by simp) x hx
    simpa using this

theorem merge_precedence_src (db file : List SrcCfg) :
    ((mergeSrc db file).map (·.name)).Nodup ∧
    (∀ n, (∃ x ∈ mergeSrc db file, x.name = n) ↔ (∃ x ∈ db ++ file, x.name = n)) ∧
    (∀ x ∈ mergeSrc db file, resolveSrc db file x.name = some x) := by
  rw [mergeSrc_eq]
  refine ⟨mergeAcc_nodup _ _ _ (by simp), fun n => ?_, fun x hx => ?_⟩
  · rw [mergeAcc_mem_key]; simp
  · rw [resolveSrc_eq]
    have := mergeAcc_last (fun z : SrcCfg => z.name) (db ++ file) [] [] (by simp) x hx
    simpa using this

/-! ### task loading -/

/-- the source lookup of `loadTasks` in the merged list is the file-over-database resolution -/
theorem find_mergeSrc (db file : List SrcCfg) (n : String) :
    (mergeSrc db file).find? (fun z => z.name == n) = resolveSrc db file n := by
  obtain ⟨_, hmem, hres⟩ := merge_precedence_src db file
  cases hf : (mergeSrc db file).find? (fun z => z.name == n) with
  | some x =>
    have hx := List.mem_of_find?_eq_some hf
    have hn : x.name = n := by simpa using List.find?_some hf
    rw [← hn, hres x hx]
  | none =>
    rw [resolveSrc_eq]
    symm
    rw [List.find?_eq_none] at hf ⊢
    intro x hx hxn
    obtain ⟨y, hy, hyn⟩ := (hmem n).mpr ⟨x, List.mem_reverse.mp hx, by simpa using hxn⟩
    exact hf y hy (by simpa using hyn)

/-- all-or-nothing: the values if every entry is `some`, else `none` -/
def collect {α : Type} : List (Option α) → Option (List α)
  | [] => some []
  | none :: _ => none
  | some a :: l => (collect l).map (a :: ·)

theorem collect_some {α : Type} : ∀ (l : List (Option α)) (ts : List α), collect l = some ts → l = ts.map some
  | [], ts, h => by simp only [collect, Option.some.injEq] at h; subst h; rfl
  | none :: _, _, h => by simp [collect] at h
  | some a :: l, ts, h => by
    simp only [collect, Option.map_eq_some_iff] at h
    obtain ⟨ts', h', rfl⟩ := h
    rw [collect_some l ts' h']; rfl

theorem collect_none {α : Type} : ∀ (l : List (Option α)), collect l = none → none ∈ l
  | [], h => by simp [collect] at h
  | none :: _, _ => by simp
  | some a :: l, h => by
    simp only [collect, Option.map_eq_none_iff] at h
    exact List.mem_cons_of_mem _ (collect_none l h)

theorem collect_append {α : Type} : ∀ (l₁ l₂ : List (Option α)),
    collect (l₁ ++ l₂) = match collect l₁ with
      | none => none
      | some a => (collect l₂).map (a ++ ·)
  | [], l₂ => by simp [collect]
  | none :: _, _ => by simp [collect]
  | some a :: l₁, l₂ => by
    simp only [List.cons_append, collect, collect_append l₁ l₂]
    cases collect l₁ <;> simp [Function.comp_def]

def mkTask (igName : String) (r : SrcRef) (sc : SrcCfg) : TaskInfo :=
  { src := sc.name, ig := igName, start := r.start, stop := r.stop,
    batch := if sc.batch > 0 then sc.batch else 1, conc := if sc.conc > 0 then sc.conc else 1,
    poll := sc.poll, chainId := sc.chainId }

/-- the inner loop of `loadTasks` (over the source references of one integration) -/
def innerStep (srcs : List SrcCfg) (igName : String) (acc : Option (List TaskInfo)) (r : SrcRef) :
    Option (List TaskInfo) :=
  match acc with
  | none => none
  | some ts =>
    match srcs.find? (·.name == r.name) with
    | none => none
    | some sc => some (ts ++ [mkTask igName r sc])

def outerStep (srcs : List SrcCfg) (acc : Option (List TaskInfo)) (ig : IgCfg) : Option (List TaskInfo) :=
  match acc with
  | none => none
  | some ts => if !ig.enabled then some ts else ig.sources.foldl (innerStep srcs ig.name) (some ts)

theorem loadTasks_eq (fileIgs dbIgs : List IgCfg) (fileSrcs dbSrcs : List SrcCfg) :
    loadTasks fileIgs dbIgs fileSrcs dbSrcs =
      (mergeIg dbIgs fileIgs).foldl (outerStep (mergeSrc dbSrcs fileSrcs)) (some []) := rfl

theorem inner_none (srcs : List SrcCfg) (n : String) (rs : List SrcRef) :
    rs.foldl (innerStep srcs n) none = none := by
  induction rs with
  | nil => rfl
  | cons r rs ih => exact ih

theorem inner_spec (srcs : List SrcCfg) (n : String) (rs : List SrcRef) : ∀ ts : List TaskInfo,
    rs.foldl (innerStep srcs n) (some ts) =
      (collect (rs.map fun r => (srcs.find? (·.name == r.name)).map (mkTask n r))).map (ts ++ ·) := by
  induction rs with
  | nil => intro ts; simp [collect]
  | cons r rs ih =>
    intro ts
    rw [List.foldl_cons, List.map_cons]
    cases hf : srcs.find? (·.name == r.name) with
    | none => simp only [innerStep, hf, inner_none, Option.map_none, collect]
    | some sc =>
      simp only [innerStep, hf, Option.map_some, collect, ih, Option.map_map]
      congr 1
      funext l
      simp

theorem outer_none (srcs : List SrcCfg) (igs : List IgCfg) :
    igs.foldl (outerStep srcs) none = none := by
  induction igs with
  | nil => rfl
  | cons r rs ih => exact ih

/-- the per-integration expectation, with the source lookup `look` -/
def expectedOf (look : String → Option SrcCfg) (ig : IgCfg) : List (Option TaskInfo) :=
  if !ig.enabled then [] else ig.sources.map fun r => (look r.name).map (mkTask ig.name r)

theorem outer_spec (srcs : List SrcCfg) (igs : List IgCfg) : ∀ ts : List TaskInfo,
    igs.foldl (outerStep srcs) (some ts) =
      (collect (igs.flatMap (expectedOf fun n => srcs.find? (·.name == n)))).map (ts ++ ·) := by
  induction igs with
  | nil => intro ts; simp [collect]
  | cons ig igs ih =>
    intro ts
    rw [List.foldl_cons, List.flatMap_cons, collect_append]
    cases he : ig.enabled with
    | false => simp [outerStep, expectedOf, he, ih, collect]
    | true =>
      simp only [outerStep, expectedOf, he, Bool.not_true, Bool.false_eq_true, if_false, inner_spec]
      cases collect (ig.sources.map fun r => (srcs.find? (·.name == r.name)).map (mkTask ig.name r)) with
      | none => simp [outer_none]
      | some a =>
        simp only [Option.map_some, ih, Option.map_map]
        congr 1
        funext l
        simp

/-- what the tasks must be: one per enabled integration and source reference, with that source's
    settings and the reference's start/stop -/
def expected (fileIgs dbIgs : List IgCfg) (fileSrcs dbSrcs : List SrcCfg) : List (Option TaskInfo) :=
  (mergeIg dbIgs fileIgs).flatMap fun ig =>
    if !ig.enabled then []
    else ig.sources.map fun r =>
      (resolveSrc dbSrcs fileSrcs r.name).map fun sc =>
        ({ src := sc.name, ig := ig.name, start := r.start, stop := r.stop,
           batch := if sc.batch > 0 then sc.batch else 1, conc := if sc.conc > 0 then sc.conc else 1,
           poll := sc.poll, chainId := sc.chainId } : TaskInfo)

theorem loadTasks_collect (fileIgs dbIgs : List IgCfg) (fileSrcs dbSrcs : List SrcCfg) :
    loadTasks fileIgs dbIgs fileSrcs dbSrcs = collect (expected fileIgs dbIgs fileSrcs dbSrcs) := by
  rw [loadTasks_eq, outer_spec]
  have : (fun n => (mergeSrc dbSrcs fileSrcs).find? (·.name == n)) = resolveSrc dbSrcs fileSrcs := by
    funext n; exact find_mergeSrc _ _ _
  rw [this]
  have : expected fileIgs dbIgs fileSrcs dbSrcs =
      (mergeIg dbIgs fileIgs).flatMap (expectedOf (resolveSrc dbSrcs fileSrcs)) := rfl
  rw [this]
  cases collect ((mergeIg dbIgs fileIgs).flatMap (expectedOf (resolveSrc dbSrcs fileSrcs))) <;> simp

/-- **tasks_exact / unknown_source_error** (C20): loading succeeds iff every source referenced by
    an enabled integration is defined, and then the tasks are exactly the expected ones (in the
    order of the merged configuration); a reference to an unknown source is an error, never a
    silently missing task. -/
theorem tasks_exact (fileIgs dbIgs : List IgCfg) (fileSrcs dbSrcs : List SrcCfg) :
    match loadTasks fileIgs dbIgs fileSrcs dbSrcs with
    | some ts => (expected fileIgs dbIgs fileSrcs dbSrcs) = ts.map some
    | none => none ∈ expected fileIgs dbIgs fileSrcs dbSrcs := by
  cases h : loadTasks fileIgs dbIgs fileSrcs dbSrcs with
  | some ts => exact collect_some _ _ (by rw [← loadTasks_collect, h])
  | none => exact collect_none _ (by rw [← loadTasks_collect, h])

/-- loading fails exactly when some enabled integration references an undefined source -/
theorem load_fails_iff (fileIgs dbIgs : List IgCfg) (fileSrcs dbSrcs : List SrcCfg) :
    loadTasks fileIgs dbIgs fileSrcs dbSrcs = none ↔
      ∃ ig ∈ mergeIg dbIgs fileIgs, ig.enabled = true ∧
        ∃ r ∈ ig.sources, resolveSrc dbSrcs fileSrcs r.name = none := by
  have h := tasks_exact fileIgs dbIgs fileSrcs dbSrcs
  have hexp : none ∈ expected fileIgs dbIgs fileSrcs dbSrcs ↔
      ∃ ig ∈ mergeIg dbIgs fileIgs, ig.enabled = true ∧
        ∃ r ∈ ig.sources, resolveSrc dbSrcs fileSrcs r.name = none := by
    unfold expected
    simp only [List.mem_flatMap]
    constructor
    · rintro ⟨ig, hig, hm⟩
      cases he : ig.enabled with
      | false => simp [he] at hm
      | true =>
        simp only [he, Bool.not_true, Bool.false_eq_true, if_false, List.mem_map,
          Option.map_eq_none_iff] at hm
        exact ⟨ig, hig, he, hm⟩
    · rintro ⟨ig, hig, he, r, hr, hn⟩
      refine ⟨ig, hig, ?_⟩
      simp only [he, Bool.not_true, Bool.false_eq_true, if_false, List.mem_map, Option.map_eq_none_iff]
      exact ⟨r, hr, hn⟩
  cases hl : loadTasks fileIgs dbIgs fileSrcs dbSrcs with
  | none => rw [hl] at h; simpa using hexp.mp h
  | some ts =>
    rw [hl] at h
    simp only [reduceCtorEq, false_iff]
    intro hex
    have := hexp.mpr hex
    rw [h] at this
    simp at this

/-! ### the run / restart protocol -/

deriving instance DecidableEq for St

/-- the `closed` list after a `Restart` closed the installed channel (once) -/
def closeInst (s : St) : List Nat :=
  match s.installed with
  | some i => if s.closed.contains i then s.closed else i :: s.closed
  | none => s.closed

theorem mem_closeInst {s : St} {c : Nat} (h : c ∈ closeInst s) : c ∈ s.closed ∨ s.installed = some c := by
  unfold closeInst at h
  split at h
  · split at h
    · exact Or.inl h
    · rcases List.mem_cons.mp h with rfl | h
      · exact Or.inr ‹_›
      · exact Or.inl h
  · exact Or.inl h

/-! inversion of `step`, one lemma per constructor: the guard and the successor state -/

theorem inv_restartBegin {s s' : St} (h : step s .restartBegin = some s') :
    s.restarting = none ∧
    s' = { s with nextGen := s.nextGen + 1, restarting := some s.nextGen,
                  waiting := s.waiting ++ [s.nextGen], closed := closeInst s } := by
  simp only [step] at h
  split at h
  · cases h
  · rename_i hc
    exact ⟨by simpa using hc, (Option.some.inj h).symm⟩

theorem inv_runLock {s s' : St} {g : Nat} (h : step s (.runLock g) = some s') :
    s.holder = none ∧ g ∈ s.waiting ∧
    s' = { s with holder := some g, waiting := s.waiting.filter (· != g), loaded := none } := by
  simp only [step] at h
  split at h
  · cases h
  · rename_i hc
    have hc' : s.holder = none ∧ g ∈ s.waiting := by simpa using hc
    exact ⟨hc'.1, hc'.2, (Option.some.inj h).symm⟩

theorem inv_runLoadFail {s s' : St} (h : step s .runLoadFail = some s') :
    ∃ g, s.holder = some g ∧ s.loaded = none ∧ s.installed ≠ some g ∧
    s' = { s with holder := none,
                  restarting := if s.restarting == some g then none else s.restarting } := by
  simp only [step] at h
  split at h
  · rename_i g hh hl
    split at h
    · cases h
    · rename_i hc
      exact ⟨g, hh, hl, by simpa using hc, (Option.some.inj h).symm⟩
  · cases h

theorem inv_runLoadOk {s s' : St} {tasks : List (String × String)}
    (h : step s (.runLoadOk tasks) = some s') :
    ∃ g, s.holder = some g ∧ s.loaded = none ∧ s.installed ≠ some g ∧
    s' = { s with loaded := some tasks } := by
  simp only [step] at h
  split at h
  · rename_i g hh hl
    split at h
    · cases h
    · rename_i hc
      exact ⟨g, hh, hl, by simpa using hc, (Option.some.inj h).symm⟩
  · cases h

theorem inv_runInstall {s s' : St} (h : step s .runInstall = some s') :
    ∃ g ts, s.holder = some g ∧ s.loaded = some ts ∧ s.installed ≠ some g ∧
    s' = { s with installed := some g, acked := g :: s.acked,
                  restarting := if s.restarting == some g then none else s.restarting } := by
  simp only [step] at h
  split at h
  · rename_i g ts hh hl
    split at h
    · cases h
    · rename_i hc
      exact ⟨g, ts, hh, hl, by simpa using hc, (Option.some.inj h).symm⟩
  · cases h

theorem inv_taskStart {s s' : St} {r : Runner} (h : step s (.taskStart r) = some s') :
    ∃ tasks, s.holder = some r.1 ∧ s.loaded = some tasks ∧ s.installed = some r.1 ∧
      r.2 ∈ tasks ∧ r ∉ s.spawned ∧
    s' = { s with running := r :: s.running, spawned := r :: s.spawned } := by
  simp only [step] at h
  split at h
  · rename_i g ts hh hl
    split at h
    · rename_i hc
      have hc' : ((s.installed = some g ∧ r.1 = g) ∧ r.2 ∈ ts) ∧ r ∉ s.spawned := by simpa using hc
      obtain ⟨⟨⟨h1, rfl⟩, h3⟩, h4⟩ := hc'
      exact ⟨ts, hh, hl, h1, h3, h4, (Option.some.inj h).symm⟩
    · cases h
  · cases h

theorem inv_taskStep {s s' : St} {r : Runner} (h : step s (.taskStep r) = some s') :
    r ∈ s.running ∧ s' = s := by
  simp only [step] at h
  split at h
  · rename_i hc
    exact ⟨by simpa using hc, (Option.some.inj h).symm⟩
  · cases h

theorem inv_taskStop {s s' : St} {r : Runner} (h : step s (.taskStop r) = some s') :
    r ∈ s.running ∧ r.1 ∈ s.closed ∧ s' = { s with running := s.running.filter (· != r) } := by
  simp only [step] at h
  split at h
  · rename_i hc
    have hc' : r ∈ s.running ∧ r.1 ∈ s.closed := by simpa using hc
    exact ⟨hc'.1, hc'.2, (Option.some.inj h).symm⟩
  · cases h

theorem inv_runEnd {s s' : St} (h : step s .runEnd = some s') :
    ∃ g tasks, s.holder = some g ∧ s.loaded = some tasks ∧ s.installed = some g ∧
      (∀ p ∈ tasks, (g, p) ∈ s.spawned) ∧ (∀ r ∈ s.running, r.1 ≠ g) ∧
    s' = { s with holder := none, loaded := none } := by
  simp only [step] at h
  split at h
  · rename_i g ts hh hl
    split at h
    · rename_i hc
      simp only [Bool.and_eq_true, beq_iff_eq, List.all_eq_true, List.contains_iff_mem,
        Bool.not_eq_eq_eq_not, Bool.not_true, List.any_eq_false] at hc
      exact ⟨g, ts, hh, hl, hc.1.1, hc.1.2, hc.2, (Option.some.inj h).symm⟩
    · cases h
  · cases h

/-- protocol invariant (the first five lines are the properties of interest, the rest makes it
    inductive). -/
structure Inv (s : St) : Prop where
  /-- every running runner belongs to the generation holding the `running` lock, and that
      generation's channel is the installed one -/
  one_generation : ∀ r ∈ s.running, s.holder = some r.1 ∧ s.installed = some r.1
  /-- no (source, integration) pair has two runners -/
  no_double : (s.running.map (·.2)).Nodup
  running_sub : ∀ r ∈ s.running, r ∈ s.spawned
  spawned_nodup : s.spawned.Nodup
  /-- the holder generation only ever spawned runners for loaded tasks -/
  spawned_loaded : ∀ r ∈ s.spawned, s.holder = some r.1 → ∃ ts, s.loaded = some ts ∧ r.2 ∈ ts
  gen_lt : ∀ r ∈ s.spawned, r.1 < s.nextGen
  holder_lt : ∀ g, s.holder = some g → g < s.nextGen
  waiting_lt : ∀ g ∈ s.waiting, g < s.nextGen ∧ s.holder ≠ some g
  /-- a generation whose Run has not got the lock yet has spawned nothing -/
  waiting_fresh : ∀ g ∈ s.waiting, ∀ r ∈ s.spawned, r.1 ≠ g
  acked_lt : ∀ g ∈ s.acked, g < s.nextGen
  installed_acked : ∀ i, s.installed = some i → i ∈ s.acked
  closed_acked : ∀ c ∈ s.closed, c ∈ s.acked
  /-- a Run waiting for the lock is `main`'s (generation 0) or the one started by the Restart that
      holds `restartMut` -/
  waiting_restarting : ∀ w ∈ s.waiting, w = 0 ∨ s.restarting = some w
  restarting_ge : ∀ w, s.restarting = some w →
    (∀ h, s.holder = some h → h ≤ w) ∧ (∀ g ∈ s.acked, g ≤ w)
  /-- generations take the lock in increasing order, except `main`'s Run (generation 0), which may
      be overtaken by a Restart -/
  acked_le : ∀ g ∈ s.acked, ∀ h, s.holder = some h → g ≤ h ∨ h = 0

theorem inv_init : Inv init where
  one_generation := by simp [init]
  no_double := by simp [init]
  running_sub := by simp [init]
  spawned_nodup := by simp [init]
  spawned_loaded := by simp [init]
  gen_lt := by simp [init]
  holder_lt := by simp [init]
  waiting_lt := by simp [init]
  waiting_fresh := by simp [init]
  acked_lt := by simp [init]
  installed_acked := by simp [init]
  closed_acked := by simp [init]
  waiting_restarting := by simp [init]
  restarting_ge := by simp [init]
  acked_le := by simp [init]

theorem restarting_if {s : St} {g w : Nat}
    (h : (if s.restarting == some g then none else s.restarting) = some w) :
    s.restarting = some w ∧ w ≠ g := by
  split at h
  · cases h
  · rename_i hne
    refine ⟨h, ?_⟩
    rintro rfl
    exact hne (by simp [h])

theorem restarting_if_ne {s : St} {g w : Nat} (h : s.restarting = some w) (hne : w ≠ g) :
    (if s.restarting == some g then none else s.restarting) = some w := by
  rw [h, if_neg]
  simpa using hne

theorem step_inv {s s' : St} {st : Step} (hi : Inv s) (h : step s st = some s') : Inv s' := by
  cases st with
  | restartBegin =>
    obtain ⟨hr, rfl⟩ := inv_restartBegin h
    exact {
      one_generation := hi.one_generation
      no_double := hi.no_double
      running_sub := hi.running_sub
      spawned_nodup := hi.spawned_nodup
      spawned_loaded := hi.spawned_loaded
      gen_lt := fun r hr => Nat.lt_succ_of_lt (hi.gen_lt r hr)
      holder_lt := fun g hg => Nat.lt_succ_of_lt (hi.holder_lt g hg)
      waiting_lt := by
        intro g hg
        rcases List.mem_append.mp hg with hg | hg
        · exact ⟨Nat.lt_succ_of_lt (hi.waiting_lt g hg).1, (hi.waiting_lt g hg).2⟩
        · obtain rfl := List.mem_singleton.mp hg
          exact ⟨Nat.lt_succ_self _, fun hh => Nat.lt_irrefl _ (hi.holder_lt _ hh)⟩
      waiting_fresh := by
        intro g hg r hr
        rcases List.mem_append.mp hg with hg | hg
        · exact hi.waiting_fresh g hg r hr
        · obtain rfl := List.mem_singleton.mp hg
          exact Nat.ne_of_lt (hi.gen_lt r hr)
      acked_lt := fun g hg => Nat.lt_succ_of_lt (hi.acked_lt g hg)
      installed_acked := hi.installed_acked
      closed_acked := by
        intro c hc
        rcases mem_closeInst hc with hc | hc
        · exact hi.closed_acked c hc
        · exact hi.installed_acked c hc
      waiting_restarting := by
        intro w hw
        rcases List.mem_append.mp hw with hw | hw
        · rcases hi.waiting_restarting w hw with h0 | hw'
          · exact Or.inl h0
          · rw [hr] at hw'; cases hw'
        · obtain rfl := List.mem_singleton.mp hw
          exact Or.inr rfl
      restarting_ge := by
        intro w hw
        obtain rfl : s.nextGen = w := Option.some.inj hw
        exact ⟨fun h hh => Nat.le_of_lt (hi.holder_lt h hh), fun g hg => Nat.le_of_lt (hi.acked_lt g hg)⟩
      acked_le := hi.acked_le }
  | runLock g =>
    obtain ⟨hn, hg, rfl⟩ := inv_runLock h
    have nor : ∀ r ∈ s.running, False := fun r hr => by
      have := (hi.one_generation r hr).1; rw [hn] at this; cases this
    exact {
      one_generation := fun r hr => (nor r hr).elim
      no_double := hi.no_double
      running_sub := hi.running_sub
      spawned_nodup := hi.spawned_nodup
      spawned_loaded := by
        intro r hr hh
        obtain rfl : g = r.1 := Option.some.inj hh
        exact absurd rfl (hi.waiting_fresh _ hg r hr)
      gen_lt := hi.gen_lt
      holder_lt := by
        intro g' hg'
        obtain rfl : g = g' := Option.some.inj hg'
        exact (hi.waiting_lt _ hg).1
      waiting_lt := by
        intro w hw
        obtain ⟨hw, hne⟩ := List.mem_filter.mp hw
        refine ⟨(hi.waiting_lt w hw).1, fun hh => ?_⟩
        obtain rfl : g = w := Option.some.inj hh
        simp at hne
      waiting_fresh := fun w hw => hi.waiting_fresh w (List.mem_filter.mp hw).1
      acked_lt := hi.acked_lt
      installed_acked := hi.installed_acked
      closed_acked := hi.closed_acked
      waiting_restarting := fun w hw => hi.waiting_restarting w (List.mem_filter.mp hw).1
      restarting_ge := by
        intro w hw
        refine ⟨fun h hh => ?_, (hi.restarting_ge w hw).2⟩
        obtain rfl : g = h := Option.some.inj hh
        rcases hi.waiting_restarting _ hg with h0 | h1
        · omega
        · rw [hw] at h1; cases h1; exact Nat.le_refl _
      acked_le := by
        intro a ha h hh
        obtain rfl : g = h := Option.some.inj hh
        rcases hi.waiting_restarting _ hg with h0 | h1
        · exact Or.inr h0
        · exact Or.inl ((hi.restarting_ge _ h1).2 a ha) }
  | runLoadFail =>
    obtain ⟨g, hh, hl, hni, rfl⟩ := inv_runLoadFail h
    exact {
      one_generation := by
        intro r hr
        obtain ⟨h1, h2⟩ := hi.one_generation r hr
        rw [hh] at h1
        obtain rfl : g = r.1 := Option.some.inj h1
        exact absurd h2 hni
      no_double := hi.no_double
      running_sub := hi.running_sub
      spawned_nodup := hi.spawned_nodup
      spawned_loaded := fun r _ hh => by cases hh
      gen_lt := hi.gen_lt
      holder_lt := fun g hg => by cases hg
      waiting_lt := fun w hw => ⟨(hi.waiting_lt w hw).1, fun hh => by cases hh⟩
      waiting_fresh := hi.waiting_fresh
      acked_lt := hi.acked_lt
      installed_acked := hi.installed_acked
      closed_acked := hi.closed_acked
      waiting_restarting := by
        intro w hw
        rcases hi.waiting_restarting w hw with h0 | h1
        · exact Or.inl h0
        · refine Or.inr (restarting_if_ne h1 ?_)
          rintro rfl
          exact (hi.waiting_lt _ hw).2 hh
      restarting_ge := by
        intro w hw
        exact ⟨fun h hh => (by cases hh), (hi.restarting_ge w (restarting_if hw).1).2⟩
      acked_le := fun a _ h hh => by cases hh }
  | runLoadOk tasks =>
    obtain ⟨g, hh, hl, hni, rfl⟩ := inv_runLoadOk h
    exact {
      one_generation := hi.one_generation
      no_double := hi.no_double
      running_sub := hi.running_sub
      spawned_nodup := hi.spawned_nodup
      spawned_loaded := by
        intro r hr hh'
        obtain ⟨ts, hts, _⟩ := hi.spawned_loaded r hr hh'
        rw [hl] at hts; cases hts
      gen_lt := hi.gen_lt
      holder_lt := hi.holder_lt
      waiting_lt := hi.waiting_lt
      waiting_fresh := hi.waiting_fresh
      acked_lt := hi.acked_lt
      installed_acked := hi.installed_acked
      closed_acked := hi.closed_acked
      waiting_restarting := hi.waiting_restarting
      restarting_ge := hi.restarting_ge
      acked_le := hi.acked_le }
  | runInstall =>
    obtain ⟨g, ts, hh, hl, hni, rfl⟩ := inv_runInstall h
    exact {
      one_generation := by
        intro r hr
        obtain ⟨h1, h2⟩ := hi.one_generation r hr
        rw [hh] at h1
        obtain rfl : g = r.1 := Option.some.inj h1
        exact absurd h2 hni
      no_double := hi.no_double
      running_sub := hi.running_sub
      spawned_nodup := hi.spawned_nodup
      spawned_loaded := hi.spawned_loaded
      gen_lt := hi.gen_lt
      holder_lt := hi.holder_lt
      waiting_lt := hi.waiting_lt
      waiting_fresh := hi.waiting_fresh
      acked_lt := by
        intro a ha
        rcases List.mem_cons.mp ha with rfl | ha
        · exact hi.holder_lt _ hh
        · exact hi.acked_lt a ha
      installed_acked := by
        intro i hi'
        obtain rfl : g = i := Option.some.inj hi'
        exact List.mem_cons_self
      closed_acked := fun c hc => List.mem_cons_of_mem _ (hi.closed_acked c hc)
      waiting_restarting := by
        intro w hw
        rcases hi.waiting_restarting w hw with h0 | h1
        · exact Or.inl h0
        · refine Or.inr (restarting_if_ne h1 ?_)
          rintro rfl
          exact (hi.waiting_lt _ hw).2 hh
      restarting_ge := by
        intro w hw
        obtain ⟨h1, h2⟩ := hi.restarting_ge w (restarting_if hw).1
        refine ⟨h1, fun a ha => ?_⟩
        rcases List.mem_cons.mp ha with rfl | ha
        · exact h1 _ hh
        · exact h2 a ha
      acked_le := by
        intro a ha h hh'
        rcases List.mem_cons.mp ha with rfl | ha
        · rw [hh] at hh'; cases hh'; exact Or.inl (Nat.le_refl _)
        · exact hi.acked_le a ha h hh' }
  | taskStart r =>
    obtain ⟨tasks, hh, hl, hin, hmem, hns, rfl⟩ := inv_taskStart h
    exact {
      one_generation := by
        intro r' hr'
        rcases List.mem_cons.mp hr' with rfl | hr'
        · exact ⟨hh, hin⟩
        · exact hi.one_generation r' hr'
      no_double := by
        rw [List.map_cons, List.nodup_cons]
        refine ⟨fun hm => ?_, hi.no_double⟩
        obtain ⟨r', hr', he⟩ := List.mem_map.mp hm
        have h1 := (hi.one_generation r' hr').1
        rw [hh] at h1
        have : r' = r := Prod.ext (Option.some.inj h1).symm he
        exact hns (this ▸ hi.running_sub r' hr')
      running_sub := by
        intro r' hr'
        rcases List.mem_cons.mp hr' with rfl | hr'
        · exact List.mem_cons_self
        · exact List.mem_cons_of_mem _ (hi.running_sub r' hr')
      spawned_nodup := List.nodup_cons.mpr ⟨hns, hi.spawned_nodup⟩
      spawned_loaded := by
        intro r' hr' hh'
        rcases List.mem_cons.mp hr' with rfl | hr'
        · exact ⟨tasks, hl, hmem⟩
        · exact hi.spawned_loaded r' hr' hh'
      gen_lt := by
        intro r' hr'
        rcases List.mem_cons.mp hr' with rfl | hr'
        · exact hi.holder_lt _ hh
        · exact hi.gen_lt r' hr'
      holder_lt := hi.holder_lt
      waiting_lt := hi.waiting_lt
      waiting_fresh := by
        intro w hw r' hr'
        rcases List.mem_cons.mp hr' with rfl | hr'
        · intro e
          exact (hi.waiting_lt w hw).2 (e ▸ hh)
        · exact hi.waiting_fresh w hw r' hr'
      acked_lt := hi.acked_lt
      installed_acked := hi.installed_acked
      closed_acked := hi.closed_acked
      waiting_restarting := hi.waiting_restarting
      restarting_ge := hi.restarting_ge
      acked_le := hi.acked_le }
  | taskStep r =>
    obtain ⟨_, rfl⟩ := inv_taskStep h
    exact hi
  | taskStop r =>
    obtain ⟨hr, hc, rfl⟩ := inv_taskStop h
    exact {
      one_generation := fun r' hr' => hi.one_generation r' (List.mem_filter.mp hr').1
      no_double := List.Nodup.sublist (List.Sublist.map _ List.filter_sublist) hi.no_double
      running_sub := fun r' hr' => hi.running_sub r' (List.mem_filter.mp hr').1
      spawned_nodup := hi.spawned_nodup
      spawned_loaded := hi.spawned_loaded
      gen_lt := hi.gen_lt
      holder_lt := hi.holder_lt
      waiting_lt := hi.waiting_lt
      waiting_fresh := hi.waiting_fresh
      acked_lt := hi.acked_lt
      installed_acked := hi.installed_acked
      closed_acked := hi.closed_acked
      waiting_restarting := hi.waiting_restarting
      restarting_ge := hi.restarting_ge
      acked_le := hi.acked_le }
  | runEnd =>
    obtain ⟨g, tasks, hh, hl, hin, hall, hnone, rfl⟩ := inv_runEnd h
    exact {
      one_generation := by
        intro r hr
        have h1 := (hi.one_generation r hr).1
        rw [hh] at h1
        exact absurd (Option.some.inj h1).symm (hnone r hr)
      no_double := hi.no_double
      running_sub := hi.running_sub
      spawned_nodup := hi.spawned_nodup
      spawned_loaded := fun r _ hh => by cases hh
      gen_lt := hi.gen_lt
      holder_lt := fun g hg => by cases hg
      waiting_lt := fun w hw => ⟨(hi.waiting_lt w hw).1, fun hh => by cases hh⟩
      waiting_fresh := hi.waiting_fresh
      acked_lt := hi.acked_lt
      installed_acked := hi.installed_acked
      closed_acked := hi.closed_acked
      waiting_restarting := hi.waiting_restarting
      restarting_ge := fun w hw => ⟨fun h hh => (by cases hh), (hi.restarting_ge w hw).2⟩
      acked_le := fun a _ h hh => by cases hh }

theorem run_nil (s : St) : run s [] = s := rfl

theorem run_cons (s : St) (st : Step) (steps : List Step) :
    run s (st :: steps) = run ((step s st).getD s) steps := rfl

theorem run_inv {s : St} (hi : Inv s) (steps : List Step) : Inv (run s steps) := by
  induction steps generalizing s with
  | nil => exact hi
  | cons st steps ih =>
    rw [run_cons]
    apply ih
    cases h : step s st with
    | none => exact hi
    | some s' => exact step_inv hi h

/-- **one_generation** (C20): in every state reachable by any schedule of restarts, run phases and
    task steps — i.e. for all timings of restart requests relative to running steps — all runners
    belong to one generation (the holder of the `running` lock) and no (source, integration) pair
    is driven by two runners. (The hypothesis on the loaded task lists is not needed.) -/
theorem one_generation (steps : List Step)
    (_hnodup : ∀ st ∈ steps, ∀ ts, st = .runLoadOk ts → ts.Nodup) :
    Inv (run init steps) :=
  run_inv inv_init steps

/-- whenever a Run takes the `running` lock, and whenever a Run reports success (the moment the
    Restart that started it returns), no runner of any generation is running. -/
theorem no_runner_at_lock {s s' : St} {g : Nat} (hi : Inv s) (h : step s (.runLock g) = some s') :
    s'.running = [] := by
  obtain ⟨hn, _, rfl⟩ := inv_runLock h
  apply List.eq_nil_iff_forall_not_mem.mpr
  intro r hr
  have := (hi.one_generation r hr).1
  rw [hn] at this; cases this

theorem no_runner_at_ack {s s' : St} (hi : Inv s) (h : step s .runInstall = some s') :
    s'.running = [] ∧ ∃ g, s'.holder = some g ∧ s'.installed = some g ∧ s'.acked = g :: s.acked := by
  obtain ⟨g, ts, hh, hl, hni, rfl⟩ := inv_runInstall h
  refine ⟨?_, g, hh, rfl, rfl⟩
  apply List.eq_nil_iff_forall_not_mem.mpr
  intro r hr
  obtain ⟨h1, h2⟩ := hi.one_generation r hr
  rw [hh] at h1
  obtain rfl : g = r.1 := Option.some.inj h1
  exact hni h2

/-- **restart_complete** (C20), general form: once generation `g` reported success, every running
    runner belongs to the lock holder, whose generation is `≥ g` — or is generation 0, the Run
    started by `main`, if a Restart overtook it (see `restart_overtakes_main`). -/
theorem restart_complete (steps : List Step)
    (_hnodup : ∀ st ∈ steps, ∀ ts, st = .runLoadOk ts → ts.Nodup)
    (s : St) (hs : s = run init steps) (g : Nat) (hack : g ∈ s.acked) :
    ∀ r ∈ s.running, s.holder = some r.1 ∧ (g ≤ r.1 ∨ r.1 = 0) := by
  subst hs
  have hi := run_inv inv_init steps
  intro r hr
  have hh := (hi.one_generation r hr).1
  exact ⟨hh, hi.acked_le g hack _ hh⟩

/-- the statement as first written (with the weak disjunct) is a corollary -/
theorem restart_complete_weak (steps : List Step)
    (hnodup : ∀ st ∈ steps, ∀ ts, st = .runLoadOk ts → ts.Nodup)
    (s : St) (hs : s = run init steps) (g : Nat) (hack : g ∈ s.acked) :
    ∀ r ∈ s.running, g ≤ r.1 ∨ s.holder = some r.1 :=
  fun r hr => Or.inr (restart_complete steps hnodup s hs g hack r hr).1

/-- the additional invariant when `main`'s Run got the lock before the first Restart: every
    waiting Run is the one of the Restart in progress, and generations take the lock in
    increasing order. -/
structure InvOrd (s : St) : Prop where
  inv : Inv s
  waiting_restarting : ∀ w ∈ s.waiting, s.restarting = some w
  acked_le : ∀ g ∈ s.acked, ∀ h, s.holder = some h → g ≤ h

theorem step_invOrd {s s' : St} {st : Step} (ho : InvOrd s) (h : step s st = some s') : InvOrd s' := by
  have hi := ho.inv
  refine ⟨step_inv hi h, ?_, ?_⟩
  · cases st with
    | restartBegin =>
      obtain ⟨hr, rfl⟩ := inv_restartBegin h
      intro w hw
      rcases List.mem_append.mp hw with hw | hw
      · have := ho.waiting_restarting w hw
        rw [hr] at this; cases this
      · obtain rfl := List.mem_singleton.mp hw
        rfl
    | runLock g =>
      obtain ⟨hn, hg, rfl⟩ := inv_runLock h
      exact fun w hw => ho.waiting_restarting w (List.mem_filter.mp hw).1
    | runLoadFail =>
      obtain ⟨g, hh, hl, hni, rfl⟩ := inv_runLoadFail h
      intro w hw
      refine restarting_if_ne (ho.waiting_restarting w hw) ?_
      rintro rfl
      exact (hi.waiting_lt _ hw).2 hh
    | runLoadOk tasks =>
      obtain ⟨g, hh, hl, hni, rfl⟩ := inv_runLoadOk h
      exact ho.waiting_restarting
    | runInstall =>
      obtain ⟨g, ts, hh, hl, hni, rfl⟩ := inv_runInstall h
      intro w hw
      refine restarting_if_ne (ho.waiting_restarting w hw) ?_
      rintro rfl
      exact (hi.waiting_lt _ hw).2 hh
    | taskStart r =>
      obtain ⟨tasks, hh, hl, hin, hmem, hns, rfl⟩ := inv_taskStart h
      exact ho.waiting_restarting
    | taskStep r =>
      obtain ⟨_, rfl⟩ := inv_taskStep h
      exact ho.waiting_restarting
    | taskStop r =>
      obtain ⟨hr, hc, rfl⟩ := inv_taskStop h
      exact ho.waiting_restarting
    | runEnd =>
      obtain ⟨g, tasks, hh, hl, hin, hall, hnone, rfl⟩ := inv_runEnd h
      exact ho.waiting_restarting
  · cases st with
    | restartBegin =>
      obtain ⟨hr, rfl⟩ := inv_restartBegin h
      exact ho.acked_le
    | runLock g =>
      obtain ⟨hn, hg, rfl⟩ := inv_runLock h
      intro a ha h' hh'
      obtain rfl : g = h' := Option.some.inj hh'
      exact (hi.restarting_ge _ (ho.waiting_restarting _ hg)).2 a ha
    | runLoadFail =>
      obtain ⟨g, hh, hl, hni, rfl⟩ := inv_runLoadFail h
      exact fun a _ h' hh' => by cases hh'
    | runLoadOk tasks =>
      obtain ⟨g, hh, hl, hni, rfl⟩ := inv_runLoadOk h
      exact ho.acked_le
    | runInstall =>
      obtain ⟨g, ts, hh, hl, hni, rfl⟩ := inv_runInstall h
      intro a ha h' hh'
      rcases List.mem_cons.mp ha with rfl | ha
      · rw [hh] at hh'; cases hh'; exact Nat.le_refl _
      · exact ho.acked_le a ha h' hh'
    | taskStart r =>
      obtain ⟨tasks, hh, hl, hin, hmem, hns, rfl⟩ := inv_taskStart h
      exact ho.acked_le
    | taskStep r =>
      obtain ⟨_, rfl⟩ := inv_taskStep h
      exact ho.acked_le
    | taskStop r =>
      obtain ⟨hr, hc, rfl⟩ := inv_taskStop h
      exact ho.acked_le
    | runEnd =>
      obtain ⟨g, tasks, hh, hl, hin, hall, hnone, rfl⟩ := inv_runEnd h
      exact fun a _ h' hh' => by cases hh'

theorem run_invOrd {s : St} (ho : InvOrd s) (steps : List Step) : InvOrd (run s steps) := by
  induction steps generalizing s with
  | nil => exact ho
  | cons st steps ih =>
    rw [run_cons]
    apply ih
    cases h : step s st with
    | none => exact ho
    | some s' => exact step_invOrd ho h

theorem run_append (s : St) (l₁ l₂ : List Step) : run s (l₁ ++ l₂) = run (run s l₁) l₂ := by
  simp [run, List.foldl_append]

/-- before the first Restart nothing but `main`'s Run taking the lock can happen -/
theorem run_init_pre (pre : List Step)
    (hpre : ∀ st ∈ pre, st ≠ .restartBegin ∧ st ≠ .runLock 0) : run init pre = init := by
  induction pre with
  | nil => rfl
  | cons st pre ih =>
    rw [run_cons]
    have hst := hpre st List.mem_cons_self
    have : step init st = none := by
      cases st with
      | restartBegin => exact absurd rfl hst.1
      | runLock g =>
        have : g ≠ 0 := fun e => hst.2 (e ▸ rfl)
        simp [step, init, this]
      | runLoadFail => rfl
      | runLoadOk tasks => rfl
      | runInstall => rfl
      | taskStart r => rfl
      | taskStep r => rfl
      | taskStop r => rfl
      | runEnd => rfl
    rw [this]
    exact ih (fun st' h' => hpre st' (List.mem_cons_of_mem _ h'))

theorem invOrd_main_locked : InvOrd ((step init (.runLock 0)).getD init) := by
  have h : step init (.runLock 0) = some { init with holder := some 0, waiting := [] } := rfl
  rw [h]
  exact ⟨step_inv inv_init h, by simp, by simp [init]⟩

/-- **restart_complete** (C20), strong form: if `main`'s Run took the `running` lock before the
    first Restart began (no `restartBegin` precedes the first `runLock 0` of the schedule), then
    once generation `g` reported success every still-running runner has generation `≥ g` (and is of
    the lock holder's generation): all runners of all earlier generations have returned. -/
theorem restart_complete_main_first (pre rest : List Step)
    (hpre : ∀ st ∈ pre, st ≠ .restartBegin ∧ st ≠ .runLock 0)
    (s : St) (hs : s = run init (pre ++ .runLock 0 :: rest)) (g : Nat) (hack : g ∈ s.acked) :
    ∀ r ∈ s.running, g ≤ r.1 ∧ s.holder = some r.1 := by
  subst hs
  rw [run_append, run_init_pre pre hpre, run_cons] at hack ⊢
  have ho := run_invOrd invOrd_main_locked rest
  intro r hr
  have hh := (ho.inv.one_generation r hr).1
  exact ⟨ho.acked_le g hack _ hh, hh⟩

/-! ### findings: a Restart can overtake `main`'s Run -/

/-- the schedule: `main` has started Run 0 but it has not reached `running.Lock()` yet; the web
    server is already up, a Restart starts Run 1, which wins the lock, loads, reports success and
    spawns; a second Restart closes generation 1's channel and starts Run 2; generation 1 winds
    down; now Run 0 (not Run 2) wins the lock. -/
def overtake : List Step :=
  [.restartBegin, .runLock 1, .runLoadOk [("s", "a")], .runInstall, .taskStart (1, ("s", "a")),
   .restartBegin, .taskStop (1, ("s", "a")), .runEnd,
   .runLock 0, .runLoadOk [("s", "a")], .runInstall, .taskStart (0, ("s", "a"))]

/-- `∀ r ∈ s.running, g ≤ r.1` is false without the `main`-first hypothesis: generation 1 reported
    success, yet a generation-0 runner is running afterwards. -/
theorem restart_overtakes_main :
    1 ∈ (run init overtake).acked ∧ (0, ("s", "a")) ∈ (run init overtake).running := by
  decide +kernel

/-- … and in that state the manager is stuck: the second Restart holds `restartMut` and waits for
    Run 2, Run 2 waits for the `running` lock, which Run 0 releases only when its runners stop,
    i.e. when channel 0 is closed — which only a Restart could do. Apart from the runner's own
    steps no step is enabled, for ever. -/
theorem restart_overtakes_main_stuck (st : Step) (s' : St)
    (h : step (run init overtake) st = some s') : s' = run init overtake ∧ st = .taskStep (0, ("s", "a")) := by
  have e : run init overtake =
      { nextGen := 3, holder := some 0, loaded := some [("s", "a")], installed := some 0, closed := [1],
        running := [(0, ("s", "a"))], spawned := [(0, ("s", "a")), (1, ("s", "a"))], waiting := [2],
        restarting := some 2, acked := [0, 1] } := by decide +kernel
  rw [e] at h ⊢
  cases st with
  | restartBegin => simp [step] at h
  | runLock g => simp [step] at h
  | runLoadFail => simp [step] at h
  | runLoadOk tasks => simp [step] at h
  | runInstall => simp [step] at h
  | taskStart r =>
    obtain ⟨ts, hh, hl, _, hmem, hns, _⟩ := inv_taskStart h
    exfalso
    apply hns
    obtain ⟨g, p⟩ := r
    obtain rfl : 0 = g := Option.some.inj hh
    obtain rfl : [("s", "a")] = ts := Option.some.inj hl
    obtain rfl : p = ("s", "a") := List.mem_singleton.mp hmem
    exact List.mem_cons_self
  | taskStep r =>
    obtain ⟨hr, rfl⟩ := inv_taskStep h
    simp at hr
    exact ⟨rfl, by rw [hr]⟩
  | taskStop r =>
    obtain ⟨hr, hc, _⟩ := inv_taskStop h
    simp at hr hc
    subst hr
    simp at hc
  | runEnd => simp [step] at h

/-! ### non-vacuity -/

section Examples

/-- a database integration and a file integration with the same name: the file's wins -/
example :
    mergeIg [{ name := "a", enabled := false, sources := [{ name := "db" }] },
             { name := "b", enabled := true, sources := [{ name := "db" }] }]
            [{ name := "a", enabled := true, sources := [{ name := "file" }] }]
      = [{ name := "b", enabled := true, sources := [{ name := "db" }] },
         { name := "a", enabled := true, sources := [{ name := "file" }] }] ∧
    resolveIg [{ name := "a", enabled := false, sources := [{ name := "db" }] }]
              [{ name := "a", enabled := true, sources := [{ name := "file" }] }] "a"
      = some { name := "a", enabled := true, sources := [{ name := "file" }] } := by
  decide +kernel

/-- the same for sources -/
example :
    mergeSrc [{ name := "s", chainId := 1, batch := 7 }] [{ name := "s", chainId := 2 }]
      = [{ name := "s", chainId := 2 }] := by
  decide +kernel

def exIgsFile : List IgCfg :=
  [{ name := "two", enabled := true, sources := [{ name := "main", start := 5 }, { name := "base", stop := 9 }] },
   { name := "off", enabled := false, sources := [{ name := "main" }] }]
def exIgsDb : List IgCfg :=
  [{ name := "one", enabled := true, sources := [{ name := "base", start := 3 }] },
   { name := "off", enabled := true, sources := [{ name := "main" }] }]
def exSrcsFile : List SrcCfg := [{ name := "main", chainId := 1, batch := 100, conc := 4 }]
def exSrcsDb : List SrcCfg := [{ name := "main", chainId := 99 }, { name := "base", chainId := 8453, poll := 500 }]

/-- a disabled integration (the file's `off` overrides the database's enabled `off`), one
    integration on two sources, one on one: exactly the three expected tasks, with the file's
    settings for `main` and the defaults (batch 1, concurrency 1) for `base` -/
example :
    loadTasks exIgsFile exIgsDb exSrcsFile exSrcsDb = some
      [{ src := "base", ig := "one", start := 3, stop := 0, batch := 1, conc := 1, poll := 500, chainId := 8453 },
       { src := "main", ig := "two", start := 5, stop := 0, batch := 100, conc := 4, poll := 1000, chainId := 1 },
       { src := "base", ig := "two", start := 0, stop := 9, batch := 1, conc := 1, poll := 500, chainId := 8453 }] ∧
    (expected exIgsFile exIgsDb exSrcsFile exSrcsDb).length = 3 := by
  decide +kernel

/-- an enabled integration referring to an unknown source: loading fails -/
example :
    loadTasks [{ name := "x", enabled := true, sources := [{ name := "main" }, { name := "nope" }] }] []
      exSrcsFile exSrcsDb = none := by
  decide +kernel

/-- a disabled integration referring to an unknown source: still loads (it has no task) -/
example :
    loadTasks [{ name := "x", enabled := false, sources := [{ name := "nope" }] },
               { name := "y", enabled := true, sources := [{ name := "main" }] }] []
      exSrcsFile exSrcsDb = some
      [{ src := "main", ig := "y", start := 0, stop := 0, batch := 100, conc := 4, poll := 1000, chainId := 1 }] := by
  decide +kernel

/-- generation 0 runs its task; a Restart closes its channel and starts Run 1 -/
def handover₁ : List Step :=
  [.runLock 0, .runLoadOk [("s", "a")], .runInstall, .taskStart (0, ("s", "a")), .restartBegin, .runLock 1]

/-- … but Run 1 cannot take the lock — hence cannot spawn — and Run 0 cannot end before generation
    0's runner has stopped -/
example :
    (run init handover₁).holder = some 0 ∧ (run init handover₁).waiting = [1] ∧
    (run init handover₁).running = [(0, ("s", "a"))] ∧ (run init handover₁).closed = [0] ∧
    (run init handover₁).restarting = some 1 ∧
    step (run init handover₁) (.runLock 1) = none ∧
    step (run init handover₁) (.taskStart (1, ("s", "a"))) = none ∧
    step (run init handover₁) .runEnd = none ∧
    step (run init handover₁) .restartBegin = none ∧
    (step (run init handover₁) (.taskStop (0, ("s", "a")))).isSome = true := by
  decide +kernel

/-- the full hand-over: the old runner stops, Run 0 ends, Run 1 locks, loads, reports, spawns -/
def handover₂ : List Step :=
  handover₁ ++ [.taskStop (0, ("s", "a")), .runEnd, .runLock 1, .runLoadOk [("s", "a"), ("s", "b")],
    .runInstall, .taskStart (1, ("s", "b")), .taskStart (1, ("s", "a")), .taskStart (1, ("s", "a")),
    .taskStart (0, ("s", "a"))]

example :
    run init handover₂ =
      { nextGen := 2, holder := some 1, loaded := some [("s", "a"), ("s", "b")], installed := some 1,
        closed := [0], running := [(1, ("s", "a")), (1, ("s", "b"))],
        spawned := [(1, ("s", "a")), (1, ("s", "b")), (0, ("s", "a"))], waiting := [],
        restarting := none, acked := [1, 0] } := by
  decide +kernel

/-- a failed reload: Run 1 reports the error, nothing is running afterwards (generation 0 was
    stopped by the Restart), and the next Restart does not close channel 0 twice -/
example :
    run init [.runLock 0, .runLoadOk [("s", "a")], .runInstall, .taskStart (0, ("s", "a")), .restartBegin,
              .taskStop (0, ("s", "a")), .runEnd, .runLock 1, .runLoadFail, .restartBegin] =
      { nextGen := 3, holder := none, loaded := none, installed := some 0, closed := [0], running := [],
        spawned := [(0, ("s", "a"))], waiting := [2], restarting := some 2, acked := [0] } := by
  decide +kernel

end Examples

end Shovel.Manager
