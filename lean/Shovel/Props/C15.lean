import Shovel.Model.Safe
import Shovel.Gen.Sql
/-
  C15 — no configuration string reaches SQL text unless it passed the identifier check.
  `Gen/Sql.lean` is regenerated from the Go source on every run: the list of configuration paths
  that `CheckUserInput` checks, every non-constant string spliced into SQL text, and which entry
  points call which validator. The theorems below are closed by kernel evaluation over those
  tables, so removing a `check(...)`, adding a splice, or dropping a validator call re-opens them.
-/
namespace Shovel.Safe

/-- **safe_chars**: a string accepted by `Safe` consists of identifier characters only; in
    particular it contains no ASCII character with a meaning in SQL. -/
theorem safe_chars (uni : Nat → Bool) (s : List Nat) (h : safe uni s = true) :
    ∀ c ∈ s, identChar uni c = true ∧ sqlMeta c = false := by
  intro c hc
  have hi : identChar uni c = true := by
    simp only [safe, List.all_eq_true] at h
    exact h c hc
  refine ⟨hi, ?_⟩
  unfold identChar at hi
  unfold sqlMeta
  by_cases hlt : c < 128
  · simp only [hlt, if_true] at hi
    simp [hlt, hi]
  · simp [hlt]

/-- conversely any ASCII metacharacter anywhere in the string makes `Safe` reject it -/
theorem safe_rejects (uni : Nat → Bool) (s : List Nat) (c : Nat) (hc : c ∈ s) (hm : sqlMeta c = true) :
    safe uni s = false := by
  cases h : safe uni s with
  | false => rfl
  | true => have := (safe_chars uni s h c hc).2; rw [hm] at this; contradiction

open Shovel.Gen.Sql

/-- why a spliced expression is harmless: the configuration path that is checked, or the reason it
    is not configuration at all -/
def justification : List ((String × String) × String) := [
  (("shovel.NewTask", "t.srcName"), "conf.Sources[].Name"),
  (("shovel.NewTask", "t.destConfig.Name"), "conf.Integrations[].Name"),
  (("shovel.NewTask", "wctx.Version(t.ctx)"), "const:build revision"),
  (("dig.Filter.Accept", "f.Ref.Table"), "conf.Integrations[].Block[].Filter.Ref.Table"),
  (("dig.Filter.Accept", "f.Ref.Column"), "conf.Integrations[].Block[].Filter.Ref.Column"),
  (("dig.Integration.Delete", "ig.Table.Name"), "conf.Integrations[].Table.Name"),
  (("dig.Integration.notify", "lwc.get(\"src_name\")"), "conf.Sources[].Name"),
  (("dig.Integration.notify", "lwc.get(\"ig_name\")"), "conf.Integrations[].Name"),
  (("wpg.Table.DDL", "t.Name"), "conf.Integrations[].Table.Name"),
  (("wpg.Table.DDL", "quote(col.Name)"), "conf.Integrations[].Table.Columns[].Name"),
  (("wpg.Table.DDL", "col.Type"), "conf.Integrations[].Table.Columns[].Type"),
  (("wpg.Table.DDL", "quote(cname)"), "conf.Integrations[].Table.Unique[][]"),
  (("wpg.Table.DDL", "strings.ReplaceAll(cols[i], \" \", \"_\")"), "conf.Integrations[].Table.Index[][]"),
  (("wpg.Table.DDL", "indexName"), "conf.Integrations[].Table.Index[][]"),
  (("wpg.Table.addColumns", "t.Name"), "conf.Integrations[].Table.Name"),
  (("wpg.Table.addColumns", "quote(c.Name)"), "conf.Integrations[].Table.Columns[].Name"),
  (("wpg.Table.addColumns", "c.Type"), "conf.Integrations[].Table.Columns[].Type")
]

/-- the same filter type serves event inputs, nested components and block fields; the index
    columns appear in `quote(cname)` for both unique and plain indexes -/
def alsoChecked : List String := [
  "conf.Integrations[].Event.Inputs[].Filter.Ref.Table", "conf.Integrations[].Event.Inputs[].Filter.Ref.Column",
  "conf.Integrations[].Event.Inputs[].Components[].Filter.Ref.Table",
  "conf.Integrations[].Event.Inputs[].Components[].Filter.Ref.Column",
  "conf.Integrations[].Table.Index[][]"]

/-- **splices_covered**: every non-constant string spliced into SQL text anywhere in the code is a
    configuration value at a path `CheckUserInput` checks (or not configuration at all). -/
theorem splices_covered :
    (splices.all fun s =>
      justification.any fun j => j.1 == (s.1, s.2.2) && (j.2.startsWith "const:" || checkedPaths.contains j.2)) = true := by
  decide +kernel

/-- every path the justifications rely on (incl. the filter paths of inputs and nested components)
    is among the checked paths -/
theorem checked_positions : (alsoChecked.all fun p => checkedPaths.contains p) = true := by
  decide +kernel

/-- **entry_points**: configuration from the file passes `ValidateFix` (which runs
    `CheckUserInput`, which runs `Safe` on each path); an integration or source submitted through
    the dashboard passes `CheckUserInput` / `Safe` before it is stored. -/
theorem entry_points :
    (([("shovel.main", "ValidateFix"), ("config.ValidateFix", "CheckUserInput"), ("config.CheckUserInput", "wstrings.Safe"),
       ("web.Handler.SaveIntegration", "CheckUserInput"), ("web.Handler.SaveSource", "wstrings.Safe")] : List (String × String)).all
      fun e => validators.contains e) = true := by
  decide +kernel

/-! non-vacuity -/
example : safe (fun _ => false) ("task_updates-2".toList.map Char.toNat) = true := by decide
example : safe (fun _ => false) ("u_t (c); drop table x; --".toList.map Char.toNat) = false := by decide
example : splices.length > 10 := by decide

end Shovel.Safe
