import Shovel.Props.WorldConverge
/-
  `shovel.PruneTask` (shovel/task.go) against the world model: `prune n db` (Model/World.lean)
  deletes, for every (source, integration) pair, all recorded positions except the `n` with the
  largest numbers.  It runs every ten minutes, concurrently with the indexing steps.

  What is proved here:
  * pruning touches positions only, pair by pair (`prune_rows`, `prune_sub`, `prune_other`);
  * with `n ≥ 1` the newest position of every pair survives (`prune_top`), hence the growth invariant
    `Inv` and `KeysOK` survive (`prune_inv`, `prune_keysOK`) and a step after a prune behaves as
    `inv_step` says (`prune_then_step`);
  * exactly which positions survive (`prune_keeps_newest`, `prune_count`);
  * the cost: `unwind_step` needs a recorded position at or below the fork.  If the fork position
    `g` survives the prune (fewer than `n` positions above it), EVERY hypothesis of `unwind_step`
    transfers (`unwind_hyps_prune`, `unwind_step_prune`).  If it does not survive, `hg` is lost and
    nothing replaces it: see the example at the end (no surviving position is canonical).
-/
namespace Shovel.World

/-! ### the pair-local prune -/

/-- prune of ONE pair's positions: keep `x` iff fewer than `n` of the list carry a larger number -/
def pruneL (n : Nat) (cs : List Cur) : List Cur :=
  cs.filter fun x => decide ((cs.filter fun o => decide (x.num < o.num)).length < n)

theorem prune_cur (n : Nat) (db : DB) : (prune n db).cur =
    db.cur.filter fun c => decide
      ((db.cur.filter fun o => o.src == c.src && o.ig == c.ig && decide (o.num > c.num)).length < n) := rfl

/-- **prune_rows**: pruning never touches a destination row -/
theorem prune_rows (n : Nat) (db : DB) : (prune n db).rows = db.rows := rfl

/-- **prune_sub**: pruning only deletes positions -/
theorem prune_sub (n : Nat) (db : DB) : ∀ x ∈ (prune n db).cur, x ∈ db.cur :=
  fun _ hx => (List.mem_filter.mp hx).1

theorem prune_sublist (n : Nat) (db : DB) : (prune n db).cur.Sublist db.cur := List.filter_sublist

theorem pruneL_sublist (n : Nat) (cs : List Cur) : (pruneL n cs).Sublist cs := List.filter_sublist

/-- **prune_other**: the pruned positions of a pair are the pair-local prune of the pair's
    positions — they do not depend on any other pair's positions. -/
theorem prune_other (n : Nat) (db : DB) (t : Task) :
    (prune n db).cur.filter (mineC t) = pruneL n (db.cur.filter (mineC t)) := by
  rw [prune_cur, pruneL, List.filter_filter, List.filter_filter]
  apply List.filter_congr
  intro x _
  cases hm : mineC t x with
  | false => simp
  | true =>
    simp only [Bool.true_and, Bool.and_true]
    have hs : x.src = t.src ∧ x.ig = t.ig := by simpa [mineC] using hm
    have : (db.cur.filter fun o => o.src == x.src && o.ig == x.ig && decide (o.num > x.num)) =
        ((db.cur.filter (mineC t)).filter fun o => decide (x.num < o.num)) := by
      rw [List.filter_filter]
      apply List.filter_congr
      intro o _
      rw [hs.1, hs.2, Bool.and_comm]
      rfl
    rw [this]

/-- the same, as independence: two databases that agree on a pair's positions agree on them after
    pruning, whatever the other pairs' positions are -/
theorem prune_other_congr (n : Nat) (db db' : DB) (t : Task)
    (h : db.cur.filter (mineC t) = db'.cur.filter (mineC t)) :
    (prune n db).cur.filter (mineC t) = (prune n db').cur.filter (mineC t) := by
  rw [prune_other, prune_other, h]

/-! ### `topOf` is the maximum -/

theorem foldl_topStep_some : ∀ (cs : List Cur) (a : Nat),
    cs.foldl topStep (some a) = some (cs.foldl (fun m x => max m x.num) a)
  | [], _ => rfl
  | x :: cs, a => by
    simp only [List.foldl_cons]
    exact foldl_topStep_some cs (max a x.num)

theorem foldl_max_spec : ∀ (cs : List Cur) (a : Nat),
    a ≤ cs.foldl (fun m x => max m x.num) a ∧
    (∀ y ∈ cs, y.num ≤ cs.foldl (fun m x => max m x.num) a) ∧
    (cs.foldl (fun m x => max m x.num) a = a ∨ ∃ x ∈ cs, x.num = cs.foldl (fun m x => max m x.num) a)
  | [], a => ⟨Nat.le_refl _, (fun _ h => by cases h), .inl rfl⟩
  | x :: cs, a => by
    simp only [List.foldl_cons]
    obtain ⟨h1, h2, h3⟩ := foldl_max_spec cs (max a x.num)
    refine ⟨by omega, fun y hy => ?_, ?_⟩
    · rcases List.mem_cons.mp hy with rfl | hy
      · omega
      · exact h2 y hy
    · rcases h3 with h3 | ⟨z, hz, hz2⟩
      · by_cases hax : x.num ≤ a
        · left; rw [h3]; omega
        · right; exact ⟨x, List.mem_cons_self, by rw [h3]; omega⟩
      · right; exact ⟨z, List.mem_cons_of_mem _ hz, hz2⟩

theorem topOf_eq_none_iff {cs : List Cur} : topOf cs = none ↔ cs = [] := by
  cases cs with
  | nil => exact ⟨fun _ => rfl, fun _ => rfl⟩
  | cons x cs =>
    rw [topOf_def, List.foldl_cons]
    show cs.foldl topStep (some x.num) = none ↔ _
    rw [foldl_topStep_some]
    simp

/-- `topOf` is the largest number of the list -/
theorem topOf_eq_some_iff {cs : List Cur} {m : Nat} :
    topOf cs = some m ↔ (∃ x ∈ cs, x.num = m) ∧ ∀ y ∈ cs, y.num ≤ m := by
  cases cs with
  | nil =>
    constructor
    · intro h; cases h
    · rintro ⟨⟨x, hx, _⟩, _⟩; cases hx
  | cons x cs =>
    rw [topOf_def, List.foldl_cons]
    show cs.foldl topStep (some x.num) = some m ↔ _
    rw [foldl_topStep_some]
    obtain ⟨h1, h2, h3⟩ := foldl_max_spec cs x.num
    constructor
    · intro h
      cases h
      refine ⟨?_, fun y hy => ?_⟩
      · rcases h3 with h3 | ⟨z, hz, hz2⟩
        · exact ⟨x, List.mem_cons_self, h3.symm⟩
        · exact ⟨z, List.mem_cons_of_mem _ hz, hz2⟩
      · rcases List.mem_cons.mp hy with rfl | hy
        · exact h1
        · exact h2 y hy
    · rintro ⟨⟨z, hz, hzm⟩, hub⟩
      congr 1
      apply Nat.le_antisymm
      · rcases h3 with h3 | ⟨w, hw, hw2⟩
        · rw [h3]; exact hub x List.mem_cons_self
        · rw [← hw2]; exact hub w (List.mem_cons_of_mem _ hw)
      · rw [← hzm]
        rcases List.mem_cons.mp hz with rfl | hz
        · exact h1
        · exact h2 z hz

/-! ### b. the newest position survives -/

theorem pruneL_top {n : Nat} (hn : 1 ≤ n) (cs : List Cur) : topOf (pruneL n cs) = topOf cs := by
  cases h : topOf cs with
  | none =>
    have := topOf_eq_none_iff.mp h
    subst this
    rfl
  | some m =>
    obtain ⟨⟨x, hx, hxm⟩, hub⟩ := topOf_eq_some_iff.mp h
    apply topOf_eq_some_iff.mpr
    refine ⟨⟨x, ?_, hxm⟩, fun y hy => hub y (List.mem_filter.mp hy).1⟩
    rw [pruneL, List.mem_filter]
    refine ⟨hx, ?_⟩
    have : cs.filter (fun o => decide (x.num < o.num)) = [] := by
      rw [List.filter_eq_nil_iff]
      intro o ho
      have := hub o ho
      simp only [decide_eq_true_eq]
      omega
    rw [this]
    simp only [List.length_nil, decide_eq_true_eq]
    omega

/-- **prune_top**: with `n ≥ 1` the newest recorded position of every pair survives the prune.
    (No distinctness of the numbers is needed: a position with nothing above it is always kept.) -/
theorem prune_top {n : Nat} (hn : 1 ≤ n) (db : DB) (t : Task) :
    topOf ((prune n db).cur.filter (mineC t)) = topOf (db.cur.filter (mineC t)) := by
  rw [prune_other, pruneL_top hn]

/-- the same for the position `latest()` reads: the step after a prune starts where it would have -/
theorem prune_latestCur_num {n : Nat} (hn : 1 ≤ n) (db : DB) (t : Task) :
    ((prune n db).latestCur t.src t.ig).map (·.num) = (db.latestCur t.src t.ig).map (·.num) := by
  rw [← topOf_latest, ← topOf_latest, prune_top hn]

/-! ### c. the invariants survive -/

/-- **prune_inv**: the growth invariant (for any initial position `s`) survives a prune with `n ≥ 1` -/
theorem prune_inv {n : Nat} (hn : 1 ≤ n) {t : Task} {c : Chain} {s : Nat} {db : DB}
    (hinv : Inv t c s db) : Inv t c s (prune n db) := by
  obtain ⟨h1, h2, h3⟩ := (Inv_iff t c s db).mp hinv
  rw [Inv_iff, prune_top hn, prune_rows]
  refine ⟨fun x hx => h1 x ?_, ?_, h3⟩
  · rw [prune_other] at hx
    exact (pruneL_sublist n _).subset hx
  · rw [prune_other]
    exact h2.sublist ((pruneL_sublist n _).map _)

/-- **prune_keysOK**: `KeysOK` talks about rows only (any `n`) -/
theorem prune_keysOK {n : Nat} {t : Task} {c : Chain} {db : DB} (hk : KeysOK t c db) :
    KeysOK t c (prune n db) := hk

/-! ### d. which positions survive -/

/-- **prune_keeps_newest**: a position of the pair survives iff fewer than `n` positions of the pair
    lie above it.  (Holds for every `n` and without distinctness — it is the definition read per
    pair; distinctness is what makes "fewer than `n` above" mean "among the `n` newest", see
    `prune_count`.) -/
theorem prune_keeps_newest (n : Nat) (db : DB) (t : Task) (x : Cur) (hx : x ∈ db.cur.filter (mineC t)) :
    x ∈ (prune n db).cur ↔ ((db.cur.filter (mineC t)).filter fun o => decide (x.num < o.num)).length < n := by
  have hm : mineC t x = true := (List.mem_filter.mp hx).2
  have : x ∈ (prune n db).cur ↔ x ∈ (prune n db).cur.filter (mineC t) := by
    rw [List.mem_filter]; simp [hm]
  rw [this, prune_other, pruneL, List.mem_filter]
  simp [hx]

theorem pruneL_all {n : Nat} {cs : List Cur} (h : cs.length ≤ n) : pruneL n cs = cs := by
  rw [pruneL, List.filter_eq_self]
  intro x hx
  simp only [decide_eq_true_eq]
  have : (cs.filter fun o => decide (x.num < o.num)).length < cs.length := by
    rw [List.length_filter_lt_length_iff_exists]
    exact ⟨x, hx, by simp⟩
  omega

/-- **prune_keeps_all**: a pair with at most `n` positions loses none -/
theorem prune_keeps_all (n : Nat) (db : DB) (t : Task) (h : (db.cur.filter (mineC t)).length ≤ n) :
    (prune n db).cur.filter (mineC t) = db.cur.filter (mineC t) := by
  rw [prune_other, pruneL_all h]

/-- the number of positions above `x` is antitone in `x.num` -/
theorem above_mono (cs : List Cur) {x y : Cur} (h : x.num ≤ y.num) :
    (cs.filter fun o => decide (y.num < o.num)).length ≤ (cs.filter fun o => decide (x.num < o.num)).length := by
  have : (cs.filter fun o => decide (y.num < o.num)) =
      ((cs.filter fun o => decide (x.num < o.num)).filter fun o => decide (y.num < o.num)) := by
    rw [List.filter_filter]
    apply List.filter_congr
    intro o _
    by_cases hy : y.num < o.num
    · have : x.num < o.num := by omega
      simp [hy, this]
    · simp [hy]
  rw [this]
  exact List.filter_sublist.length_le

/-- **prune_keeps_largest**: what is deleted is older than everything that is kept (of the pair) -/
theorem prune_keeps_largest (n : Nat) (db : DB) (t : Task) (x y : Cur)
    (hx : x ∈ (prune n db).cur.filter (mineC t)) (hy : y ∈ db.cur.filter (mineC t))
    (hyd : y ∉ (prune n db).cur) : y.num < x.num := by
  rw [prune_other, pruneL, List.mem_filter] at hx
  have hyk := fun h => hyd ((prune_keeps_newest n db t y hy).mpr h)
  have hxk : ((db.cur.filter (mineC t)).filter fun o => decide (x.num < o.num)).length < n := by
    simpa using hx.2
  apply Nat.lt_of_not_le
  intro hle
  have := above_mono (db.cur.filter (mineC t)) hle
  exact hyk (by omega)

theorem pruneL_perm_length {n : Nat} {a b : List Cur} (h : a.Perm b) :
    (pruneL n a).length = (pruneL n b).length := by
  have e : ∀ x : Cur, (a.filter fun o => decide (x.num < o.num)).length =
      (b.filter fun o => decide (x.num < o.num)).length := fun x => (h.filter _).length_eq
  unfold pruneL
  simp only [e]
  exact (h.filter _).length_eq

theorem pruneL_zero (cs : List Cur) : pruneL 0 cs = [] := by
  rw [pruneL, List.filter_eq_nil_iff]
  intro x _
  simp

/-- on a list sorted by descending number the prune is `take n` -/
theorem pruneL_sorted : ∀ (l : List Cur) (n : Nat), l.Pairwise (fun x y => y.num < x.num) → pruneL n l = l.take n
  | [], n, _ => by simp [pruneL]
  | a :: l, 0, _ => by rw [pruneL_zero]; rfl
  | a :: l, m + 1, h => by
    obtain ⟨ha, hl⟩ := List.pairwise_cons.mp h
    have ih := pruneL_sorted l m hl
    have ea : ((a :: l).filter fun o => decide (a.num < o.num)) = [] := by
      rw [List.filter_eq_nil_iff]
      intro o ho
      rcases List.mem_cons.mp ho with rfl | ho
      · simp
      · have := ha o ho
        simp only [decide_eq_true_eq]; omega
    rw [List.take_succ_cons, ← ih]
    unfold pruneL
    rw [List.filter_cons, ea]
    simp only [List.length_nil, Nat.zero_lt_succ, decide_true, ↓reduceIte]
    congr 1
    apply List.filter_congr
    intro x hx
    have hxa := ha x hx
    rw [List.filter_cons]
    simp only [hxa, decide_true, ↓reduceIte, List.length_cons]
    congr 1
    exact propext (by omega)

/-- under distinct numbers exactly `min n (number of positions)` positions survive -/
theorem pruneL_length (n : Nat) (cs : List Cur) (hnd : (cs.map (·.num)).Nodup) :
    (pruneL n cs).length = min n cs.length := by
  let le : Cur → Cur → Bool := fun x y => decide (y.num ≤ x.num)
  have hp := List.mergeSort_perm cs le
  have hs : (cs.mergeSort le).Pairwise (fun a b => le a b = true) :=
    List.pairwise_mergeSort (fun a b c h1 h2 => by simp only [le, decide_eq_true_eq] at *; omega)
      (fun a b => by simp only [le, Bool.or_eq_true, decide_eq_true_eq]; omega) _
  have hnd' : ((cs.mergeSort le).map (·.num)).Nodup := (hp.map _).nodup_iff.mpr hnd
  have hne : (cs.mergeSort le).Pairwise (fun a b => a.num ≠ b.num) := List.pairwise_map.mp hnd'
  have hsorted : (cs.mergeSort le).Pairwise (fun x y => y.num < x.num) :=
    (hs.and hne).imp (fun {a b} h => by
      have h1 : b.num ≤ a.num := by simpa [le] using h.1
      have h2 := h.2
      omega)
  rw [← pruneL_perm_length hp, pruneL_sorted _ _ hsorted, List.length_take, hp.length_eq]

/-- **prune_count**: positions of a pair carry distinct numbers (the table's unique index; `Inv`
    gives it) — then the prune keeps EXACTLY the `n` newest of the pair (all, if there are fewer):
    `min n k` survive, and by `prune_keeps_largest` they are the largest. -/
theorem prune_count (n : Nat) (db : DB) (t : Task) (hnd : ((db.cur.filter (mineC t)).map (·.num)).Nodup) :
    ((prune n db).cur.filter (mineC t)).length = min n (db.cur.filter (mineC t)).length := by
  rw [prune_other, pruneL_length n _ hnd]

/-! ### e. a step after a prune -/

/-- **prune_then_step**: a prune (with `n ≥ 1`) between two steps changes nothing about what
    `inv_step` promises — every state the step after the prune can leave behind, final or mid-way,
    with any fault and any honest-or-failed answers, satisfies the invariant, and `KeysOK` holds
    for the next step. -/
theorem prune_then_step {n : Nat} (hn : 1 ≤ n) (t : Task) (c : Chain) (db : DB) (sc : Script) (f : Option Pos)
    (hc : c.WF) (hsc : ScriptOK c sc) (hstart : 0 < t.start) (hb : 1 ≤ t.batch) (hcc : 1 ≤ t.conc) (hcb : t.conc * t.batch < 2 ^ 63)
    (hhead : c.head < 2 ^ 62) (hdeps : t.deps = []) (hinv : Inv t c (t.start - 1) db) (hk : KeysOK t c db) :
    let r := converge t (prune n db) sc f
    Inv t c (t.start - 1) r.db ∧ (∀ m, r.mid = some m → Inv t c (t.start - 1) m) ∧ KeysOK t c r.db := by
  intro r
  have h := inv_step t c (prune n db) sc f hc hsc hstart hb hcc hcb hhead hdeps (prune_inv hn hinv)
    (prune_keysOK hk)
  exact ⟨h.1, h.2, keysOK_step t c (prune n db) sc f (prune_keysOK hk)⟩

/-- both hypotheses that `troubled_inv` / `converges_despite_faults` / `reaches_head` start from hold
    after a prune, so a prune may be inserted before any of them (and, by `troubled_inv`, between
    any two steps of a troubled period) -/
theorem prune_troubled_inv {n : Nat} (hn : 1 ≤ n) (t : Task) (c : Chain) (db : DB)
    (hinv : Inv t c (t.start - 1) db) (hk : KeysOK t c db) :
    Inv t c (t.start - 1) (prune n db) ∧ KeysOK t c (prune n db) :=
  ⟨prune_inv hn hinv, prune_keysOK hk⟩

/-! ### f. what pruning costs: unwinding a reorg -/

/-- the fork position survives when fewer than `n` positions lie above it -/
theorem prune_mem_of_few_above {n : Nat} {db : DB} {t : Task} {g : Cur}
    (hg : g ∈ db.cur.filter (mineC t))
    (hfew : ((db.cur.filter (mineC t)).filter fun x => decide (g.num < x.num)).length < n) :
    g ∈ (prune n db).cur.filter (mineC t) := by
  rw [List.mem_filter]
  exact ⟨(prune_keeps_newest n db t g hg).mpr hfew, (List.mem_filter.mp hg).2⟩

/-- **unwind_hyps_prune**: if the fork position `g` is still recorded after the prune, EVERY
    hypothesis of `unwind_step` about the database transfers from `db` to `prune n db` — those about
    positions (`hnodup`, `hg`, `hbelow`, `habove`, `hcount`, `hgrow`, and `hnone`, whose premise
    mentions positions) and those about rows (`hrows`, `hk`, unchanged).  Listed in `unwind_step`'s
    order.  `hnone` is the only one that is not a plain "subset" argument: it needs that the newest
    position survives (`prune_top`; `n ≥ 1` follows from `g` having survived). -/
theorem unwind_hyps_prune {n : Nat} (t : Task) (c : Chain) (db : DB) (g : Cur)
    (hgp : g ∈ (prune n db).cur.filter (mineC t))
    (hnodup : ((db.cur.filter (mineC t)).map (·.num)).Nodup)
    (hbelow : ∀ x ∈ db.cur.filter (mineC t), x.num ≤ g.num →
      t.start - 1 < x.num ∧ x.num ≤ c.head ∧ x.hash = c.hashAt x.num)
    (habove : ∀ x ∈ db.cur.filter (mineC t), g.num < x.num → x.hash ≠ c.hashAt x.num)
    (hcount : ((db.cur.filter (mineC t)).filter fun x => g.num < x.num).length ≤ 1000)
    (hrows : (db.rows.filter fun r => mine t r && decide (r.blk ≤ g.num)) =
      (c.slice t.start (g.num - (t.start - 1))).flatMap (rowsFor t))
    (hk : KeysOK t c { db with rows := db.rows.filter fun r => !(mine t r && decide (g.num < r.blk)) })
    (hnone : (∀ x ∈ db.cur.filter (mineC t), x.num ≤ g.num) → ∀ r ∈ db.rows, mine t r = true → r.blk ≤ g.num)
    (hgrow : ∀ x ∈ db.cur.filter (mineC t), x.num < c.head) :
    (((prune n db).cur.filter (mineC t)).map (·.num)).Nodup ∧
    g ∈ (prune n db).cur.filter (mineC t) ∧
    (∀ x ∈ (prune n db).cur.filter (mineC t), x.num ≤ g.num →
      t.start - 1 < x.num ∧ x.num ≤ c.head ∧ x.hash = c.hashAt x.num) ∧
    (∀ x ∈ (prune n db).cur.filter (mineC t), g.num < x.num → x.hash ≠ c.hashAt x.num) ∧
    ((((prune n db).cur.filter (mineC t)).filter fun x => g.num < x.num).length ≤ 1000) ∧
    (((prune n db).rows.filter fun r => mine t r && decide (r.blk ≤ g.num)) =
      (c.slice t.start (g.num - (t.start - 1))).flatMap (rowsFor t)) ∧
    KeysOK t c { prune n db with rows := (prune n db).rows.filter fun r => !(mine t r && decide (g.num < r.blk)) } ∧
    ((∀ x ∈ (prune n db).cur.filter (mineC t), x.num ≤ g.num) →
      ∀ r ∈ (prune n db).rows, mine t r = true → r.blk ≤ g.num) ∧
    (∀ x ∈ (prune n db).cur.filter (mineC t), x.num < c.head) := by
  have hsl : ((prune n db).cur.filter (mineC t)).Sublist (db.cur.filter (mineC t)) := by
    rw [prune_other]; exact pruneL_sublist n _
  have hsub : ∀ x ∈ (prune n db).cur.filter (mineC t), x ∈ db.cur.filter (mineC t) := fun x hx => hsl.subset hx
  have hn : 1 ≤ n := by
    have h := hgp
    rw [prune_other, pruneL, List.mem_filter] at h
    have : ((db.cur.filter (mineC t)).filter fun o => decide (g.num < o.num)).length < n := by simpa using h.2
    omega
  refine ⟨hnodup.sublist (hsl.map _), hgp, fun x hx => hbelow x (hsub x hx), fun x hx => habove x (hsub x hx),
    Nat.le_trans (hsl.filter _).length_le hcount, hrows, hk, fun hall => hnone fun x hx => ?_,
    fun x hx => hgrow x (hsub x hx)⟩
  -- the newest position of `db` survives, so it is at or below `g`; everything is below it
  cases htop : topOf (db.cur.filter (mineC t)) with
  | none => rw [topOf_eq_none_iff.mp htop] at hx; cases hx
  | some m =>
    have htop' := prune_top hn db t
    rw [htop] at htop'
    obtain ⟨⟨z, hz, hzm⟩, _⟩ := topOf_eq_some_iff.mp htop'
    have h1 := (topOf_eq_some_iff.mp htop).2 x hx
    have h2 := hall z hz
    omega

/-- **unwind_step_prune**: `unwind_step` after a prune.  The hypotheses are those of `unwind_step`
    about the database BEFORE the prune, plus: fewer than `n` recorded positions lie above the fork
    position `g` (the reorg is shallower than the retained history).  One fault-free honest step on
    the pruned database unwinds to `g`, indexes the next batch of `c` and re-establishes `Inv`. -/
theorem unwind_step_prune {n : Nat} (t : Task) (c : Chain) (db : DB) (sc : Script) (g : Cur)
    (hc : c.WF) (hsc : ScriptOK c sc) (hstart : 0 < t.start) (hb : 1 ≤ t.batch) (hcc : 1 ≤ t.conc)
    (hcb : t.conc * t.batch < 2 ^ 63) (hhead : c.head < 2 ^ 62) (hdeps : t.deps = []) (hstop : t.stop = 0)
    (hnodup : ((db.cur.filter (mineC t)).map (·.num)).Nodup)
    (hg : g ∈ db.cur.filter (mineC t))
    (hbelow : ∀ x ∈ db.cur.filter (mineC t), x.num ≤ g.num →
      t.start - 1 < x.num ∧ x.num ≤ c.head ∧ x.hash = c.hashAt x.num)
    (habove : ∀ x ∈ db.cur.filter (mineC t), g.num < x.num → x.hash ≠ c.hashAt x.num)
    (hfew : ((db.cur.filter (mineC t)).filter fun x => g.num < x.num).length < min n 1001)
    (hrows : (db.rows.filter fun r => mine t r && decide (r.blk ≤ g.num)) =
      (c.slice t.start (g.num - (t.start - 1))).flatMap (rowsFor t))
    (hk : KeysOK t c { db with rows := db.rows.filter fun r => !(mine t r && decide (g.num < r.blk)) })
    (hnone : (∀ x ∈ db.cur.filter (mineC t), x.num ≤ g.num) → ∀ r ∈ db.rows, mine t r = true → r.blk ≤ g.num)
    (hgrow : ∀ x ∈ db.cur.filter (mineC t), x.num < c.head)
    (hhonest : (∀ a ∈ sc.latest, a = some (c.head, c.hashAt c.head)) ∧ (∀ p ∈ sc.hash, p.2 ≠ none) ∧
      (∀ q ∈ sc.gets, q.2 ≠ none)) :
    let r := converge t (prune n db) sc none
    r.scriptOk = true →
    (∃ m, r.outcome = .ok m ∧ g.num < m) ∧ Inv t c (t.start - 1) r.db ∧
    (r.db.rows.filter fun r => mine t r && decide (r.blk ≤ g.num)) =
      (db.rows.filter fun r => mine t r && decide (r.blk ≤ g.num)) := by
  have hgp := prune_mem_of_few_above (n := n) hg (Nat.lt_of_lt_of_le hfew (Nat.min_le_left _ _))
  have hcount : ((db.cur.filter (mineC t)).filter fun x => g.num < x.num).length ≤ 1000 := by
    have := Nat.lt_of_lt_of_le hfew (Nat.min_le_right n 1001); omega
  obtain ⟨h1, h2, h3, h4, h5, h6, h7, h8, h9⟩ :=
    unwind_hyps_prune (n := n) t c db g hgp hnodup hbelow habove hcount hrows hk hnone hgrow
  exact unwind_step t c (prune n db) sc g hc hsc hstart hb hcc hcb hhead hdeps hstop h1 h2 h3 h4 h5 h6 h7 h8 h9 hhonest

/-! ### g. non-vacuity -/

namespace PruneEx
open Ex

def cu (ig : String) (n : Nat) : Cur := { src := "s", ig := ig, num := n, hash := "h" }

/-- two pairs `(s, i)` and `(s, j)`, five positions each, interleaved and out of order -/
def db10 : DB :=
  { cur := [cu "i" 1, cu "j" 1, cu "i" 2, cu "j" 3, cu "i" 3, cu "j" 2, cu "i" 5, cu "j" 4, cu "i" 4, cu "j" 5],
    rows := [row 1 "k1", foreign] }

def tJ : Task := { t1 with ig := "j" }

/-- `prune 2` keeps the two newest positions of each pair (in place), rows untouched -/
example : prune 2 db10 = { cur := [cu "i" 5, cu "j" 4, cu "i" 4, cu "j" 5], rows := [row 1 "k1", foreign] } := by
  decide +kernel

example : (prune 2 db10).cur.filter (mineC t1) = [cu "i" 5, cu "i" 4] ∧
    (prune 2 db10).cur.filter (mineC tJ) = [cu "j" 4, cu "j" 5] ∧
    topOf ((prune 2 db10).cur.filter (mineC t1)) = some 5 ∧ topOf (db10.cur.filter (mineC t1)) = some 5 := by
  decide +kernel

/-- pair-locality: deleting all of `(s, j)`'s positions does not change what is pruned of `(s, i)` -/
example : (prune 2 { db10 with cur := db10.cur.filter (mineC t1) }).cur.filter (mineC t1) =
    (prune 2 db10).cur.filter (mineC t1) := by decide +kernel

/-- a pair with no more than `n` positions loses nothing -/
example : prune 5 db10 = db10 := by decide +kernel

/-- `prune 0` deletes every position: `hn : 1 ≤ n` is needed in `prune_top` … -/
example : (prune 0 db10).cur = [] ∧
    topOf ((prune 0 db10).cur.filter (mineC t1)) = none ∧ topOf (db10.cur.filter (mineC t1)) = some 5 := by
  decide +kernel

example : ¬ (topOf ((prune 0 db10).cur.filter (mineC t1)) = topOf (db10.cur.filter (mineC t1))) := by
  decide +kernel

/-- … and in `prune_inv`: the state after the first step of `Ex` satisfies `Inv`, its `prune 0` does
    not (rows without a position) -/
example : Inv t1 c6 (t1.start - 1) (converge t1 {} sc1 none).db ∧
    ¬ Inv t1 c6 (t1.start - 1) (prune 0 (converge t1 {} sc1 none).db) := by decide +kernel

/-- the hypotheses of `prune_then_step` are jointly satisfiable (prune, then the first step) -/
example : Inv t1 c6 (t1.start - 1) (converge t1 (prune 200 {}) sc1 none).db :=
  (prune_then_step (n := 200) (by decide) t1 c6 {} sc1 none c6_wf sc1_ok (by decide) (by decide) (by decide)
    (by decide) (by decide +kernel) rfl (by decide +kernel) (by decide +kernel)).1

/-! the reorg of `Ex` (`dbR`: position 2 canonical, position 4 orphaned).  `prune 2` keeps the fork
    position, so `unwind_step_prune` applies. -/

example : prune 2 dbR = dbR := by decide +kernel

example : (∃ n, (converge t1 (prune 2 dbR) scR none).outcome = .ok n ∧ g2.num < n) ∧
    Inv t1 c6 (t1.start - 1) (converge t1 (prune 2 dbR) scR none).db :=
  have h := unwind_step_prune (n := 2) t1 c6 dbR scR g2 c6_wf scR_ok (by decide) (by decide) (by decide) (by decide)
    (by decide +kernel) rfl rfl (by decide +kernel) (by decide +kernel) (by decide +kernel) (by decide +kernel)
    (by decide +kernel) (by decide +kernel) (by decide +kernel) (by decide +kernel) (by decide +kernel)
    (by decide +kernel) (by decide +kernel)
  ⟨h.1, h.2.1⟩

/-! the cost.  `prune 1` deletes the fork position of `dbR`: the only position left is the orphan,
    so NO position can play the role of `g` in `unwind_step` (`hg` + `hbelow` need a recorded
    position whose hash is the chain's). -/

example : (prune 1 dbR).cur = [{ src := "s", ig := "i", num := 4, hash := hx 'd' }] := by decide +kernel

theorem no_fork_left : ∀ g ∈ (prune 1 dbR).cur.filter (mineC t1), g.hash ≠ c6.hashAt g.num := by
  decide +kernel

/-- `hg` and `hbelow` of `unwind_step` cannot both hold for `prune 1 dbR`, whatever `g` -/
example : ¬ ∃ g, g ∈ (prune 1 dbR).cur.filter (mineC t1) ∧
    (∀ x ∈ (prune 1 dbR).cur.filter (mineC t1), x.num ≤ g.num →
      t1.start - 1 < x.num ∧ x.num ≤ c6.head ∧ x.hash = c6.hashAt x.num) := by
  rintro ⟨g, hg, hb⟩
  exact no_fork_left g hg (hb g hg (Nat.le_refl _)).2.2

/-- honest answers for the step on `prune 1 dbR` -/
def scDeep : Script :=
  { latest := [some (5, c6.hashAt 5), some (5, c6.hashAt 5)], hash := [(0, some (c6.hashAt 0))],
    gets := [((5, 1), some (c6.slice 5 1)), ((1, 1), some (c6.slice 1 1)), ((2, 1), some (c6.slice 2 1))] }

/-- what the model does then (configured start ≥ 1): the unwind runs out of recorded positions,
    falls back to the configured start, deletes ALL the task's rows — including rows 1 and 2 below
    the fork, which `unwind_step` keeps — and indexes again from `start`.  Correct (`Inv` holds
    again), but a full re-index instead of an unwind to the fork. -/
example : (converge t1 (prune 1 dbR) scDeep none).outcome = .ok 2 ∧
    (converge t1 (prune 1 dbR) scDeep none).mid = some { cur := [], rows := [foreign] } ∧
    (converge t1 (prune 1 dbR) scDeep none).db =
      { cur := [g2], rows := [foreign, row 1 "k1", row 2 "k2"] } ∧
    (converge t1 (prune 1 dbR) scDeep none).scriptOk = true ∧
    Inv t1 c6 (t1.start - 1) (converge t1 (prune 1 dbR) scDeep none).db := by decide +kernel

/-- without the prune the same state unwinds to the fork and keeps rows 1 and 2 (`Ex`) -/
example : (converge t1 dbR scR none).mid = some { cur := [g2], rows := [row 1 "k1", row 2 "k2", foreign] } := by
  decide +kernel

/-- a task that starts "at the current head" (`start = 0`, outside `inv_step`/`unwind_step`) -/
def t0 : Task := { t1 with start := 0 }

def scDeep0 : Script :=
  { latest := [some (5, c6.hashAt 5), some (5, c6.hashAt 5), some (5, c6.hashAt 5)], hash := [(4, some (c6.hashAt 4))],
    gets := [((5, 1), some (c6.slice 5 1)), ((5, 1), some (c6.slice 5 1))] }

/-- … has no configured start to fall back to: after the pruned history is exhausted it restarts
    just below the source's head, so the table keeps rows 1–3 (row 3 from the ORPHANED block 3) and
    jumps to block 5: block 3 is wrong and block 4 is missing. -/
example : (converge t0 (prune 1 dbR) scDeep0 none).outcome = .ok 5 ∧
    (converge t0 (prune 1 dbR) scDeep0 none).db =
      { cur := [{ src := "s", ig := "i", num := 5, hash := hx '5' }],
        rows := [row 1 "k1", row 2 "k2", row 3 "o3", foreign, row 5 "k5"] } ∧
    (converge t0 (prune 1 dbR) scDeep0 none).scriptOk = true := by decide +kernel

end PruneEx

end Shovel.World

#print axioms Shovel.World.prune_rows
#print axioms Shovel.World.prune_sub
#print axioms Shovel.World.prune_other
#print axioms Shovel.World.prune_top
#print axioms Shovel.World.prune_inv
#print axioms Shovel.World.prune_keysOK
#print axioms Shovel.World.prune_keeps_newest
#print axioms Shovel.World.prune_keeps_all
#print axioms Shovel.World.prune_keeps_largest
#print axioms Shovel.World.prune_count
#print axioms Shovel.World.prune_then_step
#print axioms Shovel.World.unwind_hyps_prune
#print axioms Shovel.World.unwind_step_prune
