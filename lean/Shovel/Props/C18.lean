import Shovel.Model.Race
/-
  C18 — the concurrent indexing pipeline is free of data races (PARTIAL by nature: the Go memory
  model, the runtime and library internals are not modelled; see DESIGN.md).
  What is proved:
   • `discipline_*` (kernel evaluation over the event sequences regenerated from the Go source on
     every run): every write to a location shared between goroutines happens with the mutex that
     guards that location held — removing or moving a Lock/Unlock re-opens these.
   • `lockset_sound` (Props/C18Lockset.lean): in every well-formed trace two accesses that both
     hold a common lock are ordered by happens-before.
  What is checked dynamically: the race detector over the real pipeline (harness, -race).
-/
namespace Shovel.Race
open Shovel.Gen.Locks

/-- the segment cache: the map under the cache mutex, a segment's fields under the segment mutex -/
theorem discipline_cache :
    (guarded "jrpc2.cache.get" ["c.segments"] "c" && guarded "jrpc2.cache.get" ["seg.nreads", "seg.d", "seg.done"] "seg") = true := by
  decide +kernel

/-- the head cache: every field under its own mutex, in all three methods -/
theorem discipline_head :
    (guarded "jrpc2.NumHash.error" ["nh."] "nh" && guarded "jrpc2.NumHash.update" ["nh."] "nh" &&
     guarded "jrpc2.NumHash.get" ["nh."] "nh") = true := by
  decide +kernel

/-- blocks of shared cached segments: transactions, logs, trace actions, receipt fields and the
    block hash are written under the block's mutex by all three attach paths -/
theorem discipline_blocks :
    (guarded "jrpc2.Client.logs" ["tx.", "b.Header.Hash"] "b" &&
     guarded "jrpc2.Client.receipts" ["tx.", "b.Header.Hash"] "b" &&
     guarded "jrpc2.Client.traces" ["tx.", "block.Header.Hash", "ta."] "block") = true := by
  decide +kernel

/-- the partition goroutines append to the shared result under `blocksMut` and assign nothing else
    that is shared (in particular not the captured `ctx`); the transaction hash cache has its own mutex -/
theorem discipline_task :
    (guarded "shovel.Task.load" ["blocks"] "blocksMut" &&
     ((writesOf "shovel.Task.load").filter (·.2.2)).all (fun w => w.1 == "blocks") &&
     ((writesOf "shovel.Task.insert").filter (·.2.2)).isEmpty &&
     guarded "eth.Tx.Hash" ["tx.PrecompHash"] "tx.cacheMut") = true := by
  decide +kernel

/-- the manager: the task list and the generation channel are written by `Run` with `running` held;
    `Restart` holds `restartMut` throughout -/
theorem discipline_manager :
    (guarded "shovel.Manager.Run" ["tm.tasks", "tm.restart"] "tm.running" &&
     (match events.find? (·.1 == "shovel.Manager.Restart") with
      | some e => e.2.take 2 == [.lock "tm.restartMut", .deferUnlock "tm.restartMut"]
      | none => false)) = true := by
  decide +kernel

/-- memoised and cached state is also only READ with its mutex held: the transaction hash memo (no
    lock-free fast path), every field of the head cache in `get`, a segment's `done`/`d`/`nreads`
    under the segment mutex and the segment map under the cache mutex -/
theorem discipline_reads :
    (guardedReads "eth.Tx.Hash" ["tx.PrecompHash"] "tx.cacheMut" &&
     guardedReads "jrpc2.NumHash.get" ["nh."] "nh" &&
     guardedReads "jrpc2.cache.get" ["seg."] "seg" &&
     guardedReads "jrpc2.cache.get" ["c.segments"] "c") = true := by
  decide +kernel

/-- **head_cache_encapsulated**: outside the methods of `NumHash` (which take its mutex first — `discipline_head`,
    `discipline_reads`), `jrpc2/client.go` touches the shared head cache only through those methods; the one direct
    field access is the `WithMaxReads` option, applied while the client is being built, before it is shared.
    (Regenerated from the source: a lock-free peek at `c.lcache.Num` from the poller, the listener or `Latest`
    shows up as a further entry.) -/
theorem head_cache_encapsulated : lcacheDirect = ["WithMaxReads: c.lcache.maxreads"] := by decide +kernel

/-- **plan_immutable**: a data plan (`*glf.Filter`) is handed to every partition goroutine of a step and
    formatted by their log calls; none of its methods assigns to it (no lazily filled or memoised field). -/
theorem plan_immutable : planWrites = [] := by decide +kernel

/-- **client_config_immutable**: the fields of a `jrpc2.Client` itself (its URLs, the websocket URL, the poll
    duration, the debug switch) are read without a lock by every task goroutine sharing the client and by the
    background head feed; after construction (`New`, the `With…` builders) no method assigns any of them — so
    those reads race with nothing. (Regenerated from the source: e.g. a listener that clears `c.wsurl` to fall
    back to polling shows up as an entry.) -/
theorem client_config_immutable : clientWrites = [] := by decide +kernel

end Shovel.Race
