import Shovel.Model.Rpc
import Shovel.Spec.Rpc
import Shovel.Proofs.Rpc
/-
  C07: a block request (model `Shovel.Rpc.get` of jrpc2/client.go `Client.Get`) either fails or
  returns exactly the requested consecutive block numbers, hash-linked where hashes are supplied,
  with every log, receipt and trace attached to the block it names.

  Model of `setHash` as repaired: an empty hash is ignored, a held hash is never erased or replaced.

  As stated first (RpcStmt.lean):   get_numbers, headers_reject, transport_reject,
                                    receipts_attach_sound, traces_attach_sound, logs_attach_sound.
  Stronger than stated first:       setHash_keeps (the held hash is kept whatever the argument).
  Corrected:  get_linked needs `Exch.hdrHashed` (every header of the batch carries its hash;
              Shovel/Spec/Rpc.lean): a header without hash links to nothing, and a log may fill the
              hash in afterwards (counterexample in the `Examples` section).  `get_linked_parent`
              and `get_parents` are the variants without any hypothesis.
  Added: validate_reject, transport_reject_any, setHash_spec, setHash_rejects, logs_header_sound,
    receipts_hash_sound, traces_hash_sound, logs_keep / receipts_keep / traces_keep,
    get_headers_kept, get_bare, get_attach_sound, get_attach_final.
  Helper lemmas: Shovel/Proofs/Rpc.lean.
-/
namespace Shovel.Rpc

/-- everything `get` does after the first stage keeps numbers, parents and non-empty hashes -/
theorem get_rel {p : Plan} {start limit : Nat} {xs : List Exch} {bs : List Block}
    (h : get p start limit xs = some bs) :
    ∃ bs0 xs1, stage1 p start limit xs = some (bs0, xs1) ∧ Rel Keep bs0 bs := by
  obtain ⟨bs0, xs1, bs1, xs2, h1, h2, h3⟩ := get_some h
  have s2 := stage2_spec h2
  refine ⟨bs0, xs1, h1, rel_trans s2.1 ?_⟩
  unfold stage3 at h3
  split at h3
  · exact (get_go_spec bs1 _ _ _ _ (rel_refl _) h3).1
  · cases h3; exact rel_refl _

/-- **get_sound (range)** (C07): a successful block request returns exactly the requested
    consecutive block numbers, for every plan and every set of responses (honest or corrupted). -/
theorem get_numbers (p : Plan) (start limit : Nat) (xs : List Exch) (bs : List Block)
    (h : get p start limit xs = some bs) : numbersOK start limit bs := by
  obtain ⟨bs0, xs1, h1, hrel⟩ := get_rel h
  unfold numbersOK
  rw [Rel.map_eq (·.num) (fun a b hk => hk.1) hrel, (stage1_spec h1).1, List.range'_eq_map_range]

/-- the header batch a request with `blocks`/`headers` consumed, and what became of it: numbers,
    parents and non-empty hashes are those of the validated batch -/
theorem get_headers {p : Plan} {start limit : Nat} {xs : List Exch} {bs : List Block}
    (hp : p.blocks = true ∨ p.headers = true) (h : get p start limit xs = some bs) :
    ∃ es rest bs0, xs = .headers es :: rest ∧ validate start limit es = some bs0 ∧ Rel Keep bs0 bs := by
  obtain ⟨bs0, xs1, h1, hrel⟩ := get_rel h
  obtain ⟨es, hxs, hv⟩ := (stage1_spec h1).2.2 hp
  exact ⟨es, xs1, bs0, hxs, hv, hrel⟩

/-- **get_sound (links), unconditional part**: every returned block but the first has as parent
    the hash of the preceding header *as delivered in the validated batch*. -/
theorem get_parents (p : Plan) (start limit : Nat) (xs : List Exch) (bs : List Block)
    (hp : p.blocks = true ∨ p.headers = true)
    (h : get p start limit xs = some bs) :
    ∃ es rest, xs = .headers es :: rest ∧
      ∀ i b, bs[i + 1]? = some b → ∃ hd txs, es[i]? = some (.val (hd, txs)) ∧ b.parent = hd.hash := by
  obtain ⟨es, rest, bs0, hxs, hv, hrel⟩ := get_headers hp h
  refine ⟨es, rest, hxs, fun i b hb => ?_⟩
  obtain ⟨_, hlen, _, hnum, hlink, htake⟩ := validate_spec hv
  obtain ⟨b0, hb0, hk⟩ := Rel.get_right hrel hb
  have hi : i + 1 < bs0.length := by
    rcases Nat.lt_or_ge (i + 1) bs0.length with h | h
    · exact h
    · rw [List.getElem?_eq_none h] at hb0; cases hb0
  have ha0 : bs0[i]? = some bs0[i] := List.getElem?_eq_getElem (by omega)
  refine ⟨{ num := bs0[i].num, hash := bs0[i].hash, parent := bs0[i].parent }, bs0[i].txs.map (·.idx), ?_, ?_⟩
  · have : (es.take limit)[i]? = some (elOf bs0[i]) := by rw [htake]; simp [ha0]
    have hlt : i < limit := by
      have := (num_of_map_range' hnum hb0).2
      omega
    rw [List.getElem?_take, if_pos hlt] at this
    exact this
  · rw [hk.2.1]; exact hlink.get ha0 hb0

/-- **get_sound (links)**: when headers or blocks were fetched and every header of the batch
    carries its hash, the returned blocks are hash-linked — whatever the logs, receipts and
    traces replies were.  (Without the hypothesis on the headers: counterexample below.) -/
theorem get_linked (p : Plan) (start limit : Nat) (xs : List Exch) (bs : List Block)
    (hp : p.blocks = true ∨ p.headers = true)
    (hh : ∀ x ∈ xs, x.hdrHashed)
    (h : get p start limit xs = some bs) :
    ∀ i a b, bs[i]? = some a → bs[i + 1]? = some b → b.parent = a.hash := by
  obtain ⟨es, rest, bs0, hxs, hv, hrel⟩ := get_headers hp h
  intro i a b hia hib
  obtain ⟨_, hlen, _, hnum, hlink, htake⟩ := validate_spec hv
  obtain ⟨a0, ha0, hka⟩ := Rel.get_right hrel hia
  obtain ⟨b0, hb0, hkb⟩ := Rel.get_right hrel hib
  have hne : a0.hash ≠ "" := by
    have hm : elOf a0 ∈ es.take limit := by
      rw [htake]; exact List.mem_map_of_mem (List.mem_of_getElem? ha0)
    have := hh (.headers es) (by rw [hxs]; exact List.mem_cons_self)
    exact this _ _ (List.mem_of_mem_take hm)
  rw [hkb.2.1, hka.2.2 hne]
  exact hlink.get ha0 hb0

/-- variant without any assumption on the replies: a non-empty parent is the hash of the
    preceding returned block -/
theorem get_linked_parent (p : Plan) (start limit : Nat) (xs : List Exch) (bs : List Block)
    (hp : p.blocks = true ∨ p.headers = true)
    (h : get p start limit xs = some bs) :
    ∀ i a b, bs[i]? = some a → bs[i + 1]? = some b → b.parent ≠ "" → b.parent = a.hash := by
  obtain ⟨es, rest, bs0, hxs, hv, hrel⟩ := get_headers hp h
  intro i a b hia hib hpar
  obtain ⟨_, hlen, _, hnum, hlink, htake⟩ := validate_spec hv
  obtain ⟨a0, ha0, hka⟩ := Rel.get_right hrel hia
  obtain ⟨b0, hb0, hkb⟩ := Rel.get_right hrel hib
  have hl : b0.parent = a0.hash := hlink.get ha0 hb0
  rw [hkb.2.1] at hpar ⊢
  rw [hka.2.2 (hl ▸ hpar)]
  exact hl

/-- a header batch with an error member, a null result, too few elements, a wrong number, or a
    broken parent link among the first `limit` elements does not validate -/
theorem validate_reject (start limit : Nat) (es : List (El (Hdr × List Nat)))
    (hbad : es.length < limit ∨ (∃ e ∈ es, match e with | .val _ => False | _ => True) ∨
      (∃ i h txs, i < limit ∧ es[i]? = some (.val (h, txs)) ∧ h.num ≠ start + i) ∨
      (∃ i a ta b tb, i + 1 < limit ∧ es[i]? = some (.val (a, ta)) ∧ es[i + 1]? = some (.val (b, tb)) ∧ b.parent ≠ a.hash)) :
    validate start limit es = none := by
  cases hv : validate start limit es with
  | none => rfl
  | some bs =>
    exfalso
    obtain ⟨_, hlen, hval, hnum, hlink, htake⟩ := validate_spec hv
    have hget : ∀ i, i < limit → ∀ x, es[i]? = some x → ∃ b, bs[i]? = some b ∧ x = elOf b := by
      intro i hi x hx
      have : (es.take limit)[i]? = some x := by rw [List.getElem?_take, if_pos hi]; exact hx
      rw [htake, List.getElem?_map] at this
      cases hb : bs[i]? with
      | none => simp [hb] at this
      | some b => simp [hb] at this; exact ⟨b, rfl, this.symm⟩
    rcases hbad with h | ⟨e, he, hbad⟩ | ⟨i, h, txs, hi, hx, hne⟩ | ⟨i, a, ta, b, tb, hi, hxa, hxb, hne⟩
    · omega
    · obtain ⟨a, rfl⟩ := hval e he
      exact hbad
    · obtain ⟨b, hb, hel⟩ := hget i hi _ hx
      have := (num_of_map_range' hnum hb).1
      simp [elOf] at hel
      exact hne (by rw [hel.1]; exact this)
    · obtain ⟨x, hx, hela⟩ := hget i (by omega) _ hxa
      obtain ⟨y, hy, helb⟩ := hget (i + 1) hi _ hxb
      have := hlink.get hx hy
      simp [elOf] at hela helb
      exact hne (by rw [hela.1, helb.1]; exact this)

/-- **get_rejects (batch level)**: an error member, a missing/null result, a short batch, a wrong
    or out-of-place block number, or a broken parent link in the header/block batch always yields
    an error. -/
theorem headers_reject (p : Plan) (start limit : Nat) (es : List (El (Hdr × List Nat))) (rest : List Exch)
    (hp : p.blocks = true ∨ p.headers = true)
    (hbad : es.length < limit ∨ (∃ e ∈ es, match e with | .val _ => False | _ => True) ∨
      (∃ i h txs, i < limit ∧ es[i]? = some (.val (h, txs)) ∧ h.num ≠ start + i) ∨
      (∃ i a ta b tb, i + 1 < limit ∧ es[i]? = some (.val (a, ta)) ∧ es[i + 1]? = some (.val (b, tb)) ∧ b.parent ≠ a.hash)) :
    get p start limit (.headers es :: rest) = none := by
  have hs : stage1 p start limit (.headers es :: rest) = none := by
    have hp' : (p.blocks || p.headers) = true := by rcases hp with h | h <;> simp [h]
    simp [stage1, hp', validate_reject start limit es hbad]
  rw [get_eq, hs]

/-- a failed transport (non-2xx, undecodable, truncated, dropped) where the first exchange of the
    request was expected always yields an error -/
theorem transport_reject_any (p : Plan) (start limit : Nat) (rest : List Exch)
    (hp : p.blocks = true ∨ p.headers = true ∨ p.receipts = true ∨ p.logs = true ∨ p.traces = true)
    (hl : 0 < limit) :
    get p start limit (.fail :: rest) = none := by
  rw [get_eq]
  by_cases h1 : (p.blocks || p.headers) = true
  · simp [stage1, h1]
  · have hs1 : stage1 p start limit (.fail :: rest) =
        some ((List.range limit).map (fun i => ({ num := start + i } : Block)), .fail :: rest) := by
      simp [stage1, h1]
    rw [hs1]
    simp only []
    by_cases h2 : p.receipts = true
    · simp [stage2, h2]
    · by_cases h3 : p.logs = true
      · simp [stage2, h2, h3]
      · have hs2 : ∀ bs, stage2 p start limit bs (.fail :: rest) = some (bs, .fail :: rest) := by
          intro bs; simp [stage2, h2, h3]
        rw [hs2]
        simp only []
        have h4 : p.traces = true := by
          simp at h1
          rcases hp with h | h | h | h | h
          · simp [h] at h1
          · simp [h] at h1
          · exact absurd h h2
          · exact absurd h h3
          · exact h
        obtain ⟨k, rfl⟩ : ∃ k, limit = k + 1 := ⟨limit - 1, by omega⟩
        simp [stage3, h4, get.go]

theorem transport_reject (p : Plan) (start limit : Nat) (rest : List Exch)
    (hp : p.blocks = true ∨ p.headers = true ∨ p.receipts = true ∨ p.logs = true) (hl : 0 < limit) :
    get p start limit (.fail :: rest) = none :=
  transport_reject_any p start limit rest (by rcases hp with h | h | h | h <;> simp [h]) hl

/-- `setHash` keeps the hash held, whatever the argument; and a non-empty argument is that hash -/
theorem setHash_keeps (b b' : Block) (h : String) (hok : setHash b h = some b') (hne : b.hash ≠ "") :
    b'.hash = b.hash ∧ (h ≠ "" → h = b.hash) :=
  ⟨(setHash_some hok).2.2.2.1 hne, fun hh => setHash_agree hok hne hh⟩

/-- `setHash` touches nothing but the hash; a non-empty argument becomes the hash, an empty one
    changes nothing -/
theorem setHash_spec (b b' : Block) (h : String) (hok : setHash b h = some b') :
    b'.num = b.num ∧ b'.parent = b.parent ∧ b'.txs = b.txs ∧ (h ≠ "" → b'.hash = h) ∧ (h = "" → b' = b) := by
  obtain ⟨h1, h2, h3, _, h5, h6⟩ := setHash_some hok
  exact ⟨h1, h2, h3, h5, h6⟩

/-- a non-empty hash different from the one held is an error -/
theorem setHash_rejects (b : Block) (h : String) (hne : b.hash ≠ "") (hh : h ≠ "") (hd : h ≠ b.hash) :
    setHash b h = none := by
  cases hs : setHash b h with
  | none => rfl
  | some b' => exact absurd (setHash_agree hs hne hh) hd

theorem receipts_attach_sound (start limit : Nat) (es : List (El (List Rcpt))) (bs bs' : List Block)
    (hok : applyReceipts start limit es bs = some bs') :
    limit ≤ es.length ∧ (∀ e ∈ es, match e with | .val _ => True | _ => False) ∧
    (∀ i rs r, es[i]? = some (.val rs) → r ∈ rs → r.bnum = start + i) := by
  obtain ⟨h1, _, h3, h4, _⟩ := applyReceipts_spec hok
  refine ⟨h1, fun e he => ?_, h4⟩
  obtain ⟨rs, rfl⟩ := h3 e he
  trivial

theorem traces_attach_sound (want : Nat) (e : El (List Item)) (bs bs' : List Block)
    (hok : applyTraces want e bs = some bs') :
    ∃ items, e = .val items ∧ ∀ i ∈ items, i.bnum = want := by
  obtain ⟨_, items, he, h1, _⟩ := applyTraces_spec (rel_refl bs) hok
  exact ⟨items, he, h1⟩

/-- **attach_sound** (logs step): a successful logs step had exactly two batch elements, both
    values; every log names a block of the requested range; and a log that names a block hash
    names the hash held for its block. -/
theorem logs_attach_sound (start limit : Nat) (h : El Hdr) (l : El (List Item)) (n : Nat)
    (bs bs' : List Block) (hok : applyLogs start limit h l n bs = some bs') :
    n = 2 ∧ ∃ hd items, h = .val hd ∧ l = .val items ∧
      (∀ i ∈ items, start ≤ i.bnum ∧ i.bnum < start + limit) ∧
      (∀ i ∈ items, ∀ b ∈ bs, b.num = i.bnum → b.hash ≠ "" → i.bhash ≠ "" →
        (∀ b2 ∈ bs, b2.num = b.num → b2 = b) → i.bhash = b.hash) := by
  obtain ⟨hn, hd, items, rfl, rfl, hrange, _, _, hag⟩ := applyLogs_spec hok
  exact ⟨hn, hd, items, rfl, rfl, hrange, fun i hi b hb hnum hne hine hu => hag i hi b hb hnum hne hu hine⟩

/-- the header that accompanies the logs names the hash held for the last block -/
theorem logs_header_sound (start limit : Nat) (h : El Hdr) (l : El (List Item)) (n : Nat)
    (bs bs' : List Block) (hok : applyLogs start limit h l n bs = some bs') :
    ∃ hd, h = .val hd ∧ ∀ b ∈ bs, b.num = start + limit - 1 → b.hash ≠ "" → hd.hash ≠ "" →
      (∀ b2 ∈ bs, b2.num = b.num → b2 = b) → hd.hash = b.hash := by
  obtain ⟨_, hd, items, rfl, rfl, _, _, hA, _⟩ := applyLogs_spec hok
  exact ⟨hd, rfl, fun b hb hn hne hhd hu => hA b hb hn hne hu hhd⟩

/-! ### more: hash agreement of receipts and traces, what every step keeps -/

/-- a receipt that names a block hash names the hash held for its block -/
theorem receipts_hash_sound (start limit : Nat) (es : List (El (List Rcpt))) (bs bs' : List Block)
    (hok : applyReceipts start limit es bs = some bs') :
    ∀ (j : Nat) (rs : List Rcpt) (r : Rcpt), es[j]? = some (.val rs) → r ∈ rs → ∀ b ∈ bs, b.num = r.bnum →
      b.hash ≠ "" → r.bhash ≠ "" → (∀ b2 ∈ bs, b2.num = b.num → b2 = b) → r.bhash = b.hash := by
  intro j rs r hj hr b hb hn hne hrne hu
  exact (applyReceipts_spec hok).2.2.2.2 j rs r hj hr b hb hn hne hu hrne

/-- a trace that names a block hash names the hash held for its block -/
theorem traces_hash_sound (want : Nat) (e : El (List Item)) (bs bs' : List Block)
    (hok : applyTraces want e bs = some bs') :
    ∃ items, e = .val items ∧ ∀ i ∈ items, ∀ b ∈ bs, b.num = i.bnum →
      b.hash ≠ "" → i.bhash ≠ "" → (∀ b2 ∈ bs, b2.num = b.num → b2 = b) → i.bhash = b.hash := by
  obtain ⟨_, items, he, _, h2⟩ := applyTraces_spec (rel_refl bs) hok
  exact ⟨items, he, fun i hi b hb hn hne hine hu => h2 i hi b hb hn hne hu hine⟩

theorem keeps_of_rel {bs bs' : List Block} (h : Rel Keep bs bs') :
    bs'.length = bs.length ∧ ∀ (i : Nat) (a b : Block), bs[i]? = some a → bs'[i]? = some b → keeps a b := by
  refine ⟨h.length_eq, fun i a b ha hb => ?_⟩
  obtain ⟨b', hb', hk⟩ := h.get_left ha
  rw [hb] at hb'; cases hb'
  exact hk

/-- a successful logs step keeps every block's number, parent and (non-empty) hash -/
theorem logs_keep (start limit : Nat) (h : El Hdr) (l : El (List Item)) (n : Nat) (bs bs' : List Block)
    (hok : applyLogs start limit h l n bs = some bs') :
    bs'.length = bs.length ∧ ∀ (i : Nat) (a b : Block), bs[i]? = some a → bs'[i]? = some b → keeps a b := by
  obtain ⟨_, _, _, _, _, _, hrel, _⟩ := applyLogs_spec hok
  exact keeps_of_rel hrel

theorem receipts_keep (start limit : Nat) (es : List (El (List Rcpt))) (bs bs' : List Block)
    (hok : applyReceipts start limit es bs = some bs') :
    bs'.length = bs.length ∧ ∀ (i : Nat) (a b : Block), bs[i]? = some a → bs'[i]? = some b → keeps a b :=
  keeps_of_rel (applyReceipts_spec hok).2.1

theorem traces_keep (want : Nat) (e : El (List Item)) (bs bs' : List Block)
    (hok : applyTraces want e bs = some bs') :
    bs'.length = bs.length ∧ ∀ (i : Nat) (a b : Block), bs[i]? = some a → bs'[i]? = some b → keeps a b :=
  keeps_of_rel (applyTraces_spec (rel_refl bs) hok).1

/-- **get_sound (headers kept)**: with `blocks`/`headers` the returned blocks are the validated
    batch, place by place: same number and parent, and the header's hash if it had one -/
theorem get_headers_kept (p : Plan) (start limit : Nat) (xs : List Exch) (bs : List Block)
    (hp : p.blocks = true ∨ p.headers = true)
    (h : get p start limit xs = some bs) :
    ∃ es rest, xs = .headers es :: rest ∧ bs.length = limit ∧
      ∀ (i : Nat) (b : Block), bs[i]? = some b → ∃ hd txs, es[i]? = some (.val (hd, txs)) ∧ b.num = hd.num ∧
        b.parent = hd.parent ∧ (hd.hash ≠ "" → b.hash = hd.hash) := by
  obtain ⟨es, rest, bs0, hxs, hv, hrel⟩ := get_headers hp h
  obtain ⟨_, hlen, _, hnum, _, htake⟩ := validate_spec hv
  have hl : bs0.length = limit := by simpa using congrArg List.length hnum
  refine ⟨es, rest, hxs, by rw [hrel.length_eq, hl], fun i b hb => ?_⟩
  obtain ⟨b0, hb0, hk⟩ := Rel.get_right hrel hb
  have hi := (num_of_map_range' hnum hb0).2
  have : (es.take limit)[i]? = some (elOf b0) := by rw [htake]; simp [hb0]
  rw [List.getElem?_take, if_pos hi] at this
  exact ⟨_, _, this, hk.1, hk.2.1, hk.2.2⟩

/-- with no step requested the request returns the bare numbered blocks -/
theorem get_bare (p : Plan) (start limit : Nat) (xs : List Exch)
    (h1 : p.blocks = false) (h2 : p.headers = false) (h3 : p.receipts = false) (h4 : p.logs = false)
    (h5 : p.traces = false) :
    get p start limit xs = some ((List.range limit).map fun i => ({ num := start + i } : Block)) := by
  simp [get_eq, stage1, stage2, stage3, h1, h2, h3, h4, h5]

/-! ### the whole request: every attachment names a delivered header, by number and hash -/

theorem names_hdr {start limit : Nat} {es : List (El (Hdr × List Nat))} {bs0 : List Block}
    (hv : validate start limit es = some bs0) (hh : (Exch.headers es).hdrHashed) {m : Nat} {hsh : String}
    (h1 : start ≤ m) (h2 : m < start + limit)
    (hag : ∀ b ∈ bs0, b.num = m → b.hash ≠ "" → (∀ b2 ∈ bs0, b2.num = b.num → b2 = b) → hsh ≠ "" → hsh = b.hash) :
    hdrAt es (m - start) m hsh := by
  obtain ⟨b, hb, hn, hu, hel⟩ := validate_lookup hv h1 h2
  have hne : b.hash ≠ "" := hh _ _ (List.mem_of_getElem? hel)
  exact ⟨_, _, hel, hn, fun hs => (hag b hb hn hne hu hs).symm⟩

/-- **attach_sound (whole request)**: when headers or blocks are fetched and every header carries
    its hash, a successful request has consumed, in order, the header batch, then the receipts
    batch or the logs reply, then one traces reply per block — and every receipt, log and trace,
    as well as the header that accompanies the logs, names a header of the validated batch by
    number and (if it names a hash at all) by hash, at the place the request asked for. -/
theorem get_attach_sound (p : Plan) (start limit : Nat) (xs : List Exch) (bs : List Block)
    (hp : p.blocks = true ∨ p.headers = true)
    (hh : ∀ x ∈ xs, x.hdrHashed)
    (h : get p start limit xs = some bs) :
    ∃ es xs1, xs = .headers es :: xs1 ∧
      (p.receipts = true → ∃ res xs2, xs1 = .receipts res :: xs2 ∧
        ∀ (j : Nat) (rs : List Rcpt) (r : Rcpt), j < limit → res[j]? = some (.val rs) → r ∈ rs →
          hdrAt es j r.bnum r.bhash) ∧
      (p.receipts = false → p.logs = true → ∃ hd items n xs2, xs1 = .logs (.val hd) (.val items) n :: xs2 ∧
        hdrAt es (limit - 1) (start + limit - 1) hd.hash ∧
        ∀ i ∈ items, hdrAt es (i.bnum - start) i.bnum i.bhash) ∧
      (p.traces = true → ∀ j, j < limit →
        ∃ items, (xs1.drop (if p.receipts || p.logs then 1 else 0))[j]? = some (.traces (.val items)) ∧
          ∀ i ∈ items, hdrAt es j i.bnum i.bhash) := by
  obtain ⟨bs0, xs1, bs1, xs2, h1, h2, h3⟩ := get_some h
  have s1 := stage1_spec h1
  obtain ⟨es, hxs, hv⟩ := s1.2.2 hp
  have hhe : (Exch.headers es).hdrHashed := hh _ (by rw [hxs]; exact List.mem_cons_self)
  have s2 := stage2_spec h2
  have hlim : 0 < limit := (validate_spec hv).1
  refine ⟨es, xs1, hxs, ?_, ?_, ?_⟩
  · intro hr
    obtain ⟨res, hx1, hok⟩ := s2.2.2.1 hr
    refine ⟨res, xs2, hx1, fun j rs r hj hrj hrm => ?_⟩
    have hnum := (receipts_attach_sound start limit res bs0 bs1 hok).2.2 j rs r hrj hrm
    have := names_hdr (m := r.bnum) (hsh := r.bhash) hv hhe (by omega) (by omega)
      (fun b hb hn hne hu hs => receipts_hash_sound start limit res bs0 bs1 hok j rs r hrj hrm b hb hn hne hs hu)
    have hj' : r.bnum - start = j := by omega
    rw [hj'] at this
    exact this
  · intro hr hl
    obtain ⟨hd, l, n, hx1, hok⟩ := s2.2.2.2.1 hr hl
    obtain ⟨_, hd', items, rfl, rfl, hrange, _, hA, hB⟩ := applyLogs_spec hok
    refine ⟨hd', items, n, xs2, hx1, ?_, fun i hi => ?_⟩
    · have := names_hdr (m := start + limit - 1) (hsh := hd'.hash) hv hhe (by omega) (by omega)
        (fun b hb hn hne hu hs => hA b hb hn hne hu hs)
      have hj' : start + limit - 1 - start = limit - 1 := by omega
      rw [hj'] at this
      exact this
    · exact names_hdr hv hhe (hrange i hi).1 (hrange i hi).2 (fun b hb hn hne hu hs => hB i hi b hb hn hne hu hs)
  · intro ht j hj
    have hx2 : xs2 = xs1.drop (if p.receipts || p.logs then 1 else 0) := by
      by_cases hr : p.receipts = true
      · obtain ⟨res, hx1, _⟩ := s2.2.2.1 hr
        simp [hr, hx1]
      · have hr' : p.receipts = false := by simpa using hr
        by_cases hl : p.logs = true
        · obtain ⟨hd, l, n, hx1, _⟩ := s2.2.2.2.1 hr' hl
          simp [hl, hx1]
        · have hl' : p.logs = false := by simpa using hl
          simp [hr', hl', s2.2.2.2.2 hr' hl']
    rw [← hx2]
    simp only [stage3, ht, if_true] at h3
    obtain ⟨_, hitems⟩ := get_go_spec bs0 limit xs2 bs1 bs s2.1 h3
    obtain ⟨items, hxj, hbn, hag⟩ := hitems j hj
    refine ⟨items, hxj, fun i hi => ?_⟩
    have hnum : i.bnum = start + j := by rw [hbn i hi]; omega
    have := names_hdr (m := i.bnum) (hsh := i.bhash) hv hhe (by omega) (by omega)
      (fun b hb hn hne hu hs => hag i hi b hb hn hne hu hs)
    have hj' : i.bnum - start = j := by omega
    rw [hj'] at this
    exact this

/-- **attach_sound (whole request, every plan, no hypothesis)**: a successful request has
    consumed, in order, the header batch (if `blocks`/`headers`), then the receipts batch or the
    logs reply, then one traces reply per block; every receipt, log and trace names a block of the
    requested range — receipts and traces the very block they were requested for — and a block
    hash named by a receipt, a log, a trace or the header accompanying the logs **is the hash of
    the returned block of that number**. -/
theorem get_attach_final (p : Plan) (start limit : Nat) (xs : List Exch) (bs : List Block)
    (h : get p start limit xs = some bs) :
    ∃ xs1, (p.blocks = true ∨ p.headers = true → ∃ es, xs = .headers es :: xs1) ∧
      (p.blocks = false → p.headers = false → xs1 = xs) ∧
      (p.receipts = true → ∃ res xs2, xs1 = .receipts res :: xs2 ∧
        ∀ (j : Nat) (rs : List Rcpt) (r : Rcpt), res[j]? = some (.val rs) → r ∈ rs →
          r.bnum = start + j ∧ (r.bhash ≠ "" → ∀ b ∈ bs, b.num = r.bnum → b.hash = r.bhash)) ∧
      (p.receipts = false → p.logs = true → ∃ hd items n xs2, xs1 = .logs (.val hd) (.val items) n :: xs2 ∧
        (0 < limit → hd.hash ≠ "" → ∀ b ∈ bs, b.num = start + limit - 1 → b.hash = hd.hash) ∧
        ∀ i ∈ items, start ≤ i.bnum ∧ i.bnum < start + limit ∧
          (i.bhash ≠ "" → ∀ b ∈ bs, b.num = i.bnum → b.hash = i.bhash)) ∧
      (p.traces = true → ∀ j, j < limit →
        ∃ items, (xs1.drop (if p.receipts || p.logs then 1 else 0))[j]? = some (.traces (.val items)) ∧
          ∀ i ∈ items, i.bnum = start + j ∧ (i.bhash ≠ "" → ∀ b ∈ bs, b.num = i.bnum → b.hash = i.bhash)) := by
  obtain ⟨bs0, xs1, bs1, xs2, h1, h2, h3⟩ := get_some h
  have s1 := stage1_spec h1
  have s2 := stage2_spec h2
  have r3 : Rel Keep bs1 bs := by
    unfold stage3 at h3
    split at h3
    · exact (get_go_spec bs1 _ _ _ _ (rel_refl _) h3).1
    · cases h3; exact rel_refl _
  have hnum1 : bs1.map (·.num) = List.range' start limit := by
    rw [Rel.map_eq (·.num) (fun a b hk => hk.1) s2.1, s1.1]
  have hnum : bs.map (·.num) = List.range' start limit := by
    rw [Rel.map_eq (·.num) (fun a b hk => hk.1) r3, hnum1]
  refine ⟨xs1, ?_, ?_, ?_, ?_, ?_⟩
  · intro hp
    obtain ⟨es, hxs, _⟩ := s1.2.2 hp
    exact ⟨es, hxs⟩
  · intro hb hh
    have : stage1 p start limit xs = some ((List.range limit).map (fun i => ({ num := start + i } : Block)), xs) := by
      simp [stage1, hb, hh]
    rw [this] at h1
    simp at h1
    exact h1.2.symm
  · intro hr
    obtain ⟨res, hx1, hok⟩ := s2.2.2.1 hr
    refine ⟨res, xs2, hx1, fun j rs r hrj hrm => ⟨?_, fun hne => ?_⟩⟩
    · exact (applyReceipts_spec hok).2.2.2.1 j rs r hrj hrm
    · exact ((applyReceipts_final hok j rs r hrj hrm hne).mono hne r3).unique hnum
  · intro hr hl
    obtain ⟨hd, l, n, hx1, hok⟩ := s2.2.2.2.1 hr hl
    obtain ⟨_, hd', items, rfl, rfl, hrange, _⟩ := applyLogs_spec hok
    have hf := applyLogs_final hok
    refine ⟨hd', items, n, xs2, hx1, fun hlim hhd => ?_, fun i hi => ⟨(hrange i hi).1, (hrange i hi).2, fun hne => ?_⟩⟩
    · exact ((hf.1 hhd (exists_of_range' s1.1 (by omega) (by omega))).mono hhd r3).unique hnum
    · exact ((hf.2 i hi hne).mono hne r3).unique hnum
  · intro ht j hj
    have hx2 : xs2 = xs1.drop (if p.receipts || p.logs then 1 else 0) := by
      by_cases hr : p.receipts = true
      · obtain ⟨res, hx1, _⟩ := s2.2.2.1 hr
        simp [hr, hx1]
      · have hr' : p.receipts = false := by simpa using hr
        by_cases hl : p.logs = true
        · obtain ⟨hd, l, n, hx1, _⟩ := s2.2.2.2.1 hr' hl
          simp [hl, hx1]
        · have hl' : p.logs = false := by simpa using hl
          simp [hr', hl', s2.2.2.2.2 hr' hl']
    rw [← hx2]
    simp only [stage3, ht, if_true] at h3
    obtain ⟨_, hitems⟩ := get_go_spec bs1 limit xs2 bs1 bs (rel_refl _) h3
    obtain ⟨items, hxj, hbn, _⟩ := hitems j hj
    refine ⟨items, hxj, fun i hi => ⟨by rw [hbn i hi]; omega, fun hne => ?_⟩⟩
    exact (get_go_final limit xs2 bs1 bs h3 j items hj hxj i hi hne).unique hnum

/-! ### non-vacuity and counterexamples (all by kernel evaluation) -/

section Examples

private def pHL : Plan := { blocks := false, headers := true, receipts := false, logs := true, traces := false }
private def pHR : Plan := { blocks := false, headers := true, receipts := true, logs := false, traces := false }
private def pH : Plan := { blocks := false, headers := true, receipts := false, logs := false, traces := false }

private def honestHL : List Exch :=
  [.headers [.val ({ num := 5, hash := "A", parent := "P" }, []), .val ({ num := 6, hash := "B", parent := "A" }, [])],
   .logs (.val { num := 6, hash := "B", parent := "A" })
     (.val [{ bnum := 5, bhash := "A", tx := 0, idx := 0 }, { bnum := 6, bhash := "B", tx := 2, idx := 1 },
            { bnum := 5, bhash := "A", tx := 0, idx := 3 }]) 2]

/-- an honest 2-block headers+logs request succeeds, with the logs attached where they belong -/
example : get pHL 5 2 honestHL =
    some [{ num := 5, hash := "A", parent := "P", txs := [{ idx := 0, logs := [0, 3] }] },
          { num := 6, hash := "B", parent := "A", txs := [{ idx := 2, logs := [1] }] }] := by decide +kernel

/-- and the honest replies satisfy the hypothesis of `get_linked` / `get_attach_sound` -/
example : ∀ x ∈ honestHL, x.hdrHashed := by
  intro x hx
  simp [honestHL] at hx
  rcases hx with rfl | rfl <;> simp only [Exch.hdrHashed]
  intro h txs hm
  simp at hm
  rcases hm with ⟨rfl, _⟩ | ⟨rfl, _⟩ <;> decide

/-- the same with the accompanying header of another fork: error -/
example : get pHL 5 2
    [.headers [.val ({ num := 5, hash := "A", parent := "P" }, []), .val ({ num := 6, hash := "B", parent := "A" }, [])],
     .logs (.val { num := 6, hash := "B'", parent := "A" })
       (.val [{ bnum := 5, bhash := "A", tx := 0, idx := 0 }, { bnum := 6, bhash := "B", tx := 2, idx := 1 }]) 2]
    = none := by decide +kernel

/-- a log of a block outside the requested range: error -/
example : get pHL 5 2
    [.headers [.val ({ num := 5, hash := "A", parent := "P" }, []), .val ({ num := 6, hash := "B", parent := "A" }, [])],
     .logs (.val { num := 6, hash := "B", parent := "A" }) (.val [{ bnum := 7, bhash := "C", tx := 0, idx := 0 }]) 2]
    = none := by decide +kernel

/-- a receipts reply in which the second receipt of block 5 names another block hash: error -/
example : get pHR 5 2
    [.headers [.val ({ num := 5, hash := "A", parent := "P" }, [0, 1]), .val ({ num := 6, hash := "B", parent := "A" }, [])],
     .receipts [.val [{ bnum := 5, bhash := "A", tx := 0, logs := [0] }, { bnum := 5, bhash := "Z", tx := 1, logs := [1] }],
                .val []]]
    = none := by decide +kernel

/-- ... and the honest one succeeds -/
example : get pHR 5 2
    [.headers [.val ({ num := 5, hash := "A", parent := "P" }, [0, 1]), .val ({ num := 6, hash := "B", parent := "A" }, [])],
     .receipts [.val [{ bnum := 5, bhash := "A", tx := 0, logs := [0] }, { bnum := 5, bhash := "A", tx := 1, logs := [1] }],
                .val []]]
    = some [{ num := 5, hash := "A", parent := "P",
              txs := [{ idx := 0, logs := [0], fromRcpt := true }, { idx := 1, logs := [1], fromRcpt := true }] },
            { num := 6, hash := "B", parent := "A" }] := by decide +kernel

/-- a header batch numbered 5, 99, 7: error -/
example : get pH 5 3
    [.headers [.val ({ num := 5, hash := "A", parent := "P" }, []), .val ({ num := 99, hash := "B", parent := "A" }, []),
               .val ({ num := 7, hash := "C", parent := "B" }, [])]] = none := by decide +kernel

/-- counterexample to `get_linked` without `hdrHashed`: the header of block 5 comes without hash,
    a log fills it in afterwards, and block 6 (parent "") is not linked to it -/
example : get pHL 5 2
    [.headers [.val ({ num := 5, hash := "", parent := "P" }, []), .val ({ num := 6, hash := "B", parent := "" }, [])],
     .logs (.val { num := 6, hash := "B", parent := "" }) (.val [{ bnum := 5, bhash := "X", tx := 0, idx := 0 }]) 2]
    = some [{ num := 5, hash := "X", parent := "P", txs := [{ idx := 0, logs := [0] }] },
            { num := 6, hash := "B", parent := "" }] := by decide +kernel

/-- the former **hash laundering** (a log without block hash used to erase the hash held for block
    5, after which a log naming another hash "X" was accepted) is now rejected -/
example : get pHL 5 2
    [.headers [.val ({ num := 5, hash := "A", parent := "P" }, []), .val ({ num := 6, hash := "B", parent := "A" }, [])],
     .logs (.val { num := 6, hash := "B", parent := "A" })
       (.val [{ bnum := 5, bhash := "", tx := 0, idx := 0 }, { bnum := 5, bhash := "X", tx := 0, idx := 1 }]) 2]
    = none := by decide +kernel

/-- a log without block hash is still accepted, but leaves the hash held alone -/
example : get pHL 5 2
    [.headers [.val ({ num := 5, hash := "A", parent := "P" }, []), .val ({ num := 6, hash := "B", parent := "A" }, [])],
     .logs (.val { num := 6, hash := "B", parent := "A" })
       (.val [{ bnum := 5, bhash := "", tx := 0, idx := 0 }, { bnum := 5, bhash := "A", tx := 0, idx := 1 }]) 2]
    = some [{ num := 5, hash := "A", parent := "P", txs := [{ idx := 0, logs := [0, 1] }] },
            { num := 6, hash := "B", parent := "A" }] := by decide +kernel

/-- without headers (logs only): two logs of block 5 naming different block hashes: error -/
example : get { blocks := false, headers := false, receipts := false, logs := true, traces := false } 5 2
    [.logs (.val { num := 6, hash := "B", parent := "A" })
       (.val [{ bnum := 5, bhash := "A", tx := 0, idx := 0 }, { bnum := 5, bhash := "A'", tx := 1, idx := 1 }]) 2]
    = none := by decide +kernel

/-- `setHash` with an empty argument changes nothing -/
example : setHash { num := 5, hash := "A" } "" = some { num := 5, hash := "A" } := by decide +kernel

end Examples

end Shovel.Rpc
