import Shovel.Model.Race
/-
  C20 — tie of the restart protocol's two atomicity assumptions to the source (regenerated on every
  run from shovel/task.go by harness/cmd/extract):
   • `Manager.Restart` serves restart requests ONE AT A TIME: its first two operations are an
     unconditional `tm.restartMut.Lock()` and the deferred unlock (a `TryLock` that lets an
     overlapping request return without reloading, or a lock taken only on some branch, is not this
     shape), and it starts the new generation's `Run`;
   • `Manager.Run` holds `tm.running` from its first statement to its return, and writes the task
     list and the generation channel only there.
  `Manager.one_generation`, `restart_complete` and `no_runner_at_lock` (Props/C20, C20b) are proved
  about a protocol with exactly these two critical sections.
-/
namespace Shovel.Manager
open Shovel.Gen.Locks Shovel.Race

theorem restart_serialized :
    ((match events.find? (·.1 == "shovel.Manager.Restart") with
      | some e => e.2.take 2 == [.lock "tm.restartMut", .deferUnlock "tm.restartMut"] && e.2.contains .goStart
      | none => false) &&
     (match events.find? (·.1 == "shovel.Manager.Run") with
      | some e => e.2.take 2 == [.lock "tm.running", .deferUnlock "tm.running"]
      | none => false) &&
     guarded "shovel.Manager.Run" ["tm.tasks", "tm.restart"] "tm.running") = true := by
  decide +kernel

/-- the events of `fn` -/
def evsOf (fn : String) : List Ev := match events.find? (·.1 == fn) with | some e => e.2 | none => []

/-- the events of a list that lie outside every `select` statement -/
def outsideSelect : List Ev → Nat → List Ev
  | [], _ => []
  | .selectStart :: r, d => outsideSelect r (d + 1)
  | .selectEnd :: r, d => outsideSelect r (d - 1)
  | e :: r, d => if d = 0 then e :: outsideSelect r d else outsideSelect r d

/-- **restart_waits_for_run**: `Restart` returns only with the report of the `Run` it started — its last
    operation is an UNCONDITIONAL receive from the report channel (not one alternative of a `select`
    next to a timer or a default) — and `Run` reports exactly there: a send in the branch that returns the
    load error, a `close` after the new generation's channel is installed; both while `tm.running` is held.
    (`restart_complete` / `no_runner_at_ack` are proved about a protocol in which the restart's
    acknowledgement IS the new generation's report.) -/
theorem restart_waits_for_run :
    ((evsOf "shovel.Manager.Restart").getLast? == some (.recv "ec") &&
     (outsideSelect (evsOf "shovel.Manager.Restart") 0).getLast? == some (.recv "ec") &&
     ((evsOf "shovel.Manager.Restart").filter (· == .recv "ec")).length == 1 &&
     ((evsOf "shovel.Manager.Run").filter (· == .send "ec")).length == 1 &&
     ((evsOf "shovel.Manager.Run").filter (· == .closeCh "ec")).length == 1 &&
     -- the close comes after the write of the generation channel
     (((evsOf "shovel.Manager.Run").dropWhile (· != .write "tm.restart")).contains (.closeCh "ec"))) = true := by
  decide +kernel

end Shovel.Manager
