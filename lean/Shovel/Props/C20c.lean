import Shovel.Model.Race
/-
  C20 — tie of the restart protocol's two atomicity assumptions to the source (regenerated on every
  run from shovel/task.go by harness/cmd/extract):
   • `Manager.Restart` serves restart requests ONE AT A TIME: its first two operations are an
     unconditional `tm.restartMut.Lock()` and the deferred unlock (a `TryLock` that lets an
     overlapping request return without reloading, or a lock taken only on some branch, is not this
     shape), and it starts the new generation's `Run`;
   • `Manager.Run` holds `tm.running` from its first statement to its return, and writes the task
     list and the generation channel only there.
  `Manager.one_generation`, `restart_complete` and `no_runner_at_lock` (Props/C20, C20b) are proved
  about a protocol with exactly these two critical sections.
-/
namespace Shovel.Manager
open Shovel.Gen.Locks Shovel.Race

theorem restart_serialized :
    ((match events.find? (·.1 == "shovel.Manager.Restart") with
      | some e => e.2.take 2 == [.lock "tm.restartMut", .deferUnlock "tm.restartMut"] && e.2.contains .goStart
      | none => false) &&
     (match events.find? (·.1 == "shovel.Manager.Run") with
      | some e => e.2.take 2 == [.lock "tm.running", .deferUnlock "tm.running"]
      | none => false) &&
     guarded "shovel.Manager.Run" ["tm.tasks", "tm.restart"] "tm.running") = true := by
  decide +kernel

end Shovel.Manager
