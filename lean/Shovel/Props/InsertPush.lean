import Shovel.Props.Insert
/-
  C12, second half, over whole batches: "the address restriction sent to the source is only an
  optimisation: it never excludes a log that the declared filters would accept".
  `eth_getLogs` returns only the logs whose address is one of the pushed addresses; `restrict` is that
  server-side selection applied to a batch.  `specInsert_pushdown`: whenever the property fixes the rows of the
  full batch, it fixes the SAME rows for the restricted batch — and (`insert_pushdown`) `Insert` on the
  restricted batch writes exactly the rows it would have written on the full one.
-/
namespace Shovel.Insert
open Shovel.Row Shovel.Abi

/-- what the source returns under the address restriction `pushed` (none: everything) -/
def restrict (addr : ALog → List Nat) (pushed : List (List Nat)) (blocks : List ABlock) : List ABlock :=
  if pushed.isEmpty then blocks
  else blocks.map fun b => { b with txs := b.txs.map fun t =>
    { t with logs := t.logs.filter fun l => pushed.contains (addr l) } }

theorem joinSpec_filter {α} (f : α → SpecOut) (keep : α → Bool) :
    ∀ (l : List α) (r : List (List DVal)), joinSpec (l.map f) = some r →
      (∀ x ∈ l, keep x = false → ∀ rs, f x = .rows rs → rs = []) →
      joinSpec ((l.filter keep).map f) = some r
  | [], r, h, _ => h
  | x :: xs, r, h, hk => by
    simp only [List.map_cons] at h
    cases hx : f x with
    | unspecified => rw [hx] at h; simp [joinSpec] at h
    | rows rs =>
      rw [hx] at h
      simp only [joinSpec] at h
      cases hj : joinSpec (xs.map f) with
      | none => rw [hj] at h; cases h
      | some r' =>
        rw [hj] at h
        simp only [Option.map_some] at h
        injection h with h; subst h
        have ih := joinSpec_filter f keep xs r' hj (fun y hy => hk y (List.mem_cons_of_mem _ hy))
        by_cases hkx : keep x = true
        · simp only [List.filter_cons, hkx, if_true, List.map_cons, joinSpec, hx, ih, Option.map_some]
        · have hkx' : keep x = false := by simpa using hkx
          have : rs = [] := hk x (List.mem_cons_self ..) hkx' rs hx
          subst this
          simp only [List.filter_cons, hkx', Bool.false_eq_true, if_false, List.nil_append]
          exact ih

/-- a log whose address is not pushed produces no rows (contrapositive of `pushdown_sound`) -/
theorem specLog_unpushed (refs : Refs) (d : Decl) (ty : Ty) (ctx : Ctx) (l : ALog) (a : List Nat)
    (ha : ctx.get "log_addr" = .bytes a) (hlen : a.length = 20) (hpush : pushedAddrs d ≠ [])
    (hnot : (pushedAddrs d).contains a = false) (rs : List (List DVal))
    (h : specLog refs d ty ctx l = .rows rs) : rs = [] := by
  apply Classical.byContradiction
  intro hne
  have key : ∀ v, specRows refs d ctx { topics := l.topics, data := l.data ty } ty v = .rows rs → False := by
    intro v hv
    have := pushdown_sound refs d ctx _ ty v a ha hlen rs hv hne hpush
    have hc : (pushedAddrs d).contains a = true := List.contains_iff_mem.mpr this
    rw [hnot] at hc; cases hc
  unfold specLog at h
  cases hp : l.payload with
  | enc v rest => simp only [hp] at h; exact key _ h
  | raw bs =>
    simp only [hp] at h
    by_cases he : bs.isEmpty = true
    · rw [if_pos he] at h; exact key _ h
    · rw [if_neg he] at h
      by_cases hd : isDeclared d l = true
      · rw [if_pos hd] at h; cases h
      · rw [if_neg hd] at h
        injection h with h
        exact hne h.symm

/-- every log of the batch carries its 20-byte address in the field the filter reads -/
def AddrOK (addr : ALog → List Nat) (base : Ctx) (blocks : List ABlock) : Prop :=
  ∀ b ∈ blocks, ∀ t ∈ b.txs, ∀ l ∈ t.logs,
    Ctx.get (l.fields ++ (t.fields ++ (b.fields ++ base))) "log_addr" = .bytes (addr l) ∧ (addr l).length = 20

theorem joinSpec_append' {a b : List SpecOut} {r1 r2 : List (List DVal)} (h1 : joinSpec a = some r1)
    (h2 : joinSpec b = some r2) : joinSpec (a ++ b) = some (r1 ++ r2) := by
  induction a generalizing r1 with
  | nil => simp only [joinSpec] at h1; injection h1 with h1; subst h1; simpa using h2
  | cons x xs ih =>
    cases x with
    | unspecified => simp [joinSpec] at h1
    | rows rs =>
      simp only [joinSpec] at h1
      cases hj : joinSpec xs with
      | none => rw [hj] at h1; cases h1
      | some r' =>
        rw [hj] at h1
        simp only [Option.map_some] at h1
        injection h1 with h1; subst h1
        simp only [List.cons_append, joinSpec, ih hj, Option.map_some, List.append_assoc]

/-- **specInsert_pushdown** (C12): in log mode, restricting a batch to the pushed addresses does not change
    the rows the property demands -/
theorem specInsert_pushdown (refs : Refs) (d : Decl) (ty : Ty) (base : Ctx) (addr : ALog → List Nat) :
    ∀ (blocks : List ABlock) (rs : List (List DVal)), AddrOK addr base blocks →
      specInsert refs d ty .log base blocks = some rs →
      specInsert refs d ty .log base (restrict addr (pushedAddrs d) blocks) = some rs := by
  intro blocks rs haddr h
  unfold restrict
  by_cases hp : (pushedAddrs d).isEmpty = true
  · rw [if_pos hp]; exact h
  · rw [if_neg hp]
    have hpush : pushedAddrs d ≠ [] := by intro hnil; rw [hnil] at hp; exact hp rfl
    clear hp
    induction blocks generalizing rs with
    | nil => exact h
    | cons b bs ih =>
      unfold specInsert at h ⊢
      rw [specItems_cons] at h
      obtain ⟨r1, r2, h1, h2, h3⟩ := joinSpec_append h
      subst h3
      simp only [List.map_cons]
      rw [specItems_cons]
      have ihb := ih r2 (fun b' hb' => haddr b' (List.mem_cons_of_mem _ hb')) h2
      unfold specInsert at ihb
      refine joinSpec_append' ?_ ihb
      -- the transactions of block b
      have hb := haddr b (List.mem_cons_self ..)
      clear ih ihb h h2 haddr
      show joinSpec ((b.txs.map fun t => ({ t with logs := t.logs.filter fun l => (pushedAddrs d).contains (addr l) } : ATx)).flatMap
        (txItems refs d ty .log (b.fields ++ base))) = some r1
      generalize b.txs = txs at h1 hb
      induction txs generalizing r1 with
      | nil => exact h1
      | cons t ts iht =>
        simp only [List.flatMap_cons] at h1
        obtain ⟨q1, q2, g1, g2, g3⟩ := joinSpec_append h1
        subst g3
        simp only [List.map_cons, List.flatMap_cons]
        refine joinSpec_append' ?_ (iht q2 g2 (fun t' ht' => hb t' (List.mem_cons_of_mem _ ht')))
        simp only [txItems] at g1 ⊢
        apply joinSpec_filter (fun l => specLog refs d ty (l.fields ++ (t.fields ++ (b.fields ++ base))) l)
          (fun l => (pushedAddrs d).contains (addr l)) t.logs q1 g1
        intro l hl hk rs' hs
        obtain ⟨a1, a2⟩ := hb t (List.mem_cons_self ..) l hl
        exact specLog_unpushed refs d ty _ l (addr l) a1 a2 hpush hk rs' hs

/-- **insert_pushdown** (C12 end to end): `Insert` on the batch as the source returns it under the address
    restriction writes exactly the rows the property demands of the FULL batch -/
theorem insert_pushdown (refs : Refs) (d : Decl) (ty : Ty) (hd : DeclOK d ty) (base : Ctx) (addr : ALog → List Nat)
    (blocks : List ABlock) (s : St) (hs : WF s ty.nsel) (hok : BatchOK d ty (restrict addr (pushedAddrs d) blocks))
    (haddr : AddrOK addr base blocks) (rs : List (List DVal))
    (h : specInsert refs d ty .log base blocks = some rs) :
    ∃ s', insert refs d ty .log base ((restrict addr (pushedAddrs d) blocks).map (ABlock.toE ty)) s = .ok (rs, s') ∧
      WF s' ty.nsel :=
  insert_exact refs d ty hd .log base _ s hs hok rs (specInsert_pushdown refs d ty base addr blocks rs haddr h)

/-! non-vacuity: the example batch of `Props/Insert.lean`; the restriction is the token's address, the source
    then withholds the transfer of the OTHER token — which the filter would have rejected anyway -/
namespace Example
open Shovel.Row.Example

def addrOf (l : ALog) : List Nat := match Ctx.get l.fields "log_addr" with | .bytes a => a | _ => []

example : pushedAddrs transfer = [token] := by decide +kernel
example : ((restrict addrOf (pushedAddrs transfer) batch).flatMap fun b => b.txs.flatMap fun t => t.logs.map addrOf) =
    [token, token, token] := by decide +kernel
example : AddrOK addrOf [] batch := by
  intro b hb t ht l hl
  simp only [batch, List.mem_cons, List.not_mem_nil, or_false] at hb
  rcases hb with rfl | rfl <;> simp only [List.mem_cons, List.not_mem_nil, or_false] at ht <;> subst ht <;>
    simp only [List.mem_cons, List.not_mem_nil, or_false] at hl
  · rcases hl with rfl | rfl | rfl <;> exact ⟨by decide +kernel, by decide +kernel⟩
  · subst hl; exact ⟨by decide +kernel, by decide +kernel⟩
example : specInsert [] transfer ty .log [] (restrict addrOf (pushedAddrs transfer) batch) = some want := by decide +kernel

end Example

end Shovel.Insert

#print axioms Shovel.Insert.specInsert_pushdown
#print axioms Shovel.Insert.insert_pushdown
