import Shovel.Model.World
import Shovel.Spec.World
import Shovel.Proofs.WorldParts
import Shovel.Proofs.WorldStruct
import Shovel.Proofs.WorldBounds
import Shovel.Proofs.WorldInv
import Shovel.Proofs.WorldUnwind
import Shovel.Proofs.WorldCheck
/-
  C01–C06: theorems about the world model `converge` (Shovel/Model/World.lean).
-/
namespace Shovel.World

/-! C04 -/

/-- **frame** (C04): a step of task `t` — fault-free or faulted at any point, with any source
    answers, including reorg unwinding — leaves the positions and rows of every other
    (source, integration) pair untouched, in the final state and in the state committed mid-way,
    even when pairs share the destination table. -/
theorem frame (t : Task) (db : DB) (sc : Script) (f : Option Pos) :
    let r := converge t db sc f
    (r.db.cur.filter fun x => !mineC t x) = (db.cur.filter fun x => !mineC t x) ∧
    (r.db.rows.filter fun x => !mine t x) = (db.rows.filter fun x => !mine t x) ∧
    (∀ m, r.mid = some m →
      (m.cur.filter fun x => !mineC t x) = (db.cur.filter fun x => !mineC t x) ∧
      (m.rows.filter fun x => !mine t x) = (db.rows.filter fun x => !mine t x)) := by
  intro r
  obtain ⟨h1, h2⟩ := converge_sub t db sc f
  exact ⟨h1.cur, h1.rows, fun m hm => ⟨(h2 m hm).cur, (h2 m hm).rows⟩⟩

/-- **stamp** (C04): everything a step adds carries the task's own source and integration -/
theorem stamp (t : Task) (db : DB) (sc : Script) (f : Option Pos) :
    let r := converge t db sc f
    (∀ x ∈ r.db.rows, x ∈ db.rows ∨ mine t x = true) ∧ (∀ x ∈ r.db.cur, x ∈ db.cur ∨ mineC t x = true) := by
  intro r
  obtain ⟨h1, _⟩ := converge_sub t db sc f
  exact ⟨h1.rowsm, h1.curm⟩

/-! C02 -/

/-- **fault_is_prefix** (C02): whatever I/O operation a fault strikes (error reply, connection
    drop or process death are the same for the committed state), the database is left in the
    state before the step, in the state committed by the first (unwinding) transaction of the
    fault-free run, or in the final state of the fault-free run — never anything else. -/
theorem fault_is_prefix (t : Task) (db : DB) (sc : Script) (p : Pos) :
    let r := converge t db sc (some p)
    let r0 := converge t db sc none
    r.db = db ∨ some r.db = r0.mid ∨ r.db = r0.db := by
  intro r r0
  show (converge t db sc (some p)).db = db ∨ some (converge t db sc (some p)).db = (converge t db sc none).mid ∨
    (converge t db sc (some p)).db = (converge t db sc none).db
  rw [converge_eq, converge_eq]
  simp only [hit_none, Bool.false_eq_true, ↓reduceIte]
  split
  · left; rfl
  · exact loop_fault t p db 1001 _ rfl

/-! C06 -/

/-- **done_iff** (C06): once the recorded position has reached the configured stop the step
    reports completion and writes nothing, and completion is reported only then. -/
theorem done_iff (t : Task) (db : DB) (sc : Script) (f : Option Pos) :
    let r := converge t db sc f
    (∀ x, db.latestCur t.src t.ig = some x → 0 < t.stop → t.stop ≤ x.num → f ≠ some .begin1 → f ≠ some (.qlatest 0) →
      r.outcome = .done ∧ r.db = db) ∧
    (r.outcome = .done → 0 < t.stop) := by
  intro r
  exact ⟨fun x hx hs hxs hf1 hf2 => converge_done_of t db sc f x hx hs hxs hf1 hf2, converge_done t db sc f⟩

/-- **stop_bound** (C06): no position and no row beyond the configured stop is ever written,
    for all batch sizes (the target is clipped before the batch is cut) — given that the source
    returns the blocks it was asked for. -/
theorem stop_bound (t : Task) (c : Chain) (db : DB) (sc : Script) (f : Option Pos)
    (hc : c.WF) (hsc : ScriptOK c sc) (hstop : 0 < t.stop) (hb : 1 ≤ t.batch) (hcc : 1 ≤ t.conc)
    (hcb : t.conc * t.batch < 2 ^ 63) (hhead : c.head < 2 ^ 62) :
    let r := converge t db sc f
    (∀ x ∈ r.db.cur, x ∈ db.cur ∨ x.num ≤ t.stop) ∧ (∀ x ∈ r.db.rows, x ∈ db.rows ∨ x.blk ≤ t.stop) := by
  intro r
  have _ := hhead
  rcases converge_shape t db sc f with ⟨hv, _⟩ | hok
  · exact ⟨fun x hx => .inl (hv.curm x hx), fun x hx => .inl (hv.rowsm x hx)⟩
  · obtain ⟨s, ln, lh, d, s1, n, _, _, _, hg, _, hn, hcur, hrows⟩ := okshape_upper hc hsc hb hcc hcb hok
    obtain ⟨g, gh, target0, _, _, hlt, hd, hd1⟩ := hg.ex
    have := clip_stop t target0 hstop
    refine ⟨fun x hx => ?_, fun x hx => ?_⟩
    · rcases hcur x hx with h | h
      · exact .inl h
      · right; omega
    · rcases hrows x hx with h | h
      · exact .inl h
      · right; omega

/-- **start_bound** (C06): nothing before the configured start is written -/
theorem start_bound (t : Task) (c : Chain) (db : DB) (sc : Script) (f : Option Pos)
    (hc : c.WF) (hsc : ScriptOK c sc) (hstart : 0 < t.start) (hb : 1 ≤ t.batch) (hcc : 1 ≤ t.conc)
    (hcb : t.conc * t.batch < 2 ^ 63) (hhead : c.head < 2 ^ 62)
    (hcur : ∀ x ∈ db.cur, mineC t x = true → t.start ≤ x.num) :
    let r := converge t db sc f
    (∀ x ∈ r.db.cur, x ∈ db.cur ∨ t.start ≤ x.num) ∧ (∀ x ∈ r.db.rows, x ∈ db.rows ∨ t.start ≤ x.blk) := by
  intro r
  rcases converge_shape t db sc f with ⟨hv, _⟩ | hok
  · exact ⟨fun x hx => .inl (hv.curm x hx), fun x hx => .inl (hv.rowsm x hx)⟩
  · obtain ⟨s, ln, lh, d, s1, k, _, hv, _, hg, hk1, _, _, _, last, hlast, hr⟩ :=
      okshape_slice hc hsc hb hcc hcb hhead hok
    have hln : t.start ≤ ln + 1 := by
      rcases hg.loc with ⟨x, hx, hn, _⟩ | ⟨_, _, hn, _⟩ | ⟨_, hs, _⟩
      · obtain ⟨h1, h2, h3, _⟩ := latestCur_some hx
        have := hcur x (hv.curm x h1) (by simp [mineC, h2, h3])
        omega
      · omega
      · omega
    have hnum : ∀ b ∈ c.slice (ln + 1) k, t.start ≤ b.num := fun b hb => by
      have := (mem_slice_num hc hb).1; omega
    refine ⟨fun x hx => ?_, fun x hx => ?_⟩
    · change x ∈ (converge t db sc f).db.cur at hx
      rw [hr] at hx
      rcases List.mem_append.mp hx with hx | hx
      · exact .inl (hv.curm x hx)
      · simp only [List.mem_singleton] at hx
        right; rw [hx]; exact hnum last (mem_of_getLast? hlast)
    · change x ∈ (converge t db sc f).db.rows at hx
      rw [hr] at hx
      rcases List.mem_append.mp hx with hx | hx
      · exact .inl (hv.rowsm x hx)
      · obtain ⟨b, hb1, hb2⟩ := newRows_blk hx
        right; rw [hb2]; exact hnum b hb1

/-! C01 / C02 on growth-only histories -/

/-- **inv_step** (C01, C02): on a chain that only grows, for every fault position and every
    script of honest-or-failed answers, every state a step can leave behind (final and mid-way)
    satisfies the invariant: rows cover exactly the blocks up to the recorded position. -/
theorem inv_step (t : Task) (c : Chain) (db : DB) (sc : Script) (f : Option Pos)
    (hc : c.WF) (hsc : ScriptOK c sc) (hstart : 0 < t.start) (hb : 1 ≤ t.batch) (hcc : 1 ≤ t.conc) (hcb : t.conc * t.batch < 2 ^ 63)
    (hhead : c.head < 2 ^ 62) (hdeps : t.deps = []) (hinv : Inv t c (t.start - 1) db) (hk : KeysOK t c db) :
    let r := converge t db sc f
    Inv t c (t.start - 1) r.db ∧ (∀ m, r.mid = some m → Inv t c (t.start - 1) m) := by
  intro r
  have _ := hdeps
  have _ := hk
  show Inv t c (t.start - 1) (converge t db sc f).db ∧
    (∀ m, (converge t db sc f).mid = some m → Inv t c (t.start - 1) m)
  rw [converge_eq]
  split
  · exact ⟨hinv, fun m h => by cases h⟩
  · rw [loop_succ]
    have hi1 := ((Inv_iff _ _ _ _).mp hinv).1
    rcases good_iter hc f { db := db, view := db, script := sc } hsc hstart hb hcc hcb hhead hi1
      with ⟨r, hr, he⟩ | ⟨k, s2, hk1, hk2, hk3, hdb, hview, hi⟩
    · rw [hr]
      simp only
      exact ⟨by rw [he.1]; exact hinv, fun m hm => by rw [he.2.1] at hm; cases hm⟩
    · rw [hi]
      simp only at hdb hview hk3 ⊢
      rcases commitStep_cases' t f s2 _ _ rfl with h | ⟨hmid, ⟨h1, _⟩ | ⟨last, hlast, _, _, h⟩⟩
      · rw [h]; exact ⟨by rw [hdb]; exact hinv, fun m hm => by cases hm⟩
      · exact ⟨by rw [h1, hview]; exact hinv, fun m hm => by rw [hmid] at hm; cases hm; rw [hview]; exact hinv⟩
      · refine ⟨?_, fun m hm => by rw [hmid] at hm; cases hm; rw [hview]; exact hinv⟩
        rw [h]
        simp only
        rw [hview]
        obtain ⟨last', hl1, hl2, hl3, _⟩ := slice_last hc (top t db (t.start - 1) + 1) k hk1 (by omega)
        rw [hlast] at hl1; cases hl1
        exact Inv_committed k last hinv hk1 hk3 (by omega) (by rw [hl3, hl2])

/-- **step_exact** (C01): a successful step advances the position by exactly the contiguous
    blocks whose rows it appended (between 1 and batch_size of them) and records the last one with
    its hash; every other outcome leaves the database unchanged. -/
theorem step_exact (t : Task) (c : Chain) (db : DB) (sc : Script)
    (hc : c.WF) (hsc : ScriptOK c sc) (hstart : 0 < t.start) (hb : 1 ≤ t.batch) (hcc : 1 ≤ t.conc) (hcb : t.conc * t.batch < 2 ^ 63)
    (hhead : c.head < 2 ^ 62) (hdeps : t.deps = []) (hinv : Inv t c (t.start - 1) db) (hk : KeysOK t c db) :
    let r := converge t db sc none
    let localNum := (topOf (db.cur.filter (mineC t))).getD (t.start - 1)
    (∀ n, r.outcome = .ok n →
      ∃ k, 1 ≤ k ∧ k ≤ t.batch ∧ n = localNum + k ∧ n ≤ c.head ∧
        r.db.rows = db.rows ++ (c.slice (localNum + 1) k).flatMap (rowsFor t) ∧
        r.db.cur = db.cur ++ [{ src := t.src, ig := t.ig, num := n, hash := c.hashAt n }]) ∧
    ((∀ n, r.outcome ≠ .ok n) → r.db = db) := by
  intro r localNum
  have _ := hdeps
  have _ := hk
  show (∀ n, (converge t db sc none).outcome = .ok n →
      ∃ k, 1 ≤ k ∧ k ≤ t.batch ∧ n = top t db (t.start - 1) + k ∧ n ≤ c.head ∧
        (converge t db sc none).db.rows = db.rows ++ (c.slice (top t db (t.start - 1) + 1) k).flatMap (rowsFor t) ∧
        (converge t db sc none).db.cur = db.cur ++ [{ src := t.src, ig := t.ig, num := n, hash := c.hashAt n }]) ∧
    ((∀ n, (converge t db sc none).outcome ≠ .ok n) → (converge t db sc none).db = db)
  rw [converge_eq]
  simp only [hit_none, Bool.false_eq_true, ↓reduceIte]
  rw [loop_succ]
  have hi1 := ((Inv_iff _ _ _ _).mp hinv).1
  rcases good_iter hc none { db := db, view := db, script := sc } hsc hstart hb hcc hcb hhead hi1
    with ⟨r, hr, he⟩ | ⟨k, s2, hk1, hk2, hk3, hdb, hview, hi⟩
  · rw [hr]
    simp only
    exact ⟨fun n hn => absurd hn (he.2.2.1 n), fun _ => he.1⟩
  · rw [hi]
    simp only at hdb hview hk3 ⊢
    rcases commitStep_cases' t none s2 _ _ rfl with h | ⟨hmid, ⟨h1, h2⟩ | ⟨last, hlast, _, _, h⟩⟩
    · rw [h]; exact ⟨(fun n hn => by cases hn), (fun _ => hdb)⟩
    · refine ⟨fun n hn => ?_, fun _ => h1.trans hview⟩
      rcases h2 with h2 | h2 <;> rw [h2] at hn <;> cases hn
    · rw [h]
      simp only
      obtain ⟨last', hl1, hl2, hl3, _⟩ := slice_last hc (top t db (t.start - 1) + 1) k hk1 (by omega)
      rw [hlast] at hl1; cases hl1
      refine ⟨fun n hn => ?_, fun hno => absurd rfl (hno last.num)⟩
      cases hn
      refine ⟨k, hk1, hk2, by omega, by omega, ?_, ?_⟩
      · rw [hview]; rfl
      · rw [hview]
        show db.cur ++ [newCur t last] = _
        unfold newCur
        rw [hl3, hl2]

/-! C05 -/

/-- **dep_gate** (C05): a task with filter references writes nothing unless EVERY referenced
    integration has a recorded position for the same source, and a successful step never
    advances beyond the smallest of those positions. -/
theorem dep_gate (t : Task) (c : Chain) (db : DB) (sc : Script) (f : Option Pos)
    (hc : c.WF) (hsc : ScriptOK c sc) (hb : 1 ≤ t.batch) (hcc : 1 ≤ t.conc) (hcb : t.conc * t.batch < 2 ^ 63)
    (hdeps : t.deps ≠ []) (hself : t.ig ∉ t.deps) :
    let r := converge t db sc f
    ((∃ d ∈ t.deps, db.latestCur t.src d = none) → r.db = db ∧ ∀ n, r.outcome ≠ .ok n) ∧
    (∀ n, r.outcome = .ok n → ∀ d ∈ t.deps, ∃ x, db.latestCur t.src d = some x ∧ n ≤ x.num) := by
  intro r
  have hother : ∀ d ∈ t.deps, d ≠ t.ig := fun d hd h => hself (h ▸ hd)
  -- what passing the gate means, in terms of the committed state
  have gate : ∀ (v : DB) (g target0 : Nat), Sub t db v → DepFacts t v g target0 →
      ∀ d ∈ t.deps, ∃ x, db.latestCur t.src d = some x ∧ target0 ≤ x.num := by
    intro v g target0 hsub hdf d hd
    rcases hdf with ⟨h, _⟩ | ⟨_, dn, dh, hdt, _, hle, _⟩
    · exact absurd h hdeps
    · obtain ⟨x, hx1, hx2⟩ := depTarget_some hdt d hd
      rw [hsub.latestCur_other d (hother d hd)] at hx1
      exact ⟨x, hx1, by omega⟩
  constructor
  · rintro ⟨d0, hd0, hnone⟩
    show (converge t db sc f).db = db ∧ ∀ n, (converge t db sc f).outcome ≠ .ok n
    rw [converge_eq]
    split
    · exact ⟨rfl, fun _ h => by cases h⟩
    · apply loop_ind t f (fun s => s.db = db ∧ Sub t db s.view)
        (fun r => r.db = db ∧ ∀ n, r.outcome ≠ .ok n)
      · intro s ⟨hdb, hsub⟩
        rcases iter_cases t f s with ⟨r, hr, he⟩ | ⟨ln, lh, d, s1, lr, s2, _, hg, _, _, _⟩
        · rw [hr]; exact ⟨he.1.trans hdb, he.2.2.1⟩
        · exfalso
          obtain ⟨g, gh, target0, _, hdf, _⟩ := hg.ex
          obtain ⟨x, hx, _⟩ := gate s.view g target0 hsub hdf d0 hd0
          rw [hnone] at hx; cases hx
      · intro s ⟨hdb, _⟩
        exact ⟨hdb, fun _ h => by cases h⟩
      · exact ⟨rfl, Sub.refl _ _⟩
  · intro n hn d hd
    rcases converge_shape t db sc f with ⟨_, hno⟩ | hok
    · exact absurd hn (hno n)
    · obtain ⟨s, ln, lh, dl, s1, n', _, hv, _, hg, hout, hn', _, _⟩ := okshape_upper hc hsc hb hcc hcb hok
      have : n = n' := by
        have h1 : (converge t db sc f).outcome = .ok n := hn
        rw [hout] at h1; cases h1; rfl
      subst this
      obtain ⟨g, gh, target0, _, hdf, hlt, hdd, hd1⟩ := hg.ex
      obtain ⟨x, hx1, hx2⟩ := gate s.view g target0 hv.sub hdf d hd
      have := clip_le t target0
      exact ⟨x, hx1, by omega⟩

/-! C01 -/

/-- **partition_cover** (C01): for every batch_size ≥ 1 and concurrency ≥ 1 (including
    batch_size < concurrency and non-divisible pairs) and every `limit ≤ batch_size`, the ranges
    `load` spawns are consecutive, start at `start`, and cover at least one and at most `limit`
    blocks. -/
theorem partition_cover (batch conc start limit : Nat) (hb : 1 ≤ batch) (hc : 1 ≤ conc)
    (hl : 1 ≤ limit) (hlb : limit ≤ batch) (hs : start + limit < 2 ^ 63) (hcb : conc * batch < 2 ^ 63) :
    let ps := parts batch conc start limit
    ps ≠ [] ∧ (ps.map (·.2)).sum ≤ limit ∧ 1 ≤ (ps.map (·.2)).sum ∧
    (∀ i m n, ps[i]? = some (m, n) → m = start + ((ps.take i).map (·.2)).sum ∧ 1 ≤ n) := by
  intro ps
  obtain ⟨h1, h2, h3⟩ := parts_spec batch conc start limit hb hc hl hlb hs hcb
  refine ⟨?_, h2, h1, consec_getElem start _ h3⟩
  intro h
  rw [show parts batch conc start limit = [] from h] at h1
  simp at h1

/-- **load_linked** (C01): whatever blocks a step accepts from `load` — for ANY answer script,
    honest or not — form one hash-linked run: every block that carries a 32-byte parent hash names
    the hash of the block before it. Partitions answered from different forks are never merged. -/
theorem load_linked (t : Task) (s : St) (localHash : String) (start limit : Nat) (bs : List Blk) (s' : St)
    (h : load t s localHash start limit = (.blocks bs, s')) : linked bs = true := by
  obtain ⟨_, _, _, _, hcase⟩ := load_cases t s s' localHash start limit _ h
  rcases hcase with ⟨_, hx⟩ | ⟨_, _, hx⟩ | ⟨_, _, ⟨_, hx⟩ | ⟨_, _, _, ⟨_, hx⟩ | ⟨_, _, hx⟩ | ⟨hl, _, hx⟩⟩⟩ <;> cases hx
  exact hl

/-! C03 -/

/-- **unwind_step / converge_after_reorg** (C03).  The source has settled on chain `c` and grown
    past the recorded position. The task's recorded positions at or below some position `g` are
    canonical blocks of `c` (the retained history reaches below the fork), every position above `g`
    is an orphan (its hash is not `c`'s), at most 1000 of them; the rows of blocks up to `g` are the
    projection of `c` (blocks below the fork), the rows above are whatever the orphaned batches
    wrote, for ANY batch sizes in effect then. Then ONE fault-free step with honest answers unwinds
    to `g`, indexes the next batch of `c`, and leaves a database that satisfies the growth
    invariant for `c`: orphaned rows are gone, rows up to `g` are untouched. -/
theorem unwind_step (t : Task) (c : Chain) (db : DB) (sc : Script) (g : Cur)
    (hc : c.WF) (hsc : ScriptOK c sc) (hstart : 0 < t.start) (hb : 1 ≤ t.batch) (hcc : 1 ≤ t.conc)
    (hcb : t.conc * t.batch < 2 ^ 63) (hhead : c.head < 2 ^ 62) (hdeps : t.deps = []) (hstop : t.stop = 0)
    (hnodup : ((db.cur.filter (mineC t)).map (·.num)).Nodup)
    (hg : g ∈ db.cur.filter (mineC t))
    (hbelow : ∀ x ∈ db.cur.filter (mineC t), x.num ≤ g.num →
      t.start - 1 < x.num ∧ x.num ≤ c.head ∧ x.hash = c.hashAt x.num)
    (habove : ∀ x ∈ db.cur.filter (mineC t), g.num < x.num → x.hash ≠ c.hashAt x.num)
    (hcount : ((db.cur.filter (mineC t)).filter fun x => g.num < x.num).length ≤ 1000)
    (hrows : (db.rows.filter fun r => mine t r && decide (r.blk ≤ g.num)) =
      (c.slice t.start (g.num - (t.start - 1))).flatMap (rowsFor t))
    (hk : KeysOK t c { db with rows := db.rows.filter fun r => !(mine t r && decide (g.num < r.blk)) })
    (hnone : (∀ x ∈ db.cur.filter (mineC t), x.num ≤ g.num) → ∀ r ∈ db.rows, mine t r = true → r.blk ≤ g.num)
    (hgrow : ∀ x ∈ db.cur.filter (mineC t), x.num < c.head)
    (hhonest : (∀ a ∈ sc.latest, a = some (c.head, c.hashAt c.head)) ∧ (∀ p ∈ sc.hash, p.2 ≠ none) ∧
      (∀ q ∈ sc.gets, q.2 ≠ none)) :
    let r := converge t db sc none
    r.scriptOk = true →
    (∃ n, r.outcome = .ok n ∧ g.num < n) ∧ Inv t c (t.start - 1) r.db ∧
    (r.db.rows.filter fun r => mine t r && decide (r.blk ≤ g.num)) =
      (db.rows.filter fun r => mine t r && decide (r.blk ≤ g.num)) := by
  intro r
  show (converge t db sc none).scriptOk = true →
    (∃ n, (converge t db sc none).outcome = .ok n ∧ g.num < n) ∧ Inv t c (t.start - 1) (converge t db sc none).db ∧
    ((converge t db sc none).db.rows.filter fun r => mine t r && decide (r.blk ≤ g.num)) =
      (db.rows.filter fun r => mine t r && decide (r.blk ≤ g.num))
  rw [converge_eq]
  simp only [hit_none, Bool.false_eq_true, ↓reduceIte]
  have hkeys : KeysOK t c db := by
    obtain ⟨k1, k2⟩ := hk
    refine ⟨k1, fun x hx hm => k2 x ?_ hm⟩
    show x ∈ db.rows.filter _
    rw [List.mem_filter]
    exact ⟨hx, by simp [hm]⟩
  have hu : UInv t c g ((c.slice t.start (g.num - (t.start - 1))).flatMap (rowsFor t)) db :=
    ⟨hg, hnodup, hbelow, habove, hgrow, hrows, hkeys, hnone⟩
  intro hok
  have := unwind_loop hc hstart hb hcc hcb hhead hdeps hstop 1001 { db := db, view := db, script := sc } hu hsc
    ⟨hhonest.1, hhonest.2.1, hhonest.2.2⟩ (by show orphans t g db + 1 ≤ 1001; unfold orphans; exact Nat.succ_le_succ hcount) hok
  refine ⟨this.1, this.2.1, ?_⟩
  rw [hrows]
  exact this.2.2

/-! ### non-vacuity: concrete instances of the hypotheses and of the model's behaviour -/

namespace Ex

/-- a 64-hex-digit hash ending in `c` -/
def hx (c : Char) : String := String.ofList (List.replicate 63 '0' ++ [c])

def blk (n : Nat) (h p : Char) (k : String) : Blk :=
  { num := n, hash := hx h, parent := hx p, rows := [(k, "p" ++ k)] }

/-- a 6-block canonical chain -/
def c6 : Chain :=
  ⟨[blk 0 '0' 'f' "k0", blk 1 '1' '0' "k1", blk 2 '2' '1' "k2", blk 3 '3' '2' "k3", blk 4 '4' '3' "k4",
    blk 5 '5' '4' "k5"]⟩

theorem c6_wf : c6.WF := Chain.wfb_sound c6 (by decide +kernel)

def t1 : Task :=
  { src := "s", ig := "i", table := "tb", start := 1, stop := 0, batch := 2, conc := 2, deps := [] }

def row (b : Nat) (k : String) : TRow := { table := "tb", src := "s", ig := "i", blk := b, key := k, pay := "p" ++ k }

/-- a row of another integration in the same table -/
def foreign : TRow := { table := "tb", src := "s", ig := "other", blk := 4, key := "x4", pay := "px4" }

/-- honest answers for the first step from the empty database -/
def sc1 : Script :=
  { latest := [some (5, c6.hashAt 5)], hash := [(0, some (c6.hashAt 0))],
    gets := [((1, 1), some (c6.slice 1 1)), ((2, 1), some (c6.slice 2 1))] }

theorem sc1_ok : ScriptOK c6 sc1 := scriptOKb_sound c6 sc1 (by decide +kernel)

/-- the first step from the empty database indexes blocks 1 and 2 -/
example : (converge t1 {} sc1 none).outcome = .ok 2 ∧
    (converge t1 {} sc1 none).db =
      { cur := [{ src := "s", ig := "i", num := 2, hash := hx '2' }], rows := [row 1 "k1", row 2 "k2"] } ∧
    (converge t1 {} sc1 none).scriptOk = true := by decide +kernel

/-- the hypotheses of `inv_step` / `step_exact` are jointly satisfiable -/
example : Inv t1 c6 (t1.start - 1) (converge t1 {} sc1 none).db :=
  (inv_step t1 c6 {} sc1 none c6_wf sc1_ok (by decide) (by decide) (by decide) (by decide) (by decide +kernel)
    rfl (by decide +kernel) (by decide +kernel)).1

/-- a fault between the two transactions leaves the state committed by the first one -/
example : (converge t1 {} sc1 (some .insert)).outcome = .err ∧ (converge t1 {} sc1 (some .insert)).db = {} ∧
    (converge t1 {} sc1 (some .insert)).mid = some {} := by decide +kernel

/-! a reorg: positions 2 (canonical) and 4 (orphaned: another block 4 was indexed), rows of the
    orphaned blocks 3 and 4, and a row of another integration -/

def g2 : Cur := { src := "s", ig := "i", num := 2, hash := hx '2' }

def dbR : DB :=
  { cur := [g2, { src := "s", ig := "i", num := 4, hash := hx 'd' }],
    rows := [row 1 "k1", row 2 "k2", row 3 "o3", row 4 "o4", foreign] }

def scR : Script :=
  { latest := [some (5, c6.hashAt 5), some (5, c6.hashAt 5)], hash := [],
    gets := [((5, 1), some (c6.slice 5 1)), ((3, 1), some (c6.slice 3 1)), ((4, 1), some (c6.slice 4 1))] }

theorem scR_ok : ScriptOK c6 scR := scriptOKb_sound c6 scR (by decide +kernel)

/-- one step unwinds the orphaned position and rows and indexes the canonical blocks 3 and 4;
    the other integration's row is untouched -/
example : (converge t1 dbR scR none).outcome = .ok 4 ∧
    (converge t1 dbR scR none).db =
      { cur := [g2, { src := "s", ig := "i", num := 4, hash := hx '4' }],
        rows := [row 1 "k1", row 2 "k2", foreign, row 3 "k3", row 4 "k4"] } ∧
    (converge t1 dbR scR none).mid = some { cur := [g2], rows := [row 1 "k1", row 2 "k2", foreign] } ∧
    (converge t1 dbR scR none).scriptOk = true := by decide +kernel

/-- the hypotheses of `unwind_step` hold for this state, so its conclusion applies -/
example : (∃ n, (converge t1 dbR scR none).outcome = .ok n ∧ g2.num < n) ∧
    Inv t1 c6 (t1.start - 1) (converge t1 dbR scR none).db :=
  have h := unwind_step t1 c6 dbR scR g2 c6_wf scR_ok (by decide) (by decide) (by decide) (by decide)
    (by decide +kernel) rfl rfl (by decide +kernel) (by decide +kernel) (by decide +kernel) (by decide +kernel)
    (by decide +kernel) (by decide +kernel) (by decide +kernel) (by decide +kernel) (by decide +kernel)
    (by decide +kernel) (by decide +kernel)
  ⟨h.1, h.2.1⟩

/-- the partition ranges for batch 5, concurrency 2 cover only 4 of the 5 requested blocks -/
example : parts 5 2 10 5 = [(10, 2), (12, 2)] := by decide +kernel

/-! partitions of one batch answered from different forks: block 1 of `c6`, and a block 2 whose
    parent is not block 1 of `c6` -/

def scFork : Script :=
  { latest := [some (5, c6.hashAt 5)], hash := [(0, some (c6.hashAt 0))],
    gets := [((1, 1), some (c6.slice 1 1)), ((2, 1), some [blk 2 'b' 'a' "f2"])] }

def isErr : LoadRes → Bool
  | .err => true
  | _ => false

def blocksOf : LoadRes → Option (List Blk)
  | .blocks bs => some bs
  | _ => none

/-- `load` rejects the two partitions with `.err` (all answers arrived, none failed) -/
example : isErr (load t1 { db := {}, view := {}, script := scFork } (c6.hashAt 0) 1 2).1 = true ∧
    linked (c6.slice 1 1 ++ [blk 2 'b' 'a' "f2"]) = false := by decide +kernel

/-- the step fails with an error and commits nothing -/
example : (converge t1 {} scFork none).outcome = .err ∧ (converge t1 {} scFork none).db = {} ∧
    (converge t1 {} scFork none).mid = none ∧ (converge t1 {} scFork none).scriptOk = true := by decide +kernel

/-- honest partitions (both from `c6`) are accepted: `load` answers blocks 1 and 2 -/
example : blocksOf (load t1 { db := {}, view := {}, script := sc1 } (c6.hashAt 0) 1 2).1 = some (c6.slice 1 2) ∧
    linked (c6.slice 1 2) = true := by decide +kernel

end Ex

end Shovel.World
