import Shovel.Model.Race
/-
  C18 — `lockset_sound`: in a well-formed trace, two accesses by different threads that both hold a
  common lock are ordered by happens-before.
-/
namespace Shovel.Race

/-- happens-before of a trace: program order, release → later acquire of the same lock,
    fork → the child's events, the child's events → join; transitively closed -/
inductive HB (tr : Trace) : Nat → Nat → Prop where
  | po {i j t a b} : i < j → tr[i]? = some (t, a) → tr[j]? = some (t, b) → HB tr i j
  | sw {i j t t' l} : i < j → tr[i]? = some (t, .rel l) → tr[j]? = some (t', .acq l) → HB tr i j
  | fork {i j t c a} : i < j → tr[i]? = some (t, .fork c) → tr[j]? = some (c, a) → HB tr i j
  | join {i j t c a} : i < j → tr[i]? = some (c, a) → tr[j]? = some (t, .join c) → HB tr i j
  | trans {i j k} : HB tr i j → HB tr j k → HB tr i k

/-! ### one step of `lockState` -/

/-- the fold step of `lockState` -/
def lsStep (st : Option (List (Nat × Nat))) (e : Event) : Option (List (Nat × Nat)) :=
  match st with
  | none => none
  | some held =>
    match e.2 with
    | .acq l => if held.any (·.1 == l) then none else some ((l, e.1) :: held)
    | .rel l => if held.contains (l, e.1) then some (held.erase (l, e.1)) else none
    | _ => some held

theorem lockState_eq (tr : Trace) : lockState tr = tr.foldl lsStep (some []) := by
  cases tr with
  | nil => rfl
  | cons a t => rfl

theorem lockState_take_succ (tr : Trace) (n : Nat) (e : Event) (h : tr[n]? = some e) :
    lockState (tr.take (n + 1)) = lsStep (lockState (tr.take n)) e := by
  rw [lockState_eq, lockState_eq, List.take_add_one, h]
  simp [List.foldl_append]

theorem lockState_take_succ_none (tr : Trace) (n : Nat) (h : tr[n]? = none) :
    lockState (tr.take (n + 1)) = lockState (tr.take n) := by
  rw [List.take_add_one, h]; simp

theorem lsStep_none (e : Event) : lsStep none e = none := rfl

/-- a lock has at most one holder -/
def Uniq (h : List (Nat × Nat)) : Prop := ∀ l t t', (l, t) ∈ h → (l, t') ∈ h → t = t'

theorem lsStep_uniq {h h' : List (Nat × Nat)} {e : Event}
    (hs : lsStep (some h) e = some h') (hu : Uniq h) : Uniq h' := by
  obtain ⟨te, op⟩ := e
  cases op with
  | acq l0 =>
    simp only [lsStep] at hs
    split at hs
    · cases hs
    · rename_i hany
      cases hs
      have hfree : ∀ t, (l0, t) ∉ h := by
        intro t hm
        apply hany
        simp only [List.any_eq_true]
        exact ⟨(l0, t), hm, by simp⟩
      intro l t t' hm hm'
      simp only [List.mem_cons] at hm hm'
      rcases hm with hm | hm <;> rcases hm' with hm' | hm'
      · cases hm; cases hm'; rfl
      · cases hm; exact absurd hm' (hfree _)
      · cases hm'; exact absurd hm (hfree _)
      · exact hu l t t' hm hm'
  | rel l0 =>
    simp only [lsStep] at hs
    split at hs
    · cases hs
      intro l t t' hm hm'
      exact hu l t t' (List.mem_of_mem_erase hm) (List.mem_of_mem_erase hm')
    · cases hs
  | acc x w => simp only [lsStep] at hs; cases hs; exact hu
  | fork c => simp only [lsStep] at hs; cases hs; exact hu
  | join c => simp only [lsStep] at hs; cases hs; exact hu

/-- a held lock stays held across a step unless the step is its release by the holder -/
theorem lsStep_mem_fwd {h h' : List (Nat × Nat)} {e : Event} {l t : Nat}
    (hs : lsStep (some h) e = some h') (hm : (l, t) ∈ h) : (l, t) ∈ h' ∨ e = (t, .rel l) := by
  obtain ⟨te, op⟩ := e
  cases op with
  | acq l0 =>
    simp only [lsStep] at hs
    split at hs
    · cases hs
    · cases hs; exact .inl (List.mem_cons_of_mem _ hm)
  | rel l0 =>
    simp only [lsStep] at hs
    split at hs
    · cases hs
      by_cases heq : (l, t) = (l0, te)
      · cases heq; exact .inr rfl
      · exact .inl ((List.mem_erase_of_ne heq).2 hm)
    · cases hs
  | acc x w => simp only [lsStep] at hs; cases hs; exact .inl hm
  | fork c => simp only [lsStep] at hs; cases hs; exact .inl hm
  | join c => simp only [lsStep] at hs; cases hs; exact .inl hm

/-- a lock held after a step was held before it unless the step is its acquisition -/
theorem lsStep_mem_bwd {h h' : List (Nat × Nat)} {e : Event} {l t : Nat}
    (hs : lsStep (some h) e = some h') (hm : (l, t) ∈ h') : (l, t) ∈ h ∨ e = (t, .acq l) := by
  obtain ⟨te, op⟩ := e
  cases op with
  | acq l0 =>
    simp only [lsStep] at hs
    split at hs
    · cases hs
    · cases hs
      simp only [List.mem_cons] at hm
      rcases hm with hm | hm
      · cases hm; exact .inr rfl
      · exact .inl hm
  | rel l0 =>
    simp only [lsStep] at hs
    split at hs
    · cases hs; exact .inl (List.mem_of_mem_erase hm)
    · cases hs
  | acc x w => simp only [lsStep] at hs; cases hs; exact .inl hm
  | fork c => simp only [lsStep] at hs; cases hs; exact .inl hm
  | join c => simp only [lsStep] at hs; cases hs; exact .inl hm

/-- a successful release: the releaser held the lock, and it is erased -/
theorem lsStep_rel {h h' : List (Nat × Nat)} {l t : Nat}
    (hs : lsStep (some h) (t, .rel l) = some h') : (l, t) ∈ h ∧ h' = h.erase (l, t) := by
  simp only [lsStep] at hs
  split at hs
  · rename_i hc
    cases hs
    exact ⟨by simpa using hc, rfl⟩
  · cases hs

/-! ### invariants along prefixes -/

theorem lockState_uniq (tr : Trace) : ∀ n h, lockState (tr.take n) = some h → Uniq h := by
  intro n
  induction n with
  | zero =>
    intro h hs
    simp [lockState] at hs
    subst hs
    intro l t t' hm; cases hm
  | succ n ih =>
    intro h hs
    cases hn : tr[n]? with
    | none => rw [lockState_take_succ_none tr n hn] at hs; exact ih h hs
    | some e =>
      rw [lockState_take_succ tr n e hn] at hs
      cases h0 : lockState (tr.take n) with
      | none => rw [h0, lsStep_none] at hs; cases hs
      | some h0' => rw [h0] at hs; exact lsStep_uniq hs (ih h0' h0)

/-- if `t` holds `l` before `i`, then at any later `k` it still does, or released it in between -/
theorem held_until_release (tr : Trace) (hwf : WF tr) (i l t : Nat) (h1 : holds tr i t l) :
    ∀ d, holds tr (i + d) t l ∨ ∃ r, i ≤ r ∧ r < i + d ∧ tr[r]? = some (t, .rel l) := by
  intro d
  induction d with
  | zero => exact .inl h1
  | succ d ih =>
    rcases ih with ⟨h, hs, hm⟩ | ⟨r, hir, hrd, hr⟩
    · cases hn : tr[i + d]? with
      | none =>
        left
        refine ⟨h, ?_, hm⟩
        rw [← Nat.add_assoc, lockState_take_succ_none tr _ hn]; exact hs
      | some e =>
        have hwf' := hwf (i + d + 1)
        rw [lockState_take_succ tr _ e hn, hs] at hwf'
        cases hs' : lsStep (some h) e with
        | none => rw [hs'] at hwf'; cases hwf'
        | some h' =>
          rcases lsStep_mem_fwd hs' hm with hm' | he
          · left
            refine ⟨h', ?_, hm'⟩
            rw [← Nat.add_assoc, lockState_take_succ tr _ e hn, hs, hs']
          · right
            exact ⟨i + d, Nat.le_add_right _ _, by omega, by rw [hn, he]⟩
    · right
      exact ⟨r, hir, by omega, hr⟩

/-- if `t` holds `l` before `k + d`, it already did before `k`, or acquired it in between -/
theorem held_since_acquire (tr : Trace) (k l t : Nat) :
    ∀ d, holds tr (k + d) t l →
      holds tr k t l ∨ ∃ a, k ≤ a ∧ a < k + d ∧ tr[a]? = some (t, .acq l) := by
  intro d
  induction d with
  | zero => intro h; exact .inl h
  | succ d ih =>
    rintro ⟨h', hs', hm'⟩
    rw [← Nat.add_assoc] at hs'
    have hprev : holds tr (k + d) t l ∨ tr[k + d]? = some (t, .acq l) := by
      cases hn : tr[k + d]? with
      | none =>
        left
        rw [lockState_take_succ_none tr _ hn] at hs'
        exact ⟨h', hs', hm'⟩
      | some e =>
        rw [lockState_take_succ tr _ e hn] at hs'
        cases h0 : lockState (tr.take (k + d)) with
        | none => rw [h0, lsStep_none] at hs'; cases hs'
        | some h =>
          rw [h0] at hs'
          rcases lsStep_mem_bwd hs' hm' with hm | he
          · exact .inl ⟨h, h0, hm⟩
          · right; rw [he]
    rcases hprev with hp | ha
    · rcases ih hp with hk | ⟨a, hka, had, ha⟩
      · exact .inl hk
      · exact .inr ⟨a, hka, by omega, ha⟩
    · exact .inr ⟨k + d, Nat.le_add_right _ _, by omega, ha⟩

theorem holds_unique (tr : Trace) (n l t t' : Nat) (h : holds tr n t l) (h' : holds tr n t' l) :
    t = t' := by
  obtain ⟨s, hs, hm⟩ := h
  obtain ⟨s', hs', hm'⟩ := h'
  rw [hs] at hs'; cases hs'
  exact lockState_uniq tr n s hs l t t' hm hm'

/-- right after `t` releases `l`, nobody else holds `l` -/
theorem not_holds_after_release (tr : Trace) (r l t t' : Nat)
    (hr : tr[r]? = some (t, .rel l)) (hne : t ≠ t') : ¬ holds tr (r + 1) t' l := by
  rintro ⟨h', hs', hm'⟩
  rw [lockState_take_succ tr r _ hr] at hs'
  cases h0 : lockState (tr.take r) with
  | none => rw [h0, lsStep_none] at hs'; cases hs'
  | some h =>
    rw [h0] at hs'
    obtain ⟨hm, he⟩ := lsStep_rel hs'
    subst he
    exact hne (lockState_uniq tr r h h0 l t t' hm (List.mem_of_mem_erase hm'))

/-- **lockset_sound** (C18): in every well-formed trace (a lock is acquired only when free and
    released only by its holder), two accesses by different threads that both hold a common lock
    are ordered by happens-before — so with every conflicting pair of accesses to a shared location
    guarded by a common mutex (the `discipline_*` facts) there is no data race on that location. -/
theorem lockset_sound (tr : Trace) (hwf : WF tr) (i j : Nat) (hij : i < j)
    (t1 t2 x : Nat) (w1 w2 : Bool) (l : Nat)
    (hi : tr[i]? = some (t1, .acc x w1)) (hj : tr[j]? = some (t2, .acc x w2)) (hne : t1 ≠ t2)
    (h1 : holds tr i t1 l) (h2 : holds tr j t2 l) :
    HB tr i j := by
  -- t1 releases l at some r ∈ [i, j)
  obtain ⟨r, hir, hrj, hr⟩ : ∃ r, i ≤ r ∧ r < j ∧ tr[r]? = some (t1, .rel l) := by
    have := held_until_release tr hwf i l t1 h1 (j - i)
    have hj' : i + (j - i) = j := by omega
    rw [hj'] at this
    rcases this with hh | hr
    · exact absurd (holds_unique tr j l t1 t2 hh h2) hne
    · exact hr
  have hir' : i < r := by
    rcases Nat.lt_or_eq_of_le hir with h | h
    · exact h
    · subst h; rw [hi] at hr; cases hr
  -- t2 acquires l at some a ∈ (r, j)
  obtain ⟨a, hra, haj, ha⟩ : ∃ a, r + 1 ≤ a ∧ a < j ∧ tr[a]? = some (t2, .acq l) := by
    have hj' : r + 1 + (j - (r + 1)) = j := by omega
    have := held_since_acquire tr (r + 1) l t2 (j - (r + 1)) (by rw [hj']; exact h2)
    rw [hj'] at this
    rcases this with hh | ha
    · exact absurd hh (not_holds_after_release tr r l t1 t2 hr hne)
    · exact ha
  exact .trans (.po hir' hi hr) (.trans (.sw (by omega) hr ha) (.po haj ha hj))

/-! ### non-vacuity -/

theorem WF_iff (tr : Trace) : WF tr ↔ ∀ n, n ≤ tr.length → (lockState (tr.take n)).isSome := by
  constructor
  · intro h n _; exact h n
  · intro h n
    by_cases hn : n ≤ tr.length
    · exact h n hn
    · have : tr.take n = tr.take tr.length := by
        rw [List.take_length, List.take_of_length_le (by omega)]
      rw [this]; exact h _ (Nat.le_refl _)

instance (tr : Trace) : Decidable (WF tr) :=
  decidable_of_iff (∀ n, n < tr.length + 1 → (lockState (tr.take n)).isSome = true)
    (by rw [WF_iff]; exact ⟨fun h n hn => h n (by omega), fun h n hn => h n (by omega)⟩)

/-- t1: acq 0, write x, rel 0; then t2: acq 0, write x, rel 0 -/
def exLocked : Trace :=
  [(1, .acq 0), (1, .acc 7 true), (1, .rel 0), (2, .acq 0), (2, .acc 7 true), (2, .rel 0)]

/-- the same two writes without the lock -/
def exUnlocked : Trace := [(1, .acc 7 true), (2, .acc 7 true)]

instance (tr : Trace) (i t l : Nat) : Decidable (holds tr i t l) :=
  match h : lockState (tr.take i) with
  | none => isFalse (by rintro ⟨s, hs, _⟩; rw [h] at hs; cases hs)
  | some s =>
    if hm : (l, t) ∈ s then isTrue ⟨s, h, hm⟩
    else isFalse (by rintro ⟨s', hs', hm'⟩; rw [h] at hs'; cases hs'; exact hm hm')

/-- the hypotheses of `lockset_sound` are satisfiable: the locked trace is well-formed, and both
    writes (positions 1 and 4, threads 1 ≠ 2) hold lock 0 -/
example : WF exLocked ∧ exLocked[1]? = some (1, .acc 7 true) ∧ exLocked[4]? = some (2, .acc 7 true) ∧
    holds exLocked 1 1 0 ∧ holds exLocked 4 2 0 := by decide

example : HB exLocked 1 4 :=
  lockset_sound exLocked (by decide) 1 4 (by decide) 1 2 7 true true 0 (by decide) (by decide)
    (by decide) (by decide) (by decide)

/-- without the lock the trace is still well-formed but neither write holds any lock, so the
    theorem does not apply — nothing forces the two accesses into happens-before order -/
example : WF exUnlocked ∧ (∀ l, l < 4 → ¬ holds exUnlocked 0 1 l ∧ ¬ holds exUnlocked 1 2 l) := by
  decide

end Shovel.Race
