import Shovel.Gen.Code
import Shovel.Model.Safe
import Shovel.Model.Codec
import Shovel.Model.Row
/-
  Tie T3 — the TRANSLATED leaf functions equal the hand-written models.
  `Gen/Code.lean` is regenerated from the Go function bodies on every run (harness/cmd/extract/translate.go);
  each theorem below states that the regenerated definition computes exactly what the model the property
  theorems speak about computes — for every input. An edit of the Go function that changes its behaviour
  changes the generated definition and the equality no longer checks.

    wstrings.Safe            = Safe.safe                    (C15)
    bint.Decode              = Codec.bdecode                (C17, C10)
    bint.size                = Codec.size                   (C17)   [fuel: nine iterations suffice below 2^64]
    eth.decode               = Codec.decode                 (C17, C07)
    filterResults.add/accept = Row.Frs.add / Frs.accept     (C12)
-/
namespace Shovel.Code
open Shovel Shovel.Gen.Code

/-! ### wstrings.Safe -/

/-- `unicode.IsLetter` / `unicode.IsDigit` as the model sees them: exact on ASCII, the opaque class
    `uni` beyond -/
structure UnicodeAs (uni isLetter isDigit : Nat → Bool) : Prop where
  ascii : ∀ c, c < 128 → isLetter c = Safe.asciiLetter c ∧ isDigit c = Safe.asciiDigit c
  beyond : ∀ c, 128 ≤ c → (isLetter c || isDigit c) = uni c

theorem safe_body (uni isLetter isDigit : Nat → Bool) (h : UnicodeAs uni isLetter isDigit) (s : List Nat) (r : Nat) :
    safe.loop1.body isLetter isDigit s r () = if Safe.identChar uni r then Ctl.next () else Ctl.ret Res.err := by
  unfold safe.loop1.body Safe.identChar
  by_cases hr : r < 128
  · obtain ⟨h1, h2⟩ := h.ascii r hr
    simp only [h1, h2, hr, if_true]
    cases Safe.asciiLetter r <;> cases Safe.asciiDigit r <;> cases (r == 95) <;> cases (r == 45) <;> rfl
  · have hb := h.beyond r (by omega)
    have h95 : (r == 95) = false := by simp; omega
    have h45 : (r == 45) = false := by simp; omega
    simp only [hr, if_false, h95, h45, Bool.or_false, hb]
    cases uni r <;> rfl

theorem safe_loop (uni isLetter isDigit : Nat → Bool) (h : UnicodeAs uni isLetter isDigit) (s : List Nat) :
    ∀ l : List Nat, safe.loop1 isLetter isDigit s l () =
      if l.all (Safe.identChar uni) then Ctl.next () else Ctl.ret Res.err
  | [] => rfl
  | r :: rest => by
    unfold safe.loop1
    rw [safe_body uni isLetter isDigit h]
    by_cases hc : Safe.identChar uni r = true
    · simp only [hc, if_true, List.all_cons, Bool.true_and]
      exact safe_loop uni isLetter isDigit h s rest
    · have hc' : Safe.identChar uni r = false := by simpa using hc
      simp [hc']

/-- **safe_eq** (C15): the translated `wstrings.Safe` accepts exactly the strings of the model -/
theorem safe_eq (uni isLetter isDigit : Nat → Bool) (h : UnicodeAs uni isLetter isDigit) (s : List Nat) :
    Gen.Code.safe isLetter isDigit s = if Safe.safe uni s then Res.ok () else Res.err := by
  unfold Gen.Code.safe Safe.safe
  rw [safe_loop uni isLetter isDigit h s s]
  by_cases ha : s.all (Safe.identChar uni) = true <;> simp [ha]

/-! ### bint.Decode -/

theorem bintDecode_loop (b : List Nat) : ∀ (l : List Nat) (n : Nat),
    bintDecode.loop1 b l n = Ctl.next (l.foldl (fun n x => ((n <<< 8) % Codec.U64 + x) % Codec.U64) n)
  | [], n => rfl
  | x :: rest, n => by
    unfold bintDecode.loop1 bintDecode.loop1.body
    simp only [List.foldl_cons]
    rw [bintDecode_loop b rest]
    simp [Nat.shiftLeft_eq, Codec.U64]

/-- **bintDecode_eq** (C17): the translated `bint.Decode` is the model's big-endian fold -/
theorem bintDecode_eq (b : List Nat) : Gen.Code.bintDecode b = Codec.bdecode b := by
  unfold Gen.Code.bintDecode Codec.bdecode
  simp only [bintDecode_loop]

/-! ### bint.size -/

theorem bintSize_loop (p : Nat) : ∀ (f n s : Nat), n < 256 ^ f → s + f ≤ 255 →
    bintSize.loop1 p (f + 1) (n, s) = some (Ctl.next (0, Codec.sizeLoop f n s))
  | 0, n, s, hn, _ => by
    have : n = 0 := by simpa using hn
    subst this
    simp [bintSize.loop1, bintSize.loop1.cond, Codec.sizeLoop]
  | f + 1, n, s, hn, hs => by
    unfold bintSize.loop1
    by_cases h0 : n > 0
    · have hc : bintSize.loop1.cond p (n, s) = true := by simp [bintSize.loop1.cond, h0]
      have hn' : n / 256 < 256 ^ f := by
        rw [Nat.pow_succ] at hn
        exact Nat.div_lt_of_lt_mul (by rw [Nat.mul_comm]; exact hn)
      simp only [hc, if_true, bintSize.loop1.body]
      have hs1 : (s + 1) % 256 = s + 1 := Nat.mod_eq_of_lt (by omega)
      rw [show (2 : Nat) ^ 8 = 256 from rfl, hs1, bintSize_loop p f (n / 256) (s + 1) hn' (by omega)]
      simp [Codec.sizeLoop, h0]
    · have hz : n = 0 := by omega
      subst hz
      simp [bintSize.loop1.cond, Codec.sizeLoop]

/-- **bintSize_eq** (C17): with nine units of fuel the translated `bint.size` never runs out and is the
    model's size, for every 64-bit value -/
theorem bintSize_eq (n : Nat) (hn : n < 2 ^ 64) : Gen.Code.bintSize 9 n = Codec.size n := by
  unfold Gen.Code.bintSize Codec.size
  by_cases h0 : n = 0
  · simp [h0]
  · have hb : (n == 0) = false := by simpa using h0
    simp only [hb, Bool.false_eq_true, if_false, h0]
    have h256 : n < 256 ^ 8 := by
      have : (256 : Nat) ^ 8 = 2 ^ 64 := by decide
      omega
    simp only [bintSize_loop n 8 n 0 h256 (by omega)]

/-! ### eth.decode -/

theorem hexDecode_body (b : List Nat) (x res : Nat) :
    hexDecode.loop1.body b x res =
      match hexDigitVal x with
      | none => Ctl.ret Res.err
      | some nib => if res / 2 ^ 60 ≠ 0 then Ctl.ret Res.err
                    else Ctl.next (((res <<< 4) % Codec.U64) ||| nib) := by
  unfold hexDecode.loop1.body hexDigitVal
  by_cases h1 : 48 ≤ x ∧ x ≤ 57
  · have e1 : (decide (x ≥ 48) && decide (x ≤ 57)) = true := by simp; omega
    have e2 : (x + 256 - 48) % 256 = x - 48 := by omega
    simp only [e1, if_true, h1, and_self, e2, Nat.shiftLeft_eq, Codec.U64]
    by_cases hr : res / 2 ^ 60 = 0 <;> simp [hr]
  · have e1 : (decide (x ≥ 48) && decide (x ≤ 57)) = false := by simp; omega
    simp only [e1, Bool.false_eq_true, if_false, h1]
    by_cases h2 : 97 ≤ x ∧ x ≤ 102
    · have e3 : (decide (x ≥ 97) && decide (x ≤ 102)) = true := by simp; omega
      have e4 : ((x + 256 - 97) % 256 + 10) % 256 = x - 97 + 10 := by omega
      simp only [e3, if_true, h2, and_self, e4, Nat.shiftLeft_eq, Codec.U64]
      by_cases hr : res / 2 ^ 60 = 0 <;> simp [hr]
    · have e3 : (decide (x ≥ 97) && decide (x ≤ 102)) = false := by simp; omega
      simp only [e3, Bool.false_eq_true, if_false, h2]
      by_cases h3 : 65 ≤ x ∧ x ≤ 70
      · have e5 : (decide (x ≥ 65) && decide (x ≤ 70)) = true := by simp; omega
        have e6 : ((x + 256 - 65) % 256 + 10) % 256 = x - 65 + 10 := by omega
        simp only [e5, if_true, h3, and_self, e6, Nat.shiftLeft_eq, Codec.U64]
        by_cases hr : res / 2 ^ 60 = 0 <;> simp [hr]
      · have e5 : (decide (x ≥ 65) && decide (x ≤ 70)) = false := by simp; omega
        simp only [e5, Bool.false_eq_true, if_false, h3]

theorem hexDecode_loop (b : List Nat) : ∀ (l : List Nat) (res : Nat),
    hexDecode.loop1 b l res = match Codec.decodeLoop l res with
      | .ok r => Ctl.next r
      | _ => Ctl.ret Res.err
  | [], res => rfl
  | x :: rest, res => by
    unfold hexDecode.loop1 Codec.decodeLoop
    rw [hexDecode_body]
    cases hexDigitVal x with
    | none => rfl
    | some nib =>
      by_cases hr : res / 2 ^ 60 ≠ 0
      · simp only [if_pos hr]
      · simp only [if_neg hr]
        exact hexDecode_loop b rest _

/-- the model's loop only ever answers a value or an error -/
theorem decodeLoop_cases : ∀ (l : List Nat) (res : Nat),
    (∃ r, Codec.decodeLoop l res = .ok r) ∨ Codec.decodeLoop l res = .err
  | [], res => Or.inl ⟨res, rfl⟩
  | x :: rest, res => by
    unfold Codec.decodeLoop
    cases hexDigitVal x with
    | none => exact Or.inr rfl
    | some nib =>
      by_cases hr : res / 2 ^ 60 ≠ 0
      · exact Or.inr (if_pos hr)
      · simp only [if_neg hr]; exact decodeLoop_cases rest _

/-- **hexDecode_eq** (C17): the translated `eth.decode` is the model's nibble loop, on every byte string -/
theorem hexDecode_eq (b : List Nat) : Gen.Code.hexDecode b = Codec.decode b := by
  unfold Gen.Code.hexDecode Codec.decode
  simp only [hexDecode_loop]
  rcases decodeLoop_cases b 0 with ⟨r, h⟩ | h <;> rw [h]

/-! ### dig.filterResults -/

def toFrs (fr : Rec_filterResults) : Row.Frs := { kind := fr.kind, set := fr.set, val := fr.val }

/-- **frsAdd_eq / frsAccept_eq** (C12): the translated and/or accumulator is the model's -/
theorem frsAdd_eq (fr : Rec_filterResults) (b : Bool) : toFrs (frsAdd fr b) = (toFrs fr).add b := by
  unfold frsAdd Row.Frs.add toFrs
  cases hs : fr.set <;> simp [hs]
  by_cases hk : fr.kind = "and" <;> simp [hk]

theorem frsAccept_eq (fr : Rec_filterResults) : frsAccept fr = (toFrs fr).accept := by
  unfold frsAccept Row.Frs.accept toFrs
  cases fr.set <;> simp

/-! non-vacuity: the hypothesis of `safe_eq` is satisfiable -/
example : UnicodeAs (fun _ => false) (fun c => c < 128 && Safe.asciiLetter c) (fun c => c < 128 && Safe.asciiDigit c) :=
  ⟨fun c hc => by simp [hc], fun c hc => by
    have : ¬ c < 128 := by omega
    simp [this]⟩
example : Gen.Code.bintDecode [1, 0] = 256 := by decide +kernel
example : Gen.Code.bintSize 9 (2 ^ 64 - 1) = 8 := by decide +kernel
example : Gen.Code.hexDecode [49, 70] = Res.ok 31 := by decide +kernel

end Shovel.Code

#print axioms Shovel.Code.safe_eq
#print axioms Shovel.Code.bintDecode_eq
#print axioms Shovel.Code.bintSize_eq
#print axioms Shovel.Code.hexDecode_eq
#print axioms Shovel.Code.frsAdd_eq
#print axioms Shovel.Code.frsAccept_eq
