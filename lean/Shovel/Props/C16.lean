import Shovel.Model.Schema
import Shovel.Gen.Routes
/-
  C16: schema generation (AddRequiredFields / AddUniqueIndex / union / ValidateColRefs).
  All proofs go through the GENERATED tables `Shovel.Gen.Config.required` and
  `Shovel.Gen.Config.possible` (membership facts are closed by `decide`).
-/
namespace Shovel.Schema
open Shovel.Gen.Config

def blockNames (ig : Ig) : List String := ig.block.map (·.1)

/-! ### `addField` -/

/-- `ig'` extends `ig`: same selected inputs / unique, more block fields and columns. -/
def Ext (ig ig' : Ig) : Prop :=
  ig'.selInputs = ig.selInputs ∧ ig'.unique = ig.unique ∧
  (∀ p ∈ ig.block, p ∈ ig'.block) ∧ (∀ c ∈ ig.cols, c ∈ ig'.cols)

theorem Ext.refl (ig : Ig) : Ext ig ig := ⟨rfl, rfl, fun _ h => h, fun _ h => h⟩

theorem Ext.trans {a b c : Ig} (h₁ : Ext a b) (h₂ : Ext b c) : Ext a c :=
  ⟨h₂.1.trans h₁.1, h₂.2.1.trans h₁.2.1, fun p hp => h₂.2.2.1 p (h₁.2.2.1 p hp),
   fun x hx => h₂.2.2.2 x (h₁.2.2.2 x hx)⟩

theorem addField_ext (ig : Ig) (n : String) : Ext ig (addField ig n) := by
  unfold addField
  by_cases hb : ig.block.any (·.1 == n) = true <;> by_cases hc : ig.cols.contains n = true <;>
    simp only [hb, hc, if_true, if_false, Bool.false_eq_true] <;>
    refine ⟨rfl, rfl, ?_, ?_⟩ <;> intro x hx <;> simp [hx]

theorem addField_block (ig : Ig) (n : String) : n ∈ blockNames (addField ig n) := by
  unfold addField blockNames
  by_cases hb : ig.block.any (·.1 == n) = true <;> by_cases hc : ig.cols.contains n = true <;>
    simp only [hb, hc, if_true, if_false, Bool.false_eq_true]
  all_goals first
    | (simp only [List.any_eq_true, beq_iff_eq] at hb
       obtain ⟨p, hp, rfl⟩ := hb
       exact List.mem_map.2 ⟨p, hp, rfl⟩)
    | simp

theorem addField_cols (ig : Ig) (n : String) : n ∈ (addField ig n).cols := by
  unfold addField
  by_cases hb : ig.block.any (·.1 == n) = true <;> by_cases hc : ig.cols.contains n = true <;>
    simp only [hb, hc, if_true, if_false, Bool.false_eq_true]
  all_goals first
    | exact List.contains_iff_mem.1 hc
    | simp

/-! ### guards -/

theorem guard_mono {ig ig' : Ig} (h : Ext ig ig') (g : String) (hg : guardHolds ig g = true) :
    guardHolds ig' g = true := by
  unfold guardHolds at hg ⊢
  rw [h.1]
  split
  · rfl
  · rename_i h0; simp only [h0, if_false, Bool.false_eq_true] at hg
    split
    · rename_i h1; simpa only [h1, if_true] using hg
    · rename_i h1; simp only [h1, if_false, Bool.false_eq_true] at hg
      split
      · rename_i h2; simpa only [h2, if_true] using hg
      · rename_i h2; simp only [h2, if_false, Bool.false_eq_true] at hg
        split
        · rename_i h3; simp only [h3, if_true] at hg
          rw [List.any_eq_true] at hg ⊢
          obtain ⟨p, hp, hpt⟩ := hg
          exact ⟨p, h.2.2.1 p hp, hpt⟩
        · rename_i h3; simp only [h3, if_false, Bool.false_eq_true] at hg

/-- one step of the `AddRequiredFields` fold -/
def step (ig : Ig) (r : String × String × String) : Ig :=
  if guardHolds ig r.2.2 then addField ig r.1 else ig

theorem step_ext (ig : Ig) (r : String × String × String) : Ext ig (step ig r) := by
  unfold step; split
  · exact addField_ext ig r.1
  · exact Ext.refl ig

theorem foldl_ext (l : List (String × String × String)) (ig : Ig) : Ext ig (l.foldl step ig) := by
  induction l generalizing ig with
  | nil => exact Ext.refl ig
  | cons r l ih => exact (step_ext ig r).trans (ih _)

theorem mem_blockNames_of_ext {ig ig' : Ig} (h : Ext ig ig') {n : String}
    (hn : n ∈ blockNames ig) : n ∈ blockNames ig' := by
  unfold blockNames at *
  obtain ⟨p, hp, rfl⟩ := List.mem_map.1 hn
  exact List.mem_map.2 ⟨p, h.2.2.1 p hp, rfl⟩

/-- every `add` call of the table whose guard holds on the input ends up as block field and column -/
theorem foldl_adds (l : List (String × String × String)) (ig : Ig) (r : String × String × String)
    (hr : r ∈ l) (hg : guardHolds ig r.2.2 = true) :
    r.1 ∈ blockNames (l.foldl step ig) ∧ r.1 ∈ (l.foldl step ig).cols := by
  induction l generalizing ig with
  | nil => cases hr
  | cons a l ih =>
    rw [List.foldl_cons]
    rcases List.mem_cons.1 hr with rfl | hr
    · have hs : step ig r = addField ig r.1 := by unfold step; rw [if_pos hg]
      have he := foldl_ext l (step ig r)
      rw [hs] at he ⊢
      exact ⟨mem_blockNames_of_ext he (addField_block ig r.1), he.2.2.2 _ (addField_cols ig r.1)⟩
    · exact ih _ hr (guard_mono (step_ext ig a) _ hg)

theorem addRequired_eq (ig : Ig) : addRequired ig = required.foldl step ig := rfl

theorem addRequired_ext (ig : Ig) : Ext ig (addRequired ig) := foldl_ext _ _

/-! ### identity_added -/

/-- **identity_added** (C16): AddRequiredFields adds the identity fields of the integration's
    shape as block fields AND as table columns. -/
theorem identity_added (ig : Ig) :
    let ig' := addRequired ig
    (∀ n ∈ ["ig_name", "src_name", "block_num", "tx_idx"], n ∈ blockNames ig' ∧ n ∈ ig'.cols) ∧
    (ig.selInputs ≠ [] → "log_idx" ∈ blockNames ig' ∧ "log_idx" ∈ ig'.cols) ∧
    ((∃ p ∈ ig.selInputs, p.1 = false) → "abi_idx" ∈ blockNames ig' ∧ "abi_idx" ∈ ig'.cols) ∧
    ((∃ p ∈ ig.block, p.1.startsWith "trace_" = true) → "trace_action_idx" ∈ blockNames ig' ∧ "trace_action_idx" ∈ ig'.cols) ∧
    (∀ c ∈ ig.cols, c ∈ ig'.cols) ∧ (∀ p ∈ ig.block, p ∈ ig'.block) ∧ ig'.selInputs = ig.selInputs := by
  intro ig'
  have hext : Ext ig ig' := addRequired_ext ig
  refine ⟨?_, ?_, ?_, ?_, hext.2.2.2, hext.2.2.1, hext.1⟩
  · intro n hn
    simp only [List.mem_cons, List.not_mem_nil, or_false] at hn
    rcases hn with rfl | rfl | rfl | rfl
    · exact foldl_adds required ig ("ig_name", "text", "") (by decide) (by simp [guardHolds])
    · exact foldl_adds required ig ("src_name", "text", "") (by decide) (by simp [guardHolds])
    · exact foldl_adds required ig ("block_num", "numeric", "") (by decide) (by simp [guardHolds])
    · exact foldl_adds required ig ("tx_idx", "int", "") (by decide) (by simp [guardHolds])
  · intro hs
    refine foldl_adds required ig ("log_idx", "int", "if:len(ig.Event.Selected()) > 0") (by decide) ?_
    cases h : ig.selInputs with
    | nil => exact absurd h hs
    | cons a l => simp [guardHolds, h]
  · rintro ⟨p, hp, hpf⟩
    refine foldl_adds required ig
      ("abi_idx", "int2", "range:ig.Event.Selected() if:!inp.Indexed") (by decide) ?_
    have : ig.selInputs.any (fun p => !p.1) = true :=
      List.any_eq_true.2 ⟨p, hp, by simp [hpf]⟩
    simp [guardHolds, this]
  · rintro ⟨p, hp, hpt⟩
    refine foldl_adds required ig
      ("trace_action_idx", "int2", "range:ig.Block if:strings.HasPrefix(bd.Name, \"trace_\")")
      (by decide) ?_
    have : ig.block.any (fun p => p.1.startsWith "trace_") = true :=
      List.any_eq_true.2 ⟨p, hp, hpt⟩
    simp [guardHolds, this]

/-! ### ValidateColRefs -/

theorem colRefsOK_iff (ig : Ig) : colRefsOK ig = true ↔
    (ig.cols.eraseDups.length = ig.cols.length ∧
     (∀ p ∈ ig.selInputs, p.2 ∈ ig.cols) ∧
     (∀ p ∈ ig.block, p.2.isEmpty = false ∧ p.2 ∈ ig.cols) ∧
     (∀ c ∈ ig.notify, c ∈ ig.cols)) := by
  unfold colRefsOK
  simp only [Bool.and_eq_true, List.all_eq_true, List.contains_iff_mem, beq_iff_eq,
    Bool.not_eq_true', and_assoc]

/-- **columns_exist** (C16): a configuration accepted by ValidateColRefs has a table column for
    every column the integration writes and for every notification column. -/
theorem columns_exist (ig : Ig) (h : colRefsOK ig = true) :
    (∀ c ∈ written ig, c ∈ ig.cols) ∧ (∀ c ∈ ig.notify, c ∈ ig.cols) := by
  obtain ⟨_, hs, hb, hn⟩ := (colRefsOK_iff ig).1 h
  refine ⟨?_, hn⟩
  intro c hc
  unfold written at hc
  rcases List.mem_append.1 hc with hc | hc
  · obtain ⟨p, hp, rfl⟩ := List.mem_map.1 hc; exact hs p hp
  · obtain ⟨p, hp, rfl⟩ := List.mem_map.1 hc; exact (hb p hp).2

/-- **rejects_missing** (C16): a configuration that lacks a column for a selected input, a block
    field or a notification column (or has an empty block column name) is rejected. -/
theorem rejects_missing (ig : Ig)
    (h : (∃ p ∈ ig.selInputs, p.2 ∉ ig.cols) ∨ (∃ p ∈ ig.block, p.2 ∉ ig.cols ∨ p.2 = "") ∨ (∃ c ∈ ig.notify, c ∉ ig.cols)) :
    colRefsOK ig = false := by
  cases hok : colRefsOK ig with
  | false => rfl
  | true =>
    exfalso
    obtain ⟨_, hs, hb, hn⟩ := (colRefsOK_iff ig).1 hok
    rcases h with ⟨p, hp, hm⟩ | ⟨p, hp, hm | he⟩ | ⟨c, hc, hm⟩
    · exact hm (hs p hp)
    · exact hm (hb p hp).2
    · have := (hb p hp).1
      rw [he] at this
      exact absurd this (by decide)
    · exact hm (hn c hc)

/-- shared tables get the union of the columns -/
theorem union_covers (a b : List String) : ∀ c, (c ∈ a ∨ c ∈ b) → c ∈ union a b := by
  intro c hc
  unfold union
  by_cases ha : c ∈ a
  · exact List.mem_append.2 (Or.inl ha)
  · rcases hc with hc | hc
    · exact absurd hc ha
    · refine List.mem_append.2 (Or.inr (List.mem_filter.2 ⟨hc, ?_⟩))
      simp [ha]

/-! ### key_separates -/

theorem any_of_mem_blockNames {ig : Ig} {n : String} (h : n ∈ blockNames ig) :
    ig.block.any (·.1 == n) = true := by
  unfold blockNames at h
  obtain ⟨p, hp, rfl⟩ := List.mem_map.1 h
  exact List.any_eq_true.2 ⟨p, hp, by simp⟩

/-- `AddUniqueIndex` on an integration without a user-defined unique index and with an
    `ig_name` column: the key is the generated `possible` list filtered by the table columns. -/
theorem addUnique_eq (ig : Ig) (hu : ig.unique = []) (hc : "ig_name" ∈ ig.cols) :
    addUnique ig = { ig with unique := [possible.filter ig.cols.contains] } := by
  have hmem : "ig_name" ∈ possible.filter ig.cols.contains :=
    List.mem_filter.2 ⟨by decide, List.contains_iff_mem.2 hc⟩
  have hne : (possible.filter ig.cols.contains).isEmpty = false := by
    cases hf : possible.filter ig.cols.contains with
    | nil => rw [hf] at hmem; cases hmem
    | cons a l => rfl
  unfold addUnique
  simp only [hu, List.isEmpty_nil, Bool.not_true, Bool.false_eq_true, if_false, hne]

theorem keyCol_congr {ig ig₂ : Ig} (h : ig₂.block = ig.block) (src n igName : String) (r : RowId) :
    keyCol ig₂ src n igName r = keyCol ig src n igName r := by
  unfold keyCol; rw [h]

section
variable {ig : Ig} (src igName : String) (r : RowId)

theorem keyCol_ig_name (h : "ig_name" ∈ blockNames ig) :
    keyCol ig src "ig_name" igName r = some (.s igName) := by
  simp [keyCol, any_of_mem_blockNames h]
theorem keyCol_src_name (h : "src_name" ∈ blockNames ig) :
    keyCol ig src "src_name" igName r = some (.s src) := by
  simp [keyCol, any_of_mem_blockNames h]
theorem keyCol_block_num (h : "block_num" ∈ blockNames ig) :
    keyCol ig src "block_num" igName r = some (.n r.blk) := by
  simp [keyCol, any_of_mem_blockNames h]
theorem keyCol_tx_idx (h : "tx_idx" ∈ blockNames ig) :
    keyCol ig src "tx_idx" igName r = some (.n r.tx) := by
  simp [keyCol, any_of_mem_blockNames h]
theorem keyCol_log_idx (h : "log_idx" ∈ blockNames ig) :
    keyCol ig src "log_idx" igName r = some (.n r.log) := by
  simp [keyCol, any_of_mem_blockNames h]
theorem keyCol_abi_idx (h : "abi_idx" ∈ blockNames ig) :
    keyCol ig src "abi_idx" igName r = some (.n r.abi) := by
  simp [keyCol, any_of_mem_blockNames h]
theorem keyCol_trace (h : "trace_action_idx" ∈ blockNames ig) :
    keyCol ig src "trace_action_idx" igName r = some (.n r.trace) := by
  simp [keyCol, any_of_mem_blockNames h]
end

/-- core of `key_separates`, over an arbitrary result `R` of AddRequiredFields -/
theorem key_core (R : Ig) (src igName : String) (r r' : RowId) (hRu : R.unique = [])
    (hbase : ∀ n ∈ ["ig_name", "src_name", "block_num", "tx_idx"], n ∈ blockNames R ∧ n ∈ R.cols)
    (hlog : r.log = r'.log ∨ ("log_idx" ∈ blockNames R ∧ "log_idx" ∈ R.cols))
    (habi : r.abi = r'.abi ∨ ("abi_idx" ∈ blockNames R ∧ "abi_idx" ∈ R.cols))
    (htrace : r.trace = r'.trace ∨
      ("trace_action_idx" ∈ blockNames R ∧ "trace_action_idx" ∈ R.cols))
    (hown : ∀ c ∈ (addUnique R).unique.headD [], c ∈ blockNames R) :
    (∀ c ∈ (addUnique R).unique.headD [], keyCol (addUnique R) src c igName r ≠ none) ∧
    ((∀ c ∈ (addUnique R).unique.headD [],
        keyCol (addUnique R) src c igName r = keyCol (addUnique R) src c igName r') → r = r') := by
  have hA := addUnique_eq R hRu (hbase "ig_name" (by decide)).2
  have hkc : ∀ c ρ, keyCol (addUnique R) src c igName ρ = keyCol R src c igName ρ := by
    intro c ρ; rw [hA]; exact keyCol_congr rfl src c igName ρ
  have hu' : (addUnique R).unique.headD [] = possible.filter R.cols.contains := by
    rw [hA]; rfl
  rw [hu'] at hown ⊢
  have hmemu : ∀ c, c ∈ possible → c ∈ R.cols → c ∈ possible.filter R.cols.contains :=
    fun c h1 h2 => List.mem_filter.2 ⟨h1, List.contains_iff_mem.2 h2⟩
  refine ⟨?_, ?_⟩
  · intro c hc
    have hb := hown c hc
    have hp : c ∈ possible := (List.mem_filter.1 hc).1
    rw [hkc]
    simp only [possible, List.mem_cons, List.not_mem_nil, or_false] at hp
    rcases hp with rfl | rfl | rfl | rfl | rfl | rfl | rfl
    · rw [keyCol_ig_name _ _ _ hb]; exact Option.some_ne_none _
    · rw [keyCol_src_name _ _ _ hb]; exact Option.some_ne_none _
    · rw [keyCol_block_num _ _ _ hb]; exact Option.some_ne_none _
    · rw [keyCol_tx_idx _ _ _ hb]; exact Option.some_ne_none _
    · rw [keyCol_log_idx _ _ _ hb]; exact Option.some_ne_none _
    · rw [keyCol_abi_idx _ _ _ hb]; exact Option.some_ne_none _
    · rw [keyCol_trace _ _ _ hb]; exact Option.some_ne_none _
  · intro hagree
    have hblk : r.blk = r'.blk := by
      obtain ⟨hb, hc⟩ := hbase "block_num" (by decide)
      have := hagree _ (hmemu _ (by decide) hc)
      rw [hkc, hkc, keyCol_block_num _ _ _ hb, keyCol_block_num _ _ _ hb] at this
      exact KeyVal.n.inj (Option.some.inj this)
    have htx : r.tx = r'.tx := by
      obtain ⟨hb, hc⟩ := hbase "tx_idx" (by decide)
      have := hagree _ (hmemu _ (by decide) hc)
      rw [hkc, hkc, keyCol_tx_idx _ _ _ hb, keyCol_tx_idx _ _ _ hb] at this
      exact KeyVal.n.inj (Option.some.inj this)
    have hlg : r.log = r'.log := by
      rcases hlog with h | ⟨hb, hc⟩
      · exact h
      · have := hagree _ (hmemu _ (by decide) hc)
        rw [hkc, hkc, keyCol_log_idx _ _ _ hb, keyCol_log_idx _ _ _ hb] at this
        exact KeyVal.n.inj (Option.some.inj this)
    have hab : r.abi = r'.abi := by
      rcases habi with h | ⟨hb, hc⟩
      · exact h
      · have := hagree _ (hmemu _ (by decide) hc)
        rw [hkc, hkc, keyCol_abi_idx _ _ _ hb, keyCol_abi_idx _ _ _ hb] at this
        exact KeyVal.n.inj (Option.some.inj this)
    have htr : r.trace = r'.trace := by
      rcases htrace with h | ⟨hb, hc⟩
      · exact h
      · have := hagree _ (hmemu _ (by decide) hc)
        rw [hkc, hkc, keyCol_trace _ _ _ hb, keyCol_trace _ _ _ hb] at this
        exact KeyVal.n.inj (Option.some.inj this)
    cases r; cases r'
    simp only at hblk htx hlg hab htr
    subst hblk htx hlg hab htr
    rfl

/-- **key_separates** (C16): with the generated unique key, when every key column is a field the
    integration itself writes (`hown`: no foreign identity column, e.g. from a differently shaped
    integration sharing the table), two emitted rows that agree on all key columns come from the
    same item, and every key column of an emitted row is non-NULL (so re-emitting the same block
    collides). Row identities use 0 for the components their shape does not have. -/
theorem key_separates (ig : Ig) (src igName : String) (hu : ig.unique = [])
    (r r' : RowId)
    (hshape : (ig.selInputs = [] → r.log = 0 ∧ r'.log = 0) ∧
              ((∀ p ∈ ig.selInputs, p.1 = true) → r.abi = 0 ∧ r'.abi = 0) ∧
              ((∀ p ∈ ig.block, p.1.startsWith "trace_" = false) → r.trace = 0 ∧ r'.trace = 0))
    (hown : ∀ c ∈ (addUnique (addRequired ig)).unique.headD [], c ∈ blockNames (addRequired ig)) :
    let ig' := addUnique (addRequired ig)
    let u := ig'.unique.headD []
    (∀ c ∈ u, keyCol ig' src c igName r ≠ none) ∧
    ((∀ c ∈ u, keyCol ig' src c igName r = keyCol ig' src c igName r') → r = r') := by
  obtain ⟨hbase, hlog, habi, htrace, _, _, _⟩ := identity_added ig
  have hRu : (addRequired ig).unique = [] := (addRequired_ext ig).2.1.trans hu
  refine key_core (addRequired ig) src igName r r' hRu hbase ?_ ?_ ?_ hown
  · by_cases hs : ig.selInputs = []
    · obtain ⟨h1, h2⟩ := hshape.1 hs; exact Or.inl (h1.trans h2.symm)
    · exact Or.inr (hlog hs)
  · by_cases hs : ∀ p ∈ ig.selInputs, p.1 = true
    · obtain ⟨h1, h2⟩ := hshape.2.1 hs; exact Or.inl (h1.trans h2.symm)
    · refine Or.inr (habi ?_)
      apply Classical.byContradiction
      intro hno
      apply hs
      intro p hp
      cases hp1 : p.1 with
      | true => rfl
      | false => exact absurd ⟨p, hp, hp1⟩ hno
  · by_cases hs : ∀ p ∈ ig.block, p.1.startsWith "trace_" = false
    · obtain ⟨h1, h2⟩ := hshape.2.2 hs; exact Or.inl (h1.trans h2.symm)
    · refine Or.inr (htrace ?_)
      apply Classical.byContradiction
      intro hno
      apply hs
      intro p hp
      cases hp1 : p.1.startsWith "trace_" with
      | false => rfl
      | true => exact absurd ⟨p, hp, hp1⟩ hno

/-! ### non-vacuity -/

/-- an ERC-20 Transfer-like integration selecting `to` (indexed) and `value` (not indexed) -/
def transferIg : Ig :=
  { block := [("block_time", "block_time")]
    cols := ["ev_to", "ev_value", "block_time"]
    selInputs := [(true, "ev_to"), (false, "ev_value")] }

example : (addUnique (addRequired transferIg)).unique =
    [["ig_name", "src_name", "block_num", "tx_idx", "log_idx", "abi_idx"]] := by decide +kernel

example : colRefsOK (addUnique (addRequired transferIg)) = true := by decide +kernel

/-- `hown` of `key_separates` holds for the Transfer integration -/
theorem transfer_hown : ∀ c ∈ (addUnique (addRequired transferIg)).unique.headD [],
    c ∈ blockNames (addRequired transferIg) := by decide +kernel

/-- `key_separates` instantiated: all hypotheses are satisfiable by a real integration -/
example (r r' : RowId) (ht : r.trace = 0 ∧ r'.trace = 0)
    (hagree : ∀ c ∈ (addUnique (addRequired transferIg)).unique.headD [],
      keyCol (addUnique (addRequired transferIg)) "mainnet" c "erc20" r =
      keyCol (addUnique (addRequired transferIg)) "mainnet" c "erc20" r') : r = r' :=
  (key_separates transferIg "mainnet" "erc20" rfl r r'
    ⟨fun h => absurd h (by decide), fun h => absurd h (by decide), fun _ => ht⟩
    transfer_hown).2 hagree

/-- a transaction-shaped integration (no event) writing into the table shared with `transferIg`:
    the shared table already has the `log_idx` / `abi_idx` columns of the other shape -/
def txSharedIg : Ig :=
  { block := [("tx_hash", "tx_hash")]
    cols := union ["tx_hash"] (addRequired transferIg).cols
    selInputs := [] }

example : "log_idx" ∈ txSharedIg.cols := by decide +kernel

/-- the generated key of the tx-shaped integration contains the foreign `log_idx`/`abi_idx` -/
example : (addUnique (addRequired txSharedIg)).unique =
    [["ig_name", "src_name", "block_num", "tx_idx", "log_idx", "abi_idx"]] := by decide +kernel

/-- ... so `hown` FAILS for it ... -/
example : ¬ (∀ c ∈ (addUnique (addRequired txSharedIg)).unique.headD [],
    c ∈ blockNames (addRequired txSharedIg)) := by decide +kernel

/-- ... and the key column `log_idx` of every row it emits is NULL (mixed-shape shared table):
    the conclusion of `key_separates` is false there, i.e. `hown` is needed. -/
example : keyCol (addUnique (addRequired txSharedIg)) "mainnet" "log_idx" "txs" ⟨1, 2, 0, 0, 0⟩ = none := by
  decide +kernel

example : ¬ (∀ c ∈ (addUnique (addRequired txSharedIg)).unique.headD [],
    keyCol (addUnique (addRequired txSharedIg)) "mainnet" c "txs" ⟨1, 2, 0, 0, 0⟩ ≠ none) := by
  decide +kernel

/-- a trace-shaped integration gets `trace_action_idx` in its key -/
example : (addUnique (addRequired
      { block := [("trace_action_value", "v")], cols := ["v"], selInputs := [] })).unique =
    [["ig_name", "src_name", "block_num", "tx_idx", "trace_action_idx"]] := by decide +kernel

/-- ValidateColRefs rejects a selected input without a column -/
example : colRefsOK { transferIg with cols := ["ev_to", "block_time"] } = false := by decide +kernel

/-- **print_schema_is_ddl** (C16): the schema the program PRINTS (`shovel -print-schema`, the route taken with
    `-skip-migrate`) is what `config.DDL` computes for the whole configuration — the merged definitions
    `union_covers` is about — and nothing else: the flag's block ranges over exactly that expression. -/
theorem print_schema_is_ddl : Shovel.Gen.Routes.printSchemaRanges = ["config.DDL(conf)"] := by decide +kernel

end Shovel.Schema
