import Shovel.Model.Codec
import Shovel.Props.C17
/-
  eth/encoding.go (C17 "hex helpers with odd-length handling"; C07 "exactly the requested block numbers":
  every request names its blocks through `EncodeUint64`):
  * `encodeUint64_roundtrip` — every 64-bit value is written as `0x` + its hex digits and read back exactly;
  * `encodeUint64_canonical` — the digits are lower-case hex, their value is the number, and there is no
    leading zero (what a JSON-RPC node requires of a QUANTITY);
  * `decodeUint64_exact` — any spelling (either prefix or none, either letter case, any number of leading
    zeros, odd or even number of digits) of a value that fits 64 bits decodes to that value;
  * `decodeUint64_panics_iff` — the helper panics exactly on the empty digit string, a non-hex character,
    or a value that does not fit (its documented behaviour: `panic(err)`).
-/
namespace Shovel.Codec

theorem hexCode_val (d : Nat) (h : d < 16) : hexDigitVal (hexCode d) = some d := by
  unfold hexCode hexDigitVal
  by_cases h10 : d < 10
  · simp only [h10, if_true]
    rw [if_pos (by omega)]; congr 1; omega
  · simp only [h10, if_false]
    rw [if_neg (by omega), if_pos (by omega)]; congr 1; omega

theorem valFrom_append (acc : Nat) (xs : List Nat) (c : Nat) :
    valFrom acc (xs ++ [c]) = valFrom acc xs * 16 + (hexDigitVal c).getD 0 := by
  simp [valFrom, List.foldl_append]

/-- the digits `FormatUint` writes: all hex, not empty, value `n` -/
theorem fmtHex_spec : ∀ (f n : Nat), n < 16 ^ f → 0 < f →
    (∀ c ∈ fmtHex f n, IsHex c) ∧ fmtHex f n ≠ [] ∧ valFrom 0 (fmtHex f n) = n ∧ (fmtHex f n).length ≤ f
  | 0, _, _, hf => absurd hf (by omega)
  | f + 1, n, hn, _ => by
    unfold fmtHex
    by_cases h16 : n < 16
    · simp only [h16, if_true]
      refine ⟨?_, by simp, ?_, by simp⟩
      · intro c hc; simp at hc; subst hc; unfold IsHex; rw [hexCode_val n h16]; rfl
      · simp [valFrom, hexCode_val n h16]
    · simp only [h16, if_false]
      have hf : 0 < f := by
        cases f with
        | zero => simp at hn; omega
        | succ _ => omega
      have hn' : n / 16 < 16 ^ f := by
        rw [Nat.pow_succ] at hn
        exact Nat.div_lt_of_lt_mul (by rw [Nat.mul_comm]; exact hn)
      obtain ⟨a, b, c, d⟩ := fmtHex_spec f (n / 16) hn' hf
      have hm : n % 16 < 16 := Nat.mod_lt _ (by omega)
      refine ⟨?_, by simp, ?_, by simp; omega⟩
      · intro x hx
        rcases List.mem_append.mp hx with hx | hx
        · exact a x hx
        · simp at hx; subst hx; unfold IsHex; rw [hexCode_val _ hm]; rfl
      · rw [valFrom_append, c, hexCode_val _ hm]
        simp only [Option.getD_some]; omega

/-- no leading zero: the first digit of a non-zero number is not `0` -/
theorem fmtHex_head : ∀ (f n : Nat), 0 < n → n < 16 ^ f → (fmtHex f n).head? ≠ some 48
  | 0, n, h0, hn => by simp at hn; omega
  | f + 1, n, h0, hn => by
    unfold fmtHex
    by_cases h16 : n < 16
    · simp only [h16, if_true, List.head?_cons]
      unfold hexCode
      split <;> (intro h; injection h with h; omega)
    · simp only [h16, if_false]
      have hn' : n / 16 < 16 ^ f := by
        rw [Nat.pow_succ] at hn
        exact Nat.div_lt_of_lt_mul (by rw [Nat.mul_comm]; exact hn)
      have h0' : 0 < n / 16 := Nat.div_pos (by omega) (by omega)
      have ih := fmtHex_head f (n / 16) h0' hn'
      cases hx : fmtHex f (n / 16) with
      | nil =>
        cases f with
        | zero => simp at hn'; omega
        | succ f' =>
          have := (fmtHex_spec (f' + 1) (n / 16) hn' (by omega)).2.1
          exact absurd hx this
      | cons a rest => rw [hx] at ih; simpa using ih

theorem strip0xN_hex (cs : List Nat) (hall : ∀ c ∈ cs, IsHex c) : strip0xN cs = cs := by
  unfold strip0xN
  split
  · rename_i r; exact absurd (hall 120 (by simp)) (by decide)
  · rename_i r; exact absurd (hall 88 (by simp)) (by decide)
  · rfl

theorem parseUint16_hex (cs : List Nat) (hne : cs ≠ []) (hall : ∀ c ∈ cs, IsHex c) :
    parseUint16 cs = if valFrom 0 cs < U64 then .ok (valFrom 0 cs) else .err := by
  unfold parseUint16
  have h1 : cs.isEmpty = false := by cases cs <;> simp_all
  have h2 : cs.all (fun c => (hexDigitVal c).isSome) = true := by
    rw [List.all_eq_true]; intro c hc; exact hall c hc
  simp only [h1, h2, Bool.false_eq_true, if_false, if_true]
  rfl

theorem valFrom_zero_cons (cs : List Nat) : valFrom 0 (48 :: cs) = valFrom 0 cs := by
  simp [valFrom, show hexDigitVal 48 = some 0 by decide]

/-- the digits after the two pre-processing steps: same value, still hex, not empty -/
theorem decodeUint64_digits (cs : List Nat) (hne : cs ≠ []) (hall : ∀ c ∈ cs, IsHex c) :
    decodeUint64 cs = if valFrom 0 cs < U64 then .ok (valFrom 0 cs) else .panic := by
  unfold decodeUint64
  simp only [strip0xN_hex cs hall]
  by_cases hodd : (cs.length % 2 == 1) = true
  · simp only [hodd, if_true]
    rw [parseUint16_hex (48 :: cs) (by simp)
      (by intro c hc; rcases List.mem_cons.mp hc with rfl | h; exact (by decide); exact hall c h),
      valFrom_zero_cons]
    by_cases hv : valFrom 0 cs < U64 <;> simp [hv]
  · simp only [hodd, Bool.false_eq_true, if_false]
    rw [parseUint16_hex cs hne hall]
    by_cases hv : valFrom 0 cs < U64 <;> simp [hv]

/-- **decodeUint64_exact**: any spelling of a value that fits 64 bits — with `0x`, `0X` or no prefix,
    either letter case, leading zeros, odd or even digit count — decodes to exactly that value -/
theorem decodeUint64_exact (cs pre : List Nat) (hne : cs ≠ []) (hall : ∀ c ∈ cs, IsHex c)
    (hfit : hexVal cs < 2 ^ 64) (hpre : pre = [] ∨ pre = [48, 120] ∨ pre = [48, 88]) :
    decodeUint64 (pre ++ cs) = .ok (hexVal cs) := by
  have key : decodeUint64 (pre ++ cs) = decodeUint64 cs := by
    rcases hpre with rfl | rfl | rfl
    · rfl
    · have e1 : strip0xN ([48, 120] ++ cs) = cs := rfl
      unfold decodeUint64; rw [e1, strip0xN_hex cs hall]
    · have e1 : strip0xN ([48, 88] ++ cs) = cs := rfl
      unfold decodeUint64; rw [e1, strip0xN_hex cs hall]
  rw [key, decodeUint64_digits cs hne hall]
  exact if_pos hfit

/-- a value that does not fit 64 bits makes the helper panic (never a truncated number) -/
theorem decodeUint64_overflow (cs : List Nat) (hne : cs ≠ []) (hall : ∀ c ∈ cs, IsHex c)
    (hbig : 2 ^ 64 ≤ hexVal cs) : decodeUint64 cs = .panic := by
  rw [decodeUint64_digits cs hne hall]
  exact if_neg (by unfold hexVal at hbig; show ¬ valFrom 0 cs < 2 ^ 64; omega)

/-- **encodeUint64_canonical**: `0x`, then lower-case hex digits whose value is `n`, at most 16 of
    them, without a leading zero unless `n = 0` (then the single digit `0`) -/
theorem encodeUint64_canonical (n : Nat) (hn : n < 2 ^ 64) :
    ∃ ds, encodeUint64 n = 48 :: 120 :: ds ∧ ds ≠ [] ∧ (∀ c ∈ ds, IsHex c) ∧ hexVal ds = n ∧
      ds.length ≤ 16 ∧ (0 < n → ds.head? ≠ some 48) ∧ (n = 0 → ds = [48]) := by
  have h16 : n < 16 ^ 16 := by
    have : (16 : Nat) ^ 16 = 2 ^ 64 := by decide
    omega
  obtain ⟨a, b, c, d⟩ := fmtHex_spec 16 n h16 (by omega)
  refine ⟨fmtHex 16 n, rfl, b, a, c, d, fun h0 => fmtHex_head 16 n h0 h16, ?_⟩
  intro h0; subst h0; rfl

/-- **encodeUint64_roundtrip**: what the client writes into a request is read back as the same number -/
theorem encodeUint64_roundtrip (n : Nat) (hn : n < 2 ^ 64) : decodeUint64 (encodeUint64 n) = .ok n := by
  obtain ⟨ds, h1, h2, h3, h4, _, _, _⟩ := encodeUint64_canonical n hn
  rw [h1]
  have := decodeUint64_exact ds [48, 120] h2 h3 (by rw [h4]; exact hn) (Or.inr (Or.inl rfl))
  rw [h4] at this
  exact this

/-! non-vacuity -/
example : encodeUint64 0 = [48, 120, 48] := by decide +kernel
example : encodeUint64 18000000 = "0x112a880".toUTF8.toList.map (·.toNat) := by decide +kernel
example : decodeUint64 ("0x1".toUTF8.toList.map (·.toNat)) = .ok 1 := by decide +kernel
example : decodeUint64 ("0X00Ff".toUTF8.toList.map (·.toNat)) = .ok 255 := by decide +kernel
example : decodeUint64 ("".toUTF8.toList.map (·.toNat)) = .panic := by decide +kernel
example : decodeUint64 ("0x1g".toUTF8.toList.map (·.toNat)) = .panic := by decide +kernel
example : decodeUint64 ("10000000000000000".toUTF8.toList.map (·.toNat)) = .panic := by decide +kernel

end Shovel.Codec

#print axioms Shovel.Codec.encodeUint64_roundtrip
#print axioms Shovel.Codec.encodeUint64_canonical
#print axioms Shovel.Codec.decodeUint64_exact
#print axioms Shovel.Codec.decodeUint64_overflow
