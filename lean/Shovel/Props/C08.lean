import Shovel.Model.Cache
/-
  C08 — caches are transparent: same data, bounded reuse, no cached errors; a reported head is
  always a pair the source announced.
-/
namespace Shovel.Cache

/-- the source's answer for a range on an unchanging chain -/
abbrev Truth := Nat × Nat → Nat

/-- every completed segment holds what the source answers for its range -/
def Inv (truth : Truth) (c : Cache) : Prop :=
  (∀ s ∈ c.store, s.done = true → s.data = truth s.key) ∧
  (∀ e ∈ c.map, e.2 < c.store.length ∧ (c.seg e.2).key = e.1)

/-! ### basic facts about `seg`, the two prunes -/

theorem seg_eq (c : Cache) (id : Nat) : c.seg id = c.store[id]?.getD { key := (0, 0) } := by
  simp [Cache.seg, List.getD_eq_getElem?_getD]

theorem seg_congr {c c' : Cache} (h : c'.store = c.store) (id : Nat) : c'.seg id = c.seg id := by
  simp [Cache.seg, h]

theorem seg_mem {c : Cache} {id : Nat} (h : id < c.store.length) : c.seg id ∈ c.store := by
  rw [seg_eq, List.getElem?_eq_getElem h]
  exact List.getElem_mem h

theorem seg_default {c : Cache} {id : Nat} (h : c.store.length ≤ id) :
    c.seg id = { key := (0, 0) } := by
  rw [seg_eq, List.getElem?_eq_none h]; rfl

theorem seg_mem_or_default (c : Cache) (id : Nat) :
    c.seg id ∈ c.store ∨ c.seg id = { key := (0, 0) } := by
  by_cases h : id < c.store.length
  · exact .inl (seg_mem h)
  · exact .inr (seg_default (Nat.le_of_not_lt h))

theorem seg_append_lt {c c' : Cache} {l : List Seg} (hs : c'.store = c.store ++ l) {id : Nat}
    (h : id < c.store.length) : c'.seg id = c.seg id := by
  rw [seg_eq, seg_eq, hs, List.getElem?_append_left h]

theorem seg_append_eq {c c' : Cache} {s : Seg} (hs : c'.store = c.store ++ [s]) :
    c'.seg c.store.length = s := by
  rw [seg_eq, hs]; simp

theorem seg_set_ne {c c' : Cache} {s : Seg} {id j : Nat} (hs : c'.store = c.store.set id s)
    (h : j ≠ id) : c'.seg j = c.seg j := by
  rw [seg_eq, seg_eq, hs, List.getElem?_set_ne (Ne.symm h)]

theorem seg_set_eq {c c' : Cache} {s : Seg} {id : Nat} (hs : c'.store = c.store.set id s)
    (h : id < c.store.length) : c'.seg id = s := by
  rw [seg_eq, hs, List.getElem?_set_self h]; rfl

@[simp] theorem pruneMaxRead_store (c : Cache) : c.pruneMaxRead.store = c.store := rfl
@[simp] theorem pruneMaxRead_maxreads (c : Cache) : c.pruneMaxRead.maxreads = c.maxreads := rfl

theorem mem_pruneMaxRead {c : Cache} {e : (Nat × Nat) × Nat} :
    e ∈ c.pruneMaxRead.map ↔ e ∈ c.map ∧ (c.seg e.2).nreads < c.maxreads := by
  simp [Cache.pruneMaxRead, List.mem_filter]

@[simp] theorem pruneSegments_store (c : Cache) : c.pruneSegments.store = c.store := by
  unfold Cache.pruneSegments; split <;> rfl

@[simp] theorem pruneSegments_maxreads (c : Cache) : c.pruneSegments.maxreads = c.maxreads := by
  unfold Cache.pruneSegments; split <;> rfl

theorem mem_pruneSegments {c : Cache} {e : (Nat × Nat) × Nat} (h : e ∈ c.pruneSegments.map) :
    e ∈ c.map := by
  unfold Cache.pruneSegments at h
  split at h
  · exact h
  · exact (List.mem_filter.1 h).1

/-! ### specification of the two atomic sub-steps -/

theorem lookupStep_found {c : Cache} {key : Nat × Nat} {e : (Nat × Nat) × Nat}
    (hf : c.pruneMaxRead.map.find? (·.1 == key) = some e) :
    c.lookupStep key = (c.pruneMaxRead.pruneSegments, e.2) := by
  simp only [Cache.lookupStep, hf]

theorem lookupStep_new {c : Cache} {key : Nat × Nat}
    (hf : c.pruneMaxRead.map.find? (·.1 == key) = none) :
    c.lookupStep key =
      (({ c.pruneMaxRead with store := c.store ++ [({ key := key } : Seg)],
                              map := c.pruneMaxRead.map ++ [(key, c.store.length)] } : Cache).pruneSegments,
       c.store.length) := by
  simp only [Cache.lookupStep, hf]
  rfl

/-- what `lookupStep` does: either it hands out a segment of the map that has not yet served
    `maxreads` reads (store unchanged), or it appends a fresh segment; the map only shrinks,
    except for the fresh entry. -/
theorem lookupStep_spec (c : Cache) (key : Nat × Nat) :
    (c.lookupStep key).1.maxreads = c.maxreads ∧
    (((c.lookupStep key).1.store = c.store ∧
      (∃ e ∈ c.map, e.1 = key ∧ e.2 = (c.lookupStep key).2 ∧ (c.seg e.2).nreads < c.maxreads) ∧
      (∀ e ∈ (c.lookupStep key).1.map, e ∈ c.map ∧ (c.seg e.2).nreads < c.maxreads)) ∨
     ((c.lookupStep key).1.store = c.store ++ [({ key := key } : Seg)] ∧
      (c.lookupStep key).2 = c.store.length ∧
      (∀ e ∈ c.map, (c.seg e.2).nreads < c.maxreads → e.1 ≠ key) ∧
      (∀ e ∈ (c.lookupStep key).1.map,
        (e ∈ c.map ∧ (c.seg e.2).nreads < c.maxreads) ∨ e = (key, c.store.length)))) := by
  cases hf : c.pruneMaxRead.map.find? (·.1 == key) with
  | some e =>
    have he := List.mem_of_find?_eq_some hf
    have hk := List.find?_some hf
    simp only [beq_iff_eq] at hk
    rw [lookupStep_found hf]
    refine ⟨by simp, .inl ⟨by simp, ⟨e, (mem_pruneMaxRead.1 he).1, hk, rfl, (mem_pruneMaxRead.1 he).2⟩, ?_⟩⟩
    intro e' he'
    exact mem_pruneMaxRead.1 (mem_pruneSegments he')
  | none =>
    rw [lookupStep_new hf]
    refine ⟨by simp, .inr ⟨by simp, rfl, ?_, ?_⟩⟩
    · intro e he hlt hk
      have := List.find?_eq_none.1 hf e (mem_pruneMaxRead.2 ⟨he, hlt⟩)
      simp [hk] at this
    · intro e' he'
      have h1 := mem_pruneSegments he'
      simp only [List.mem_append, List.mem_singleton] at h1
      rcases h1 with h1 | h1
      · exact .inl (mem_pruneMaxRead.1 h1)
      · exact .inr h1

/-- what `readStep` does: it replaces the segment `id` by one with the same key and one more
    read; `done`/`data` change only by a successful fetch. -/
theorem readStep_spec (c : Cache) (id : Nat) (fetch : Option Nat) :
    ∃ s' : Seg, (c.readStep id fetch).1 = { c with store := c.store.set id s' } ∧
      s'.key = (c.seg id).key ∧ s'.nreads = (c.seg id).nreads + 1 ∧
      (((c.seg id).done = true ∧ s'.done = true ∧ s'.data = (c.seg id).data ∧
          (c.readStep id fetch).2 = .hit (c.seg id).data) ∨
       ((c.seg id).done = false ∧ fetch = none ∧ s'.done = false ∧
          (c.readStep id fetch).2 = .err) ∨
       ((c.seg id).done = false ∧ ∃ d, fetch = some d ∧ s'.done = true ∧ s'.data = d ∧
          (c.readStep id fetch).2 = .fetched d)) := by
  unfold Cache.readStep
  cases hd : (c.seg id).done with
  | true =>
    exact ⟨{ c.seg id with nreads := (c.seg id).nreads + 1 }, by simp [hd], rfl, rfl,
      .inl ⟨rfl, by simp [hd], rfl, by simp [hd]⟩⟩
  | false =>
    cases fetch with
    | none =>
      exact ⟨{ c.seg id with nreads := (c.seg id).nreads + 1 }, by simp [hd], rfl, rfl,
        .inr (.inl ⟨rfl, rfl, by simp [hd], by simp [hd]⟩)⟩
    | some d =>
      exact ⟨{ c.seg id with nreads := (c.seg id).nreads + 1, done := true, data := d },
        by simp [hd], rfl, rfl, .inr (.inr ⟨rfl, d, rfl, rfl, rfl, by simp [hd]⟩)⟩

/-! ### seg_transparent -/

/-- **seg_transparent** (C08), lookup half: under the cache lock the invariant is preserved, the
    handle handed out is a live store index whose segment has the requested key, and no handle
    held by another caller is disturbed. -/
theorem lookup_inv (truth : Truth) (c : Cache) (key : Nat × Nat) (h : Inv truth c) :
    Inv truth (c.lookupStep key).1 ∧
    (c.lookupStep key).2 < (c.lookupStep key).1.store.length ∧
    ((c.lookupStep key).1.seg (c.lookupStep key).2).key = key ∧
    c.store.length ≤ (c.lookupStep key).1.store.length ∧
    (∀ id, id < c.store.length → ((c.lookupStep key).1.seg id) = c.seg id) := by
  obtain ⟨hs, hm⟩ := h
  obtain ⟨_, hA | hB⟩ := lookupStep_spec c key
  · obtain ⟨hst, ⟨e, he, hek, hid, _⟩, hmap⟩ := hA
    refine ⟨⟨?_, ?_⟩, ?_, ?_, ?_, ?_⟩
    · rw [hst]; exact hs
    · intro e' he'
      have := hm e' (hmap e' he').1
      rw [hst, seg_congr hst]; exact this
    · rw [← hid, hst]; exact (hm e he).1
    · rw [← hid, seg_congr hst, (hm e he).2, hek]
    · rw [hst]; exact Nat.le_refl _
    · intro id _; exact seg_congr hst id
  · obtain ⟨hst, hid, _, hmap⟩ := hB
    refine ⟨⟨?_, ?_⟩, ?_, ?_, ?_, ?_⟩
    · intro s hsm hd
      rw [hst] at hsm
      rcases List.mem_append.1 hsm with h1 | h1
      · exact hs s h1 hd
      · rw [List.mem_singleton] at h1; subst h1; simp at hd
    · intro e' he'
      rcases hmap e' he' with ⟨h1, _⟩ | h1
      · have := hm e' h1
        rw [seg_append_lt hst this.1, hst, List.length_append]
        exact ⟨Nat.lt_add_right _ this.1, this.2⟩
      · subst h1
        refine ⟨?_, ?_⟩
        · rw [hst]; simp
        · exact congrArg Seg.key (seg_append_eq hst)
    · rw [hid, hst]; simp
    · rw [hid, seg_append_eq hst]
    · rw [hst]; simp
    · intro id hlt; exact seg_append_lt hst hlt

/-- **seg_transparent** (C08), read half: under the segment lock, with a source that may fail but
    never lies, the invariant is preserved, only segment `id` changes (keeping its key), and a read
    that returns data returns the source's data for the segment's range; `.err` is only reported
    when this very fetch failed. -/
theorem read_inv (truth : Truth) (c : Cache) (id : Nat) (fetch : Option Nat) (h : Inv truth c)
    (hid : id < c.store.length) (hf : fetch = none ∨ fetch = some (truth (c.seg id).key)) :
    Inv truth (c.readStep id fetch).1 ∧
    (c.readStep id fetch).1.store.length = c.store.length ∧
    (∀ j, j ≠ id → (c.readStep id fetch).1.seg j = c.seg j) ∧
    ((c.readStep id fetch).1.seg id).key = (c.seg id).key ∧
    (match (c.readStep id fetch).2 with
     | .hit d => d = truth (c.seg id).key
     | .fetched d => d = truth (c.seg id).key
     | .err => fetch = none) := by
  obtain ⟨hs, hm⟩ := h
  obtain ⟨s', heq, hkey, _, hcases⟩ := readStep_spec c id fetch
  have hst : (c.readStep id fetch).1.store = c.store.set id s' := by rw [heq]
  have hmapeq : (c.readStep id fetch).1.map = c.map := by rw [heq]
  have hold : (c.seg id).done = true → (c.seg id).data = truth (c.seg id).key :=
    hs _ (seg_mem hid)
  have hgood : s'.done = true → s'.data = truth s'.key := by
    intro hd
    rcases hcases with ⟨h1, _, h3, _⟩ | ⟨_, _, h3, _⟩ | ⟨_, d, h2, _, h4, _⟩
    · rw [h3, hkey]; exact hold h1
    · rw [h3] at hd; cases hd
    · rcases hf with hf | hf
      · rw [hf] at h2; cases h2
      · rw [hf] at h2; cases h2; rw [h4, hkey]
  refine ⟨⟨?_, ?_⟩, ?_, ?_, ?_, ?_⟩
  · intro s hsm hd
    rw [hst] at hsm
    rcases List.mem_or_eq_of_mem_set hsm with h1 | h1
    · exact hs s h1 hd
    · subst h1; exact hgood hd
  · intro e he
    rw [hmapeq] at he
    have := hm e he
    refine ⟨by rw [hst, List.length_set]; exact this.1, ?_⟩
    by_cases hj : e.2 = id
    · rw [hj, seg_set_eq hst hid, hkey, ← hj]; exact this.2
    · rw [seg_set_ne hst hj]; exact this.2
  · rw [hst, List.length_set]
  · intro j hj; exact seg_set_ne hst hj
  · rw [seg_set_eq hst hid]; exact hkey
  · rcases hcases with ⟨h1, _, _, h4⟩ | ⟨_, h2, _, h4⟩ | ⟨_, d, h2, _, _, h5⟩
    · rw [h4]; exact hold h1
    · rw [h4]; exact h2
    · rw [h5]
      rcases hf with hf | hf
      · rw [hf] at h2; cases h2
      · rw [hf] at h2; cases h2; rfl

/-- **no_cached_error** (C08): a failed fetch is reported and leaves the segment not done, so the
    next reader of that segment asks the source again. -/
theorem no_cached_error (c : Cache) (id : Nat) (hnd : (c.seg id).done = false)
    (hid : id < c.store.length) :
    (c.readStep id none).2 = .err ∧ ((c.readStep id none).1.seg id).done = false := by
  obtain ⟨s', heq, _, _, hcases⟩ := readStep_spec c id none
  have hst : (c.readStep id none).1.store = c.store.set id s' := by rw [heq]
  rw [seg_set_eq hst hid]
  rcases hcases with ⟨h1, _⟩ | ⟨_, _, h3, h4⟩ | ⟨_, d, h2, _⟩
  · rw [hnd] at h1; cases h1
  · exact ⟨h4, h3⟩
  · cases h2

/-- complement of `no_cached_error`: a segment that is not done is *always* re-fetched, and the
    outcome is determined by this fetch alone. -/
theorem not_done_refetches (c : Cache) (id : Nat) (fetch : Option Nat)
    (hnd : (c.seg id).done = false) :
    (c.readStep id fetch).2 = (match fetch with | none => .err | some d => .fetched d) := by
  obtain ⟨s', _, _, _, hcases⟩ := readStep_spec c id fetch
  rcases hcases with ⟨h1, _⟩ | ⟨_, h2, _, h4⟩ | ⟨_, d, h2, _, _, h5⟩
  · rw [hnd] at h1; cases h1
  · rw [h4, h2]
  · rw [h5, h2]

/-! ### seg_bound -/

/-- **seg_bound** (C08), without any hypothesis: a lookup never hands out a cached segment that
    already served `maxreads` reads. -/
theorem seg_bound' (c : Cache) (key : Nat × Nat) :
    ((c.lookupStep key).1.seg (c.lookupStep key).2).nreads < c.maxreads ∨
    ((c.lookupStep key).1.seg (c.lookupStep key).2).nreads = 0 := by
  obtain ⟨_, hA | hB⟩ := lookupStep_spec c key
  · obtain ⟨hst, ⟨e, _, _, hid, hlt⟩, _⟩ := hA
    left; rw [← hid, seg_congr hst]; exact hlt
  · obtain ⟨hst, hid, _, _⟩ := hB
    right; rw [hid, seg_append_eq hst]

/-- **seg_bound** (C08) as originally stated (the hypothesis is not needed). -/
theorem seg_bound (c : Cache) (key : Nat × Nat) (_hmap : ∀ e ∈ c.map, e.2 < c.store.length) :
    let r := c.lookupStep key
    (r.1.seg r.2).nreads < c.maxreads ∨ (r.1.seg r.2).nreads = 0 :=
  seg_bound' c key

/-- one sequential `get` preserves "every segment ever created served at most `max maxreads 1`
    reads" -/
theorem get_bound (c : Cache) (key : Nat × Nat) (fetch : Option Nat)
    (h : ∀ s ∈ c.store, s.nreads ≤ max c.maxreads 1) :
    (c.get key fetch).1.maxreads = c.maxreads ∧
    ∀ s ∈ (c.get key fetch).1.store, s.nreads ≤ max c.maxreads 1 := by
  have hget : c.get key fetch = (c.lookupStep key).1.readStep (c.lookupStep key).2 fetch := rfl
  rw [hget]
  have hb := seg_bound' c key
  obtain ⟨hmr, hspec⟩ := lookupStep_spec c key
  have h1 : ∀ s ∈ (c.lookupStep key).1.store, s.nreads ≤ max c.maxreads 1 := by
    intro s hs
    rcases hspec with ⟨hst, _⟩ | ⟨hst, _⟩
    · rw [hst] at hs; exact h s hs
    · rw [hst] at hs
      rcases List.mem_append.1 hs with h2 | h2
      · exact h s h2
      · rw [List.mem_singleton] at h2; subst h2; exact Nat.zero_le _
  obtain ⟨s', heq, _, hn, _⟩ := readStep_spec (c.lookupStep key).1 (c.lookupStep key).2 fetch
  rw [heq]
  refine ⟨hmr, ?_⟩
  intro s hs
  rcases List.mem_or_eq_of_mem_set hs with h2 | h2
  · exact h1 s h2
  · subst h2; rw [hn]
    rcases hb with hb | hb
    · exact Nat.le_trans hb (Nat.le_max_left _ _)
    · rw [hb]; exact Nat.le_max_right _ _

/-- sequential runs, strong form: *every* segment ever created (also those pruned from the map)
    served at most `max maxreads 1` reads -/
theorem seq_bound_store (c : Cache) (ops : List ((Nat × Nat) × Option Nat))
    (h : ∀ s ∈ c.store, s.nreads ≤ max c.maxreads 1) :
    (ops.foldl (fun c op => (c.get op.1 op.2).1) c).maxreads = c.maxreads ∧
    ∀ s ∈ (ops.foldl (fun c op => (c.get op.1 op.2).1) c).store, s.nreads ≤ max c.maxreads 1 := by
  induction ops generalizing c with
  | nil => exact ⟨rfl, h⟩
  | cons op ops ih =>
    obtain ⟨hm, hb⟩ := get_bound c op.1 op.2 h
    have := ih (c.get op.1 op.2).1 (by rw [hm]; exact hb)
    rw [hm] at this
    exact this

/-- **seq_bound** (C08) as originally stated: in a sequential run from the empty cache, `nreads`
    of every segment still in the map never exceeds `max maxreads 1` -/
theorem seq_bound (c : Cache) (ops : List ((Nat × Nat) × Option Nat))
    (h0 : c.store = [] ∧ c.map = []) :
    let c' := ops.foldl (fun c op => (c.get op.1 op.2).1) c
    ∀ e ∈ c'.map, (c'.seg e.2).nreads ≤ max c.maxreads 1 := by
  intro c' e _
  have hb := (seq_bound_store c ops (by rw [h0.1]; intro s hs; cases hs)).2
  rcases seg_mem_or_default c' e.2 with h1 | h1
  · exact hb _ h1
  · rw [h1]; exact Nat.zero_le _

/-! ### any interleaving, explicitly: schedules of atomic sub-steps -/

/-- one atomic sub-step of some caller: `lookup` runs under the cache lock, `read` (with the
    answer the source would give at that moment) under the segment lock -/
inductive Step where
  | lookup (caller : Nat) (key : Nat × Nat)
  | read (caller : Nat) (fetch : Option Nat)
  deriving DecidableEq, Repr

/-- the shared cache plus, per caller, the handle and key of its last `lookup` -/
structure Sys where
  cache : Cache
  last : Nat → Option (Nat × (Nat × Nat))

/-- what a `read` step reports to its caller -/
structure Event where
  caller : Nat
  key : Nat × Nat          -- the key of the caller's last lookup
  fetch : Option Nat       -- what the source answered (or would have answered) at this step
  out : Out
  deriving DecidableEq, Repr

/-- a `read` of a caller uses the handle its last `lookup` returned (a `read` of a caller that
    never looked up is a no-op) -/
def Sys.step (s : Sys) : Step → Sys × Option Event
  | .lookup k key =>
    ({ cache := (s.cache.lookupStep key).1,
       last := fun j => if j = k then some ((s.cache.lookupStep key).2, key) else s.last j }, none)
  | .read k fetch =>
    match s.last k with
    | none => (s, none)
    | some (id, key) =>
      ({ s with cache := (s.cache.readStep id fetch).1 },
       some ⟨k, key, fetch, (s.cache.readStep id fetch).2⟩)

/-- run a schedule; collects the reported events in order -/
def Sys.run (s : Sys) : List Step → Sys × List Event
  | [] => (s, [])
  | st :: rest => (((s.step st).1.run rest).1, (s.step st).2.toList ++ ((s.step st).1.run rest).2)

/-- the source may fail but never lies: the fetch of a `read` by caller `k` is `none` or the
    truth for the key of `k`'s last lookup (and `k` did look up before) -/
def Honest (truth : Truth) (s : Sys) : Step → Prop
  | .lookup _ _ => True
  | .read k fetch => ∃ id key, s.last k = some (id, key) ∧ (fetch = none ∨ fetch = some (truth key))

/-- a schedule all of whose steps are honest in the state they are executed in; apart from that,
    *any* interleaving of any number of callers, any keys, any number of reads per lookup -/
def Valid (truth : Truth) : Sys → List Step → Prop
  | _, [] => True
  | s, st :: rest => Honest truth s st ∧ Valid truth (s.step st).1 rest

/-- the system invariant: the cache invariant, and every handle a caller holds is a live store
    index whose segment has the key the caller asked for (also after the segment was pruned from
    the map) -/
def SysInv (truth : Truth) (s : Sys) : Prop :=
  Inv truth s.cache ∧
  ∀ k id key, s.last k = some (id, key) → id < s.cache.store.length ∧ (s.cache.seg id).key = key

/-- data reported to a caller is the truth for the key it asked for; an error is reported only
    if this very fetch failed -/
def Event.ok (truth : Truth) (ev : Event) : Prop :=
  match ev.out with
  | .hit d => d = truth ev.key
  | .fetched d => d = truth ev.key
  | .err => ev.fetch = none

theorem step_inv (truth : Truth) (s : Sys) (st : Step) (hi : SysInv truth s)
    (hh : Honest truth s st) :
    SysInv truth (s.step st).1 ∧ ∀ ev, (s.step st).2 = some ev → ev.ok truth := by
  obtain ⟨hc, hl⟩ := hi
  cases st with
  | lookup k key =>
    obtain ⟨h1, h2, h3, h4, h5⟩ := lookup_inv truth s.cache key hc
    refine ⟨⟨h1, ?_⟩, fun ev hev => by cases hev⟩
    intro j id key' hj
    simp only [Sys.step] at hj ⊢
    by_cases hjk : j = k
    · rw [if_pos hjk] at hj
      cases hj
      exact ⟨h2, h3⟩
    · rw [if_neg hjk] at hj
      have := hl j id key' hj
      exact ⟨Nat.lt_of_lt_of_le this.1 h4, by rw [h5 id this.1]; exact this.2⟩
  | read k fetch =>
    obtain ⟨id, key, hlast, hf⟩ := hh
    obtain ⟨hid, hkey⟩ := hl k id key hlast
    have hf' : fetch = none ∨ fetch = some (truth (s.cache.seg id).key) := by rw [hkey]; exact hf
    obtain ⟨h1, h2, h3, h4, h5⟩ := read_inv truth s.cache id fetch hc hid hf'
    simp only [Sys.step, hlast]
    refine ⟨⟨h1, ?_⟩, ?_⟩
    · intro j id' key' hj
      have := hl j id' key' hj
      refine ⟨by rw [h2]; exact this.1, ?_⟩
      by_cases hii : id' = id
      · rw [hii, h4, ← hii]; exact this.2
      · rw [h3 id' hii]; exact this.2
    · intro ev hev
      cases hev
      rw [hkey] at h5
      exact h5

/-- **seg_transparent** (C08), trace level: for every schedule (= interleaving of the atomic
    sub-steps of any number of callers) with an honest-or-failing source, the invariant holds in
    the final state and every reported event is correct: `.hit d`/`.fetched d` of caller `k` carry
    `d = truth (key of k's last lookup)`, `.err` only if that fetch failed. -/
theorem sched_inv (truth : Truth) (s : Sys) (steps : List Step) (hi : SysInv truth s)
    (hv : Valid truth s steps) :
    SysInv truth (s.run steps).1 ∧ ∀ ev ∈ (s.run steps).2, ev.ok truth := by
  induction steps generalizing s with
  | nil => exact ⟨hi, fun ev hev => by cases hev⟩
  | cons st rest ih =>
    obtain ⟨hh, hv'⟩ := hv
    obtain ⟨h1, h2⟩ := step_inv truth s st hi hh
    obtain ⟨h3, h4⟩ := ih (s.step st).1 h1 hv'
    refine ⟨h3, ?_⟩
    intro ev hev
    simp only [Sys.run] at hev
    rcases List.mem_append.1 hev with h | h
    · exact h2 ev (Option.mem_toList.1 h)
    · exact h4 ev h

theorem valid_take (truth : Truth) (s : Sys) (steps : List Step) (n : Nat)
    (hv : Valid truth s steps) : Valid truth s (steps.take n) := by
  induction steps generalizing s n with
  | nil => simpa using hv
  | cons st rest ih =>
    cases n with
    | zero => exact trivial
    | succ n => exact ⟨hv.1, ih _ n hv.2⟩

/-- ... and throughout: the invariant holds after every prefix of the schedule -/
theorem sched_inv_throughout (truth : Truth) (s : Sys) (steps : List Step) (hi : SysInv truth s)
    (hv : Valid truth s steps) (n : Nat) :
    SysInv truth (s.run (steps.take n)).1 ∧ Inv truth (s.run (steps.take n)).1.cache :=
  let h := (sched_inv truth s (steps.take n) hi (valid_take truth s steps n hv)).1
  ⟨h, h.1⟩

/-- the empty cache, nobody holds a handle -/
def Sys.init (maxreads : Nat) : Sys := { cache := { maxreads := maxreads }, last := fun _ => none }

theorem init_inv (truth : Truth) (maxreads : Nat) : SysInv truth (Sys.init maxreads) := by
  refine ⟨⟨?_, ?_⟩, ?_⟩
  · intro s hs; cases hs
  · intro e he; cases he
  · intro k id key h; cases h

/-- the trace-level statement from the empty cache -/
theorem sched_transparent (truth : Truth) (maxreads : Nat) (steps : List Step)
    (hv : Valid truth (Sys.init maxreads) steps) :
    (∀ n, Inv truth ((Sys.init maxreads).run (steps.take n)).1.cache) ∧
    ∀ ev ∈ ((Sys.init maxreads).run steps).2,
      match ev.out with
      | .hit d => d = truth ev.key
      | .fetched d => d = truth ev.key
      | .err => ev.fetch = none :=
  ⟨fun n => (sched_inv_throughout truth _ steps (init_inv truth maxreads) hv n).2,
   (sched_inv truth _ steps (init_inv truth maxreads) hv).2⟩

/-! ### bounded size: the map never holds more than 5 segments -/

/-- no two map entries share a key -/
def KeysNodup (c : Cache) : Prop := c.map.Pairwise (fun a b => a.1 ≠ b.1)

theorem pruneMaxRead_keys {c : Cache} (h : KeysNodup c) : KeysNodup c.pruneMaxRead :=
  List.Pairwise.filter _ h

theorem pruneSegments_keys {c : Cache} (h : KeysNodup c) : KeysNodup c.pruneSegments := by
  unfold Cache.pruneSegments
  split
  · exact h
  · exact List.Pairwise.filter _ h

theorem pruneSegments_length {c : Cache} (h : KeysNodup c) : c.pruneSegments.map.length ≤ 5 := by
  unfold Cache.pruneSegments
  split
  · assumption
  · have hnd : (c.map.filter fun e =>
        ((c.map.foldl (fun acc e => insertDesc e acc) []).take 5).contains e).Nodup := by
      refine List.Pairwise.filter _ (List.Pairwise.imp ?_ h)
      intro a b hab heq; exact hab (congrArg Prod.fst heq)
    refine Nat.le_trans (hnd.length_le_of_subset (l₂ := (c.map.foldl (fun acc e => insertDesc e acc) []).take 5) ?_)
      (List.length_take_le _ _)
    intro x hx
    have := (List.mem_filter.1 hx).2
    simpa using this

/-- `lookupStep` keeps the keys of the map distinct and leaves at most 5 entries -/
theorem lookup_map_bound (c : Cache) (key : Nat × Nat) (h : KeysNodup c) :
    KeysNodup (c.lookupStep key).1 ∧ (c.lookupStep key).1.map.length ≤ 5 := by
  cases hf : c.pruneMaxRead.map.find? (·.1 == key) with
  | some e =>
    rw [lookupStep_found hf]
    exact ⟨pruneSegments_keys (pruneMaxRead_keys h), pruneSegments_length (pruneMaxRead_keys h)⟩
  | none =>
    rw [lookupStep_new hf]
    have hk : KeysNodup { maxreads := c.maxreads, store := c.store ++ [({ key := key } : Seg)],
                          map := c.pruneMaxRead.map ++ [(key, c.store.length)] } := by
      unfold KeysNodup
      refine List.pairwise_append.2 ⟨pruneMaxRead_keys h, List.pairwise_singleton _ _, ?_⟩
      intro a ha b hb
      rw [List.mem_singleton] at hb
      have := List.find?_eq_none.1 hf a ha
      rw [hb]
      simpa using this
    exact ⟨pruneSegments_keys hk, pruneSegments_length hk⟩

theorem readStep_map (c : Cache) (id : Nat) (fetch : Option Nat) :
    (c.readStep id fetch).1.map = c.map := by
  obtain ⟨s', heq, _⟩ := readStep_spec c id fetch
  rw [heq]

/-- for every schedule whatsoever, the map keeps distinct keys and at most 5 entries -/
theorem sched_map_bound (s : Sys) (steps : List Step)
    (h : KeysNodup s.cache ∧ s.cache.map.length ≤ 5) :
    KeysNodup (s.run steps).1.cache ∧ (s.run steps).1.cache.map.length ≤ 5 := by
  induction steps generalizing s with
  | nil => exact h
  | cons st rest ih =>
    refine ih (s.step st).1 ?_
    cases st with
    | lookup k key => exact lookup_map_bound s.cache key h.1
    | read k fetch =>
      simp only [Sys.step]
      split
      · exact h
      · simp only [KeysNodup, readStep_map]; exact h

/-! ### head cache -/

/-- the pairs the source announced so far (through `update`) -/
def announcedInv (ann : List (Nat × String)) (h : Head) : Prop :=
  (h.num, h.hash) ∈ ann ∨ (h.num = 0 ∧ h.hash = "")

/-- **head_announced** (C08): for announcements in any order, with repeats and regressions,
    errors and reads in between, the cached head is always a pair the source announced (or
    empty), and every hit returns such a pair. -/
theorem head_update_inv (ann : List (Nat × String)) (h : Head) (n : Nat) (hs : String)
    (hi : announcedInv ann h) : announcedInv ((n, hs) :: ann) (h.update n hs) := by
  unfold Head.update
  split
  · rcases hi with hi | hi
    · exact .inl (List.mem_cons_of_mem _ hi)
    · exact .inr hi
  · exact .inl List.mem_cons_self

/-- the four outcomes of `Head.get` -/
theorem head_get_cases (h : Head) (n : Nat) :
    (h.err = true ∧ h.get n = ({ h with err := false }, none)) ∨
    (h.err = false ∧ (n = 0 ∨ h.num < n) ∧ h.get n = (h, none)) ∨
    (h.err = false ∧ n ≠ 0 ∧ n ≤ h.num ∧ h.maxreads ≤ h.nreads ∧
      h.get n = ({ h with nreads := 0, num := 0, hash := "" }, none)) ∨
    (h.err = false ∧ n ≠ 0 ∧ n ≤ h.num ∧ h.nreads < h.maxreads ∧
      h.get n = ({ h with nreads := h.nreads + 1 }, some (h.num, h.hash))) := by
  unfold Head.get
  cases he : h.err with
  | true => exact .inl ⟨rfl, by simp⟩
  | false =>
    right
    by_cases h1 : n = 0 ∨ h.num < n
    · exact .inl ⟨rfl, h1, by simp [h1]⟩
    · right
      have h1' : n ≠ 0 ∧ n ≤ h.num := by omega
      by_cases h2 : h.nreads ≥ h.maxreads
      · exact .inl ⟨rfl, h1'.1, h1'.2, h2, by simp [h1, h2]⟩
      · exact .inr ⟨rfl, h1'.1, h1'.2, by omega, by simp [h1, h2]⟩

theorem head_get_inv (ann : List (Nat × String)) (h : Head) (n : Nat) (hi : announcedInv ann h) :
    announcedInv ann (h.get n).1 ∧
    (∀ p, (h.get n).2 = some p → p ∈ ann ∧ n ≠ 0 ∧ n ≤ p.1 ∧ h.nreads < h.maxreads ∧
      (h.get n).1.nreads = h.nreads + 1) := by
  rcases head_get_cases h n with ⟨_, hg⟩ | ⟨_, _, hg⟩ | ⟨_, _, _, _, hg⟩ | ⟨_, hn, hle, hlt, hg⟩
  · rw [hg]; exact ⟨hi, fun p hp => by cases hp⟩
  · rw [hg]; exact ⟨hi, fun p hp => by cases hp⟩
  · rw [hg]; exact ⟨.inr ⟨rfl, rfl⟩, fun p hp => by cases hp⟩
  · rw [hg]
    refine ⟨hi, ?_⟩
    intro p hp
    cases hp
    refine ⟨?_, hn, hle, hlt, rfl⟩
    rcases hi with hi | hi
    · exact hi
    · exfalso; exact hn (Nat.le_zero.1 (hi.1 ▸ hle))

theorem head_error_inv (ann : List (Nat × String)) (h : Head) (hi : announcedInv ann h) :
    announcedInv ann h.error ∧ (h.error.get 5).2 = none := by
  exact ⟨hi, by simp [Head.error, Head.get]⟩

/-- no cached error, head cache: after `error` the next read of *any* block misses, and that
    read clears the flag -/
theorem head_error_miss (h : Head) (n : Nat) :
    (h.error.get n).2 = none ∧ (h.error.get n).1.err = false ∧ (h.error.get n).1.nreads = 0 := by
  simp [Head.error, Head.get]

/-! #### head_bound

  The original statement (`run.2 + h.nreads ≤ h.maxreads ∨ ∃ n ∈ ns, True ∧ run.1.nreads ≤
  run.1.maxreads`) is true but almost vacuous: for a non-empty `ns` the right disjunct only
  restates the invariant `nreads ≤ maxreads` and says nothing about the number of hits.
  Replacement: the invariant, the exact effect of every operation on the counter, and a ghost
  counter "hits since the last refresh" over arbitrary traces of `get`/`update`/`error`. -/

/-- the counter never exceeds `maxreads` -/
def Head.WF (h : Head) : Prop := h.nreads ≤ h.maxreads

theorem head_wf_update (h : Head) (n : Nat) (hs : String) (hw : h.WF) :
    (h.update n hs).WF ∧ (h.update n hs).maxreads = h.maxreads := by
  unfold Head.update Head.WF
  split
  · exact ⟨hw, rfl⟩
  · exact ⟨Nat.zero_le _, rfl⟩

theorem head_wf_error (h : Head) : h.error.WF ∧ h.error.maxreads = h.maxreads :=
  ⟨Nat.zero_le _, rfl⟩

theorem head_wf_get (h : Head) (n : Nat) (hw : h.WF) :
    (h.get n).1.WF ∧ (h.get n).1.maxreads = h.maxreads := by
  rcases head_get_cases h n with ⟨_, hg⟩ | ⟨_, _, hg⟩ | ⟨_, _, _, _, hg⟩ | ⟨_, _, _, hlt, hg⟩
  · rw [hg]; exact ⟨hw, rfl⟩
  · rw [hg]; exact ⟨hw, rfl⟩
  · rw [hg]; exact ⟨Nat.zero_le _, rfl⟩
  · rw [hg]; exact ⟨hlt, rfl⟩

/-- a hit requires `nreads < maxreads`, returns the cached pair, and changes nothing but the
    counter, which it increments by exactly one -/
theorem head_hit (h : Head) (n : Nat) (p : Nat × String) (hp : (h.get n).2 = some p) :
    h.nreads < h.maxreads ∧ h.err = false ∧ n ≠ 0 ∧ n ≤ h.num ∧ p = (h.num, h.hash) ∧
    (h.get n).1 = { h with nreads := h.nreads + 1 } := by
  rcases head_get_cases h n with ⟨_, hg⟩ | ⟨_, _, hg⟩ | ⟨_, _, _, _, hg⟩ | ⟨he, hn, hle, hlt, hg⟩
  · rw [hg] at hp; cases hp
  · rw [hg] at hp; cases hp
  · rw [hg] at hp; cases hp
  · rw [hg] at hp; cases hp; rw [hg]; exact ⟨hlt, he, hn, hle, rfl, rfl⟩

/-- a miss never increments the counter: it leaves it unchanged or resets it -/
theorem head_miss (h : Head) (n : Nat) (hp : (h.get n).2 = none) :
    (h.get n).1.nreads = h.nreads ∨ (h.get n).1.nreads = 0 := by
  rcases head_get_cases h n with ⟨_, hg⟩ | ⟨_, _, hg⟩ | ⟨_, _, _, _, hg⟩ | ⟨_, _, _, _, hg⟩
  · rw [hg]; exact .inl rfl
  · rw [hg]; exact .inl rfl
  · rw [hg]; exact .inr rfl
  · rw [hg] at hp; cases hp

/-- operations on the head cache -/
inductive HOp where
  | get (n : Nat)
  | update (n : Nat) (hs : String)
  | error
  deriving DecidableEq, Repr

def Head.step (h : Head) : HOp → Head × Option (Nat × String)
  | .get n => h.get n
  | .update n hs => (h.update n hs, none)
  | .error => (h.error, none)

/-- a *refresh*: the cached pair is replaced (an accepted `update`), invalidated (`error`) or
    dropped because it expired (a `get` that misses and clears the pair) -/
def Head.refreshes (h : Head) : HOp → Bool
  | .get n => (h.get n).2.isNone && decide ((h.get n).1.num ≠ h.num)
  | .update n _ => decide (h.num < n)
  | .error => true

/-- ghost counter: number of hits since the last refresh -/
def Head.ghost (h : Head) (k : Nat) (op : HOp) : Nat :=
  if h.refreshes op then 0 else if (h.step op).2.isSome then k + 1 else k

/-- run a trace, maintaining the ghost counter -/
def headRun : Head × Nat → List HOp → Head × Nat
  | hk, [] => hk
  | hk, op :: ops => headRun ((hk.1.step op).1, hk.1.ghost hk.2 op) ops

theorem head_step_ghost (h : Head) (k : Nat) (op : HOp) (hw : h.WF) (hk : k ≤ h.nreads) :
    (h.step op).1.WF ∧ (h.step op).1.maxreads = h.maxreads ∧
    h.ghost k op ≤ (h.step op).1.nreads := by
  cases op with
  | error =>
    exact ⟨(head_wf_error h).1, rfl, by simp [Head.ghost, Head.refreshes]⟩
  | update n hs =>
    refine ⟨(head_wf_update h n hs hw).1, (head_wf_update h n hs hw).2, ?_⟩
    by_cases hn : h.num < n
    · simp [Head.ghost, Head.refreshes, hn]
    · have : n ≤ h.num := Nat.le_of_not_lt hn
      simp [Head.ghost, Head.refreshes, hn, Head.step, Head.update, this, hk]
  | get n =>
    refine ⟨(head_wf_get h n hw).1, (head_wf_get h n hw).2, ?_⟩
    simp only [Head.ghost, Head.refreshes, Head.step]
    rcases head_get_cases h n with ⟨_, hg⟩ | ⟨_, _, hg⟩ | ⟨_, hn, hle, _, hg⟩ | ⟨_, _, _, _, hg⟩
    · simpa [hg] using hk
    · simpa [hg] using hk
    · have : ¬ (0 = h.num) := by omega
      simp [hg, this]
    · simpa [hg] using hk

/-- **head_bound** (C08), replacement: on every trace of `get`/`update`/`error` from a head with
    `nreads ≤ maxreads`, the number of hits served since the last refresh (accepted update /
    expiry / error) never exceeds `maxreads` — at the end of the trace, hence (the statement
    holding for every prefix) throughout. -/
theorem head_bound (h : Head) (k : Nat) (ops : List HOp) (hw : h.WF) (hk : k ≤ h.nreads) :
    (headRun (h, k) ops).2 ≤ (headRun (h, k) ops).1.nreads ∧
    (headRun (h, k) ops).1.nreads ≤ h.maxreads ∧
    (headRun (h, k) ops).1.maxreads = h.maxreads := by
  induction ops generalizing h k with
  | nil => exact ⟨hk, hw, rfl⟩
  | cons op ops ih =>
    obtain ⟨h1, h2, h3⟩ := head_step_ghost h k op hw hk
    have := ih (h.step op).1 (h.ghost k op) h1 h3
    rw [h2] at this
    exact this

theorem head_bound_hits (h : Head) (ops : List HOp) (hw : h.WF) :
    (headRun (h, 0) ops).2 ≤ h.maxreads :=
  let ⟨a, b, _⟩ := head_bound h 0 ops hw (Nat.zero_le _)
  Nat.le_trans a b

/-- all reads of `ns`, performed in succession from `h`, are hits -/
def allHits : Head → List Nat → Prop
  | _, [] => True
  | h, n :: ns => (h.get n).2.isSome = true ∧ allHits (h.get n).1 ns

/-- the form suggested by the original statement: successive reads that are all hits number at
    most `maxreads - nreads`; in particular at most `maxreads` after a refresh -/
theorem head_bound_successive (h : Head) (ns : List Nat) (hw : h.WF) (hh : allHits h ns) :
    ns.length + h.nreads ≤ h.maxreads := by
  induction ns generalizing h with
  | nil => simpa [Head.WF] using hw
  | cons n ns ih =>
    obtain ⟨h1, h2⟩ := hh
    obtain ⟨p, hp⟩ := Option.isSome_iff_exists.1 h1
    obtain ⟨hlt, _, _, _, _, heq⟩ := head_hit h n p hp
    have := ih (h.get n).1 (head_wf_get h n hw).1 h2
    rw [heq] at this
    simp only [List.length_cons]
    simp only at this
    omega

/-- the originally proposed `head_bound`, kept only to document that it is true but says next
    to nothing: for non-empty `ns` the right disjunct merely restates `nreads ≤ maxreads`. -/
theorem head_bound_original (h : Head) (ns : List Nat) (h0 : h.nreads ≤ h.maxreads) :
    let run := ns.foldl (fun (acc : Head × Nat) n =>
      match (acc.1.get n).2 with
      | some _ => ((acc.1.get n).1, acc.2 + 1)
      | none => ((acc.1.get n).1, acc.2)) (h, 0)
    run.2 + h.nreads ≤ h.maxreads ∨ ∃ n ∈ ns, True ∧ run.1.nreads ≤ run.1.maxreads := by
  intro run
  have key : ∀ (ns : List Nat) (acc : Head × Nat), acc.1.WF →
      (ns.foldl (fun (acc : Head × Nat) n =>
        match (acc.1.get n).2 with
        | some _ => ((acc.1.get n).1, acc.2 + 1)
        | none => ((acc.1.get n).1, acc.2)) acc).1.WF := by
    intro ns
    induction ns with
    | nil => intro acc hw; exact hw
    | cons n ns ih =>
      intro acc hw
      rw [List.foldl_cons]
      apply ih
      split <;> exact (head_wf_get acc.1 n hw).1
  cases ns with
  | nil => left; simpa [run] using h0
  | cons n ns => right; exact ⟨n, List.mem_cons_self, trivial, key (n :: ns) (h, 0) h0⟩

/-! ### attaching logs to a shared block -/

theorem addLog_mem (ls : List Nat) (idx x : Nat) : x ∈ addLog ls idx ↔ x ∈ ls ∨ x = idx := by
  unfold addLog
  split
  · rename_i h
    have : idx ∈ ls := by simpa using h
    constructor
    · exact .inl
    · rintro (h1 | h1)
      · exact h1
      · rw [h1]; exact this
  · simp

theorem addLog_nodup (ls : List Nat) (idx : Nat) (h : ls.Nodup) : (addLog ls idx).Nodup := by
  unfold addLog
  split
  · exact h
  · rename_i hc
    have hni : idx ∉ ls := by simpa using hc
    rw [List.nodup_append]
    refine ⟨h, by simp, ?_⟩
    intro a ha b hb
    rw [List.mem_singleton] at hb
    rw [hb]
    intro hab; rw [hab] at ha; exact hni ha

/-- **attach_set** (C08): after any sequence of attaches, in any order and with any repeats, the
    logs of a transaction are, as a set by index, the union of what the callers attached, and no
    index occurs twice. -/
theorem attach_set (ls : List Nat) (adds : List Nat) (hnd : ls.Nodup) :
    (adds.foldl addLog ls).Nodup ∧ ∀ x, x ∈ adds.foldl addLog ls ↔ x ∈ ls ∨ x ∈ adds := by
  induction adds generalizing ls with
  | nil => exact ⟨hnd, by simp⟩
  | cons a adds ih =>
    obtain ⟨h1, h2⟩ := ih (addLog ls a) (addLog_nodup ls a hnd)
    refine ⟨h1, ?_⟩
    intro x
    rw [List.foldl_cons, h2 x, addLog_mem, List.mem_cons, or_assoc]

/-- attaching is order-preserving: what was there stays in front, in the same order -/
theorem attach_prefix (ls adds : List Nat) : ls <+: adds.foldl addLog ls := by
  induction adds generalizing ls with
  | nil => exact List.prefix_refl _
  | cons a adds ih =>
    refine List.IsPrefix.trans ?_ (ih (addLog ls a))
    unfold addLog
    split
    · exact List.prefix_refl _
    · exact List.prefix_append _ _

/-! ### non-vacuity: concrete runs (kernel-checked) -/

/-- sequential run collecting the outputs -/
def gets (c : Cache) : List ((Nat × Nat) × Option Nat) → Cache × List Out
  | [] => (c, [])
  | op :: ops => (((gets (c.get op.1 op.2).1 ops).1), (c.get op.1 op.2).2 :: (gets (c.get op.1 op.2).1 ops).2)

/-- `maxreads = 2`: one fetch serves two reads, the third read fetches again -/
example : (gets { maxreads := 2 } [((10, 5), some 7), ((10, 5), some 7), ((10, 5), some 7)]).2
    = [.fetched 7, .hit 7, .fetched 7] := by decide +kernel

/-- a failed fetch is not cached: the next read of the same range fetches (in the same segment) -/
example : gets { maxreads := 2 } [((10, 5), none), ((10, 5), some 7)]
    = ({ maxreads := 2, store := [{ key := (10, 5), nreads := 2, done := true, data := 7 }],
         map := [((10, 5), 0)] }, [.err, .fetched 7]) := by decide +kernel

/-- six distinct ranges: the one with the smallest start is evicted from the map -/
example : (gets { maxreads := 2 } [((30, 5), some 3), ((10, 5), some 1), ((50, 5), some 5),
      ((20, 5), some 2), ((60, 5), some 6), ((40, 5), some 4)]).1.map
    = [((30, 5), 0), ((50, 5), 2), ((20, 5), 3), ((60, 5), 4), ((40, 5), 5)] := by decide +kernel

/-- head cache, `maxreads = 2`: update 5, two hits, the third read misses and resets the cache -/
example :
    let h0 : Head := ({ maxreads := 2 } : Head).update 5 "a"
    let r1 := h0.get 5
    let r2 := r1.1.get 3
    let r3 := r2.1.get 5
    (r1.2, r2.2, r3.2, r3.1) =
      (some (5, "a"), some (5, "a"), none, ({ maxreads := 2 } : Head)) := by decide +kernel

/-- a valid schedule with two interleaved callers on the same range (`truth _ = 7`,
    `maxreads = 1`): both look up before either reads, the first read fetches, the second is served
    from the same segment — and a third caller arriving later fetches again -/
example :
    ((Sys.init 1).run [.lookup 0 (10, 5), .lookup 1 (10, 5), .read 0 (some 7), .read 1 none,
        .lookup 2 (10, 5), .read 2 (some 7)]).2.map (fun ev => (ev.caller, ev.out))
      = [(0, .fetched 7), (1, .hit 7), (2, .fetched 7)] := by decide +kernel

example : Valid (fun _ => 7) (Sys.init 1) [.lookup 0 (10, 5), .lookup 1 (10, 5), .read 0 (some 7),
    .read 1 none, .lookup 2 (10, 5), .read 2 (some 7)] := by
  refine ⟨trivial, trivial, ⟨_, _, rfl, .inr rfl⟩, ⟨_, _, rfl, .inl rfl⟩, trivial,
    ⟨_, _, rfl, .inr rfl⟩, trivial⟩

/-! ### observations on the modelled caches (kernel-checked facts, not defects of the proofs) -/

/-- concurrency: `maxreads` does not bound the reads served by one fetch when callers obtain
    the handle before the first read completes (here `maxreads = 1`, 4 callers, 1 fetch) -/
example :
    ((Sys.init 1).run [.lookup 0 (10, 5), .lookup 1 (10, 5), .lookup 2 (10, 5), .lookup 3 (10, 5),
        .read 0 (some 7), .read 1 none, .read 2 none, .read 3 none]).2.map (·.out)
      = [.fetched 7, .hit 7, .hit 7, .hit 7] := by decide +kernel

/-- eviction is by greatest start, not by recency: with 5 newer ranges cached, an older range is
    evicted in the very lookup that created it and is therefore fetched on every read -/
example : (gets { maxreads := 2 } [((20, 5), some 2), ((30, 5), some 3), ((40, 5), some 4),
      ((50, 5), some 5), ((60, 5), some 6), ((10, 5), some 1), ((10, 5), some 1)]).2
    = [.fetched 2, .fetched 3, .fetched 4, .fetched 5, .fetched 6, .fetched 1, .fetched 1] := by
  decide +kernel

/-- head cache: an announcement at the *same* height with another hash (a reorg of the tip) is
    ignored; the cache keeps serving the replaced hash -/
example : ((({ maxreads := 2 } : Head).update 5 "a").update 5 "b").get 5
    = ({ maxreads := 2, num := 5, hash := "a", nreads := 1 }, some (5, "a")) := by decide +kernel

/-- head cache: `error` resets the counter but keeps the pair; after the single miss that clears
    the flag, the *old* pair is served for another `maxreads` reads (2 hits, error, miss, 2 hits) -/
example :
    let h0 : Head := ({ maxreads := 2 } : Head).update 5 "a"
    let h2 := ((h0.get 5).1.get 5).1.error
    let r1 := h2.get 5
    let r2 := r1.1.get 5
    let r3 := r2.1.get 5
    let r4 := r3.1.get 5
    (r1.2, r2.2, r3.2, r4.2) = (none, some (5, "a"), some (5, "a"), none) := by decide +kernel

end Shovel.Cache

section
open Shovel.Cache
#print axioms lookup_inv
#print axioms read_inv
#print axioms no_cached_error
#print axioms not_done_refetches
#print axioms seg_bound
#print axioms seg_bound'
#print axioms seq_bound
#print axioms seq_bound_store
#print axioms lookup_map_bound
#print axioms sched_map_bound
#print axioms step_inv
#print axioms sched_inv
#print axioms sched_inv_throughout
#print axioms sched_transparent
#print axioms head_update_inv
#print axioms head_get_inv
#print axioms head_error_inv
#print axioms head_error_miss
#print axioms head_hit
#print axioms head_miss
#print axioms head_bound
#print axioms head_bound_hits
#print axioms head_bound_successive
#print axioms head_bound_original
#print axioms attach_set
#print axioms attach_prefix
end
