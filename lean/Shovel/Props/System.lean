import Shovel.Props.Insert
import Shovel.Props.WorldProgress
/-
  Composition of the layers (C01 end to end): the World model (Converge / load / insert / update over
  the database, `Model/World.lean`) treats "the rows block b projects" as a field of the block; the
  Insert model (`Model/Insert.lean`) computes the rows the row builder hands to COPY for a batch.
  This file joins them:

  * `insert_batch_flat` — for every batch the World model can load, in every state of the reused
    decoder, the Insert model produces exactly the concatenation, block by block, of the rows the
    per-item specifications demand: the abstraction `newRows = bs.flatMap rows` of the World model is
    what the row builder does.
  * `system_table_exact` — on a chain whose blocks project the specified rows, after enough healthy
    steps the task's table is exactly: for every block from the configured start to the head, in
    order, for every transaction, for every matching log / transaction / trace action — the rows of
    `specRows` / `specTxRows`, each once, stamped with the task's source and integration.
-/
namespace Shovel.System
open Shovel.World Shovel.Insert Shovel.Row Shovel.Abi

/-- a block of the chain: its header data and its content as the declaration sees it -/
structure SBlock where
  num : Nat
  hash : String
  parent : String
  ab : ABlock

/-- the rows the property demands of one block (none where it fixes nothing) -/
def specBlockRows (refs : Refs) (d : Decl) (ty : Ty) (mode : Mode) (base : Ctx) (sb : SBlock) : List (List DVal) :=
  (specInsert refs d ty mode base [sb.ab]).getD []

/-- the property fixes the rows of every item of the block -/
def Fixed (refs : Refs) (d : Decl) (ty : Ty) (mode : Mode) (base : Ctx) (sb : SBlock) : Prop :=
  (specInsert refs d ty mode base [sb.ab]).isSome = true

theorem specItems_single (refs : Refs) (d : Decl) (ty : Ty) (mode : Mode) (base : Ctx) (b : ABlock) (bs : List ABlock) :
    specItems refs d ty mode base (b :: bs) =
      specItems refs d ty mode base [b] ++ specItems refs d ty mode base bs := by
  simp [specItems]

theorem joinSpec_join {a b : List SpecOut} {r1 r2 : List (List DVal)} (h1 : joinSpec a = some r1)
    (h2 : joinSpec b = some r2) : joinSpec (a ++ b) = some (r1 ++ r2) := by
  induction a generalizing r1 with
  | nil => simp only [joinSpec] at h1; injection h1 with h1; subst h1; simpa using h2
  | cons x xs ih =>
    cases x with
    | unspecified => simp [joinSpec] at h1
    | rows rs =>
      simp only [joinSpec] at h1
      cases hj : joinSpec xs with
      | none => rw [hj] at h1; cases h1
      | some r' =>
        rw [hj] at h1
        simp only [Option.map_some] at h1
        injection h1 with h1; subst h1
        simp only [List.cons_append, joinSpec, ih hj, Option.map_some, List.append_assoc]

/-- the specification of a batch is the concatenation of the specifications of its blocks -/
theorem specInsert_flat (refs : Refs) (d : Decl) (ty : Ty) (mode : Mode) (base : Ctx) :
    ∀ (sbs : List SBlock), (∀ sb ∈ sbs, Fixed refs d ty mode base sb) →
      specInsert refs d ty mode base (sbs.map (·.ab)) = some (sbs.flatMap (specBlockRows refs d ty mode base))
  | [], _ => rfl
  | sb :: rest, h => by
    have ih := specInsert_flat refs d ty mode base rest (fun x hx => h x (List.mem_cons_of_mem _ hx))
    have h1 := h sb (List.mem_cons_self ..)
    unfold Fixed at h1
    unfold specInsert at ih h1 ⊢
    simp only [List.map_cons]
    rw [specItems_single]
    cases hs : joinSpec (specItems refs d ty mode base [sb.ab]) with
    | none => rw [hs] at h1; cases h1
    | some r1 =>
      rw [joinSpec_join hs ih]
      simp only [List.flatMap_cons, specBlockRows, specInsert, hs, Option.getD_some]

/-- **insert_batch_flat**: what `Insert` writes for a batch is the concatenation of what the property
    demands of each block — from every state of the reused decoder, which is left ready for the next batch -/
theorem insert_batch_flat (refs : Refs) (d : Decl) (ty : Ty) (hd : DeclOK d ty) (mode : Mode) (base : Ctx)
    (sbs : List SBlock) (s : Abi.St) (hs : Abi.WF s ty.nsel)
    (hok : BatchOK d ty (sbs.map (·.ab))) (hfix : ∀ sb ∈ sbs, Fixed refs d ty mode base sb) :
    ∃ s', insert refs d ty mode base ((sbs.map (·.ab)).map (ABlock.toE ty)) s =
        Res.ok (sbs.flatMap (specBlockRows refs d ty mode base), s') ∧ Abi.WF s' ty.nsel :=
  insert_exact refs d ty hd mode base (sbs.map (·.ab)) s hs hok _ (specInsert_flat refs d ty mode base sbs hfix)

/-! ### `Task.insert`: how the loaded batch reaches `Integration.Insert`

    `for i := 0; i < len(blocks); i += t.batchSize { n := min(i + batchSize, len); dests[i].Insert(blocks[i:n]) }` -/

/-- the `(i, n)` chunks of `Task.insert` for `len` loaded blocks (fuel = `len`: `i` grows by at least one) -/
def insertChunks (len batch : Nat) : Nat → Nat → List (Nat × Nat)
  | 0, _ => []
  | fuel + 1, i => if i < len then (i, min (i + batch) len) :: insertChunks len batch fuel (i + max batch 1) else []

/-- the chunks are consecutive, start at 0 and end at `len`: every loaded block is handed over exactly once, in order -/
theorem insertChunks_cover (len batch : Nat) (hb : 1 ≤ batch) : ∀ (fuel i : Nat), len - i ≤ fuel → i ≤ len →
    (insertChunks len batch fuel i).flatMap (fun c => (List.range (c.2 - c.1)).map (· + c.1)) =
      (List.range (len - i)).map (· + i)
  | 0, i, hf, hi => by
    have : len - i = 0 := by omega
    simp [insertChunks, this]
  | fuel + 1, i, hf, hi => by
    unfold insertChunks
    by_cases hlt : i < len
    · simp only [hlt, if_true, List.flatMap_cons]
      have hm : max batch 1 = batch := by omega
      rw [hm]
      by_cases hlast : i + batch ≥ len
      · have hmin : min (i + batch) len = len := by omega
        rw [hmin]
        have hrest : insertChunks len batch fuel (i + batch) = [] := by
          cases fuel with
          | zero => rfl
          | succ f => unfold insertChunks; rw [if_neg (by omega)]
        simp [hrest]
      · have hmin : min (i + batch) len = i + batch := by omega
        rw [hmin, insertChunks_cover len batch hb fuel (i + batch) (by omega) (by omega)]
        have e1 : i + batch - i = batch := by omega
        have e2 : len - i = batch + (len - (i + batch)) := by omega
        rw [e1, e2, List.range_add, List.map_append, List.map_map]
        congr 1
        apply List.map_congr_left
        intro a _
        simp only [Function.comp]
        omega
    · have : len - i = 0 := by omega
      simp [hlt, this]

/-- **insert_single_call**: a step loads at most `batch_size` blocks (`step_exact`), so `Task.insert` makes
    exactly ONE `Insert` call with the whole batch (and `dests[0]`): the batch-level theorem `insert_exact`
    is about precisely what the task hands to the row builder -/
theorem insert_single_call (len batch : Nat) (h1 : 1 ≤ len) (h2 : len ≤ batch) :
    insertChunks len batch len 0 = [(0, len)] := by
  cases len with
  | zero => omega
  | succ k =>
    unfold insertChunks
    have hm : max batch 1 = batch := by omega
    simp only [Nat.zero_lt_succ, if_true, Nat.zero_add, hm]
    have hmin : min batch (k + 1) = k + 1 := by omega
    rw [hmin]
    cases k with
    | zero => rfl
    | succ j => unfold insertChunks; rw [if_neg (by omega)]

/-- the World model's view of a block: header data and the projected rows as (unique key, payload) -/
def toBlk (refs : Refs) (d : Decl) (ty : Ty) (mode : Mode) (base : Ctx) (key pay : List DVal → String)
    (sb : SBlock) : Blk :=
  { num := sb.num, hash := sb.hash, parent := sb.parent,
    rows := (specBlockRows refs d ty mode base sb).map fun r => (key r, pay r) }

def chainOf (refs : Refs) (d : Decl) (ty : Ty) (mode : Mode) (base : Ctx) (key pay : List DVal → String)
    (sbs : List SBlock) : Chain := ⟨sbs.map (toBlk refs d ty mode base key pay)⟩

/-- the table rows the declaration derives from one block for task `t` -/
def tableRows (t : Task) (refs : Refs) (d : Decl) (ty : Ty) (mode : Mode) (base : Ctx) (key pay : List DVal → String)
    (sb : SBlock) : List TRow :=
  (specBlockRows refs d ty mode base sb).map fun r =>
    { table := t.table, src := t.src, ig := t.ig, blk := sb.num, key := key r, pay := pay r }

/-- **system_table_exact** (C01 end to end).  Chain of blocks `sbs` (block `i` at index `i`), a task
    `t` of a declaration `d` with a configured start and no stop; `key`/`pay` render a row's unique key
    and its content.  From any database satisfying the invariant (e.g. the empty one), after at
    least `head − position` healthy fault-free steps: the position is the head, and the task's rows
    are EXACTLY the specified rows of blocks `start..head`, block by block in order — and those are
    the rows `Insert` produces for any batch of these blocks (`insert_batch_flat`). -/
theorem system_table_exact (t : Task) (refs : Refs) (d : Decl) (ty : Ty) (mode : Mode) (base : Ctx)
    (key pay : List DVal → String) (sbs : List SBlock) (db : DB)
    (hc : (chainOf refs d ty mode base key pay sbs).WF) (hstart : 0 < t.start) (hb : 1 ≤ t.batch)
    (hcc : 1 ≤ t.conc) (hcb : t.conc * t.batch < 2 ^ 63)
    (hhead : (chainOf refs d ty mode base key pay sbs).head < 2 ^ 62) (hdeps : t.deps = [])
    (hinv : Inv t (chainOf refs d ty mode base key pay sbs) (t.start - 1) db)
    (hk : KeysOK t (chainOf refs d ty mode base key pay sbs) db) (hstop : t.stop = 0)
    (hsh : t.start - 1 ≤ (chainOf refs d ty mode base key pay sbs).head)
    (m : Nat)
    (hm : (chainOf refs d ty mode base key pay sbs).head -
      (topOf (db.cur.filter (mineC t))).getD (t.start - 1) ≤ m) :
    let c := chainOf refs d ty mode base key pay sbs
    let db' := run t c m db
    (topOf (db'.cur.filter (mineC t))).getD (t.start - 1) = c.head ∧
    db'.rows.filter (mine t) =
      ((sbs.drop t.start).take (c.head - (t.start - 1))).flatMap (tableRows t refs d ty mode base key pay) := by
  intro c db'
  obtain ⟨_, _, h3, h4⟩ := reaches_head t c db hc hstart hb hcc hcb hhead hdeps hinv hk hstop hsh m hm
  refine ⟨h3, ?_⟩
  rw [h4]
  show (((sbs.map (toBlk refs d ty mode base key pay)).drop t.start).take (c.head - (t.start - 1))).flatMap (rowsFor t) = _
  rw [← List.map_drop, ← List.map_take, List.flatMap_map]
  congr 1
  funext sb
  simp [rowsFor, toBlk, tableRows, List.map_map, Function.comp_def]

/-! ### non-vacuity: a three-block chain carrying ERC-20 transfers, indexed by the `Transfer` declaration -/

namespace Example
open Shovel.World.Ex Shovel.Row.Example Shovel.Insert.Example

/-- decimal digits by structural recursion on fuel (reduces in the kernel, unlike `Nat.repr`) -/
def digitsF : Nat → Nat → List Char
  | 0, _ => []
  | f + 1, n => if n < 10 then [Char.ofNat (48 + n)] else digitsF f (n / 10) ++ [Char.ofNat (48 + n % 10)]
def natStr (n : Nat) : String := String.ofList (digitsF 80 n)

def showD : DVal → String
  | .bytes b => "x" ++ hexOfBytes b
  | .str b => "s" ++ hexOfBytes b
  | .u64 n => natStr n | .u256 n => natStr n | .neg n => natStr n.toNat
  | .bool b => if b then "t" else "f" | .byte n => natStr n | .int n => natStr n | .null => "nil"

/-- payload: every cell; unique key: here the whole row as well (the rows carry block/tx/log indices) -/
def pay (r : List DVal) : String := ",".intercalate (r.map showD)

/-- the declaration with the identity fields `block_num`, `tx_idx`, `log_idx` selected too -/
def transferId : Decl := { transfer with block := transfer.block ++ [("block_num", {}), ("tx_idx", {}), ("log_idx", {})] }

def chain3 : List SBlock :=
  [ { num := 0, hash := hx '0', parent := hx 'f', ab := { fields := [("block_num", .u64 0)], txs := [] } },
    { num := 1, hash := hx '1', parent := hx '0', ab := { batch.getD 0 ⟨[], []⟩ with fields := [("block_num", .u64 1)] } },
    { num := 2, hash := hx '2', parent := hx '1', ab := { batch.getD 1 ⟨[], []⟩ with fields := [("block_num", .u64 2)] } } ]

def task : Task := { src := "s", ig := "i", table := "transfers", start := 1, stop := 0, batch := 2, conc := 2, deps := [] }

/-- every hypothesis of `system_table_exact` holds of the example: after two steps the table holds
    exactly the two specified rows (the transfer of the other token and the decoy log yield nothing) -/
example :
    let c := chainOf [] transferId ty .log [] pay pay chain3
    let db' := run task c 2 {}
    (topOf (db'.cur.filter (mineC task))).getD (task.start - 1) = c.head ∧
    db'.rows.filter (mine task) =
      ((chain3.drop task.start).take (c.head - (task.start - 1))).flatMap (tableRows task [] transferId ty .log [] pay pay) :=
  system_table_exact task [] transferId ty .log [] pay pay chain3 {}
    (Chain.wfb_sound _ (by decide +kernel)) (by decide) (by decide) (by decide) (by decide) (by decide +kernel) rfl
    (by decide +kernel) (by decide +kernel) rfl (by decide +kernel) 2 (by decide +kernel)

example : ((chain3.drop 1).take 2).flatMap (tableRows task [] transferId ty .log [] pay pay) =
    [ { table := "transfers", src := "s", ig := "i", blk := 1,
        key := "x00000000000000000000000000000000000000bb,1000,xa0b86991c6218b36c1d19d4a2e9eb0ce3606eb48,0,1,0,0",
        pay := "x00000000000000000000000000000000000000bb,1000,xa0b86991c6218b36c1d19d4a2e9eb0ce3606eb48,0,1,0,0" },
      { table := "transfers", src := "s", ig := "i", blk := 2,
        key := "x00000000000000000000000000000000000000aa,1000,xa0b86991c6218b36c1d19d4a2e9eb0ce3606eb48,0,2,3,0",
        pay := "x00000000000000000000000000000000000000aa,1000,xa0b86991c6218b36c1d19d4a2e9eb0ce3606eb48,0,2,3,0" } ] := by
  decide +kernel

end Example

end Shovel.System

#print axioms Shovel.System.insert_batch_flat
#print axioms Shovel.System.system_table_exact
#print axioms Shovel.System.insert_single_call
#print axioms Shovel.System.insertChunks_cover
