import Shovel.Props.Insert
import Shovel.Props.WorldProgress
import Shovel.Props.WorldConverge
/-
  Composition of the layers (C01 end to end): the World model (Converge / load / insert / update over
  the database, `Model/World.lean`) treats "the rows block b projects" as a field of the block; the
  Insert model (`Model/Insert.lean`) computes the rows the row builder hands to COPY for a batch.
  This file joins them:

  * `insert_batch_flat` — for every batch the World model can load, in every state of the reused
    decoder, the Insert model produces exactly the concatenation, block by block, of the rows the
    per-item specifications demand: the abstraction `newRows = bs.flatMap rows` of the World model is
    what the row builder does.
  * `system_table_exact` — on a chain whose blocks project the specified rows, after enough healthy
    steps the task's table is exactly: for every block from the configured start to the head, in
    order, for every transaction, for every matching log / transaction / trace action — the rows of
    `specRows` / `specTxRows`, each once, stamped with the task's source and integration.
-/
namespace Shovel.System
open Shovel.World Shovel.Insert Shovel.Row Shovel.Abi

/-- a block of the chain: its header data and its content as the declaration sees it -/
structure SBlock where
  num : Nat
  hash : String
  parent : String
  ab : ABlock

/-- the rows the property demands of one block (none where it fixes nothing) -/
def specBlockRows (refs : Refs) (d : Decl) (ty : Ty) (mode : Mode) (base : Ctx) (sb : SBlock) : List (List DVal) :=
  (specInsert refs d ty mode base [sb.ab]).getD []

/-- the property fixes the rows of every item of the block -/
def Fixed (refs : Refs) (d : Decl) (ty : Ty) (mode : Mode) (base : Ctx) (sb : SBlock) : Prop :=
  (specInsert refs d ty mode base [sb.ab]).isSome = true

theorem specItems_single (refs : Refs) (d : Decl) (ty : Ty) (mode : Mode) (base : Ctx) (b : ABlock) (bs : List ABlock) :
    specItems refs d ty mode base (b :: bs) =
      specItems refs d ty mode base [b] ++ specItems refs d ty mode base bs := by
  simp [specItems]

theorem joinSpec_join {a b : List SpecOut} {r1 r2 : List (List DVal)} (h1 : joinSpec a = some r1)
    (h2 : joinSpec b = some r2) : joinSpec (a ++ b) = some (r1 ++ r2) := by
  induction a generalizing r1 with
  | nil => simp only [joinSpec] at h1; injection h1 with h1; subst h1; simpa using h2
  | cons x xs ih =>
    cases x with
    | unspecified => simp [joinSpec] at h1
    | rows rs =>
      simp only [joinSpec] at h1
      cases hj : joinSpec xs with
      | none => rw [hj] at h1; cases h1
      | some r' =>
        rw [hj] at h1
        simp only [Option.map_some] at h1
        injection h1 with h1; subst h1
        simp only [List.cons_append, joinSpec, ih hj, Option.map_some, List.append_assoc]

/-- the specification of a batch is the concatenation of the specifications of its blocks -/
theorem specInsert_flat (refs : Refs) (d : Decl) (ty : Ty) (mode : Mode) (base : Ctx) :
    ∀ (sbs : List SBlock), (∀ sb ∈ sbs, Fixed refs d ty mode base sb) →
      specInsert refs d ty mode base (sbs.map (·.ab)) = some (sbs.flatMap (specBlockRows refs d ty mode base))
  | [], _ => rfl
  | sb :: rest, h => by
    have ih := specInsert_flat refs d ty mode base rest (fun x hx => h x (List.mem_cons_of_mem _ hx))
    have h1 := h sb (List.mem_cons_self ..)
    unfold Fixed at h1
    unfold specInsert at ih h1 ⊢
    simp only [List.map_cons]
    rw [specItems_single]
    cases hs : joinSpec (specItems refs d ty mode base [sb.ab]) with
    | none => rw [hs] at h1; cases h1
    | some r1 =>
      rw [joinSpec_join hs ih]
      simp only [List.flatMap_cons, specBlockRows, specInsert, hs, Option.getD_some]

/-- **insert_batch_flat**: what `Insert` writes for a batch is the concatenation of what the property
    demands of each block — from every state of the reused decoder, which is left ready for the next batch -/
theorem insert_batch_flat (refs : Refs) (d : Decl) (ty : Ty) (hd : DeclOK d ty) (mode : Mode) (base : Ctx)
    (sbs : List SBlock) (s : Abi.St) (hs : Abi.WF s ty.nsel)
    (hok : BatchOK d ty (sbs.map (·.ab))) (hfix : ∀ sb ∈ sbs, Fixed refs d ty mode base sb) :
    ∃ s', insert refs d ty mode base ((sbs.map (·.ab)).map (ABlock.toE ty)) s =
        Res.ok (sbs.flatMap (specBlockRows refs d ty mode base), s') ∧ Abi.WF s' ty.nsel :=
  insert_exact refs d ty hd mode base (sbs.map (·.ab)) s hs hok _ (specInsert_flat refs d ty mode base sbs hfix)

/-! ### `Task.insert`: how the loaded batch reaches `Integration.Insert`

    `for i := 0; i < len(blocks); i += t.batchSize { n := min(i + batchSize, len); dests[i].Insert(blocks[i:n]) }` -/

/-- the `(i, n)` chunks of `Task.insert` for `len` loaded blocks (fuel = `len`: `i` grows by at least one) -/
def insertChunks (len batch : Nat) : Nat → Nat → List (Nat × Nat)
  | 0, _ => []
  | fuel + 1, i => if i < len then (i, min (i + batch) len) :: insertChunks len batch fuel (i + max batch 1) else []

/-- the chunks are consecutive, start at 0 and end at `len`: every loaded block is handed over exactly once, in order -/
theorem insertChunks_cover (len batch : Nat) (hb : 1 ≤ batch) : ∀ (fuel i : Nat), len - i ≤ fuel → i ≤ len →
    (insertChunks len batch fuel i).flatMap (fun c => (List.range (c.2 - c.1)).map (· + c.1)) =
      (List.range (len - i)).map (· + i)
  | 0, i, hf, hi => by
    have : len - i = 0 := by omega
    simp [insertChunks, this]
  | fuel + 1, i, hf, hi => by
    unfold insertChunks
    by_cases hlt : i < len
    · simp only [hlt, if_true, List.flatMap_cons]
      have hm : max batch 1 = batch := by omega
      rw [hm]
      by_cases hlast : i + batch ≥ len
      · have hmin : min (i + batch) len = len := by omega
        rw [hmin]
        have hrest : insertChunks len batch fuel (i + batch) = [] := by
          cases fuel with
          | zero => rfl
          | succ f => unfold insertChunks; rw [if_neg (by omega)]
        simp [hrest]
      · have hmin : min (i + batch) len = i + batch := by omega
        rw [hmin, insertChunks_cover len batch hb fuel (i + batch) (by omega) (by omega)]
        have e1 : i + batch - i = batch := by omega
        have e2 : len - i = batch + (len - (i + batch)) := by omega
        rw [e1, e2, List.range_add, List.map_append, List.map_map]
        congr 1
        apply List.map_congr_left
        intro a _
        simp only [Function.comp]
        omega
    · have : len - i = 0 := by omega
      simp [hlt, this]

/-- **insert_single_call**: a step loads at most `batch_size` blocks (`step_exact`), so `Task.insert` makes
    exactly ONE `Insert` call with the whole batch (and `dests[0]`): the batch-level theorem `insert_exact`
    is about precisely what the task hands to the row builder -/
theorem insert_single_call (len batch : Nat) (h1 : 1 ≤ len) (h2 : len ≤ batch) :
    insertChunks len batch len 0 = [(0, len)] := by
  cases len with
  | zero => omega
  | succ k =>
    unfold insertChunks
    have hm : max batch 1 = batch := by omega
    simp only [Nat.zero_lt_succ, if_true, Nat.zero_add, hm]
    have hmin : min batch (k + 1) = k + 1 := by omega
    rw [hmin]
    cases k with
    | zero => rfl
    | succ j => unfold insertChunks; rw [if_neg (by omega)]

/-- the World model's view of a block: header data and the projected rows as (unique key, payload) -/
def toBlk (refs : Refs) (d : Decl) (ty : Ty) (mode : Mode) (base : Ctx) (key pay : List DVal → String)
    (sb : SBlock) : Blk :=
  { num := sb.num, hash := sb.hash, parent := sb.parent,
    rows := (specBlockRows refs d ty mode base sb).map fun r => (key r, pay r) }

def chainOf (refs : Refs) (d : Decl) (ty : Ty) (mode : Mode) (base : Ctx) (key pay : List DVal → String)
    (sbs : List SBlock) : Chain := ⟨sbs.map (toBlk refs d ty mode base key pay)⟩

/-- the table rows the declaration derives from one block for task `t` -/
def tableRows (t : Task) (refs : Refs) (d : Decl) (ty : Ty) (mode : Mode) (base : Ctx) (key pay : List DVal → String)
    (sb : SBlock) : List TRow :=
  (specBlockRows refs d ty mode base sb).map fun r =>
    { table := t.table, src := t.src, ig := t.ig, blk := sb.num, key := key r, pay := pay r }

/-- **system_table_exact** (C01 end to end).  Chain of blocks `sbs` (block `i` at index `i`), a task
    `t` of a declaration `d` with a configured start and no stop; `key`/`pay` render a row's unique key
    and its content.  From any database satisfying the invariant (e.g. the empty one), after at
    least `head − position` healthy fault-free steps: the position is the head, and the task's rows
    are EXACTLY the specified rows of blocks `start..head`, block by block in order — and those are
    the rows `Insert` produces for any batch of these blocks (`insert_batch_flat`). -/
theorem system_table_exact (t : Task) (refs : Refs) (d : Decl) (ty : Ty) (mode : Mode) (base : Ctx)
    (key pay : List DVal → String) (sbs : List SBlock) (db : DB)
    (hc : (chainOf refs d ty mode base key pay sbs).WF) (hstart : 0 < t.start) (hb : 1 ≤ t.batch)
    (hcc : 1 ≤ t.conc) (hcb : t.conc * t.batch < 2 ^ 63)
    (hhead : (chainOf refs d ty mode base key pay sbs).head < 2 ^ 62) (hdeps : t.deps = [])
    (hinv : Inv t (chainOf refs d ty mode base key pay sbs) (t.start - 1) db)
    (hk : KeysOK t (chainOf refs d ty mode base key pay sbs) db) (hstop : t.stop = 0)
    (hsh : t.start - 1 ≤ (chainOf refs d ty mode base key pay sbs).head)
    (m : Nat)
    (hm : (chainOf refs d ty mode base key pay sbs).head -
      (topOf (db.cur.filter (mineC t))).getD (t.start - 1) ≤ m) :
    let c := chainOf refs d ty mode base key pay sbs
    let db' := run t c m db
    (topOf (db'.cur.filter (mineC t))).getD (t.start - 1) = c.head ∧
    db'.rows.filter (mine t) =
      ((sbs.drop t.start).take (c.head - (t.start - 1))).flatMap (tableRows t refs d ty mode base key pay) := by
  intro c db'
  obtain ⟨_, _, h3, h4⟩ := reaches_head t c db hc hstart hb hcc hcb hhead hdeps hinv hk hstop hsh m hm
  refine ⟨h3, ?_⟩
  rw [h4]
  show (((sbs.map (toBlk refs d ty mode base key pay)).drop t.start).take (c.head - (t.start - 1))).flatMap (rowsFor t) = _
  rw [← List.map_drop, ← List.map_take, List.flatMap_map]
  congr 1
  funext sb
  simp [rowsFor, toBlk, tableRows, List.map_map, Function.comp_def]

/-- the projection of a stretch of the chain, in terms of the specified rows of its blocks -/
theorem slice_chainOf (t : Task) (refs : Refs) (d : Decl) (ty : Ty) (mode : Mode) (base : Ctx)
    (key pay : List DVal → String) (sbs : List SBlock) (a n : Nat) :
    ((chainOf refs d ty mode base key pay sbs).slice a n).flatMap (rowsFor t) =
      ((sbs.drop a).take n).flatMap (tableRows t refs d ty mode base key pay) := by
  show (((sbs.map (toBlk refs d ty mode base key pay)).drop a).take n).flatMap (rowsFor t) = _
  rw [← List.map_drop, ← List.map_take, List.flatMap_map]
  congr 1
  funext sb
  simp [rowsFor, toBlk, tableRows, List.map_map, Function.comp_def]

/-- **system_after_reorg** (C03 end to end).  `sbs` is the NEW canonical chain; the database holds
    positions and rows written on the old one: recorded positions up to `g` are blocks of the new chain
    (the fork is above `g`), the positions above `g` (at most 1000) are orphaned, the rows up to `g` are the
    specified rows of the new chain's blocks (they are common to both).  After the unwinding step and
    `head − (start − 1)` or more healthy steps: the position is the new head, and the table is EXACTLY the
    specified rows of the new chain's blocks `start..head` — the rows of the common blocks untouched,
    the orphaned rows gone, the rows of the replacing blocks present once. -/
theorem system_after_reorg (t : Task) (refs : Refs) (d : Decl) (ty : Ty) (mode : Mode) (base : Ctx)
    (key pay : List DVal → String) (sbs : List SBlock) (db : DB) (sc : Script) (g : Cur)
    (hc : (chainOf refs d ty mode base key pay sbs).WF)
    (hsc : ScriptOK (chainOf refs d ty mode base key pay sbs) sc) (hstart : 0 < t.start) (hb : 1 ≤ t.batch)
    (hcc : 1 ≤ t.conc) (hcb : t.conc * t.batch < 2 ^ 63)
    (hhead : (chainOf refs d ty mode base key pay sbs).head < 2 ^ 62) (hdeps : t.deps = []) (hstop : t.stop = 0)
    (hnodup : ((db.cur.filter (mineC t)).map (·.num)).Nodup)
    (hg : g ∈ db.cur.filter (mineC t))
    (hbelow : ∀ x ∈ db.cur.filter (mineC t), x.num ≤ g.num →
      t.start - 1 < x.num ∧ x.num ≤ (chainOf refs d ty mode base key pay sbs).head ∧
        x.hash = (chainOf refs d ty mode base key pay sbs).hashAt x.num)
    (habove : ∀ x ∈ db.cur.filter (mineC t), g.num < x.num →
      x.hash ≠ (chainOf refs d ty mode base key pay sbs).hashAt x.num)
    (hcount : ((db.cur.filter (mineC t)).filter fun x => g.num < x.num).length ≤ 1000)
    (hrows : (db.rows.filter fun r => mine t r && decide (r.blk ≤ g.num)) =
      ((chainOf refs d ty mode base key pay sbs).slice t.start (g.num - (t.start - 1))).flatMap (rowsFor t))
    (hk : KeysOK t (chainOf refs d ty mode base key pay sbs)
      { db with rows := db.rows.filter fun r => !(mine t r && decide (g.num < r.blk)) })
    (hnone : (∀ x ∈ db.cur.filter (mineC t), x.num ≤ g.num) → ∀ r ∈ db.rows, mine t r = true → r.blk ≤ g.num)
    (hgrow : ∀ x ∈ db.cur.filter (mineC t), x.num < (chainOf refs d ty mode base key pay sbs).head)
    (hhonest : (∀ a ∈ sc.latest, a = some ((chainOf refs d ty mode base key pay sbs).head,
        (chainOf refs d ty mode base key pay sbs).hashAt (chainOf refs d ty mode base key pay sbs).head)) ∧
      (∀ p ∈ sc.hash, p.2 ≠ none) ∧ (∀ q ∈ sc.gets, q.2 ≠ none))
    (hok : (converge t db sc none).scriptOk = true)
    (m : Nat) (hm : (chainOf refs d ty mode base key pay sbs).head - (t.start - 1) ≤ m) :
    let c := chainOf refs d ty mode base key pay sbs
    let db' := run t c m (converge t db sc none).db
    (topOf (db'.cur.filter (mineC t))).getD (t.start - 1) = c.head ∧
    db'.rows.filter (mine t) =
      ((sbs.drop t.start).take (c.head - (t.start - 1))).flatMap (tableRows t refs d ty mode base key pay) ∧
    db'.rows.filter (mine t) =
      (db.rows.filter fun r => mine t r && decide (r.blk ≤ g.num)) ++
        ((sbs.drop (g.num + 1)).take (c.head - g.num)).flatMap (tableRows t refs d ty mode base key pay) := by
  intro c db'
  obtain ⟨_, _, h3, h4, h5⟩ := converges_after_reorg t c db sc g hc hsc hstart hb hcc hcb hhead hdeps hstop hnodup hg
    hbelow habove hcount hrows hk hnone hgrow hhonest hok m hm
  refine ⟨h3, ?_, ?_⟩
  · rw [h4]; exact slice_chainOf t refs d ty mode base key pay sbs _ _
  · rw [h5, slice_chainOf]

/-- **system_stopped_at_stop** (C06 end to end): with a stop configured within the chain, after enough healthy
    steps the position is exactly the stop, the table is exactly the specified rows of blocks `start..stop`,
    and from then on every step — whatever the source answers — reports done and changes nothing -/
theorem system_stopped_at_stop (t : Task) (refs : Refs) (d : Decl) (ty : Ty) (mode : Mode) (base : Ctx)
    (key pay : List DVal → String) (sbs : List SBlock) (db : DB)
    (hc : (chainOf refs d ty mode base key pay sbs).WF) (hstart : 0 < t.start) (hb : 1 ≤ t.batch)
    (hcc : 1 ≤ t.conc) (hcb : t.conc * t.batch < 2 ^ 63)
    (hhead : (chainOf refs d ty mode base key pay sbs).head < 2 ^ 62) (hdeps : t.deps = [])
    (hinv : Inv t (chainOf refs d ty mode base key pay sbs) (t.start - 1) db)
    (hk : KeysOK t (chainOf refs d ty mode base key pay sbs) db)
    (hstop : 0 < t.stop) (hsh : t.stop ≤ (chainOf refs d ty mode base key pay sbs).head) (hss : t.start ≤ t.stop)
    (htop : (topOf (db.cur.filter (mineC t))).getD (t.start - 1) ≤ t.stop)
    (m : Nat) (hm : t.stop - (topOf (db.cur.filter (mineC t))).getD (t.start - 1) ≤ m) :
    let c := chainOf refs d ty mode base key pay sbs
    let db' := run t c m db
    (topOf (db'.cur.filter (mineC t))).getD (t.start - 1) = t.stop ∧
    db'.rows.filter (mine t) =
      ((sbs.drop t.start).take (t.stop - (t.start - 1))).flatMap (tableRows t refs d ty mode base key pay) ∧
    (∀ sc, (converge t db' sc none).outcome = .done ∧ (converge t db' sc none).db = db') := by
  intro c db'
  obtain ⟨_, h2, h3, h4, _⟩ := stopped_at_stop t c db hc hstart hb hcc hcb hhead hdeps hinv hk hstop hsh hss htop m hm
  exact ⟨h2, by rw [h3]; exact slice_chainOf t refs d ty mode base key pay sbs _ _, h4⟩

/-- **system_despite_faults** (C01 / C02 end to end): any finite period of steps with arbitrary honest-or-failed
    source answers and database faults, then enough healthy steps: the position is the head and the table is
    exactly the specified rows of blocks `start..head` -/
theorem system_despite_faults (t : Task) (refs : Refs) (d : Decl) (ty : Ty) (mode : Mode) (base : Ctx)
    (key pay : List DVal → String) (sbs : List SBlock) (steps : List (Script × Option Pos)) (db : DB)
    (hc : (chainOf refs d ty mode base key pay sbs).WF) (hstart : 0 < t.start) (hb : 1 ≤ t.batch)
    (hcc : 1 ≤ t.conc) (hcb : t.conc * t.batch < 2 ^ 63)
    (hhead : (chainOf refs d ty mode base key pay sbs).head < 2 ^ 62) (hdeps : t.deps = [])
    (hinv : Inv t (chainOf refs d ty mode base key pay sbs) (t.start - 1) db)
    (hk : KeysOK t (chainOf refs d ty mode base key pay sbs) db)
    (hall : AllOK (chainOf refs d ty mode base key pay sbs) steps) (hstop : t.stop = 0)
    (hsh : t.start - 1 ≤ (chainOf refs d ty mode base key pay sbs).head)
    (m : Nat) (hm : (chainOf refs d ty mode base key pay sbs).head - (t.start - 1) ≤ m) :
    let c := chainOf refs d ty mode base key pay sbs
    let db' := run t c m (troubled t steps db)
    (topOf (db'.cur.filter (mineC t))).getD (t.start - 1) = c.head ∧
    db'.rows.filter (mine t) =
      ((sbs.drop t.start).take (c.head - (t.start - 1))).flatMap (tableRows t refs d ty mode base key pay) := by
  intro c db'
  obtain ⟨_, _, h3, h4⟩ := converges_despite_faults t c steps db hc hstart hb hcc hcb hhead hdeps hinv hk hall hstop hsh m hm
  exact ⟨h3, by rw [h4]; exact slice_chainOf t refs d ty mode base key pay sbs _ _⟩

/-! ### non-vacuity: a three-block chain carrying ERC-20 transfers, indexed by the `Transfer` declaration -/

namespace Example
open Shovel.World.Ex Shovel.Row.Example Shovel.Insert.Example

/-- decimal digits by structural recursion on fuel (reduces in the kernel, unlike `Nat.repr`) -/
def digitsF : Nat → Nat → List Char
  | 0, _ => []
  | f + 1, n => if n < 10 then [Char.ofNat (48 + n)] else digitsF f (n / 10) ++ [Char.ofNat (48 + n % 10)]
def natStr (n : Nat) : String := String.ofList (digitsF 80 n)

def showD : DVal → String
  | .bytes b => "x" ++ hexOfBytes b
  | .str b => "s" ++ hexOfBytes b
  | .u64 n => natStr n | .u256 n => natStr n | .neg n => natStr n.toNat
  | .bool b => if b then "t" else "f" | .byte n => natStr n | .int n => natStr n | .null => "nil"

/-- payload: every cell; unique key: here the whole row as well (the rows carry block/tx/log indices) -/
def pay (r : List DVal) : String := ",".intercalate (r.map showD)

/-- the declaration with the identity fields `block_num`, `tx_idx`, `log_idx` selected too -/
def transferId : Decl := { transfer with block := transfer.block ++ [("block_num", {}), ("tx_idx", {}), ("log_idx", {})] }

def chain3 : List SBlock :=
  [ { num := 0, hash := hx '0', parent := hx 'f', ab := { fields := [("block_num", .u64 0)], txs := [] } },
    { num := 1, hash := hx '1', parent := hx '0', ab := { batch.getD 0 ⟨[], []⟩ with fields := [("block_num", .u64 1)] } },
    { num := 2, hash := hx '2', parent := hx '1', ab := { batch.getD 1 ⟨[], []⟩ with fields := [("block_num", .u64 2)] } } ]

def task : Task := { src := "s", ig := "i", table := "transfers", start := 1, stop := 0, batch := 2, conc := 2, deps := [] }

/-- every hypothesis of `system_table_exact` holds of the example: after two steps the table holds
    exactly the two specified rows (the transfer of the other token and the decoy log yield nothing) -/
example :
    let c := chainOf [] transferId ty .log [] pay pay chain3
    let db' := run task c 2 {}
    (topOf (db'.cur.filter (mineC task))).getD (task.start - 1) = c.head ∧
    db'.rows.filter (mine task) =
      ((chain3.drop task.start).take (c.head - (task.start - 1))).flatMap (tableRows task [] transferId ty .log [] pay pay) :=
  system_table_exact task [] transferId ty .log [] pay pay chain3 {}
    (Chain.wfb_sound _ (by decide +kernel)) (by decide) (by decide) (by decide) (by decide) (by decide +kernel) rfl
    (by decide +kernel) (by decide +kernel) rfl (by decide +kernel) 2 (by decide +kernel)

example : ((chain3.drop 1).take 2).flatMap (tableRows task [] transferId ty .log [] pay pay) =
    [ { table := "transfers", src := "s", ig := "i", blk := 1,
        key := "x00000000000000000000000000000000000000bb,1000,xa0b86991c6218b36c1d19d4a2e9eb0ce3606eb48,0,1,0,0",
        pay := "x00000000000000000000000000000000000000bb,1000,xa0b86991c6218b36c1d19d4a2e9eb0ce3606eb48,0,1,0,0" },
      { table := "transfers", src := "s", ig := "i", blk := 2,
        key := "x00000000000000000000000000000000000000aa,1000,xa0b86991c6218b36c1d19d4a2e9eb0ce3606eb48,0,2,3,0",
        pay := "x00000000000000000000000000000000000000aa,1000,xa0b86991c6218b36c1d19d4a2e9eb0ce3606eb48,0,2,3,0" } ] := by
  decide +kernel

/-- `system_stopped_at_stop`: the same task with stop 1 on the three-block chain -/
example :
    let t := { task with stop := 1 }
    let c := chainOf [] transferId ty .log [] pay pay chain3
    let db' := run t c 1 {}
    (topOf (db'.cur.filter (mineC t))).getD (t.start - 1) = 1 ∧
    db'.rows.filter (mine t) = ((chain3.drop 1).take 1).flatMap (tableRows t [] transferId ty .log [] pay pay) ∧
    (∀ sc, (converge t db' sc none).outcome = .done ∧ (converge t db' sc none).db = db') :=
  system_stopped_at_stop { task with stop := 1 } [] transferId ty .log [] pay pay chain3 {}
    (Chain.wfb_sound _ (by decide +kernel)) (by decide) (by decide) (by decide) (by decide) (by decide +kernel) rfl
    (by decide +kernel) (by decide +kernel) (by decide) (by decide +kernel) (by decide) (by decide +kernel) 1 (by decide +kernel)

/-- `system_despite_faults`: the process dies at the second commit, then the connection drops at the insert,
    then two healthy steps -/
def periodS : List (Script × Option Pos) :=
  [(Script.full (chainOf [] transferId ty .log [] pay pay chain3) task 0, some .commit2),
   (Script.full (chainOf [] transferId ty .log [] pay pay chain3) task 0, some .insert)]

example :
    let c := chainOf [] transferId ty .log [] pay pay chain3
    let db' := run task c 2 (troubled task periodS {})
    (topOf (db'.cur.filter (mineC task))).getD (task.start - 1) = c.head ∧
    db'.rows.filter (mine task) =
      ((chain3.drop task.start).take (c.head - (task.start - 1))).flatMap (tableRows task [] transferId ty .log [] pay pay) :=
  system_despite_faults task [] transferId ty .log [] pay pay chain3 periodS {}
    (Chain.wfb_sound _ (by decide +kernel)) (by decide) (by decide) (by decide) (by decide) (by decide +kernel) rfl
    (by decide +kernel) (by decide +kernel)
    (by intro p hp
        simp only [periodS, List.mem_cons, List.not_mem_nil, or_false] at hp
        rcases hp with rfl | rfl <;> exact Script.full_scriptOK _ task 0 (by decide +kernel))
    rfl (by decide +kernel) 2 (by decide +kernel)

/-! the reorg theorem: chain of four blocks (the fourth empty), recorded positions 1 (canonical) and 2 (orphaned,
    another hash), the row of block 1 and an orphaned row of block 2 -/

def chain4 : List SBlock := chain3 ++ [{ num := 3, hash := hx '3', parent := hx '2', ab := { fields := [("block_num", .u64 3)], txs := [] } }]

def c4 : Chain := chainOf [] transferId ty .log [] pay pay chain4

def dbReorg : DB :=
  { cur := [{ src := "s", ig := "i", num := 1, hash := hx '1' }, { src := "s", ig := "i", num := 2, hash := hx 'e' }],
    rows := (tableRows task [] transferId ty .log [] pay pay (chain4.getD 1 ⟨0, "", "", ⟨[], []⟩⟩)) ++
      [{ table := "transfers", src := "s", ig := "i", blk := 2, key := "orphan", pay := "orphan" }] }

def scReorg : Script :=
  { latest := [some (3, c4.hashAt 3), some (3, c4.hashAt 3)], hash := [],
    gets := [((3, 1), some (c4.slice 3 1)), ((2, 1), some (c4.slice 2 1)), ((3, 1), some (c4.slice 3 1))] }

/-- every hypothesis of `system_after_reorg` holds of the example; the conclusion: position 3, the table is the
    row of block 1 (untouched) and the specified row of the NEW block 2 — the orphaned row is gone -/
example :
    let db' := run task c4 3 (converge task dbReorg scReorg none).db
    (topOf (db'.cur.filter (mineC task))).getD (task.start - 1) = c4.head ∧
    db'.rows.filter (mine task) =
      ((chain4.drop task.start).take (c4.head - (task.start - 1))).flatMap (tableRows task [] transferId ty .log [] pay pay) ∧
    db'.rows.filter (mine task) =
      (dbReorg.rows.filter fun r => mine task r && decide (r.blk ≤ 1)) ++
        ((chain4.drop 2).take (c4.head - 1)).flatMap (tableRows task [] transferId ty .log [] pay pay) :=
  system_after_reorg task [] transferId ty .log [] pay pay chain4 dbReorg scReorg
    { src := "s", ig := "i", num := 1, hash := hx '1' }
    (Chain.wfb_sound _ (by decide +kernel)) (scriptOKb_sound _ _ (by decide +kernel)) (by decide) (by decide) (by decide) (by decide)
    (by decide +kernel) rfl rfl (by decide +kernel) (by decide +kernel) (by decide +kernel) (by decide +kernel)
    (by decide +kernel) (by decide +kernel) (by decide +kernel) (by decide +kernel) (by decide +kernel)
    (by decide +kernel) (by decide +kernel) 3 (by decide +kernel)

example : (run task c4 3 (converge task dbReorg scReorg none).db).rows.map (·.blk) = [1, 2] ∧
    (run task c4 3 (converge task dbReorg scReorg none).db).rows.all (·.key != "orphan") := by decide +kernel

end Example

end Shovel.System

#print axioms Shovel.System.insert_batch_flat
#print axioms Shovel.System.system_table_exact
#print axioms Shovel.System.system_after_reorg
#print axioms Shovel.System.system_stopped_at_stop
#print axioms Shovel.System.system_despite_faults
#print axioms Shovel.System.insert_single_call
#print axioms Shovel.System.insertChunks_cover
