import Shovel.Model.Row
/-
  Theorems about `Shovel.Row.decodeHexStr`, the model of `eth.DecodeHex`:
  every byte string round-trips through its hex rendering (either letter case, with or without
  the `0x` / `0X` prefix, leading zero bytes kept), an odd number of digits is read as if a `0`
  had been written in front, and the result is never longer than half the input (rounded up).
-/
namespace Shovel.Row

/-! ## hex rendering -/

/-- the hex digit of a nibble, upper-case letters when `upper` -/
def hexDigit (upper : Bool) (n : Nat) : Char :=
  if n < 10 then Char.ofNat (48 + n) else if upper then Char.ofNat (55 + n) else Char.ofNat (87 + n)

/-- two digits per byte, most significant nibble first -/
def hexStr (upper : Bool) : List Nat → List Char
  | [] => []
  | b :: bs => hexDigit upper (b / 16) :: hexDigit upper (b % 16) :: hexStr upper bs

/-! ## the two pre-processing steps of the model, named -/

/-- `if len(s) >= 2 && s[0] == '0' && (s[1] == 'x' || s[1] == 'X') { s = s[2:] }` -/
def strip0x : List Char → List Char
  | '0' :: 'x' :: r => r
  | '0' :: 'X' :: r => r
  | r => r

/-- `if len(s)%2 == 1 { s = "0" + s }` -/
def padOdd (cs : List Char) : List Char := if cs.length % 2 == 1 then '0' :: cs else cs

theorem decodeHexStr_eq (s : String) :
    decodeHexStr s = decodeHexStr.go (padOdd (strip0x s.toList)) := by
  unfold decodeHexStr
  simp only [padOdd]
  congr 1
  all_goals (unfold strip0x; split <;> rfl)

theorem decodeHexStr_ofList (l : List Char) :
    decodeHexStr (String.ofList l) = decodeHexStr.go (padOdd (strip0x l)) := by
  rw [decodeHexStr_eq, String.toList_ofList]

/-! ## helper lemmas -/

theorem hexDigitVal_lt16 {c n : Nat} (h : hexDigitVal c = some n) : n < 16 := by
  unfold hexDigitVal at h
  split at h
  · injection h; omega
  · split at h
    · injection h; omega
    · split at h
      · injection h; omega
      · contradiction

theorem hexDigit_val : ∀ n, n < 16 → ∀ u, hexDigitVal (hexDigit u n).toNat = some n := by
  decide

theorem hexDigit_ne_x : ∀ n, n < 16 → ∀ u, hexDigit u n ≠ 'x' ∧ hexDigit u n ≠ 'X' := by
  decide

theorem hexStr_length (u : Bool) (bs : List Nat) : (hexStr u bs).length = 2 * bs.length := by
  induction bs with
  | nil => rfl
  | cons b bs ih => simp only [hexStr, List.length_cons, ih]; omega

theorem go_hexStr (u : Bool) (bs : List Nat) (hb : ∀ b ∈ bs, b < 256) :
    decodeHexStr.go (hexStr u bs) = bs := by
  induction bs with
  | nil => rfl
  | cons b bs ih =>
    have hlt : b < 256 := hb b (by simp)
    have h1 := hexDigit_val (b / 16) (by omega) u
    have h2 := hexDigit_val (b % 16) (by omega) u
    simp only [hexStr, decodeHexStr.go, h1, h2, ih (fun x hx => hb x (by simp [hx]))]
    congr 1; omega

/-- a hex rendering never begins with the characters `0x` / `0X`: its second character is a
    hex digit -/
theorem strip0x_hexStr (u : Bool) (bs : List Nat) (hb : ∀ b ∈ bs, b < 256) :
    strip0x (hexStr u bs) = hexStr u bs := by
  cases bs with
  | nil => rfl
  | cons b bs =>
    have hlt : b < 256 := hb b (by simp)
    have h := hexDigit_ne_x (b % 16) (by omega) u
    simp only [hexStr]
    unfold strip0x
    split
    · next heq => injection heq with _ h'; injection h' with h' _; exact absurd h' h.1
    · next heq => injection heq with _ h'; injection h' with h' _; exact absurd h' h.2
    · rfl

/-- the same for an odd rendering (a lone digit in front) -/
theorem strip0x_odd (u : Bool) (d : Nat) (bs : List Nat) (hb : ∀ b ∈ bs, b < 256) :
    strip0x (hexDigit u d :: hexStr u bs) = hexDigit u d :: hexStr u bs := by
  cases bs with
  | nil =>
    simp only [hexStr]
    unfold strip0x
    split
    · next heq => injection heq with _ h'; contradiction
    · next heq => injection heq with _ h'; contradiction
    · rfl
  | cons b bs =>
    have hlt : b < 256 := hb b (by simp)
    have h := hexDigit_ne_x (b / 16) (by omega) u
    simp only [hexStr]
    unfold strip0x
    split
    · next heq => injection heq with _ h'; injection h' with h' _; exact absurd h' h.1
    · next heq => injection heq with _ h'; injection h' with h' _; exact absurd h' h.2
    · rfl

theorem strip0x_pre (pre : List Char) (hpre : pre = ['0', 'x'] ∨ pre = ['0', 'X']) (r : List Char) :
    strip0x (pre ++ r) = r := by
  rcases hpre with rfl | rfl <;> rfl

theorem padOdd_even (cs : List Char) (h : cs.length % 2 = 0) : padOdd cs = cs := by
  simp [padOdd, h]

theorem padOdd_odd (cs : List Char) (h : cs.length % 2 = 1) : padOdd cs = '0' :: cs := by
  simp [padOdd, h]

/-! ## the theorems -/

/-- **decodeHex_exact**: every byte string round-trips, with or without the prefix, in either
    letter case — including byte strings that begin with zero bytes, and the empty one. -/
theorem decodeHex_exact (bs : List Nat) (hb : ∀ b ∈ bs, b < 256) (upper : Bool) (pre : List Char)
    (hpre : pre = [] ∨ pre = ['0', 'x'] ∨ pre = ['0', 'X']) :
    decodeHexStr (String.ofList (pre ++ hexStr upper bs)) = bs := by
  rw [decodeHexStr_ofList]
  have hs : strip0x (pre ++ hexStr upper bs) = hexStr upper bs := by
    rcases hpre with rfl | hpre
    · exact strip0x_hexStr upper bs hb
    · exact strip0x_pre pre hpre _
  rw [hs, padOdd_even _ (by rw [hexStr_length]; omega)]
  exact go_hexStr upper bs hb

/-- **decodeHex_odd**: an odd number of digits is read as if a `0` had been written in front:
    the first byte is the lone digit's value. Holds for the empty prefix too. -/
theorem decodeHex_odd (bs : List Nat) (hb : ∀ b ∈ bs, b < 256) (d : Nat) (hd : d < 16)
    (upper : Bool) (pre : List Char)
    (hpre : pre = [] ∨ pre = ['0', 'x'] ∨ pre = ['0', 'X']) :
    decodeHexStr (String.ofList (pre ++ hexDigit upper d :: hexStr upper bs)) = d :: bs := by
  rw [decodeHexStr_ofList]
  have hs : strip0x (pre ++ hexDigit upper d :: hexStr upper bs)
      = hexDigit upper d :: hexStr upper bs := by
    rcases hpre with rfl | hpre
    · exact strip0x_odd upper d bs hb
    · exact strip0x_pre pre hpre _
  rw [hs, padOdd_odd _ (by rw [List.length_cons, hexStr_length]; omega)]
  have h0 : hexDigitVal ('0' : Char).toNat = some 0 := by decide
  simp only [decodeHexStr.go, h0, hexDigit_val d hd upper, go_hexStr upper bs hb]
  congr 1; omega

theorem go_length : ∀ cs : List Char, (decodeHexStr.go cs).length ≤ cs.length / 2
  | [] => by simp [decodeHexStr.go]
  | [_] => by simp [decodeHexStr.go]
  | a :: b :: rest => by
    have ih := go_length rest
    unfold decodeHexStr.go
    split
    · simp only [List.length_cons]; omega
    · simp

theorem go_lt256 : ∀ cs : List Char, ∀ b ∈ decodeHexStr.go cs, b < 256
  | [] => by simp [decodeHexStr.go]
  | [_] => by simp [decodeHexStr.go]
  | a :: c :: rest => by
    have ih := go_lt256 rest
    unfold decodeHexStr.go
    split
    · next x y hx hy =>
      intro b hbm
      rcases List.mem_cons.mp hbm with rfl | hbm
      · have := hexDigitVal_lt16 hx
        have := hexDigitVal_lt16 hy
        omega
      · exact ih b hbm
    · simp

theorem strip0x_length_le (cs : List Char) : (strip0x cs).length ≤ cs.length := by
  unfold strip0x
  split
  · simp only [List.length_cons]; omega
  · simp only [List.length_cons]; omega
  · exact Nat.le_refl _

theorem padOdd_length_half (cs : List Char) : (padOdd cs).length / 2 = (cs.length + 1) / 2 := by
  unfold padOdd
  split
  · next h => simp only [List.length_cons]
  · next h =>
    have : cs.length % 2 = 0 := by
      have : ¬ cs.length % 2 = 1 := by simpa using h
      omega
    omega

/-- **decodeHex_length**: the result has at most ⌈len/2⌉ bytes. -/
theorem decodeHex_length (s : String) : (decodeHexStr s).length ≤ (s.length + 1) / 2 := by
  rw [decodeHexStr_eq]
  have h1 := go_length (padOdd (strip0x s.toList))
  rw [padOdd_length_half] at h1
  have h2 := strip0x_length_le s.toList
  have h3 : s.toList.length = s.length := String.length_toList
  omega

/-- every element of the result is a byte -/
theorem decodeHex_lt256 (s : String) : ∀ b ∈ decodeHexStr s, b < 256 := by
  rw [decodeHexStr_eq]
  exact go_lt256 _

/-! ## concrete strings -/

example : decodeHexStr "0x0001ab" = [0, 1, 171] := by decide +kernel
example : decodeHexStr "0X00" = [0] := by decide +kernel
example : decodeHexStr "0x" = [] := by decide +kernel
example : decodeHexStr "abc" = [10, 188] := by decide +kernel
example : decodeHexStr "0x0000000000000000000000000000000000000000" = List.replicate 20 0 := by
  decide +kernel
example : (decodeHexStr "0x0000000000000000000000000000000000000000").length = 20 := by
  decide +kernel
example : decodeHexStr "0x12zz34" = [18] := by decide +kernel
-- upper-case and mixed-case digits, no prefix, leading zero byte without prefix
example : decodeHexStr "00FFaB" = [0, 255, 171] := by decide +kernel
example : decodeHexStr "0Xf" = [15] := by decide +kernel
-- a non-prefixed string that begins `0x` IS stripped (not a hex rendering: 'x' is no digit)
example : decodeHexStr "0x0x12" = [] := by decide +kernel

#print axioms decodeHex_exact
#print axioms decodeHex_odd
#print axioms decodeHex_length
#print axioms decodeHex_lt256

end Shovel.Row
