import Shovel.Spec.Insert
import Shovel.Props.Rows
import Shovel.Props.RowsTx
import Shovel.Props.C09
/-
  `Integration.Insert` (C01 "each matching log, transaction or trace yields its rows once and nothing
  else is present"; C09/C11 composed over a whole batch): for every declaration, every indexing mode,
  every batch of blocks whose logs are encodings of well-typed values (or logs of other events with
  arbitrary data), every state the reused decoder may be in — the rows `Insert` hands to COPY are
  exactly, in walk order, the rows the per-item specifications demand; and the decoder is left in a
  state from which the next call enjoys the same guarantee (`insert_exact`, `insert_twice`).
  Failure: the first failing item makes the whole call fail (`insert_first_error`).
-/
namespace Shovel.Insert
open Shovel.Row Shovel.Abi

/-- the hypotheses on the declaration's decoder type: inside the C09 domain, selected leaves numbered
    in declaration order (what `Event.ABIType` produces), indexed flags only on top-level inputs -/
structure DeclOK (d : Decl) (ty : Ty) : Prop where
  dom : ty.inDomain = true
  sel : ty.selList = List.range ty.nsel
  ix : ixOK d.inputs = true

theorem joinSpec_append {a b : List SpecOut} {r : List (List DVal)} (h : joinSpec (a ++ b) = some r) :
    ∃ r1 r2, joinSpec a = some r1 ∧ joinSpec b = some r2 ∧ r = r1 ++ r2 := by
  induction a generalizing r with
  | nil => exact ⟨[], r, rfl, h, rfl⟩
  | cons x xs ih =>
    cases x with
    | unspecified => simp [joinSpec] at h
    | rows rs =>
      simp only [List.cons_append, joinSpec] at h ⊢
      cases hj : joinSpec (xs ++ b) with
      | none => rw [hj] at h; cases h
      | some r' =>
        rw [hj] at h
        obtain ⟨r1, r2, h1, h2, h3⟩ := ih hj
        refine ⟨rs ++ r1, r2, by rw [h1]; rfl, h2, ?_⟩
        simp only [Option.map_some] at h
        injection h with h
        rw [← h, h3, List.append_assoc]

theorem processLog_gate_closed (refs : Refs) (d : Decl) (ctx : Ctx) (lg : Log)
    (sr : Res (List (List (Option (List Nat))))) (hg : gate (numIndexed d.inputs) d.sighash lg = false) :
    processLog refs d ctx lg sr = .ok [] := by
  unfold processLog
  simp [hg]

theorem cellsOf_eq (b : Buf) (s : St) : cellsOf b s = s.rows.map (fun row => row.map (cb b)) := rfl

theorem logStep_closed (refs : Refs) (d : Decl) (ty : Ty) (ctx : Ctx) (e : ELog) (s : St)
    (hg : gate (numIndexed d.inputs) d.sighash e.log = false) :
    logStep refs d ty ctx e s = .ok ([], s) := by
  unfold logStep
  simp [hg]

theorem logStep_data (refs : Refs) (d : Decl) (ty : Ty) (ctx : Ctx) (e : ELog) (s s' : St) (rows : List (List DVal))
    (hg : gate (numIndexed d.inputs) d.sighash e.log = true) (hlen : e.log.data.length > 0)
    (hscan : resultScan ⟨e.log.data, e.cap⟩ ty s = .ok s')
    (hrows : processLog refs d ctx e.log (.ok (cellsOf ⟨e.log.data, e.cap⟩ s')) = .ok rows) :
    logStep refs d ty ctx e s = .ok (rows, s') := by
  unfold logStep
  simp only [hg, Bool.not_true, Bool.false_eq_true, if_false, if_pos hlen, hscan, hrows]

theorem logStep_nodata (refs : Refs) (d : Decl) (ty : Ty) (ctx : Ctx) (e : ELog) (s : St) (rows : List (List DVal))
    (hg : gate (numIndexed d.inputs) d.sighash e.log = true) (hlen : e.log.data.length = 0)
    (hrows : processLog refs d ctx e.log .err = .ok rows) :
    logStep refs d ty ctx e s = .ok (rows, s) := by
  unfold logStep
  have hn : ¬ e.log.data.length > 0 := by omega
  simp only [hg, Bool.not_true, Bool.false_eq_true, if_false, if_neg hn, hrows]

/-- one log -/
theorem logStep_spec (refs : Refs) (d : Decl) (ty : Ty) (hd : DeclOK d ty) (ctx : Ctx) (l : ALog) (s : St)
    (hs : WF s ty.nsel) (hok : l.ok d ty) (rs : List (List DVal))
    (hspec : specLog refs d ty ctx l = .rows rs) :
    ∃ s', logStep refs d ty ctx (l.toE ty) s = .ok (rs, s') ∧ WF s' ty.nsel := by
  have hsel : ty.sels = List.range ty.nsel := by rw [← Ty.selList_eq_sels]; exact hd.sel
  have hlog : (l.toE ty).log = { topics := l.topics, data := l.data ty } := rfl
  have hcapE : (l.toE ty).cap = l.cap := rfl
  cases hp : l.payload with
  | enc v rest =>
    simp only [ALog.ok, hp] at hok
    obtain ⟨hwt, hpos, hsize, hcap⟩ := hok
    have hdat : l.data ty = enc ty v ++ rest := by simp [ALog.data, hp]
    simp only [specLog, hp] at hspec
    rw [hdat] at hspec hlog
    by_cases hg : gate (numIndexed d.inputs) d.sighash (l.toE ty).log = true
    · obtain ⟨s', h1, h2, h3⟩ := scan_encode_core_wf ty v rest l.cap s hd.dom hsel hwt hsize hcap hs
      refine ⟨s', ?_, h3⟩
      apply logStep_data refs d ty ctx (l.toE ty) s s' rs hg
      · rw [hlog]; exact hpos
      · rw [hlog, hcapE]; exact h1
      · rw [hlog, hcapE, cellsOf_eq, h2]
        exact processLog_spec refs d ctx _ ty v rs hpos hd.ix hspec
    · have hg' : gate (numIndexed d.inputs) d.sighash (l.toE ty).log = false := by simpa using hg
      have hrs : rs = [] := by
        unfold specRows at hspec
        rw [hlog, gate_eq_spec] at hg'
        simp only [hg', Bool.not_false, if_true] at hspec
        injection hspec with hspec; exact hspec.symm
      subst hrs
      exact ⟨s, logStep_closed refs d ty ctx _ s hg', hs⟩
  | raw bs =>
    simp only [ALog.ok, hp] at hok
    have hdat : l.data ty = bs := by simp [ALog.data, hp]
    simp only [specLog, hp] at hspec
    rw [hdat] at hspec hlog
    by_cases hg : gate (numIndexed d.inputs) d.sighash (l.toE ty).log = true
    · have hm : isDeclared d l = true := by
        rw [hlog, gate_eq_spec] at hg; exact hg
      rcases hok with hnil | hno
      · subst hnil
        simp only [List.isEmpty_nil, if_true] at hspec
        refine ⟨s, ?_, hs⟩
        apply logStep_nodata refs d ty ctx (l.toE ty) s rs hg
        · rw [hlog]; rfl
        · rw [hlog]
          exact processLog_spec_nodata refs d ctx _ ty rs rfl hd.ix hspec .err
      · rw [hm] at hno; cases hno
    · have hg' : gate (numIndexed d.inputs) d.sighash (l.toE ty).log = false := by simpa using hg
      have hg2 := hg'
      rw [hlog, gate_eq_spec] at hg2
      have hm : isDeclared d l = false := hg2
      have hrs : rs = [] := by
        by_cases he : bs.isEmpty = true
        · rw [if_pos he] at hspec
          unfold specRows at hspec
          simp only [hg2, Bool.not_false, if_true] at hspec
          injection hspec with hspec; exact hspec.symm
        · rw [if_neg he, hm] at hspec
          simp only [Bool.false_eq_true, if_false] at hspec
          injection hspec with hspec; exact hspec.symm
      subst hrs
      exact ⟨s, logStep_closed refs d ty ctx _ s hg', hs⟩

/-- the logs of one transaction -/
theorem logsLoop_spec (refs : Refs) (d : Decl) (ty : Ty) (hd : DeclOK d ty) (ctx0 : Ctx) :
    ∀ (ls : List ALog) (s : St), WF s ty.nsel → (∀ l ∈ ls, l.ok d ty) → ∀ rs,
      joinSpec (ls.map fun l => specLog refs d ty (l.fields ++ ctx0) l) = some rs →
      ∃ s', logsLoop refs d ty ctx0 (ls.map (ALog.toE ty)) s = .ok (rs, s') ∧ WF s' ty.nsel
  | [], s, hs, _, rs, h => by
    simp only [List.map_nil, joinSpec] at h
    injection h with h; subst h
    exact ⟨s, rfl, hs⟩
  | l :: ls, s, hs, hok, rs, h => by
    simp only [List.map_cons] at h
    cases h1 : specLog refs d ty (l.fields ++ ctx0) l with
    | unspecified => rw [h1] at h; simp [joinSpec] at h
    | rows r1 =>
      rw [h1] at h
      simp only [joinSpec] at h
      cases h2 : joinSpec (ls.map fun l => specLog refs d ty (l.fields ++ ctx0) l) with
      | none => rw [h2] at h; cases h
      | some r2 =>
        rw [h2] at h
        simp only [Option.map_some] at h
        injection h with h; subst h
        obtain ⟨s1, e1, w1⟩ := logStep_spec refs d ty hd (l.fields ++ ctx0) l s hs
          (hok l (List.mem_cons_self ..)) r1 h1
        obtain ⟨s2, e2, w2⟩ := logsLoop_spec refs d ty hd ctx0 ls s1 w1
          (fun l' hl' => hok l' (List.mem_cons_of_mem _ hl')) r2 h2
        refine ⟨s2, ?_, w2⟩
        simp only [List.map_cons, logsLoop]
        have : (ALog.toE ty l).fields = l.fields := rfl
        rw [this, e1]
        simp only [e2]

/-- the trace actions of one transaction -/
theorem tracesLoop_spec (refs : Refs) (d : Decl) (ctx0 : Ctx) :
    ∀ (tas : List Ctx) rs, joinSpec (tas.map fun ta => specTxRows refs d (ta ++ ctx0)) = some rs →
      tracesLoop refs d ctx0 tas = .ok rs
  | [], rs, h => by
    simp only [List.map_nil, joinSpec] at h
    injection h with h; subst h; rfl
  | ta :: tas, rs, h => by
    simp only [List.map_cons] at h
    cases h1 : specTxRows refs d (ta ++ ctx0) with
    | unspecified => rw [h1] at h; simp [joinSpec] at h
    | rows r1 =>
      rw [h1] at h
      simp only [joinSpec] at h
      cases h2 : joinSpec (tas.map fun ta => specTxRows refs d (ta ++ ctx0)) with
      | none => rw [h2] at h; cases h
      | some r2 =>
        rw [h2] at h
        simp only [Option.map_some] at h
        injection h with h; subst h
        simp only [tracesLoop, processTx_spec refs d _ r1 h1, tracesLoop_spec refs d ctx0 tas r2 h2]

/-- the items of one transaction, as `specItems` lists them -/
def txItems (refs : Refs) (d : Decl) (ty : Ty) (mode : Mode) (ctx0 : Ctx) (t : ATx) : List SpecOut :=
  match mode with
  | .tx => [specTxRows refs d (t.fields ++ ctx0)]
  | .trace => t.traces.map fun ta => specTxRows refs d (ta ++ (t.fields ++ ctx0))
  | .log => t.logs.map fun l => specLog refs d ty (l.fields ++ (t.fields ++ ctx0)) l

theorem txStep_spec (refs : Refs) (d : Decl) (ty : Ty) (hd : DeclOK d ty) (mode : Mode) (ctx0 : Ctx)
    (t : ATx) (s : St) (hs : WF s ty.nsel) (hok : ∀ l ∈ t.logs, l.ok d ty) (rs : List (List DVal))
    (h : joinSpec (txItems refs d ty mode ctx0 t) = some rs) :
    ∃ s', txStep refs d ty mode ctx0 (t.toE ty) s = .ok (rs, s') ∧ WF s' ty.nsel := by
  cases mode with
  | tx =>
    simp only [txItems] at h
    cases h1 : specTxRows refs d (t.fields ++ ctx0) with
    | unspecified => rw [h1] at h; simp [joinSpec] at h
    | rows r1 =>
      rw [h1] at h
      simp only [joinSpec, Option.map_some, List.append_nil] at h
      injection h with h; subst h
      refine ⟨s, ?_, hs⟩
      simp only [txStep, ATx.toE, processTx_spec refs d _ r1 h1]
  | trace =>
    simp only [txItems] at h
    refine ⟨s, ?_, hs⟩
    simp only [txStep, ATx.toE, tracesLoop_spec refs d (t.fields ++ ctx0) t.traces rs h]
  | log =>
    simp only [txItems] at h
    obtain ⟨s', e, w⟩ := logsLoop_spec refs d ty hd (t.fields ++ ctx0) t.logs s hs hok rs h
    exact ⟨s', by simp only [txStep, ATx.toE]; exact e, w⟩

theorem txsLoop_spec (refs : Refs) (d : Decl) (ty : Ty) (hd : DeclOK d ty) (mode : Mode) (ctx0 : Ctx) :
    ∀ (ts : List ATx) (s : St), WF s ty.nsel → (∀ t ∈ ts, ∀ l ∈ t.logs, l.ok d ty) → ∀ rs,
      joinSpec (ts.flatMap (txItems refs d ty mode ctx0)) = some rs →
      ∃ s', txsLoop refs d ty mode ctx0 (ts.map (ATx.toE ty)) s = .ok (rs, s') ∧ WF s' ty.nsel
  | [], s, hs, _, rs, h => by
    simp only [List.flatMap_nil, joinSpec] at h
    injection h with h; subst h
    exact ⟨s, rfl, hs⟩
  | t :: ts, s, hs, hok, rs, h => by
    simp only [List.flatMap_cons] at h
    obtain ⟨r1, r2, h1, h2, h3⟩ := joinSpec_append h
    subst h3
    obtain ⟨s1, e1, w1⟩ := txStep_spec refs d ty hd mode ctx0 t s hs (hok t (List.mem_cons_self ..)) r1 h1
    obtain ⟨s2, e2, w2⟩ := txsLoop_spec refs d ty hd mode ctx0 ts s1 w1
      (fun t' ht' => hok t' (List.mem_cons_of_mem _ ht')) r2 h2
    refine ⟨s2, ?_, w2⟩
    simp only [List.map_cons, txsLoop, e1, e2]

theorem specItems_cons (refs : Refs) (d : Decl) (ty : Ty) (mode : Mode) (base : Ctx) (b : ABlock) (bs : List ABlock) :
    specItems refs d ty mode base (b :: bs) =
      b.txs.flatMap (txItems refs d ty mode (b.fields ++ base)) ++ specItems refs d ty mode base bs := by
  simp only [specItems, List.flatMap_cons]
  congr 1

/-- every log of the batch carries data the theorems can speak about -/
def BatchOK (d : Decl) (ty : Ty) (blocks : List ABlock) : Prop :=
  ∀ b ∈ blocks, ∀ t ∈ b.txs, ∀ l ∈ t.logs, l.ok d ty

/-- **insert_exact** (C01 / C11 over a whole batch): whenever the property fixes the rows of every
    item of the batch, `Insert` hands exactly those rows, in walk order, to COPY — whatever state the
    reused decoder was in — and leaves the decoder ready for the next call. -/
theorem insert_exact (refs : Refs) (d : Decl) (ty : Ty) (hd : DeclOK d ty) (mode : Mode) (base : Ctx) :
    ∀ (blocks : List ABlock) (s : St), WF s ty.nsel → BatchOK d ty blocks → ∀ rs,
      specInsert refs d ty mode base blocks = some rs →
      ∃ s', insert refs d ty mode base (blocks.map (ABlock.toE ty)) s = .ok (rs, s') ∧ WF s' ty.nsel
  | [], s, hs, _, rs, h => by
    simp only [specInsert, specItems, List.flatMap_nil, joinSpec] at h
    injection h with h; subst h
    exact ⟨s, rfl, hs⟩
  | b :: bs, s, hs, hok, rs, h => by
    unfold specInsert at h
    rw [specItems_cons] at h
    obtain ⟨r1, r2, h1, h2, h3⟩ := joinSpec_append h
    subst h3
    obtain ⟨s1, e1, w1⟩ := txsLoop_spec refs d ty hd mode (b.fields ++ base) b.txs s hs
      (fun t ht l hl => hok b (List.mem_cons_self ..) t ht l hl) r1 h1
    obtain ⟨s2, e2, w2⟩ := insert_exact refs d ty hd mode base bs s1 w1
      (fun b' hb' => hok b' (List.mem_cons_of_mem _ hb')) r2 h2
    refine ⟨s2, ?_, w2⟩
    simp only [List.map_cons, insert]
    have : (ABlock.toE ty b).fields = b.fields := rfl
    have ht : (ABlock.toE ty b).txs = b.txs.map (ATx.toE ty) := rfl
    rw [this, ht, e1]
    simp only [e2]

/-- the batch rows are the per-block rows, concatenated: what `Task.insert` relies on when it splits a
    batch over several `Insert` calls, and what makes the table the projection block by block -/
theorem specInsert_append (refs : Refs) (d : Decl) (ty : Ty) (mode : Mode) (base : Ctx) (b1 b2 : List ABlock)
    (rs : List (List DVal)) (h : specInsert refs d ty mode base (b1 ++ b2) = some rs) :
    ∃ r1 r2, specInsert refs d ty mode base b1 = some r1 ∧ specInsert refs d ty mode base b2 = some r2 ∧
      rs = r1 ++ r2 := by
  unfold specInsert at h ⊢
  have : specItems refs d ty mode base (b1 ++ b2) =
      specItems refs d ty mode base b1 ++ specItems refs d ty mode base b2 := by
    simp [specItems, List.flatMap_append]
  rw [this] at h
  exact joinSpec_append h

/-- two calls one after the other on the same decoder (the next batch, or the next partition of
    `Task.insert`): both exact -/
theorem insert_twice (refs : Refs) (d : Decl) (ty : Ty) (hd : DeclOK d ty) (mode : Mode) (base : Ctx)
    (b1 b2 : List ABlock) (s : St) (hs : WF s ty.nsel) (h1 : BatchOK d ty b1) (h2 : BatchOK d ty b2)
    (r1 r2 : List (List DVal)) (e1 : specInsert refs d ty mode base b1 = some r1)
    (e2 : specInsert refs d ty mode base b2 = some r2) :
    ∃ s1 s2, insert refs d ty mode base (b1.map (ABlock.toE ty)) s = .ok (r1, s1) ∧
      insert refs d ty mode base (b2.map (ABlock.toE ty)) s1 = .ok (r2, s2) ∧ WF s2 ty.nsel := by
  obtain ⟨s1, a1, w1⟩ := insert_exact refs d ty hd mode base b1 s hs h1 r1 e1
  obtain ⟨s2, a2, w2⟩ := insert_exact refs d ty hd mode base b2 s1 w1 h2 r2 e2
  exact ⟨s1, s2, a1, a2, w2⟩

/-- a fresh decoder (`NewResult`) satisfies the state hypothesis -/
theorem newResult_WF (ty : Ty) : WF (newResult ty) ty.nsel :=
  ⟨rfl, by simp [newResult, emptyRow], by simp [newResult], Nat.le_refl _⟩

/-! ### failure: the first failing item fails the whole call -/

theorem logsLoop_first_error (refs : Refs) (d : Decl) (ty : Ty) (ctx0 : Ctx) (pre : List ELog) (bad : ELog)
    (post : List ELog) (s : St) (rows : List (List DVal)) (s1 : St)
    (hpre : logsLoop refs d ty ctx0 pre s = .ok (rows, s1))
    (hbad : logStep refs d ty (bad.fields ++ ctx0) bad s1 = .err) :
    logsLoop refs d ty ctx0 (pre ++ bad :: post) s = .err := by
  induction pre generalizing s rows with
  | nil =>
    simp only [logsLoop] at hpre
    injection hpre with hpre; injection hpre with _ h2; subst h2
    simp only [List.nil_append, logsLoop, hbad]
  | cons l ls ih =>
    simp only [logsLoop] at hpre
    cases h1 : logStep refs d ty (l.fields ++ ctx0) l s with
    | ok p =>
      obtain ⟨r1, sa⟩ := p
      rw [h1] at hpre
      simp only at hpre
      cases h2 : logsLoop refs d ty ctx0 ls sa with
      | ok q =>
        obtain ⟨r2, sb⟩ := q
        rw [h2] at hpre
        simp only at hpre
        injection hpre with hpre; injection hpre with _ hs; subst hs
        simp only [List.cons_append, logsLoop, h1, ih sa r2 h2]
      | err => rw [h2] at hpre; cases hpre
      | panic => rw [h2] at hpre; cases hpre
      | overread => rw [h2] at hpre; cases hpre
    | err => rw [h1] at hpre; cases hpre
    | panic => rw [h1] at hpre; cases hpre
    | overread => rw [h1] at hpre; cases hpre

/-- a batch one of whose blocks fails produces no rows at all (`Insert` returns the error before COPY) -/
theorem insert_first_error (refs : Refs) (d : Decl) (ty : Ty) (mode : Mode) (base : Ctx) (pre : List EBlock)
    (bad : EBlock) (post : List EBlock) (s : St) (rows : List (List DVal)) (s1 : St)
    (hpre : insert refs d ty mode base pre s = .ok (rows, s1))
    (hbad : txsLoop refs d ty mode (bad.fields ++ base) bad.txs s1 = .err) :
    insert refs d ty mode base (pre ++ bad :: post) s = .err := by
  induction pre generalizing s rows with
  | nil =>
    simp only [insert] at hpre
    injection hpre with hpre; injection hpre with _ h2; subst h2
    simp only [List.nil_append, insert, hbad]
  | cons b bs ih =>
    simp only [insert] at hpre
    cases h1 : txsLoop refs d ty mode (b.fields ++ base) b.txs s with
    | ok p =>
      obtain ⟨r1, sa⟩ := p
      rw [h1] at hpre
      simp only at hpre
      cases h2 : insert refs d ty mode base bs sa with
      | ok q =>
        obtain ⟨r2, sb⟩ := q
        rw [h2] at hpre
        simp only at hpre
        injection hpre with hpre; injection hpre with _ hs; subst hs
        simp only [List.cons_append, insert, h1, ih sa r2 h2]
      | err => rw [h2] at hpre; cases hpre
      | panic => rw [h2] at hpre; cases hpre
      | overread => rw [h2] at hpre; cases hpre
    | err => rw [h1] at hpre; cases hpre
    | panic => rw [h1] at hpre; cases hpre
    | overread => rw [h1] at hpre; cases hpre

/-! ### non-vacuity: two blocks, an ERC-20 `Transfer` declaration, a decoy log, a log of another token -/

namespace Example
open Shovel.Row.Example

def lgFields (i : Nat) (addr : List Nat) : Ctx := [("log_idx", .u64 i), ("log_addr", .bytes addr)]

/-- block 7: one transaction with a Transfer of the token (value 1000), a log of ANOTHER event with
    garbage data, and a Transfer of another token; block 8: one transaction with a second Transfer -/
def batch : List ABlock :=
  [ { fields := [("block_num", .u64 7)],
      txs := [ { fields := [("tx_idx", .u64 0)], traces := [],
                 logs := [ { fields := lgFields 0 token, topics := [sigTransfer, pad32 fromA, pad32 toA],
                             payload := .enc val [], cap := 32 },
                           { fields := lgFields 1 token, topics := [pad32 toA], payload := .raw [1, 2, 3], cap := 3 },
                           { fields := lgFields 2 other, topics := [sigTransfer, pad32 fromA, pad32 toA],
                             payload := .enc val [], cap := 64 } ] } ] },
    { fields := [("block_num", .u64 8)],
      txs := [ { fields := [("tx_idx", .u64 3)], traces := [],
                 logs := [ { fields := lgFields 0 token, topics := [sigTransfer, pad32 toA, pad32 fromA],
                             payload := .enc val [9, 9], cap := 40 } ] } ] } ]

def want : List (List DVal) :=
  [ [.bytes toA, .u256 1000, .bytes token, .int 0],
    [.bytes fromA, .u256 1000, .bytes token, .int 0] ]

/-- `enc` is defined by well-founded recursion and does not reduce in the kernel: its value here -/
theorem enc_val : enc ty val = valueW := by
  simp [ty, val, enc, encTup, encTupParts, headLenTup, Ty.isStatic]

/-- the same batch as the decoder sees it -/
def batchE : List EBlock :=
  [ { fields := [("block_num", .u64 7)],
      txs := [ { fields := [("tx_idx", .u64 0)], traces := [],
                 logs := [ { fields := lgFields 0 token, log := { topics := [sigTransfer, pad32 fromA, pad32 toA], data := valueW }, cap := 32 },
                           { fields := lgFields 1 token, log := { topics := [pad32 toA], data := [1, 2, 3] }, cap := 3 },
                           { fields := lgFields 2 other, log := { topics := [sigTransfer, pad32 fromA, pad32 toA], data := valueW }, cap := 64 } ] } ] },
    { fields := [("block_num", .u64 8)],
      txs := [ { fields := [("tx_idx", .u64 3)], traces := [],
                 logs := [ { fields := lgFields 0 token, log := { topics := [sigTransfer, pad32 toA, pad32 fromA], data := valueW ++ [9, 9] }, cap := 40 } ] } ] } ]

theorem batch_toE : batch.map (ABlock.toE ty) = batchE := by
  simp [batch, batchE, ABlock.toE, ATx.toE, ALog.toE, ALog.data, enc_val]

example : DeclOK transfer ty := ⟨by decide +kernel, by decide +kernel, by decide +kernel⟩
example : specInsert [] transfer ty .log [] batch = some want := by decide +kernel
example : (insert [] transfer ty .log [] (batch.map (ABlock.toE ty)) (newResult ty)).bind (fun p => .ok p.1) = .ok want := by
  rw [batch_toE]; decide +kernel
/-- the hypotheses of `insert_exact` hold of the example (every log is `ok`) -/
example : BatchOK transfer ty batch := by
  have hlen : (enc ty val).length = 32 := by rw [enc_val]; decide +kernel
  have hwt : WellTyped ty val = true := by decide +kernel
  intro b hb t ht l hl
  simp only [batch, List.mem_cons, List.not_mem_nil, or_false] at hb
  rcases hb with rfl | rfl <;> simp only [List.mem_cons, List.not_mem_nil, or_false] at ht <;> subst ht <;>
    simp only [List.mem_cons, List.not_mem_nil, or_false] at hl
  · rcases hl with rfl | rfl | rfl
    · exact ⟨hwt, by simp [hlen], by simp [hlen], by simp [hlen]⟩
    · exact Or.inr (by decide +kernel)
    · exact ⟨hwt, by simp [hlen], by simp [hlen], by simp [hlen]⟩
  · subst hl
    exact ⟨hwt, by simp [hlen], by simp [hlen], by simp [hlen]⟩
/-- undecodable data on a log of the declared event fails the whole batch -/
example : (insert [] transfer ty .log []
    [{ fields := [], txs := [{ fields := [], traces := [], logs :=
      [{ fields := lgFields 0 token, log := { topics := [sigTransfer, pad32 fromA, pad32 toA], data := [1, 2, 3] }, cap := 3 }] }] }]
    (newResult ty)).tag = "err" := by decide +kernel

end Example

end Shovel.Insert

#print axioms Shovel.Insert.insert_exact
#print axioms Shovel.Insert.insert_twice
#print axioms Shovel.Insert.specInsert_append
#print axioms Shovel.Insert.insert_first_error
