import Shovel.Props.C20
import Shovel.Gen.Routes
/-
  C20, tie of the protocol theorem's ordering hypothesis to the source: restarts are requested
  through the dashboard only, and the dashboard is served after the manager's first Run has
  reported (regenerated from cmd/shovel/main.go) — so `main`'s Run takes the lock before the first
  Restart, which is the hypothesis of `restart_complete_main_first`.
-/
namespace Shovel.Manager

theorem serve_after_first_run : Shovel.Gen.Routes.serveAfterFirstRun = true := by decide

/-- **file_config_reaches_manager_unchanged** (C20): in `main` the configuration decoded from the file is
    validated (`ValidateFix`), read (`PGURL`, `DDL`, `Migrate`) and handed to `NewManager` and `web.New` — and
    nothing else: no statement assigns to it or to a field of it between the decoder and the manager. So the
    `file` argument of the model's `merge` IS the validated file — disabled entries included, which is what lets
    a disabled file entry shadow an enabled database row of the same name (`merge_precedence`). -/
theorem file_config_reaches_manager_unchanged :
    Shovel.Gen.Routes.mainConfUses =
      ["call: json.NewDecoder(f).Decode(&conf)", "call: config.ValidateFix(&conf)", "call: wos.Getenv(conf.PGURL)",
       "call: config.DDL(conf)", "call: config.Migrate(ctx, dbtx, conf)", "call: shovel.NewManager(ctx, pg, conf)",
       "call: web.New(mgr, &conf, pg)"] := by decide +kernel

end Shovel.Manager
