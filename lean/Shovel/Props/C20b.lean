import Shovel.Props.C20
import Shovel.Gen.Routes
/-
  C20, tie of the protocol theorem's ordering hypothesis to the source: restarts are requested
  through the dashboard only, and the dashboard is served after the manager's first Run has
  reported (regenerated from cmd/shovel/main.go) — so `main`'s Run takes the lock before the first
  Restart, which is the hypothesis of `restart_complete_main_first`.
-/
namespace Shovel.Manager

theorem serve_after_first_run : Shovel.Gen.Routes.serveAfterFirstRun = true := by decide

end Shovel.Manager
