import Shovel.Model.Codec
/-
  C17 — wire codecs are exact and total.
  Theorems are about `Shovel.Codec` (model of eth/types.go + bint/bint.go), tied to the code by the
  correspondence run of `./check C17`.
-/
namespace Shovel.Codec

/-! ## Specification side -/

/-- a character is a hex digit (either case) -/
def IsHex (c : Nat) : Prop := (hexDigitVal c).isSome = true
instance : DecidablePred IsHex := fun c => inferInstanceAs (Decidable (_ = true))

/-- value of a hex digit string, most significant first, starting from `acc` -/
def valFrom (acc : Nat) (cs : List Nat) : Nat :=
  cs.foldl (fun a c => a * 16 + (hexDigitVal c).getD 0) acc
def hexVal (cs : List Nat) : Nat := valFrom 0 cs

/-- the JSON token `"0x<cs>"` as bytes -/
def quoted0x (cs : List Nat) : List Nat := 34 :: 48 :: 120 :: (cs ++ [34])

/-! ## helper lemmas -/

theorem hexDigitVal_lt {c n : Nat} (h : hexDigitVal c = some n) : n < 16 := by
  unfold hexDigitVal at h
  split at h
  · injection h; omega
  · split at h
    · injection h; omega
    · split at h
      · injection h; omega
      · contradiction

theorem valFrom_ge (acc : Nat) (cs : List Nat) : acc * 16 ^ cs.length ≤ valFrom acc cs := by
  induction cs generalizing acc with
  | nil => simp [valFrom]
  | cons c cs ih =>
    have := ih (acc * 16 + (hexDigitVal c).getD 0)
    simp only [valFrom, List.foldl_cons, List.length_cons] at *
    calc acc * 16 ^ (cs.length + 1) = acc * 16 * 16 ^ cs.length := by rw [Nat.pow_succ]; ac_rfl
      _ ≤ (acc * 16 + (hexDigitVal c).getD 0) * 16 ^ cs.length :=
          Nat.mul_le_mul_right _ (Nat.le_add_right _ _)
      _ ≤ _ := this

theorem valFrom_mono_acc (a : Nat) (cs : List Nat) : a ≤ valFrom a cs := by
  have h := valFrom_ge a cs
  have : 1 ≤ 16 ^ cs.length := Nat.pow_pos (by omega)
  calc a = a * 1 := by omega
    _ ≤ a * 16 ^ cs.length := Nat.mul_le_mul_left _ this
    _ ≤ _ := h

theorem shift_or (res nib : Nat) (hr : res < 2 ^ 60) (hn : nib < 16) :
    ((res <<< 4) % U64) ||| nib = res * 16 + nib := by
  have h1 : res <<< 4 = res * 16 := by rw [Nat.shiftLeft_eq]
  have h2 : res * 16 < U64 := by unfold U64; omega
  rw [Nat.mod_eq_of_lt (by rw [h1]; exact h2)]
  have := Nat.shiftLeft_add_eq_or_of_lt (a := res) (b := nib) (i := 4) (by omega)
  rw [← this, h1]

/-- the loop computes the positional value, or fails exactly on overflow -/
theorem decodeLoop_spec (cs : List Nat) (res : Nat) (hres : res < U64)
    (hall : ∀ c ∈ cs, IsHex c) :
    decodeLoop cs res = if valFrom res cs < U64 then .ok (valFrom res cs) else .err := by
  induction cs generalizing res with
  | nil => simp [decodeLoop, valFrom, hres]
  | cons c cs ih =>
    have hc : IsHex c := hall c (by simp)
    unfold IsHex at hc
    cases hd : hexDigitVal c with
    | none => simp [hd] at hc
    | some nib =>
      have hn := hexDigitVal_lt hd
      simp only [decodeLoop, hd]
      by_cases hbig : res / 2 ^ 60 ≠ 0
      · -- res ≥ 2^60 : one more digit overflows
        have hge : 2 ^ 60 ≤ res := by
          rcases Nat.lt_or_ge res (2 ^ 60) with h | h
          · exact absurd (Nat.div_eq_of_lt h) hbig
          · exact h
        have h1 : U64 ≤ valFrom res (c :: cs) := by
          have := valFrom_mono_acc (res * 16 + nib) cs
          simp only [valFrom, List.foldl_cons, hd, Option.getD_some] at *
          unfold U64; omega
        simp [hbig, Nat.not_lt.mpr h1]
      · have hlt : res < 2 ^ 60 := by
          rcases Nat.lt_or_ge res (2 ^ 60) with h | h
          · exact h
          · exfalso; apply hbig; intro h0
            have := Nat.div_mul_le_self res (2 ^ 60)
            have h2 : 0 < res / 2 ^ 60 := Nat.div_pos h (by decide)
            omega
        rw [if_neg hbig, shift_or res nib hlt hn]
        have hnew : res * 16 + nib < U64 := by unfold U64; omega
        rw [ih (res * 16 + nib) hnew (fun x hx => hall x (by simp [hx]))]
        simp only [valFrom, List.foldl_cons, hd, Option.getD_some]
        rfl

theorem decodeLoop_rejects (cs : List Nat) (res : Nat) (hbad : ∃ c ∈ cs, ¬ IsHex c) :
    decodeLoop cs res = .err := by
  induction cs generalizing res with
  | nil => simp at hbad
  | cons c cs ih =>
    cases hd : hexDigitVal c with
    | none => simp [decodeLoop, hd]
    | some nib =>
      simp only [decodeLoop, hd]
      split
      · rfl
      · apply ih
        obtain ⟨x, hx, hnx⟩ := hbad
        rcases List.mem_cons.mp hx with rfl | hx
        · exact absurd (by simp [IsHex, hd]) hnx
        · exact ⟨x, hx, hnx⟩

theorem quoted_len (cs : List Nat) : ¬ (quoted0x cs).length < 4 := by simp [quoted0x]

theorem slice1 (cs : List Nat) :
    slice (quoted0x cs) 1 ((quoted0x cs).length - 1) = .ok (48 :: 120 :: cs) := by
  simp [quoted0x, slice]

theorem slice2 (cs : List Nat) :
    slice (48 :: 120 :: cs) 2 (48 :: 120 :: cs).length = .ok cs := by
  simp [slice]

theorem uint64Unmarshal_quoted (cs : List Nat) : uint64Unmarshal (quoted0x cs) = decode cs := by
  unfold uint64Unmarshal
  rw [if_neg (quoted_len cs)]
  simp only [bind, Res.bind, slice1, slice2]

theorem pairs_induction {P : List Nat → Prop} (h0 : P []) (h1 : ∀ c, P [c])
    (h2 : ∀ a b rest, P rest → P (a :: b :: rest)) : ∀ l, P l
  | [] => h0
  | [c] => h1 c
  | a :: b :: rest => h2 a b rest (pairs_induction h0 h1 h2 rest)

theorem hexDecodePairs_cons2 (a b : Nat) (rest : List Nat) :
    hexDecodePairs (a :: b :: rest) =
      match hexDigitVal a, hexDigitVal b with
      | some x, some y =>
        match hexDecodePairs rest with
        | .ok r => .ok ((x * 16 + y) :: r)
        | e => e
      | _, _ => .err := by
  rw [hexDecodePairs]; rfl

theorem hexDecodePairs_len (cs r : List Nat) (h : hexDecodePairs cs = .ok r) :
    r.length = cs.length / 2 := by
  induction cs using pairs_induction generalizing r with
  | h0 => simp [hexDecodePairs] at h; subst h; rfl
  | h1 c => simp [hexDecodePairs] at h
  | h2 a b rest ih =>
    rw [hexDecodePairs_cons2] at h
    cases ha : hexDigitVal a <;> cases hb : hexDigitVal b <;> simp only [ha, hb] at h <;> try contradiction
    cases hr : hexDecodePairs rest <;> simp only [hr] at h <;> try contradiction
    injection h with h; subst h
    simp [ih _ hr]; omega

theorem resize_len (old : List Nat) (n : Nat) : (resize old n).length = n := by
  unfold resize; split <;> simp <;> omega

/-- the buffer model collapses: after a successful decode the destination holds exactly the
    decoded bytes, whatever it held before -/
theorem bytesUnmarshal_quoted (old cs : List Nat) :
    bytesUnmarshal old (quoted0x cs) = hexDecodePairs cs := by
  unfold bytesUnmarshal
  rw [if_neg (quoted_len cs)]
  simp only [bind, Res.bind, slice1, slice2]
  cases h : hexDecodePairs cs with
  | ok r =>
    have := hexDecodePairs_len cs r h
    simp [this, resize_len, List.drop_of_length_le]
  | _ => rfl

/-! ## Property theorems -/

/-- **hexq_exact**: every `"0x…"` token made of hex digits (either case, any number of leading
    zeros, any length) whose value fits in 64 bits decodes to exactly that value. -/
theorem hexq_exact (cs : List Nat) (hall : ∀ c ∈ cs, IsHex c) (hfit : hexVal cs < 2 ^ 64) :
    uint64Unmarshal (quoted0x cs) = .ok (hexVal cs) := by
  rw [uint64Unmarshal_quoted]; unfold decode
  rw [decodeLoop_spec cs 0 (by unfold U64; omega) hall]
  exact if_pos hfit

/-- values that do not fit in 64 bits are rejected, never truncated -/
theorem hexq_overflow (cs : List Nat) (hall : ∀ c ∈ cs, IsHex c) (hbig : 2 ^ 64 ≤ hexVal cs) :
    uint64Unmarshal (quoted0x cs) = .err := by
  rw [uint64Unmarshal_quoted]; unfold decode
  rw [decodeLoop_spec cs 0 (by unfold U64; omega) hall]
  exact if_neg (by unfold hexVal at hbig; show ¬ valFrom 0 cs < 2 ^ 64; omega)

/-- **hexq_rejects**: a `"0x…"` token containing any non-hex character is an error. -/
theorem hexq_rejects (cs : List Nat) (hbad : ∃ c ∈ cs, ¬ IsHex c) :
    uint64Unmarshal (quoted0x cs) = .err := by
  rw [uint64Unmarshal_quoted]; exact decodeLoop_rejects cs 0 hbad

theorem slice_total (data : List Nat) (a b : Nat) (h : a ≤ b ∧ b ≤ data.length) :
    ∃ r, slice data a b = .ok r ∧ r.length = b - a := by
  refine ⟨(data.take b).drop a, by simp [slice, h], ?_⟩
  simp; omega

theorem decodeLoop_total (cs : List Nat) (res : Nat) :
    decodeLoop cs res ≠ .panic ∧ decodeLoop cs res ≠ .overread := by
  induction cs generalizing res with
  | nil => simp [decodeLoop]
  | cons c cs ih =>
    unfold decodeLoop
    cases hexDigitVal c with
    | none => simp
    | some nib =>
      simp only
      by_cases h : res / 2 ^ 60 ≠ 0
      · simp [h]
      · rw [if_neg h]; exact ih _

theorem hexDecodePairs_total (cs : List Nat) :
    hexDecodePairs cs ≠ .panic ∧ hexDecodePairs cs ≠ .overread := by
  fun_induction hexDecodePairs cs <;> simp_all

/-- **unmarshal_total**: on *every* byte string (null, short strings, garbage) the quantity and
    byte-string decoders return a value or an error — no slice expression can panic. -/
theorem unmarshal_total (data old : List Nat) :
    (uint64Unmarshal data ≠ .panic ∧ uint64Unmarshal data ≠ .overread) ∧
    (bytesUnmarshal old data ≠ .panic ∧ bytesUnmarshal old data ≠ .overread) := by
  by_cases hlen : data.length < 4
  · simp [uint64Unmarshal, bytesUnmarshal, hlen]
  · obtain ⟨d1, h1, l1⟩ := slice_total data 1 (data.length - 1) (by omega)
    obtain ⟨d2, h2, _⟩ := slice_total d1 2 d1.length (by omega)
    constructor
    · simp only [uint64Unmarshal, hlen, if_false, bind, Res.bind, h1, h2]
      exact decodeLoop_total d2 0
    · simp only [bytesUnmarshal, hlen, if_false, bind, Res.bind, h1, h2]
      have := hexDecodePairs_total d2
      cases h : hexDecodePairs d2 <;> simp_all

/-! ### byte strings -/

/-- a hex digit character for nibble `n`, upper-case when `u` -/
def nibChar (u : Bool) (n : Nat) : Nat :=
  if n < 10 then 48 + n else if u then 55 + n else 87 + n

/-- a spelling of a byte string: each byte with a case choice for both nibbles -/
def spell : List (Nat × Bool × Bool) → List Nat
  | [] => []
  | (b, u1, u2) :: rest => nibChar u1 (b / 16) :: nibChar u2 (b % 16) :: spell rest

theorem nibChar_val : ∀ n, n < 16 → ∀ u, hexDigitVal (nibChar u n) = some n := by decide

theorem hexDecodePairs_spell (bs : List (Nat × Bool × Bool)) (hb : ∀ x ∈ bs, x.1 < 256) :
    hexDecodePairs (spell bs) = .ok (bs.map (·.1)) := by
  induction bs with
  | nil => rfl
  | cons x rest ih =>
    obtain ⟨b, u1, u2⟩ := x
    have hlt : b < 256 := hb (b, u1, u2) (by simp)
    have h1 := nibChar_val (b / 16) (by omega) u1
    have h2 := nibChar_val (b % 16) (by omega) u2
    simp only [spell, hexDecodePairs, h1, h2, ih (fun x hx => hb x (by simp [hx])), List.map_cons]
    congr 2; omega

/-- **hexb_exact / bytes_reuse**: for every byte string (any length), every upper/lower-case
    spelling of it, and *every previous content `old` of the destination*, decoding the token
    `"0x…"` leaves exactly those bytes in the destination. -/
theorem hexb_exact (old : List Nat) (bs : List (Nat × Bool × Bool)) (hb : ∀ x ∈ bs, x.1 < 256) :
    bytesUnmarshal old (quoted0x (spell bs)) = .ok (bs.map (·.1)) := by
  rw [bytesUnmarshal_quoted, hexDecodePairs_spell bs hb]

theorem hexDecodePairs_odd (cs : List Nat) (h : cs.length % 2 = 1) : hexDecodePairs cs = .err := by
  induction cs using pairs_induction with
  | h0 => simp at h
  | h1 c => simp [hexDecodePairs]
  | h2 a b rest ih =>
    rw [hexDecodePairs_cons2]
    have := ih (by simp at h; omega)
    cases hexDigitVal a <;> cases hexDigitVal b <;> simp [this]

theorem hexDecodePairs_bad (cs : List Nat) (h : ∃ c ∈ cs, ¬ IsHex c) : hexDecodePairs cs = .err := by
  induction cs using pairs_induction with
  | h0 => simp at h
  | h1 c => simp [hexDecodePairs]
  | h2 a b rest ih =>
    rw [hexDecodePairs_cons2]
    cases ha : hexDigitVal a <;> cases hb : hexDigitVal b <;> simp only <;> try rfl
    obtain ⟨c, hc, hnc⟩ := h
    have hrest : c ∈ rest := by
      rcases List.mem_cons.mp hc with rfl | hc
      · simp [IsHex, ha] at hnc
      · rcases List.mem_cons.mp hc with rfl | hc
        · simp [IsHex, hb] at hnc
        · exact hc
    simp [ih ⟨c, hrest, hnc⟩]

/-- **hexb_rejects**: an odd number of digits, or any non-hex character, is an error. -/
theorem hexb_rejects (old cs : List Nat)
    (h : cs.length % 2 = 1 ∨ ∃ c ∈ cs, ¬ IsHex c) :
    bytesUnmarshal old (quoted0x cs) = .err := by
  rw [bytesUnmarshal_quoted]
  rcases h with h | h
  · exact hexDecodePairs_odd cs h
  · exact hexDecodePairs_bad cs h

/-- `Bytes.Write` leaves exactly `p` whatever the destination held. -/
theorem bytesWrite_exact (old p : List Nat) : bytesWrite old p = p := by
  simp [bytesWrite, resize_len, List.drop_of_length_le]

/-! ### bint -/

/-- little-endian value of a byte list -/
def leVal : List Nat → Nat
  | [] => 0
  | x :: xs => x + 256 * leVal xs

theorem sizeLoop_spec (fuel n s : Nat) (h : n < 256 ^ fuel) :
    s ≤ sizeLoop fuel n s ∧ n < 256 ^ (sizeLoop fuel n s - s) := by
  induction fuel generalizing n s with
  | zero => simp at h; simp [sizeLoop, h]
  | succ f ih =>
    unfold sizeLoop
    by_cases hn : n > 0
    · simp only [hn, if_true]
      have hdiv : n / 256 < 256 ^ f := by
        rw [Nat.div_lt_iff_lt_mul (by decide)]; rw [Nat.pow_succ] at h; exact h
      obtain ⟨h1, h2⟩ := ih (n / 256) (s + 1) hdiv
      refine ⟨by omega, ?_⟩
      have : sizeLoop f (n / 256) (s + 1) - s = (sizeLoop f (n / 256) (s + 1) - (s + 1)) + 1 := by omega
      rw [this, Nat.pow_succ]
      have := (Nat.div_lt_iff_lt_mul (by decide : 0 < 256)).mp h2
      exact this
    · have : n = 0 := by omega
      simp [this]

theorem size_bound (n : Nat) (h : n < 2 ^ 64) : 1 ≤ size n ∧ n < 256 ^ size n := by
  unfold size
  by_cases h0 : n = 0
  · simp [h0]
  · simp only [h0, if_false]
    have hb : n < 256 ^ 8 := by
      have h8 : (256:Nat) ^ 8 = 2 ^ 64 := by decide
      rw [h8]; exact h
    obtain ⟨_, h2⟩ := sizeLoop_spec 8 n 0 hb
    simp at h2
    refine ⟨?_, h2⟩
    rcases Nat.eq_zero_or_pos (sizeLoop 8 n 0) with hz | hz
    · rw [hz] at h2; simp at h2; omega
    · exact hz

/-- the write loop never runs off the buffer when `n < 256^len`, keeps the length, overwrites
    only low-order positions, and on a zeroed buffer produces exactly the base-256 digits -/
theorem encodeLoop_spec (rb : List Nat) (n : Nat) (h : n < 256 ^ rb.length)
    (hz : ∀ x ∈ rb, x = 0) :
    ∃ r, encodeLoop rb n = .ok r ∧ r.length = rb.length ∧ leVal r = n ∧ ∀ x ∈ r, x < 256 := by
  induction rb generalizing n with
  | nil =>
    have : n = 0 := by simpa using h
    subst this; exact ⟨[], by simp [encodeLoop], rfl, rfl, by simp⟩
  | cons x rest ih =>
    cases n with
    | zero =>
      refine ⟨x :: rest, by simp [encodeLoop], rfl, ?_, ?_⟩
      · have hx : x = 0 := hz x (by simp)
        have hr : ∀ y ∈ rest, y = 0 := fun y hy => hz y (by simp [hy])
        subst hx
        have hzero : ∀ l : List Nat, (∀ y ∈ l, y = 0) → leVal l = 0 := by
          intro l
          induction l with
          | nil => intro _; rfl
          | cons y ys ih2 =>
            intro hl
            have h1 := hl y (by simp)
            have h2 := ih2 (fun z hz => hl z (by simp [hz]))
            simp [leVal, h1, h2]
        simp [leVal, hzero rest hr]
      · intro y hy; have := hz y hy; omega
    | succ m =>
      have hdiv : (m + 1) / 256 < 256 ^ rest.length := by
        rw [Nat.div_lt_iff_lt_mul (by decide)]
        simpa [Nat.pow_succ] using h
      obtain ⟨r, hr, hl, hv, hb⟩ := ih ((m + 1) / 256) hdiv (fun y hy => hz y (by simp [hy]))
      refine ⟨(m + 1) % 256 :: r, by simp [encodeLoop, hr], by simp [hl], ?_, ?_⟩
      · simp [leVal, hv]; omega
      · intro y hy
        rcases List.mem_cons.mp hy with rfl | hy
        · omega
        · exact hb y hy

theorem bdecode_reverse (r : List Nat) : bdecode r.reverse = leVal r % U64 := by
  unfold bdecode
  rw [List.foldl_reverse]
  induction r with
  | nil => rfl
  | cons x xs ih =>
    rw [List.foldr_cons, ih]
    simp only [leVal, Nat.shiftLeft_eq, U64]
    generalize leVal xs = v
    omega

/-- **bint_roundtrip**: every 64-bit value, written into a zeroed buffer of any width that
    `Encode` accepts (`k ≥ size n`; in particular all pads 1..32 that are wide enough) or into a
    fresh `nil` buffer, is read back exactly by `Decode`. -/
theorem bint_roundtrip (n k : Nat) (hn : n < 2 ^ 64) (hk : size n ≤ k) :
    (∃ b, encode (some (List.replicate k 0)) n = .ok b ∧ b.length = k ∧ bdecode b = n) ∧
    (∃ b, encode none n = .ok b ∧ b.length = size n ∧ bdecode b = n) := by
  obtain ⟨_, hsz⟩ := size_bound n hn
  have key : ∀ k, size n ≤ k →
      ∃ b, (match encodeLoop (List.replicate k 0).reverse n with
            | .ok r => Res.ok r.reverse | e => e) = .ok b ∧ b.length = k ∧ bdecode b = n := by
    intro k hk
    have hlt : n < 256 ^ (List.replicate k 0).reverse.length := by
      simp; exact Nat.lt_of_lt_of_le hsz (Nat.pow_le_pow_right (by decide) hk)
    obtain ⟨r, hr, hl, hv, _⟩ := encodeLoop_spec (List.replicate k 0).reverse n hlt (by simp)
    refine ⟨r.reverse, by rw [hr], by simpa using hl, ?_⟩
    rw [bdecode_reverse, hv]; exact Nat.mod_eq_of_lt hn
  constructor
  · obtain ⟨b, hb, hl, hd⟩ := key k hk
    exact ⟨b, by simp only [encode, List.length_replicate, if_neg (Nat.not_lt.mpr hk)]; exact hb, hl, hd⟩
  · obtain ⟨b, hb, hl, hd⟩ := key (size n) (Nat.le_refl _)
    exact ⟨b, by simp only [encode, List.length_replicate, Nat.lt_irrefl, if_false]; exact hb, hl, hd⟩

/-- `Encode` panics (as documented) exactly when the supplied buffer is too small. -/
theorem bint_encode_small (b : List Nat) (n : Nat) (h : b.length < size n) :
    encode (some b) n = .panic := by
  simp [encode, h]

/-- `Decode` of *any* big-endian byte string is its value modulo 2^64 (extra high bytes are
    discarded, leading zeros ignored). -/
theorem bint_decode_value (b : List Nat) : bdecode b = leVal b.reverse % 2 ^ 64 := by
  have := bdecode_reverse b.reverse
  simpa using this

/-! ## Non-vacuity: the hypotheses are met by concrete non-trivial inputs -/
example : uint64Unmarshal (quoted0x [49, 65, 102]) = .ok 0x1af := by decide
example : (∀ c ∈ [49, 65, 102], IsHex c) ∧ hexVal [49, 65, 102] < 2 ^ 64 := by decide
example : uint64Unmarshal (quoted0x (List.replicate 16 48 ++ [49])) = .ok 1 := by decide  -- 17 digits
example : uint64Unmarshal (quoted0x (49 :: List.replicate 16 48)) = .err := by decide     -- 2^64
example : uint64Unmarshal (quoted0x (List.replicate 16 48 ++ [122, 122])) = .err := by decide
example : uint64Unmarshal [110, 117, 108, 108] = .ok 0 := by decide                         -- null
example : bytesUnmarshal [1, 2, 3, 4, 5] (quoted0x (spell [(0xAB, true, false)])) = .ok [0xAB] := by decide
example : encode (some (List.replicate 4 0)) 258 = .ok [0, 0, 1, 2] := by decide
example : bdecode [1, 0, 0, 0, 0, 0, 0, 0, 5] = 5 := by decide

end Shovel.Codec
