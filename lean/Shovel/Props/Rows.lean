import Shovel.Model.Row
import Shovel.Spec.Row
import Shovel.Proofs.Rows
/-
  C11 / C12 / C13: the row builder (`Shovel/Model/Row.lean`) meets the row specification
  (`Shovel/Spec/Row.lean`).  All theorems are proved as stated in `RowStmt.lean`.

  * `agg_fold`, `op_sem`, `dbtype_eq_renderSpec`, `render_int`, `gate_reject_total`, `gate_only`
  * `inputCols_ownTopic`   (via `inputCols_eq`: the model's topic of the top-level input at position
                            `k` is the number of indexed inputs among the first `k+1`; `sel_ix`)
  * `processLog_spec`, `processLog_spec_nodata`
      `coldefs_eq`        `Decl.coldefs` with `zipIdx`/`getD k` rewritten to `headD`/`drop 1` (`inCols`)
      `buildRow_block`    `specRow.goBd`  vs. `buildRow` on the block coldefs
      `buildRow_input`    `specRow.goIn`  vs. `buildRow` on the input coldefs
      `buildRow_spec`     one row, with the aggregate `= bs.foldl Frs.add`
      `go_spec`           `specRows.go` vs. `processLog.go`
  * `pushdown_sound`      (`goBd_mem`, `goBd_len`, `goIn_len`: at most one result per active filter)
  * non-vacuity examples (namespace `Example`)
-/
set_option linter.unusedSimpArgs false
namespace Shovel.Row
open Shovel.Abi

theorem agg_fold (agg : String) (bs : List Bool) :
    (bs.foldl Frs.add { kind := agg }).accept = aggAccept agg bs := by
  cases bs with
  | nil => simp [Frs.accept, aggAccept]
  | cons b bs =>
    rw [List.foldl_cons]
    have : Frs.add { kind := agg } b = { kind := agg, set := true, val := b } := by simp [Frs.add]
    rw [this, Frs.foldl_set]
    simp [aggAccept]

theorem op_sem (refs : Refs) (f : Filter) (dv : DVal) (frs : Frs) :
    match holds refs f dv with
    | none => accept refs f dv frs = .ok frs
    | some (.ok b) => accept refs f dv frs = .ok (frs.add b) ∨ accept refs f dv frs = .ok ((frs.add b).add b)
    | some _ => accept refs f dv frs = .err ∨ accept refs f dv frs = .panic := by
  by_cases hact : (f.args.isEmpty && f.refInteg.isEmpty) = true
  · simp only [holds, hact, if_true, accept, Filter.active, Bool.not_true]
    simp
  · have hact' : (!f.active) = false := by simp [Filter.active, hact]
    cases dv with
    | bytes v =>
      simp only [holds, hact, accept, hact']
      by_cases h1 : (f.op == "contains") = true
      · have := (beq_iff_eq).mp h1
        simp [this, ends_contains, starts_contains]
      · by_cases h2 : (f.op == "!contains") = true
        · have := (beq_iff_eq).mp h2
          simp [this, ends_ncontains, starts_ncontains]
        · by_cases h3 : (f.op == "eq") = true
          · have := (beq_iff_eq).mp h3
            simp [this, ends_eq]
          · by_cases h4 : (f.op == "ne") = true
            · have := (beq_iff_eq).mp h4
              simp [this, ends_ne]
            · by_cases h5 : (f.op.endsWith "contains") = true
              · simp [h1, h2, h3, h4, h5]
              · simp [h1, h2, h3, h4, h5]
    | str v =>
      simp only [holds, hact, accept, hact']
      cases hargs : f.args with
      | nil => simp
      | cons a0 as0 =>
        by_cases h1 : (f.op == "contains") = true
        · simp [h1]
        · by_cases h2 : (f.op == "!contains") = true
          · simp [h1, h2]
          · by_cases h3 : (f.op == "eq") = true
            · simp [h1, h2, h3]
            · by_cases h4 : (f.op == "ne") = true
              · simp [h1, h2, h3, h4]
              · simp [h1, h2, h3, h4]
    | u64 v =>
      simp only [holds, holds.cmp, hact, accept, hact']
      cases hargs : f.args with
      | nil => simp
      | cons a as =>
        simp only [List.head?_cons]
        cases hp : parseDec a with
        | none => simp
        | some i =>
          by_cases hb : i ≥ 2 ^ 64
          · simp [hb]
          · by_cases h1 : (f.op == "eq") = true
            · simp [hb, h1]
            · by_cases h2 : (f.op == "ne") = true
              · simp [hb, h1, h2]
              · by_cases h3 : (f.op == "gt") = true
                · simp [hb, h1, h2, h3]
                · by_cases h4 : (f.op == "lt") = true
                  · simp [hb, h1, h2, h3, h4]
                  · simp [hb, h1, h2, h3, h4]
    | u256 v =>
      simp only [holds, holds.cmp, hact, accept, hact']
      cases hargs : f.args with
      | nil => simp
      | cons a as =>
        simp only [List.head?_cons]
        cases hp : parseDec a with
        | none => simp
        | some i =>
          by_cases hb : i ≥ 2 ^ 256
          · simp [hb]
          · by_cases h1 : (f.op == "eq") = true
            · simp [hb, h1]
            · by_cases h2 : (f.op == "ne") = true
              · simp [hb, h1, h2]
              · by_cases h3 : (f.op == "gt") = true
                · simp [hb, h1, h2, h3]
                · by_cases h4 : (f.op == "lt") = true
                  · simp [hb, h1, h2, h3, h4]
                  · simp [hb, h1, h2, h3, h4]
    | neg n => simp [holds, hact, accept, hact']
    | bool n => simp [holds, hact, accept, hact']
    | byte n => simp [holds, hact, accept, hact']
    | int n => simp [holds, hact, accept, hact']
    | null => simp [holds, hact, accept, hact']

theorem dbtype_eq_renderSpec (ty : List Char) (dd : List Nat) : dbtype ty dd = renderSpec ty dd := by
  unfold dbtype renderSpec beforeBracket hasPrefix setBytes
  generalize ty.takeWhile (· ≠ '[') = base
  have hx := not_int_uint base
  generalize beVal (List.drop (dd.length - 32) dd) = x
  cases e1 : "int".toList.isPrefixOf base <;> cases e2 : "uint".toList.isPrefixOf base <;>
    simp only [e1, e2, Bool.false_eq_true, if_false, if_true]
  · cases e3 : "address".toList.isPrefixOf base <;> simp only [e3, Bool.false_eq_true, if_false, if_true]
    · cases e4 : (base == "bool".toList) <;> simp only [e4, Bool.false_eq_true, if_false, if_true]
      cases e5 : (dd.length == 32) <;> simp [e5]
    · cases e5 : (dd.length == 32) <;> simp [e5]
  · congr 1
    by_cases h : x < 2 ^ 255
    · have : ¬ x ≥ 2 ^ 255 := by omega
      simp only [h, this, if_true, if_false]
    · have : x ≥ 2 ^ 255 := by omega
      simp only [h, this, if_true, if_false]
  · exact absurd ⟨e1, e2⟩ hx

theorem render_int (w : List Nat) (hw : w.length = 32) (suffix : List Char) :
    dbtype ("uint".toList ++ suffix) w = .u256 (beVal w) ∧
    dbtype ("int".toList ++ suffix) w =
      .neg (if beVal w < 2 ^ 255 then (beVal w : Int) else (beVal w : Int) - 2 ^ 256) := by
  rw [dbtype_eq_renderSpec, dbtype_eq_renderSpec]
  simp [renderSpec, hw, List.takeWhile, List.isPrefixOf]

theorem gate_reject_total (refs : Refs) (d : Decl) (ctx : Ctx) (lg : Log)
    (sr : Res (List (List (Option (List Nat)))))
    (h : ¬ (lg.topics.length = 1 + numIndexed d.inputs ∧ lg.topics.head? = some d.sighash)) :
    processLog refs d ctx lg sr = .ok [] := by
  rw [← gate_iff] at h
  simp [processLog, h]

theorem gate_only (refs : Refs) (d : Decl) (ctx : Ctx) (lg : Log)
    (sr : Res (List (List (Option (List Nat))))) (rs : List (List DVal))
    (h : processLog refs d ctx lg sr = .ok rs) (hne : rs ≠ []) :
    lg.topics.length = 1 + numIndexed d.inputs ∧ lg.topics.head? = some d.sighash := by
  rw [← gate_iff]
  by_cases hg : gate (numIndexed d.inputs) d.sighash lg = true
  · exact hg
  · have : processLog refs d ctx lg sr = .ok [] := by simp [processLog, hg]
    rw [this] at h
    injection h with h
    exact absurd h.symm hne

theorem inputCols_ownTopic (inputs : Inps) (hix : ixOK inputs = true) :
    (inputCols inputs 0).filter (·.1) =
      ((selWithTop inputs 0).filter (·.1)).map fun (ix, k, ty) => (ix, ownTopic inputs k, ty) := by
  rw [inputCols_eq (fun k => ownTopic.count inputs (k + 1)) inputs 0 0 (by intro j; simp)]
  rw [List.filter_map]
  apply List.map_congr_left
  intro p hp
  rw [List.mem_filter] at hp
  obtain ⟨j, hj, hc⟩ := sel_ix inputs 0 hix p hp.1 hp.2
  obtain ⟨ix, k, ty⟩ := p
  simp only [Nat.zero_add] at hj
  subst hj
  simp only [ownTopic, hc]

/-! ### row builder vs. row specification (C11, C12, C13) -/

/-- `Filter.Accept` in terms of `holds` (using idempotence of `add`) -/
theorem accept_none (refs : Refs) (f : Filter) (dv : DVal) (frs : Frs)
    (h : holds refs f dv = none) : accept refs f dv frs = .ok frs := by
  have := op_sem refs f dv frs; rw [h] at this; exact this

theorem accept_ok (refs : Refs) (f : Filter) (dv : DVal) (frs : Frs) (b : Bool)
    (h : holds refs f dv = some (.ok b)) : accept refs f dv frs = .ok (frs.add b) := by
  have := op_sem refs f dv frs; rw [h] at this
  rcases this with h | h
  · exact h
  · rw [h, Frs.add_add]

/-- the model's input coldefs, written with `headD` / `drop` -/
def inCols (G : Nat → Nat) : List (Bool × Nat × List Char) → List Filter → List ColDef
  | [], _ => []
  | (ix, k, ty) :: rest, fl => .input ix (G k) ty (fl.headD {}) :: inCols G rest (fl.drop 1)

theorem inCols_zipIdx (G : Nat → Nat) (fl0 : List Filter) (l : List (Bool × Nat × List Char)) (n : Nat) :
    ((l.map (fun p => (p.1, G p.2.1, p.2.2))).zipIdx n).map
        (fun (x : (Bool × Nat × List Char) × Nat) => ColDef.input x.1.1 x.1.2.1 x.1.2.2 (fl0.getD x.2 {})) =
      inCols G l (fl0.drop n) := by
  induction l generalizing n with
  | nil => simp [inCols]
  | cons p l ih =>
    obtain ⟨ix, k, ty⟩ := p
    simp only [List.map_cons, List.zipIdx_cons, inCols, ih (n + 1), List.drop_drop]
    congr 2
    · cases h : fl0.drop n with
      | nil => simp [List.getD, List.drop_eq_nil_iff.mp h |> List.getElem?_eq_none]
      | cons a as =>
        have := List.getElem?_drop (xs := fl0) (i := n) (j := 0)
        simp [h] at this
        simp [List.getD, ← this]

theorem coldefs_eq (d : Decl) :
    d.coldefs = inCols (fun k => ownTopic.count d.inputs (k + 1)) (selWithTop d.inputs 0) d.inputFilters ++
      d.block.map (fun (n, f) => ColDef.block n f) := by
  unfold Decl.coldefs
  rw [inputCols_eq (fun k => ownTopic.count d.inputs (k + 1)) d.inputs 0 0 (by intro j; simp)]
  have := inCols_zipIdx (fun k => ownTopic.count d.inputs (k + 1)) d.inputFilters (selWithTop d.inputs 0) 0
  simp only [List.drop_zero] at this
  rw [← this]


/-- block columns: the spec's `goBd` versus `buildRow` on the block coldefs -/
theorem buildRow_block (refs : Refs) (ctx : Ctx) (lg : Log) (abiIdx : Option Nat)
    (block : List (String × Filter)) (vs : List DVal) (bs : List Bool)
    (h : specRow.goBd refs ctx abiIdx.isSome (abiIdx.getD 0) block = some (vs, bs))
    (cells : List (Option (List Nat))) (frs : Frs) :
    buildRow refs ctx lg abiIdx (block.map (fun (n, f) => ColDef.block n f)) cells frs =
      .ok (vs, bs.foldl Frs.add frs) := by
  induction block generalizing vs bs frs with
  | nil =>
    simp only [specRow.goBd] at h
    injection h with h; injection h with h1 h2; subst h1; subst h2
    simp [buildRow]
  | cons p rest ih =>
    obtain ⟨n, f⟩ := p
    simp only [specRow.goBd] at h
    cases hr : specRow.goBd refs ctx abiIdx.isSome (abiIdx.getD 0) rest with
    | none => simp [hr] at h
    | some r =>
      obtain ⟨vs', bs'⟩ := r
      simp only [hr] at h
      simp only [List.map_cons, buildRow]
      by_cases hn : (n == "abi_idx") = true
      · simp only [hn, if_true] at h
        cases hs : abiIdx.isSome with
        | false => simp [hs] at h
        | true =>
          simp only [hs, if_true] at h
          injection h with h; injection h with h1 h2; subst h1; subst h2
          simp [hn, hs, ih _ _ hr]
      · simp only [hn, Bool.false_eq_true, if_false] at h
        simp only [hn, Bool.false_and, Bool.false_eq_true, if_false]
        cases hh : holds refs f (ctx.get n) with
        | none =>
          simp only [hh] at h
          injection h with h; injection h with h1 h2; subst h1; subst h2
          simp [accept_none _ _ _ _ hh, ih _ _ hr]
        | some r =>
          cases r with
          | ok b =>
            simp only [hh] at h
            injection h with h; injection h with h1 h2; subst h1; subst h2
            simp [accept_ok _ _ _ _ _ hh, ih _ _ hr]
          | err => simp [hh] at h
          | panic => simp [hh] at h
          | overread => simp [hh] at h


/-- combine a cell with the per-filter result -/
def addRes (v : DVal) (r : Option (Res Bool)) (p : List DVal × List Bool) : Option (List DVal × List Bool) :=
  match r with
  | none => some (v :: p.1, p.2)
  | some (.ok b) => some (v :: p.1, b :: p.2)
  | some _ => none

theorem goIn_true (refs : Refs) (d : Decl) (lg : Log) (k : Nat) (ty : List Char)
    (rest : List (Bool × Nat × List Char)) (fl : List Filter) (cs : List (Option (List Nat))) :
    specRow.goIn refs d lg ((true, k, ty) :: rest) fl cs =
      match lg.topics[ownTopic d.inputs k]? with
      | none => none
      | some t =>
        match specRow.goIn refs d lg rest (fl.drop 1) cs with
        | none => none
        | some r => addRes (renderSpec ty t) (holds refs (fl.headD {}) (renderSpec ty t)) r := by
  cases cs <;> simp only [specRow.goIn, if_true] <;>
    (cases lg.topics[ownTopic d.inputs k]? with
     | none => rfl
     | some t =>
       simp only [Option.map_some]
       generalize specRow.goIn refs d lg rest (List.drop 1 fl) _ = g
       cases g with
       | none => rfl
       | some r =>
         obtain ⟨vs, bs⟩ := r
         simp only [addRes]
         split <;> simp_all)

theorem goIn_false (refs : Refs) (d : Decl) (lg : Log) (k : Nat) (ty : List Char)
    (rest : List (Bool × Nat × List Char)) (fl : List Filter) (c : Option (List Nat))
    (cs : List (Option (List Nat))) :
    specRow.goIn refs d lg ((false, k, ty) :: rest) fl (c :: cs) =
        match specRow.goIn refs d lg rest (fl.drop 1) cs with
        | none => none
        | some r => addRes (renderSpec ty (c.getD [])) (holds refs (fl.headD {}) (renderSpec ty (c.getD []))) r := by
  simp only [specRow.goIn, Bool.false_eq_true, if_false]
  generalize specRow.goIn refs d lg rest (List.drop 1 fl) _ = g
  cases g with
  | none => rfl
  | some r =>
    obtain ⟨vs, bs⟩ := r
    simp only [addRes]
    split <;> simp_all

theorem goIn_false_nil (refs : Refs) (d : Decl) (lg : Log) (k : Nat) (ty : List Char)
    (rest : List (Bool × Nat × List Char)) (fl : List Filter) :
    specRow.goIn refs d lg ((false, k, ty) :: rest) fl [] = none := by
  simp [specRow.goIn]

/-- one model step after `accept`, given the spec's combination succeeded -/
theorem step_addRes (refs : Refs) (f : Filter) (v : DVal) (frs : Frs) (r : List DVal × List Bool)
    (vs : List DVal) (bs : List Bool) (h : addRes v (holds refs f v) r = some (vs, bs)) :
    ∃ frs', accept refs f v frs = .ok frs' ∧ vs = v :: r.1 ∧
      ∀ bs2, (bs ++ bs2).foldl Frs.add frs = (r.2 ++ bs2).foldl Frs.add frs' := by
  unfold addRes at h
  cases hh : holds refs f v with
  | none =>
    simp only [hh] at h
    injection h with h; injection h with h1 h2; subst h1; subst h2
    exact ⟨frs, accept_none _ _ _ _ hh, rfl, fun _ => rfl⟩
  | some res =>
    cases res with
    | ok b =>
      simp only [hh] at h
      injection h with h; injection h with h1 h2; subst h1; subst h2
      exact ⟨frs.add b, accept_ok _ _ _ _ _ hh, rfl, fun _ => rfl⟩
    | err => simp [hh] at h
    | panic => simp [hh] at h
    | overread => simp [hh] at h

/-- input columns: the spec's `goIn` versus `buildRow` on the input coldefs followed by `tail` -/
theorem buildRow_input (refs : Refs) (d : Decl) (ctx : Ctx) (lg : Log) (abiIdx : Option Nat)
    (G : Nat → Nat) (tail : List ColDef) (vs2 : List DVal) (bs2 : List Bool)
    (htail : ∀ cells frs, buildRow refs ctx lg abiIdx tail cells frs = .ok (vs2, bs2.foldl Frs.add frs))
    (cols : List (Bool × Nat × List Char))
    (hG : ∀ p ∈ cols, p.1 = true → G p.2.1 = ownTopic d.inputs p.2.1)
    (fl : List Filter) (cells : List (Option (List Nat))) (hcells : abiIdx = none → cells = [])
    (vs : List DVal) (bs : List Bool)
    (h : specRow.goIn refs d lg cols fl cells = some (vs, bs)) (frs : Frs) :
    buildRow refs ctx lg abiIdx (inCols G cols fl ++ tail) cells frs =
      .ok (vs ++ vs2, (bs ++ bs2).foldl Frs.add frs) := by
  induction cols generalizing fl cells vs bs frs with
  | nil =>
    simp only [specRow.goIn] at h
    injection h with h; injection h with h1 h2; subst h1; subst h2
    simp [inCols, htail]
  | cons p rest ih =>
    obtain ⟨ix, k, ty⟩ := p
    have hG' : ∀ p ∈ rest, p.1 = true → G p.2.1 = ownTopic d.inputs p.2.1 :=
      fun p hp => hG p (List.mem_cons_of_mem _ hp)
    simp only [inCols, List.cons_append]
    cases ix with
    | true =>
      have hk : G k = ownTopic d.inputs k := hG (true, k, ty) (List.mem_cons_self) rfl
      rw [goIn_true] at h
      simp only [buildRow, hk]
      cases ht : lg.topics[ownTopic d.inputs k]? with
      | none => rw [ht] at h; cases h
      | some t =>
        rw [ht] at h
        dsimp only at h ⊢
        cases hr : specRow.goIn refs d lg rest (fl.drop 1) cells with
        | none => rw [hr] at h; cases h
        | some r =>
          rw [hr] at h
          dsimp only at h
          rw [dbtype_eq_renderSpec]
          obtain ⟨frs', hacc, hvs, hfold⟩ := step_addRes refs _ _ frs r vs bs h
          obtain ⟨vs', bs'⟩ := r
          simp only [hacc, ih hG' _ _ hcells _ _ hr, hvs, hfold, List.cons_append]
    | false =>
      cases cells with
      | nil => simp [goIn_false_nil] at h
      | cons c cells' =>
        cases abiIdx with
        | none => exact absurd (hcells rfl) (by simp)
        | some ai =>
          rw [goIn_false] at h
          simp only [buildRow]
          cases hr : specRow.goIn refs d lg rest (fl.drop 1) cells' with
          | none => rw [hr] at h; cases h
          | some r =>
            rw [hr] at h
            dsimp only at h
            rw [dbtype_eq_renderSpec]
            have hc' : ((some ai : Option Nat) = none → cells' = []) := by intro h; cases h
            obtain ⟨frs', hacc, hvs, hfold⟩ := step_addRes refs _ _ frs r vs bs h
            obtain ⟨vs', bs'⟩ := r
            simp only [hacc, ih hG' _ _ hc' _ _ hr, hvs, hfold, List.cons_append]

/-- **one row**: whenever the specification fixes the row, `buildRow` produces it together with the
    fold of the per-filter results -/
theorem buildRow_spec (refs : Refs) (d : Decl) (ctx : Ctx) (lg : Log) (abiIdx : Option Nat)
    (hix : ixOK d.inputs = true) (cells : List (Option (List Nat))) (hcells : abiIdx = none → cells = [])
    (row : List DVal) (bs : List Bool)
    (h : specRow refs d ctx lg abiIdx.isSome cells (abiIdx.getD 0) = some (row, bs)) (frs : Frs) :
    buildRow refs ctx lg abiIdx d.coldefs cells frs = .ok (row, bs.foldl Frs.add frs) := by
  unfold specRow at h
  dsimp only at h
  cases h1 : specRow.goIn refs d lg (selWithTop d.inputs 0) d.inputFilters cells with
  | none => rw [h1] at h; cases h
  | some r1 =>
    cases h2 : specRow.goBd refs ctx abiIdx.isSome (abiIdx.getD 0) d.block with
    | none => rw [h1, h2] at h; cases h
    | some r2 =>
      obtain ⟨a, ba⟩ := r1
      obtain ⟨b, bb⟩ := r2
      rw [h1, h2] at h
      injection h with h; injection h with e1 e2; subst e1; subst e2
      rw [coldefs_eq]
      apply buildRow_input refs d ctx lg abiIdx _ _ b bb (buildRow_block refs ctx lg abiIdx d.block b bb h2)
        _ _ _ _ hcells _ _ h1
      intro p hp hp1
      obtain ⟨j, hj, hc⟩ := sel_ix d.inputs 0 hix p hp hp1
      simp only [Nat.zero_add] at hj
      simp only [hj, ownTopic, hc]

theorem go_spec (refs : Refs) (d : Decl) (ctx : Ctx) (lg : Log) (v : Val) (hix : ixOK d.inputs = true)
    (rs : List (List (Option (List Nat)))) (i : Nat) (rows : List (List DVal))
    (h : specRows.go refs d ctx lg (some v) rs i = some rows) :
    processLog.go refs d ctx lg rs i = .ok rows := by
  induction rs generalizing i rows with
  | nil =>
    simp only [specRows.go] at h
    injection h with h; subst h
    simp [processLog.go]
  | cons cells more ih =>
    simp only [specRows.go, Option.isSome_some] at h
    cases h1 : specRow refs d ctx lg true cells i with
    | none => rw [h1] at h; cases h
    | some r =>
      cases h2 : specRows.go refs d ctx lg (some v) more (i + 1) with
      | none => rw [h1, h2] at h; cases h
      | some rows' =>
        obtain ⟨row, bs⟩ := r
        rw [h1, h2] at h
        injection h with h; subst h
        have hb := buildRow_spec refs d ctx lg (some i) hix cells (by intro h; cases h) row bs h1
          { kind := d.agg }
        simp only [processLog.go, hb, ih _ _ h2, agg_fold]

theorem processLog_spec (refs : Refs) (d : Decl) (ctx : Ctx) (lg : Log) (t : Ty) (v : Val)
    (rs : List (List DVal)) (hdata : lg.data.length > 0) (hix : ixOK d.inputs = true)
    (hspec : specRows refs d ctx lg t (some v) = .rows rs) :
    processLog refs d ctx lg (.ok (rowsOf t v)) = .ok rs := by
  unfold specRows at hspec
  unfold processLog
  rw [gate_eq_spec]
  by_cases hg : (!(decide (lg.topics.length = 1 + numIndexed d.inputs) && lg.topics.headD [] == d.sighash)) = true
  · rw [if_pos hg] at hspec
    injection hspec with hspec; subst hspec
    rw [if_pos hg]
  · rw [if_neg hg] at hspec
    rw [if_neg hg, if_pos hdata]
    dsimp only at hspec ⊢
    cases hgo : specRows.go refs d ctx lg (some v) (rowsOf t v) 0 with
    | none => rw [hgo] at hspec; cases hspec
    | some rows =>
      rw [hgo] at hspec
      injection hspec with hspec; subst hspec
      exact go_spec refs d ctx lg v hix _ _ _ hgo

theorem processLog_spec_nodata (refs : Refs) (d : Decl) (ctx : Ctx) (lg : Log) (t : Ty)
    (rs : List (List DVal)) (hdata : lg.data.length = 0) (hix : ixOK d.inputs = true)
    (hspec : specRows refs d ctx lg t none = .rows rs) (sr : Res (List (List (Option (List Nat))))) :
    processLog refs d ctx lg sr = .ok rs := by
  unfold specRows at hspec
  unfold processLog
  rw [gate_eq_spec]
  by_cases hg : (!(decide (lg.topics.length = 1 + numIndexed d.inputs) && lg.topics.headD [] == d.sighash)) = true
  · rw [if_pos hg] at hspec
    injection hspec with hspec; subst hspec
    rw [if_pos hg]
  · rw [if_neg hg] at hspec
    have hnd : ¬ lg.data.length > 0 := by omega
    rw [if_neg hg, if_neg hnd]
    dsimp only at hspec ⊢
    by_cases hn : (t.nsel == 0) = true
    · rw [if_pos hn] at hspec
      dsimp only at hspec
      simp only [specRows.go, Option.isSome_none] at hspec
      cases h1 : specRow refs d ctx lg false [] 0 with
      | none => rw [h1] at hspec; cases hspec
      | some r =>
        obtain ⟨row, bs⟩ := r
        rw [h1] at hspec
        dsimp only at hspec
        injection hspec with hspec; subst hspec
        have hb := buildRow_spec refs d ctx lg none hix [] (fun _ => rfl) row bs h1 { kind := d.agg }
        simp only [hb, agg_fold]
    · rw [if_neg hn] at hspec
      cases hspec

/-! ### server-side address pre-filter (C12) -/

theorem holds_active (refs : Refs) (f : Filter) (v : DVal) (r : Res Bool)
    (h : holds refs f v = some r) : f.active = true := by
  unfold holds at h
  unfold Filter.active
  by_cases hact : (f.args.isEmpty && f.refInteg.isEmpty) = true
  · rw [if_pos hact] at h; cases h
  · simp only [Bool.not_eq_true] at hact
    rw [hact]; rfl

theorem isInfix_go_len (sub : List Nat) : ∀ v : List Nat, isInfix.go sub v = true → sub.length ≤ v.length
  | [], h => by
    simp only [isInfix.go, List.isEmpty_iff] at h
    simp [h]
  | x :: xs, h => by
    simp only [isInfix.go, Bool.or_eq_true] at h
    rcases h with h | h
    · exact (List.isPrefixOf_iff_prefix.mp h).length_le
    · have := isInfix_go_len sub xs h
      simp only [List.length_cons]; omega

theorem isInfix_eq_len (sub v : List Nat) (h : isInfix sub v = true) (hl : sub.length = v.length) :
    sub = v := by
  unfold isInfix at h
  cases v with
  | nil => simpa using hl
  | cons x xs =>
    simp only [isInfix.go, Bool.or_eq_true] at h
    rcases h with h | h
    · exact (List.isPrefixOf_iff_prefix.mp h).eq_of_length hl
    · have := isInfix_go_len sub xs h
      simp only [List.length_cons] at hl; omega

def fltOf : ColDef → Filter
  | .input _ _ _ f => f
  | .block _ f => f

theorem activeFilters_eq (d : Decl) :
    d.activeFilters = ((d.coldefs.map fltOf).filter Filter.active).length := by
  unfold Decl.activeFilters
  congr 2

theorem goBd_cons (refs : Refs) (ctx : Ctx) (hd : Bool) (i : Nat) (n : String) (f : Filter)
    (rest : List (String × Filter)) :
    specRow.goBd refs ctx hd i ((n, f) :: rest) =
      match specRow.goBd refs ctx hd i rest with
      | none => none
      | some r =>
        if n == "abi_idx" then (if hd then some (.int i :: r.1, r.2) else none)
        else addRes (ctx.get n) (holds refs f (ctx.get n)) r := by
  simp only [specRow.goBd]
  generalize specRow.goBd refs ctx hd i rest = g
  cases g with
  | none => rfl
  | some r =>
    obtain ⟨vs, bs⟩ := r
    dsimp only
    split
    · rfl
    · simp only [addRes]
      split <;> simp_all

theorem addRes_bs (v : DVal) (r : Option (Res Bool)) (vs' vs : List DVal) (bs' bs : List Bool)
    (h : addRes v r (vs', bs') = some (vs, bs)) :
    (r = none ∧ bs = bs') ∨ (∃ b, r = some (.ok b) ∧ bs = b :: bs') := by
  unfold addRes at h
  cases r with
  | none => left; simp at h; simp [← h]
  | some res =>
    cases res with
    | ok b => right; simp at h; exact ⟨b, rfl, by simp [← h]⟩
    | err => simp at h
    | panic => simp at h
    | overread => simp at h

theorem block_flt (block : List (String × Filter)) :
    (block.map (fun (n, f) => ColDef.block n f)).map fltOf = block.map (·.2) := by
  induction block with
  | nil => rfl
  | cons p rest ih => obtain ⟨n, f⟩ := p; simp only [List.map_cons, ih, fltOf]

theorem goBd_mem (refs : Refs) (ctx : Ctx) (hd : Bool) (i : Nat) (block : List (String × Filter))
    (vs : List DVal) (bs : List Bool) (h : specRow.goBd refs ctx hd i block = some (vs, bs))
    (n : String) (f : Filter) (hm : (n, f) ∈ block) (hn : (n == "abi_idx") = false) (b : Bool)
    (hb : holds refs f (ctx.get n) = some (.ok b)) : b ∈ bs := by
  induction block generalizing vs bs with
  | nil => cases hm
  | cons p rest ih =>
    obtain ⟨n', f'⟩ := p
    rw [goBd_cons] at h
    cases hr : specRow.goBd refs ctx hd i rest with
    | none => rw [hr] at h; cases h
    | some r =>
      rw [hr] at h
      dsimp only at h
      obtain ⟨vs', bs'⟩ := r
      rcases List.mem_cons.mp hm with he | hm'
      · injection he with e1 e2; subst e1; subst e2
        rw [hn] at h
        simp only [Bool.false_eq_true, if_false, hb, addRes] at h
        injection h with h; injection h with h1 h2; subst h2
        exact List.mem_cons_self
      · have := ih vs' bs' hr hm'
        by_cases hn' : (n' == "abi_idx") = true
        · rw [if_pos hn'] at h
          cases hd with
          | false => simp at h
          | true =>
            simp only [if_true] at h
            injection h with h; injection h with h1 h2; subst h2
            exact this
        · rw [if_neg hn'] at h
          rcases addRes_bs _ _ _ _ _ _ h with ⟨_, h2⟩ | ⟨b', _, h2⟩
          · rw [h2]; exact this
          · rw [h2]; exact List.mem_cons_of_mem _ this

theorem goBd_len (refs : Refs) (ctx : Ctx) (hd : Bool) (i : Nat) (block : List (String × Filter))
    (vs : List DVal) (bs : List Bool) (h : specRow.goBd refs ctx hd i block = some (vs, bs)) :
    bs.length ≤ ((block.map (·.2)).filter Filter.active).length := by
  induction block generalizing vs bs with
  | nil =>
    simp only [specRow.goBd] at h
    injection h with h; injection h with h1 h2; subst h2; simp
  | cons p rest ih =>
    obtain ⟨n', f'⟩ := p
    rw [goBd_cons] at h
    cases hr : specRow.goBd refs ctx hd i rest with
    | none => rw [hr] at h; cases h
    | some r =>
      rw [hr] at h
      dsimp only at h
      obtain ⟨vs', bs'⟩ := r
      have := ih vs' bs' hr
      simp only [List.map_cons, List.filter_cons]
      by_cases hn' : (n' == "abi_idx") = true
      · rw [if_pos hn'] at h
        cases hd with
        | false => simp at h
        | true =>
          simp only [if_true] at h
          injection h with h; injection h with h1 h2; subst h2
          split <;> (try simp only [List.length_cons]) <;> omega
      · rw [if_neg hn'] at h
        rcases addRes_bs _ _ _ _ _ _ h with ⟨_, h2⟩ | ⟨b', hh, h2⟩
        · rw [h2]
          split <;> (try simp only [List.length_cons]) <;> omega
        · rw [h2, holds_active _ _ _ _ hh]
          simp only [if_true, List.length_cons]; omega

theorem goIn_len (refs : Refs) (d : Decl) (lg : Log) (G : Nat → Nat)
    (cols : List (Bool × Nat × List Char)) (fl : List Filter) (cells : List (Option (List Nat)))
    (vs : List DVal) (bs : List Bool) (h : specRow.goIn refs d lg cols fl cells = some (vs, bs)) :
    bs.length ≤ (((inCols G cols fl).map fltOf).filter Filter.active).length := by
  induction cols generalizing fl cells vs bs with
  | nil =>
    simp only [specRow.goIn] at h
    injection h with h; injection h with h1 h2; subst h2; simp
  | cons p rest ih =>
    obtain ⟨ix, k, ty⟩ := p
    simp only [inCols, List.map_cons, fltOf, List.filter_cons]
    have key : ∀ (v : DVal) (r : List DVal × List Bool) (cells' : List (Option (List Nat))),
        specRow.goIn refs d lg rest (fl.drop 1) cells' = some r →
        addRes v (holds refs (fl.headD {}) v) r = some (vs, bs) →
        bs.length ≤ (if (fl.headD {}).active = true then
          (fl.headD {}) :: ((inCols G rest (fl.drop 1)).map fltOf).filter Filter.active
          else ((inCols G rest (fl.drop 1)).map fltOf).filter Filter.active).length := by
      intro v r cells' hr ha
      obtain ⟨vs', bs'⟩ := r
      have := ih _ _ _ _ hr
      rcases addRes_bs _ _ _ _ _ _ ha with ⟨_, h2⟩ | ⟨b', hh, h2⟩
      · rw [h2]
        split <;> (try simp only [List.length_cons]) <;> omega
      · rw [h2, holds_active _ _ _ _ hh]
        simp only [if_true, List.length_cons]; omega
    cases ix with
    | true =>
      rw [goIn_true] at h
      cases ht : lg.topics[ownTopic d.inputs k]? with
      | none => rw [ht] at h; cases h
      | some t =>
        rw [ht] at h
        dsimp only at h
        cases hr : specRow.goIn refs d lg rest (fl.drop 1) cells with
        | none => rw [hr] at h; cases h
        | some r => rw [hr] at h; exact key _ r _ hr h
    | false =>
      cases cells with
      | nil => rw [goIn_false_nil] at h; cases h
      | cons c cells' =>
        rw [goIn_false] at h
        cases hr : specRow.goIn refs d lg rest (fl.drop 1) cells' with
        | none => rw [hr] at h; cases h
        | some r => rw [hr] at h; exact key _ r _ hr h

theorem go_emit (refs : Refs) (d : Decl) (ctx : Ctx) (lg : Log) (v : Option Val)
    (rs0 : List (List (Option (List Nat)))) (i : Nat) (rows : List (List DVal))
    (h : specRows.go refs d ctx lg v rs0 i = some rows) (hne : rows ≠ []) :
    ∃ cells i' row bs, specRow refs d ctx lg v.isSome cells i' = some (row, bs) ∧
      aggAccept d.agg bs = true := by
  induction rs0 generalizing i rows with
  | nil =>
    simp only [specRows.go] at h
    injection h with h; exact absurd h.symm hne
  | cons cells more ih =>
    simp only [specRows.go] at h
    cases h1 : specRow refs d ctx lg v.isSome cells i with
    | none => rw [h1] at h; cases h
    | some r =>
      cases h2 : specRows.go refs d ctx lg v more (i + 1) with
      | none => rw [h1, h2] at h; cases h
      | some rows' =>
        obtain ⟨row, bs⟩ := r
        rw [h1, h2] at h
        injection h with h
        by_cases ha : aggAccept d.agg bs = true
        · exact ⟨cells, i, row, bs, h1, ha⟩
        · rw [if_neg ha] at h
          subst h
          exact ih _ _ h2 hne

theorem specRows_emit (refs : Refs) (d : Decl) (ctx : Ctx) (lg : Log) (t : Ty) (v : Option Val)
    (rs : List (List DVal)) (hspec : specRows refs d ctx lg t v = .rows rs) (hne : rs ≠ []) :
    ∃ cells i' row bs, specRow refs d ctx lg v.isSome cells i' = some (row, bs) ∧
      aggAccept d.agg bs = true := by
  unfold specRows at hspec
  split at hspec
  · injection hspec with hspec; exact absurd hspec.symm hne
  · dsimp only at hspec
    split at hspec
    · cases hspec
    · rename_i rs0 _
      cases hgo : specRows.go refs d ctx lg v rs0 0 with
      | none => rw [hgo] at hspec; cases hspec
      | some rows =>
        rw [hgo] at hspec
        injection hspec with hspec; subst hspec
        exact go_emit refs d ctx lg v rs0 0 _ hgo hne

theorem pushdown_sound (refs : Refs) (d : Decl) (ctx : Ctx) (lg : Log) (t : Ty) (v : Option Val)
    (a : List Nat) (ha : ctx.get "log_addr" = .bytes a) (hlen : a.length = 20)
    (rs : List (List DVal)) (hspec : specRows refs d ctx lg t v = .rows rs) (hne : rs ≠ [])
    (hpush : pushedAddrs d ≠ []) :
    a ∈ pushedAddrs d := by
  -- a pushed filter
  have hex : ∃ p ∈ d.block, (p.1 == "log_addr" && pushAddrs d p.2) = true := by
    apply Classical.byContradiction
    intro hno
    apply hpush
    unfold pushedAddrs
    rw [List.flatMap_eq_nil_iff]
    intro p hp
    obtain ⟨n, f⟩ := p
    have : ¬ (n == "log_addr" && pushAddrs d f) = true := fun h => hno ⟨(n, f), hp, h⟩
    exact if_neg this
  obtain ⟨⟨n, f⟩, hmem, hcond⟩ := hex
  simp only [Bool.and_eq_true] at hcond
  obtain ⟨hn, hp⟩ := hcond
  have hn' : n = "log_addr" := (beq_iff_eq).mp hn
  subst hn'
  -- membership in pushedAddrs reduces to membership in this filter's arguments
  suffices hin : a ∈ f.args.map decodeHexStr by
    unfold pushedAddrs
    rw [List.mem_flatMap]
    exact ⟨("log_addr", f), hmem, by simp only [hn, hp, Bool.and_self, if_true]; exact hin⟩
  -- an emitted row
  obtain ⟨cells, i', row, bs, hrow, hacc⟩ := specRows_emit refs d ctx lg t v rs hspec hne
  unfold specRow at hrow
  dsimp only at hrow
  cases h1 : specRow.goIn refs d lg (selWithTop d.inputs 0) d.inputFilters cells with
  | none => rw [h1] at hrow; cases hrow
  | some r1 =>
    cases h2 : specRow.goBd refs ctx v.isSome i' d.block with
    | none => rw [h1, h2] at hrow; cases hrow
    | some r2 =>
      obtain ⟨a0, ba⟩ := r1
      obtain ⟨b0, bb⟩ := r2
      rw [h1, h2] at hrow
      injection hrow with hrow; injection hrow with e1 e2; subst e2
      -- unpack pushAddrs
      unfold pushAddrs at hp
      simp only [Bool.and_eq_true, Bool.not_eq_true', Bool.or_eq_true, List.all_eq_true] at hp
      obtain ⟨⟨⟨⟨hargs, hrt⟩, hop⟩, hall⟩, hagg⟩ := hp
      -- the truth value of this filter
      have hact : (f.args.isEmpty && f.refInteg.isEmpty) = false := by rw [hargs]; rfl
      have hrt' : (!f.refTable.isEmpty) = false := by rw [hrt]; rfl
      have hb : ∃ b', holds refs f (.bytes a) = some (.ok b') ∧ (b' = true → a ∈ f.args.map decodeHexStr) := by
        rcases hop with hop | hop
        · have := (beq_iff_eq).mp hop
          refine ⟨_, by simp only [holds, hact, this, hrt']; rfl, ?_⟩
          intro hb
          simp only [Bool.false_eq_true, if_false, List.any_eq_true] at hb
          obtain ⟨x, hx, hxi⟩ := hb
          have hl := hall x hx
          have := isInfix_eq_len _ _ hxi (by rw [hlen]; exact (beq_iff_eq).mp hl)
          exact List.mem_map.mpr ⟨x, hx, this⟩
        · have := (beq_iff_eq).mp hop
          refine ⟨_, by simp only [holds, hact, this, hrt']; rfl, ?_⟩
          intro hb
          simp only [List.any_eq_true] at hb
          obtain ⟨x, hx, hxi⟩ := hb
          exact List.mem_map.mpr ⟨x, hx, ((beq_iff_eq).mp hxi).symm⟩
      obtain ⟨b', hholds, himp⟩ := hb
      apply himp
      have hbm : b' ∈ bb := goBd_mem refs ctx v.isSome i' d.block b0 bb h2 "log_addr" f hmem (by decide)
        b' (by rw [ha]; exact hholds)
      have hbm' : b' ∈ ba ++ bb := List.mem_append_right _ hbm
      unfold aggAccept at hacc
      have hnotempty : (ba ++ bb).isEmpty = false := by
        cases hl : ba ++ bb with
        | nil => rw [hl] at hbm'; cases hbm'
        | cons _ _ => rfl
      rw [hnotempty, Bool.false_or] at hacc
      rcases hagg with hagg | hagg
      · rw [if_pos hagg, List.all_eq_true] at hacc
        exact hacc b' hbm'
      · -- exactly one active filter: the aggregate is that filter's value
        have hlen1 : (ba ++ bb).length ≤ 1 := by
          have e := (beq_iff_eq).mp hagg
          rw [activeFilters_eq, coldefs_eq, List.map_append, List.filter_append, List.length_append,
            block_flt] at e
          have l1 := goIn_len refs d lg (fun k => ownTopic.count d.inputs (k + 1)) _ _ _ _ _ h1
          have l2 := goBd_len refs ctx v.isSome i' d.block b0 bb h2
          rw [List.length_append]; omega
        have hsingle : ba ++ bb = [b'] := by
          cases hl : ba ++ bb with
          | nil => rw [hl] at hbm'; cases hbm'
          | cons x xs =>
            rw [hl] at hlen1 hbm'
            cases xs with
            | nil =>
              rcases List.mem_cons.mp hbm' with h | h
              · rw [h]
              · cases h
            | cons _ _ => simp only [List.length_cons] at hlen1; omega
        rw [hsingle] at hacc
        by_cases hand : (d.agg == "and") = true
        · rw [if_pos hand] at hacc; simpa using hacc
        · rw [if_neg hand] at hacc; simpa using hacc

/-! ### non-vacuity: a concrete ERC-20 `Transfer` declaration -/

deriving instance DecidableEq for SpecOut

namespace Example

def sigTransfer : List Nat :=
  [0xdd,0xf2,0x52,0xad,0x1b,0xe2,0xc8,0x9b,0x69,0xc2,0xb0,0x68,0xfc,0x37,0x8d,0xaa,
   0x95,0x2b,0xa7,0xf1,0x63,0xc4,0xa1,0x16,0x28,0xf5,0x5a,0x4d,0xf5,0x23,0xb3,0xef]

/-- the token contract, `0xa0b8…eb48` -/
def token : List Nat :=
  [0xa0,0xb8,0x69,0x91,0xc6,0x21,0x8b,0x36,0xc1,0xd1,0x9d,0x4a,0x2e,0x9e,0xb0,0xce,0x36,0x06,0xeb,0x48]
def other : List Nat := List.replicate 20 0x11

def fromA : List Nat := List.replicate 19 0 ++ [0xaa]
def toA : List Nat := List.replicate 19 0 ++ [0xbb]
def pad32 (a : List Nat) : List Nat := List.replicate (32 - a.length) 0 ++ a
def valueW : List Nat := List.replicate 30 0 ++ [0x03, 0xe8]     -- 1000

/-- ERC-20 `Transfer(address indexed from, address indexed to, uint256 value)` selecting `to` and
    `value`, block fields `log_addr` (filter: contains the token address) and `abi_idx` -/
def transfer : Decl where
  inputs := .cons (.mk true false "address".toList .nil)
           (.cons (.mk true true "address".toList .nil)
           (.cons (.mk false true "uint256".toList .nil) .nil))
  inputFilters := [{}, {}]
  block := [("log_addr", { op := "contains", args := ["0xa0b86991c6218b36c1d19d4a2e9eb0ce3606eb48"] }),
            ("abi_idx", {})]
  agg := "and"
  sighash := sigTransfer

def ty : Ty := .tup (.cons (.stat (some 0)) .nil)
def val : Val := .tup (.cons (.word valueW) .nil)
def lg : Log := { topics := [sigTransfer, pad32 fromA, pad32 toA], data := valueW }
def ctxOf (addr : List Nat) : Ctx := [("log_addr", .bytes addr)]
def row : List DVal := [.bytes toA, .u256 1000, .bytes token, .int 0]


example : eventAbiType transfer.inputs = .ok ty := by rfl
example : ixOK transfer.inputs = true := by decide +kernel
example : specRows [] transfer (ctxOf token) lg ty (some val) = .rows [row] := by decide +kernel
example : processLog [] transfer (ctxOf token) lg (.ok (rowsOf ty val)) = .ok [row] := by decide +kernel
/-- … and through the theorem: its hypotheses are satisfiable -/
example : processLog [] transfer (ctxOf token) lg (.ok (rowsOf ty val)) = .ok [row] :=
  processLog_spec [] transfer (ctxOf token) lg ty val [row] (by decide +kernel) (by decide +kernel)
    (by decide +kernel)
/-- a log of another contract: no row -/
example : specRows [] transfer (ctxOf other) lg ty (some val) = .rows [] := by decide +kernel
example : processLog [] transfer (ctxOf other) lg (.ok (rowsOf ty val)) = .ok [] := by decide +kernel
example : pushedAddrs transfer = [token] := by decide +kernel
example : token ∈ pushedAddrs transfer :=
  pushdown_sound [] transfer (ctxOf token) lg ty (some val) token (by decide +kernel) (by decide +kernel)
    [row] (by decide +kernel) (by decide +kernel) (by decide +kernel)

/-! no-data path: `Transfer` selecting only the indexed `to`, no `abi_idx` -/
def transferIx : Decl where
  inputs := .cons (.mk true false "address".toList .nil)
           (.cons (.mk true true "address".toList .nil)
           (.cons (.mk false false "uint256".toList .nil) .nil))
  inputFilters := [{}]
  block := [("log_addr", { op := "contains", args := ["0xa0b86991c6218b36c1d19d4a2e9eb0ce3606eb48"] })]
  agg := "and"
  sighash := sigTransfer
def tyIx : Ty := .tup (.cons (.stat none) .nil)
def lgIx : Log := { topics := [sigTransfer, pad32 fromA, pad32 toA], data := [] }

example : specRows [] transferIx (ctxOf token) lgIx tyIx none = .rows [[.bytes toA, .bytes token]] := by
  decide +kernel
example : processLog [] transferIx (ctxOf token) lgIx .err = .ok [[.bytes toA, .bytes token]] :=
  processLog_spec_nodata [] transferIx (ctxOf token) lgIx tyIx _ (by decide +kernel) (by decide +kernel)
    (by decide +kernel) .err

/-! gate: a log with a foreign signature hash, or with too few topics, contributes nothing -/
example : processLog [] transfer (ctxOf token) { topics := [pad32 toA, pad32 fromA, pad32 toA], data := valueW }
    (.ok (rowsOf ty val)) = .ok [] := by decide +kernel
example : processLog [] transfer (ctxOf token) { topics := [], data := valueW } (.ok (rowsOf ty val)) = .ok [] :=
  gate_reject_total _ _ _ _ _ (by decide +kernel)

/-! the `ixOK` hypothesis is needed: an `indexed` mark below a non-indexed top-level input makes the
    row builder read topic 0 (the signature hash) where the specification reads the own position -/
def badIx : Decl where
  inputs := .cons (.mk false false "tuple".toList (.cons (.mk true true "address".toList .nil) .nil)) .nil
  inputFilters := [{}]
  block := []
  agg := "and"
  sighash := sigTransfer
example : ixOK badIx.inputs = false := by decide +kernel
example : specRows [] badIx [] { topics := [sigTransfer], data := [] } (.tup .nil) none = .unspecified := by
  decide +kernel
example : processLog [] badIx [] { topics := [sigTransfer], data := [] } .err = .ok [[.bytes (sigTransfer.drop 12)]] := by
  decide +kernel

end Example

end Shovel.Row

#print axioms Shovel.Row.processLog_spec
#print axioms Shovel.Row.processLog_spec_nodata
#print axioms Shovel.Row.gate_only
#print axioms Shovel.Row.gate_reject_total
#print axioms Shovel.Row.agg_fold
#print axioms Shovel.Row.op_sem
#print axioms Shovel.Row.render_int
#print axioms Shovel.Row.dbtype_eq_renderSpec
#print axioms Shovel.Row.inputCols_ownTopic
#print axioms Shovel.Row.pushdown_sound
