/-
  Theorems about the model of `wos.EnvUint64.UnmarshalJSON` (`Shovel/Model/EnvNum.lean`):
  decimal numerals (with any number of leading zeros) read as their decimal value, everything
  else is an error, values at or above 2^64 are errors, and the three ways a value reaches the
  parser (bare token, quoted token, environment variable) agree.
-/
import Shovel.Model.EnvNum

namespace Shovel.EnvNum

/-! ## 1. rendering -/

/-- decimal digits of `n`, most significant first, with `fuel` bounding the number of digits -/
def renderAux : Nat → Nat → List Nat
  | 0, n => [48 + n % 10]
  | fuel + 1, n => if n < 10 then [48 + n] else renderAux fuel (n / 10) ++ [48 + n % 10]

/-- the decimal digits of `n` as ASCII bytes, most significant first -/
def render (n : Nat) : List Nat := renderAux n n

example : render 0 = [48] := by decide
example : render 7 = [55] := by decide
example : render 10 = [49, 48] := by decide
example : render 1009 = [49, 48, 48, 57] := by decide
example : render 17000000 = [49, 55, 48, 48, 48, 48, 48, 48] := by decide
example : render 18446744073709551615 =
    [49, 56, 52, 52, 54, 55, 52, 52, 48, 55, 51, 55, 48, 57, 53, 53, 49, 54, 49, 53] := by decide

theorem renderAux_fuel (f g n : Nat) (hf : n ≤ f) (hg : n ≤ g) : renderAux f n = renderAux g n := by
  induction f generalizing g n with
  | zero =>
    have hn : n = 0 := by omega
    subst hn
    cases g <;> simp [renderAux]
  | succ f ih =>
    cases g with
    | zero =>
      have hn : n = 0 := by omega
      subst hn
      simp [renderAux]
    | succ g =>
      simp only [renderAux]
      split
      · rfl
      · rw [ih g (n / 10) (by omega) (by omega)]

/-- the defining equation of `render` -/
theorem render_eq_if (n : Nat) :
    render n = if n < 10 then [48 + n] else render (n / 10) ++ [48 + n % 10] := by
  unfold render
  cases n with
  | zero => simp [renderAux]
  | succ m =>
    simp only [renderAux]
    split
    · rfl
    · rw [renderAux_fuel m ((m + 1) / 10) ((m + 1) / 10) (by omega) (Nat.le_refl _)]

theorem render_ne_nil (n : Nat) : render n ≠ [] := by
  rw [render_eq_if]
  split <;> simp

/-- no leading zero, except for `0` itself -/
theorem render_head_ne_zero (n : Nat) (h : 0 < n) : (render n).head? ≠ some 48 := by
  induction n using Nat.strongRecOn with
  | _ n ih =>
    rw [render_eq_if]
    split
    · simp; omega
    · have := ih (n / 10) (by omega) (by omega)
      have hne := render_ne_nil (n / 10)
      cases hr : render (n / 10) with
      | nil => exact absurd hr hne
      | cons a as => rw [hr] at this; simpa using this

private theorem digitChar_toNat : ∀ d, d < 10 → (Nat.digitChar d).toNat = 48 + d := by decide

/-- `render` is Lean's own decimal printing -/
theorem render_eq_repr (n : Nat) : render n = (Nat.repr n).toList.map Char.toNat := by
  rw [Nat.toList_repr]
  induction n using Nat.strongRecOn with
  | _ n ih =>
    rw [render_eq_if, Nat.toDigits_eq_if (by decide)]
    split
    · simp [digitChar_toNat n (by assumption)]
    · rw [ih (n / 10) (by omega)]
      simp [digitChar_toNat (n % 10) (by omega)]

/-! ## helper lemmas about `parseDec` -/

theorem parseDec_append (xs ys : List Nat) (acc : Nat) :
    parseDec (xs ++ ys) acc = (parseDec xs acc).bind (parseDec ys) := by
  induction xs generalizing acc with
  | nil => simp [parseDec]
  | cons b bs ih =>
    simp only [List.cons_append, parseDec]
    split
    · rfl
    · exact ih _

theorem parseDec_zeros (k : Nat) : parseDec (List.replicate k 48) 0 = some 0 := by
  induction k with
  | zero => rfl
  | succ k ih =>
    simp only [List.replicate_succ, parseDec]
    have : digit? 48 = some 0 := by decide
    rw [this]
    simpa using ih

theorem digit?_digit (d : Nat) (h : d < 10) : digit? (48 + d) = some d := by
  unfold digit?
  rw [if_pos (by omega)]
  congr 1
  omega

theorem parseDec_render (n acc : Nat) :
    parseDec (render n) acc = some (acc * 10 ^ (render n).length + n) := by
  induction n using Nat.strongRecOn generalizing acc with
  | _ n ih =>
    rw [render_eq_if]
    split
    · simp [parseDec, digit?_digit n (by assumption)]
    · rw [parseDec_append, ih (n / 10) (by omega)]
      simp only [Option.bind_some, parseDec, digit?_digit (n % 10) (by omega), List.length_append,
        List.length_cons, List.length_nil, Nat.pow_succ, Nat.zero_add]
      congr 1
      rw [Nat.add_mul, Nat.mul_assoc]
      omega

theorem parseDec_zeros_render (n k : Nat) :
    parseDec (List.replicate k 48 ++ render n) 0 = some n := by
  rw [parseDec_append, parseDec_zeros, Option.bind_some, parseDec_render]
  simp

theorem parseUint64_of_ne_nil (s : List Nat) (h : s ≠ []) :
    parseUint64 s =
      match parseDec s 0 with
      | some n => if n < 2 ^ 64 then some n else none
      | none => none := by
  cases s with
  | nil => exact absurd rfl h
  | cons b bs => rfl

theorem parseDec_digits (s : List Nat) (acc n : Nat) (h : parseDec s acc = some n) :
    ∀ b ∈ s, 48 ≤ b ∧ b ≤ 57 := by
  induction s generalizing acc with
  | nil => simp
  | cons c cs ih =>
    simp only [parseDec] at h
    split at h
    · exact absurd h (by simp)
    · rename_i d hd
      intro b hb
      rcases List.mem_cons.mp hb with rfl | hb
      · unfold digit? at hd
        split at hd
        · assumption
        · exact absurd hd (by simp)
      · exact ih _ h b hb

/-! ## 2–5. `parseUint64` -/

/-- a decimal numeral with any number of leading zeros reads as its decimal value -/
theorem parseUint64_render (n : Nat) (h : n < 2 ^ 64) (k : Nat) :
    parseUint64 (List.replicate k 48 ++ render n) = some n := by
  rw [parseUint64_of_ne_nil _ (by simp [render_ne_nil]), parseDec_zeros_render]
  simp [h]

theorem parseUint64_lt (s : List Nat) (n : Nat) (h : parseUint64 s = some n) : n < 2 ^ 64 := by
  cases s with
  | nil => exact absurd h (by simp [parseUint64])
  | cons b bs =>
    simp only [parseUint64] at h
    split at h
    · split at h
      · cases h; assumption
      · exact absurd h (by simp)
    · exact absurd h (by simp)

theorem parseUint64_digits (s : List Nat) (n : Nat) (h : parseUint64 s = some n) :
    s ≠ [] ∧ ∀ b ∈ s, 48 ≤ b ∧ b ≤ 57 := by
  cases s with
  | nil => exact absurd h (by simp [parseUint64])
  | cons b bs =>
    refine ⟨by simp, ?_⟩
    simp only [parseUint64] at h
    split at h
    · rename_i m hm
      exact parseDec_digits _ _ _ hm
    · exact absurd h (by simp)

theorem parseUint64_overflow (n : Nat) (h : 2 ^ 64 ≤ n) (k : Nat) :
    parseUint64 (List.replicate k 48 ++ render n) = none := by
  rw [parseUint64_of_ne_nil _ (by simp [render_ne_nil]), parseDec_zeros_render]
  have : ¬ n < 2 ^ 64 := by omega
  simp [this]

/-! ## 6. `envUint64` -/

theorem unquote_of_head_ne (t : List Nat) (h : t.head? ≠ some 34) : unquote t = t := by
  unfold unquote
  rw [if_neg]
  intro hc
  exact h hc.2.1

theorem unquote_quoted (t : List Nat) : unquote (34 :: t ++ [34]) = t := by
  unfold unquote
  rw [if_pos]
  · simp
  · refine ⟨by simp, by simp, ?_⟩
    rw [List.getLast?_append]
    simp

/-- whatever `parseUint64` accepts, the bare token yields -/
theorem envUint64_of_parse (env t : List Nat) (n : Nat) (h : parseUint64 t = some n) :
    envUint64 env t = .ok n := by
  obtain ⟨hne, hd⟩ := parseUint64_digits t n h
  cases t with
  | nil => exact absurd rfl hne
  | cons b bs =>
    have hb := hd b (by simp)
    have hu : unquote (b :: bs) = b :: bs := unquote_of_head_ne _ (by simp; omega)
    have h36 : b ≠ 36 := by omega
    unfold envUint64
    simp only [hu]
    split
    · rename_i heq
      split at heq
      · rename_i heq2
        cases heq2
        exact absurd rfl h36
      · cases heq
    · rename_i t' heq
      split at heq
      · rename_i heq2
        cases heq2
        exact absurd rfl h36
      · cases heq
        rw [h]

theorem envUint64_quoted_of_parse (env t : List Nat) (n : Nat) (h : parseUint64 t = some n) :
    envUint64 env (34 :: t ++ [34]) = .ok n := by
  have := envUint64_of_parse env t n h
  obtain ⟨hne, hd⟩ := parseUint64_digits t n h
  cases t with
  | nil => exact absurd rfl hne
  | cons b bs =>
    have hb := hd b (by simp)
    have hu : unquote (b :: bs) = b :: bs := unquote_of_head_ne _ (by simp; omega)
    unfold envUint64 at this ⊢
    rw [unquote_quoted]
    rw [hu] at this
    exact this

theorem envUint64_env_of_parse (name t : List Nat) (n : Nat) (h : parseUint64 t = some n) :
    envUint64 t (34 :: 36 :: name ++ [34]) = .ok n := by
  obtain ⟨hne, _⟩ := parseUint64_digits t n h
  unfold envUint64
  have : (34 :: 36 :: name ++ [34]) = 34 :: (36 :: name) ++ [34] := by simp
  rw [this, unquote_quoted]
  simp [hne, h]

theorem envUint64_plain (env : List Nat) (n : Nat) (h : n < 2 ^ 64) (k : Nat) :
    envUint64 env (List.replicate k 48 ++ render n) = .ok n :=
  envUint64_of_parse env _ n (parseUint64_render n h k)

theorem envUint64_quoted (env : List Nat) (n : Nat) (h : n < 2 ^ 64) (k : Nat) :
    envUint64 env (34 :: (List.replicate k 48 ++ render n) ++ [34]) = .ok n :=
  envUint64_quoted_of_parse env _ n (parseUint64_render n h k)

/-- the value comes from the environment variable; no side condition on `name` -/
theorem envUint64_env (name : List Nat) (n : Nat) (h : n < 2 ^ 64) (k : Nat) :
    envUint64 (List.replicate k 48 ++ render n) (34 :: 36 :: name ++ [34]) = .ok n :=
  envUint64_env_of_parse name _ n (parseUint64_render n h k)

/-! ## 7. non-vacuity -/

example : envUint64 [] [34, 48, 49, 55, 34] = .ok 17 := by decide
example : envUint64 [] [48, 49, 55] = .ok 17 := by decide
example : envUint64 [] [48, 120, 49, 48] = .err := by decide            -- 0x10
example : envUint64 [] [49, 95, 48, 48, 48] = .err := by decide         -- 1_000
example : envUint64 [] [43, 53] = .err := by decide                     -- +5
example : envUint64 [] [32, 53] = .err := by decide                     -- " 5"
example : envUint64 [] [] = .err := by decide                           -- ""
example : envUint64 [] [34, 34] = .err := by decide                     -- "\"\""
example : envUint64 [] [34, 36, 88, 34] = .exit := by decide
example : envUint64 [48, 49, 48] [34, 36, 88, 34] = .ok 10 := by decide -- "$X", X=010: ten, not eight
example : parseUint64 (render (2 ^ 64)) = none := by decide
example : parseUint64 (render (2 ^ 64 - 1)) = some (2 ^ 64 - 1) := by decide

end Shovel.EnvNum

#print axioms Shovel.EnvNum.render_eq_repr
#print axioms Shovel.EnvNum.render_head_ne_zero
#print axioms Shovel.EnvNum.parseUint64_render
#print axioms Shovel.EnvNum.parseUint64_lt
#print axioms Shovel.EnvNum.parseUint64_digits
#print axioms Shovel.EnvNum.parseUint64_overflow
#print axioms Shovel.EnvNum.envUint64_plain
#print axioms Shovel.EnvNum.envUint64_quoted
#print axioms Shovel.EnvNum.envUint64_env
