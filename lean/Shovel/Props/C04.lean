import Shovel.Props.World

/-! C04 lifted from one step to every interleaving: a SCHEDULE is any finite sequence of steps, each
    by any task, against any source answers, with or without a fault. -/
namespace Shovel.World

/-- one scheduled step: which task runs, what its source answers, where (if anywhere) a fault strikes -/
structure SStep where
  task : Task
  script : Script
  fault : Option Pos

/-- the committed state after a step: the final state (a faulted step's `db` is what it left committed) -/
def runSched (db : DB) (steps : List SStep) : DB :=
  steps.foldl (fun d s => (converge s.task d s.script s.fault).db) db

/-- every committed state a schedule passes through, including those committed mid-step -/
def visited (db : DB) : List SStep → List DB
  | [] => [db]
  | s :: rest =>
    let r := converge s.task db s.script s.fault
    db :: (match r.mid with | some m => [m] | none => []) ++ visited r.db rest

/-- two tasks are different (source, integration) pairs -/
def otherPair (t u : Task) : Prop := ¬ (u.src = t.src ∧ u.ig = t.ig)

theorem mine_of_other {t u : Task} (h : otherPair t u) (x : TRow) (hx : mine t x = true) : (!mine u x) = true := by
  unfold mine at *
  simp only [Bool.and_eq_true, beq_iff_eq, Bool.not_eq_true', Bool.and_eq_false_iff] at *
  by_cases h1 : x.src = u.src
  · by_cases h2 : x.ig = u.ig
    · exact absurd (And.intro (by rw [← h1, hx.1.2]) (by rw [← h2, hx.2])) h
    · exact Or.inr (by simpa using h2)
  · exact Or.inl (Or.inr (by simpa using h1))

theorem mineC_of_other {t u : Task} (h : otherPair t u) (x : Cur) (hx : mineC t x = true) : (!mineC u x) = true := by
  unfold mineC at *
  simp only [Bool.and_eq_true, beq_iff_eq, Bool.not_eq_true', Bool.and_eq_false_iff] at *
  by_cases h1 : x.src = u.src
  · by_cases h2 : x.ig = u.ig
    · exact absurd ⟨by rw [← h1, hx.1], by rw [← h2, hx.2]⟩ h
    · exact Or.inr (by simpa using h2)
  · exact Or.inl (by simpa using h1)

/-- filtering by a predicate that implies another commutes with an equality of the coarser filters -/
theorem filter_of_filter_eq {α} (p q : α → Bool) (l₁ l₂ : List α) (hpq : ∀ x, p x = true → q x = true)
    (h : l₁.filter q = l₂.filter q) : l₁.filter p = l₂.filter p := by
  have e : ∀ l : List α, l.filter p = (l.filter q).filter p := by
    intro l
    rw [List.filter_filter]
    apply List.filter_congr
    intro x _
    cases hp : p x <;> simp_all
  rw [e l₁, e l₂, h]

/-- one step of ANOTHER pair leaves this pair's rows and positions exactly as they were -/
theorem step_other (t u : Task) (h : otherPair t u) (db : DB) (sc : Script) (f : Option Pos) :
    let r := converge u db sc f
    (r.db.rows.filter (mine t) = db.rows.filter (mine t) ∧ r.db.cur.filter (mineC t) = db.cur.filter (mineC t)) ∧
    (∀ m, r.mid = some m → m.rows.filter (mine t) = db.rows.filter (mine t) ∧ m.cur.filter (mineC t) = db.cur.filter (mineC t)) := by
  intro r
  obtain ⟨hc, hr, hm⟩ := frame u db sc f
  refine ⟨⟨filter_of_filter_eq _ _ _ _ (mine_of_other h) hr, filter_of_filter_eq _ _ _ _ (mineC_of_other h) hc⟩, ?_⟩
  intro m hmid
  obtain ⟨hc', hr'⟩ := hm m hmid
  exact ⟨filter_of_filter_eq _ _ _ _ (mine_of_other h) hr', filter_of_filter_eq _ _ _ _ (mineC_of_other h) hc'⟩

/-- **isolation_schedule** (C04, every interleaving): however many steps the OTHER pairs take — in any
    order, with any source answers (reorgs included), faulted anywhere or not, sharing this pair's
    table and source or not — every committed state the schedule passes through (also the ones
    committed in the middle of a step) holds exactly this pair's original rows and positions. -/
theorem isolation_schedule (t : Task) (steps : List SStep) (db : DB)
    (h : ∀ s ∈ steps, otherPair t s.task) :
    ∀ v ∈ visited db steps, v.rows.filter (mine t) = db.rows.filter (mine t) ∧ v.cur.filter (mineC t) = db.cur.filter (mineC t) := by
  induction steps generalizing db with
  | nil => intro v hv; simp [visited] at hv; subst hv; exact ⟨rfl, rfl⟩
  | cons s rest ih =>
    intro v hv
    obtain ⟨hfin, hmid⟩ := step_other t s.task (h s (by simp)) db s.script s.fault
    simp only [visited, List.cons_append, List.mem_cons, List.mem_append] at hv
    rcases hv with rfl | hv | hv
    · exact ⟨rfl, rfl⟩
    · cases hm : (converge s.task db s.script s.fault).mid with
      | none => rw [hm] at hv; simp at hv
      | some m' => rw [hm] at hv; simp at hv; subst hv; exact hmid _ hm
    · obtain ⟨a, b⟩ := ih (converge s.task db s.script s.fault).db (fun s' hs' => h s' (by simp [hs'])) v hv
      exact ⟨a.trans hfin.1, b.trans hfin.2⟩

/-- the final state is one of the visited ones -/
theorem runSched_visited (db : DB) (steps : List SStep) : runSched db steps ∈ visited db steps := by
  induction steps generalizing db with
  | nil => simp [runSched, visited]
  | cons s rest ih =>
    simp only [runSched, List.foldl_cons, visited, List.cons_append, List.mem_cons, List.mem_append]
    exact Or.inr (Or.inr (ih _))

/-- **interleaving_irrelevant** (C04): this pair's own step, taken after ANY schedule of the other
    pairs, starts from exactly the rows and positions it would have found with no other pair running. -/
theorem interleaving_irrelevant (t : Task) (steps : List SStep) (db : DB) (h : ∀ s ∈ steps, otherPair t s.task) :
    (runSched db steps).rows.filter (mine t) = db.rows.filter (mine t) ∧
    (runSched db steps).cur.filter (mineC t) = db.cur.filter (mineC t) :=
  isolation_schedule t steps db h _ (runSched_visited db steps)

/-- **stamp_schedule** (C04): every row and position present after any schedule was there before
    or carries the (source, integration) of one of the tasks that stepped. -/
theorem stamp_schedule (steps : List SStep) (db : DB) :
    (∀ x ∈ (runSched db steps).rows, x ∈ db.rows ∨ ∃ s ∈ steps, mine s.task x = true) ∧
    (∀ x ∈ (runSched db steps).cur, x ∈ db.cur ∨ ∃ s ∈ steps, mineC s.task x = true) := by
  induction steps generalizing db with
  | nil => exact ⟨fun x hx => .inl hx, fun x hx => .inl hx⟩
  | cons s rest ih =>
    obtain ⟨hr, hc⟩ := stamp s.task db s.script s.fault
    obtain ⟨ihr, ihc⟩ := ih (converge s.task db s.script s.fault).db
    simp only [runSched, List.foldl_cons] at *
    constructor
    · intro x hx
      rcases ihr x hx with h1 | ⟨s', hs', hm⟩
      · rcases hr x h1 with h2 | h2
        · exact .inl h2
        · exact .inr ⟨s, by simp, h2⟩
      · exact .inr ⟨s', by simp [hs'], hm⟩
    · intro x hx
      rcases ihc x hx with h1 | ⟨s', hs', hm⟩
      · rcases hc x h1 with h2 | h2
        · exact .inl h2
        · exact .inr ⟨s, by simp, h2⟩
      · exact .inr ⟨s', by simp [hs'], hm⟩

end Shovel.World

namespace Shovel.World

/-- `Inv` looks at this pair's rows and positions only -/
theorem Inv_congr (t : Task) (c : Chain) (s : Nat) (db v : DB)
    (hr : v.rows.filter (mine t) = db.rows.filter (mine t)) (hc : v.cur.filter (mineC t) = db.cur.filter (mineC t))
    (h : Inv t c s db) : Inv t c s v := by
  unfold Inv at *
  simp only [hr, hc]
  exact h

/-- **inv_under_interleaving** (C01 next to other tasks, C04): the exactly-once invariant of one pair — every
    recorded position is a block of the chain, the rows are exactly the projection of the blocks up to the newest
    position, each once — survives every schedule of steps by the other pairs, in every committed state the
    schedule passes through, shared table or not. Together with `inv_step` (this pair's own steps, faulted or
    not) the invariant holds along any interleaving of the two. -/
theorem inv_under_interleaving (t : Task) (c : Chain) (s : Nat) (steps : List SStep) (db : DB)
    (h : ∀ st ∈ steps, otherPair t st.task) (hinv : Inv t c s db) :
    ∀ v ∈ visited db steps, Inv t c s v := by
  intro v hv
  obtain ⟨hr, hc⟩ := isolation_schedule t steps db h v hv
  exact Inv_congr t c s db v hr hc hinv

end Shovel.World

namespace Shovel.World
open Ex

/-! non-vacuity: the pair ("s","other") shares source and table with `t1`; `t1` takes a healthy step, a step
    struck by a fault between its two transactions, and a reorg step; the state changes (rows of `t1` come
    and go) while the other pair's row and position are what they were in every visited state -/

def tOther : Task := { t1 with ig := "other" }

def dbShared : DB := { cur := [{ src := "s", ig := "other", num := 4, hash := hx '4' }], rows := [foreign] }

def sched3 : List SStep := [⟨t1, sc1, some .insert⟩, ⟨t1, sc1, none⟩, ⟨t1, sc1, some .begin1⟩]

example : (visited dbShared sched3).map (fun d => (d.rows.length, d.cur.length)) = [(1, 1), (1, 1), (1, 1), (1, 1), (3, 2), (3, 2)] := by decide +kernel

example : ∀ v ∈ visited dbShared sched3,
    v.rows.filter (mine tOther) = dbShared.rows.filter (mine tOther) ∧
    v.cur.filter (mineC tOther) = dbShared.cur.filter (mineC tOther) :=
  isolation_schedule tOther sched3 dbShared (by
    intro s hs
    simp only [sched3, List.mem_cons, List.not_mem_nil, or_false] at hs
    rcases hs with rfl | rfl | rfl <;> (intro h; exact absurd h.2 (by decide)))

/-- `inv_under_interleaving` applies: `t1` has indexed blocks 1..2; the other pair then takes a healthy step and a
    step killed at its second commit (it really writes: the database grows) — `t1`'s invariant holds throughout -/
def tOther2 : Task := { t1 with ig := "other", table := "tb2" }

def schedOther : List SStep := [⟨tOther2, sc1, some .commit2⟩, ⟨tOther2, sc1, none⟩]

example : (visited (converge t1 {} sc1 none).db schedOther).map (fun d => (d.rows.length, d.cur.length)) =
    [(2, 1), (2, 1), (2, 1), (2, 1), (4, 2)] := by decide +kernel

example : ∀ v ∈ visited (converge t1 {} sc1 none).db schedOther, Inv t1 c6 (t1.start - 1) v :=
  inv_under_interleaving t1 c6 _ schedOther _
    (by intro st hst
        simp only [schedOther, List.mem_cons, List.not_mem_nil, or_false] at hst
        rcases hst with rfl | rfl <;> (intro h; exact absurd h.2 (by decide)))
    (inv_step t1 c6 {} sc1 none c6_wf sc1_ok (by decide) (by decide) (by decide) (by decide) (by decide +kernel)
      rfl (by decide +kernel) (by decide +kernel)).1

example : dbShared.rows.filter (mine tOther) = [foreign] ∧ dbShared.cur.filter (mineC tOther) = dbShared.cur := by decide +kernel

end Shovel.World
