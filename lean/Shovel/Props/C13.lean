import Shovel.Model.AbiType
import Shovel.Spec.AbiDecl
import Shovel.Proofs.AbiDecl
/-
  C09 (parser part) `parse_correct` and C13 `sig_canonical`.
  Theorems are about `Shovel.Abi` (model of Input.ABIType / parseArray / Event.ABIType and
  Input.Signature / Event.Signature in dig/dig.go); the specification side is Shovel/Spec/AbiDecl.lean;
  helper lemmas are in Shovel/Proofs/AbiDecl.lean.
-/
namespace Shovel.Abi

/-- **parse_correct** (C09): for every well-formed declaration — elementary names incl. bytes vs
    bytesN, `T[k]` for every k ≥ 1 incl. k ≥ 10, `T[]`, arrays of arrays, tuples, tuple arrays,
    nested to any depth, any selection — the type the decoder is built from is the denoted one,
    with selected leaves numbered in declaration order. -/
theorem parse_correct (ds : List (Bool × STy)) (hwf : ∀ d ∈ ds, d.2.wf = true) :
    eventAbiType (declInps ds) = .ok (.tup (declExpect 0 ds).2) := by
  unfold eventAbiType
  rw [eventFields_decl ds hwf 0]

/-- **sig_canonical** (C13): the signature string is the canonical Solidity signature for any
    nesting of tuples and arrays. -/
theorem sig_canonical (name : List Char) (ds : List (Bool × STy)) (hwf : ∀ d ∈ ds, d.2.wf = true) :
    eventSignature name (declInps ds) = name ++ '(' :: declCanon ds ++ [')'] := by
  unfold eventSignature
  rw [sig_decl ds hwf]

/-- position threading, stated on its own: the next free column after the declaration is the
    number the specification assigns (used by C09 for `ncols`). -/
theorem parse_positions (ds : List (Bool × STy)) (hwf : ∀ d ∈ ds, d.2.wf = true) (pos : Nat) :
    eventFields (declInps ds) pos = .ok (declExpect pos ds) :=
  eventFields_decl ds hwf pos

/-- a single input (any `indexed` flag), any start position -/
theorem input_abiType_correct (t : STy) (ix : Bool) (pos : Nat) (hwf : t.wf = true) :
    Inp.abiType (t.toInp ix) pos = .ok (STy.expect pos t) :=
  abiType_full t ix pos hwf

/-- a single input's signature is its canonical type -/
theorem input_signature_canonical (t : STy) (ix : Bool) (hwf : t.wf = true) :
    Inp.signature (t.toInp ix) = t.canon :=
  sig_full t ix hwf

/-! ## non-vacuity: concrete declarations -/

/-- `Transfer(address indexed from, address indexed to, uint256 value)` with `value` selected -/
def erc20Transfer : List (Bool × STy) :=
  [(true, .elem "address".toList true), (true, .elem "address".toList true),
   (false, .elem "uint256".toList true)]

example : ∀ d ∈ erc20Transfer, d.2.wf = true := by decide +kernel

example : eventSignature "Transfer".toList (declInps erc20Transfer)
    = "Transfer(address,address,uint256)".toList := by decide +kernel

example : eventAbiType (declInps erc20Transfer) = .ok (.tup (.cons (.stat (some 0)) .nil)) := by rfl

example : declCanon erc20Transfer = "address,address,uint256".toList := by decide +kernel

/-- Seaport-like: `OrderFulfilled(bytes32 orderHash, address indexed offerer, address indexed zone,
    address recipient, (uint8 itemType, address token, uint256[12] ids, bytes extra)[] offer,
    (uint8,address,string)[3][] consideration)` -/
def seaportLike : List (Bool × STy) :=
  [(false, .elem "bytes32".toList true),
   (true, .elem "address".toList false),
   (true, .elem "address".toList false),
   (false, .elem "address".toList true),
   (false, .arr 0 (.tuple
      (.cons (.elem "uint8".toList false)
      (.cons (.elem "address".toList true)
      (.cons (.arr 12 (.elem "uint256".toList true))
      (.cons (.elem "bytes".toList true) .nil)))))),
   (false, .arr 0 (.arr 3 (.tuple
      (.cons (.elem "uint8".toList false)
      (.cons (.elem "address".toList false)
      (.cons (.elem "string".toList true) .nil))))))]

example : ∀ d ∈ seaportLike, d.2.wf = true := by decide +kernel

example : eventSignature "OrderFulfilled".toList (declInps seaportLike)
    = ("OrderFulfilled(bytes32,address,address,address," ++
       "(uint8,address,uint256[12],bytes)[],(uint8,address,string)[3][])").toList := by decide +kernel

/-- the type strings the JSON ABI carries for the two tuple arrays -/
example : (declInps seaportLike) =
    .cons (.mk false true "bytes32".toList .nil)
    (.cons (.mk true false "address".toList .nil)
    (.cons (.mk true false "address".toList .nil)
    (.cons (.mk false true "address".toList .nil)
    (.cons (.mk false false "tuple[]".toList
      (.cons (.mk false false "uint8".toList .nil)
      (.cons (.mk false true "address".toList .nil)
      (.cons (.mk false true "uint256[12]".toList .nil)
      (.cons (.mk false true "bytes".toList .nil) .nil)))))
    (.cons (.mk false false "tuple[3][]".toList
      (.cons (.mk false false "uint8".toList .nil)
      (.cons (.mk false false "address".toList .nil)
      (.cons (.mk false true "string".toList .nil) .nil))))
    .nil))))) := by rfl

example : eventAbiType (declInps seaportLike) = .ok (.tup
    (.cons (.stat (some 0))
    (.cons (.stat (some 1))
    (.cons (.arr 0 (.tup
      (.cons (.stat none)
      (.cons (.stat (some 2))
      (.cons (.arr 12 (.stat (some 3)))
      (.cons (.dyn (some 4)) .nil))))))
    (.cons (.arr 0 (.arr 3 (.tup
      (.cons (.stat none)
      (.cons (.stat none)
      (.cons (.dyn (some 5)) .nil))))))
    .nil))))) := by rfl

example : (declExpect 0 seaportLike).1 = 6 := by rfl

/-- multi-digit and nested dimensions: `bytes4[100][][3]` (static word, not `bytes`) -/
example : eventAbiType (declInps [(false, .arr 3 (.arr 0 (.arr 100 (.elem "bytes4".toList true))))])
    = .ok (.tup (.cons (.arr 3 (.arr 0 (.arr 100 (.stat (some 0))))) .nil)) := by rfl

example : eventSignature "E".toList
    (declInps [(false, .arr 3 (.arr 0 (.arr 100 (.elem "bytes4".toList true))))])
    = "E(bytes4[100][][3])".toList := by decide +kernel

/-- `bytes[2]`: dynamic element under a fixed array -/
example : eventAbiType (declInps [(false, .arr 2 (.elem "bytes".toList true))])
    = .ok (.tup (.cons (.arr 2 (.dyn (some 0))) .nil)) := by rfl

/-! ## why the side conditions are there (behaviour of the modelled Go code outside `wf`) -/

/-- an empty type string with an array suffix: Go's `for i := len(s)-2; i != 0; i--` starts at
    `i = 0`, skips the loop and slices `s[:len(s)-len(num)-2]` = `s[:0]` — no panic, but the
    model/Go yields `arr 0` for `"[]"`; with `"[5]"` the digit loop never sees `[`, so it runs to
    index 1 only and `Atoi("5")` succeeds.  `nameOK` excludes the empty name. -/
example : parseArray 5 (.stat none) "[]".toList = .ok (.arr 0 (.stat none)) := by rfl

/-- a type string with `]` but no matching `[` before non-digits makes `strconv.Atoi` fail and the
    Go code panic -/
example : parseArray 9 (.stat none) "uint8x]".toList = .panic := by rfl

/-- `T[0]` (not valid Solidity) parses to the same decoder type as `T[]`: `arrayK(0, e)` has
    `length = 0` like `array(e)`; the rendering of `STy` never produces it (`k = 0` prints `[]`) -/
example : parseArray 12 (.stat none) "uint8[0]".toList
    = parseArray 12 (.stat none) "uint8[]".toList := by rfl

/-- a tuple without components is treated as an elementary static word by `Input.ABIType`
    (hence the "at least one member" clause of `wf`) -/
example : eventAbiType (.cons (.mk false false "tuple".toList .nil) .nil)
    = .ok (.tup (.cons (.stat none) .nil)) := by rfl

/-- names that merely start with `string` are classified dynamic by the Go code
    (`strings.HasPrefix(type, "string")`), hence the `string` clause of `nameOK` -/
example : eventAbiType (.cons (.mk false true "stringy".toList .nil) .nil)
    = .ok (.tup (.cons (.dyn (some 0)) .nil)) := by rfl

end Shovel.Abi
