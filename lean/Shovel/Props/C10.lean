import Shovel.Model.Abi
/-
  C10 — the ABI decoder `scan` is total (never panics, never reads outside the input) and every
  decoded cell is a sub-range of the input.
-/
namespace Shovel.Abi

/-! ## auxiliary definitions (statement side) -/

-- every selected position of `t` is a valid column index
mutual
def Ty.posOK (n : Nat) : Ty → Bool
  | .stat s => match s with | some p => p < n | none => true
  | .dyn s => match s with | some p => p < n | none => true
  | .arr _ e => e.posOK n
  | .tup fs => fs.posOK n
def Tys.posOK (n : Nat) : Tys → Bool
  | .nil => true
  | .cons t ts => t.posOK n && ts.posOK n
end

def Buf.WF (b : Buf) : Prop := b.data.length ≤ b.cap

def cellOK (b : Buf) (c : Option (Nat × Nat)) : Prop :=
  match c with | none => True | some (lo, hi) => lo ≤ hi ∧ hi ≤ b.data.length

/-- well-formed decoder state: every row has `ncols` cells, every cell is a sub-range of the input -/
structure St.WF (b : Buf) (s : St) : Prop where
  single_len : s.single.length = s.ncols
  rows_len : ∀ row ∈ s.coll, row.length = s.ncols
  n_le : s.n ≤ s.coll.length
  single_ok : ∀ c ∈ s.single, cellOK b c
  rows_ok : ∀ row ∈ s.coll, ∀ c ∈ row, cellOK b c

def RefOK (s : St) : RowRef → Prop
  | .single => True
  | .coll i => i < s.coll.length

/-! ## generalised invariant

`all = true`: every physical row of `coll` holds sub-ranges (this is `St.WF`).
`all = false`: only the *live* rows (index `< n`) do — this is what `Result.Scan` can rely on,
because rows beyond `n` are stale leftovers of earlier scans over other inputs. -/

structure St.WFg (all : Bool) (b : Buf) (s : St) : Prop where
  single_len : s.single.length = s.ncols
  rows_len : ∀ row ∈ s.coll, row.length = s.ncols
  n_le : s.n ≤ s.coll.length
  single_ok : ∀ c ∈ s.single, cellOK b c
  rows_ok : ∀ i row, s.coll[i]? = some row → (all = true ∨ i < s.n) → ∀ c ∈ row, cellOK b c

def RefOKg (all : Bool) (s : St) : RowRef → Prop
  | .single => True
  | .coll i => i < s.coll.length ∧ (all = true ∨ i < s.n)

theorem St.WF_iff_WFg (b : Buf) (s : St) : s.WF b ↔ s.WFg true b := by
  constructor
  · intro h
    refine ⟨h.single_len, h.rows_len, h.n_le, h.single_ok, ?_⟩
    intro i row hi _ c hc
    exact h.rows_ok row (List.mem_of_getElem? hi) c hc
  · intro h
    refine ⟨h.single_len, h.rows_len, h.n_le, h.single_ok, ?_⟩
    intro row hrow c hc
    obtain ⟨i, hi⟩ := List.getElem?_of_mem hrow
    exact h.rows_ok i row hi (Or.inl rfl) c hc

theorem RefOK_iff_RefOKg (s : St) (r : RowRef) : RefOK s r ↔ RefOKg true s r := by
  cases r <;> simp [RefOK, RefOKg]

/-- `s'` is a well-formed extension of `s` -/
structure Ext (all : Bool) (b : Buf) (s s' : St) : Prop where
  wf : s'.WFg all b
  ncols : s'.ncols = s.ncols
  coll_mono : s.coll.length ≤ s'.coll.length
  n_mono : s.n ≤ s'.n

theorem Ext.refl {all b s} (h : St.WFg all b s) : Ext all b s s := ⟨h, rfl, Nat.le_refl _, Nat.le_refl _⟩

theorem Ext.trans {all b s s' s''} (h1 : Ext all b s s') (h2 : Ext all b s' s'') : Ext all b s s'' :=
  ⟨h2.wf, h2.ncols.trans h1.ncols, Nat.le_trans h1.coll_mono h2.coll_mono,
    Nat.le_trans h1.n_mono h2.n_mono⟩

theorem RefOKg.mono {all b s s' r} (h : RefOKg all s r) (e : Ext all b s s') : RefOKg all s' r := by
  cases r with
  | single => trivial
  | coll i =>
    obtain ⟨h1, h2⟩ := h
    refine ⟨Nat.lt_of_lt_of_le h1 e.coll_mono, ?_⟩
    rcases h2 with h2 | h2
    · exact Or.inl h2
    · exact Or.inr (Nat.lt_of_lt_of_le h2 e.n_mono)

/-- the outcome we want: an error, or a well-formed extension; never panic / overread -/
def Good (all : Bool) (b : Buf) (s : St) : Res St → Prop
  | .ok s' => Ext all b s s'
  | .err => True
  | .panic => False
  | .overread => False

theorem Good.bind {all b s} {x : Res St} {f : St → Res St} (hx : Good all b s x)
    (hf : ∀ s', Ext all b s s' → Good all b s' (f s')) : Good all b s (x >>= f) := by
  cases x with
  | ok s' =>
    have h := hf s' hx
    show Good all b s (f s')
    cases hfs : f s' with
    | ok s'' => rw [hfs] at h; exact Ext.trans hx h
    | err => trivial
    | panic => rw [hfs] at h; exact h
    | overread => rw [hfs] at h; exact h
  | err => trivial
  | panic => exact hx
  | overread => exact hx

theorem Good.weaken {all b s s'} {x : Res St} (e : Ext all b s s') (hx : Good all b s' x) :
    Good all b s x := by
  cases x with
  | ok s'' => exact Ext.trans e hx
  | err => trivial
  | panic => exact hx
  | overread => exact hx

/-! ## buffers -/

theorem slice_ok (b : Buf) (hb : b.WF) (off a hi : Int) (ha : 0 ≤ a) (hah : a ≤ hi)
    (hh : off + hi ≤ b.data.length) :
    b.slice off a hi = .ok ((off + a).toNat, (off + hi).toNat) ∧
      cellOK b (some ((off + a).toNat, (off + hi).toNat)) := by
  unfold Buf.WF at hb
  constructor
  · unfold Buf.slice
    rw [if_neg (by omega), if_neg (by omega)]
  · show (off + a).toNat ≤ (off + hi).toNat ∧ (off + hi).toNat ≤ b.data.length
    omega

theorem sliceFrom_ok (b : Buf) (off a : Int) (ha : 0 ≤ a) (hh : a ≤ b.len off) :
    b.sliceFrom off a = .ok (off + a) := by
  unfold Buf.sliceFrom
  rw [if_neg (by omega)]

/-! ## rows -/

theorem cellOK_none (b : Buf) : cellOK b none := trivial

theorem emptyRow_length (k : Nat) : (emptyRow k).length = k := by simp [emptyRow]

theorem emptyRow_ok (b : Buf) (k : Nat) : ∀ c ∈ emptyRow k, cellOK b c := by
  intro c hc
  have : c = none := by
    unfold emptyRow at hc
    exact (List.mem_replicate.mp hc).2
  subst this; trivial

theorem getRow_ext (all : Bool) (b : Buf) (s : St) (hs : s.WFg all b) :
    Ext all b s s.getRow.1 ∧ RefOKg all s.getRow.1 s.getRow.2 ∧ s.getRow.1.n = s.n + 1 := by
  -- facts about the (possibly grown) collection
  generalize hc : (if s.n + 1 ≥ s.coll.length then s.coll ++ [emptyRow s.ncols] else s.coll) = coll'
  have hlen : s.coll.length ≤ coll'.length ∧ s.n < coll'.length := by
    subst hc
    have := hs.n_le
    split
    · rw [List.length_append]; simp only [List.length_cons, List.length_nil]; omega
    · omega
  have hrl : ∀ row ∈ coll', row.length = s.ncols := by
    subst hc
    intro row hrow
    split at hrow
    · rcases List.mem_append.mp hrow with h | h
      · exact hs.rows_len row h
      · rw [List.mem_singleton.mp h]; exact emptyRow_length _
    · exact hs.rows_len row hrow
  have hget : ∀ (j : Nat) (row : Row), coll'[j]? = some row → s.coll[j]? = some row ∨ row = emptyRow s.ncols := by
    subst hc
    intro j row hj
    split at hj
    · rw [List.getElem?_append] at hj
      split at hj
      · exact Or.inl hj
      · right
        have := List.mem_of_getElem? hj
        exact (List.mem_singleton.mp this)
    · exact Or.inl hj
  have hgr : s.getRow = ({ s with coll := coll'.set s.n ((coll'.getD s.n []).map fun _ => none),
                                   n := s.n + 1 }, .coll s.n) := by
    subst hc
    unfold St.getRow
    simp only [Nat.add_sub_cancel]
  rw [hgr]
  refine ⟨⟨⟨hs.single_len, ?_, ?_, hs.single_ok, ?_⟩, rfl, ?_, ?_⟩, ⟨?_, ?_⟩, rfl⟩
  · intro row hrow
    rcases List.mem_or_eq_of_mem_set hrow with h | h
    · exact hrl row h
    · subst h
      rw [List.length_map]
      have : coll'.getD s.n [] ∈ coll' := by
        rw [List.getD_eq_getElem?_getD, List.getElem?_eq_getElem hlen.2]
        exact List.getElem_mem _
      exact hrl _ this
  · show s.n + 1 ≤ (coll'.set s.n _).length
    rw [List.length_set]; omega
  · intro i row hi hcond c hc
    simp only at hi hcond
    by_cases hij : s.n = i
    · rw [List.getElem?_set, if_pos hij, if_pos hlen.2] at hi
      injection hi with hi
      subst hi
      obtain ⟨_, _, rfl⟩ := List.mem_map.mp hc
      trivial
    · rw [List.getElem?_set, if_neg hij] at hi
      rcases hget i row hi with h | h
      · refine hs.rows_ok i row h ?_ c hc
        rcases hcond with h' | h'
        · exact Or.inl h'
        · right; omega
      · subst h; exact emptyRow_ok b _ c hc
  · show s.coll.length ≤ (coll'.set s.n _).length
    rw [List.length_set]; exact hlen.1
  · show s.n ≤ s.n + 1
    omega
  · show s.n < (coll'.set s.n _).length
    rw [List.length_set]; exact hlen.2
  · right; show s.n < s.n + 1; omega

theorem setCol_good (all : Bool) (b : Buf) (s : St) (hs : s.WFg all b) (r : RowRef)
    (hr : RefOKg all s r) (p : Nat) (hp : p < s.ncols) (v : Nat × Nat) (hv : cellOK b (some v)) :
    Good all b s (s.setCol r p v) := by
  cases r with
  | single =>
    unfold St.setCol
    simp only
    rw [if_pos (by rw [hs.single_len]; exact hp)]
    refine ⟨⟨?_, hs.rows_len, hs.n_le, ?_, hs.rows_ok⟩, rfl, Nat.le_refl _, Nat.le_refl _⟩
    · show (s.single.set p (some v)).length = s.ncols
      rw [List.length_set]; exact hs.single_len
    · intro c hc
      rcases List.mem_or_eq_of_mem_set hc with h | h
      · exact hs.single_ok c h
      · subst h; exact hv
  | coll i =>
    obtain ⟨hi, hcond⟩ := hr
    unfold St.setCol
    simp only
    rw [List.getElem?_eq_getElem hi]
    simp only
    have hrow : (s.coll[i]).length = s.ncols := hs.rows_len _ (List.getElem_mem _)
    rw [if_pos (by rw [hrow]; exact hp)]
    refine ⟨⟨hs.single_len, ?_, ?_, hs.single_ok, ?_⟩, rfl, ?_, Nat.le_refl _⟩
    · intro row hmem
      rcases List.mem_or_eq_of_mem_set hmem with h | h
      · exact hs.rows_len row h
      · subst h; rw [List.length_set]; exact hrow
    · show s.n ≤ (s.coll.set i _).length
      rw [List.length_set]; exact hs.n_le
    · intro j row hj hc c hcm
      simp only at hj hc
      by_cases hij : i = j
      · rw [List.getElem?_set, if_pos hij, if_pos hi] at hj
        injection hj with hj
        subst hj
        rcases List.mem_or_eq_of_mem_set hcm with h | h
        · exact hs.rows_ok i _ (List.getElem?_eq_getElem hi) hcond c h
        · subst h; exact hv
      · rw [List.getElem?_set, if_neg hij] at hj
        exact hs.rows_ok j row hj hc c hcm
    · show s.coll.length ≤ (s.coll.set i _).length
      rw [List.length_set]; exact Nat.le_refl _

/-! ## loops -/

def LoopPost (J : Int → RowRef → St → Prop) : Res (Int × RowRef × St) → Prop
  | .ok (p, r, s) => J p r s
  | .err => True
  | .panic => False
  | .overread => False

def LoopEnd (J : Int → RowRef → St → Prop) : Res St → Prop
  | .ok s => ∃ p r, J p r s
  | .err => True
  | .panic => False
  | .overread => False

theorem loopN_inv (J : Int → RowRef → St → Prop)
    (body : Int → RowRef → St → Res (Int × RowRef × St))
    (hbody : ∀ pos r s, J pos r s → LoopPost J (body pos r s)) :
    ∀ n pos r s, J pos r s → LoopEnd J (loopN n pos r s body) := by
  intro n
  induction n with
  | zero => intro pos r s h; exact ⟨pos, r, h⟩
  | succ n ih =>
    intro pos r s h
    have hb := hbody pos r s h
    unfold loopN
    cases hbd : body pos r s with
    | ok x =>
      obtain ⟨p', r', s'⟩ := x
      rw [hbd] at hb
      exact ih p' r' s' hb
    | err => trivial
    | panic => rw [hbd] at hb; exact hb
    | overread => rw [hbd] at hb; exact hb

/-- the body of the array loop of `scan` (verbatim) -/
def arrBody (b : Buf) (e : Ty) (off start : Int) : Int → RowRef → St → Res (Int × RowRef × St) :=
  fun pos r s =>
    let (s, r) := if !e.isArr then let (s', r') := s.getRow; (s', r') else (s, r)
    if e.isStatic then
      if b.len off < pos then .err
      else do
        let off' ← b.sliceFrom off pos
        let s' ← scan b e off' r s
        .ok (pos + e.size, r, s')
    else
      if b.len off < pos + 32 then .err
      else do
        let w ← b.slice off pos (pos + 32)
        let offset := toI64 (b.word w.1 w.2)
        if offset < 0 ∨ b.len off - start < offset then .err
        else do
          let off' ← b.sliceFrom off (start + offset)
          let s' ← wrapErr (scan b e off' r s)
          .ok (pos + 32, r, s')

theorem scan_arr_eq (b : Buf) (k : Nat) (e : Ty) (off : Int) (r : RowRef) (s : St) :
    scan b (.arr k e) off r s =
      if !e.hasSelect then .ok s
      else if k = 0 then
        if b.len off < 32 then .err
        else do
          let w ← b.slice off 0 32
          loopN (toI64 (b.word w.1 w.2)).toNat 32 r s (arrBody b e off 32)
      else loopN (k : Int).toNat 0 r s (arrBody b e off 0) := by
  unfold scan
  rfl

theorem pre_ok (all : Bool) (b : Buf) (s : St) (r : RowRef) (hs : s.WFg all b) (hr : RefOKg all s r)
    (c : Bool) (q : St × RowRef)
    (hq : (if c = true then match s.getRow with | (s', r') => (s', r') else (s, r)) = q) :
    Ext all b s q.1 ∧ RefOKg all q.1 q.2 := by
  subst hq
  cases c with
  | true =>
    rw [if_pos rfl]
    obtain ⟨g1, g2, _⟩ := getRow_ext all b s hs
    exact ⟨g1, g2⟩
  | false =>
    rw [if_neg (by decide)]
    exact ⟨Ext.refl hs, hr⟩

def ArrJ (all : Bool) (b : Buf) (s0 : St) : Int → RowRef → St → Prop :=
  fun p r s => 0 ≤ p ∧ Ext all b s0 s ∧ RefOKg all s r

theorem arrBody_post (all : Bool) (b : Buf) (hb : b.WF) (e : Ty) (off start : Int) (h0 : 0 ≤ off)
    (_h1 : off ≤ b.data.length) (hstart : 0 ≤ start) (s0 : St)
    (ih : ∀ (off' : Int) r s, 0 ≤ off' → off' ≤ b.data.length → St.WFg all b s → RefOKg all s r →
      e.posOK s.ncols = true → Good all b s (scan b e off' r s))
    (hp : e.posOK s0.ncols = true) :
    ∀ pos r s, ArrJ all b s0 pos r s → LoopPost (ArrJ all b s0) (arrBody b e off start pos r s) := by
  rintro pos r s ⟨hpos, hext, hr⟩
  unfold arrBody
  simp only
  generalize hq : (if (!e.isArr) = true then match s.getRow with | (s', r') => (s', r') else (s, r)) = q
  obtain ⟨q1, q2⟩ := pre_ok all b s r hext.wf hr _ q hq
  obtain ⟨s1, r1⟩ := q
  simp only at q1 q2 ⊢
  have hext1 := Ext.trans hext q1
  have hp1 : e.posOK s1.ncols = true := by rw [hext1.ncols]; exact hp
  split
  · split
    · trivial
    · next hlen =>
      rw [sliceFrom_ok b off pos hpos (by omega)]
      unfold Buf.len at hlen
      have hg := ih (off + pos) r1 s1 (by omega) (by omega) q1.wf q2 hp1
      show LoopPost _ (scan b e (off + pos) r1 s1 >>= _)
      cases hsc : scan b e (off + pos) r1 s1 with
      | ok s' =>
        rw [hsc] at hg
        exact ⟨by show 0 ≤ pos + (e.size : Int); omega, Ext.trans hext1 hg, RefOKg.mono q2 hg⟩
      | err => trivial
      | panic => rw [hsc] at hg; exact hg
      | overread => rw [hsc] at hg; exact hg
  · split
    · trivial
    · next hlen =>
      unfold Buf.len at hlen
      obtain ⟨e1, _⟩ := slice_ok b hb off pos (pos + 32) hpos (by omega) (by omega)
      rw [e1]
      show LoopPost _ (if _ then _ else _)
      generalize toI64 _ = O
      split
      · trivial
      · next hO =>
        unfold Buf.len at hO
        rw [sliceFrom_ok b off (start + O) (by omega) (by unfold Buf.len; omega)]
        have hg := ih (off + (start + O)) r1 s1 (by omega) (by omega) q1.wf q2 hp1
        show LoopPost _ (wrapErr (scan b e (off + (start + O)) r1 s1) >>= _)
        unfold wrapErr
        cases hsc : scan b e (off + (start + O)) r1 s1 with
        | ok s' =>
          rw [hsc] at hg
          exact ⟨by show 0 ≤ pos + 32; omega, Ext.trans hext1 hg, RefOKg.mono q2 hg⟩
        | err => trivial
        | panic => rw [hsc] at hg; exact hg
        | overread => rw [hsc] at hg; exact hg

mutual
theorem scan_good (all : Bool) (b : Buf) (hb : b.WF) (t : Ty) (off : Int) (h0 : 0 ≤ off)
    (h1 : off ≤ b.data.length) (r : RowRef) (s : St) (hs : s.WFg all b) (hr : RefOKg all s r)
    (hp : t.posOK s.ncols = true) : Good all b s (scan b t off r s) := by
  cases t with
  | stat sel =>
    unfold scan
    split
    · trivial
    · next hlen =>
      unfold Buf.len at hlen
      cases sel with
      | none => exact Ext.refl hs
      | some p =>
        simp only
        obtain ⟨e1, e2⟩ := slice_ok b hb off 0 32 (by omega) (by omega) (by omega)
        rw [e1]
        show Good all b s (s.setCol r p _)
        refine setCol_good all b s hs r hr p ?_ _ e2
        simpa [Ty.posOK] using hp
  | dyn sel =>
    unfold scan
    split
    · trivial
    · next hlen =>
      unfold Buf.len at hlen
      obtain ⟨e1, e2⟩ := slice_ok b hb off 0 32 (by omega) (by omega) (by omega)
      rw [e1]
      show Good all b s (if _ then _ else _)
      generalize toI64 _ = L
      split
      · exact Ext.refl hs
      · split
        · trivial
        · next hL0 hL =>
          unfold Buf.len at hL
          cases sel with
          | none => exact Ext.refl hs
          | some p =>
            simp only
            obtain ⟨e3, e4⟩ := slice_ok b hb off 32 (32 + L) (by omega) (by omega) (by omega)
            rw [e3]
            show Good all b s (s.setCol r p _)
            refine setCol_good all b s hs r hr p ?_ _ e4
            simpa [Ty.posOK] using hp
  | arr k e =>
    rw [scan_arr_eq]
    split
    · exact Ext.refl hs
    · have hpe : e.posOK s.ncols = true := by simpa [Ty.posOK] using hp
      have ih : ∀ (off' : Int) r' s', 0 ≤ off' → off' ≤ b.data.length → St.WFg all b s' → RefOKg all s' r' →
          e.posOK s'.ncols = true → Good all b s' (scan b e off' r' s') :=
        fun off' r' s' a1 a2 a3 a4 a5 => scan_good all b hb e off' a1 a2 r' s' a3 a4 a5
      have key : ∀ (n : Nat) (start : Int), 0 ≤ start →
          Good all b s (loopN n start r s (arrBody b e off start)) := by
        intro n start hstart
        have := loopN_inv _ _ (arrBody_post all b hb e off start h0 h1 hstart s ih hpe) n start r s
          ⟨hstart, Ext.refl hs, hr⟩
        revert this
        cases loopN n start r s (arrBody b e off start) with
        | ok s' => rintro ⟨_, _, _, h, _⟩; exact h
        | err => intro _; trivial
        | panic => exact id
        | overread => exact id
      split
      · split
        · trivial
        · next hlen =>
          unfold Buf.len at hlen
          obtain ⟨e1, e2⟩ := slice_ok b hb off 0 32 (by omega) (by omega) (by omega)
          rw [e1]
          exact key _ 32 (by omega)
      · exact key _ 0 (by omega)
  | tup fs =>
    unfold scan
    split
    · exact Ext.refl hs
    · exact scanTup_good all b hb fs off h0 h1 0 (Int.le_refl 0) r s hs hr (by simpa [Ty.posOK] using hp)
theorem scanTup_good (all : Bool) (b : Buf) (hb : b.WF) (fs : Tys) (off : Int) (h0 : 0 ≤ off)
    (h1 : off ≤ b.data.length) (pos : Int) (hpos : 0 ≤ pos) (r : RowRef) (s : St) (hs : s.WFg all b)
    (hr : RefOKg all s r) (hp : fs.posOK s.ncols = true) :
    Good all b s (scanTup b fs off pos r s) := by
  cases fs with
  | nil => unfold scanTup; exact Ext.refl hs
  | cons f rest =>
    have hp' : f.posOK s.ncols = true ∧ rest.posOK s.ncols = true := by
      simpa [Tys.posOK] using hp
    unfold scanTup
    split
    · split
      · trivial
      · next hlen =>
        rw [sliceFrom_ok b off pos hpos (by omega)]
        unfold Buf.len at hlen
        unfold wrapErr
        show Good all b s (scan b f (off + pos) r s >>= _)
        refine Good.bind (scan_good all b hb f (off + pos) (by omega) (by omega) r s hs hr hp'.1) ?_
        intro s' he
        exact scanTup_good all b hb rest off h0 h1 (pos + f.size) (by omega) r s' he.wf
          (RefOKg.mono hr he) (by rw [he.ncols]; exact hp'.2)
    · split
      · trivial
      · next hlen =>
        unfold Buf.len at hlen
        obtain ⟨e1, _⟩ := slice_ok b hb off pos (pos + 32) hpos (by omega) (by omega)
        rw [e1]
        show Good all b s (if _ then _ else _)
        generalize toI64 _ = O
        split
        · trivial
        · next hO =>
          unfold Buf.len at hO
          rw [sliceFrom_ok b off O (by omega) (by unfold Buf.len; omega)]
          unfold wrapErr
          show Good all b s (scan b f (off + O) r s >>= _)
          refine Good.bind (scan_good all b hb f (off + O) (by omega) (by omega) r s hs hr hp'.1) ?_
          intro s' he
          exact scanTup_good all b hb rest off h0 h1 (pos + 32) (by omega) r s' he.wf
            (RefOKg.mono hr he) (by rw [he.ncols]; exact hp'.2)
end

/-! ## the theorems -/

/-- **scan_total + scan_subrange** (C10): for every type tree, every byte string, every capacity
    `cap ≥ len`, every offset inside the data: `scan` returns `ok` or `err` — never `panic`, never
    `overread` — and every cell of an `ok` state is a sub-range `lo ≤ hi ≤ len` of the input. -/
theorem scan_total (b : Buf) (hb : b.WF) (t : Ty) (off : Int) (hoff : 0 ≤ off ∧ off ≤ b.data.length)
    (r : RowRef) (s : St) (hs : s.WF b) (hr : RefOK s r) (hp : t.posOK s.ncols = true) :
    scan b t off r s = .err ∨
    ∃ s', scan b t off r s = .ok s' ∧ s'.WF b ∧ s'.ncols = s.ncols ∧ s.coll.length ≤ s'.coll.length := by
  have h := scan_good true b hb t off hoff.1 hoff.2 r s ((St.WF_iff_WFg b s).mp hs)
    ((RefOK_iff_RefOKg s r).mp hr) hp
  cases hsc : scan b t off r s with
  | ok s' =>
    rw [hsc] at h
    exact Or.inr ⟨s', rfl, (St.WF_iff_WFg b s').mpr h.wf, h.ncols, h.coll_mono⟩
  | err => exact Or.inl rfl
  | panic => rw [hsc] at h; exact h.elim
  | overread => rw [hsc] at h; exact h.elim

/-- the public entry point: `Result.Scan` on any input is total and yields sub-ranges -/
theorem resultScan_total (b : Buf) (hb : b.WF) (t : Ty) (s : St)
    (hs : s.single.length = s.ncols ∧ (∀ row ∈ s.coll, row.length = s.ncols) ∧ s.n ≤ s.coll.length)
    (hp : t.posOK s.ncols = true) :
    resultScan b t s = .err ∨
    ∃ s', resultScan b t s = .ok s' ∧ (∀ row ∈ s'.rows, ∀ c ∈ row, cellOK b c) ∧ 1 ≤ s'.n := by
  obtain ⟨hs1, hs2, _⟩ := hs
  have hs0 : St.WFg false b { s with n := 0, single := s.single.map fun _ => none } := by
    refine ⟨?_, hs2, Nat.zero_le _, ?_, ?_⟩
    · show (s.single.map _).length = s.ncols
      rw [List.length_map]; exact hs1
    · intro c hc
      obtain ⟨_, _, rfl⟩ := List.mem_map.mp hc
      trivial
    · intro i row _ hc
      rcases hc with hc | hc
      · cases hc
      · exact absurd hc (Nat.not_lt_zero _)
  have h := scan_good false b hb t 0 (Int.le_refl 0) (by omega) .single _ hs0 trivial hp
  unfold resultScan
  simp only
  cases hsc : scan b t 0 .single { s with n := 0, single := s.single.map fun _ => none } with
  | err => exact Or.inl rfl
  | panic => rw [hsc] at h; exact h.elim
  | overread => rw [hsc] at h; exact h.elim
  | ok s1 =>
    rw [hsc] at h
    right
    simp only
    generalize hs2 : (if s1.n = 0 then s1.getRow.1 else s1) = s2
    have hw2 : s2.WFg false b ∧ 1 ≤ s2.n := by
      subst hs2
      split
      · obtain ⟨g1, _, g3⟩ := getRow_ext false b s1 h.wf
        exact ⟨g1.wf, by omega⟩
      · exact ⟨h.wf, by omega⟩
    obtain ⟨hw, hn⟩ := hw2
    refine ⟨_, rfl, ?_, hn⟩
    intro row hrow c hc
    unfold St.rows at hrow
    simp only at hrow
    have hlen : ∀ f : Row → Row, ((s2.coll.take s2.n).map f).length = s2.n := by
      intro f
      rw [List.length_map, List.length_take]; exact Nat.min_eq_left hw.n_le
    rw [List.take_append_of_le_length (by rw [hlen]; exact Nat.le_refl _)] at hrow
    rw [List.take_of_length_le (by rw [hlen]; exact Nat.le_refl _)] at hrow
    obtain ⟨row0, hrow0, rfl⟩ := List.mem_map.mp hrow
    obtain ⟨i, hi⟩ := List.getElem?_of_mem hrow0
    rw [List.getElem?_take] at hi
    split at hi
    · next hin =>
      have hok := hw.rows_ok i row0 hi (Or.inr hin)
      obtain ⟨⟨c0, sg⟩, hz, rfl⟩ := List.mem_map.mp hc
      have hc0 : c0 ∈ row0 := (List.of_mem_zip hz).1
      have hsg : sg ∈ s2.single := (List.of_mem_zip hz).2
      cases sg with
      | none => exact hok c0 hc0
      | some v =>
        obtain ⟨lo, hi'⟩ := v
        simp only
        split
        · exact hw.single_ok _ hsg
        · exact hok c0 hc0
    · cases hi

/-! ## bound on the number of rows -/

-- `Ty.rowBound` / `Tys.rowBound` are defined in Shovel/Model/Abi.lean (the oracle evaluates them)

mutual
/-- a static type with a selected leaf occupies at least one word -/
theorem Ty.static_size (t : Ty) (h1 : t.isStatic = true) (h2 : t.hasSelect = true) : 32 ≤ t.size := by
  cases t with
  | stat sel => simp [Ty.size]
  | dyn sel => simp [Ty.isStatic] at h1
  | arr k e =>
    unfold Ty.isStatic at h1
    split at h1
    · cases h1
    · next hk =>
      have := Ty.static_size e h1 (by simpa [Ty.hasSelect] using h2)
      unfold Ty.size
      have : 1 * e.size ≤ k * e.size := Nat.mul_le_mul_right _ (by omega)
      omega
  | tup fs =>
    unfold Ty.size
    exact Tys.static_size fs (by simpa [Ty.isStatic] using h1) (by simpa [Ty.hasSelect] using h2)
theorem Tys.static_size (fs : Tys) (h1 : fs.allStatic = true) (h2 : fs.hasSelect = true) :
    32 ≤ fs.size := by
  cases fs with
  | nil => simp [Tys.hasSelect] at h2
  | cons f rest =>
    have h1' : f.isStatic = true ∧ rest.allStatic = true := by simpa [Tys.allStatic] using h1
    have h2' : f.hasSelect = true ∨ rest.hasSelect = true := by simpa [Tys.hasSelect] using h2
    unfold Tys.size
    rcases h2' with h | h
    · have := Ty.static_size f h1'.1 h; omega
    · have := Tys.static_size rest h1'.2 h; omega
end

theorem Res.bind_eq_ok {α β} {x : Res α} {f : α → Res β} {y : β} (h : (x >>= f) = .ok y) :
    ∃ a, x = .ok a ∧ f a = .ok y := by
  cases x with
  | ok a => exact ⟨a, rfl, h⟩
  | err => cases h
  | panic => cases h
  | overread => cases h

theorem setCol_n {s : St} {r : RowRef} {p : Nat} {v : Nat × Nat} {s' : St}
    (h : s.setCol r p v = .ok s') : s'.n = s.n := by
  unfold St.setCol at h
  cases r with
  | single =>
    simp only at h
    split at h
    · injection h with h; subst h; rfl
    · cases h
  | coll i =>
    simp only at h
    split at h
    · cases h
    · split at h
      · injection h with h; subst h; rfl
      · cases h

theorem loopN_ok_inv (J : Int → RowRef → St → Prop)
    (body : Int → RowRef → St → Res (Int × RowRef × St))
    (hbody : ∀ pos r s p' r' s', J pos r s → body pos r s = .ok (p', r', s') → J p' r' s') :
    ∀ n pos r s s', J pos r s → loopN n pos r s body = .ok s' → ∃ p r, J p r s' := by
  intro n
  induction n with
  | zero =>
    intro pos r s s' h heq
    unfold loopN at heq
    injection heq with heq
    subst heq
    exact ⟨pos, r, h⟩
  | succ n ih =>
    intro pos r s s' h heq
    unfold loopN at heq
    cases hbd : body pos r s with
    | ok x =>
      obtain ⟨p', r', s1⟩ := x
      rw [hbd] at heq
      exact ih p' r' s1 s' (hbody pos r s p' r' s1 h hbd) heq
    | err => rw [hbd] at heq; cases heq
    | panic => rw [hbd] at heq; cases heq
    | overread => rw [hbd] at heq; cases heq

theorem iter_bound (i D : Nat) (step start : Int) (hs : 32 ≤ step) (h0 : 0 ≤ start)
    (h : start + i * step ≤ D + step) : i ≤ D / 32 + 1 := by
  cases i with
  | zero => omega
  | succ j =>
    have e : ((j + 1 : Nat) : Int) * step = j * step + step := by
      rw [Int.natCast_add, Int.add_mul]; simp
    rw [e] at h
    have : (j : Int) * 32 ≤ j * step := Int.mul_le_mul_of_nonneg_left hs (by omega)
    omega

theorem pre_n (s : St) (r : RowRef) (c : Bool) (q : St × RowRef)
    (hq : (if c = true then match s.getRow with | (s', r') => (s', r') else (s, r)) = q) :
    q.1.n = s.n + (if c = true then 1 else 0) := by
  subst hq
  cases c with
  | true => rfl
  | false => rfl

/-- one successful iteration of the array loop: `pos` advances by the element step, was inside
    the data, and the rows grow by at most `c` -/
theorem arrBody_rows (b : Buf) (e : Ty) (off start : Int) (h0 : 0 ≤ off) (L : Nat)
    (ih : ∀ (off' : Int) r s s', 0 ≤ off' → scan b e off' r s = .ok s' → s'.n ≤ s.n + e.rowBound L)
    (pos : Int) (r : RowRef) (s : St) (p' : Int) (r' : RowRef) (s' : St)
    (h : arrBody b e off start pos r s = .ok (p', r', s')) :
    p' = pos + (if e.isStatic = true then (e.size : Int) else 32) ∧ pos ≤ b.data.length ∧
      s'.n ≤ s.n + ((if e.isArr = true then 0 else 1) + e.rowBound L) := by
  unfold arrBody at h
  simp only at h
  generalize hq : (if (!e.isArr) = true then match s.getRow with | (s', r') => (s', r') else (s, r)) = q
    at h
  have hn := pre_n s r _ q hq
  obtain ⟨s1, r1⟩ := q
  simp only at hn h
  have hn' : s1.n = s.n + (if e.isArr = true then 0 else 1) := by
    rw [hn]; cases e.isArr <;> rfl
  split at h
  · next hst =>
    rw [if_pos hst]
    split at h
    · cases h
    · next hlen =>
      unfold Buf.len at hlen
      unfold Buf.sliceFrom at h
      split at h
      · cases h
      · next hsf =>
        obtain ⟨o, ho, h⟩ := Res.bind_eq_ok h
        injection ho with ho
        subst ho
        obtain ⟨s2, hsc, h⟩ := Res.bind_eq_ok h
        injection h with h
        simp only [Prod.mk.injEq] at h
        obtain ⟨rfl, rfl, rfl⟩ := h
        have := ih (off + pos) r1 s1 s2 (by omega) hsc
        refine ⟨rfl, by omega, by omega⟩
  · next hst =>
    rw [if_neg hst]
    split at h
    · cases h
    · next hlen =>
      unfold Buf.len at hlen
      obtain ⟨w, _, h⟩ := Res.bind_eq_ok h
      split at h
      · cases h
      · unfold Buf.sliceFrom at h
        split at h
        · cases h
        · next hsf =>
          obtain ⟨o, ho, h⟩ := Res.bind_eq_ok h
          injection ho with ho
          subst ho
          unfold wrapErr at h
          obtain ⟨s2, hsc, h⟩ := Res.bind_eq_ok h
          injection h with h
          simp only [Prod.mk.injEq] at h
          obtain ⟨rfl, rfl, rfl⟩ := h
          have := ih _ r1 s1 s2 (by omega) hsc
          refine ⟨rfl, by omega, by omega⟩

def RowsJ (s0 : St) (start step : Int) (D c : Nat) : Int → RowRef → St → Prop :=
  fun p _ s => ∃ i : Nat, p = start + i * step ∧ p ≤ D + step ∧ s.n ≤ s0.n + i * c

theorem arrLoop_rows (b : Buf) (e : Ty) (off start : Int) (h0 : 0 ≤ off) (L : Nat)
    (hL : L = b.data.length / 32) (hsel : e.hasSelect = true)
    (ih : ∀ (off' : Int) r s s', 0 ≤ off' → scan b e off' r s = .ok s' → s'.n ≤ s.n + e.rowBound L)
    (hst0 : 0 ≤ start) (hst : start ≤ 32)
    (n : Nat) (r : RowRef) (s s' : St)
    (h : loopN n start r s (arrBody b e off start) = .ok s') :
    s'.n ≤ s.n + (L + 1) * ((if e.isArr = true then 0 else 1) + e.rowBound L) := by
  generalize hc : (if e.isArr = true then 0 else 1) + e.rowBound L = c
  generalize hstep : (if e.isStatic = true then (e.size : Int) else 32) = step
  have hstep32 : 32 ≤ step := by
    subst hstep
    split
    · next hs => have := Ty.static_size e hs hsel; omega
    · omega
  have hbody : ∀ pos r1 s1 p' r' s2, RowsJ s start step b.data.length c pos r1 s1 →
      arrBody b e off start pos r1 s1 = .ok (p', r', s2) →
      RowsJ s start step b.data.length c p' r' s2 := by
    rintro pos r1 s1 p' r' s2 ⟨i, hi1, hi2, hi3⟩ hb
    obtain ⟨g1, g2, g3⟩ := arrBody_rows b e off start h0 L ih pos r1 s1 p' r' s2 hb
    rw [hc] at g3
    rw [hstep] at g1
    refine ⟨i + 1, ?_, by omega, ?_⟩
    · rw [g1, hi1, Int.natCast_add, Int.add_mul]; simp; omega
    · rw [Nat.add_mul]; omega
  obtain ⟨p, _, i, hi1, hi2, hi3⟩ := loopN_ok_inv _ _ hbody n start r s s' ⟨0, by simp, by omega, by omega⟩ h
  rw [hi1] at hi2
  have hi := iter_bound i b.data.length step start hstep32 hst0 hi2
  have : i * c ≤ (L + 1) * c := Nat.mul_le_mul_right c (by omega)
  omega

mutual
theorem scan_rows (b : Buf) (L : Nat) (hL : L = b.data.length / 32) (t : Ty) (off : Int)
    (h0 : 0 ≤ off) (r : RowRef) (s s' : St) (h : scan b t off r s = .ok s') :
    s'.n ≤ s.n + t.rowBound L := by
  cases t with
  | stat sel =>
    unfold scan at h
    split at h
    · cases h
    · cases sel with
      | none => injection h with h; subst h; omega
      | some p =>
        simp only at h
        obtain ⟨rg, _, h⟩ := Res.bind_eq_ok h
        rw [setCol_n h]; omega
  | dyn sel =>
    unfold scan at h
    split at h
    · cases h
    · obtain ⟨w, _, h⟩ := Res.bind_eq_ok h
      simp only at h
      split at h
      · injection h with h; subst h; omega
      · split at h
        · cases h
        · cases sel with
          | none => injection h with h; subst h; omega
          | some p =>
            simp only at h
            obtain ⟨rg, _, h⟩ := Res.bind_eq_ok h
            rw [setCol_n h]; omega
  | arr k e =>
    rw [scan_arr_eq] at h
    unfold Ty.rowBound
    split at h
    · injection h with h; subst h; omega
    · next hsel =>
      have hsel' : e.hasSelect = true := by simpa using hsel
      have ih : ∀ (off' : Int) r s s', 0 ≤ off' → scan b e off' r s = .ok s' →
          s'.n ≤ s.n + e.rowBound L :=
        fun off' r s s' a1 a2 => scan_rows b L hL e off' a1 r s s' a2
      split at h
      · split at h
        · cases h
        · obtain ⟨w, _, h⟩ := Res.bind_eq_ok h
          exact arrLoop_rows b e off 32 h0 L hL hsel' ih (by omega) (by omega) _ r s s' h
      · exact arrLoop_rows b e off 0 h0 L hL hsel' ih (by omega) (by omega) _ r s s' h
  | tup fs =>
    unfold scan at h
    unfold Ty.rowBound
    split at h
    · injection h with h; subst h; omega
    · exact scanTup_rows b L hL fs off h0 0 r s s' h
theorem scanTup_rows (b : Buf) (L : Nat) (hL : L = b.data.length / 32) (fs : Tys) (off : Int)
    (h0 : 0 ≤ off) (pos : Int) (r : RowRef) (s s' : St) (h : scanTup b fs off pos r s = .ok s') :
    s'.n ≤ s.n + fs.rowBound L := by
  cases fs with
  | nil =>
    unfold scanTup at h
    injection h with h; subst h; omega
  | cons f rest =>
    unfold scanTup at h
    unfold Tys.rowBound
    split at h
    · split at h
      · cases h
      · unfold Buf.sliceFrom at h
        split at h
        · cases h
        · obtain ⟨o, ho, h⟩ := Res.bind_eq_ok h
          injection ho with ho
          subst ho
          unfold wrapErr at h
          obtain ⟨s1, hsc, h⟩ := Res.bind_eq_ok h
          have a1 := scan_rows b L hL f _ (by omega) r s s1 hsc
          have a2 := scanTup_rows b L hL rest off h0 _ r s1 s' h
          omega
    · split at h
      · cases h
      · obtain ⟨w, _, h⟩ := Res.bind_eq_ok h
        simp only at h
        split at h
        · cases h
        · unfold Buf.sliceFrom at h
          split at h
          · cases h
          · obtain ⟨o, ho, h⟩ := Res.bind_eq_ok h
            injection ho with ho
            subst ho
            unfold wrapErr at h
            obtain ⟨s1, hsc, h⟩ := Res.bind_eq_ok h
            have a1 := scan_rows b L hL f _ (by omega) r s s1 hsc
            have a2 := scanTup_rows b L hL rest off h0 _ r s1 s' h
            omega
end


/-- **scan_rows_bound**: a successful `scan` adds at most `t.rowBound (len / 32)` rows (calls of
    `GetRow`), for any state and any row reference — no well-formedness needed.  `rowBound L` is a
    polynomial in `L + 1` of degree "array nesting depth" whose coefficients count the array
    fields of tuples: every loop iteration is backed by ≥ 32 input bytes at its own, strictly
    increasing head position, so a loop runs at most `len / 32 + 1` times. -/
theorem scan_rows_bound (b : Buf) (t : Ty) (off : Int) (h0 : 0 ≤ off) (r : RowRef) (s s' : St)
    (h : scan b t off r s = .ok s') : s'.n ≤ s.n + t.rowBound (b.data.length / 32) :=
  scan_rows b _ rfl t off h0 r s s' h

/-- the entry point returns at most `max 1 (rowBound (len / 32))` rows -/
theorem resultScan_rows_bound (b : Buf) (t : Ty) (s s' : St) (h : resultScan b t s = .ok s') :
    s'.n ≤ max 1 (t.rowBound (b.data.length / 32)) := by
  unfold resultScan at h
  simp only at h
  split at h
  · next s1 hsc =>
    have hb := scan_rows_bound b t 0 (Int.le_refl 0) _ _ s1 hsc
    simp only [Nat.zero_add] at hb
    injection h with h
    subst h
    show (if s1.n = 0 then s1.getRow.1 else s1).n ≤ _
    split
    · next hz =>
      have : s1.getRow.1.n = s1.n + 1 := rfl
      rw [this, hz]
      exact Nat.le_max_left _ _
    · exact Nat.le_trans hb (Nat.le_max_right _ _)
  · cases h
  · cases h
  · cases h

/-- un-nested array of leaves: at most `len / 32 + 1` rows -/
theorem rowBound_flat_stat (L k : Nat) (sel : Option Nat) : (Ty.arr k (.stat sel)).rowBound L = L + 1 := by
  simp [Ty.rowBound, Ty.isArr]

theorem rowBound_flat_dyn (L k : Nat) (sel : Option Nat) : (Ty.arr k (.dyn sel)).rowBound L = L + 1 := by
  simp [Ty.rowBound, Ty.isArr]

/-! ## non-vacuity -/

/-- big-endian 32-byte word holding a small number -/
def smallWord (n : Nat) : List Nat := List.replicate 31 0 ++ [n]

/-- hostile `bytes`: the length word claims 100 bytes, none follow — `err`, hypotheses hold -/
example :
    let b : Buf := ⟨smallWord 100, 64⟩
    let t : Ty := .dyn (some 0)
    b.data.length ≤ b.cap ∧ t.posOK (newResult t).ncols = true ∧
      scan b t 0 .single (newResult t) = .err := by decide +kernel

/-- honest `bytes` of length 3: `ok`, the selected column is the sub-range `[32, 35)` -/
example :
    let b : Buf := ⟨smallWord 3 ++ [1, 2, 3], 64⟩
    let t : Ty := .dyn (some 0)
    b.data.length ≤ b.cap ∧ t.posOK (newResult t).ncols = true ∧
      scan b t 0 .single (newResult t) =
        .ok { single := [some (32, 35)], coll := [], n := 0, ncols := 1 } := by decide +kernel

/-- hostile dynamic array claiming `2^56` elements with no data behind it: `err` (and the spare
    capacity beyond `len` is never touched) -/
example :
    let b : Buf := ⟨List.replicate 24 0 ++ [1] ++ List.replicate 7 0, 4096⟩
    let t : Ty := .arr 0 (.stat (some 0))
    b.data.length ≤ b.cap ∧ t.posOK (newResult t).ncols = true ∧
      scan b t 0 .single (newResult t) = .err ∧ resultScan b t (newResult t) = .err := by
  decide +kernel

/-- a tuple of four arrays whose offsets all alias one 4-element array: 288 bytes yield 16 rows.
    So the number of rows is NOT bounded by `(len / 32 + 1) ^ arrDepth = 10`; the coefficient of
    `rowBound` (here `4 * (len / 32 + 1) = 40`) is needed. -/
example :
    let t : Ty := .tup (.cons (.arr 0 (.stat (some 0))) (.cons (.arr 0 (.stat (some 1)))
      (.cons (.arr 0 (.stat (some 2))) (.cons (.arr 0 (.stat (some 3))) .nil))))
    let d := smallWord 128 ++ smallWord 128 ++ smallWord 128 ++ smallWord 128 ++
      smallWord 4 ++ smallWord 1 ++ smallWord 2 ++ smallWord 3 ++ smallWord 4
    d.length = 288 ∧ t.rowBound (288 / 32) = 40 ∧
      (match resultScan ⟨d, 288⟩ t (newResult t) with | .ok s => s.n | _ => 0) = 16 := by
  decide +kernel

end Shovel.Abi
