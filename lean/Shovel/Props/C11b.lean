import Shovel.Gen.Fields

/-! The row builder's field table (`logWithCtx.get` in dig/dig.go), regenerated on every run. The models take a
    row's block-field values as a context `field name ↦ value`; the correspondence harness fills that context from
    the same members of the block / transaction / log / trace action the table below names. -/
namespace Shovel.Row

open Shovel.Gen.Fields

/-- **field_selectors_exact** (C11): every block-field name is read from the member that carries that field —
    `tx_to` from the transaction's recipient, `tx_signer` from its recovered sender, `tx_input` from its call
    data, `log_addr` from the log's address, the `trace_action_*` fields from the trace action, the gas and fee
    fields each from the member of the same name, block fields from the block — and there is no other case. -/
theorem field_selectors_exact :
    getCases =
      [("src_name", "wctx.SrcName(lwc.ctx)"), ("ig_name", "wctx.IGName(lwc.ctx)"), ("chain_id", "wctx.ChainID(lwc.ctx)"),
       ("block_hash", "lwc.b.Hash()"), ("block_num", "lwc.b.Num()"), ("block_time", "lwc.b.Time"),
       ("tx_hash", "lwc.t.Hash()"), ("tx_idx", "lwc.t.Idx"), ("tx_signer", "lwc.t.Signer()"), ("tx_to", "lwc.t.To.Bytes()"),
       ("tx_value", "&lwc.t.Value"), ("tx_input", "lwc.t.Data.Bytes()"), ("tx_type", "lwc.t.Type"),
       ("tx_status", "lwc.t.Receipt.Status"), ("log_idx", "lwc.l.Idx"), ("tx_gas_used", "lwc.t.GasUsed"),
       ("tx_gas_price", "&lwc.t.GasPrice"), ("tx_effective_gas_price", "&lwc.t.EffectiveGasPrice"),
       ("tx_contract_address", "lwc.t.ContractAddress.Bytes()"),
       ("tx_max_priority_fee_per_gas", "&lwc.t.MaxPriorityFeePerGas"), ("tx_max_fee_per_gas", "&lwc.t.MaxFeePerGas"),
       ("tx_nonce", "lwc.t.Nonce"), ("log_addr", "lwc.l.Address.Bytes()"),
       ("trace_action_call_type", "lwc.ta.CallType"), ("trace_action_idx", "lwc.ta.Idx"),
       ("trace_action_from", "lwc.ta.From.Bytes()"), ("trace_action_to", "lwc.ta.To.Bytes()"),
       ("trace_action_value", "&lwc.ta.Value")] := by
  decide +kernel

/-- **stamp_from_context** (C04): the two stamp columns of a row are filled from the TASK's context (the source
    and integration the step runs for), never from the data being indexed. -/
theorem stamp_from_context :
    getCases.lookup "src_name" = some "wctx.SrcName(lwc.ctx)" ∧ getCases.lookup "ig_name" = some "wctx.IGName(lwc.ctx)" := by
  decide +kernel

end Shovel.Row
