import Shovel.Props.World
import Shovel.Proofs.WorldProgress
/-
  C01 / C03 / C06, liveness side: PROGRESS and COMPLETION of the world model `converge`.

  The safety theorems of `Shovel/Props/World.lean` allow a step to answer `err`/`nothingNew`
  forever.  Here: when the source is healthy during a step (its script answers every call the
  step makes, honestly), the fault-free step SUCCEEDS and ADVANCES (`progress`); iterating such
  steps REACHES the head of the chain with the table being exactly the projection of blocks
  start..head (`reaches_head`); with a configured stop the iteration reaches the stop and then
  reports `done` forever without writing (`stopped_at_stop`).
-/
namespace Shovel.World

/-! ### 1. a healthy source -/

/-- **ScriptFull**: the script answers completely (and, for the answers named, honestly) for a
    step of a task whose recorded position is `pos`, on chain `c`.
    * `latest`: there is an answer to `Latest`, and every such answer reports a block of the chain
      ABOVE the position (`pos < n ≤ head`; in particular the true head qualifies) — this is the
      weaker of the two forms the task statement allows;
    * `hash`: the lookup `Hash(pos)` succeeds with the chain's hash.  (The step makes this call
      only when there is no recorded position, and then `pos = start - 1`: the real code asks the
      source for `Hash(start-1)`.  It makes at most this one `Hash` call.)
    * `gets`: every range of blocks above the position and up to the head is answered with the
      chain's blocks.  The step consumes answers with `erase`, but it makes at most ONE lookup
      per key (the partition ranges of `load` start at pairwise distinct block numbers —
      `go_full` / `find?_erase_ne`), so one copy of each answer suffices.
    Because `find?` returns the FIRST entry under a key, these are statements about the entries the
    step will actually consume. -/
structure ScriptFull (c : Chain) (pos : Nat) (sc : Script) : Prop where
  latest_ne : sc.latest ≠ []
  latest : ∀ a ∈ sc.latest, ∃ n, pos < n ∧ n ≤ c.head ∧ a = some (n, c.hashAt n)
  hash : sc.hash.find? (fun g => g.1 == pos) = some (pos, some (c.hashAt pos))
  gets : ∀ m n, pos < m → 1 ≤ n → m + n - 1 ≤ c.head →
    sc.gets.find? (fun g => g.1 == (m, n)) = some ((m, n), some (c.slice m n))

/-- a healthy source has something new to report: the position is below the head -/
theorem ScriptFull.lt_head {c : Chain} {pos : Nat} {sc : Script} (h : ScriptFull c pos sc) : pos < c.head := by
  cases hl : sc.latest with
  | nil => exact absurd hl h.latest_ne
  | cons a r =>
    obtain ⟨n, h1, h2, _⟩ := h.latest a (by rw [hl]; exact List.mem_cons_self ..)
    omega

/-- the position-independent form (the literal reading of "the source is healthy"): EVERY answer
    to `Latest` is the true head, every `Hash(n)`, `n ≤ head`, and every range within the chain is
    answered with the chain's data.  It implies `ScriptFull c pos` for every position below the head. -/
structure ScriptComplete (c : Chain) (sc : Script) : Prop where
  latest_ne : sc.latest ≠ []
  latest : ∀ a ∈ sc.latest, a = some (c.head, c.hashAt c.head)
  hash : ∀ n, n ≤ c.head → sc.hash.find? (fun g => g.1 == n) = some (n, some (c.hashAt n))
  gets : ∀ m n, 1 ≤ n → m + n - 1 ≤ c.head →
    sc.gets.find? (fun g => g.1 == (m, n)) = some ((m, n), some (c.slice m n))

theorem ScriptComplete.full {c : Chain} {sc : Script} (h : ScriptComplete c sc) (pos : Nat) (hp : pos < c.head) :
    ScriptFull c pos sc :=
  ⟨h.latest_ne, fun a ha => ⟨c.head, hp, Nat.le_refl _, h.latest a ha⟩, h.hash pos (Nat.le_of_lt hp),
    fun m n _ h2 h3 => h.gets m n h2 h3⟩

/-- the ranges `(m, n)` of blocks above `pos` and up to the head: `pos < m`, `1 ≤ n`, `m + n - 1 ≤ head` -/
def Script.fullKeys (c : Chain) (pos : Nat) : List (Nat × Nat) :=
  (List.range (c.head - pos)).flatMap fun i =>
    (List.range (c.head - pos - i)).map fun j => (pos + 1 + i, j + 1)

/-- **Script.full**: a finite script of a healthy source for a step at position `pos` — the true
    head, the hash of block `pos`, and (generously: whatever `batch_size`/`concurrency` the task `t`
    has) one honest answer for every range of blocks above `pos` up to the head. -/
def Script.full (c : Chain) (_t : Task) (pos : Nat) : Script :=
  { latest := [some (c.head, c.hashAt c.head)]
    hash := [(pos, some (c.hashAt pos))]
    gets := (Script.fullKeys c pos).map fun p => (p, some (c.slice p.1 p.2)) }

theorem Script.mem_fullKeys {c : Chain} {pos m n : Nat} :
    (m, n) ∈ Script.fullKeys c pos ↔ pos < m ∧ 1 ≤ n ∧ m + n - 1 ≤ c.head := by
  unfold Script.fullKeys
  simp only [List.mem_flatMap, List.mem_range, List.mem_map, Prod.mk.injEq]
  constructor
  · rintro ⟨i, hi, j, hj, rfl, rfl⟩
    omega
  · rintro ⟨h1, h2, h3⟩
    exact ⟨m - pos - 1, by omega, n - 1, by omega, by omega, by omega⟩

theorem find?_map_key {κ β} [BEq κ] [LawfulBEq κ] (f : κ → β) (k : κ) :
    ∀ ks : List κ, k ∈ ks → (ks.map fun p => (p, f p)).find? (fun g => g.1 == k) = some (k, f k)
  | [], h => by cases h
  | a :: r, h => by
    rw [List.map_cons, List.find?_cons]
    cases hak : a == k with
    | true =>
      have := eq_of_beq hak
      subst this
      simp only
    | false =>
      simp only
      apply find?_map_key f k r
      rcases List.mem_cons.mp h with rfl | h
      · simp at hak
      · exact h

/-- the predicate is satisfiable: the concrete script is honest, and complete for position `pos` -/
theorem Script.full_scriptOK (c : Chain) (t : Task) (pos : Nat) (hp : pos ≤ c.head) :
    ScriptOK c (Script.full c t pos) := by
  refine ⟨?_, ?_, ?_⟩
  · intro a ha
    simp only [Script.full, List.mem_singleton] at ha
    exact .inr ⟨c.head, Nat.le_refl _, ha⟩
  · intro p hp'
    simp only [Script.full, List.mem_singleton] at hp'
    subst hp'
    exact .inr ⟨hp, rfl⟩
  · intro g hg
    simp only [Script.full, List.mem_map] at hg
    obtain ⟨⟨m, n⟩, hmem, rfl⟩ := hg
    obtain ⟨_, h2, h3⟩ := Script.mem_fullKeys.mp hmem
    exact .inr ⟨h2, h3, rfl⟩

theorem Script.full_ok (c : Chain) (t : Task) (pos : Nat) (hp : pos < c.head) :
    ScriptFull c pos (Script.full c t pos) ∧ ScriptOK c (Script.full c t pos) := by
  refine ⟨⟨?_, ?_, ?_, ?_⟩, Script.full_scriptOK c t pos (Nat.le_of_lt hp)⟩
  · simp [Script.full]
  · intro a ha
    simp only [Script.full, List.mem_singleton] at ha
    exact ⟨c.head, hp, Nat.le_refl _, ha⟩
  · simp [Script.full]
  · intro m n h1 h2 h3
    exact find?_map_key (fun p : Nat × Nat => some (c.slice p.1 p.2)) (m, n) _
      (Script.mem_fullKeys.mpr ⟨h1, h2, h3⟩)

/-! ### 2. progress -/

/-- the common core of `progress` and `progress_to_stop` -/
theorem progress_gen (t : Task) (c : Chain) (db : DB) (sc : Script)
    (hc : c.WF) (hsc : ScriptOK c sc) (hstart : 0 < t.start) (hb : 1 ≤ t.batch) (hcc : 1 ≤ t.conc)
    (hcb : t.conc * t.batch < 2 ^ 63) (hhead : c.head < 2 ^ 62) (hdeps : t.deps = [])
    (hinv : Inv t c (t.start - 1) db) (hk : KeysOK t c db)
    (hstop : t.stop = 0 ∨ top t db (t.start - 1) < t.stop)
    (hfull : ScriptFull c (top t db (t.start - 1)) sc) :
    ∃ n, (converge t db sc none).outcome = .ok n ∧ top t db (t.start - 1) < n ∧ n ≤ c.head ∧
      (0 < t.stop → n ≤ t.stop) := by
  cases hl : sc.latest with
  | nil => exact absurd hl hfull.latest_ne
  | cons a rest =>
    obtain ⟨n, hn1, hn2, rfl⟩ := hfull.latest a (by rw [hl]; exact List.mem_cons_self ..)
    have hclip : top t db (t.start - 1) < clip t n := by
      unfold clip; split <;> omega
    have H :=
      iter_full (t := t) hc { db := db, view := db, script := sc } n (c.hashAt n) rest hsc hstart hb hcc hcb hhead
        hdeps hinv hk
        (fun hnone => by
          have := hfull.hash
          rw [(top_none (s0 := t.start - 1) hnone).1] at this
          exact this)
        hl hn2 hfull.gets (by dsimp only; omega) hclip
    dsimp only at H
    obtain ⟨k, last, hk1, _, hk3, hl2, _, hi⟩ := H
    have hcl := clip_le t n
    refine ⟨last.num, ?_, by omega, by omega, fun hs => ?_⟩
    · rw [converge_eq]
      simp only [hit_none, Bool.false_eq_true, ↓reduceIte]
      rw [loop_succ, hi]
    · have := clip_stop t n hs
      omega

/-- **progress** (C01, liveness): on a growing chain, from a state satisfying the invariant, with
    no stop configured, when the source is healthy during the step (`ScriptFull` at the task's
    position `top`), the fault-free step SUCCEEDS and ADVANCES the position: it cannot answer
    `err`, `nothingNew`, `ahead`, `panic`, unwind, or hit the reorg limit.
    Hypotheses: exactly those of `step_exact`, plus `t.stop = 0` and `ScriptFull`.
    `top < c.head` is not a separate hypothesis: it follows from `ScriptFull` (`ScriptFull.lt_head`,
    the source reports a block above the position).  No hypothesis `t.start - 1 ≤ c.head` is needed
    either: when there is no recorded position, `top = t.start - 1 < c.head`, and `ScriptFull.hash`
    supplies the `Hash(start-1)` answer the model (like the real code) asks for in that case. -/
theorem progress (t : Task) (c : Chain) (db : DB) (sc : Script)
    (hc : c.WF) (hsc : ScriptOK c sc) (hstart : 0 < t.start) (hb : 1 ≤ t.batch) (hcc : 1 ≤ t.conc)
    (hcb : t.conc * t.batch < 2 ^ 63) (hhead : c.head < 2 ^ 62) (hdeps : t.deps = [])
    (hinv : Inv t c (t.start - 1) db) (hk : KeysOK t c db) (hstop : t.stop = 0)
    (hfull : ScriptFull c ((topOf (db.cur.filter (mineC t))).getD (t.start - 1)) sc) :
    ∃ n, (converge t db sc none).outcome = .ok n ∧
      (topOf (db.cur.filter (mineC t))).getD (t.start - 1) < n ∧ n ≤ c.head := by
  obtain ⟨n, h1, h2, h3, _⟩ :=
    progress_gen t c db sc hc hsc hstart hb hcc hcb hhead hdeps hinv hk (.inl hstop) hfull
  exact ⟨n, h1, h2, h3⟩

/-- **progress_to_stop** (C06, liveness): the same with a stop configured and not yet reached; the
    step advances and does not pass the stop. -/
theorem progress_to_stop (t : Task) (c : Chain) (db : DB) (sc : Script)
    (hc : c.WF) (hsc : ScriptOK c sc) (hstart : 0 < t.start) (hb : 1 ≤ t.batch) (hcc : 1 ≤ t.conc)
    (hcb : t.conc * t.batch < 2 ^ 63) (hhead : c.head < 2 ^ 62) (hdeps : t.deps = [])
    (hinv : Inv t c (t.start - 1) db) (hk : KeysOK t c db)
    (hstop : (topOf (db.cur.filter (mineC t))).getD (t.start - 1) < t.stop)
    (hfull : ScriptFull c ((topOf (db.cur.filter (mineC t))).getD (t.start - 1)) sc) :
    ∃ n, (converge t db sc none).outcome = .ok n ∧
      (topOf (db.cur.filter (mineC t))).getD (t.start - 1) < n ∧ n ≤ c.head ∧ n ≤ t.stop := by
  obtain ⟨n, h1, h2, h3, h4⟩ :=
    progress_gen t c db sc hc hsc hstart hb hcc hcb hhead hdeps hinv hk (.inr hstop) hfull
  exact ⟨n, h1, h2, h3, h4 (by omega)⟩

/-! ### 3. completion: iterating healthy steps -/

/-- one fault-free step against a healthy source (a fresh complete script for the current position) -/
def step (t : Task) (c : Chain) (db : DB) : DB :=
  (converge t db (Script.full c t ((topOf (db.cur.filter (mineC t))).getD (t.start - 1))) none).db

/-- `n` such steps -/
def run (t : Task) (c : Chain) : Nat → DB → DB
  | 0, db => db
  | n + 1, db => run t c n (step t c db)

theorem run_add (t : Task) (c : Chain) : ∀ (a b : Nat) (db : DB), run t c (a + b) db = run t c b (run t c a db)
  | 0, b, db => by rw [Nat.zero_add]; rfl
  | a + 1, b, db => by
    rw [show a + 1 + b = (a + b) + 1 by omega]
    exact run_add t c a b (step t c db)

theorem run_fix (t : Task) (c : Chain) (db : DB) (h : step t c db = db) : ∀ n, run t c n db = db
  | 0 => rfl
  | n + 1 => by show run t c n (step t c db) = db; rw [h]; exact run_fix t c db h n

/-- **keysOK_step**: the unique-key hypothesis is preserved by any step (what a step adds is the
    task's own, so the foreign rows are the old ones) -/
theorem keysOK_step (t : Task) (c : Chain) (db : DB) (sc : Script) (f : Option Pos) (hk : KeysOK t c db) :
    KeysOK t c (converge t db sc f).db := by
  refine ⟨hk.1, fun r hr hm => hk.2 r ?_ hm⟩
  rcases (stamp t db sc f).1 r hr with h | h
  · exact h
  · rw [hm] at h; cases h

theorem top_snoc_mine (t : Task) (v v' : DB) (x : Cur) (s0 : Nat) (hx : mineC t x = true)
    (hcur : v'.cur = v.cur ++ [x]) (hgt : top t v s0 < x.num) : top t v' s0 = x.num := by
  unfold top at *
  rw [hcur, List.filter_append]
  have : [x].filter (mineC t) = [x] := by simp [hx]
  rw [this, topOf_snoc]
  cases h : topOf (v.cur.filter (mineC t)) with
  | none => rfl
  | some n =>
    rw [h] at hgt
    simp only [Option.getD_some] at hgt
    show max n x.num = x.num
    omega

theorem top_le_head {t : Task} {c : Chain} {db : DB} (hinv : Inv t c (t.start - 1) db)
    (hsh : t.start - 1 ≤ c.head) : top t db (t.start - 1) ≤ c.head := by
  cases hl : db.latestCur t.src t.ig with
  | none => rw [(top_none hl).1]; exact hsh
  | some x =>
    obtain ⟨h1, h2, _⟩ := top_some (s0 := t.start - 1) hl
    rw [h1]
    exact (((Inv_iff _ _ _ _).mp hinv).1 x h2).2.1

/-- the position the iteration is heading for: the head, or the configured stop -/
def Goal (t : Task) (c : Chain) (T : Nat) : Prop :=
  (t.stop = 0 ∧ T = c.head) ∨ (0 < t.stop ∧ T = t.stop ∧ t.stop ≤ c.head ∧ t.start ≤ t.stop)

section
variable {t : Task} {c : Chain} (hc : c.WF) (hstart : 0 < t.start) (hb : 1 ≤ t.batch) (hcc : 1 ≤ t.conc)
  (hcb : t.conc * t.batch < 2 ^ 63) (hhead : c.head < 2 ^ 62) (hdeps : t.deps = [])
include hc hstart hb hcc hcb hhead hdeps

/-- below the goal a healthy step advances, not beyond the goal, and keeps the invariants -/
theorem step_adv {T : Nat} (hT : Goal t c T) (db : DB) (hinv : Inv t c (t.start - 1) db) (hk : KeysOK t c db)
    (hlt : top t db (t.start - 1) < T) :
    Inv t c (t.start - 1) (step t c db) ∧ KeysOK t c (step t c db) ∧
      top t db (t.start - 1) < top t (step t c db) (t.start - 1) ∧ top t (step t c db) (t.start - 1) ≤ T := by
  have hlh : top t db (t.start - 1) < c.head := by
    rcases hT with ⟨_, h⟩ | ⟨_, h1, h2, _⟩ <;> omega
  obtain ⟨hfull, hsc⟩ := Script.full_ok c t (top t db (t.start - 1)) hlh
  obtain ⟨n, hn1, hn2, _, hn4⟩ := progress_gen t c db _ hc hsc hstart hb hcc hcb hhead hdeps hinv hk
    (by rcases hT with ⟨h, _⟩ | ⟨_, h1, _⟩
        · exact .inl h
        · right; omega) hfull
  obtain ⟨k, _, _, _, _, _, hcur⟩ :=
    (step_exact t c db _ hc hsc hstart hb hcc hcb hhead hdeps hinv hk).1 n hn1
  have htop : top t (step t c db) (t.start - 1) = n :=
    top_snoc_mine t db (step t c db) _ (t.start - 1) (by simp [mineC]) hcur hn2
  refine ⟨(inv_step t c db _ none hc hsc hstart hb hcc hcb hhead hdeps hinv hk).1,
    keysOK_step t c db _ none hk, by rw [htop]; exact hn2, ?_⟩
  rw [htop]
  rcases hT with ⟨_, h⟩ | ⟨h0, h1, _⟩
  · omega
  · have := hn4 h0; omega

/-- at the goal a healthy step writes nothing; with a stop configured it reports `done`,
    whatever the source answers -/
theorem step_fix {T : Nat} (hT : Goal t c T) (db : DB) (hinv : Inv t c (t.start - 1) db) (hk : KeysOK t c db)
    (heq : top t db (t.start - 1) = T) :
    step t c db = db ∧
      (0 < t.stop → ∀ sc, (converge t db sc none).outcome = .done ∧ (converge t db sc none).db = db) := by
  rcases hT with ⟨h0, h⟩ | ⟨h0, h1, h2, h3⟩
  · refine ⟨?_, fun hs => by omega⟩
    have hsc := Script.full_scriptOK c t (top t db (t.start - 1)) (by omega)
    obtain ⟨e1, e2⟩ := step_exact t c db _ hc hsc hstart hb hcc hcb hhead hdeps hinv hk
    apply e2
    intro n hn
    obtain ⟨k, hk1, _, hk3, hk4, _⟩ := e1 n hn
    have : top t db (t.start - 1) = (topOf (db.cur.filter (mineC t))).getD (t.start - 1) := rfl
    omega
  · have hdone : ∀ sc, (converge t db sc none).outcome = .done ∧ (converge t db sc none).db = db := by
      intro sc
      cases hl : db.latestCur t.src t.ig with
      | none => have := (top_none (s0 := t.start - 1) hl).1; omega
      | some x =>
        have := (top_some (s0 := t.start - 1) hl).1
        exact (done_iff t db sc none).1 x hl h0 (by omega) (by simp) (by simp)
    exact ⟨(hdone _).2, fun _ => hdone⟩

/-- iterating healthy steps reaches the goal and stays there -/
theorem reach {T : Nat} (hT : Goal t c T) : ∀ (m : Nat) (db : DB), Inv t c (t.start - 1) db → KeysOK t c db →
    top t db (t.start - 1) ≤ T → T - top t db (t.start - 1) ≤ m →
    Inv t c (t.start - 1) (run t c m db) ∧ KeysOK t c (run t c m db) ∧ top t (run t c m db) (t.start - 1) = T
  | 0, db, hinv, hk, h1, h2 => ⟨hinv, hk, by show top t db (t.start - 1) = T; omega⟩
  | m + 1, db, hinv, hk, h1, h2 => by
    show Inv t c (t.start - 1) (run t c m (step t c db)) ∧ KeysOK t c (run t c m (step t c db)) ∧
      top t (run t c m (step t c db)) (t.start - 1) = T
    by_cases heq : top t db (t.start - 1) = T
    · rw [(step_fix hc hstart hb hcc hcb hhead hdeps hT db hinv hk heq).1]
      exact reach hT m db hinv hk h1 (by omega)
    · obtain ⟨a1, a2, a3, a4⟩ := step_adv hc hstart hb hcc hcb hhead hdeps hT db hinv hk (by omega)
      exact reach hT m (step t c db) a1 a2 a4 (by omega)

end

/-- **reaches_head** (C01, liveness form): on a growing chain `c`, with no stop configured, from
    any state satisfying the invariant (e.g. the empty database), after `k = head - top` healthy
    fault-free steps — or after any larger number of them — the recorded position IS the head and
    the task's table is EXACTLY the projection of blocks `start..head`, each once, in order; the
    invariant and the unique-key hypothesis still hold.
    Added hypothesis: `t.start - 1 ≤ c.head` (the chain has reached the block before the configured
    start).  Without it the initial position `start - 1` already lies beyond the head, `k = 0`, and
    "position = head" is false of the untouched database. -/
theorem reaches_head (t : Task) (c : Chain) (db : DB)
    (hc : c.WF) (hstart : 0 < t.start) (hb : 1 ≤ t.batch) (hcc : 1 ≤ t.conc)
    (hcb : t.conc * t.batch < 2 ^ 63) (hhead : c.head < 2 ^ 62) (hdeps : t.deps = [])
    (hinv : Inv t c (t.start - 1) db) (hk : KeysOK t c db) (hstop : t.stop = 0)
    (hsh : t.start - 1 ≤ c.head)
    (m : Nat) (hm : c.head - (topOf (db.cur.filter (mineC t))).getD (t.start - 1) ≤ m) :
    let db' := run t c m db
    Inv t c (t.start - 1) db' ∧ KeysOK t c db' ∧
    (topOf (db'.cur.filter (mineC t))).getD (t.start - 1) = c.head ∧
    db'.rows.filter (mine t) = (c.slice t.start (c.head - (t.start - 1))).flatMap (rowsFor t) := by
  intro db'
  obtain ⟨h1, h2, h3⟩ := reach hc hstart hb hcc hcb hhead hdeps (T := c.head) (.inl ⟨hstop, rfl⟩) m db hinv hk
    (top_le_head hinv hsh) hm
  refine ⟨h1, h2, h3, ?_⟩
  have := ((Inv_iff _ _ _ _).mp h1).2.2
  rw [show (topOf ((run t c m db).cur.filter (mineC t))).getD (t.start - 1) = c.head from h3,
    show t.start - 1 + 1 = t.start by omega] at this
  exact this

/-! ### 4. completion at a configured stop -/

/-- **stopped_at_stop** (C06, liveness form): with a stop configured within the chain
    (`start ≤ stop ≤ head`), from a state satisfying the invariant whose position has not passed
    the stop, after `k = stop - top` healthy fault-free steps — or any larger number — the position
    is exactly `stop`, the table is exactly the projection of blocks `start..stop`, and from then
    on EVERY step, whatever the source answers, reports `done` and leaves the database unchanged
    (in particular further healthy steps: the run is stationary).
    Added hypothesis: `top ≤ t.stop` (holds for the empty database); the invariant alone allows
    positions beyond a stop configured later, and then "reaches position stop" is false. -/
theorem stopped_at_stop (t : Task) (c : Chain) (db : DB)
    (hc : c.WF) (hstart : 0 < t.start) (hb : 1 ≤ t.batch) (hcc : 1 ≤ t.conc)
    (hcb : t.conc * t.batch < 2 ^ 63) (hhead : c.head < 2 ^ 62) (hdeps : t.deps = [])
    (hinv : Inv t c (t.start - 1) db) (hk : KeysOK t c db)
    (hstop : 0 < t.stop) (hsh : t.stop ≤ c.head) (hss : t.start ≤ t.stop)
    (htop : (topOf (db.cur.filter (mineC t))).getD (t.start - 1) ≤ t.stop)
    (m : Nat) (hm : t.stop - (topOf (db.cur.filter (mineC t))).getD (t.start - 1) ≤ m) :
    let db' := run t c m db
    Inv t c (t.start - 1) db' ∧
    (topOf (db'.cur.filter (mineC t))).getD (t.start - 1) = t.stop ∧
    db'.rows.filter (mine t) = (c.slice t.start (t.stop - (t.start - 1))).flatMap (rowsFor t) ∧
    (∀ sc, (converge t db' sc none).outcome = .done ∧ (converge t db' sc none).db = db') ∧
    (∀ j, run t c j db' = db') := by
  intro db'
  have hT : Goal t c t.stop := .inr ⟨hstop, rfl, hsh, hss⟩
  obtain ⟨h1, h2, h3⟩ := reach hc hstart hb hcc hcb hhead hdeps hT m db hinv hk htop hm
  obtain ⟨f1, f2⟩ := step_fix hc hstart hb hcc hcb hhead hdeps hT (run t c m db) h1 h2 h3
  refine ⟨h1, h3, ?_, f2 hstop, run_fix t c _ f1⟩
  have := ((Inv_iff _ _ _ _).mp h1).2.2
  rw [show (topOf ((run t c m db).cur.filter (mineC t))).getD (t.start - 1) = t.stop from h3,
    show t.start - 1 + 1 = t.start by omega] at this
  exact this

/-! ### 5. non-vacuity: the hypotheses are satisfiable, and the concrete runs do what the theorems say -/

namespace Ex

/-- an initial database holding only a row of another integration in the same table -/
def db0 : DB := { rows := [foreign] }

/-- `t1` with a stop configured at block 4 -/
def t4 : Task := { t1 with stop := 4 }

/-- the healthy script for a step of `t1` at position 3 of `c6`, in full -/
example : (Script.full c6 t1 3).latest = [some (5, c6.hashAt 5)] ∧
    (Script.full c6 t1 3).hash = [(3, some (c6.hashAt 3))] ∧
    (Script.full c6 t1 3).gets =
      [((4, 1), some (c6.slice 4 1)), ((4, 2), some (c6.slice 4 2)), ((5, 1), some (c6.slice 5 1))] := by
  decide +kernel

/-- `ScriptFull` / `ScriptOK` are satisfiable (here: position 0 of the 6-block chain) -/
example : ScriptFull c6 0 (Script.full c6 t1 0) ∧ ScriptOK c6 (Script.full c6 t1 0) :=
  Script.full_ok c6 t1 0 (by decide +kernel)

/-- the hypotheses of `progress` are jointly satisfiable, so its conclusion applies … -/
example : ∃ n, (converge t1 db0 (Script.full c6 t1 0) none).outcome = .ok n ∧ 0 < n ∧ n ≤ c6.head :=
  progress t1 c6 db0 (Script.full c6 t1 0) c6_wf (Script.full_ok c6 t1 0 (by decide +kernel)).2
    (by decide) (by decide) (by decide) (by decide) (by decide +kernel) rfl (by decide +kernel) (by decide +kernel) rfl
    (Script.full_ok c6 t1 0 (by decide +kernel)).1

/-- … and the concrete step indeed indexes blocks 1 and 2 -/
example : (converge t1 db0 (Script.full c6 t1 0) none).outcome = .ok 2 ∧
    (converge t1 db0 (Script.full c6 t1 0) none).scriptOk = true := by decide +kernel

/-- progress is NOT a consequence of the safety hypotheses alone: an honest (`ScriptOK`) but
    unhealthy source — here one whose `Get` fails — makes the step answer `err` -/
example : ScriptOK c6 { sc1 with gets := [((1, 1), none)] } ∧
    (converge t1 {} { sc1 with gets := [((1, 1), none)] } none).outcome = .err :=
  ⟨scriptOKb_sound _ _ (by decide +kernel), by decide +kernel⟩

/-- the hypotheses of `reaches_head` are jointly satisfiable (`k = head - top = 5` steps), so its
    conclusion applies to the run from `db0` … -/
example : Inv t1 c6 (t1.start - 1) (run t1 c6 5 db0) ∧ KeysOK t1 c6 (run t1 c6 5 db0) ∧
    (topOf ((run t1 c6 5 db0).cur.filter (mineC t1))).getD (t1.start - 1) = c6.head ∧
    (run t1 c6 5 db0).rows.filter (mine t1) =
      (c6.slice t1.start (c6.head - (t1.start - 1))).flatMap (rowsFor t1) :=
  reaches_head t1 c6 db0 c6_wf (by decide) (by decide) (by decide) (by decide) (by decide +kernel) rfl
    (by decide +kernel) (by decide +kernel) rfl (by decide +kernel) 5 (by decide +kernel)

/-- … and the concrete run really reaches the head: positions 2, 4, 5 are recorded, the table holds
    the rows of blocks 1..5 once each in order, the other integration's row is untouched; the
    head is reached after 3 steps already and further steps change nothing -/
example : run t1 c6 5 db0 =
      { cur := [{ src := "s", ig := "i", num := 2, hash := hx '2' }, { src := "s", ig := "i", num := 4, hash := hx '4' },
                { src := "s", ig := "i", num := 5, hash := hx '5' }],
        rows := [foreign, row 1 "k1", row 2 "k2", row 3 "k3", row 4 "k4", row 5 "k5"] } ∧
    run t1 c6 3 db0 = run t1 c6 5 db0 ∧ run t1 c6 2 db0 ≠ run t1 c6 5 db0 := by decide +kernel

/-- the added hypothesis `t.start - 1 ≤ c.head` of `reaches_head` is needed: a task configured to
    start beyond the head has initial position `start - 1 > head` and `k = 0` -/
example : let t := { t1 with start := 100 }
    Inv t c6 (t.start - 1) {} ∧ KeysOK t c6 {} ∧ c6.head - (topOf (({} : DB).cur.filter (mineC t))).getD (t.start - 1) = 0 ∧
    (topOf ((run t c6 0 {}).cur.filter (mineC t))).getD (t.start - 1) ≠ c6.head := by decide +kernel

/-- the hypotheses of `stopped_at_stop` are jointly satisfiable (`k = stop - top = 4` steps) … -/
example : Inv t4 c6 (t4.start - 1) (run t4 c6 4 db0) ∧
    (topOf ((run t4 c6 4 db0).cur.filter (mineC t4))).getD (t4.start - 1) = t4.stop ∧
    (run t4 c6 4 db0).rows.filter (mine t4) = (c6.slice t4.start (t4.stop - (t4.start - 1))).flatMap (rowsFor t4) ∧
    (∀ sc, (converge t4 (run t4 c6 4 db0) sc none).outcome = .done ∧
      (converge t4 (run t4 c6 4 db0) sc none).db = run t4 c6 4 db0) ∧
    (∀ j, run t4 c6 j (run t4 c6 4 db0) = run t4 c6 4 db0) :=
  stopped_at_stop t4 c6 db0 c6_wf (by decide) (by decide) (by decide) (by decide) (by decide +kernel) rfl
    (by decide +kernel) (by decide +kernel) (by decide) (by decide +kernel) (by decide) (by decide +kernel)
    4 (by decide +kernel)

/-- … and the concrete run stops at block 4 although the source reports head 5; the next step
    reports `done` -/
example : run t4 c6 4 db0 =
      { cur := [{ src := "s", ig := "i", num := 2, hash := hx '2' }, { src := "s", ig := "i", num := 4, hash := hx '4' }],
        rows := [foreign, row 1 "k1", row 2 "k2", row 3 "k3", row 4 "k4"] } ∧
    (converge t4 (run t4 c6 4 db0) (Script.full c6 t4 4) none).outcome = .done := by decide +kernel

end Ex

end Shovel.World
