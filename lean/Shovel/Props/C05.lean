import Shovel.Model.Deps
/-
  C05 (configuration side) — the dependency list that gates a task (World.dep_gate is stated over
  `task.deps`) is complete: EVERY filter reference of an accepted configuration puts the referenced
  integration into the referencing integration's Dependencies, for any number of integrations
  referencing the same integration / the same column, in any declaration order.
-/
namespace Shovel.Deps

theorem depsOfRefs_complete (igs : List Ig) :
    ∀ (rs : List Ref) (d : List String), depsOfRefs igs rs = some d →
      ∀ r ∈ rs, r.integration ≠ "" → r.integration ∈ d := by
  intro rs
  induction rs with
  | nil => intro d _ r hr; cases hr
  | cons r0 rs ih =>
    intro d h r hr hne
    unfold depsOfRefs at h
    cases hc : check igs r0 with
    | reject => simp [hc] at h
    | none =>
      simp only [hc] at h
      cases hr with
      | head =>
        -- r0 has a non-empty integration name, so `check` cannot answer `none`
        unfold check at hc
        simp only [hne, ne_eq, not_false_eq_true, ↓reduceIte] at hc
        split at hc
        · cases hc
        · split at hc
          · cases hc
          · split at hc <;> cases hc
      | tail _ hm => exact ih d h r hm hne
    | dep n =>
      simp only [hc] at h
      cases hrest : depsOfRefs igs rs with
      | none => simp [hrest] at h
      | some d' =>
        simp only [hrest, Option.map_some, Option.some.injEq] at h
        subst h
        cases hr with
        | head =>
          unfold check at hc
          simp only [hne, ne_eq, not_false_eq_true, ↓reduceIte] at hc
          split at hc
          · cases hc
          · split at hc
            · cases hc
            · split at hc
              · injection hc with hc; subst hc; exact List.mem_cons_self
              · cases hc
        | tail _ hm => exact List.mem_cons_of_mem _ (ih d' hrest r hm hne)

/-- every entry of a dependency list comes from a reference of that integration and names a
    declared integration (a task never waits for something that does not exist) -/
theorem depsOfRefs_only (igs : List Ig) :
    ∀ (rs : List Ref) (d : List String), depsOfRefs igs rs = some d →
      ∀ n ∈ d, (∃ r ∈ rs, r.integration = n) ∧ (tableOf igs n).isSome := by
  intro rs
  induction rs with
  | nil => intro d h n hn; simp [depsOfRefs] at h; subst h; cases hn
  | cons r0 rs ih =>
    intro d h n hn
    unfold depsOfRefs at h
    cases hc : check igs r0 with
    | reject => simp [hc] at h
    | none =>
      simp only [hc] at h
      obtain ⟨⟨r, hr, he⟩, ht⟩ := ih d h n hn
      exact ⟨⟨r, List.mem_cons_of_mem _ hr, he⟩, ht⟩
    | dep m =>
      simp only [hc] at h
      cases hrest : depsOfRefs igs rs with
      | none => simp [hrest] at h
      | some d' =>
        simp only [hrest, Option.map_some, Option.some.injEq] at h
        subst h
        cases hn with
        | head =>
          unfold check at hc
          split at hc
          · split at hc
            · cases hc
            · rename_i t ht
              split at hc
              · cases hc
              · split at hc
                · injection hc with hc
                  exact ⟨⟨r0, List.mem_cons_self, hc⟩, by rw [← hc, ht]; rfl⟩
                · cases hc
          · split at hc <;> cases hc
        | tail _ hm =>
          obtain ⟨⟨r, hr, he⟩, ht⟩ := ih d' hrest n hm
          exact ⟨⟨r, List.mem_cons_of_mem _ hr, he⟩, ht⟩

/-- **deps_complete**: in an accepted configuration, position by position, the entry produced for an
    integration carries its name and contains the integration named by EVERY one of its filter
    references (event inputs and block fields) — however many other integrations reference the
    same integration or column, and wherever they stand in the configuration. -/
theorem deps_complete (all : List Ig) :
    ∀ (gs : List Ig) (out : List (String × List String)), validateGo all gs = some out →
      out.length = gs.length ∧
      ∀ p ∈ gs.zip out, p.2.1 = p.1.name ∧
        (∀ r ∈ p.1.inputRefs ++ p.1.blockRefs, r.integration ≠ "" → r.integration ∈ p.2.2) ∧
        (∀ n ∈ p.2.2, (∃ r ∈ p.1.inputRefs ++ p.1.blockRefs, r.integration = n) ∧ (tableOf all n).isSome) := by
  intro gs
  induction gs with
  | nil => intro out h; simp [validateGo] at h; subst h; exact ⟨rfl, fun p hp => by cases hp⟩
  | cons g gs ih =>
    intro out h
    unfold validateGo at h
    cases hd : depsOfIg all g with
    | none => simp [hd] at h
    | some d =>
      simp only [hd] at h
      cases hrest : validateGo all gs with
      | none => simp [hrest] at h
      | some out' =>
        simp only [hrest, Option.map_some, Option.some.injEq] at h
        subst h
        obtain ⟨hl, hz⟩ := ih out' hrest
        refine ⟨by simp [hl], ?_⟩
        intro p hp
        simp only [List.zip_cons_cons, List.mem_cons] at hp
        cases hp with
        | inl he =>
          subst he
          exact ⟨rfl, depsOfRefs_complete all _ d hd, depsOfRefs_only all _ d hd⟩
        | inr hm => exact hz p hm

/-- an integration with no filter reference waits for nothing -/
theorem deps_none (all : List Ig) (g : Ig)
    (h : ∀ r ∈ g.inputRefs ++ g.blockRefs, r = { integration := "", column := "", table := "" }) :
    depsOfIg all g = some [] := by
  unfold depsOfIg
  generalize g.inputRefs ++ g.blockRefs = rs at h
  induction rs with
  | nil => rfl
  | cons r rs ih =>
    have hr := h r List.mem_cons_self
    subst hr
    unfold depsOfRefs
    have : check all { integration := "", column := "", table := "" } = .none := by
      unfold check; simp
    rw [this]
    exact ih (fun r hr => h r (List.mem_cons_of_mem _ hr))

-- non-vacuity: three integrations reference the same column of `pools` (the second and third in
-- declaration order as well); all three wait for it.
def exPools : Ig := { name := "pools", table := "pools", columns := ["pool"], inputRefs := [], blockRefs := [] }
def exDep (n : String) : Ig :=
  { name := n, table := n, columns := ["x"], inputRefs := [], blockRefs := [{ integration := "pools", column := "pool" }] }
example : validate [exPools, exDep "swaps", exDep "mints", exDep "burns"] =
      some [("pools", []), ("swaps", ["pools"]), ("mints", ["pools"]), ("burns", ["pools"])] := by
  decide +kernel

example : validate [{ name := "a", table := "a", columns := [], inputRefs := [{ integration := "zz", column := "c" }], blockRefs := [] }] = none := by
  decide +kernel

end Shovel.Deps
