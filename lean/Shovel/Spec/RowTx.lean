import Shovel.Spec.Row
/-
  Specification side for C11 / C12 on the transaction- / trace-indexing path: what one item
  (a transaction, or a trace action) of a declaration WITHOUT selected event inputs must produce.
  Written from the property statements, reusing the operator semantics `holds` and the and/or
  aggregation `aggAccept` of `Shovel/Spec/Row.lean`; it does not mention `processTx`, `accept`, `Frs`.
-/
namespace Shovel.Row
open Shovel.Abi

/-- the declaration selects event inputs (then rows come from the log path, not from this one) -/
def hasSelected (d : Decl) : Bool := !(selWithTop d.inputs 0).isEmpty

/-- C11: one cell per block-data column, in declaration order; the cell of column `name` is the
    field of the item that the column names -/
def txCells (d : Decl) (ctx : Ctx) : List DVal := d.block.map fun p => ctx.get p.1

/-- C12: the evaluations of the ACTIVE filters on the fields they are attached to, in declaration
    order (an active filter without a defined comparison for the field's kind contributes nothing) -/
def txEvals (refs : Refs) (d : Decl) (ctx : Ctx) : List (Res Bool) :=
  (d.block.filter fun p => p.2.active).filterMap fun p => holds refs p.2 (ctx.get p.1)

/-- the truth value of an evaluation, if it is one -/
def truthOf : Res Bool → Option Bool
  | .ok b => some b
  | _ => none

/-- **what C11/C12 demand for one transaction / trace action** -/
def specTxRows (refs : Refs) (d : Decl) (ctx : Ctx) : SpecOut :=
  if hasSelected d then .rows []                       -- event declaration: nothing from this path
  else if d.block.isEmpty then .rows []                -- no block-data columns: nothing to write
  else
    let evals := txEvals refs d ctx
    if evals.all fun r => (truthOf r).isSome then
      -- emitted iff the declared aggregation of the truth values accepts (none = accept)
      .rows (if aggAccept d.agg (evals.filterMap truthOf) then [txCells d ctx] else [])
    else .unspecified                                  -- a filter evaluation is an error

end Shovel.Row
