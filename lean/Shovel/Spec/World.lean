import Shovel.Model.World
/-
  Specification side for C01–C06: what the committed database must look like.
-/
namespace Shovel.World

/-- multiset equality of lists of strings via sorting-free counting -/
def sameMultiset (a b : List String) : Bool :=
  a.length == b.length && a.all (fun x => a.count x == b.count x)

/-- **tableIsProjection**: the task's rows are exactly the rows the declaration derives from the
    canonical blocks in `(s, n]`, each once; nothing else is present. `rows`/`want` are
    (block number, row digest) pairs; `want` lists the projection of the whole canonical chain. -/
def tableIsProjection (rows want : List (Nat × String)) (s n : Nat) : Bool :=
  let w := want.filter fun p => s < p.1 && p.1 ≤ n
  sameMultiset (rows.map fun p => s!"{p.1}:{p.2}") (w.map fun p => s!"{p.1}:{p.2}")

/-- C02/C06: no row lies beyond the recorded position or outside the configured range -/
def rowsWithin (rows : List (Nat × String)) (lo : Nat) (n : Nat) (stop : Nat) : Bool :=
  rows.all fun p => lo < p.1 && p.1 ≤ n && (stop == 0 || p.1 ≤ stop)

end Shovel.World
