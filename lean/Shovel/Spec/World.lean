import Shovel.Model.World
/-
  Specification side for C01–C06: what the committed database must look like.
-/
namespace Shovel.World

/-- multiset equality of lists of strings via sorting-free counting -/
def sameMultiset (a b : List String) : Bool :=
  a.length == b.length && a.all (fun x => a.count x == b.count x)

/-- **tableIsProjection**: the task's rows are exactly the rows the declaration derives from the
    canonical blocks in `(s, n]`, each once; nothing else is present. `rows`/`want` are
    (block number, row digest) pairs; `want` lists the projection of the whole canonical chain. -/
def tableIsProjection (rows want : List (Nat × String)) (s n : Nat) : Bool :=
  let w := want.filter fun p => s < p.1 && p.1 ≤ n
  sameMultiset (rows.map fun p => s!"{p.1}:{p.2}") (w.map fun p => s!"{p.1}:{p.2}")

/-- C02/C06: no row lies beyond the recorded position or outside the configured range -/
def rowsWithin (rows : List (Nat × String)) (lo : Nat) (n : Nat) (stop : Nat) : Bool :=
  rows.all fun p => lo < p.1 && p.1 ≤ n && (stop == 0 || p.1 ≤ stop)

end Shovel.World

namespace Shovel.World

/-! ### chains, honest answers, invariants (used by the C01–C06 theorems) -/

/-- a canonical chain: `blks[i]` is block number `i` -/
structure Chain where
  blks : List Blk
  deriving Repr

def Chain.head (c : Chain) : Nat := c.blks.length - 1
def Chain.hashAt (c : Chain) (n : Nat) : String := match c.blks[n]? with | some b => b.hash | none => ""
/-- blocks `start .. start+limit-1` -/
def Chain.slice (c : Chain) (start limit : Nat) : List Blk := (c.blks.drop start).take limit

/-- numbered, hash-linked, 32-byte (64 hex digit) hashes, hashes injective over the chain -/
structure Chain.WF (c : Chain) : Prop where
  nonempty : c.blks ≠ []
  num : ∀ (i : Nat) (b : Blk), c.blks[i]? = some b → b.num = i
  len : ∀ (i : Nat) (b : Blk), c.blks[i]? = some b → b.hash.length = 64 ∧ b.parent.length = 64
  link : ∀ (i : Nat) (a b : Blk), c.blks[i]? = some a → c.blks[i + 1]? = some b → b.parent = a.hash
  inj : ∀ (i j : Nat) (a b : Blk), c.blks[i]? = some a → c.blks[j]? = some b → a.hash = b.hash → i = j

/-- every answer of the script is either a failure or what chain `c` says (the head reported may
    lag: any block number up to the head) -/
structure ScriptOK (c : Chain) (sc : Script) : Prop where
  latest : ∀ a ∈ sc.latest, a = none ∨ ∃ n, n ≤ c.head ∧ a = some (n, c.hashAt n)
  hash : ∀ p ∈ sc.hash, p.2 = none ∨ (p.1 ≤ c.head ∧ p.2 = some (c.hashAt p.1))
  gets : ∀ g ∈ sc.gets, g.2 = none ∨ (1 ≤ g.1.2 ∧ g.1.1 + g.1.2 - 1 ≤ c.head ∧ g.2 = some (c.slice g.1.1 g.1.2))

def mineC (t : Task) (x : Cur) : Bool := x.src == t.src && x.ig == t.ig
def mine (t : Task) (r : TRow) : Bool := r.table == t.table && r.src == t.src && r.ig == t.ig

/-- the rows the declaration derives from block `b` for task `t` -/
def rowsFor (t : Task) (b : Blk) : List TRow :=
  b.rows.map fun (k, p) => { table := t.table, src := t.src, ig := t.ig, blk := b.num, key := k, pay := p }

def topOf (cs : List Cur) : Option Nat := cs.foldl (fun m x => match m with
  | none => some x.num
  | some n => some (max n x.num)) none

/-- **the C01/C02 invariant** for task `t` with initial position `s` on chain `c`: no position and
    no rows; or every recorded position is a block of the chain (number in `(s, head]`, its hash),
    positions are distinct, and the rows are exactly the projection of blocks `(s, top]`, in order. -/
def Inv (t : Task) (c : Chain) (s : Nat) (db : DB) : Prop :=
  let cs := db.cur.filter (mineC t)
  let rs := db.rows.filter (mine t)
  (∀ x ∈ cs, s < x.num ∧ x.num ≤ c.head ∧ x.hash = c.hashAt x.num) ∧
  (cs.map (·.num)).Nodup ∧
  rs = (c.slice (s + 1) ((topOf cs).getD s - s)).flatMap (rowsFor t)

/-- unique keys: the chain's row keys are pairwise distinct and no foreign row of the same table
    carries one of them (they contain ig_name, src_name and block_num in practice) -/
def KeysOK (t : Task) (c : Chain) (db : DB) : Prop :=
  (c.blks.flatMap fun b => b.rows.map (·.1)).Nodup ∧
  ∀ r ∈ db.rows, mine t r = false → r.table = t.table → r.key ∉ (c.blks.flatMap fun b => b.rows.map (·.1))

end Shovel.World
