import Shovel.Model.Rpc
/-
  Statement-level definitions for property C07 (Shovel/Props/C07.lean).
-/
namespace Shovel.Rpc

/-- the numbers of the returned blocks are exactly the requested consecutive range -/
def numbersOK (start limit : Nat) (bs : List Block) : Prop :=
  bs.map (·.num) = (List.range limit).map (start + ·)

/-- every attachment of the exchange (receipt, log, trace, and the header that accompanies the
    logs) carries a block hash — what an honest node sends for mined blocks.
    (No theorem needs this any more since `setHash` ignores an empty hash; kept for reference.) -/
def Exch.attHashed : Exch → Prop
  | .receipts es => ∀ rs r, El.val rs ∈ es → r ∈ rs → r.bhash ≠ ""
  | .logs h l _ => (∀ hd, h = .val hd → hd.hash ≠ "") ∧ ∀ items i, l = .val items → i ∈ items → i.bhash ≠ ""
  | .traces e => ∀ items i, e = .val items → i ∈ items → i.bhash ≠ ""
  | _ => True

/-- every header / block of a header batch carries its hash -/
def Exch.hdrHashed : Exch → Prop
  | .headers es => ∀ h txs, El.val (h, txs) ∈ es → h.hash ≠ ""
  | _ => True

/-- the header batch `es` has at place `j` a header with this number and — if a hash is named —
    this hash -/
def hdrAt (es : List (El (Hdr × List Nat))) (j num : Nat) (hash : String) : Prop :=
  ∃ hd txs, es[j]? = some (.val (hd, txs)) ∧ hd.num = num ∧ (hash ≠ "" → hd.hash = hash)

/-- what a step keeps of a block: number and parent, and a hash it already had -/
def keeps (a b : Block) : Prop :=
  b.num = a.num ∧ b.parent = a.parent ∧ (a.hash ≠ "" → b.hash = a.hash)

end Shovel.Rpc
