import Shovel.Model.AbiType
/-
  Specification side for the declaration functions (C09 `parse_correct`, C13 `sig_canonical`):
  Solidity types as trees, their JSON-ABI rendering (type string + components), the canonical
  signature per the Solidity ABI rules, and the decoder type they denote.
  Written from the ABI specification, not from dig.go.
-/
namespace Shovel.Abi

mutual
/-- a Solidity type: elementary (by name), tuple, or array (`k = 0`: dynamic `T[]`, else `T[k]`) -/
inductive STy where
  | elem (name : List Char) (sel : Bool)
  | tuple (fs : STys)
  | arr (k : Nat) (e : STy)
inductive STys where
  | nil
  | cons (t : STy) (ts : STys)
end

def decimal (k : Nat) : List Char := Nat.toDigits 10 k

/-- one array suffix `[]` / `[k]` -/
def dimSuffix (k : Nat) : List Char := if k = 0 then ['[', ']'] else '[' :: decimal k ++ [']']

/-- all array suffixes, innermost dimension first (Solidity writes `T[inner][outer]`) -/
def STy.suffix : STy → List Char
  | .arr k e => e.suffix ++ dimSuffix k
  | _ => []

/-- the non-array type under all array layers -/
def STy.base : STy → STy
  | .arr _ e => e.base
  | t => t

def STy.baseName : STy → List Char
  | .arr _ e => e.baseName
  | .elem name _ => name
  | .tuple _ => "tuple".toList

/-- JSON-ABI `type` string -/
def STy.typeString (t : STy) : List Char := t.baseName ++ t.suffix

def STy.baseSel : STy → Bool
  | .arr _ e => e.baseSel
  | .elem _ sel => sel
  | .tuple _ => false

mutual
/-- components of the base tuple (none for elementary bases) -/
def STy.compsOf : STy → Inps
  | .arr _ e => STy.compsOf e
  | .elem _ _ => .nil
  | .tuple fs => STys.toInps fs
/-- JSON-ABI rendering of a member list (members are never `indexed`) -/
def STys.toInps : STys → Inps
  | .nil => .nil
  | .cons t ts => .cons (.mk false t.baseSel t.typeString (STy.compsOf t)) (STys.toInps ts)
end

/-- JSON-ABI rendering as a `dig.Input` (`components` carry the tuple's members).
    Kept outside the mutual block so that the block is structurally recursive (and hence reduces
    in the kernel); `STys.toInps (.cons t ts) = .cons (t.toInp false) (STys.toInps ts)` by `rfl`. -/
def STy.toInp (indexed : Bool) (t : STy) : Inp :=
  .mk indexed t.baseSel t.typeString (STy.compsOf t)

/-- `bytes` and `string` are the dynamic elementary types -/
def isDynName (name : List Char) : Bool := name == "bytes".toList || name == "string".toList

mutual
/-- canonical signature fragment per the Solidity ABI: tuples are parenthesised member lists,
    arrays append their suffix -/
def STy.canon : STy → List Char
  | .elem name _ => name
  | .tuple fs => '(' :: STys.canon fs ++ [')']
  | .arr k e => e.canon ++ dimSuffix k
def STys.canon : STys → List Char
  | .nil => []
  | .cons t .nil => t.canon
  | .cons t ts => t.canon ++ ',' :: STys.canon ts
end

mutual
/-- the decoder type a declaration denotes, numbering selected leaves from `pos` in declaration
    order; returns the next free position -/
def STy.expect (pos : Nat) : STy → Nat × Ty
  | .elem name sel =>
    let s := if sel then some pos else none
    (if sel then pos + 1 else pos, if isDynName name then .dyn s else .stat s)
  | .tuple fs => let (p, ts) := STys.expect pos fs; (p, .tup ts)
  | .arr k e => let (p, t) := STy.expect pos e; (p, .arr k t)
def STys.expect (pos : Nat) : STys → Nat × Tys
  | .nil => (pos, .nil)
  | .cons t ts =>
    let (p1, t') := STy.expect pos t
    let (p2, ts') := STys.expect p1 ts
    (p2, .cons t' ts')
end

/-- an event's inputs: (indexed, type) -/
def declInps : List (Bool × STy) → Inps
  | [] => .nil
  | (ix, t) :: rest => .cons (t.toInp ix) (declInps rest)

def declCanon : List (Bool × STy) → List Char
  | [] => []
  | [(_, t)] => t.canon
  | (_, t) :: rest => t.canon ++ ',' :: declCanon rest

/-- expected data type: the non-indexed inputs, in order -/
def declExpect (pos : Nat) : List (Bool × STy) → Nat × Tys
  | [] => (pos, .nil)
  | (ix, t) :: rest =>
    if ix then declExpect pos rest
    else
      let (p1, t') := STy.expect pos t
      let (p2, ts) := declExpect p1 rest
      (p2, .cons t' ts)

/-- well-formed elementary names: no brackets, not starting with `tuple`; a name starting with
    `string` is `string` (names starting with `bytes` other than `bytes` itself are `bytesN`) -/
def nameOK (name : List Char) : Bool :=
  !name.contains '[' && !name.contains ']' && !hasPrefix tupleP name &&
  (!hasPrefix stringP name || name == stringP) && !name.isEmpty

mutual
def STy.wf : STy → Bool
  | .elem name _ => nameOK name
  | .tuple fs => !(STys.toInps fs).isEmpty && STys.wf fs     -- a tuple has at least one member
  | .arr _ e => e.wf
def STys.wf : STys → Bool
  | .nil => true
  | .cons t ts => t.wf && ts.wf
end

end Shovel.Abi
