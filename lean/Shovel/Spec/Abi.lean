import Shovel.Model.Abi
/-
  Specification side for C09, written from the Solidity ABI specification (head/tail encoding),
  not from dig.go: values, `enc`, and the row rule `rowsOf`.
-/
namespace Shovel.Abi

mutual
inductive Val where
  | word (w : List Nat)          -- one 32-byte word (uintN/intN/address/bool/bytesN, already padded)
  | bytes (bs : List Nat)        -- bytes / string payload
  | arr (vs : Vals)
  | tup (vs : Vals)
inductive Vals where
  | nil
  | cons (v : Val) (vs : Vals)
end

def Vals.length : Vals → Nat
  | .nil => 0
  | .cons _ vs => vs.length + 1

/-- big-endian 32-byte word of `n` -/
def word32 (n : Nat) : List Nat :=
  (List.range 32).map fun i => n / 256 ^ (31 - i) % 256

def padTo32 (bs : List Nat) : List Nat :=
  bs ++ List.replicate ((32 - bs.length % 32) % 32) 0

/-- dynamic per the ABI spec: bytes, string, T[], T[k] of dynamic T, tuples with a dynamic member -/
def Ty.isDynamic (t : Ty) : Bool := !t.isStatic

mutual
/-- `enc(t, v)`.  A type/value mismatch encodes as `[]` (excluded by `WellTyped`). -/
def enc : Ty → Val → List Nat
  | .stat _, .word w => w
  | .dyn _, .bytes bs => word32 bs.length ++ padTo32 bs
  | .arr 0 e, .arr vs => word32 vs.length ++ encArr e vs (headLenArr e vs)
  | .arr (_ + 1) e, .arr vs => encArr e vs (headLenArr e vs)
  | .tup fs, .tup vs => encTup fs vs (headLenTup fs)
  | _, _ => []
/-- head/tail encoding of `vs` all of type `e`: `(heads ++ tails)` given total head length -/
def encArr (e : Ty) (vs : Vals) (headLen : Nat) : List Nat :=
  (encArrParts e vs headLen).1 ++ (encArrParts e vs headLen).2
/-- returns (heads, tails); `tailOff` = offset at which the next tail will start -/
def encArrParts (e : Ty) (vs : Vals) (tailOff : Nat) : List Nat × List Nat :=
  match vs with
  | .nil => ([], [])
  | .cons v rest =>
    if e.isStatic then
      let (hs, ts) := encArrParts e rest tailOff
      (enc e v ++ hs, ts)
    else
      let tail := enc e v
      let (hs, ts) := encArrParts e rest (tailOff + tail.length)
      (word32 tailOff ++ hs, tail ++ ts)
def headLenArr (e : Ty) (vs : Vals) : Nat :=
  match vs with
  | .nil => 0
  | .cons _ rest => (if e.isStatic then e.size else 32) + headLenArr e rest
def encTup (fs : Tys) (vs : Vals) (headLen : Nat) : List Nat :=
  (encTupParts fs vs headLen).1 ++ (encTupParts fs vs headLen).2
def encTupParts (fs : Tys) (vs : Vals) (tailOff : Nat) : List Nat × List Nat :=
  match fs, vs with
  | .cons f frest, .cons v vrest =>
    if f.isStatic then
      let (hs, ts) := encTupParts frest vrest tailOff
      (enc f v ++ hs, ts)
    else
      let tail := enc f v
      let (hs, ts) := encTupParts frest vrest (tailOff + tail.length)
      (word32 tailOff ++ hs, tail ++ ts)
  | _, _ => ([], [])
def headLenTup (fs : Tys) : Nat :=
  match fs with
  | .nil => 0
  | .cons f rest => (if f.isStatic then f.size else 32) + headLenTup rest
end

mutual
def WellTyped : Ty → Val → Bool
  | .stat _, .word w => w.length == 32 && w.all (· < 256)
  | .dyn _, .bytes bs => bs.all (· < 256)
  | .arr k e, .arr vs => (k == 0 || vs.length == k) && wellTypedAll e vs
  | .tup fs, .tup vs => wellTypedTup fs vs
  | _, _ => false
def wellTypedAll (e : Ty) : Vals → Bool
  | .nil => true
  | .cons v vs => WellTyped e v && wellTypedAll e vs
def wellTypedTup : Tys → Vals → Bool
  | .nil, .nil => true
  | .cons f fs, .cons v vs => WellTyped f v && wellTypedTup fs vs
  | _, _ => false
end

/-! ### the row rule -/

/-- a (partial) assignment of byte strings to result columns -/
abbrev Cells := List (Nat × List Nat)

mutual
/-- selected leaves of a value that contains no row-creating array below (scalars / one element) -/
def leaves : Ty → Val → Cells
  | .stat (some p), .word w => [(p, w)]
  | .dyn (some p), .bytes bs => [(p, bs)]
  | .tup fs, .tup vs => leavesTup fs vs
  | _, _ => []
def leavesTup : Tys → Vals → Cells
  | .cons f fs, .cons v vs => leaves f v ++ leavesTup fs vs
  | _, _ => []
end

mutual
/-- rows contributed by the selected arrays of a value: one row per element of the innermost
    array level, in order; several arrays concatenate. -/
def arrRows : Ty → Val → List Cells
  | .arr _ e, .arr vs => if e.hasSelect then arrRowsElems e vs else []
  | .tup fs, .tup vs => arrRowsTup fs vs
  | _, _ => []
def arrRowsElems (e : Ty) : Vals → List Cells
  | .nil => []
  | .cons v vs => (if e.isArr then arrRows e v else [leaves e v]) ++ arrRowsElems e vs
def arrRowsTup : Tys → Vals → List Cells
  | .cons f fs, .cons v vs => arrRows f v ++ arrRowsTup fs vs
  | _, _ => []
end

/-- render an assignment as a row of `ncols` optional values; empty byte strings count as unset -/
def cellsToRow (ncols : Nat) (cs : Cells) : List (Option (List Nat)) :=
  (List.range ncols).map fun j =>
    match cs.find? (fun c => c.1 == j && !c.2.isEmpty) with
    | some c => some c.2
    | none => none

/-- **the row rule**: scalars once (broadcast into every row), one row per selected-array element;
    with no array rows at all, a single row of scalars. -/
def rowsOf (t : Ty) (v : Val) : List (List (Option (List Nat))) :=
  let scalars := leaves t v
  let rows := arrRows t v
  let rows := if rows.isEmpty then [[]] else rows
  rows.map fun r => cellsToRow t.nsel (scalars ++ r)

mutual
/-- the declaration domain of C09: no selected array sits inside a tuple that is an array element -/
def Ty.inDomain : Ty → Bool
  | .stat _ => true
  | .dyn _ => true
  | .arr _ e => if e.isArr then e.inDomain else !e.hasSelectedArr && e.inDomain
  | .tup fs => fs.inDomain
def Tys.inDomain : Tys → Bool
  | .nil => true
  | .cons t ts => t.inDomain && ts.inDomain
def Ty.hasSelectedArr : Ty → Bool
  | .arr _ e => e.hasSelect
  | .tup fs => fs.hasSelectedArr
  | _ => false
def Tys.hasSelectedArr : Tys → Bool
  | .nil => false
  | .cons t ts => t.hasSelectedArr || ts.hasSelectedArr
end

/-! ### parsing value descriptions for the driver -/

mutual
def parseVal : Nat → List String → Option (Val × List String)
  | 0, _ => none
  | fuel + 1, toks =>
    match toks with
    | [] => none
    | tok :: rest =>
      match tok.splitOn ":" with
      | ["w", h] => (bytesOfHex? h).map fun w => (.word w, rest)
      | ["b", h] => (if h == "" then some [] else bytesOfHex? h).map fun b => (.bytes b, rest)
      | ["a", n] => match n.toNat? with
        | some n => (parseVals fuel n rest).map fun (vs, r) => (.arr vs, r)
        | none => none
      | ["t", n] => match n.toNat? with
        | some n => (parseVals fuel n rest).map fun (vs, r) => (.tup vs, r)
        | none => none
      | _ => none
def parseVals : Nat → Nat → List String → Option (Vals × List String)
  | 0, _, _ => none
  | fuel + 1, n, toks =>
    match n with
    | 0 => some (.nil, toks)
    | n + 1 =>
      match parseVal fuel toks with
      | none => none
      | some (v, rest) => (parseVals fuel n rest).map fun (vs, r) => (.cons v vs, r)
end

def parseValDesc (s : String) : Option Val :=
  let toks := s.splitOn ","
  match parseVal (2 * toks.length + 4) toks with
  | some (v, []) => some v
  | _ => none

end Shovel.Abi
