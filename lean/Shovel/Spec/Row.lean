import Shovel.Model.Row
import Shovel.Spec.Abi
/-
  Specification side for C11 / C12 / C13: what a row must contain and when it is emitted,
  written from the property statements (not from processLog): own-topic position, value typing,
  operator semantics, and/or aggregation, the signature gate.
-/
namespace Shovel.Row
open Shovel.Abi

/-! ### C11: value typing -/

/-- the ABI value a 32-byte word / byte string denotes for an elementary type (arrays: element type) -/
def renderSpec (abitype : List Char) (d : List Nat) : DVal :=
  let base := abitype.takeWhile (· ≠ '[')
  if "uint".toList.isPrefixOf base then .u256 (beVal (d.drop (d.length - 32)))
  else if "int".toList.isPrefixOf base then
    let x := beVal (d.drop (d.length - 32))
    .neg (if x < 2 ^ 255 then (x : Int) else (x : Int) - 2 ^ 256)         -- two's complement
  else if "address".toList.isPrefixOf base then .bytes (if d.length == 32 then d.drop 12 else d)
  else if base == "bool".toList then .bool (d.length == 32 && d.getD 31 0 == 1)
  else if base == "string".toList then .str d
  else .bytes d

/-- own indexed position: topic index of the top-level input at position `k` -/
def ownTopic (inputs : Inps) (k : Nat) : Nat :=
  let rec count : Inps → Nat → Nat
    | .nil, _ => 0
    | .cons i rest, n => match n with
      | 0 => 0
      | n + 1 => (if i.indexed then 1 else 0) + count rest n
  1 + count inputs k

/-- selected inputs in declaration order with the position of their top-level input -/
def selWithTop : Inps → Nat → List (Bool × Nat × List Char)
  | .nil, _ => []
  | .cons i rest, k => (selOf i).map (fun (ix, ty) => (ix, k, ty)) ++ selWithTop rest (k + 1)

/-- the `indexed` attribute only occurs on top-level inputs: below a non-indexed input no
    selected leaf claims to be a topic -/
def ixOK : Inps → Bool
  | .nil => true
  | .cons i rest => (i.indexed || (selOf i).all fun p => !p.1) && ixOK rest

/-! ### C12: operator semantics -/

/-- does filter `f` hold of value `d`?  `none`: the filter does not apply (inactive, or no
    defined comparison for this operator/kind); `some (.err)`: unparsable argument -/
def holds (refs : Refs) (f : Filter) (d : DVal) : Option (Res Bool) :=
  if f.args.isEmpty && f.refInteg.isEmpty then none
  else match d with
  | .bytes v =>
    let member := if !f.refTable.isEmpty then refs.has f.refTable f.refCol v
                  else f.args.any fun a => isInfix (decodeHexStr a) v
    let equal := f.args.any fun a => v == decodeHexStr a
    if f.op == "contains" then some (.ok member)
    else if f.op == "!contains" then some (.ok (!member))
    else if f.op == "eq" then some (.ok equal)
    else if f.op == "ne" then some (.ok (!equal))
    else if f.op.endsWith "contains" then some (.ok (if f.op.startsWith "!" then !member else member))
    else some (.ok true)
  | .str v =>
    let eqs (a : String) : Bool := a.toUTF8.toList.map (·.toNat) == v
    if f.args.isEmpty then some .err       -- a reference-only filter on a string: outside the supported domain
    else if f.op == "contains" then some (.ok (f.args.any eqs))
    else if f.op == "!contains" then some (.ok (!f.args.any eqs))
    else if f.op == "eq" then (match f.args.head? with | some a => some (.ok (eqs a)) | none => some .err)
    else if f.op == "ne" then (match f.args.head? with | some a => some (.ok (!eqs a)) | none => some .err)
    else none
  | .u64 v => cmp v (2 ^ 64)
  | .u256 v => cmp v (2 ^ 256)
  | _ => none
where
  cmp (v bound : Nat) : Option (Res Bool) :=
    match f.args.head? with
    | none => some .err       -- a reference-only filter on a number: outside the supported domain
    | some a =>
      match parseDec a with
      | none => some .err
      | some i =>
        if i ≥ bound then some .err
        else if f.op == "eq" then some (.ok (v == i))
        else if f.op == "ne" then some (.ok (v != i))
        else if f.op == "gt" then some (.ok (decide (v > i)))
        else if f.op == "lt" then some (.ok (decide (v < i)))
        else none

/-- and/or aggregation; no applicable filter accepts everything -/
def aggAccept (agg : String) (bs : List Bool) : Bool :=
  bs.isEmpty || (if agg == "and" then bs.all id else bs.any id)

/-! ### the rows a log must produce -/

inductive SpecOut where
  | rows (rs : List (List DVal))
  | unspecified                 -- the property does not fix the outcome (error paths)
  deriving Repr

/-- one row: cells + per-filter results -/
def specRow (refs : Refs) (d : Decl) (ctx : Ctx) (lg : Log) (hasData : Bool)
    (cells : List (Option (List Nat))) (i : Nat) : Option (List DVal × List Bool) :=
  let ins := selWithTop d.inputs 0
  -- event-input columns
  let rec goIn : List (Bool × Nat × List Char) → List Filter → List (Option (List Nat)) → Option (List DVal × List Bool)
    | [], _, _ => some ([], [])
    | (ix, k, ty) :: rest, fl, cs =>
      let f := fl.headD {}
      let (v?, cs') : Option DVal × List (Option (List Nat)) :=
        if ix then ((lg.topics[ownTopic d.inputs k]?).map (renderSpec ty), cs)
        else match cs with
          | c :: cs' => (some (renderSpec ty (c.getD [])), cs')
          | [] => (none, [])
      match v? with
      | none => none
      | some v =>
        match goIn rest (fl.drop 1) cs' with
        | none => none
        | some (vs, bs) =>
          match holds refs f v with
          | none => some (v :: vs, bs)
          | some (.ok b) => some (v :: vs, b :: bs)
          | some _ => none
  let rec goBd : List (String × Filter) → Option (List DVal × List Bool)
    | [] => some ([], [])
    | (n, f) :: rest =>
      match goBd rest with
      | none => none
      | some (vs, bs) =>
        if n == "abi_idx" then (if hasData then some (.int i :: vs, bs) else none)  -- element index only exists with data
        else
          let v := ctx.get n
          match holds refs f v with
          | none => some (v :: vs, bs)
          | some (.ok b) => some (v :: vs, b :: bs)
          | some _ => none
  match goIn ins d.inputFilters cells, goBd d.block with
  | some (a, ba), some (b, bb) => some (a ++ b, ba ++ bb)
  | _, _ => none

/-- **what C11/C12/C13 demand for one log** whose data is the ABI encoding of `v` (or empty) -/
def specRows (refs : Refs) (d : Decl) (ctx : Ctx) (lg : Log) (t : Ty) (v : Option Val) : SpecOut :=
  if !(decide (lg.topics.length = 1 + numIndexed d.inputs) && lg.topics.headD [] == d.sighash) then .rows []
  else
    let dataRows : Option (List (List (Option (List Nat)))) :=
      match v with
      | some v => some (rowsOf t v)
      | none => if t.nsel == 0 then some [[]] else none
    match dataRows with
    | none => .unspecified
    | some rs =>
      let rec go : List (List (Option (List Nat))) → Nat → Option (List (List DVal))
        | [], _ => some []
        | cells :: more, i =>
          match specRow refs d ctx lg v.isSome cells i, go more (i + 1) with
          | some (row, bs), some rows => some (if aggAccept d.agg bs then row :: rows else rows)
          | _, _ => none
      match go rs 0 with
      | some rows => .rows rows
      | none => .unspecified

end Shovel.Row
