import Shovel.Model.Insert
import Shovel.Spec.Row
import Shovel.Spec.RowTx
import Shovel.Spec.Abi
/-
  Specification side of `Integration.Insert` (C01 "each matching log, transaction or trace yields
  its rows once and nothing else is present", C11): the rows a batch of blocks must produce, item
  by item, written with the per-item specifications `specRows` / `specTxRows` only — no decoder
  state, no loops with early exit.

  A log of the batch is given by what it *means*: its topics and either the ABI value its data
  encodes (plus arbitrary trailing bytes) or raw bytes.
-/
namespace Shovel.Insert
open Shovel.Row Shovel.Abi

inductive Payload where
  | enc (v : Val) (rest : List Nat)     -- data = enc ty v ++ rest
  | raw (bs : List Nat)                 -- anything else (only harmless when the gate rejects the log, or empty)

structure ALog where
  fields : Ctx
  topics : List (List Nat)
  payload : Payload
  cap : Nat

structure ATx where
  fields : Ctx
  logs : List ALog
  traces : List Ctx

structure ABlock where
  fields : Ctx
  txs : List ATx

def ALog.data (ty : Ty) (l : ALog) : List Nat :=
  match l.payload with
  | .enc v rest => enc ty v ++ rest
  | .raw bs => bs

def ALog.toE (ty : Ty) (l : ALog) : ELog := { fields := l.fields, log := { topics := l.topics, data := l.data ty }, cap := l.cap }
def ATx.toE (ty : Ty) (t : ATx) : ETx := { fields := t.fields, logs := t.logs.map (ALog.toE ty), traces := t.traces }
def ABlock.toE (ty : Ty) (b : ABlock) : EBlock := { fields := b.fields, txs := b.txs.map (ATx.toE ty) }

/-- the declared event's gate, as the property states it -/
def isDeclared (d : Decl) (l : ALog) : Bool :=
  decide (l.topics.length = 1 + numIndexed d.inputs) && l.topics.headD [] == d.sighash

/-- the data of a log is what the theorems can speak about: a well-typed value's encoding that is
    not empty and fits the buffer, or raw bytes that are empty or belong to a log of another event -/
def ALog.ok (d : Decl) (ty : Ty) (l : ALog) : Prop :=
  match l.payload with
  | .enc v rest => WellTyped ty v = true ∧ 0 < (enc ty v ++ rest).length ∧
      (enc ty v ++ rest).length < 2 ^ 63 ∧ (enc ty v ++ rest).length ≤ l.cap
  | .raw bs => bs = [] ∨ isDeclared d l = false

/-- **rows of one log** -/
def specLog (refs : Refs) (d : Decl) (ty : Ty) (ctx : Ctx) (l : ALog) : SpecOut :=
  let lg : Log := { topics := l.topics, data := l.data ty }
  match l.payload with
  | .enc v _ => specRows refs d ctx lg ty (some v)
  | .raw bs =>
    if bs.isEmpty then specRows refs d ctx lg ty none
    else if isDeclared d l then .unspecified
    else .rows []

/-- the per-item outcomes of a batch in walk order: block by block, transaction by transaction,
    then (by mode) the transaction itself, each of its trace actions, or each of its logs -/
def specItems (refs : Refs) (d : Decl) (ty : Ty) (mode : Mode) (base : Ctx) (blocks : List ABlock) : List SpecOut :=
  blocks.flatMap fun b => b.txs.flatMap fun t =>
    match mode with
    | .tx => [specTxRows refs d (t.fields ++ (b.fields ++ base))]
    | .trace => t.traces.map fun ta => specTxRows refs d (ta ++ (t.fields ++ (b.fields ++ base)))
    | .log => t.logs.map fun l => specLog refs d ty (l.fields ++ (t.fields ++ (b.fields ++ base))) l

/-- all outcomes fixed: their rows in order; otherwise the property does not fix the batch -/
def joinSpec : List SpecOut → Option (List (List DVal))
  | [] => some []
  | .rows r :: rest => (joinSpec rest).map (r ++ ·)
  | .unspecified :: _ => none

/-- **what C01 / C11 demand of one `Insert` call** -/
def specInsert (refs : Refs) (d : Decl) (ty : Ty) (mode : Mode) (base : Ctx) (blocks : List ABlock) :
    Option (List (List DVal)) :=
  joinSpec (specItems refs d ty mode base blocks)

end Shovel.Insert
