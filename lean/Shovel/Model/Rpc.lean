import Shovel.Model.Basic
/-
  Model of the block request of jrpc2/client.go over ABSTRACT responses (property C07):
    Client.Get dispatch, blocks/headers + validate, receipts, logs, traces, setHash.
  JSON decoding is glue (tie-only); a response element is what the decoder delivers.
-/
namespace Shovel.Rpc

structure Hdr where
  num : Nat
  hash : String
  parent : String
  deriving DecidableEq, Repr

/-- an item attached to a transaction of a block: log (idx) or trace; `bnum/bhash` are the block
    the item itself names -/
structure Item where
  bnum : Nat
  bhash : String
  tx : Nat
  idx : Nat            -- log index (logs, receipt logs) / unused for traces
  deriving DecidableEq, Repr

structure Rcpt where
  bnum : Nat
  bhash : String
  tx : Nat
  logs : List Nat      -- log indices of this receipt
  deriving DecidableEq, Repr

/-- one element of a batch reply -/
inductive El (α : Type) where
  | error            -- error member with non-zero code
  | null             -- missing / null result
  | val (a : α)
  deriving Repr

/-- one HTTP exchange as seen after decoding; `fail` = non-2xx status, undecodable or truncated body -/
inductive Exch where
  | fail
  | headers (es : List (El (Hdr × List Nat)))        -- header + tx indices (blocks plan) or [] (headers plan)
  | receipts (es : List (El (List Rcpt)))
  | logs (h : El Hdr) (l : El (List Item)) (n : Nat)  -- n = number of batch elements received
  | traces (e : El (List Item))
  deriving Repr

structure Tx where
  idx : Nat
  logs : List Nat := []     -- attached log indices, in attachment order
  traces : Nat := 0         -- number of attached trace actions
  fromRcpt : Bool := false
  deriving DecidableEq, Repr

structure Block where
  num : Nat
  hash : String := ""
  parent : String := ""
  txs : List Tx := []
  deriving DecidableEq, Repr

structure Plan where
  blocks : Bool
  headers : Bool
  receipts : Bool
  logs : Bool
  traces : Bool
  deriving DecidableEq, Repr

/-- `validate` + the per-element checks of blocks()/headers() -/
def validate (start limit : Nat) (es : List (El (Hdr × List Nat))) : Option (List Block) :=
  if es.length < limit then none
  -- every received element (also surplus ones) is checked for an error member / null result
  else if es.any (fun e => match e with | .val _ => false | _ => true) then none
  else
    let rec go : List (El (Hdr × List Nat)) → Nat → Option String → Option (List Block)
      | [], _, _ => some []
      | .error :: _, _, _ => none
      | .null :: _, _, _ => none
      | .val (h, txs) :: rest, i, prev =>
        if h.num != start + i then none
        else if (match prev with | some p => h.parent != p | none => false) then none
        else match go rest (i + 1) (some h.hash) with
          | none => none
          | some bs => some ({ num := h.num, hash := h.hash, parent := h.parent, txs := txs.map fun t => { idx := t } } :: bs)
    if limit == 0 then none else go (es.take limit) 0 none

/-- `setHash`: agree with the hash already held, else record it -/
def setHash (b : Block) (h : String) : Option Block :=
  if h == "" then some b
  else if b.hash != "" && b.hash != h then none else some { b with hash := h }

def updBlock (bs : List Block) (num : Nat) (f : Block → Option Block) : Option (List Block) :=
  match bs with
  | [] => none                                            -- "block not found"
  | b :: rest =>
    if b.num == num then (f b).map (· :: rest)
    else (updBlock rest num f).map (b :: ·)

/-- `Block.Tx(idx)`: find or append -/
def withTx (b : Block) (idx : Nat) (f : Tx → Tx) : Block :=
  if b.txs.any (·.idx == idx) then { b with txs := b.txs.map fun t => if t.idx == idx then f t else t }
  else { b with txs := b.txs ++ [f { idx := idx }] }

/-- `receipts()` -/
def applyReceipts (start limit : Nat) (es : List (El (List Rcpt))) (bs : List Block) : Option (List Block) :=
  if es.length < limit then none
  else if es.any (fun e => match e with | .error => true | _ => false) then none
  else
    let rec go : List (El (List Rcpt)) → Nat → List Block → Option (List Block)
      | [], _, bs => some bs
      | .error :: _, _, _ => none
      | .null :: _, _, _ => none
      | .val [] :: rest, i, bs => go rest (i + 1) bs
      | .val (r0 :: rs) :: rest, i, bs =>
        if r0.bnum != start + i then none
        else match updBlock bs r0.bnum (fun b =>
            -- every receipt must name this block (number and hash)
            (r0 :: rs).foldl (fun ob r => match ob with
              | none => none
              | some b =>
                if r.bnum != r0.bnum then none
                else (setHash b r.bhash).map fun b => withTx b r.tx fun t => { t with logs := r.logs, fromRcpt := true })
              (setHash b r0.bhash)) with
          | none => none
          | some bs' => go rest (i + 1) bs'
    go es 0 bs

/-- group in first-occurrence order (the code ranges over a map; order is compared as a set) -/
def groupKeys (is : List Item) : List (Nat × Nat) := (is.map fun i => (i.bnum, i.tx)).eraseDups

/-- `logs()` -/
def applyLogs (start limit : Nat) (h : El Hdr) (l : El (List Item)) (n : Nat) (bs : List Block) : Option (List Block) :=
  if n != 2 then none
  else match h, l with
  | .error, _ => none
  | _, .error => none
  | .null, _ => none
  | _, .null => none
  | .val hd, .val items =>
    -- the accompanying header is the block we hold for toBlock
    let bs1 : Option (List Block) :=
      if bs.any (·.num == start + limit - 1) then updBlock bs (start + limit - 1) (fun b => setHash b hd.hash) else some bs
    match bs1 with
    | none => none
    | some bs1 =>
      if items.any (fun i => i.bnum < start || i.bnum ≥ start + limit) then none
      else
        (groupKeys items).foldl (fun acc k => match acc with
          | none => none
          | some bs =>
            let grp := items.filter fun i => i.bnum == k.1 && i.tx == k.2
            match grp with
            | [] => some bs
            | i0 :: _ =>
              updBlock bs k.1 fun b =>
                match grp.foldl (fun ob i => match ob with
                    | none => none
                    | some b => setHash b i.bhash) (setHash b i0.bhash) with
                | none => none
                | some b => some (withTx b k.2 fun t =>
                    { t with logs := grp.foldl (fun ls i => if ls.contains i.idx then ls else ls ++ [i.idx]) t.logs }))
          (some bs1)

/-- `traces()` for one block -/
def applyTraces (want : Nat) (e : El (List Item)) (bs : List Block) : Option (List Block) :=
  match e with
  | .error => none
  | .null => none
  | .val [] => some bs
  | .val (i0 :: is) =>
    if i0.bnum != want then none
    else updBlock bs i0.bnum fun b =>
      match (i0 :: is).foldl (fun ob i => match ob with
          | none => none
          | some b => if i.bnum != i0.bnum then none else setHash b i.bhash) (setHash b i0.bhash) with
      | none => none
      | some b => some (((i0 :: is).map (·.tx)).eraseDups.foldl (fun b tx =>
          withTx b tx fun t => { t with traces := ((i0 :: is).filter (·.tx == tx)).length }) b)

/-- `Client.Get(filter, start, limit)` over the exchanges the node answered, in request order -/
def get (p : Plan) (start limit : Nat) (xs : List Exch) : Option (List Block) :=
  -- blocks / headers / bare numbers
  let base : Option (List Block × List Exch) :=
    if p.blocks || p.headers then
      match xs with
      | .headers es :: rest => (validate start limit es).map (·, rest)
      | _ => none
    else some ((List.range limit).map (fun i => ({ num := start + i } : Block)), xs)
  match base with
  | none => none
  | some (bs, xs) =>
    let second : Option (List Block × List Exch) :=
      if p.receipts then
        match xs with
        | .receipts es :: rest => (applyReceipts start limit es bs).map (·, rest)
        | _ => none
      else if p.logs then
        match xs with
        | .logs h l n :: rest => (applyLogs start limit h l n bs).map (·, rest)
        | _ => none
      else some (bs, xs)
    match second with
    | none => none
    | some (bs, xs) =>
      if p.traces then
        let rec go : Nat → List Exch → List Block → Option (List Block)
          | 0, _, bs => some bs
          | k + 1, xs, bs =>
            match xs with
            | .traces e :: rest =>
              match applyTraces (start + (limit - (k + 1))) e bs with
              | none => none
              | some bs' => go k rest bs'
            | _ => none
        go limit xs bs
      else some bs

end Shovel.Rpc
