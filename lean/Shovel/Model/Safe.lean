import Shovel.Model.Basic
/-
  Model of wstrings.Safe (property C15): every rune must be a letter, a digit, '_' or '-'.
  `unicode.IsLetter` / `unicode.IsDigit` are modelled exactly on ASCII; beyond ASCII they are an
  opaque character class `uni` (a parameter) — the standard library's tables are not verified.
-/
namespace Shovel.Safe

def asciiLetter (c : Nat) : Bool := (65 ≤ c && c ≤ 90) || (97 ≤ c && c ≤ 122)
def asciiDigit (c : Nat) : Bool := 48 ≤ c && c ≤ 57

/-- the identifier characters -/
def identChar (uni : Nat → Bool) (c : Nat) : Bool :=
  if c < 128 then asciiLetter c || asciiDigit c || c == 95 || c == 45 else uni c

/-- `wstrings.Safe(s) == nil` over the runes of `s` -/
def safe (uni : Nat → Bool) (s : List Nat) : Bool := s.all (identChar uni)

/-- characters with a meaning in SQL text: quotes, semicolon, parentheses, whitespace, comment and
    operator characters, NUL, dollar, backslash … (all of ASCII that is not an identifier character) -/
def sqlMeta (c : Nat) : Bool := c < 128 && !(asciiLetter c || asciiDigit c || c == 95 || c == 45)

end Shovel.Safe
