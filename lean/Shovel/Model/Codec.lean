import Shovel.Model.Basic
/-
  Model of the wire codecs (property C17):
    eth/types.go   decode, Uint64.UnmarshalJSON, Bytes.UnmarshalJSON, Bytes.Write
    bint/bint.go   Encode, Decode, size
  Bytes are `Nat` < 256; a JSON token is the byte list handed to UnmarshalJSON.
  uint64 arithmetic is made explicit with `% 2^64`.
-/
namespace Shovel.Codec

abbrev U64 : Nat := 2 ^ 64

/-- `eth.decode` (after the fix): every character must be a hex digit, and the value must fit
    in 64 bits (`res>>60 != 0` before shifting ⇒ error). Loop state is `res`. -/
def decodeLoop : List Nat → Nat → Res Nat
  | [], res => .ok res
  | c :: cs, res =>
    match hexDigitVal c with
    | none => .err
    | some nib =>
      if res / 2 ^ 60 ≠ 0 then .err
      else decodeLoop cs (((res <<< 4) % U64) ||| nib)

def decode (b : List Nat) : Res Nat := decodeLoop b 0

/-- Go `data[a:b]` on a slice of length `n = data.length` (cap = len for freshly lexed tokens):
    panics unless `a ≤ b ≤ n`. -/
def slice (data : List Nat) (a b : Nat) : Res (List Nat) :=
  if a ≤ b ∧ b ≤ data.length then .ok ((data.take b).drop a) else .panic

/-- `Uint64.UnmarshalJSON`: `len(data) < 4` ⇒ error; strip first and last byte, then two more. -/
def uint64Unmarshal (data : List Nat) : Res Nat :=
  if data.length < 4 then .err
  else do
    let d1 ← slice data 1 (data.length - 1)
    let d2 ← slice d1 2 d1.length
    decode d2

/-- `encoding/hex.Decode(dst, src)`: odd length ⇒ ErrLength *after* decoding the pairs; any bad
    character ⇒ error. We only need ok/err and the decoded bytes. -/
def hexDecodePairs : List Nat → Res (List Nat)
  | [] => .ok []
  | [c] => match hexDigitVal c with   -- Go checks the dangling char first: InvalidByte or ErrLength
           | _ => .err
  | a :: b :: rest =>
    match hexDigitVal a, hexDigitVal b with
    | some x, some y =>
      match hexDecodePairs rest with
      | .ok r => .ok ((x * 16 + y) :: r)
      | e => e
    | _, _ => .err

/-- `Bytes.UnmarshalJSON` into a destination currently holding `old`.  The destination is first
    resized to `len(data)/2` bytes (`append` zeros / re-slice), then `hex.Decode` overwrites it.
    On error the destination keeps the resized buffer with a decoded prefix (returned as well so
    the reuse property can talk about it). -/
def resize (old : List Nat) (n : Nat) : List Nat :=
  if old.length < n then old ++ List.replicate (n - old.length) 0 else old.take n

def bytesUnmarshal (old data : List Nat) : Res (List Nat) :=
  if data.length < 4 then .err
  else do
    let d1 ← slice data 1 (data.length - 1)
    let d2 ← slice d1 2 d1.length
    let buf := resize old (d2.length / 2)
    match hexDecodePairs d2 with
    | .ok r => .ok (r ++ buf.drop r.length)    -- hex.Decode overwrites dst[0:len(r)]
    | e => e

/-- `Bytes.Write(p)` into a destination holding `old`: resize then `copy`. -/
def bytesWrite (old p : List Nat) : List Nat :=
  let buf := resize old p.length
  p ++ buf.drop p.length

/-! ### bint -/

/-- `bint.size`: `for n > 0 { n >>= 8; s++ }`; `fuel` bounds the iterations (8 suffice for a uint64) -/
def sizeLoop : Nat → Nat → Nat → Nat     -- fuel, n, s
  | 0, _, s => s
  | fuel + 1, n, s => if n > 0 then sizeLoop fuel (n / 256) (s + 1) else s
def size (n : Nat) : Nat := if n = 0 then 1 else sizeLoop 8 n 0

/-- the loop `for i := len(b)-1; n > 0; i-- { b[i] = byte(n); n >>= 8 }`; the buffer is kept
    reversed (last index first); running off the front is an index panic. -/
def encodeLoop : List Nat → Nat → Res (List Nat)
  | rb, 0 => .ok rb
  | [], _ + 1 => .panic
  | _ :: rest, n + 1 =>
    match encodeLoop rest ((n + 1) / 256) with
    | .ok r => .ok ((n + 1) % 256 :: r)
    | e => e

/-- `bint.Encode(b, n)`; `b = none` is Go `nil`. -/
def encode (b : Option (List Nat)) (n : Nat) : Res (List Nat) :=
  let s := size n
  let buf := match b with | none => List.replicate s 0 | some b => b
  if s > buf.length then .panic
  else match encodeLoop buf.reverse n with
    | .ok r => .ok r.reverse
    | e => e

/-- `bint.Decode`: big-endian fold with uint64 wrap-around. -/
def bdecode (b : List Nat) : Nat := b.foldl (fun n x => ((n <<< 8) % U64 + x) % U64) 0

/-! ### eth/encoding.go: `DecodeUint64`, `EncodeUint64` (the block numbers of every request go through the latter) -/

/-- `strconv.ParseUint(s, 16, 64)`: the empty string, any character that is not a hex digit (no sign,
    no underscore: the base is explicit) and any value that does not fit 64 bits are errors -/
def parseUint16 (cs : List Nat) : Res Nat :=
  if cs.isEmpty then .err
  else if cs.all (fun c => (hexDigitVal c).isSome) then
    let v := cs.foldl (fun a c => a * 16 + (hexDigitVal c).getD 0) 0
    if v < U64 then .ok v else .err
  else .err

/-- `if len(s) >= 2 && s[0] == '0' && (s[1] == 'x' || s[1] == 'X') { s = s[2:] }` -/
def strip0xN : List Nat → List Nat
  | 48 :: 120 :: r => r
  | 48 :: 88 :: r => r
  | r => r

/-- `eth.DecodeUint64`: strip the prefix, put a `0` in front of an odd number of digits, `ParseUint`;
    an error PANICS (`panic(err)`) -/
def decodeUint64 (s : List Nat) : Res Nat :=
  let s := strip0xN s
  let s := if s.length % 2 == 1 then 48 :: s else s
  match parseUint16 s with
  | .ok n => .ok n
  | _ => .panic

def hexCode (d : Nat) : Nat := if d < 10 then 48 + d else 87 + d

/-- `strconv.FormatUint(n, 16)`: lower-case digits, no leading zero (`0` for zero); `fuel` = number of
    digits available (16 suffice for a uint64) -/
def fmtHex : Nat → Nat → List Nat
  | 0, _ => []
  | f + 1, n => if n < 16 then [hexCode n] else fmtHex f (n / 16) ++ [hexCode (n % 16)]

/-- `eth.EncodeUint64` -/
def encodeUint64 (n : Nat) : List Nat := 48 :: 120 :: fmtHex 16 n

end Shovel.Codec
