/-
  Shared basics for every model: the four-valued result of a Go computation and byte helpers.
  Core Lean only (no Mathlib) so that the driver links as a `lean_exe`.
-/
namespace Shovel

/-- Outcome of a modelled Go function: a value, a returned `error`, a run-time panic, or a read
    beyond `len` of a slice (legal in Go up to `cap`, but outside the *input*). -/
inductive Res (α : Type) where
  | ok (a : α)
  | err
  | panic
  | overread
  deriving DecidableEq, Repr

namespace Res
def bind {α β} (r : Res α) (f : α → Res β) : Res β :=
  match r with
  | .ok a => f a
  | .err => .err
  | .panic => .panic
  | .overread => .overread
instance : Monad Res where
  pure := .ok
  bind := bind
def isOk {α} : Res α → Bool | .ok _ => true | _ => false
def tag {α} : Res α → String
  | .ok _ => "ok" | .err => "err" | .panic => "panic" | .overread => "overread"
end Res

abbrev Byte := Nat   -- bytes are naturals < 256 (kept as Nat so `omega` applies)

def hexDigitVal (c : Nat) : Option Nat :=
  if 48 ≤ c ∧ c ≤ 57 then some (c - 48)
  else if 97 ≤ c ∧ c ≤ 102 then some (c - 97 + 10)
  else if 65 ≤ c ∧ c ≤ 70 then some (c - 65 + 10)
  else none

def hexChar (n : Nat) : Char :=
  if n < 10 then Char.ofNat (48 + n) else Char.ofNat (87 + n)

def hexOfBytes (bs : List Nat) : String :=
  String.ofList (bs.flatMap fun b => [hexChar (b / 16 % 16), hexChar (b % 16)])

def bytesOfHex? (s : String) : Option (List Nat) :=
  let rec go : List Char → Option (List Nat)
    | [] => some []
    | [_] => none
    | a :: b :: rest =>
      match hexDigitVal a.toNat, hexDigitVal b.toNat, go rest with
      | some x, some y, some r => some ((x * 16 + y) :: r)
      | _, _, _ => none
  go s.toList

end Shovel
