import Shovel.Gen.Locks
/-
  C18 — lock discipline of the code that touches state shared between goroutines.
  (1) `writesWithLocks`: from the regenerated lexical event sequences (Gen/Locks.lean), the set of
      mutexes held at every write of every listed function.
  (2) a trace semantics of threads with locks and fork/join, for the abstract theorem that a common
      lock orders two accesses by happens-before (`lockset_sound`, Props/C18.lean).
-/
namespace Shovel.Race
open Shovel.Gen.Locks

structure Scan where
  held : List String := []          -- mutexes currently held
  deferred : List String := []      -- mutexes released by a deferred Unlock (held to the end)
  stack : List (List String) := []  -- saved `held` at enclosing branch starts
  inGo : Bool := false
  out : List (String × List String × Bool) := []   -- (write target, locks held, inside a goroutine closure)
  rd : List (String × List String × Bool) := []    -- (read target, locks held, inside a goroutine closure)

def scanStep (s : Scan) : Ev → Scan
  | .lock m => { s with held := m :: s.held }
  | .unlock m => { s with held := s.held.erase m }
  | .deferUnlock m => { s with deferred := m :: s.deferred }
  | .write t => { s with out := s.out ++ [(t, s.held, s.inGo)] }
  | .read t => { s with rd := s.rd ++ [(t, s.held, s.inGo)] }
  | .atomicOp _ => s
  | .goStart => { s with inGo := true, stack := s.held :: s.stack, held := [] }   -- a new goroutine holds nothing
  | .goEnd => match s.stack with
    | h :: rest => { s with inGo := false, held := h, stack := rest }
    | [] => { s with inGo := false }
  | .branchStart => { s with stack := s.held :: s.stack }
  | .branchEnd => match s.stack with
    | h :: rest => { s with held := h, stack := rest }     -- an early-return branch does not affect the main path
    | [] => s
  | .recv _ => s                                            -- channel operations take and release no mutex
  | .send _ => s
  | .closeCh _ => s
  | .selectStart => s
  | .selectEnd => s

/-- (write target, mutexes held there, in goroutine closure) for one function -/
def writesWithLocks (evs : List Ev) : List (String × List String × Bool) :=
  (evs.foldl scanStep {}).out

def writesOf (fn : String) : List (String × List String × Bool) :=
  match events.find? (·.1 == fn) with
  | some e => writesWithLocks e.2
  | none => []

/-- every write of `fn` to a target with one of the given prefixes holds mutex `m`; and there is at least one -/
def guarded (fn : String) (prefixes : List String) (m : String) : Bool :=
  let ws := (writesOf fn).filter fun w => prefixes.any fun p => w.1.startsWith p
  !ws.isEmpty && ws.all fun w => w.2.1.contains m

/-- the recorded reads of one function with the mutexes held at each -/
def readsOf (fn : String) : List (String × List String × Bool) :=
  match events.find? (·.1 == fn) with
  | some e => (e.2.foldl scanStep {}).rd
  | none => []

/-- every recorded read of `fn` from a target with one of the given prefixes holds mutex `m`; and there is at least one -/
def guardedReads (fn : String) (prefixes : List String) (m : String) : Bool :=
  let rs := (readsOf fn).filter fun w => prefixes.any fun p => w.1.startsWith p
  !rs.isEmpty && rs.all fun w => w.2.1.contains m

/-! ### traces -/

inductive Op where
  | acq (l : Nat)
  | rel (l : Nat)
  | acc (x : Nat) (isWrite : Bool)
  | fork (child : Nat)
  | join (child : Nat)
  deriving DecidableEq, Repr

/-- an event: (thread, operation) -/
abbrev Event := Nat × Op
abbrev Trace := List Event

/-- who holds each lock after a prefix of the trace (`none` in the result = the trace is ill-formed:
    acquiring a held lock or releasing one not held by that thread) -/
def lockState : Trace → Option (List (Nat × Nat))      -- (lock, holder)
  | [] => some []
  | tr => tr.foldl (fun st e => match st with
      | none => none
      | some held =>
        match e.2 with
        | .acq l => if held.any (·.1 == l) then none else some ((l, e.1) :: held)
        | .rel l => if held.contains (l, e.1) then some (held.erase (l, e.1)) else none
        | _ => some held) (some [])

def WF (tr : Trace) : Prop := ∀ n, (lockState (tr.take n)).isSome

/-- locks thread `t` holds just before position `i` -/
def holds (tr : Trace) (i : Nat) (t l : Nat) : Prop :=
  ∃ h, lockState (tr.take i) = some h ∧ (l, t) ∈ h

end Shovel.Race
