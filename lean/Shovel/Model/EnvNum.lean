/-
  Model of `wos.EnvUint64.UnmarshalJSON` (wos/os.go): the decoder behind `start`, `stop` and
  `chain_id` of a source reference.

      if len(d) >= 2 && d[0] == '"' && d[len(d)-1] == '"' { d = d[1 : len(d)-1] }
      s := Getenv(string(d))            -- "$NAME" is replaced by the value of NAME (upper-cased);
                                        -- an unset / empty variable terminates the process
      n, err := strconv.ParseUint(s, 10, 64)

  Bytes are `Nat`s (0..255). `strconv.ParseUint(s, 10, 64)` accepts a non-empty string of the
  digits '0'..'9' whose value is below 2^64 — no sign, no prefix, no underscore, no blanks — and
  reads it in base ten.
-/
namespace Shovel.EnvNum

/-- the value of an ASCII decimal digit -/
def digit? (b : Nat) : Option Nat := if 48 ≤ b ∧ b ≤ 57 then some (b - 48) else none

/-- left-to-right accumulation, base ten; `none` on the first byte that is not a digit -/
def parseDec : List Nat → Nat → Option Nat
  | [], acc => some acc
  | b :: bs, acc =>
    match digit? b with
    | none => none
    | some d => parseDec bs (acc * 10 + d)

/-- `strconv.ParseUint(s, 10, 64)`: `none` = error (empty, a non-digit, or out of range) -/
def parseUint64 (s : List Nat) : Option Nat :=
  match s with
  | [] => none
  | _ =>
    match parseDec s 0 with
    | some n => if n < 2 ^ 64 then some n else none
    | none => none

/-- the quote stripping of `UnmarshalJSON` -/
def unquote (d : List Nat) : List Nat :=
  if 2 ≤ d.length ∧ d.head? = some 34 ∧ d.getLast? = some 34 then (d.drop 1).dropLast else d

inductive Out where
  | ok (n : Nat)
  | err
  | exit   -- `Getenv` terminates the process: the variable is unset or empty
  deriving Repr, DecidableEq

/-- `env` is the value of the variable the token names (upper-casing is done by the caller);
    it is consulted only when the unquoted token starts with `$` -/
def envUint64 (env : List Nat) (d : List Nat) : Out :=
  let s := unquote d
  let s' : Option (List Nat) :=
    match s with
    | 36 :: _ => if env = [] then none else some env
    | _ => some s
  match s' with
  | none => .exit
  | some t =>
    match parseUint64 t with
    | some n => .ok n
    | none => .err

end Shovel.EnvNum
