/-
  Model of config.ValidateFilterRefs (shovel/config/config.go): how the `Dependencies` of every
  integration are derived from the filter references of its event inputs and block fields.
  Core Lean only (linked into the driver).

  The code walks the integrations in declaration order; for each it walks first the (top level)
  event inputs, then the block fields; a reference with a non-empty integration name must name a
  declared integration and a column of that integration's table, otherwise the whole configuration
  is rejected; an accepted reference appends the referenced integration's name to the referencing
  integration's Dependencies (duplicates are kept: one entry per reference).
-/
namespace Shovel.Deps

/-- one filter reference as written in the configuration ("" = field left out) -/
structure Ref where
  integration : String
  column : String
  table : String := ""
  deriving Repr, DecidableEq, Inhabited

/-- what ValidateFilterRefs reads of one integration -/
structure Ig where
  name : String
  table : String
  columns : List String
  inputRefs : List Ref
  blockRefs : List Ref
  deriving Repr, Inhabited

inductive Chk where
  | dep (name : String)   -- accepted reference: one dependency entry
  | none                  -- no reference on this field
  | reject                -- the configuration is rejected
  deriving Repr, DecidableEq

/-- the table of the LAST integration declared with this name (the code fills a map in order) -/
def tableOf (igs : List Ig) (name : String) : Option String :=
  (igs.reverse.find? (fun g => g.name == name)).map (·.table)

/-- the column sets are merged per table name over all integrations -/
def colExists (igs : List Ig) (table col : String) : Bool :=
  igs.any (fun g => g.table == table && g.columns.contains col)

def check (igs : List Ig) (r : Ref) : Chk :=
  if r.integration ≠ "" then
    match tableOf igs r.integration with
    | none => .reject
    | some t =>
      if r.column = "" then .reject
      else if colExists igs t r.column then .dep r.integration else .reject
  else if r.table ≠ "" ∨ r.column ≠ "" then .reject
  else .none

def depsOfRefs (igs : List Ig) : List Ref → Option (List String)
  | [] => some []
  | r :: rs =>
    match check igs r with
    | .reject => none
    | .none => depsOfRefs igs rs
    | .dep n => (depsOfRefs igs rs).map (n :: ·)

def depsOfIg (igs : List Ig) (g : Ig) : Option (List String) :=
  depsOfRefs igs (g.inputRefs ++ g.blockRefs)

/-- result: per integration (in declaration order) its Dependencies; none = configuration rejected -/
def validateGo (igs : List Ig) : List Ig → Option (List (String × List String))
  | [] => some []
  | g :: gs =>
    match depsOfIg igs g with
    | none => none
    | some d => (validateGo igs gs).map ((g.name, d) :: ·)

def validate (igs : List Ig) : Option (List (String × List String)) := validateGo igs igs

end Shovel.Deps
