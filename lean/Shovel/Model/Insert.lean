import Shovel.Model.Row
import Shovel.Model.Abi
/-
  Model of `Integration.Insert` (dig/dig.go): the walk over the blocks of one batch, their
  transactions and — depending on the indexing mode chosen by `setIndexing` — the transaction itself,
  its trace actions or its logs, calling `processTx` / `processLog` (Model/Row.lean) for every item,
  with the ONE decoder (`ig.resultCache`, Model/Abi.lean `St`) that is reused for every log of every
  batch, and the first failing item aborting the whole call (no rows at all are handed to COPY).

  `logWithCtx.get` reads a field from the block, the transaction, the log or the trace action the
  walk currently points to; the model keeps those fields as association lists per level and
  concatenates them (`ctxAt`).  A field of a level the mode never sets (a log field in transaction
  mode: `lwc.l` is nil) makes the real code crash; such declarations are outside the domain of the
  theorems (`Shovel.Insert.fieldsAvail`).
-/
namespace Shovel.Insert
open Shovel.Row Shovel.Abi

inductive Mode where
  | tx | trace | log
  deriving DecidableEq, Repr

/-- `Integration.setIndexing`: transaction mode unless event inputs are selected (log mode); trace
    mode as soon as one selected column is a trace column -/
def setIndexing (numSelected numTraceSelected : Nat) : Mode :=
  if numTraceSelected > 0 then .trace else if numSelected > 0 then .log else .tx

structure ELog where
  fields : Ctx          -- log_idx, log_addr
  log : Log
  cap : Nat             -- capacity of the data slice (the JSON decoder's buffer)
  deriving Repr

structure ETx where
  fields : Ctx          -- tx_*
  logs : List ELog
  traces : List Ctx     -- trace_action_* of each action
  deriving Repr

structure EBlock where
  fields : Ctx          -- block_hash, block_num, block_time
  txs : List ETx
  deriving Repr

/-- the fields `lwc.get` can see at one item: innermost level first -/
def ctxAt (base : Ctx) (b : EBlock) (t : ETx) (item : Ctx) : Ctx := item ++ t.fields ++ b.fields ++ base

/-- the byte cells of the decoder's rows -/
def cellsOf (b : Buf) (s : St) : List (List (Option (List Nat))) :=
  s.rows.map fun row => row.map fun c => c.map fun (lo, hi) => (b.data.take hi).drop lo

/-- one log: `processLog`, with the scan it runs on the shared decoder when the gate lets the log
    through and the log has data -/
def logStep (refs : Refs) (d : Decl) (ty : Ty) (ctx : Ctx) (l : ELog) (s : St) : Res (List (List DVal) × St) :=
  if !gate (numIndexed d.inputs) d.sighash l.log then .ok ([], s)
  else if l.log.data.length > 0 then
    let b : Buf := ⟨l.log.data, l.cap⟩
    match resultScan b ty s with
    | .ok s' =>
      match processLog refs d ctx l.log (.ok (cellsOf b s')) with
      | .ok rows => .ok (rows, s')
      | .err => .err | .panic => .panic | .overread => .overread
    | .err => .err | .panic => .panic | .overread => .overread
  else
    match processLog refs d ctx l.log .err with       -- no scan on this path
    | .ok rows => .ok (rows, s)
    | .err => .err | .panic => .panic | .overread => .overread

def logsLoop (refs : Refs) (d : Decl) (ty : Ty) (ctx0 : Ctx) : List ELog → St → Res (List (List DVal) × St)
  | [], s => .ok ([], s)
  | l :: ls, s =>
    match logStep refs d ty (l.fields ++ ctx0) l s with
    | .ok (r1, s1) =>
      match logsLoop refs d ty ctx0 ls s1 with
      | .ok (r2, s2) => .ok (r1 ++ r2, s2)
      | .err => .err | .panic => .panic | .overread => .overread
    | .err => .err | .panic => .panic | .overread => .overread

def tracesLoop (refs : Refs) (d : Decl) (ctx0 : Ctx) : List Ctx → Res (List (List DVal))
  | [] => .ok []
  | ta :: tas =>
    match processTx refs d (ta ++ ctx0) with
    | .ok r1 =>
      match tracesLoop refs d ctx0 tas with
      | .ok r2 => .ok (r1 ++ r2)
      | .err => .err | .panic => .panic | .overread => .overread
    | .err => .err | .panic => .panic | .overread => .overread

/-- one transaction, by mode -/
def txStep (refs : Refs) (d : Decl) (ty : Ty) (mode : Mode) (ctx0 : Ctx) (t : ETx) (s : St) :
    Res (List (List DVal) × St) :=
  match mode with
  | .tx =>
    match processTx refs d (t.fields ++ ctx0) with
    | .ok r => .ok (r, s)
    | .err => .err | .panic => .panic | .overread => .overread
  | .trace =>
    match tracesLoop refs d (t.fields ++ ctx0) t.traces with
    | .ok r => .ok (r, s)
    | .err => .err | .panic => .panic | .overread => .overread
  | .log => logsLoop refs d ty (t.fields ++ ctx0) t.logs s

def txsLoop (refs : Refs) (d : Decl) (ty : Ty) (mode : Mode) (ctx0 : Ctx) : List ETx → St → Res (List (List DVal) × St)
  | [], s => .ok ([], s)
  | t :: ts, s =>
    match txStep refs d ty mode ctx0 t s with
    | .ok (r1, s1) =>
      match txsLoop refs d ty mode ctx0 ts s1 with
      | .ok (r2, s2) => .ok (r1 ++ r2, s2)
      | .err => .err | .panic => .panic | .overread => .overread
    | .err => .err | .panic => .panic | .overread => .overread

/-- `Integration.Insert`, up to the rows handed to COPY: all the rows of the batch in walk order and
    the decoder as the call leaves it, or the first failure (then nothing is written) -/
def insert (refs : Refs) (d : Decl) (ty : Ty) (mode : Mode) (base : Ctx) : List EBlock → St → Res (List (List DVal) × St)
  | [], s => .ok ([], s)
  | b :: bs, s =>
    match txsLoop refs d ty mode (b.fields ++ base) b.txs s with
    | .ok (r1, s1) =>
      match insert refs d ty mode base bs s1 with
      | .ok (r2, s2) => .ok (r1 ++ r2, s2)
      | .err => .err | .panic => .panic | .overread => .overread
    | .err => .err | .panic => .panic | .overread => .overread

end Shovel.Insert
