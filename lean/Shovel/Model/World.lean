import Shovel.Model.Basic
/-
  World model (properties C01–C06): `Task.Converge / latest / latestDependency / load / Delete /
  insert / update` of shovel/task.go over an abstract database and an answer script for the source.
  • The database is the COMMITTED state: cursor rows (shovel.task_updates) and destination rows.
  • The source is an answer script recorded from the real client during the same step (what
    `Latest`, `Hash` and each `Get(start, limit)` returned) — so this model is about Converge's own
    logic; the client is the subject of C07/C08.
  • A fault is a symbolic position in the step's database I/O sequence.
  Structural recursion / fuel only.
-/
namespace Shovel.World

structure Blk where
  num : Nat
  hash : String
  parent : String           -- "" when the plan fetched no header
  rows : List (String × String)   -- (unique-key, payload digest) of the rows this block projects
  deriving DecidableEq, Repr

structure Cur where
  src : String
  ig : String
  num : Nat
  hash : String
  deriving DecidableEq, Repr

structure TRow where
  table : String
  src : String
  ig : String
  blk : Nat
  key : String
  pay : String
  deriving DecidableEq, Repr

structure DB where
  cur : List Cur := []
  rows : List TRow := []
  deriving DecidableEq, Repr

structure Task where
  src : String
  ig : String
  table : String
  start : Nat
  stop : Nat
  batch : Nat
  conc : Nat
  deps : List String
  deriving DecidableEq, Repr

/-- answers of the source during one step -/
structure Script where
  latest : List (Option (Nat × String))          -- consumed in call order
  hash : List (Nat × Option String)              -- looked up by the requested block number, first match consumed
  gets : List ((Nat × Nat) × Option (List Blk))  -- looked up by (start, limit), first match consumed
  deriving Repr

/-- database I/O positions of a step (symbolic; the k-th occurrence where it repeats) -/
inductive Pos where
  | begin1 | qlatest (k : Nat) | qdeps (k : Nat) | delcur (k : Nat) | qprev (k : Nat) | delrows (k : Nat)
  | commit1 | begin2 | insert | update | commit2
  deriving DecidableEq, Repr

inductive Outcome where
  | ok (n : Nat)       -- advanced the position to n
  | done | nothingNew | ahead | reorgLimit
  | err                -- any I/O or source error: returned to the retry loop
  | panic
  deriving DecidableEq, Repr

def U64 : Nat := 2 ^ 64

/-! ### SQL semantics of the statements shovel issues -/

def DB.latestCur (db : DB) (src ig : String) : Option Cur :=
  (db.cur.filter fun c => c.src == src && c.ig == ig).foldl
    (fun best c => match best with
      | none => some c
      | some b => if c.num > b.num then some c else some b) none

/-- `delete from shovel.task_updates where src_name = $1 and ig_name = $2 and num >= $3` -/
def DB.delCur (db : DB) (src ig : String) (n : Nat) : DB :=
  { db with cur := db.cur.filter fun c => !(c.src == src && c.ig == ig && c.num ≥ n) }

/-- `delete from <table> where src_name = $1 and ig_name = $2 and block_num >= $3` -/
def DB.delRows (db : DB) (table src ig : String) (n : Nat) : DB :=
  { db with rows := db.rows.filter fun r => !(r.table == table && r.src == src && r.ig == ig && r.blk ≥ n) }

/-- `latestDependency`: per dependency the newest position; all must exist; the smallest counts -/
def DB.depTarget (db : DB) (src : String) (deps : List String) : Option (Nat × String) :=
  let uniq := deps.eraseDups
  let found := uniq.filterMap fun d => db.latestCur src d
  if found.length < uniq.length then none
  else found.foldl (fun best c => match best with
      | none => some (c.num, c.hash)
      | some (n, h) => if c.num < n then some (c.num, c.hash) else some (n, h)) none

/-! ### the step -/

structure St where
  db : DB            -- committed
  view : DB          -- what the open transaction sees (committed + own pending effects)
  script : Script
  nLatest : Nat := 0   -- occurrence counters of repeated I/O positions
  nDeps : Nat := 0
  nDel : Nat := 0
  deriving Repr

def takeLatest (s : St) : Option (Option (Nat × String)) × St :=
  match s.script.latest with
  | [] => (none, s)
  | a :: rest => (some a, { s with script := { s.script with latest := rest } })

def takeHash (s : St) (n : Nat) : Option (Option String) × St :=
  match s.script.hash.find? (fun g => g.1 == n) with
  | none => (none, s)
  | some g => (some g.2, { s with script := { s.script with hash := s.script.hash.erase g } })

def takeGet (s : St) (start limit : Nat) : Option (Option (List Blk)) × St :=
  match s.script.gets.find? (fun g => g.1 == (start, limit)) with
  | none => (none, s)
  | some g => (some g.2, { s with script := { s.script with gets := s.script.gets.erase g } })

/-- the partition ranges `load` spawns (uint64 arithmetic as in the code) -/
def parts (batch conc start limit : Nat) : List (Nat × Nat) :=
  let part := max 1 (batch / conc)
  (List.range conc).filterMap fun i =>
    let m := (start + i * part) % U64
    let n := min part ((limit + U64 - (i * part) % U64) % U64)     -- limit - uint64(i*part), wrapping
    if m > start + limit ∨ n = 0 then none else some (m, n)

def insertSorted (b : Blk) : List Blk → List Blk
  | [] => [b]
  | x :: xs => if b.num < x.num then b :: x :: xs else x :: insertSorted b xs

def sortBlks (bs : List Blk) : List Blk := bs.foldl (fun acc b => insertSorted b acc) []

inductive LoadRes where
  | blocks (bs : List Blk) | reorg | err | panic | scriptEnd
  deriving Repr

/-- the merged partitions form one chain: every block that carries a parent hash names the hash of
    the block before it (32 bytes = 64 hex digits; blocks of plans without headers carry none) -/
def linked : List Blk → Bool
  | a :: b :: rest =>
    (b.parent.length != 64 || a.hash.length != 64 || b.parent == a.hash) && linked (b :: rest)
  | _ => true

/-- `load`: fetch all partitions (any failure fails the load), sort, check that the partitions link
    up with each other, compare the parent link of the first block with the recorded hash -/
def load (t : Task) (s : St) (localHash : String) (start limit : Nat) : LoadRes × St :=
  let rec go : List (Nat × Nat) → St → List Blk → Bool → Bool → (List Blk × Bool × Bool × St)
    | [], s, acc, e, se => (acc, e, se, s)
    | (m, n) :: rest, s, acc, e, se =>
      match takeGet s m n with
      | (none, s') => go rest s' acc e true
      | (some none, s') => go rest s' acc true se
      | (some (some bs), s') => go rest s' (acc ++ bs) e se
  let (bs, e, se, s') := go (parts t.batch t.conc start limit) s [] false false
  if se then (.scriptEnd, s')
  else if e then (.err, s')
  else
    let bs := sortBlks bs
    match bs with
    | [] => (.panic, s')                                   -- blocks[0] on an empty slice
    | first :: _ =>
      if !linked bs then (.err, s')                         -- partitions from different forks
      else if first.parent.length == 64 && first.parent != localHash then (.reorg, s')   -- 32 bytes = 64 hex digits
      else (.blocks bs, s')

structure Result where
  outcome : Outcome
  db : DB
  mid : Option DB := none      -- the state committed by the first transaction, when it committed
  scriptOk : Bool := true      -- false: the recorded script did not match the calls the model makes
  deriving Repr

/-- does the fault strike at this position? -/
def hit (fault : Option Pos) (p : Pos) : Bool := fault == some p

/-- `Converge`. `fuel` is the code's own bound on the reorg loop (1001 iterations). -/
def converge (t : Task) (db : DB) (script : Script) (fault : Option Pos) : Result :=
  if hit fault .begin1 then { outcome := .err, db := db }
  else
    let rec loop : Nat → St → Result
      | 0, s => { outcome := .reorgLimit, db := s.db }
      | fuel + 1, s =>
        -- latest(): newest recorded position, else derived from the configuration and the source
        let k := s.nLatest
        let s := { s with nLatest := k + 1 }
        if hit fault (.qlatest k) then { outcome := .err, db := s.db }
        else
          let localRes : Option (Option (Nat × String)) × St :=
            match s.view.latestCur t.src t.ig with
            | some c => (some (some (c.num, c.hash)), s)
            | none =>
              if t.start > 0 then
                match takeHash s (t.start - 1) with
                | (none, s') => (none, s')
                | (some none, s') => (some none, s')
                | (some (some h), s') => (some (some (t.start - 1, h)), s')
              else
                match takeLatest s with
                | (none, s') => (none, s')
                | (some none, s') => (some none, s')
                | (some (some (n, _)), s') =>
                  match takeHash s' ((n + U64 - 1) % U64) with
                  | (none, s'') => (none, s'')
                  | (some none, s'') => (some none, s'')
                  | (some (some h), s'') => (some (some ((n + U64 - 1) % U64, h)), s'')
          match localRes with
          | (none, s) => { outcome := .err, db := s.db, scriptOk := false }
          | (some none, s) => { outcome := .err, db := s.db }
          | (some (some (localNum, localHash)), s) =>
            if t.stop > 0 ∧ localNum ≥ t.stop then { outcome := .done, db := s.db }
            else
              match takeLatest s with
              | (none, s) => { outcome := .err, db := s.db, scriptOk := false }
              | (some none, s) => { outcome := .err, db := s.db }
              | (some (some (gethNum, _)), s) =>
                -- dependencies
                let kd := s.nDeps
                let depStep : Option (Option Nat) × St :=      -- none: fault; some none: nothing new
                  if t.deps.isEmpty then (some (some gethNum), s)
                  else
                    let s := { s with nDeps := kd + 1 }
                    if hit fault (.qdeps kd) then (none, s)
                    else match s.view.depTarget t.src t.deps with
                      | none => (some none, s)
                      | some (dn, _) => if dn == 0 then (some none, s) else (some (some (if dn < gethNum then dn else gethNum)), s)
                match depStep with
                | (none, s) => { outcome := .err, db := s.db }
                | (some none, s) => { outcome := .nothingNew, db := s.db }
                | (some (some target0), s) =>
                  let target := if t.stop > 0 ∧ target0 > t.stop then t.stop else target0
                  if localNum > target then { outcome := .ahead, db := s.db }
                  else if localNum == target then { outcome := .nothingNew, db := s.db }
                  else
                    let delta := min (target - localNum) t.batch
                    if delta == 0 then { outcome := .nothingNew, db := s.db }
                    else
                      match load t s localHash (localNum + 1) delta with
                      | (.scriptEnd, s) => { outcome := .err, db := s.db, scriptOk := false }
                      | (.err, s) => { outcome := .err, db := s.db }
                      | (.panic, s) => { outcome := .panic, db := s.db }
                      | (.reorg, s) =>
                        -- Task.Delete(localNum): cursor rows, previous position, destination rows
                        let kk := s.nDel
                        let s := { s with nDel := kk + 1 }
                        if hit fault (.delcur kk) then { outcome := .err, db := s.db }
                        else
                          let v1 := s.view.delCur t.src t.ig localNum
                          if hit fault (.qprev kk) then { outcome := .err, db := s.db }
                          else
                            let n := match v1.latestCur t.src t.ig with
                              | some c => min localNum (c.num + 1)
                              | none => if t.start > 0 then min localNum t.start else localNum
                            if hit fault (.delrows kk) then { outcome := .err, db := s.db }
                            else loop fuel { s with view := v1.delRows t.table t.src t.ig n }
                      | (.blocks bs, s) =>
                        if hit fault .commit1 then { outcome := .err, db := s.db }
                        else
                          let db1 := s.view                                  -- first transaction commits
                          if hit fault .begin2 then { outcome := .err, db := db1, mid := some db1 }
                          else if hit fault .insert then { outcome := .err, db := db1, mid := some db1 }
                          else
                            let newRows := bs.flatMap fun b => b.rows.map fun (k, p) =>
                              ({ table := t.table, src := t.src, ig := t.ig, blk := b.num, key := k, pay := p } : TRow)
                            -- unique index of the destination table
                            let clash := newRows.any (fun r => db1.rows.any fun o => o.table == r.table && o.key == r.key) ||
                              !(newRows.map (·.key)).eraseDups.length == newRows.length
                            if clash then { outcome := .err, db := db1, mid := some db1 }
                            else if hit fault .update then { outcome := .err, db := db1, mid := some db1 }
                            else
                              match bs.getLast? with
                              | none => { outcome := .panic, db := db1, mid := some db1 }
                              | some last =>
                                let c : Cur := { src := t.src, ig := t.ig, num := last.num, hash := last.hash }
                                if db1.cur.any (fun o => o.src == c.src && o.ig == c.ig && o.num == c.num) then
                                  { outcome := .err, db := db1, mid := some db1 }            -- unique (ig, src, num)
                                else if hit fault .commit2 then { outcome := .err, db := db1, mid := some db1 }
                                else { outcome := .ok last.num, db := { cur := db1.cur ++ [c], rows := db1.rows ++ newRows }, mid := some db1 }
    loop 1001 { db := db, view := db, script := script }

/-! ### `PruneTask` (shovel/task.go), run every ten minutes next to the indexing steps -/

/-- `delete from shovel.task_updates where (src_name, ig_name, num) not in (select … row_number()
    over (partition by src_name, ig_name order by num desc) … where rn <= $1)`: for every
    (source, integration) pair keep the `n` recorded positions with the largest numbers — a position
    stays iff fewer than `n` positions of its own pair carry a larger number (numbers are unique
    within a pair by the table's unique index, so `row_number` has no ties to break). -/
def prune (n : Nat) (db : DB) : DB :=
  let keep (c : Cur) : Bool :=
    ((db.cur.filter fun o => o.src == c.src && o.ig == c.ig && o.num > c.num).length < n)
  { db with cur := db.cur.filter keep }

end Shovel.World
