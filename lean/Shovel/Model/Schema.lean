import Shovel.Gen.Config
/-
  Model of the schema side of shovel/config/config.go and wpg/pg.go (property C16):
    Integration.AddRequiredFields, AddUniqueIndex, union (shared tables), ValidateColRefs.
  The identity-column list `possible` and the `add(...)` calls are GENERATED from the source.
-/
namespace Shovel.Schema

structure Ig where
  block : List (String × String)        -- BlockData (name, column)
  cols : List String                    -- table column names, in order
  selInputs : List (Bool × String)      -- selected event inputs: (indexed, column)
  notify : List String := []
  unique : List (List String) := []
  deriving DecidableEq, Repr

/-- does the guard of an `add` call hold for this integration? (guards as extracted) -/
def guardHolds (ig : Ig) (g : String) : Bool :=
  if g == "" then true
  else if g == "if:len(ig.Event.Selected()) > 0" then !ig.selInputs.isEmpty
  else if g == "range:ig.Event.Selected() if:!inp.Indexed" then ig.selInputs.any (fun p => !p.1)
  else if g == "range:ig.Block if:strings.HasPrefix(bd.Name, \"trace_\")" then ig.block.any (fun p => p.1.startsWith "trace_")
  else false      -- an unknown guard: treated as never adding (the theorems then fail, as they should)

/-- `add(name, type)` -/
def addField (ig : Ig) (name : String) : Ig :=
  let ig := if ig.block.any (·.1 == name) then ig else { ig with block := ig.block ++ [(name, name)] }
  if ig.cols.contains name then ig else { ig with cols := ig.cols ++ [name] }

/-- `AddRequiredFields`; the trace guard ranges over `ig.Block` as it is at that point -/
def addRequired (ig : Ig) : Ig :=
  Shovel.Gen.Config.required.foldl (fun ig r => if guardHolds ig r.2.2 then addField ig r.1 else ig) ig

/-- `AddUniqueIndex` -/
def addUnique (ig : Ig) : Ig :=
  if !ig.unique.isEmpty then ig
  else
    let u := Shovel.Gen.Config.possible.filter ig.cols.contains
    if u.isEmpty then ig else { ig with unique := [u] }

/-- `ValidateColRefs` (the column-existence part) -/
def colRefsOK (ig : Ig) : Bool :=
  ig.cols.eraseDups.length == ig.cols.length &&
  ig.selInputs.all (fun p => ig.cols.contains p.2) &&
  ig.block.all (fun p => !p.2.isEmpty && ig.cols.contains p.2) &&
  ig.notify.all ig.cols.contains

/-- columns the integration writes with COPY (`Integration.Columns`) -/
def written (ig : Ig) : List String := ig.selInputs.map (·.2) ++ ig.block.map (·.2)

/-- `union(a, b)` of two tables sharing a name -/
def union (a b : List String) : List String := a ++ b.filter (fun c => !a.contains c)

/-- identity of an emitted row: which item it came from -/
structure RowId where
  blk : Nat
  tx : Nat
  log : Nat := 0
  abi : Nat := 0
  trace : Nat := 0
  deriving DecidableEq, Repr

inductive KeyVal where
  | s (v : String)
  | n (v : Nat)
  deriving DecidableEq, Repr

/-- value of an identity column for a row (`none` = the integration does not write it: NULL) -/
def keyCol (ig : Ig) (src name : String) (igName : String) (r : RowId) : Option KeyVal :=
  if !(ig.block.any (·.1 == name)) then none
  else if name == "ig_name" then some (.s igName)
  else if name == "src_name" then some (.s src)
  else if name == "block_num" then some (.n r.blk)
  else if name == "tx_idx" then some (.n r.tx)
  else if name == "log_idx" then some (.n r.log)
  else if name == "abi_idx" then some (.n r.abi)
  else if name == "trace_action_idx" then some (.n r.trace)
  else none

end Shovel.Schema
