import Shovel.Model.AbiType
/-
  Model of the row builder of dig/dig.go (properties C11, C12, C13):
    setCols (column order, topic positions), dbtype, Filter.Accept, filterResults,
    processLog (gate, data / no-data paths), processTx, Integration.Filter / pushAddrs.
  Values handed to COPY are `DVal`; strings are byte lists.
-/
namespace Shovel.Row
open Shovel.Abi

/-- the dynamic Go values a row cell / filter operand can be -/
inductive DVal where
  | bytes (b : List Nat)
  | str (s : List Nat)
  | u64 (n : Nat)
  | u256 (n : Nat)
  | neg (n : Int)        -- *negInt: a two's-complement 256-bit value rendered with sign
  | bool (b : Bool)
  | byte (n : Nat)       -- eth.Byte (tx_type, tx_status): no filter case
  | int (n : Nat)        -- abi_idx
  | null
  deriving DecidableEq, Repr

structure Filter where
  op : String := ""
  args : List String := []
  refTable : String := ""
  refInteg : String := ""
  refCol : String := ""
  deriving DecidableEq, Repr

def Filter.active (f : Filter) : Bool := !(f.args.isEmpty && f.refInteg.isEmpty)

/-- `filterResults` -/
structure Frs where
  kind : String
  set : Bool := false
  val : Bool := false
  deriving DecidableEq, Repr

def Frs.add (fr : Frs) (b : Bool) : Frs :=
  if !fr.set then { fr with set := true, val := b }
  else if fr.kind == "and" then { fr with val := fr.val && b }
  else { fr with val := fr.val || b }

def Frs.accept (fr : Frs) : Bool := if !fr.set then true else fr.val

/-- `eth.DecodeHex` on a well-formed hex string (optional 0x, odd length padded) -/
def decodeHexStr (s : String) : List Nat :=
  let cs := s.toList
  let cs := match cs with
    | '0' :: 'x' :: r => r
    | '0' :: 'X' :: r => r
    | r => r
  let cs := if cs.length % 2 == 1 then '0' :: cs else cs
  let rec go : List Char → List Nat
    | a :: b :: rest =>
      match hexDigitVal a.toNat, hexDigitVal b.toNat with
      | some x, some y => (x * 16 + y) :: go rest
      | _, _ => []                      -- hex.DecodeString stops at the first bad byte
    | _ => []
  go cs

/-- `bytes.Contains(v, sub)` -/
def isInfix (sub v : List Nat) : Bool :=
  let rec go : List Nat → Bool
    | [] => sub.isEmpty
    | x :: xs => sub.isPrefixOf (x :: xs) || go xs
  go v

def parseDec (s : String) : Option Nat :=
  if s.isEmpty then none
  else s.toList.foldl (fun acc c => match acc with
    | none => none
    | some n => if c.isDigit then some (n * 10 + (c.toNat - 48)) else none) (some 0)

/-- reference tables: (table, column) ↦ stored byte strings -/
abbrev Refs := List (String × String × List (List Nat))

def Refs.has (r : Refs) (t c : String) (v : List Nat) : Bool :=
  r.any fun (t', c', vs) => t' == t && c' == c && vs.contains v

/-- `Filter.Accept(d, frs)`: returns the updated aggregate, an error, or a panic (index out of range) -/
def accept (refs : Refs) (f : Filter) (d : DVal) (frs : Frs) : Res Frs :=
  if !f.active then .ok frs
  else match d with
  | .bytes v =>
    if f.op.endsWith "contains" then
      let res := if !f.refTable.isEmpty then refs.has f.refTable f.refCol v
                 else f.args.any fun a => isInfix (decodeHexStr a) v
      let res := if f.op.startsWith "!" then !res else res
      .ok ((frs.add res).add res)
    else if f.op == "eq" || f.op == "ne" then
      let res := f.args.any fun a => v == decodeHexStr a
      let res := if f.op == "ne" then !res else res
      .ok (frs.add res)
    else .ok (frs.add true)
  | .str v =>
    let eqs (a : String) : Bool := a.toUTF8.toList.map (·.toNat) == v
    if f.args.isEmpty then .err            -- "filter on string requires filter_arg"
    else if f.op == "contains" then .ok (frs.add (f.args.any eqs))
    else if f.op == "!contains" then .ok (frs.add (!f.args.any eqs))
    else if f.op == "eq" then match f.args with
      | a :: _ => .ok (frs.add (eqs a))
      | [] => .err
    else if f.op == "ne" then match f.args with
      | a :: _ => .ok (frs.add (!eqs a))
      | [] => .err
    else .ok frs
  | .u64 v =>
    match f.args with
    | [] => .err
    | a :: _ =>
      match parseDec a with
      | none => .err
      | some i =>
        if i ≥ 2 ^ 64 then .err
        else if f.op == "eq" then .ok (frs.add (v == i))
        else if f.op == "ne" then .ok (frs.add (v != i))
        else if f.op == "gt" then .ok (frs.add (decide (v > i)))
        else if f.op == "lt" then .ok (frs.add (decide (v < i)))
        else .ok frs
  | .u256 v =>
    match f.args with
    | [] => .err
    | a :: _ =>
      match parseDec a with
      | none => .err
      | some i =>
        if i ≥ 2 ^ 256 then .err
        else if f.op == "eq" then .ok (frs.add (v == i))
        else if f.op == "ne" then .ok (frs.add (v != i))
        else if f.op == "gt" then .ok (frs.add (decide (v > i)))
        else if f.op == "lt" then .ok (frs.add (decide (v < i)))
        else .ok frs
  | _ => .ok frs

/-! ### dbtype -/

def beVal (bs : List Nat) : Nat := bs.foldl (fun n x => n * 256 + x) 0

/-- `uint256.SetBytes`: the value of the last ≤ 32 bytes -/
def setBytes (d : List Nat) : Nat := beVal (d.drop (d.length - 32))

def dbtype (abitype : List Char) (d : List Nat) : DVal :=
  let base := beforeBracket abitype
  if hasPrefix "int".toList base then
    let x := setBytes d
    .neg (if x ≥ 2 ^ 255 then (x : Int) - 2 ^ 256 else x)
  else if hasPrefix "uint".toList base then .u256 (setBytes d)
  else if hasPrefix "address".toList base then
    (if d.length == 32 then .bytes (d.drop 12) else .bytes d)
  else if base == "bool".toList then
    (if d.length == 32 then .bool (d.getD 31 0 == 1) else .bool false)
  else if base == "string".toList then .str d
  else .bytes d

/-! ### declarations -/

inductive ColDef where
  | input (indexed : Bool) (topic : Nat) (ty : List Char) (flt : Filter)
  | block (name : String) (flt : Filter)
  deriving Repr

mutual
/-- `Input.Selected()`: selected components first (depth first), then the input itself -/
def selOf : Inp → List (Bool × List Char)
  | .mk ix sel ty comps => selsOf comps ++ (if sel then [(ix, ty)] else [])
def selsOf : Inps → List (Bool × List Char)
  | .nil => []
  | .cons i is => selOf i ++ selsOf is
end

/-- `setCols`, event part: walk the top-level inputs keeping the running count of indexed ones;
    every selected input under a top-level input gets that input's topic position -/
def inputCols : Inps → Nat → List (Bool × Nat × List Char)
  | .nil, _ => []
  | .cons i rest, topic =>
    let topic' := if i.indexed then topic + 1 else topic
    (selOf i).map (fun (ix, ty) => (ix, topic', ty)) ++ inputCols rest topic'

structure Decl where
  inputs : Inps
  inputFilters : List Filter            -- aligned with Event.Selected()
  block : List (String × Filter)        -- BlockData in order (after AddRequiredFields)
  agg : String
  sighash : List Nat

def Decl.coldefs (d : Decl) : List ColDef :=
  let ins := inputCols d.inputs 0
  (ins.zipIdx.map fun ((ix, tp, ty), k) => ColDef.input ix tp ty (d.inputFilters.getD k {})) ++
  d.block.map fun (n, f) => ColDef.block n f

def Decl.numSelected (d : Decl) : Nat := (inputCols d.inputs 0).length

/-- item context: field name ↦ value (`logWithCtx.get`) -/
abbrev Ctx := List (String × DVal)
def Ctx.get (c : Ctx) (n : String) : DVal := match c.find? (·.1 == n) with | some p => p.2 | none => .null

structure Log where
  topics : List (List Nat)
  data : List Nat
  deriving Repr

/-- build one row over the coldefs; `cells` = decoded data cells of this result row (none on the
    no-data path); returns the row and the filter aggregate -/
def buildRow (refs : Refs) (ctx : Ctx) (lg : Log) (abiIdx : Option Nat) :
    List ColDef → List (Option (List Nat)) → Frs → Res (List DVal × Frs)
  | [], _, frs => .ok ([], frs)
  | .input true topic ty flt :: rest, cells, frs =>
    match lg.topics[topic]? with
    | none => .panic
    | some t =>
      let d := dbtype ty t
      match accept refs flt d frs with
      | .ok frs' => match buildRow refs ctx lg abiIdx rest cells frs' with
        | .ok (r, f) => .ok (d :: r, f)
        | .err => .err | .panic => .panic | .overread => .overread
      | .err => .err | .panic => .panic | .overread => .overread
  | .block name flt :: rest, cells, frs =>
    if name == "abi_idx" && abiIdx.isSome then
      match buildRow refs ctx lg abiIdx rest cells frs with
      | .ok (r, f) => .ok (.int (abiIdx.getD 0) :: r, f)
      | e => e
    else
      let d := ctx.get name
      match accept refs flt d frs with
      | .ok frs' => match buildRow refs ctx lg abiIdx rest cells frs' with
        | .ok (r, f) => .ok (d :: r, f)
        | .err => .err | .panic => .panic | .overread => .overread
      | .err => .err | .panic => .panic | .overread => .overread
  | .input false _ ty flt :: rest, cells, frs =>
    match abiIdx with
    | none => .err                                    -- "no rows for un-indexed data"
    | some _ =>
      match cells with
      | [] => .panic                                  -- At(i)[actr] out of range
      | c :: cells' =>
        let d := dbtype ty (c.getD [])
        match accept refs flt d frs with
        | .ok frs' => match buildRow refs ctx lg abiIdx rest cells' frs' with
          | .ok (r, f) => .ok (d :: r, f)
          | .err => .err | .panic => .panic | .overread => .overread
        | .err => .err | .panic => .panic | .overread => .overread

/-- the gate of `processLog` (C13): topic count and signature hash -/
def gate (numIndexed : Nat) (sighash : List Nat) (lg : Log) : Bool :=
  decide ((lg.topics.length : Int) - 1 = numIndexed) && (lg.topics.headD [] == sighash)

/-- `processLog` for one log; `scanRows` = the decoded rows of the data (model of Result.Scan
    given as byte cells), or the scan outcome -/
def processLog (refs : Refs) (d : Decl) (ctx : Ctx) (lg : Log)
    (scanRows : Res (List (List (Option (List Nat))))) : Res (List (List DVal)) :=
  if !gate (numIndexed d.inputs) d.sighash lg then .ok []
  else if lg.data.length > 0 then
    match scanRows with
    | .ok rs =>
      let rec go : List (List (Option (List Nat))) → Nat → Res (List (List DVal))
        | [], _ => .ok []
        | cells :: more, i =>
          match buildRow refs ctx lg (some i) d.coldefs cells { kind := d.agg } with
          | .ok (row, frs) =>
            match go more (i + 1) with
            | .ok rows => .ok (if frs.accept then row :: rows else rows)
            | e => e
          | .err => .err | .panic => .panic | .overread => .overread
      go rs 0
    | .err => .err | .panic => .panic | .overread => .overread
  else
    match buildRow refs ctx lg none d.coldefs [] { kind := d.agg } with
    | .ok (row, frs) => .ok (if frs.accept then [row] else [])
    | .err => .err | .panic => .panic | .overread => .overread

/-- `processTx` (tx- and trace-indexing): only block-data coldefs -/
def processTx (refs : Refs) (d : Decl) (ctx : Ctx) : Res (List (List DVal)) :=
  if d.numSelected > 0 then .ok []
  else if d.block.isEmpty then .ok []
  else
    let rec go : List (String × Filter) → Frs → Res (List DVal × Frs)
      | [], frs => .ok ([], frs)
      | (name, flt) :: rest, frs =>
        let v := ctx.get name
        match accept refs flt v frs with
        | .ok frs' => match go rest frs' with
          | .ok (r, f) => .ok (v :: r, f)
          | e => e
        | .err => .err | .panic => .panic | .overread => .overread
    match go d.block { kind := d.agg } with
    | .ok (row, frs) => .ok (if frs.accept then [row] else [])
    | .err => .err | .panic => .panic | .overread => .overread

/-! ### server-side pre-filter (Integration.Filter / pushAddrs) -/

def Decl.activeFilters (d : Decl) : Nat :=
  ((d.coldefs.map fun c => match c with
    | .input _ _ _ f => f
    | .block _ f => f).filter Filter.active).length

/-- `pushAddrs` -/
def pushAddrs (d : Decl) (f : Filter) : Bool :=
  !f.args.isEmpty && f.refTable.isEmpty && (f.op == "contains" || f.op == "eq") &&
  f.args.all (fun a => (decodeHexStr a).length == 20) &&
  (d.agg == "and" || d.activeFilters == 1)

/-- the `address` restriction sent with eth_getLogs (as byte strings) -/
def pushedAddrs (d : Decl) : List (List Nat) :=
  d.block.flatMap fun (n, f) => if n == "log_addr" && pushAddrs d f then f.args.map decodeHexStr else []

end Shovel.Row
