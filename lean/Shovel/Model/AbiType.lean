import Shovel.Model.Abi
/-
  Model of the declaration side of dig/dig.go (C09 parser part, C13):
    Input.ABIType / parseArray / Event.ABIType  — type strings → `Ty` with column positions
    Input.Signature / Event.Signature           — canonical signature string
    Input.Selected / Event.Selected, numIndexed
-/
namespace Shovel.Abi

mutual
/-- `dig.Input` (name and filter omitted): `sel` = "has a column" -/
inductive Inp where
  | mk (indexed : Bool) (sel : Bool) (type : List Char) (comps : Inps)
inductive Inps where
  | nil
  | cons (i : Inp) (is : Inps)
end

def Inps.isEmpty : Inps → Bool
  | .nil => true
  | .cons _ _ => false

def Inp.indexed : Inp → Bool | .mk i _ _ _ => i
def Inp.sel : Inp → Bool | .mk _ s _ _ => s
def Inp.type : Inp → List Char | .mk _ _ t _ => t
def Inp.comps : Inp → Inps | .mk _ _ _ c => c

def hasPrefix (p s : List Char) : Bool := p.isPrefixOf s

/-- `strings.SplitN(s, "[", 2)[0]` -/
def beforeBracket (s : List Char) : List Char := s.takeWhile (· ≠ '[')

/-- `strconv.Atoi` on the digit strings the domain contains (anything else: the Go code panics) -/
def atoi (cs : List Char) : Option Nat :=
  if cs.isEmpty then none
  else cs.foldl (fun acc c => match acc with
    | none => none
    | some n => if c.isDigit then some (n * 10 + (c.toNat - 48)) else none) (some 0)

/-- `parseArray(elm, s)`; `fuel` only bounds the recursion (each call drops ≥ 2 characters). -/
def parseArray : Nat → Ty → List Char → Res Ty
  | 0, _, _ => .panic
  | fuel + 1, elm, s =>
    if !s.contains ']' then .ok elm
    else if s.length < 2 then .panic
    else
      -- `for i := len(s)-2; i != 0; i-- { if s[i]=='[' {break}; num = s[i] + num }`
      let body := (s.take (s.length - 1)).drop 1
      let num := (body.reverse.takeWhile (· ≠ '[')).reverse
      if num.isEmpty then
        match parseArray fuel elm (s.take (s.length - 2)) with
        | .ok e => .ok (.arr 0 e)
        | r => r
      else
        match atoi num with
        | none => .panic
        | some k =>
          if s.length < num.length + 2 then .panic
          else match parseArray fuel elm (s.take (s.length - num.length - 2)) with
            | .ok e => .ok (.arr k e)
            | r => r

def bytesP : List Char := "bytes".toList
def stringP : List Char := "string".toList
def tupleP : List Char := "tuple".toList

mutual
/-- `Input.ABIType(pos)` returning `(pos', type)` -/
def Inp.abiType (i : Inp) (pos : Nat) : Res (Nat × Ty) :=
  match i with
  | .mk _ sel type comps =>
    match comps with
    | .cons _ _ =>
      match Inps.abiTypes comps pos with
      | .ok (pos1, fs) =>
        -- tuple base: a column on the tuple itself consumes a position but selects nothing
        let pos2 := if sel then pos1 + 1 else pos1
        match parseArray (type.length + 1) (.tup fs) type with
        | .ok t => .ok (pos2, t)
        | .err => .err | .panic => .panic | .overread => .overread
      | .err => .err | .panic => .panic | .overread => .overread
    | .nil =>
      let s : Option Nat := if sel then some pos else none
      let base : Ty :=
        if hasPrefix bytesP type then (if beforeBracket type = bytesP then .dyn s else .stat s)
        else if hasPrefix stringP type then .dyn s
        else .stat s
      let pos2 := if sel then pos + 1 else pos
      match parseArray (type.length + 1) base type with
      | .ok t => .ok (pos2, t)
      | .err => .err | .panic => .panic | .overread => .overread
def Inps.abiTypes (is : Inps) (pos : Nat) : Res (Nat × Tys) :=
  match is with
  | .nil => .ok (pos, .nil)
  | .cons i rest =>
    match Inp.abiType i pos with
    | .ok (pos1, t) =>
      match Inps.abiTypes rest pos1 with
      | .ok (pos2, ts) => .ok (pos2, .cons t ts)
      | r => r
    | .err => .err | .panic => .panic | .overread => .overread
end

/-- `Event.ABIType()`: the non-indexed inputs as one tuple -/
def eventFields : Inps → Nat → Res (Nat × Tys)
  | .nil, pos => .ok (pos, .nil)
  | .cons i rest, pos =>
    if i.indexed then eventFields rest pos
    else match Inp.abiType i pos with
      | .ok (pos1, t) =>
        match eventFields rest pos1 with
        | .ok (pos2, ts) => .ok (pos2, .cons t ts)
        | r => r
      | .err => .err | .panic => .panic | .overread => .overread

def eventAbiType (inputs : Inps) : Res Ty :=
  match eventFields inputs 0 with
  | .ok (_, fs) => .ok (.tup fs)
  | .err => .err | .panic => .panic | .overread => .overread

/-! ### signature -/

/-- `strings.Replace(s, old, new, 1)` -/
def replaceFirst (s old new : List Char) : List Char :=
  let rec go : Nat → List Char → List Char
    | 0, s => s
    | fuel + 1, s =>
      if old.isPrefixOf s then new ++ s.drop old.length
      else match s with
        | [] => []
        | c :: cs => c :: go fuel cs
  if old.isEmpty then new ++ s else go (s.length + 1) s

mutual
/-- `Input.Signature()` -/
def Inp.signature (i : Inp) : List Char :=
  match i with
  | .mk _ _ type comps =>
    if !hasPrefix tupleP type then type
    else replaceFirst type tupleP ('(' :: Inps.signatures comps ++ [')'])
/-- the comma-joined component signatures -/
def Inps.signatures (is : Inps) : List Char :=
  match is with
  | .nil => []
  | .cons i .nil => Inp.signature i
  | .cons i rest => Inp.signature i ++ ',' :: Inps.signatures rest
end

/-- `Event.Signature()` -/
def eventSignature (name : List Char) (inputs : Inps) : List Char :=
  name ++ '(' :: Inps.signatures inputs ++ [')']

def numIndexed : Inps → Nat
  | .nil => 0
  | .cons i rest => (if i.indexed then 1 else 0) + numIndexed rest

/-! ### printing (for the correspondence runs) -/

mutual
def Ty.show : Ty → String
  | .stat s => "s" ++ (match s with | some p => s!"@{p}" | none => "")
  | .dyn s => "d" ++ (match s with | some p => s!"@{p}" | none => "")
  | .arr k e => s!"a{k}<" ++ e.show ++ ">{" ++ (if (Ty.arr k e).isStatic then "S" else "D") ++ s!"{(Ty.arr k e).size}}"
  | .tup fs => "t(" ++ fs.show ++ "){" ++ (if fs.allStatic then "S" else "D") ++ s!"{fs.size}}"
def Tys.show : Tys → String
  | .nil => ""
  | .cons t .nil => t.show
  | .cons t ts => t.show ++ "," ++ ts.show
end

end Shovel.Abi
