import Shovel.Gen.Glf
import Shovel.Gen.Fields
/-
  Model of the fetch planner and of what each fetch supplies (property C14):
    shovel/glf/filter.go   New, any, difference        (field lists and step chain are GENERATED)
    jrpc2/client.go        Client.Get dispatch; headers/blocks/receipts/logs/traces field filling
    eth/types.go           JSON tags
-/
namespace Shovel.Plan

open Shovel.Gen.Glf

/-- `any(a, b)` -/
def anyIn (a b : List String) : Bool := a.any fun x => b.contains x

/-- `difference(ours, others…)` -/
def difference (ours : List String) (others : List (List String)) : List String :=
  ours.filter fun x => !(others.any fun o => o.contains x)

def listOf (lists : List (String × List String)) (n : String) : List String :=
  match lists.find? (·.1 == n) with
  | some p => p.2
  | none => []

/-- a planner step with its lists resolved -/
structure RStep where
  flag : String
  xs : List String        -- the list removed from `needs` (the fields this fetch is planned for)
  ds : List String        -- trigger set = difference(trigger, minus…)
  deriving Repr, DecidableEq

def resolve (lists : List (String × List String)) (s : Step) : RStep :=
  { flag := s.flag, xs := listOf lists s.remove,
    ds := difference (listOf lists s.trigger) (s.minus.map (listOf lists)) }

/-- the chain of `New`: returns the flags that were set -/
def planFrom : List RStep → List String → List String
  | [], _ => []
  | st :: rest, needs =>
    if anyIn needs st.ds then st.flag :: planFrom rest (difference needs [st.xs])
    else planFrom rest needs

def rsteps : List RStep := steps.map (resolve lists)

/-- `glf.New(needs, …)` as the set of flags -/
def plan (needs : List String) : List String := planFrom rsteps needs

/-! ### what the client fetches for a plan, and what each fetch fills

`Client.Get`: blocks if UseBlocks, else headers if UseHeaders, else bare numbered blocks;
then receipts if UseReceipts, else logs if UseLogs; then (independently) traces if UseTraces. -/

inductive Fetch where
  | numbers | headers | blocks | receipts | logs | traces
  deriving DecidableEq, Repr

def dispatchB (r l t b h : Bool) : List Fetch :=
  (if b then [.blocks] else if h then [.headers] else [.numbers]) ++
  (if r then [.receipts] else if l then [.logs] else []) ++
  (if t then [.traces] else [])

def dispatch (flags : List String) : List Fetch :=
  dispatchB (flags.contains "UseReceipts") (flags.contains "UseLogs") (flags.contains "UseTraces")
    (flags.contains "UseBlocks") (flags.contains "UseHeaders")

/-- the row-builder fields (labels of `logWithCtx.get`) whose source struct field a fetch fills.
    Hand-written from client.go / types.go; validated end-to-end by the correspondence run. -/
def supplies : Fetch → List String
  | .numbers => ["block_num"]
  | .headers => ["block_hash", "block_num", "block_time"]
  | .blocks => ["block_hash", "block_num", "block_time", "tx_hash", "tx_idx", "tx_nonce", "tx_signer", "tx_to",
      "tx_input", "tx_value", "tx_type", "tx_gas_price", "tx_max_priority_fee_per_gas", "tx_max_fee_per_gas"]
  | .receipts => ["block_hash", "block_num", "tx_hash", "tx_idx", "tx_signer", "tx_to", "tx_type", "tx_status",
      "tx_gas_used", "tx_effective_gas_price", "tx_contract_address", "log_addr", "log_idx"]
  | .logs => ["block_hash", "block_num", "tx_hash", "tx_idx", "log_addr", "log_idx"]
  | .traces => ["block_hash", "tx_hash", "trace_action_call_type", "trace_action_idx", "trace_action_from",
      "trace_action_to", "trace_action_value"]

/-- fields taken from the task context or computed by the row builder, not fetched -/
def contextFields : List String := ["src_name", "ig_name", "chain_id", "abi_idx"]

/-- every field name the row builder understands -/
def knownFields : List String := Shovel.Gen.Fields.getCases.map (·.1)

def suppliedByB (r l t b h : Bool) (f : String) : Bool :=
  contextFields.contains f || (dispatchB r l t b h).any fun x => (supplies x).contains f

def suppliedBy (flags : List String) (f : String) : Bool :=
  suppliedByB (flags.contains "UseReceipts") (flags.contains "UseLogs") (flags.contains "UseTraces")
    (flags.contains "UseBlocks") (flags.contains "UseHeaders") f

/-- the boolean a flag name stands for -/
def flagBit (n : String) (r l t b h : Bool) : Bool :=
  if n == "UseReceipts" then r else if n == "UseLogs" then l else if n == "UseTraces" then t
  else if n == "UseBlocks" then b else if n == "UseHeaders" then h else false

end Shovel.Plan
