import Shovel.Model.Basic
/-
  Model of the task manager of shovel/task.go and the configuration merge of
  shovel/config/config.go (property C20):
    Root.AllIntegrations / AllSourcesByName (file wins on a name clash), loadTasks,
    Manager.Run / Restart / runTask as a transition system over the atomic sections the two
    mutexes (`restartMut`, `running`) and the generation channels define.
-/
namespace Shovel.Manager

structure SrcCfg where
  name : String
  chainId : Nat := 0
  batch : Nat := 0          -- 0 = not configured
  conc : Nat := 0
  poll : Nat := 1000        -- milliseconds
  deriving DecidableEq, Repr

structure SrcRef where
  name : String
  start : Nat := 0
  stop : Nat := 0
  deriving DecidableEq, Repr

structure IgCfg where
  name : String
  enabled : Bool
  sources : List SrcRef
  deriving DecidableEq, Repr

structure TaskInfo where
  src : String
  ig : String
  start : Nat
  stop : Nat
  batch : Nat
  conc : Nat
  poll : Nat
  chainId : Nat
  deriving DecidableEq, Repr

/-- `uniq[name] = x` for db entries first, then file entries (later assignments win) -/
def mergeIg (db file : List IgCfg) : List IgCfg :=
  (db ++ file).foldl (fun acc x => acc.filter (·.name != x.name) ++ [x]) []

def mergeSrc (db file : List SrcCfg) : List SrcCfg :=
  (db ++ file).foldl (fun acc x => acc.filter (·.name != x.name) ++ [x]) []

/-- `loadTasks`: one task per enabled integration and source reference; an unknown source is an
    error. (The Go code ranges over a map: the order of the result is unspecified.) -/
def loadTasks (fileIgs dbIgs : List IgCfg) (fileSrcs dbSrcs : List SrcCfg) : Option (List TaskInfo) :=
  let igs := mergeIg dbIgs fileIgs
  let srcs := mergeSrc dbSrcs fileSrcs
  igs.foldl (fun acc ig => match acc with
    | none => none
    | some ts =>
      if !ig.enabled then some ts
      else ig.sources.foldl (fun acc r => match acc with
        | none => none
        | some ts =>
          match srcs.find? (·.name == r.name) with
          | none => none
          | some sc =>
            let b := if sc.batch > 0 then sc.batch else 1
            let c := if sc.conc > 0 then sc.conc else 1
            let t : TaskInfo := { src := sc.name, ig := ig.name, start := r.start, stop := r.stop,
                                  batch := b, conc := c, poll := sc.poll, chainId := sc.chainId }
            some (ts ++ [t])) (some ts)) (some [])

/-! ### the run / restart protocol -/

/-- a runner = (generation, (source, integration)) -/
abbrev Runner := Nat × (String × String)

structure St where
  nextGen : Nat := 1
  holder : Option Nat := none          -- generation whose Run holds the `running` lock
  loaded : Option (List (String × String)) := none   -- tasks of the holder once loadTasks succeeded
  installed : Option Nat := none       -- generation whose channel is installed (tm.restart)
  closed : List Nat := []              -- generations whose channel has been closed
  running : List Runner := []          -- runners that have started and not yet returned
  spawned : List Runner := []          -- runners ever started (to know when a Run may end)
  waiting : List Nat := []             -- Runs started by Restart / main, waiting for the lock
  restarting : Option Nat := none      -- generation started by the Restart that holds restartMut
  acked : List Nat := []               -- generations whose Run reported success
  deriving Repr

inductive Step where
  | restartBegin                       -- Restart: lock restartMut, close the installed channel, start a Run
  | runLock (g : Nat)                  -- Run g acquires the `running` lock
  | runLoadFail                        -- loadTasks failed: report, release the lock
  | runLoadOk (tasks : List (String × String))   -- loadTasks succeeded
  | runInstall                         -- install the channel, report success (Restart returns), spawn
  | taskStart (r : Runner)
  | taskStep (r : Runner)              -- one Converge of a runner whose channel is not closed (or whose check raced)
  | taskStop (r : Runner)              -- the runner saw its channel closed and returned
  | runEnd                             -- wg.Wait returned: all runners of the holder are gone; unlock
  deriving Repr

/-- `none` = the step is not enabled in this state -/
def step (s : St) : Step → Option St
  | .restartBegin =>
    if s.restarting.isSome then none
    else
      let g := s.nextGen
      some { s with nextGen := g + 1, restarting := some g, waiting := s.waiting ++ [g],
                    closed := match s.installed with
                      | some i => if s.closed.contains i then s.closed else i :: s.closed
                      | none => s.closed }
  | .runLock g =>
    if s.holder.isSome || !s.waiting.contains g then none
    else some { s with holder := some g, waiting := s.waiting.filter (· != g), loaded := none }
  | .runLoadFail =>
    match s.holder, s.loaded with
    | some g, none =>
      if s.installed == some g then none
      else some { s with holder := none, restarting := if s.restarting == some g then none else s.restarting }
    | _, _ => none
  | .runLoadOk tasks =>
    match s.holder, s.loaded with
    | some g, none => if s.installed == some g then none else some { s with loaded := some tasks }
    | _, _ => none
  | .runInstall =>
    match s.holder, s.loaded with
    | some g, some _ =>
      if s.installed == some g then none
      else some { s with installed := some g, acked := g :: s.acked,
                         restarting := if s.restarting == some g then none else s.restarting }
    | _, _ => none
  | .taskStart r =>
    match s.holder, s.loaded with
    | some g, some tasks =>
      if s.installed == some g && r.1 == g && tasks.contains r.2 && !s.spawned.contains r
      then some { s with running := r :: s.running, spawned := r :: s.spawned }
      else none
    | _, _ => none
  | .taskStep r => if s.running.contains r then some s else none
  | .taskStop r =>
    if s.running.contains r && s.closed.contains r.1 then some { s with running := s.running.filter (· != r) } else none
  | .runEnd =>
    match s.holder, s.loaded with
    | some g, some tasks =>
      if s.installed == some g && tasks.all (fun p => s.spawned.contains (g, p)) && !s.running.any (·.1 == g)
      then some { s with holder := none, loaded := none }
      else none
    | _, _ => none

/-- run a schedule; disabled steps are skipped -/
def run (s : St) (steps : List Step) : St :=
  steps.foldl (fun s st => (step s st).getD s) s

/-- the initial state: `main` has started the first Run (generation 0) -/
def init : St := { nextGen := 1, waiting := [0] }

end Shovel.Manager
