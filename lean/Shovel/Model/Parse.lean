import Shovel.Model.AbiType
/- Parsers for the driver's line protocol (not part of any model). -/
namespace Shovel.Abi

mutual
/-- `input := indexed sel type ncomps input*` -/
def parseInp : Nat → List String → Option (Inp × List String)
  | 0, _ => none
  | fuel + 1, toks =>
    match toks with
    | ix :: sl :: ty :: nc :: rest =>
      match nc.toNat? with
      | none => none
      | some n =>
        match parseInps fuel n rest with
        | none => none
        | some (cs, rest') => some (.mk (ix == "1") (sl == "1") ty.toList cs, rest')
    | _ => none
def parseInps : Nat → Nat → List String → Option (Inps × List String)
  | 0, _, _ => none
  | fuel + 1, n, toks =>
    match n with
    | 0 => some (.nil, toks)
    | n + 1 =>
      match parseInp fuel toks with
      | none => none
      | some (i, rest) =>
        match parseInps fuel n rest with
        | none => none
        | some (is, rest') => some (.cons i is, rest')
end

/-- `desc := n,input,...` (comma separated) -/
def parseDesc (s : String) : Option Inps :=
  match s.splitOn "," with
  | n :: rest =>
    match n.toNat? with
    | none => none
    | some k =>
      match parseInps (2 * rest.length + 4) k rest with
      | some (is, []) => some is
      | _ => none
  | [] => none

end Shovel.Abi
