import Shovel.Model.Basic
/-
  Model of the source-side caches of jrpc2/client.go and eth/types.go (property C08):
    cache.get / pruneMaxRead / pruneSegments (segments keyed (start, limit)),
    NumHash.update / get / error (the head cache), Logs.Add (attach with de-duplication).
  The two mutexes define the atomic sub-steps: `lookupStep` runs under the cache lock,
  `readStep` (including the fetch) under the segment lock.
-/
namespace Shovel.Cache

structure Seg where
  key : Nat × Nat
  nreads : Nat := 0
  done : Bool := false
  data : Nat := 0            -- abstract identity of the cached block data
  deriving DecidableEq, Repr

/-- `store`: every segment ever created (callers keep pointers to segments that were pruned from
    the map); `map`: key ↦ index into `store` -/
structure Cache where
  maxreads : Nat
  store : List Seg := []
  map : List ((Nat × Nat) × Nat) := []
  deriving DecidableEq, Repr

def Cache.seg (c : Cache) (id : Nat) : Seg := c.store.getD id { key := (0, 0) }

/-- `pruneMaxRead` -/
def Cache.pruneMaxRead (c : Cache) : Cache :=
  { c with map := c.map.filter fun e => decide ((c.seg e.2).nreads < c.maxreads) }

def insertDesc (e : (Nat × Nat) × Nat) : List ((Nat × Nat) × Nat) → List ((Nat × Nat) × Nat)
  | [] => [e]
  | x :: xs => if e.1.1 > x.1.1 then e :: x :: xs else x :: insertDesc e xs

/-- `pruneSegments`: keep the 5 segments with the greatest start (ties: unspecified in the code —
    `sort.Slice` is not stable; the model keeps earlier map entries first) -/
def Cache.pruneSegments (c : Cache) : Cache :=
  if c.map.length ≤ 5 then c
  else
    let sorted := c.map.foldl (fun acc e => insertDesc e acc) []
    let keep := sorted.take 5
    { c with map := c.map.filter fun e => keep.contains e }

/-- the part of `cache.get` under the cache lock: returns the segment handed to the caller -/
def Cache.lookupStep (c : Cache) (key : Nat × Nat) : Cache × Nat :=
  let c := c.pruneMaxRead
  let (c, id) := match c.map.find? (·.1 == key) with
    | some e => (c, e.2)
    | none =>
      let id := c.store.length
      ({ c with store := c.store ++ [({ key := key } : Seg)], map := c.map ++ [(key, id)] }, id)
  (c.pruneSegments, id)

inductive Out where
  | hit (d : Nat)      -- served from the segment
  | fetched (d : Nat)  -- fetched from the source and stored
  | err                -- the fetch failed; nothing is cached
  deriving DecidableEq, Repr

/-- the part under the segment lock; `fetch` is what the source would answer now -/
def Cache.readStep (c : Cache) (id : Nat) (fetch : Option Nat) : Cache × Out :=
  let s := c.seg id
  let s := { s with nreads := s.nreads + 1 }
  if s.done then ({ c with store := c.store.set id s }, .hit s.data)
  else match fetch with
    | none => ({ c with store := c.store.set id s }, .err)
    | some d => ({ c with store := c.store.set id { s with done := true, data := d } }, .fetched d)

/-- sequential `cache.get` -/
def Cache.get (c : Cache) (key : Nat × Nat) (fetch : Option Nat) : Cache × Out :=
  let (c, id) := c.lookupStep key
  c.readStep id fetch

/-! ### head cache (`NumHash`) -/

structure Head where
  maxreads : Nat
  num : Nat := 0
  hash : String := ""
  nreads : Nat := 0
  err : Bool := false
  deriving DecidableEq, Repr

def Head.update (h : Head) (n : Nat) (hs : String) : Head :=
  if n ≤ h.num then h else { h with nreads := 0, num := n, hash := hs }

def Head.error (h : Head) : Head := { h with nreads := 0, err := true }

/-- `get(n)`: `some (num, hash)` on a hit -/
def Head.get (h : Head) (n : Nat) : Head × Option (Nat × String) :=
  if h.err then ({ h with err := false }, none)
  else if n = 0 ∨ h.num < n then (h, none)
  else if h.nreads ≥ h.maxreads then ({ h with nreads := 0, num := 0, hash := "" }, none)
  else ({ h with nreads := h.nreads + 1 }, some (h.num, h.hash))

/-! ### `Logs.Add` -/

/-- attach a log (by index) unless one with that index is present -/
def addLog (ls : List Nat) (idx : Nat) : List Nat := if ls.contains idx then ls else ls ++ [idx]

end Shovel.Cache
