import Shovel.Model.Basic
/-
  Model of the ABI decoder of dig/dig.go (properties C09, C10):
    atype, hasSelect, hasKind('a'), hasStatic, sizeof, selected,
    Result.GetRow / Result.Scan, scan.
  A Go `[]byte` that is only ever re-sliced from one backing array is `Buf` (data, cap) plus an
  absolute offset `off : Int`; `input = data[off:]`, `len(input) = data.length - off`.
  Decoded values are *ranges* `(lo, hi)` into `data`, so "a sub-range of the input" is a statement
  about numbers.  Structural recursion only (so concrete instances reduce in the kernel).
-/
namespace Shovel.Abi

mutual
/-- `atype`: `stat`ic word, `dyn`amic bytes/string, array (`k = 0`: dynamic length) and tuple.
    `sel = some pos` means the leaf is selected into result column `pos`. -/
inductive Ty where
  | stat (sel : Option Nat)
  | dyn (sel : Option Nat)
  | arr (k : Nat) (e : Ty)
  | tup (fs : Tys)
inductive Tys where
  | nil
  | cons (t : Ty) (ts : Tys)
end

mutual
def Ty.hasSelect : Ty → Bool
  | .stat s => s.isSome
  | .dyn s => s.isSome
  | .arr _ e => e.hasSelect
  | .tup fs => fs.hasSelect
def Tys.hasSelect : Tys → Bool
  | .nil => false
  | .cons t ts => t.hasSelect || ts.hasSelect
end

/-- `t.hasKind('a')` for an array `t = arr k e`: the loop follows `elem` pointers, which only
    arrays have, so it is true iff the element is itself an array. -/
def Ty.isArr : Ty → Bool
  | .arr _ _ => true
  | _ => false

mutual
/-- `hasStatic` (cached in the `static` field by the constructors) -/
def Ty.isStatic : Ty → Bool
  | .stat _ => true
  | .dyn _ => false
  | .arr k e => if k = 0 then false else e.isStatic
  | .tup fs => fs.allStatic
def Tys.allStatic : Tys → Bool
  | .nil => true
  | .cons t ts => t.isStatic && ts.allStatic
end

mutual
/-- `sizeof` (cached in the `size` field) -/
def Ty.size : Ty → Nat
  | .stat _ => 32
  | .dyn _ => 0
  | .arr k e => k * e.size
  | .tup fs => fs.size
def Tys.size : Tys → Nat
  | .nil => 0
  | .cons t ts => t.size + ts.size
end

mutual
/-- number of selected leaves = `len(t.selected())` = `ncols` -/
def Ty.nsel : Ty → Nat
  | .stat s => if s.isSome then 1 else 0
  | .dyn s => if s.isSome then 1 else 0
  | .arr _ e => e.nsel
  | .tup fs => fs.nsel
def Tys.nsel : Tys → Nat
  | .nil => 0
  | .cons t ts => t.nsel + ts.nsel
end

/-! ### buffers -/

structure Buf where
  data : List Nat
  cap : Nat           -- cap ≥ data.length
  deriving DecidableEq, Repr

def Buf.len (b : Buf) (off : Int) : Int := (b.data.length : Int) - off

/-- Go `input[a:hi]` with `input = data[off:]`: run-time panic unless `0 ≤ a ≤ hi ≤ cap(input)`;
    `overread` when it stays within capacity but leaves the `len` bytes that are the input. -/
def Buf.slice (b : Buf) (off a hi : Int) : Res (Nat × Nat) :=
  if a < 0 ∨ hi < a ∨ off + hi > b.cap then .panic
  else if off + hi > b.data.length then .overread
  else .ok ((off + a).toNat, (off + hi).toNat)

/-- Go `input[a:]`: panic unless `0 ≤ a ≤ len(input)`; result is the new absolute offset -/
def Buf.sliceFrom (b : Buf) (off a : Int) : Res Int :=
  if a < 0 ∨ a > b.len off then .panic else .ok (off + a)

def U64 : Nat := 2 ^ 64

/-- `bint.Decode(data[lo:hi])`: big-endian value with uint64 wrap-around -/
def Buf.word (b : Buf) (lo hi : Nat) : Nat :=
  ((b.data.take hi).drop lo).foldl (fun n x => (n * 256 + x) % U64) 0

/-- Go `int(x)` for `x : uint64` -/
def toI64 (n : Nat) : Int :=
  let m := n % U64
  if m < 2 ^ 63 then (m : Int) else (m : Int) - (U64 : Int)

/-! ### result rows -/

abbrev Row := List (Option (Nat × Nat))

inductive RowRef where
  | single
  | coll (i : Nat)
  deriving DecidableEq, Repr

/-- `dig.Result` (the decoded type is kept outside) -/
structure St where
  single : Row
  coll : List Row        -- physical `collection`, persists across scans
  n : Nat
  ncols : Nat
  deriving DecidableEq, Repr

def emptyRow (k : Nat) : Row := List.replicate k none

/-- `Result.GetRow` -/
def St.getRow (s : St) : St × RowRef :=
  let n := s.n + 1
  let coll := if n ≥ s.coll.length then s.coll ++ [emptyRow s.ncols] else s.coll
  let coll := coll.set (n - 1) ((coll.getD (n - 1) []).map fun _ => none)   -- clear(collection[n-1])
  ({ s with coll := coll, n := n }, .coll (n - 1))

/-- `r[pos] = v` (index panic when out of range) -/
def St.setCol (s : St) (r : RowRef) (pos : Nat) (v : Nat × Nat) : Res St :=
  match r with
  | .single => if pos < s.single.length then .ok { s with single := s.single.set pos (some v) } else .panic
  | .coll i =>
    match s.coll[i]? with
    | none => .panic
    | some row => if pos < row.length then .ok { s with coll := s.coll.set i (row.set pos (some v)) } else .panic

/-- counted loop `for i := 0; i < n; i++ { body }` threading `(pos, r, s)`; stops at the first
    non-ok outcome. -/
def loopN (n : Nat) (pos : Int) (r : RowRef) (s : St)
    (body : Int → RowRef → St → Res (Int × RowRef × St)) : Res St :=
  match n with
  | 0 => .ok s
  | n + 1 =>
    match body pos r s with
    | .ok (pos', r', s') => loopN n pos' r' s' body
    | .err => .err
    | .panic => .panic
    | .overread => .overread

/-- a nested `scan` error is replaced by a fresh `errors.New("EOF")`: still an error -/
def wrapErr {α} (r : Res α) : Res α := r

mutual
/-- `scan(r, res, input, t)` with `input = b.data[off:]` -/
def scan (b : Buf) (t : Ty) (off : Int) (r : RowRef) (s : St) : Res St :=
  match t with
  | .stat sel =>
    if b.len off < 32 then .err
    else match sel with
      | none => .ok s
      | some p => do
        let rg ← b.slice off 0 32
        s.setCol r p rg
  | .dyn sel =>
    if b.len off < 32 then .err
    else do
      let w ← b.slice off 0 32
      let length := toI64 (b.word w.1 w.2)
      if length = 0 then .ok s
      else if length < 0 ∨ b.len off - 32 < length then .err
      else match sel with
        | none => .ok s
        | some p => do
          let rg ← b.slice off 32 (32 + length)
          s.setCol r p rg
  | .arr k e =>
    if !e.hasSelect then .ok s
    else
      let run (length : Int) (start pos : Int) : Res St :=
        loopN length.toNat pos r s fun pos r s =>
          let (s, r) := if !e.isArr then let (s', r') := s.getRow; (s', r') else (s, r)
          if e.isStatic then
            if b.len off < pos then .err
            else do
              let off' ← b.sliceFrom off pos
              let s' ← scan b e off' r s
              .ok (pos + e.size, r, s')
          else
            if b.len off < pos + 32 then .err
            else do
              let w ← b.slice off pos (pos + 32)
              let offset := toI64 (b.word w.1 w.2)
              if offset < 0 ∨ b.len off - start < offset then .err
              else do
                let off' ← b.sliceFrom off (start + offset)
                let s' ← wrapErr (scan b e off' r s)
                .ok (pos + 32, r, s')
      if k = 0 then
        if b.len off < 32 then .err
        else do
          let w ← b.slice off 0 32
          run (toI64 (b.word w.1 w.2)) 32 32
      else run k 0 0
  | .tup fs =>
    if !fs.hasSelect then .ok s
    else scanTup b fs off 0 r s
/-- the field loop of the tuple case; `pos` is the running head position -/
def scanTup (b : Buf) (fs : Tys) (off : Int) (pos : Int) (r : RowRef) (s : St) : Res St :=
  match fs with
  | .nil => .ok s
  | .cons f rest =>
    if f.isStatic then
      if b.len off < pos then .err
      else do
        let off' ← b.sliceFrom off pos
        let s' ← wrapErr (scan b f off' r s)
        scanTup b rest off (pos + f.size) r s'
    else
      if b.len off < pos + 32 then .err
      else do
        let w ← b.slice off pos (pos + 32)
        let offset := toI64 (b.word w.1 w.2)
        if offset < 0 ∨ b.len off < offset then .err
        else do
          let off' ← b.sliceFrom off offset
          let s' ← wrapErr (scan b f off' r s)
          scanTup b rest off (pos + 32) r s'
end

/-- `Result.Scan(input)`: reset, scan into the singleton, fall back to one row, broadcast the
    non-empty singleton columns into every row. Returns the new state (rows = first `n` of `coll`). -/
def resultScan (b : Buf) (t : Ty) (s : St) : Res St :=
  let s0 : St := { s with n := 0, single := s.single.map fun _ => none }
  match scan b t 0 .single s0 with
  | .ok s1 =>
    let s2 := if s1.n = 0 then s1.getRow.1 else s1
    let bc (row : Row) : Row :=
      (row.zip s2.single).map fun (c, sg) =>
        match sg with
        | some (lo, hi) => if hi - lo > 0 then some (lo, hi) else c
        | none => c
    .ok { s2 with coll := (s2.coll.take s2.n).map bc ++ s2.coll.drop s2.n }
  | .err => .err
  | .panic => .panic
  | .overread => .overread

def St.rows (s : St) : List Row := s.coll.take s.n

/-- `NewResult(t)` -/
def newResult (t : Ty) : St := { single := emptyRow t.nsel, coll := [], n := 0, ncols := t.nsel }

/-! ### row bound (used by the C10 theorems and evaluated by the oracle) -/

mutual
/-- rows that one `scan` of `t` can add when at most `L + 1` iterations fit into the input -/
def Ty.rowBound (L : Nat) : Ty → Nat
  | .stat _ => 0
  | .dyn _ => 0
  | .arr _ e => (L + 1) * ((if e.isArr then 0 else 1) + e.rowBound L)
  | .tup fs => fs.rowBound L
def Tys.rowBound (L : Nat) : Tys → Nat
  | .nil => 0
  | .cons t ts => t.rowBound L + ts.rowBound L
end

end Shovel.Abi
