import Shovel.Model.Basic
/-
  Model of the dashboard authentication of shovel/web/web.go (property C19):
    Handler.Authn, Handler.Login.  The session library (kr/session + age) is abstracted as an
    unforgeable token bound to the key of the handler (= process) that minted it.
-/
namespace Shovel.Auth

structure Cfg where
  disableAuthn : Bool
  enableLoopbackAuthn : Bool
  deriving DecidableEq, Repr

/-- what a request carries as session cookie -/
inductive Cookie where
  | none
  | garbage
  | minted (key : Nat)       -- a session minted by the handler whose key is `key`
  deriving DecidableEq, Repr

inductive Resp where
  | served                   -- the protected handler ran
  | redirectLogin            -- 303 to /login; the protected handler did not run
  deriving DecidableEq, Repr

/-- `session.Get` succeeds iff the cookie was minted with this handler's key -/
def sessionOK (myKey : Nat) : Cookie → Bool
  | .minted k => k == myKey
  | _ => false

/-- `Handler.Authn(next)` -/
def authn (cfg : Cfg) (myKey : Nat) (loopback : Bool) (c : Cookie) : Resp :=
  if cfg.disableAuthn then .served
  else if !cfg.enableLoopbackAuthn && loopback then .served
  else if sessionOK myKey c then .served
  else .redirectLogin

inductive LoginResp where
  | page                     -- GET: the login form
  | issued (key : Nat)       -- POST with the right password: Set-Cookie + redirect to /
  | unauthorized             -- POST with a wrong password: 401, no cookie
  | badMethod
  deriving DecidableEq, Repr

/-- `Handler.Login` -/
def login (myKey : Nat) (method : String) (passwordMatches : Bool) : LoginResp :=
  if method == "GET" then .page
  else if method == "POST" then (if passwordMatches then .issued myKey else .unauthorized)
  else .badMethod

/-! ### request histories -/

inductive Req where
  | protectedReq (loopback : Bool) (c : Cookie)
  | loginReq (method : String) (passwordMatches : Bool)
  deriving Repr

/-- tokens issued by this process so far -/
abbrev Issued := List Nat

def step (cfg : Cfg) (myKey : Nat) (issued : Issued) : Req → Issued × Option Resp
  | .protectedReq lb c => (issued, some (authn cfg myKey lb c))
  | .loginReq m ok =>
    match login myKey m ok with
    | .issued k => (k :: issued, none)
    | _ => (issued, none)

end Shovel.Auth
