import Shovel.Proofs.WorldBounds
/-
  The growth invariant `Inv`: a step from a state satisfying it never unwinds, loads the next
  slice of the chain, passes the unique-key checks, and re-establishes the invariant.
-/
namespace Shovel.World

theorem Inv_iff (t : Task) (c : Chain) (s : Nat) (db : DB) : Inv t c s db ↔
    (∀ x ∈ db.cur.filter (mineC t), s < x.num ∧ x.num ≤ c.head ∧ x.hash = c.hashAt x.num) ∧
    ((db.cur.filter (mineC t)).map (·.num)).Nodup ∧
    db.rows.filter (mine t) =
      (c.slice (s + 1) ((topOf (db.cur.filter (mineC t))).getD s - s)).flatMap (rowsFor t) := Iff.rfl

/-- the newest recorded position of `t`, or the initial position -/
def top (t : Task) (v : DB) (s0 : Nat) : Nat := (topOf (v.cur.filter (mineC t))).getD s0

theorem mem_mine_cur {t : Task} {v : DB} {x : Cur} :
    x ∈ v.cur.filter (mineC t) ↔ x ∈ v.cur ∧ x.src = t.src ∧ x.ig = t.ig := by
  rw [List.mem_filter]; simp [mineC]

theorem top_some {t : Task} {v : DB} {s0 : Nat} {x : Cur} (h : v.latestCur t.src t.ig = some x) :
    top t v s0 = x.num ∧ x ∈ v.cur.filter (mineC t) ∧ ∀ y ∈ v.cur.filter (mineC t), y.num ≤ x.num := by
  obtain ⟨h1, h2, h3, h4⟩ := latestCur_some h
  refine ⟨?_, mem_mine_cur.mpr ⟨h1, h2, h3⟩, fun y hy => ?_⟩
  · unfold top; rw [topOf_latest, h]; rfl
  · obtain ⟨hy1, hy2, hy3⟩ := mem_mine_cur.mp hy
    exact h4 y hy1 hy2 hy3

theorem top_none {t : Task} {v : DB} {s0 : Nat} (h : v.latestCur t.src t.ig = none) :
    top t v s0 = s0 ∧ v.cur.filter (mineC t) = [] := by
  refine ⟨?_, latestCur_none h⟩
  unfold top; rw [topOf_latest, h]; rfl

theorem top_ge {t : Task} {v : DB} {s0 : Nat}
    (h : ∀ x ∈ v.cur.filter (mineC t), s0 < x.num) :
    s0 ≤ top t v s0 ∧ ∀ y ∈ v.cur.filter (mineC t), y.num ≤ top t v s0 := by
  cases hl : v.latestCur t.src t.ig with
  | none =>
    obtain ⟨h1, h2⟩ := top_none (s0 := s0) hl
    rw [h1, h2]; exact ⟨Nat.le_refl _, fun _ h => by cases h⟩
  | some x =>
    obtain ⟨h1, h2, h3⟩ := top_some (s0 := s0) hl
    rw [h1]; exact ⟨Nat.le_of_lt (h x h2), h3⟩

/-- where an iteration starts from, under the invariant -/
theorem inv_local {t : Task} {c : Chain} {v : DB} {sc : Script} {ln : Nat} {lh : String}
    (hsc : ScriptOK c sc) (hstart : 0 < t.start)
    (hinv : ∀ x ∈ v.cur.filter (mineC t), t.start - 1 < x.num ∧ x.num ≤ c.head ∧ x.hash = c.hashAt x.num)
    (h : LocalFacts t v sc ln lh) :
    ln = top t v (t.start - 1) ∧ lh = c.hashAt ln ∧ ln ≤ c.head := by
  rcases h with ⟨x, hx, hn, hh⟩ | ⟨hx, _, hn, hh⟩ | ⟨_, hs, _⟩
  · obtain ⟨h1, h2, _⟩ := top_some (s0 := t.start - 1) hx
    obtain ⟨_, h4, h5⟩ := hinv x h2
    rw [h1, hn, hh]; exact ⟨rfl, h5, h4⟩
  · obtain ⟨h1, _⟩ := top_none (s0 := t.start - 1) hx
    rcases hsc.hash _ hh with h | ⟨h2, h3⟩
    · cases h
    · simp only [Option.some.injEq] at h3
      rw [h1, hn, h3]; exact ⟨rfl, rfl, h2⟩
  · omega

/-! ### the last block of a slice -/

theorem slice_last {c : Chain} (hc : c.WF) (st k : Nat) (hk : 1 ≤ k) (h : st + k - 1 ≤ c.head) :
    ∃ last, (c.slice st k).getLast? = some last ∧ last.num = st + k - 1 ∧ last.hash = c.hashAt (st + k - 1) ∧
      last ∈ c.slice st k := by
  have hlen : st + k ≤ c.blks.length := by
    have := (le_head_iff hc (st + k - 1)).mp h; omega
  obtain ⟨b, hb⟩ := get_of_lt c (st + k - 1) (by omega)
  have hl : (c.slice st k).getLast? = some b := by
    rw [List.getLast?_eq_getElem?, slice_length c st k hlen, slice_getElem?]
    simp only [show k - 1 < k by omega, ↓reduceIte]
    rw [show st + (k - 1) = st + k - 1 by omega]; exact hb
  exact ⟨b, hl, hc.num _ _ hb, (hashAt_of hb).symm, mem_of_getLast? hl⟩

/-! ### one iteration under the invariant -/

theorem good_iter {t : Task} {c : Chain} (hc : c.WF) (f : Option Pos) (s : St)
    (hsc : ScriptOK c s.script) (hstart : 0 < t.start) (hb : 1 ≤ t.batch) (hcc : 1 ≤ t.conc)
    (hcb : t.conc * t.batch < 2 ^ 63) (hhead : c.head < 2 ^ 62)
    (hinv : ∀ x ∈ s.view.cur.filter (mineC t), t.start - 1 < x.num ∧ x.num ≤ c.head ∧ x.hash = c.hashAt x.num) :
    (∃ r, iter t f s = .ret r ∧ Early t s.db r) ∨
    ∃ k s2, 1 ≤ k ∧ k ≤ t.batch ∧ top t s.view (t.start - 1) + k ≤ c.head ∧ s2.db = s.db ∧ s2.view = s.view ∧
      iter t f s = .ret (commitStep t f s2 (c.slice (top t s.view (t.start - 1) + 1) k)) := by
  rcases iter_cases t f s with h | ⟨ln, lh, d, s1, lr, s2, _, hg, hl, hss, hcase⟩
  · exact .inl h
  · right
    obtain ⟨hln, hlh, hle⟩ := inv_local hsc hstart hinv hg.loc
    have hsc1 : ScriptOK c s1.script := hsc.mono hg.same.script
    obtain ⟨g, gh, target0, hgm, hdf, hlt, hd, hd1⟩ := hg.ex
    have hgh := (latest_le_head hsc hgm).1
    have := hdf.le
    have := clip_le t target0
    rcases load_chain hc t s1 s2 lh (ln + 1) d lr hsc1 hb hcc hcb hd1 (by omega) (by omega) (by omega) hl
      with h | ⟨h, _⟩ | ⟨k, hk1, hk2, hk3, ⟨h, hne⟩ | ⟨h, _⟩⟩
    · subst h; rcases hcase with ⟨h, _⟩ | ⟨_, h, _⟩ <;> cases h
    · subst h; rcases hcase with ⟨h, _⟩ | ⟨_, h, _⟩ <;> cases h
    · exact absurd hlh hne
    · subst h
      rcases hcase with ⟨h, _⟩ | ⟨bs, h, hi⟩
      · cases h
      · cases h
        rw [← hln]
        exact ⟨k, s2, hk1, by omega, by omega, hss.db, hss.view, hi⟩

/-! ### unique keys -/

def keysOf (b : Blk) : List String := b.rows.map (·.1)

theorem sublist_flatMap {α β} (f : α → List β) {l₁ l₂ : List α} (h : l₁.Sublist l₂) :
    (l₁.flatMap f).Sublist (l₂.flatMap f) := by
  induction h with
  | slnil => exact List.Sublist.refl _
  | cons a _ ih =>
    rw [List.flatMap_cons]
    exact ih.trans (List.sublist_append_right _ _)
  | cons_cons a _ ih =>
    rw [List.flatMap_cons, List.flatMap_cons]
    exact List.Sublist.append (List.Sublist.refl _) ih

theorem slice_sublist (c : Chain) (st k : Nat) : (c.slice st k).Sublist c.blks :=
  (List.take_sublist _ _).trans (List.drop_sublist _ _)

theorem newRows_keys (t : Task) (bs : List Blk) : (newRowsOf t bs).map (·.key) = bs.flatMap keysOf := by
  unfold newRowsOf
  rw [List.map_flatMap]
  congr 1
  funext b
  unfold rowsFor keysOf
  rw [List.map_map]
  apply List.map_congr_left
  intro kp _
  rfl

theorem eraseDups_nodup : ∀ (l : List String), l.Nodup → l.eraseDups = l
  | [], _ => by simp
  | a :: l, h => by
    obtain ⟨h1, h2⟩ := List.nodup_cons.mp h
    rw [List.eraseDups_cons]
    have : l.filter (fun b => !b == a) = l := by
      rw [List.filter_eq_self]
      intro b hb
      have : b ≠ a := fun e => h1 (e ▸ hb)
      simpa using this
    rw [this, eraseDups_nodup l h2]

theorem mem_rows_key {t : Task} {bs : List Blk} {x : TRow} (h : x ∈ bs.flatMap (rowsFor t)) :
    x.key ∈ bs.flatMap keysOf ∧ x.table = t.table := by
  constructor
  · rw [← newRows_keys]
    exact List.mem_map.mpr ⟨x, h, rfl⟩
  · obtain ⟨b, _, hx⟩ := List.mem_flatMap.mp h
    unfold rowsFor at hx
    obtain ⟨kp, _, rfl⟩ := List.mem_map.mp hx
    rfl

theorem noclash {t : Task} {c : Chain} {v : DB} (k : Nat)
    (hinv : Inv t c (t.start - 1) v) (hk : KeysOK t c v) :
    clashOf v (newRowsOf t (c.slice (top t v (t.start - 1) + 1) k)) = false ∧
    curClash t v (top t v (t.start - 1) + k) = false ∨ k = 0 := by
  by_cases hk0 : k = 0
  · exact .inr hk0
  left
  obtain ⟨hi1, _, hi3⟩ := (Inv_iff _ _ _ _).mp hinv
  obtain ⟨hk1, hk2⟩ := hk
  obtain ⟨htop1, htop2⟩ := top_ge (fun x hx => (hi1 x hx).1)
  change v.rows.filter (mine t) = (c.slice (t.start - 1 + 1) (top t v (t.start - 1) - (t.start - 1))).flatMap (rowsFor t) at hi3
  change (c.blks.flatMap keysOf).Nodup at hk1
  change ∀ r ∈ v.rows, mine t r = false → r.table = t.table → r.key ∉ c.blks.flatMap keysOf at hk2
  generalize top t v (t.start - 1) = ln at *
  generalize t.start - 1 = s0 at *
  -- old and new blocks together are a slice of the chain
  have hcat : c.slice (s0 + 1) (ln - s0 + k) = c.slice (s0 + 1) (ln - s0) ++ c.slice (ln + 1) k := by
    rw [slice_append, show s0 + 1 + (ln - s0) = ln + 1 by omega]
  have hnd : ((c.slice (s0 + 1) (ln - s0)).flatMap keysOf ++ (c.slice (ln + 1) k).flatMap keysOf).Nodup := by
    rw [← List.flatMap_append, ← hcat]
    exact (sublist_flatMap keysOf (slice_sublist c _ _)).nodup hk1
  obtain ⟨_, hnd2, hdisj⟩ := List.nodup_append.mp hnd
  constructor
  · unfold clashOf
    rw [Bool.or_eq_false_iff]
    constructor
    · rw [List.any_eq_false]
      intro r hr
      rw [Bool.not_eq_true, List.any_eq_false]
      intro o ho
      obtain ⟨hrk, hrt⟩ := mem_rows_key hr
      intro hclash
      simp only [Bool.and_eq_true, beq_iff_eq] at hclash
      cases hm : mine t o with
      | true =>
        have : o ∈ v.rows.filter (mine t) := List.mem_filter.mpr ⟨ho, hm⟩
        rw [hi3] at this
        obtain ⟨hok, _⟩ := mem_rows_key this
        exact hdisj _ hok _ hrk hclash.2
      | false =>
        refine hk2 o ho hm (hclash.1.trans hrt) ?_
        rw [hclash.2]
        exact (sublist_flatMap keysOf (slice_sublist c _ _)).mem hrk
    · rw [newRows_keys, eraseDups_nodup _ hnd2, ← newRows_keys t, List.length_map]
      simp
  · unfold curClash
    rw [List.any_eq_false]
    intro o ho hclash
    simp only [Bool.and_eq_true, beq_iff_eq] at hclash
    have := htop2 o (mem_mine_cur.mpr ⟨ho, hclash.1.1, hclash.1.2⟩)
    omega

/-! ### the invariant after a successful step -/

theorem topOf_snoc (cs : List Cur) (x : Cur) : topOf (cs ++ [x]) = topStep (topOf cs) x := by
  rw [topOf_def, List.foldl_append]; rfl

theorem Inv_committed {t : Task} {c : Chain} {v : DB} (k : Nat) (last : Blk)
    (hinv : Inv t c (t.start - 1) v) (hk : 1 ≤ k)
    (hhd : top t v (t.start - 1) + k ≤ c.head)
    (hnum : last.num = top t v (t.start - 1) + k) (hhash : last.hash = c.hashAt last.num) :
    Inv t c (t.start - 1) (committed t v (c.slice (top t v (t.start - 1) + 1) k) last) := by
  obtain ⟨hi1, hi2, hi3⟩ := (Inv_iff _ _ _ _).mp hinv
  obtain ⟨htop1, htop2⟩ := top_ge (fun x hx => (hi1 x hx).1)
  have hcs : (committed t v (c.slice (top t v (t.start - 1) + 1) k) last).cur.filter (mineC t) =
      v.cur.filter (mineC t) ++ [newCur t last] := by
    show List.filter _ (v.cur ++ [newCur t last]) = _
    rw [List.filter_append]
    congr 1
    simp [mineC_newCur]
  have hrs : (committed t v (c.slice (top t v (t.start - 1) + 1) k) last).rows.filter (mine t) =
      v.rows.filter (mine t) ++ newRowsOf t (c.slice (top t v (t.start - 1) + 1) k) := by
    show List.filter _ (v.rows ++ newRowsOf t _) = _
    rw [List.filter_append]
    congr 1
    rw [List.filter_eq_self]
    exact mine_newRows t _
  have htop' : (topOf (v.cur.filter (mineC t) ++ [newCur t last])).getD (t.start - 1) = top t v (t.start - 1) + k := by
    rw [topOf_snoc]
    unfold top at hnum htop1 ⊢
    show (topStep _ (newCur t last)).getD _ = _
    cases htp : topOf (v.cur.filter (mineC t)) with
    | none => rw [htp] at hnum; simp only [topStep, Option.getD_some, Option.getD_none] at hnum ⊢; exact hnum
    | some n =>
      rw [htp] at hnum
      simp only [topStep, Option.getD_some] at hnum ⊢
      show max n last.num = n + k
      omega
  rw [Inv_iff, hcs, hrs, htop']
  refine ⟨?_, ?_, ?_⟩
  · intro x hx
    rcases List.mem_append.mp hx with hx | hx
    · exact hi1 x hx
    · simp only [List.mem_singleton] at hx
      subst hx
      show t.start - 1 < last.num ∧ last.num ≤ c.head ∧ last.hash = c.hashAt last.num
      exact ⟨by omega, by omega, hhash⟩
  · rw [List.map_append, List.nodup_append]
    refine ⟨hi2, by simp, ?_⟩
    intro a ha b hb
    simp only [List.map_cons, List.map_nil, List.mem_singleton] at hb
    obtain ⟨y, hy, rfl⟩ := List.mem_map.mp ha
    have := htop2 y hy
    subst hb
    show y.num ≠ last.num
    omega
  · rw [hi3]
    unfold newRowsOf
    rw [← List.flatMap_append]
    congr 1
    change c.slice (t.start - 1 + 1) (top t v (t.start - 1) - (t.start - 1)) ++ _ = _
    rw [show top t v (t.start - 1) + k - (t.start - 1) = (top t v (t.start - 1) - (t.start - 1)) + k by omega,
      slice_append]
    congr 2
    omega

end Shovel.World
