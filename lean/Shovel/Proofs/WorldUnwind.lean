import Shovel.Proofs.WorldInv
/-
  C03: unwinding orphaned positions, one per loop iteration, then indexing the canonical chain.
-/
namespace Shovel.World

/-! ### progress with an honest, settled source -/

theorem plan_honest (t : Task) (s : St) (x : Cur) (H : Nat) (hh : String)
    (hx : s.view.latestCur t.src t.ig = some x) (hstop : t.stop = 0) (hdeps : t.deps = [])
    (hb : 1 ≤ t.batch) (hlat : ∀ a ∈ s.script.latest, a = some (H, hh)) (hlt : x.num < H) :
    (∃ r, plan t none s = .stop r ∧ r.scriptOk = false) ∨
    ∃ s1, plan t none s = .go x.num x.hash (min (H - x.num) t.batch) s1 := by
  unfold plan
  simp only [hit_none, Bool.false_eq_true, ↓reduceIte]
  have hl : localRes t { s with nLatest := s.nLatest + 1 } =
      (some (some (x.num, x.hash)), { s with nLatest := s.nLatest + 1 }) := by
    unfold localRes; simp only [hx]
  rw [hl]
  simp only [hstop, gt_iff_lt, Nat.lt_irrefl, false_and, ↓reduceIte]
  rcases takeLatest_spec { s with nLatest := s.nLatest + 1 } with ⟨h1, _⟩ | ⟨a, s', h1, hm, _⟩ <;> rw [h1]
  · left; exact ⟨_, rfl, rfl⟩
  · have := hlat a hm
    subst this
    simp only []
    have hd : depStep t none H s' = (some (some H), s') := by
      unfold depStep; simp [hdeps]
    rw [hd]
    simp only []
    have hc : clip t H = H := by unfold clip; simp [hstop]
    rw [hc]
    have h1 : ¬ H < x.num := by omega
    have h2 : (x.num == H) = false := by
      rw [beq_eq_false_iff_ne]; omega
    have h3 : (min (H - x.num) t.batch == 0) = false := by
      rw [beq_eq_false_iff_ne]; omega
    simp only [h1, h2, h3, ↓reduceIte, Bool.false_eq_true]
    right; exact ⟨_, rfl⟩

theorem go_noerr : ∀ (ps : List (Nat × Nat)) (s : St) (acc : List Blk) (se : Bool),
    (∀ q ∈ s.script.gets, q.2 ≠ none) → (load.go ps s acc false se).2.1 = false
  | [], s, acc, se, _ => by unfold load.go; rfl
  | (m, n) :: rest, s, acc, se, hq => by
    unfold load.go
    rcases takeGet_spec s m n with htg | ⟨a, s1, htg, hm, hs1⟩ <;> rw [htg]
    · exact go_noerr rest s acc true hq
    · have hq1 : ∀ q ∈ s1.script.gets, q.2 ≠ none := fun q h => hq q (hs1.script.2.2 q h)
      rcases a with _ | b
      · exact absurd rfl (hq _ hm)
      · exact go_noerr rest s1 (acc ++ b) se hq1

theorem load_noerr (t : Task) (s : St) (st lim : Nat)
    (hq : ∀ q ∈ s.script.gets, q.2 ≠ none) :
    (load.go (parts t.batch t.conc st lim) s [] false false).2.1 ≠ true := by
  rw [go_noerr (parts t.batch t.conc st lim) s [] false hq]
  intro h; cases h

/-! ### the unwinding invariant -/

def isAbove (g : Cur) (x : Cur) : Bool := decide (g.num < x.num)

def keep (t : Task) (g : Cur) (r : TRow) : Bool := mine t r && decide (r.blk ≤ g.num)

structure Honest (c : Chain) (sc : Script) : Prop where
  latest : ∀ a ∈ sc.latest, a = some (c.head, c.hashAt c.head)
  hash : ∀ p ∈ sc.hash, p.2 ≠ none
  gets : ∀ q ∈ sc.gets, q.2 ≠ none

theorem Honest.mono {c : Chain} {a b : Script} (h : Honest c b) (hle : a.le b) : Honest c a :=
  ⟨fun x hx => h.latest x (hle.1 x hx), fun x hx => h.hash x (hle.2.1 x hx), fun x hx => h.gets x (hle.2.2 x hx)⟩

structure UInv (t : Task) (c : Chain) (g : Cur) (proj : List TRow) (v : DB) : Prop where
  gmem : g ∈ v.cur.filter (mineC t)
  nodup : ((v.cur.filter (mineC t)).map (·.num)).Nodup
  below : ∀ x ∈ v.cur.filter (mineC t), x.num ≤ g.num →
    t.start - 1 < x.num ∧ x.num ≤ c.head ∧ x.hash = c.hashAt x.num
  above : ∀ x ∈ v.cur.filter (mineC t), g.num < x.num → x.hash ≠ c.hashAt x.num
  grow : ∀ x ∈ v.cur.filter (mineC t), x.num < c.head
  rows : v.rows.filter (keep t g) = proj
  keys : KeysOK t c v
  none : (∀ x ∈ v.cur.filter (mineC t), x.num ≤ g.num) → ∀ r ∈ v.rows, mine t r = true → r.blk ≤ g.num

def orphans (t : Task) (g : Cur) (v : DB) : Nat := ((v.cur.filter (mineC t)).filter (isAbove g)).length

theorem delView_mine_cur (t : Task) (v : DB) (n : Nat) :
    (delView t v n).cur.filter (mineC t) = (v.cur.filter (mineC t)).filter (fun y => decide (y.num < n)) := by
  rw [delView_cur, List.filter_filter, List.filter_filter]
  apply List.filter_congr
  intro y _
  cases mineC t y
  · simp
  · simp only [Bool.true_and, Bool.and_true]
    by_cases hlt : y.num < n
    · simp [hlt]
    · simp [hlt]; omega

theorem latest_of_mem {t : Task} {v : DB} {g : Cur} (hg : g ∈ v.cur.filter (mineC t)) :
    ∃ x, v.latestCur t.src t.ig = some x := by
  cases h : v.latestCur t.src t.ig with
  | some x => exact ⟨x, rfl⟩
  | none =>
    have := (top_none (s0 := 0) h).2
    rw [this] at hg; cases hg

/-- one orphaned position is unwound: the invariant survives and the orphans are one fewer -/
theorem UInv.delete {t : Task} {c : Chain} {g : Cur} {proj : List TRow} {v : DB}
    (h : UInv t c g proj v) (x : Cur) (hx : v.latestCur t.src t.ig = some x) (hgx : g.num < x.num) :
    UInv t c g proj (delView t v x.num) ∧ orphans t g (delView t v x.num) < orphans t g v := by
  obtain ⟨_, hxm, hxmax⟩ := top_some (s0 := 0) hx
  have hcs := delView_mine_cur t v x.num
  have hmem : ∀ y, y ∈ (delView t v x.num).cur.filter (mineC t) ↔ y ∈ v.cur.filter (mineC t) ∧ y.num < x.num := by
    intro y; rw [hcs, List.mem_filter]; simp
  have hg' : g ∈ (delView t v x.num).cur.filter (mineC t) := (hmem g).mpr ⟨h.gmem, hgx⟩
  -- the previous position
  have hv1 : (v.delCur t.src t.ig x.num).cur = (delView t v x.num).cur := rfl
  have hg1 : g ∈ (v.delCur t.src t.ig x.num).cur.filter (mineC t) := by rw [hv1]; exact hg'
  obtain ⟨y, hy⟩ := latest_of_mem hg1
  obtain ⟨_, hym, hymax⟩ := top_some (s0 := 0) hy
  rw [hv1] at hym hymax
  have hyg : g.num ≤ y.num := hymax g hg'
  have hyx : y.num < x.num := ((hmem y).mp hym).2
  have hn : delN t (v.delCur t.src t.ig x.num) x.num = y.num + 1 := by
    unfold delN; rw [hy]; simp only; omega
  have hrows : (delView t v x.num).rows = v.rows.filter fun r => !(mine t r && decide (r.blk ≥ y.num + 1)) := by
    rw [delView_rows, hn]
  constructor
  · refine ⟨hg', ?_, ?_, ?_, ?_, ?_, ?_, ?_⟩
    · rw [hcs]
      exact (List.Sublist.map _ List.filter_sublist).nodup h.nodup
    · intro z hz; exact h.below z ((hmem z).mp hz).1
    · intro z hz; exact h.above z ((hmem z).mp hz).1
    · intro z hz; exact h.grow z ((hmem z).mp hz).1
    · rw [hrows, List.filter_filter, ← h.rows]
      apply List.filter_congr
      intro r _
      unfold keep
      cases mine t r <;> simp
      omega
    · obtain ⟨k1, k2⟩ := h.keys
      refine ⟨k1, fun r hr => k2 r ?_⟩
      rw [hrows] at hr
      exact (List.mem_filter.mp hr).1
    · intro hall r hr hm
      have := hall y hym
      rw [hrows] at hr
      have := (List.mem_filter.mp hr).2
      simp only [hm, Bool.true_and, Bool.not_eq_eq_eq_not, Bool.not_true, decide_eq_false_iff_not] at this
      omega
  · unfold orphans
    rw [hcs]
    have hsub : (((v.cur.filter (mineC t)).filter fun y => decide (y.num < x.num)).filter (isAbove g)).Sublist
        ((v.cur.filter (mineC t)).filter (isAbove g)) := List.Sublist.filter _ List.filter_sublist
    have hle := hsub.length_le
    have hne : (((v.cur.filter (mineC t)).filter fun y => decide (y.num < x.num)).filter (isAbove g)).length ≠
        ((v.cur.filter (mineC t)).filter (isAbove g)).length := by
      intro heq
      have := hsub.eq_of_length heq
      have hx1 : x ∈ (v.cur.filter (mineC t)).filter (isAbove g) := by
        rw [List.mem_filter]; exact ⟨hxm, by simp [isAbove, hgx]⟩
      rw [← this] at hx1
      have := (List.mem_filter.mp (List.mem_filter.mp hx1).1).2
      simp at this
    omega

/-- with no orphan left the view satisfies the growth invariant -/
theorem UInv.inv {t : Task} {c : Chain} {g : Cur} {v : DB} (hstart : 0 < t.start)
    (h : UInv t c g ((c.slice t.start (g.num - (t.start - 1))).flatMap (rowsFor t)) v)
    (x : Cur) (hx : v.latestCur t.src t.ig = some x) (hxg : x.num ≤ g.num) :
    Inv t c (t.start - 1) v ∧ x.num = g.num := by
  obtain ⟨htop, hxm, hxmax⟩ := top_some (s0 := t.start - 1) hx
  have hgx : g.num ≤ x.num := hxmax g h.gmem
  have hall : ∀ y ∈ v.cur.filter (mineC t), y.num ≤ g.num := fun y hy => by
    have := hxmax y hy; omega
  refine ⟨?_, by omega⟩
  rw [Inv_iff]
  refine ⟨fun y hy => h.below y hy (hall y hy), h.nodup, ?_⟩
  have e1 : v.rows.filter (mine t) = v.rows.filter (keep t g) := by
    apply List.filter_congr
    intro r hr
    unfold keep
    cases hm : mine t r with
    | false => rfl
    | true =>
      have := h.none hall r hr hm
      simp [this]
  rw [e1, h.rows]
  show _ = (c.slice (t.start - 1 + 1) (top t v (t.start - 1) - (t.start - 1))).flatMap (rowsFor t)
  rw [htop, show t.start - 1 + 1 = t.start by omega, show x.num = g.num by omega]

theorem unwind_loop {t : Task} {c : Chain} {g : Cur} (hc : c.WF) (hstart : 0 < t.start) (hb : 1 ≤ t.batch)
    (hcc : 1 ≤ t.conc) (hcb : t.conc * t.batch < 2 ^ 63) (hhead : c.head < 2 ^ 62)
    (hdeps : t.deps = []) (hstop : t.stop = 0) :
    ∀ fuel (s : St),
      UInv t c g ((c.slice t.start (g.num - (t.start - 1))).flatMap (rowsFor t)) s.view →
      ScriptOK c s.script → Honest c s.script → orphans t g s.view + 1 ≤ fuel →
      (converge.loop t none fuel s).scriptOk = true →
      (∃ n, (converge.loop t none fuel s).outcome = .ok n ∧ g.num < n) ∧
      Inv t c (t.start - 1) (converge.loop t none fuel s).db ∧
      (converge.loop t none fuel s).db.rows.filter (keep t g) =
        (c.slice t.start (g.num - (t.start - 1))).flatMap (rowsFor t) := by
  intro fuel
  induction fuel with
  | zero => intro s _ _ _ h; omega
  | succ n ih =>
    intro s hu hsc hh hfuel hok
    rw [loop_succ] at hok ⊢
    obtain ⟨x, hx⟩ := latest_of_mem hu.gmem
    obtain ⟨htop, hxm, hxmax⟩ := top_some (s0 := t.start - 1) hx
    have hxh : x.num < c.head := hu.grow x hxm
    have hgx : g.num ≤ x.num := hxmax g hu.gmem
    rcases plan_honest t s x c.head (c.hashAt c.head) hx hstop hdeps hb hh.latest hxh with ⟨r, hp, hr⟩ | ⟨s1, hp⟩
    · have hit : iter t none s = .ret r := by unfold iter; rw [hp]
      rw [hit] at hok
      simp only at hok
      rw [hr] at hok; cases hok
    · have hg := plan_go t none s s1 _ _ _ hp
      have hit : iter t none s = exec t none x.num x.hash (min (c.head - x.num) t.batch) s1 := by
        unfold iter; rw [hp]
      rw [hit] at hok ⊢
      unfold exec at hok ⊢
      revert hok
      cases hl : load t s1 x.hash (x.num + 1) (min (c.head - x.num) t.batch) with
      | mk lr s2 =>
      intro hok
      have hs2 : Same s1 s2 := by
        have := load_same t s1 x.hash (x.num + 1) (min (c.head - x.num) t.batch)
        rw [hl] at this; exact this
      have hss : Same s s2 := hg.same.trans hs2
      have hsc1 : ScriptOK c s1.script := hsc.mono hg.same.script
      have hne := load_noerr t s1 (x.num + 1) (min (c.head - x.num) t.batch) (hh.mono hg.same.script).gets
      rcases load_chain hc t s1 s2 x.hash (x.num + 1) _ lr hsc1 hb hcc hcb (by omega) (by omega) (by omega)
        (by omega) hl with h | ⟨_, h⟩ | ⟨k, hk1, hk2, hk3, ⟨h, hne'⟩ | ⟨h, heq⟩⟩
      · subst h; simp only at hok; cases hok
      · exact absurd h hne
      · -- an orphan on top: unwind it and loop
        subst h
        simp only at hok ⊢
        rw [delStep_none] at hok ⊢
        simp only at hok ⊢
        have hgx' : g.num < x.num := by
          apply Classical.byContradiction
          intro hle
          have := (hu.below x hxm (by omega)).2.2
          exact hne' (by rw [this]; rfl)
        obtain ⟨hu', horph⟩ := hu.delete x hx hgx'
        have horph' : orphans t g (delView t s2.view x.num) < orphans t g s.view := by
          rw [hss.view]; exact horph
        rw [← hss.view] at hu'
        exact ih _ hu' (hsc.mono hss.script) (hh.mono hss.script) (by simp only; omega) hok
      · -- the top is canonical: no orphan is left, index the next blocks
        subst h
        simp only at hok ⊢
        have hxg : x.num ≤ g.num := by
          apply Classical.byContradiction
          intro hlt
          exact hu.above x hxm (by omega) (by rw [heq]; rfl)
        obtain ⟨hinv, hxeq⟩ := hu.inv hstart x hx hxg
        rcases noclash k hinv hu.keys with ⟨hcl1, hcl2⟩ | hk0
        · rw [htop] at hcl1 hcl2
          obtain ⟨last, hl1, hl2, hl3, _⟩ := slice_last hc (x.num + 1) k hk1 hk3
          have hcs := commitStep_none t s2 (c.slice (x.num + 1) k) last hl1
            (by rw [hss.view]; exact hcl1) (by rw [hss.view, hl2]; rw [show x.num + 1 + k - 1 = x.num + k by omega]; exact hcl2)
          rw [hcs]
          simp only
          rw [hss.view]
          refine ⟨⟨last.num, rfl, by omega⟩, ?_, ?_⟩
          · have := Inv_committed k last hinv hk1 (by rw [htop]; omega) (by rw [htop]; omega) (by rw [hl3, hl2])
            rw [htop] at this
            exact this
          · show List.filter _ (s.view.rows ++ newRowsOf t _) = _
            rw [List.filter_append, hu.rows]
            have : List.filter (keep t g) (newRowsOf t (c.slice (x.num + 1) k)) = [] := by
              rw [List.filter_eq_nil_iff]
              intro r hr
              obtain ⟨b, hb1, hb2⟩ := newRows_blk hr
              have := (mem_slice_num hc hb1).1
              unfold keep
              simp
              intro _; omega
            rw [this, List.append_nil]
        · omega

end Shovel.World
