import Shovel.Proofs.AbiStep
/-
  C09 helper lemmas, part 5: `scan` on an encoding, array-free ("leaf") mode: the selected leaves of
  a value without row-creating arrays are written into the row `r`.
-/
namespace Shovel.Abi

mutual
/-- selected column positions in declaration order (same as `Ty.selList` of the statement) -/
def Ty.sels : Ty → List Nat
  | .stat s => s.toList
  | .dyn s => s.toList
  | .arr _ e => e.sels
  | .tup fs => fs.sels
def Tys.sels : Tys → List Nat
  | .nil => []
  | .cons t ts => t.sels ++ ts.sels
end

theorem Loc.single {b : Buf} {p lo hi : Nat} {X : List Nat} (h : (b.data.take hi).drop lo = X)
    (hX : X ≠ []) : Loc b [(p, (lo, hi))] [(p, X)] := by
  unfold Loc
  simp only [List.map_cons, List.map_nil, locF, bytesAt, h]
  rw [List.filter_cons_of_pos (by simpa using hX)]; rfl

theorem scanL_stat {b : Buf} (hb : BufOK b) (w : Nat) (sel : Option Nat) (v : Val) (off : Nat)
    (hw : ∀ p ∈ (Ty.stat sel).sels, p < w) (hwt : WellTyped (.stat sel) v = true)
    (hat : At b off (enc (.stat sel) v)) :
    ∃ lc, Loc b lc (leaves (.stat sel) v) ∧
      ∀ r s, RowOK s r w → scan b (.stat sel) off r s = .ok (writeCells r lc s) := by
  cases v <;> simp only [WellTyped, Bool.false_eq_true] at hwt
  rename_i wd
  have hl : wd.length = 32 := by simp at hwt; exact hwt.1
  rw [enc] at hat
  cases sel with
  | none => exact ⟨[], Loc.nil b, fun r s _ => scan_stat_none hat hl r s⟩
  | some p =>
    refine ⟨[(p, (off, off + 32))], ?_, fun r s hr => ?_⟩
    · rw [leaves]
      exact Loc.single (hat.read' (by omega)) (by intro h; rw [h] at hl; simp at hl)
    · exact scan_stat_some hb hat hl hr (hw p (by simp [Ty.sels]))

theorem scanL_dyn {b : Buf} (hb : BufOK b) (w : Nat) (sel : Option Nat) (v : Val) (off : Nat)
    (hw : ∀ p ∈ (Ty.dyn sel).sels, p < w) (hwt : WellTyped (.dyn sel) v = true)
    (hat : At b off (enc (.dyn sel) v)) :
    ∃ lc, Loc b lc (leaves (.dyn sel) v) ∧
      ∀ r s, RowOK s r w → scan b (.dyn sel) off r s = .ok (writeCells r lc s) := by
  cases v <;> simp only [WellTyped, Bool.false_eq_true] at hwt
  rename_i bs
  rw [enc] at hat
  obtain ⟨z, hz⟩ := padTo32_eq bs
  rw [hz] at hat
  have hsc := scan_dyn hb hat (by simp) sel
  by_cases h0 : bs.length = 0
  · refine ⟨[], ?_, fun r s _ => by rw [hsc, if_pos h0]; rfl⟩
    have : bs = [] := List.eq_nil_of_length_eq_zero h0
    subst this
    cases sel <;> rfl
  · cases sel with
    | none => exact ⟨[], Loc.nil b, fun r s _ => by rw [hsc, if_neg h0]; rfl⟩
    | some p =>
      refine ⟨[(p, (off + 32, off + 32 + bs.length))], ?_, fun r s hr => ?_⟩
      · rw [leaves]
        have h1 : At b (off + 32) bs := (hat.right' (by simp)).left
        exact Loc.single (h1.read' rfl) (by intro h; rw [h] at h0; simp at h0)
      · rw [hsc, if_neg h0]
        exact setCol_ok _ hr (hw p (by simp [Ty.sels]))

mutual
theorem scanL {b : Buf} (hb : BufOK b) (w : Nat) : (t : Ty) → (v : Val) → (off : Nat) →
    (∀ p ∈ t.sels, p < w) → t.hasSelectedArr = false → WellTyped t v = true →
    At b off (enc t v) →
    ∃ lc, Loc b lc (leaves t v) ∧ ∀ r s, RowOK s r w → scan b t off r s = .ok (writeCells r lc s)
  | .stat sel, v, off, hw, _, hwt, hat => scanL_stat hb w sel v off hw hwt hat
  | .dyn sel, v, off, hw, _, hwt, hat => scanL_dyn hb w sel v off hw hwt hat
  | .arr k e, v, off, _, hns, _, _ => by
    have hns' : e.hasSelect = false := by simpa [Ty.hasSelectedArr] using hns
    refine ⟨[], ?_, fun r s _ => ?_⟩
    · cases v <;> exact Loc.nil b
    · rw [scan, hns']; rfl
  | .tup fs, v, off, hw, hns, hwt, hat => by
    cases v <;> simp only [WellTyped, Bool.false_eq_true] at hwt
    rename_i vs
    by_cases hsel : fs.hasSelect = true
    · rw [enc, encTup] at hat
      have hl := encTupParts_head_length fs vs hwt (headLenTup fs)
      obtain ⟨lc, h1, h2⟩ := scanTupL hb w fs vs off 0 (headLenTup fs)
        (by simpa [Ty.sels] using hw) (by simpa [Ty.hasSelectedArr] using hns) hwt
        hat.left (hat.right' (by rw [hl]))
      refine ⟨lc, by rw [leaves]; exact h1, fun r s hr => ?_⟩
      rw [scan_tup, hsel]
      exact h2 r s hr
    · have hsel' : fs.hasSelect = false := by simpa using hsel
      refine ⟨[], ?_, fun r s _ => by rw [scan_tup, hsel']; rfl⟩
      rw [leaves_noselect (.tup fs) (.tup vs) (by simpa [Ty.hasSelect] using hsel')]
      exact Loc.nil b
theorem scanTupL {b : Buf} (hb : BufOK b) (w : Nat) : (fs : Tys) → (vs : Vals) → (off pos T : Nat) →
    (∀ p ∈ fs.sels, p < w) → fs.hasSelectedArr = false → wellTypedTup fs vs = true →
    At b (off + pos) (encTupParts fs vs T).1 → At b (off + T) (encTupParts fs vs T).2 →
    ∃ lc, Loc b lc (leavesTup fs vs) ∧
      ∀ r s, RowOK s r w → scanTup b fs off pos r s = .ok (writeCells r lc s)
  | .nil, vs, off, pos, T, _, _, _, _, _ => by
    refine ⟨[], ?_, fun r s _ => by rw [scanTup_nil]; rfl⟩
    cases vs <;> exact Loc.nil b
  | .cons f fr, vs, off, pos, T, hw, hns, hwt, hat1, hat2 => by
    cases vs with
    | nil => simp [wellTypedTup] at hwt
    | cons v vr =>
      rw [wellTypedTup, Bool.and_eq_true] at hwt
      rw [Tys.hasSelectedArr, Bool.or_eq_false_iff] at hns
      have hwf : ∀ p ∈ f.sels, p < w := fun p hp => hw p (by simp [Tys.sels, hp])
      have hwr : ∀ p ∈ fr.sels, p < w := fun p hp => hw p (by simp [Tys.sels, hp])
      rw [encTupParts_cons] at hat1 hat2
      by_cases hs : f.isStatic = true
      · rw [if_pos hs] at hat1 hat2
        simp only at hat1 hat2
        have hlen := enc_static_length f v hs hwt.1
        obtain ⟨lc1, a1, a2⟩ := scanL hb w f v (off + pos) hwf hns.1 hwt.1 hat1.left
        obtain ⟨lc2, b1, b2⟩ := scanTupL hb w fr vr off (pos + f.size) T hwr hns.2 hwt.2
          (hat1.right' (by rw [hlen]; omega)) hat2
        refine ⟨lc1 ++ lc2, by rw [leavesTup]; exact a1.append b1, fun r s hr => ?_⟩
        have hbd := hat1.bound
        rw [scanTup_cons_static fr hs (by omega) (a2 r s hr), b2 r _ (RowOK_writeCells lc1 hr),
          writeCells_append]
      · rw [if_neg hs] at hat1 hat2
        simp only at hat1 hat2
        obtain ⟨lc1, a1, a2⟩ := scanL hb w f v (off + T) hwf hns.1 hwt.1 hat2.left
        obtain ⟨lc2, b1, b2⟩ := scanTupL hb w fr vr off (pos + 32) (T + (enc f v).length) hwr hns.2
          hwt.2 (hat1.right' (by simp; omega)) (hat2.right' (by omega))
        refine ⟨lc1 ++ lc2, by rw [leavesTup]; exact a1.append b1, fun r s hr => ?_⟩
        have hbd := hat2.bound
        rw [scanTup_cons_dyn hb fr hs hat1 (by omega) (a2 r s hr),
          b2 r _ (RowOK_writeCells lc1 hr), writeCells_append]
end

end Shovel.Abi
