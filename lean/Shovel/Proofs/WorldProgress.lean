import Shovel.Proofs.WorldInv
/-
  Forward (liveness) analysis of one iteration: when the script answers every call the step makes,
  the planning phase goes on to `load`, `load` returns the next slice of the chain, and the
  commit succeeds.  (The safety lemmas in the other `World*` files only say what a step may do;
  the lemmas here say what it does.)
-/
namespace Shovel.World

/-! ### consuming an entry does not disturb lookups under another key -/

theorem find?_erase_ne {α} [BEq α] [LawfulBEq α] (p : α → Bool) (g : α) (hg : p g = false) :
    ∀ l : List α, (l.erase g).find? p = l.find? p
  | [] => rfl
  | a :: l => by
    rw [List.erase_cons]
    cases hag : a == g with
    | true =>
      have : a = g := eq_of_beq hag
      subst this
      simp only [↓reduceIte, List.find?_cons, hg]
    | false =>
      simp only [Bool.false_eq_true, ↓reduceIte, List.find?_cons]
      rw [find?_erase_ne p g hg l]

/-! ### `latest()` -/

theorem localRes_full {t : Task} {c : Chain} (s : St) (hstart : 0 < t.start)
    (hinv : ∀ x ∈ s.view.cur.filter (mineC t), t.start - 1 < x.num ∧ x.num ≤ c.head ∧ x.hash = c.hashAt x.num)
    (hhash : s.view.latestCur t.src t.ig = none →
      s.script.hash.find? (fun g => g.1 == t.start - 1) = some (t.start - 1, some (c.hashAt (t.start - 1)))) :
    ∃ s', localRes t s =
        (some (some (top t s.view (t.start - 1), c.hashAt (top t s.view (t.start - 1)))), s') ∧
      s'.script.latest = s.script.latest ∧ s'.script.gets = s.script.gets := by
  unfold localRes
  cases hl : s.view.latestCur t.src t.ig with
  | some x =>
    obtain ⟨h1, h2, _⟩ := top_some (s0 := t.start - 1) hl
    simp only []
    rw [h1, ← (hinv x h2).2.2]
    exact ⟨s, rfl, rfl, rfl⟩
  | none =>
    obtain ⟨h1, _⟩ := top_none (s0 := t.start - 1) hl
    have hh := hhash hl
    simp only [gt_iff_lt, hstart, ↓reduceIte]
    rw [h1]
    unfold takeHash
    rw [hh]
    exact ⟨_, rfl, rfl, rfl⟩

/-! ### the planning phase -/

theorem plan_full {t : Task} {c : Chain} (s : St) (n : Nat) (h0 : String) (rest : List (Option (Nat × String)))
    (hstart : 0 < t.start) (hdeps : t.deps = [])
    (hinv : ∀ x ∈ s.view.cur.filter (mineC t), t.start - 1 < x.num ∧ x.num ≤ c.head ∧ x.hash = c.hashAt x.num)
    (hhash : s.view.latestCur t.src t.ig = none →
      s.script.hash.find? (fun g => g.1 == t.start - 1) = some (t.start - 1, some (c.hashAt (t.start - 1))))
    (hlat : s.script.latest = some (n, h0) :: rest)
    (hnd : ¬ (t.stop > 0 ∧ top t s.view (t.start - 1) ≥ t.stop))
    (hb : 1 ≤ t.batch)
    (hlt : top t s.view (t.start - 1) < clip t n) :
    ∃ s1, plan t none s = .go (top t s.view (t.start - 1)) (c.hashAt (top t s.view (t.start - 1)))
        (min (clip t n - top t s.view (t.start - 1)) t.batch) s1 ∧
      s1.script.gets = s.script.gets := by
  obtain ⟨s', hl, hlat', hgets'⟩ :=
    localRes_full (t := t) (c := c) { s with nLatest := s.nLatest + 1 } hstart hinv hhash
  dsimp only at hl hlat' hgets'
  unfold plan
  simp only [hit_none, Bool.false_eq_true, ↓reduceIte]
  rw [hl]
  simp only [hnd, ↓reduceIte]
  have htl : takeLatest s' = (some (some (n, h0)), { s' with script := { s'.script with latest := rest } }) := by
    unfold takeLatest
    rw [hlat', hlat]
  rw [htl]
  simp only []
  have hd : ∀ s'' : St, depStep t none n s'' = (some (some n), s'') := by
    intro s''; unfold depStep; simp [hdeps]
  rw [hd]
  simp only []
  generalize top t s.view (t.start - 1) = ln at *
  have h1 : ¬ clip t n < ln := by omega
  have h2 : (ln == clip t n) = false := by
    rw [beq_eq_false_iff_ne]; omega
  have h3 : (min (clip t n - ln) t.batch == 0) = false := by
    rw [beq_eq_false_iff_ne]; omega
  simp only [gt_iff_lt, h1, h2, h3, ↓reduceIte, Bool.false_eq_true]
  exact ⟨_, rfl, hgets'⟩

/-! ### `load` -/

/-- every partition is answered: no failure and no missing answer is flagged -/
theorem go_full {c : Chain} : ∀ (ps : List (Nat × Nat)) (st : Nat) (s : St) (acc : List Blk) (e se : Bool),
    Consec st ps →
    (∀ p ∈ ps, s.script.gets.find? (fun g => g.1 == p) = some (p, some (c.slice p.1 p.2))) →
    (load.go ps s acc e se).2.1 = e ∧ (load.go ps s acc e se).2.2.1 = se
  | [], _, s, acc, e, se, _, _ => by unfold load.go; exact ⟨rfl, rfl⟩
  | (m, n) :: rest, st, s, acc, e, se, hcs, hg => by
    obtain ⟨hm, hn, hcs⟩ := hcs
    subst hm
    have h1 := hg (m, n) (List.mem_cons_self ..)
    unfold load.go
    have htg : takeGet s m n = (some (some (c.slice m n)),
        { s with script := { s.script with gets := s.script.gets.erase ((m, n), some (c.slice m n)) } }) := by
      unfold takeGet
      rw [h1]
    rw [htg]
    simp only []
    apply go_full rest (m + n) _ _ e se hcs
    intro p hp
    have hlow := (consec_lower _ _ hcs p hp).1
    show (s.script.gets.erase ((m, n), some (c.slice m n))).find? (fun g => g.1 == p) = _
    rw [find?_erase_ne]
    · exact hg p (List.mem_cons_of_mem _ hp)
    · show ((m, n) == p) = false
      rw [beq_eq_false_iff_ne]
      intro h; rw [← h] at hlow; simp only at hlow; omega

/-- `load` when every range above `st - 1` is answered: the next blocks, no unwinding -/
theorem load_full {c : Chain} (hc : c.WF) (t : Task) (s : St) (st lim : Nat)
    (hsc : ScriptOK c s.script) (hb : 1 ≤ t.batch) (hcc : 1 ≤ t.conc) (hcb : t.conc * t.batch < 2 ^ 63)
    (hl : 1 ≤ lim) (hlb : lim ≤ t.batch) (hs : st + lim < 2 ^ 63) (hst : 1 ≤ st) (hhd : st + lim - 1 ≤ c.head)
    (hgets : ∀ m n, st ≤ m → 1 ≤ n → m + n - 1 ≤ c.head →
      s.script.gets.find? (fun g => g.1 == (m, n)) = some ((m, n), some (c.slice m n))) :
    ∃ k s2, 1 ≤ k ∧ k ≤ lim ∧ st + k - 1 ≤ c.head ∧
      load t s (c.hashAt (st - 1)) st lim = (.blocks (c.slice st k), s2) ∧ s2.view = s.view := by
  cases h : load t s (c.hashAt (st - 1)) st lim with
  | mk lr s2 =>
  have hsame : Same s s2 := by
    have := load_same t s (c.hashAt (st - 1)) st lim
    rw [h] at this; exact this
  obtain ⟨bs, e, se, hgo, hcase⟩ := load_cases t s s2 _ st lim lr h
  obtain ⟨_, _, hp3⟩ := parts_spec t.batch t.conc st lim hb hcc hl hlb hs hcb
  have hfl := go_full (c := c) (parts t.batch t.conc st lim) st s [] false false hp3 (by
    intro p hp
    obtain ⟨q1, q2⟩ := consec_lower _ _ hp3 p hp
    have q3 := parts_upper t.batch t.conc st lim hb hcc hlb hcb p hp
    exact hgets p.1 p.2 q1 q2 (by omega))
  rw [hgo] at hfl
  simp only at hfl
  obtain ⟨he, hse⟩ := hfl
  subst he; subst hse
  rcases load_chain hc t s s2 _ st lim lr hsc hb hcc hcb hl hlb hs hst h
    with h' | ⟨_, h'⟩ | ⟨k, hk1, hk2, hk3, ⟨_, hne⟩ | ⟨h', _⟩⟩
  · subst h'
    rcases hcase with ⟨hx, _⟩ | ⟨_, hx, _⟩ | ⟨_, _, ⟨_, hx⟩ | ⟨_, _, _, ⟨_, hx⟩ | ⟨_, _, hx⟩ | ⟨_, _, hx⟩⟩⟩ <;> cases hx
  · rw [hgo] at h'; cases h'
  · exact absurd rfl hne
  · subst h'
    exact ⟨k, s2, hk1, hk2, hk3, rfl, hsame.view⟩

/-! ### one whole iteration -/

theorem iter_full {t : Task} {c : Chain} (hc : c.WF) (s : St) (n : Nat) (h0 : String)
    (rest : List (Option (Nat × String)))
    (hsc : ScriptOK c s.script) (hstart : 0 < t.start) (hb : 1 ≤ t.batch) (hcc : 1 ≤ t.conc)
    (hcb : t.conc * t.batch < 2 ^ 63) (hhead : c.head < 2 ^ 62) (hdeps : t.deps = [])
    (hinv : Inv t c (t.start - 1) s.view) (hk : KeysOK t c s.view)
    (hhash : s.view.latestCur t.src t.ig = none →
      s.script.hash.find? (fun g => g.1 == t.start - 1) = some (t.start - 1, some (c.hashAt (t.start - 1))))
    (hlat : s.script.latest = some (n, h0) :: rest) (hn : n ≤ c.head)
    (hgets : ∀ m k, top t s.view (t.start - 1) < m → 1 ≤ k → m + k - 1 ≤ c.head →
      s.script.gets.find? (fun g => g.1 == (m, k)) = some ((m, k), some (c.slice m k)))
    (hnd : ¬ (t.stop > 0 ∧ top t s.view (t.start - 1) ≥ t.stop))
    (hlt : top t s.view (t.start - 1) < clip t n) :
    ∃ k last, 1 ≤ k ∧ k ≤ t.batch ∧ top t s.view (t.start - 1) + k ≤ clip t n ∧
      last.num = top t s.view (t.start - 1) + k ∧ last.hash = c.hashAt (top t s.view (t.start - 1) + k) ∧
      iter t none s = .ret { outcome := .ok last.num, mid := some s.view,
                             db := committed t s.view (c.slice (top t s.view (t.start - 1) + 1) k) last } := by
  have hi1 := ((Inv_iff _ _ _ _).mp hinv).1
  obtain ⟨s1, hplan, hg1⟩ := plan_full (c := c) s n h0 rest hstart hdeps hi1 hhash hlat hnd hb hlt
  have hpg := plan_go t none s s1 _ _ _ hplan
  have hsc1 : ScriptOK c s1.script := hsc.mono hpg.same.script
  have hcl := clip_le t n
  have hnc := noclash (t := t) (c := c) (v := s.view)
  generalize top t s.view (t.start - 1) = ln at *
  obtain ⟨k, s2, hk1, hk2, hk3, hload, hv2⟩ := load_full hc t s1 (ln + 1) (min (clip t n - ln) t.batch)
    hsc1 hb hcc hcb (by omega) (by omega) (by omega) (by omega) (by omega) (by
      intro m k h1 h2 h3
      rw [hg1]; exact hgets m k (by omega) h2 h3)
  rw [Nat.add_sub_cancel] at hload
  obtain ⟨last, hl1, hl2, hl3, _⟩ := slice_last hc (ln + 1) k hk1 hk3
  have hv : s2.view = s.view := hv2.trans hpg.same.view
  refine ⟨k, last, hk1, by omega, by omega, by omega, by rw [hl3]; congr 1; omega, ?_⟩
  unfold iter
  rw [hplan]
  simp only [exec]
  rw [hload]
  simp only []
  rcases hnc k hinv hk with ⟨c1, c2⟩ | h0
  · rw [commitStep_none t s2 _ last hl1 (by rw [hv]; exact c1)
      (by rw [hv, hl2, show ln + 1 + k - 1 = ln + k by omega]; exact c2), hv]
  · omega

end Shovel.World
