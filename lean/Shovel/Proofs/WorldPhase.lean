import Shovel.Proofs.WorldIter
/-
  What each phase of an iteration does to the state: the committed database and the view are
  untouched by source calls, the script only shrinks, answers come from the script.
-/
namespace Shovel.World

/-- every answer of `a` is an answer of `b` -/
def Script.le (a b : Script) : Prop :=
  (∀ x ∈ a.latest, x ∈ b.latest) ∧ (∀ x ∈ a.hash, x ∈ b.hash) ∧ (∀ x ∈ a.gets, x ∈ b.gets)

theorem Script.le_refl (a : Script) : a.le a := ⟨fun _ h => h, fun _ h => h, fun _ h => h⟩
theorem Script.le_trans {a b c : Script} (h1 : a.le b) (h2 : b.le c) : a.le c :=
  ⟨fun x h => h2.1 x (h1.1 x h), fun x h => h2.2.1 x (h1.2.1 x h), fun x h => h2.2.2 x (h1.2.2 x h)⟩

/-- `s'` is `s` after some source calls -/
structure Same (s s' : St) : Prop where
  db : s'.db = s.db
  view : s'.view = s.view
  script : s'.script.le s.script

theorem Same.refl (s : St) : Same s s := ⟨rfl, rfl, Script.le_refl _⟩
theorem Same.trans {a b c : St} (h1 : Same a b) (h2 : Same b c) : Same a c :=
  ⟨h2.db.trans h1.db, h2.view.trans h1.view, Script.le_trans h2.script h1.script⟩

theorem ScriptOK.mono {c : Chain} {a b : Script} (h : ScriptOK c b) (hle : a.le b) : ScriptOK c a :=
  ⟨fun x hx => h.latest x (hle.1 x hx), fun x hx => h.hash x (hle.2.1 x hx), fun x hx => h.gets x (hle.2.2 x hx)⟩

/-! ### source calls -/

theorem takeLatest_spec (s : St) :
    (takeLatest s = (none, s) ∧ s.script.latest = []) ∨
    ∃ a s', takeLatest s = (some a, s') ∧ a ∈ s.script.latest ∧ Same s s' := by
  unfold takeLatest
  cases h : s.script.latest with
  | nil => left; exact ⟨rfl, rfl⟩
  | cons a rest =>
    right
    refine ⟨a, _, rfl, List.mem_cons_self .., rfl, rfl, ?_⟩
    refine ⟨fun x hx => ?_, fun _ hx => hx, fun _ hx => hx⟩
    show x ∈ s.script.latest
    rw [h]; exact List.mem_cons_of_mem _ hx

theorem takeHash_spec (s : St) (n : Nat) :
    takeHash s n = (none, s) ∨
    ∃ a s', takeHash s n = (some a, s') ∧ (n, a) ∈ s.script.hash ∧ Same s s' := by
  unfold takeHash
  cases h : s.script.hash.find? (fun g => g.1 == n) with
  | none => left; rfl
  | some g =>
    right
    have h1 := List.find?_some h
    have h2 := List.mem_of_find?_eq_some h
    have h3 : g.1 = n := by simpa using h1
    refine ⟨g.2, _, rfl, ?_, rfl, rfl, ?_⟩
    · rw [← h3]; exact h2
    · exact ⟨fun _ hx => hx, fun x hx => List.mem_of_mem_erase hx, fun _ hx => hx⟩

theorem takeGet_spec (s : St) (m n : Nat) :
    takeGet s m n = (none, s) ∨
    ∃ a s', takeGet s m n = (some a, s') ∧ ((m, n), a) ∈ s.script.gets ∧ Same s s' := by
  unfold takeGet
  cases h : s.script.gets.find? (fun g => g.1 == (m, n)) with
  | none => left; rfl
  | some g =>
    right
    have h1 := List.find?_some h
    have h2 := List.mem_of_find?_eq_some h
    have h3 : g.1 = (m, n) := by simpa using h1
    refine ⟨g.2, _, rfl, ?_, rfl, rfl, ?_⟩
    · rw [← h3]; exact h2
    · exact ⟨fun _ hx => hx, fun _ hx => hx, fun x hx => List.mem_of_mem_erase hx⟩

theorem takeLatest_same (s : St) : Same s (takeLatest s).2 := by
  rcases takeLatest_spec s with ⟨h, _⟩ | ⟨a, s', h, _, hs⟩ <;> rw [h]
  · exact Same.refl _
  · exact hs

theorem takeHash_same (s : St) (n : Nat) : Same s (takeHash s n).2 := by
  rcases takeHash_spec s n with h | ⟨a, s', h, _, hs⟩ <;> rw [h]
  · exact Same.refl _
  · exact hs

theorem takeGet_same (s : St) (m n : Nat) : Same s (takeGet s m n).2 := by
  rcases takeGet_spec s m n with h | ⟨a, s', h, _, hs⟩ <;> rw [h]
  · exact Same.refl _
  · exact hs

/-! ### `latest()` -/

/-- where the local position of an iteration comes from -/
inductive LocalFacts (t : Task) (v : DB) (sc : Script) (ln : Nat) (lh : String) : Prop where
  | cur (c : Cur) (h : v.latestCur t.src t.ig = some c) (hn : ln = c.num) (hh : lh = c.hash)
  | start (h : v.latestCur t.src t.ig = none) (hs : 0 < t.start) (hn : ln = t.start - 1)
      (hh : (t.start - 1, some lh) ∈ sc.hash)
  | head (h : v.latestCur t.src t.ig = none) (hs : t.start = 0) (n : Nat) (h0 : String)
      (hl : some (n, h0) ∈ sc.latest) (hn : ln = (n + U64 - 1) % U64) (hh : (ln, some lh) ∈ sc.hash)

theorem localRes_same (t : Task) (s : St) : Same s (localRes t s).2 := by
  unfold localRes
  split
  · exact Same.refl _
  · split
    · have := takeHash_same s (t.start - 1)
      split <;> rename_i h <;> rw [h] at this <;> exact this
    · have h1 := takeLatest_same s
      split <;> rename_i h <;> rw [h] at h1
      · exact h1
      · exact h1
      · rename_i n _ s'
        have h2 := takeHash_same s' ((n + U64 - 1) % U64)
        split <;> rename_i h' <;> rw [h'] at h2 <;> exact h1.trans h2

theorem localRes_some (t : Task) (s s' : St) (ln : Nat) (lh : String)
    (h : localRes t s = (some (some (ln, lh)), s')) : LocalFacts t s.view s.script ln lh := by
  unfold localRes at h
  split at h
  · rename_i c hc
    cases h
    exact .cur c hc rfl rfl
  · rename_i hc
    split at h
    · rename_i hs
      rcases takeHash_spec s (t.start - 1) with h1 | ⟨a, s1, h1, hm, _⟩ <;> rw [h1] at h
      · cases h
      · cases a with
        | none => cases h
        | some x =>
          simp only [Prod.mk.injEq, Option.some.injEq] at h
          obtain ⟨⟨rfl, rfl⟩, rfl⟩ := h
          exact .start hc hs rfl hm
    · rename_i hs
      rcases takeLatest_spec s with ⟨h1, _⟩ | ⟨a, s1, h1, hm, hsame⟩ <;> rw [h1] at h
      · cases h
      · rcases a with _ | ⟨n, h0⟩
        · cases h
        · simp only at h
          rcases takeHash_spec s1 ((n + U64 - 1) % U64) with h2 | ⟨b, s2, h2, hm2, _⟩ <;> rw [h2] at h
          · cases h
          · cases b with
            | none => cases h
            | some x =>
              simp only [Prod.mk.injEq, Option.some.injEq] at h
              obtain ⟨⟨rfl, rfl⟩, rfl⟩ := h
              exact .head hc (by omega) n h0 hm rfl (hsame.script.2.1 _ hm2)

/-- a failed `latest()` is a failed source call -/
theorem localRes_none (t : Task) (s s' : St) (h : localRes t s = (some none, s')) :
    none ∈ s.script.latest ∨ ∃ n, (n, none) ∈ s.script.hash := by
  unfold localRes at h
  split at h
  · cases h
  · split at h
    · rcases takeHash_spec s (t.start - 1) with h1 | ⟨a, s1, h1, hm, _⟩ <;> rw [h1] at h
      · cases h
      · cases a with
        | none => exact .inr ⟨_, hm⟩
        | some x => cases h
    · rcases takeLatest_spec s with ⟨h1, _⟩ | ⟨a, s1, h1, hm, hsame⟩ <;> rw [h1] at h
      · cases h
      · rcases a with _ | ⟨n, h0⟩
        · exact .inl hm
        · simp only at h
          rcases takeHash_spec s1 ((n + U64 - 1) % U64) with h2 | ⟨b, s2, h2, hm2, _⟩ <;> rw [h2] at h
          · cases h
          · cases b with
            | none => exact .inr ⟨_, hsame.script.2.1 _ hm2⟩
            | some x => cases h

/-! ### dependencies -/

theorem depStep_same (t : Task) (f : Option Pos) (g : Nat) (s : St) : Same s (depStep t f g s).2 := by
  unfold depStep
  simp only []
  split
  · exact Same.refl _
  · split
    · exact ⟨rfl, rfl, Script.le_refl _⟩
    · split
      · exact ⟨rfl, rfl, Script.le_refl _⟩
      · split <;> exact ⟨rfl, rfl, Script.le_refl _⟩

theorem depStep_some (t : Task) (f : Option Pos) (g : Nat) (s s' : St) (target0 : Nat)
    (h : depStep t f g s = (some (some target0), s')) :
    (t.deps = [] ∧ target0 = g) ∨
    (t.deps ≠ [] ∧ ∃ dn dh, s.view.depTarget t.src t.deps = some (dn, dh) ∧ dn ≠ 0 ∧ target0 ≤ dn ∧ target0 ≤ g) := by
  unfold depStep at h
  simp only [] at h
  split at h
  · rename_i he
    left
    simp only [Prod.mk.injEq, Option.some.injEq] at h
    exact ⟨List.isEmpty_iff.mp he, h.1.symm⟩
  · rename_i he
    right
    refine ⟨fun hd => he (by rw [hd]; rfl), ?_⟩
    split at h
    · cases h
    · split at h
      · cases h
      · rename_i dn dh hdt
        split at h
        · cases h
        · rename_i hz
          simp only [Prod.mk.injEq, Option.some.injEq] at h
          refine ⟨dn, dh, hdt, by simpa using hz, ?_, ?_⟩ <;> · rw [← h.1]; split <;> omega

/-! ### the planning half of an iteration -/

theorem hit_none (p : Pos) : hit none p = false := rfl

/-- what the dependency gate established -/
def DepFacts (t : Task) (v : DB) (g target0 : Nat) : Prop :=
  (t.deps = [] ∧ target0 = g) ∨
  (t.deps ≠ [] ∧ ∃ dn dh, v.depTarget t.src t.deps = some (dn, dh) ∧ dn ≠ 0 ∧ target0 ≤ dn ∧ target0 ≤ g)

structure PlanGo (t : Task) (s : St) (ln : Nat) (lh : String) (d : Nat) (s' : St) : Prop where
  same : Same s s'
  loc : LocalFacts t s.view s.script ln lh
  notdone : ¬ (t.stop > 0 ∧ ln ≥ t.stop)
  ex : ∃ g gh target0, some (g, gh) ∈ s.script.latest ∧ DepFacts t s.view g target0 ∧
    ln < clip t target0 ∧ d = min (clip t target0 - ln) t.batch ∧ 1 ≤ d

theorem plan_go (t : Task) (f : Option Pos) (s s' : St) (ln : Nat) (lh : String) (d : Nat)
    (h : plan t f s = .go ln lh d s') : PlanGo t s ln lh d s' := by
  unfold plan at h
  simp only [] at h
  split at h
  · cases h
  cases hlr : localRes t { s with nLatest := s.nLatest + 1 } with
  | mk a s1 =>
  have hs1 : Same s s1 := by
    have := localRes_same t { s with nLatest := s.nLatest + 1 }
    rw [hlr] at this
    exact ⟨this.db, this.view, this.script⟩
  rw [hlr] at h
  rcases a with _ | _ | ⟨localNum, localHash⟩
  · cases h
  · cases h
  have hloc := localRes_some t _ _ _ _ hlr
  simp only [] at h
  split at h
  · cases h
  rename_i hnd
  rcases takeLatest_spec s1 with ⟨h1, _⟩ | ⟨a, s2, h1, hm, hs2⟩ <;> rw [h1] at h
  · cases h
  rcases a with _ | ⟨g, gh⟩
  · cases h
  simp only [] at h
  cases hds : depStep t f g s2 with
  | mk a s3 =>
  have hs3 : Same s2 s3 := by
    have := depStep_same t f g s2
    rw [hds] at this; exact this
  rw [hds] at h
  rcases a with _ | _ | target0
  · cases h
  · cases h
  have hdep := depStep_some t f g s2 s3 target0 hds
  simp only [] at h
  split at h
  · cases h
  rename_i hgt
  split at h
  · cases h
  rename_i hne
  split at h
  · cases h
  rename_i hd0
  cases h
  have hne' : ln ≠ clip t target0 := by simpa using hne
  have hd0' : min (clip t target0 - ln) t.batch ≠ 0 := by simpa using hd0
  refine ⟨hs1.trans (hs2.trans hs3), hloc, hnd, g, gh, target0, hs1.script.1 _ hm, ?_, by omega, rfl, by omega⟩
  rw [show s.view = s2.view from (hs1.trans hs2).view.symm]
  exact hdep

theorem plan_stop (t : Task) (f : Option Pos) (s : St) (r : Result) (h : plan t f s = .stop r) :
    r.db = s.db ∧ r.mid = none ∧ (∀ n, r.outcome ≠ .ok n) ∧ (r.outcome = .done → 0 < t.stop) := by
  unfold plan at h
  simp only [] at h
  split at h
  · cases h; exact ⟨rfl, rfl, (fun _ h => by cases h), (fun h => by cases h)⟩
  cases hlr : localRes t { s with nLatest := s.nLatest + 1 } with
  | mk a s1 =>
  have hs1 : s1.db = s.db := by
    have := localRes_same t { s with nLatest := s.nLatest + 1 }
    rw [hlr] at this
    exact this.db
  rw [hlr] at h
  rcases a with _ | _ | ⟨localNum, localHash⟩
  · cases h; exact ⟨hs1, rfl, (fun _ h => by cases h), (fun h => by cases h)⟩
  · cases h; exact ⟨hs1, rfl, (fun _ h => by cases h), (fun h => by cases h)⟩
  simp only [] at h
  split at h
  · rename_i hd
    cases h; exact ⟨hs1, rfl, (fun _ h => by cases h), (fun _ => hd.1)⟩
  have hs2 : (takeLatest s1).2.db = s1.db := (takeLatest_same s1).db
  cases htl : takeLatest s1 with
  | mk a s2 =>
  rw [htl] at h hs2
  rcases a with _ | _ | ⟨g, gh⟩
  · cases h; exact ⟨hs2.trans hs1, rfl, (fun _ h => by cases h), (fun h => by cases h)⟩
  · cases h; exact ⟨hs2.trans hs1, rfl, (fun _ h => by cases h), (fun h => by cases h)⟩
  simp only [] at h
  cases hds : depStep t f g s2 with
  | mk a s3 =>
  have hs3 : s3.db = s2.db := by
    have := depStep_same t f g s2
    rw [hds] at this; exact this.db
  rw [hds] at h
  have hdb : s3.db = s.db := hs3.trans (hs2.trans hs1)
  rcases a with _ | _ | target0
  · cases h; exact ⟨hdb, rfl, (fun _ h => by cases h), (fun h => by cases h)⟩
  · cases h; exact ⟨hdb, rfl, (fun _ h => by cases h), (fun h => by cases h)⟩
  simp only [] at h
  split at h
  · cases h; exact ⟨hdb, rfl, (fun _ h => by cases h), (fun h => by cases h)⟩
  split at h
  · cases h; exact ⟨hdb, rfl, (fun _ h => by cases h), (fun h => by cases h)⟩
  split at h
  · cases h; exact ⟨hdb, rfl, (fun _ h => by cases h), (fun h => by cases h)⟩
  cases h

end Shovel.World
