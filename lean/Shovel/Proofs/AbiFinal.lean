import Shovel.Proofs.AbiRows
/-
  C09 helper lemmas, part 8: from the decoder state to the rows of the row rule.
-/
namespace Shovel.Abi

/-- first located cell for column `j` -/
def lk (lc : LCells) (j : Nat) : Option (Nat × Nat) := (lc.find? (fun c => c.1 == j)).map (·.2)

theorem lk_cons (c : Nat × (Nat × Nat)) (lc : LCells) (j : Nat) :
    lk (c :: lc) j = if c.1 = j then some c.2 else lk lc j := by
  unfold lk
  rw [List.find?_cons]
  by_cases h : c.1 = j
  · simp [h]
  · have : (c.1 == j) = false := by simpa using h
    rw [this, if_neg h]

theorem lk_none_of_not_mem {lc : LCells} {j : Nat} (h : j ∉ lc.map (·.1)) : lk lc j = none := by
  unfold lk
  rw [Option.map_eq_none_iff, List.find?_eq_none]
  intro x hx hxj
  apply h
  rw [List.mem_map]
  exact ⟨x, hx, by simpa using hxj⟩

theorem map_range_set {α} (w : Nat) (f : Nat → α) (p : Nat) (x : α) :
    ((List.range w).map f).set p x = (List.range w).map (fun j => if j = p then x else f j) := by
  apply List.ext_getElem?
  intro i
  rw [List.getElem?_set]
  by_cases hi : i < w
  · simp only [List.length_map, List.length_range, List.getElem?_map, List.getElem?_range hi,
      Option.map_some]
    by_cases hp : p = i
    · subst hp; simp [hi]
    · rw [if_neg hp, if_neg (fun h => hp h.symm)]
  · have h1 : ((List.range w).map f)[i]? = none := by simp; omega
    have h2 : ((List.range w).map (fun j => if j = p then x else f j))[i]? = none := by simp; omega
    rw [h1, h2]
    by_cases hp : p = i
    · subst hp; simp [hi]
    · rw [if_neg hp]

theorem setCells_range (w : Nat) : (lc : LCells) → (f : Nat → Option (Nat × Nat)) →
    (lc.map (·.1)).Nodup →
    setCells lc ((List.range w).map f) =
      (List.range w).map (fun j => match lk lc j with | some x => some x | none => f j)
  | [], f, _ => by simp [setCells, lk]
  | c :: lc, f, hnd => by
    rw [List.map_cons, List.nodup_cons] at hnd
    have ih := setCells_range w lc (fun j => if j = c.1 then some c.2 else f j) hnd.2
    have : setCells (c :: lc) ((List.range w).map f) =
        setCells lc (((List.range w).map f).set c.1 (some c.2)) := rfl
    rw [this, map_range_set, ih]
    apply List.map_congr_left
    intro j _
    rw [lk_cons]
    by_cases hj : c.1 = j
    · subst hj
      rw [lk_none_of_not_mem hnd.1]; simp
    · rw [if_neg hj, if_neg (fun h => hj h.symm)]

theorem setCells_empty (w : Nat) (lc : LCells) (hnd : (lc.map (·.1)).Nodup) :
    setCells lc (List.replicate w none) = (List.range w).map (lk lc) := by
  have h : List.replicate w (none : Option (Nat × Nat)) = (List.range w).map (fun _ => none) := by
    rw [List.map_const', List.length_range]
  rw [h, setCells_range w lc _ hnd]
  apply List.map_congr_left
  intro j _
  cases lk lc j <;> rfl

/-! ### cells -/

/-- the bytes a decoded cell denotes (same as `cellBytes` of the statement) -/
def cb (b : Buf) (c : Option (Nat × Nat)) : Option (List Nat) :=
  c.map fun (lo, hi) => (b.data.take hi).drop lo

/-- broadcast of one singleton cell `sg` over a row cell `c` -/
def bcf (c sg : Option (Nat × Nat)) : Option (Nat × Nat) :=
  match sg with
  | some (lo, hi) => if hi - lo > 0 then some (lo, hi) else c
  | none => c

def bcast (single row : Row) : Row :=
  (row.zip single).map fun (c, sg) =>
    match sg with
    | some (lo, hi) => if hi - lo > 0 then some (lo, hi) else c
    | none => c

theorem Loc.find {b : Buf} {lc : LCells} {cs : Cells} (h : Loc b lc cs) (j : Nat) :
    cs.find? (fun c => c.1 == j && !c.2.isEmpty) = (lc.find? (fun c => c.1 == j)).map (locF b) := by
  have e1 : cs.find? (fun c => c.1 == j && !c.2.isEmpty) =
      (cs.filter (fun c => !c.2.isEmpty)).find? (fun c => c.1 == j) := by
    rw [List.find?_filter]
    congr 1
    funext a
    cases (a.1 == j) <;> cases a.2.isEmpty <;> rfl
  rw [e1, ← h, List.find?_map]
  rfl

theorem Loc.pos {b : Buf} {lc : LCells} {cs : Cells} (h : Loc b lc cs) {c} (hc : c ∈ lc) :
    c.2.2 - c.2.1 > 0 := by
  have hm : locF b c ∈ lc.map (locF b) := List.mem_map_of_mem hc
  rw [h, List.mem_filter] at hm
  have hne : (bytesAt b c.2).length ≠ 0 := by
    intro h0
    have := List.eq_nil_of_length_eq_zero h0
    have h2 := hm.2
    simp only [locF, this] at h2
    simp at h2
  unfold bytesAt at hne
  rw [List.length_drop, List.length_take] at hne
  omega

theorem Loc.keys {b : Buf} {lc : LCells} {cs : Cells} (h : Loc b lc cs) :
    (lc.map (·.1)).Sublist (cs.map (·.1)) := by
  have : lc.map (·.1) = (lc.map (locF b)).map (·.1) := by rw [List.map_map]; rfl
  rw [this, h]
  exact List.Sublist.map _ List.filter_sublist

theorem cell_correct {b : Buf} {lc l : LCells} {lv r : Cells} (h1 : Loc b lc lv) (h2 : Loc b l r)
    (j : Nat) :
    cb b (bcf (lk l j) (lk lc j)) =
      match (lv ++ r).find? (fun c => c.1 == j && !c.2.isEmpty) with
      | some c => some c.2
      | none => none := by
  rw [List.find?_append, h1.find, h2.find]
  unfold lk
  cases hc : lc.find? (fun c => c.1 == j) with
  | none =>
    simp only [Option.map_none, Option.none_or, bcf]
    cases l.find? (fun c => c.1 == j) <;> rfl
  | some c =>
    have hp := h1.pos (List.mem_of_find?_eq_some hc)
    obtain ⟨p, lo, hi⟩ := c
    simp only at hp
    simp only [Option.map_some, Option.some_or, bcf, if_pos hp]
    rfl

theorem row_correct {b : Buf} (w : Nat) {lc l : LCells} {lv r : Cells} (h1 : Loc b lc lv)
    (h2 : Loc b l r) (n1 : (lc.map (·.1)).Nodup) (n2 : (l.map (·.1)).Nodup) :
    (bcast (setCells lc (List.replicate w none)) (setCells l (List.replicate w none))).map (cb b) =
      cellsToRow w (lv ++ r) := by
  rw [setCells_empty w lc n1, setCells_empty w l n2]
  unfold bcast cellsToRow
  rw [List.zip_map', List.map_map, List.map_map]
  apply List.map_congr_left
  intro j _
  exact cell_correct h1 h2 j

/-! ### columns of the row rule are selected positions, in order -/

mutual
theorem leaves_keys : (t : Ty) → (v : Val) → ((leaves t v).map (·.1)).Sublist t.sels
  | .stat sel, v => by
    cases sel with
    | none => cases v <;> exact List.nil_sublist _
    | some p => cases v <;> first | exact List.nil_sublist _ | exact List.Sublist.refl _
  | .dyn sel, v => by
    cases sel with
    | none => cases v <;> exact List.nil_sublist _
    | some p => cases v <;> first | exact List.nil_sublist _ | exact List.Sublist.refl _
  | .arr k e, v => by cases v <;> exact List.nil_sublist _
  | .tup fs, v => by
    cases v with
    | tup vs => rw [leaves, Ty.sels]; exact leavesTup_keys fs vs
    | _ => exact List.nil_sublist _
theorem leavesTup_keys : (fs : Tys) → (vs : Vals) → ((leavesTup fs vs).map (·.1)).Sublist fs.sels
  | .nil, vs => by cases vs <;> exact List.nil_sublist _
  | .cons f fr, vs => by
    cases vs with
    | nil => exact List.nil_sublist _
    | cons v vr =>
      rw [leavesTup, List.map_append, Tys.sels]
      exact (leaves_keys f v).append (leavesTup_keys fr vr)
end

theorem arrRowsElems_keys (e : Ty) (S : List Nat)
    (h1 : ∀ v, ∀ r ∈ arrRows e v, (r.map (·.1)).Sublist S)
    (h2 : ∀ v, ((leaves e v).map (·.1)).Sublist S) :
    (vs : Vals) → ∀ r ∈ arrRowsElems e vs, (r.map (·.1)).Sublist S
  | .nil, r, hr => by simp [arrRowsElems] at hr
  | .cons v vr, r, hr => by
    rw [arrRowsElems, List.mem_append] at hr
    rcases hr with hr | hr
    · by_cases ha : e.isArr = true
      · rw [if_pos ha] at hr; exact h1 v r hr
      · rw [if_neg ha] at hr
        simp at hr; subst hr; exact h2 v
    · exact arrRowsElems_keys e S h1 h2 vr r hr

mutual
theorem arrRows_keys : (t : Ty) → (v : Val) → ∀ r ∈ arrRows t v, (r.map (·.1)).Sublist t.sels
  | .stat sel, v, r, hr => by rw [arrRows_stat] at hr; simp at hr
  | .dyn sel, v, r, hr => by rw [arrRows_dyn] at hr; simp at hr
  | .arr k e, v, r, hr => by
    cases v with
    | arr vs =>
      rw [arrRows] at hr
      by_cases hsel : e.hasSelect = true
      · rw [if_pos hsel] at hr
        rw [Ty.sels]
        exact arrRowsElems_keys e e.sels (fun v => arrRows_keys e v) (fun v => leaves_keys e v) vs r hr
      · rw [if_neg hsel] at hr; simp at hr
    | _ => simp [arrRows] at hr
  | .tup fs, v, r, hr => by
    cases v with
    | tup vs => rw [arrRows] at hr; rw [Ty.sels]; exact arrRowsTup_keys fs vs r hr
    | _ => simp [arrRows] at hr
theorem arrRowsTup_keys : (fs : Tys) → (vs : Vals) → ∀ r ∈ arrRowsTup fs vs, (r.map (·.1)).Sublist fs.sels
  | .nil, vs, r, hr => by cases vs <;> simp [arrRowsTup] at hr
  | .cons f fr, vs, r, hr => by
    cases vs with
    | nil => simp [arrRowsTup] at hr
    | cons v vr =>
      rw [arrRowsTup, List.mem_append] at hr
      rw [Tys.sels]
      rcases hr with hr | hr
      · exact (arrRows_keys f v r hr).trans (List.sublist_append_left _ _)
      · exact (arrRowsTup_keys fr vr r hr).trans (List.sublist_append_right _ _)
end

/-! ### `Result.Scan` -/

/-- what `resultScan` does after a successful `scan` -/
def finish (s1 : St) : St :=
  let s2 := if s1.n = 0 then s1.getRow.1 else s1
  { s2 with coll := (s2.coll.take s2.n).map (bcast s2.single) ++ s2.coll.drop s2.n }

theorem resultScan_ok {b : Buf} {t : Ty} {s s1 : St}
    (h : scan b t 0 .single { s with n := 0, single := s.single.map fun _ => none } = .ok s1) :
    resultScan b t s = .ok (finish s1) := by
  unfold resultScan
  simp only [h]
  rfl

theorem rows_correct {b : Buf} (w : Nat) {lc : LCells} {lv : Cells} (S : List Nat) (hS : S.Nodup)
    (h1 : Loc b lc lv) (n1 : (lc.map (·.1)).Nodup) :
    (lr : List LCells) → (rows : List Cells) → LocRows b lr rows →
    (∀ r ∈ rows, (r.map (·.1)).Sublist S) →
    ((lr.map (fun l => setCells l (List.replicate w none))).map
        (bcast (setCells lc (List.replicate w none)))).map (fun row => row.map (cb b)) =
      rows.map (fun r => cellsToRow w (lv ++ r))
  | [], [], _, _ => rfl
  | _ :: _, [], h, _ => False.elim h
  | [], _ :: _, h, _ => False.elim h
  | l :: lr, r :: rows, h, hk => by
    have n2 : (l.map (·.1)).Nodup :=
      (h.1.keys.trans (hk r (List.mem_cons_self ..))).nodup hS
    have ih := rows_correct w S hS h1 n1 lr rows h.2 (fun r' hr' => hk r' (List.mem_cons_of_mem _ hr'))
    simp only [List.map_cons]
    rw [row_correct w h1 h.1 n1 n2]
    simp only [List.map_map] at ih ⊢
    rw [ih]

theorem finish_rows {s1 s2 : St} {w : Nat} (h2 : (if s1.n = 0 then s1.getRow.1 else s1) = s2)
    (hwf : WF s2 w) : (finish s1).rows = (s2.coll.take s2.n).map (bcast s2.single) := by
  unfold finish St.rows
  simp only [h2]
  have := hwf.2.2.2
  rw [List.take_left' (by rw [List.length_map, List.length_take]; omega)]

theorem LocRows.nil_left {b : Buf} : {rows : List Cells} → LocRows b [] rows → rows = []
  | [], _ => rfl
  | _ :: _, h => False.elim h

theorem LocRows.cons_left {b : Buf} {l : LCells} {lr : List LCells} :
    {rows : List Cells} → LocRows b (l :: lr) rows → rows ≠ []
  | [], h => False.elim h
  | _ :: _, _ => by simp

theorem finish_WF {s1 s2 : St} {w : Nat} (h2 : (if s1.n = 0 then s1.getRow.1 else s1) = s2)
    (hwf : WF s2 w) : WF (finish s1) w := by
  unfold finish
  simp only [h2]
  obtain ⟨a, b, c, d⟩ := hwf
  refine ⟨a, b, ?_, ?_⟩
  · intro row hrow
    rcases List.mem_append.mp hrow with h | h
    · obtain ⟨r0, hr0, rfl⟩ := List.mem_map.mp h
      have := c r0 (List.mem_of_mem_take hr0)
      simp [bcast, this, b]
    · exact c row (List.mem_of_mem_drop h)
  · simp only [List.length_append, List.length_map, List.length_take, List.length_drop]
    omega

/-- `scan_encode` with the state invariant of the (reused) decoder re-established afterwards -/
theorem scan_encode_core_wf (t : Ty) (v : Val) (rest : List Nat) (cap : Nat) (s : St)
    (hdom : t.inDomain = true) (hsel : t.sels = List.range t.nsel)
    (hwt : WellTyped t v = true)
    (hsize : (enc t v ++ rest).length < 2 ^ 63) (hcap : (enc t v ++ rest).length ≤ cap)
    (hs : s.ncols = t.nsel ∧ s.single.length = t.nsel ∧ (∀ row ∈ s.coll, row.length = t.nsel) ∧
      s.n ≤ s.coll.length) :
    ∃ s', resultScan ⟨enc t v ++ rest, cap⟩ t s = .ok s' ∧
      s'.rows.map (fun row => row.map (cb ⟨enc t v ++ rest, cap⟩)) = rowsOf t v ∧ WF s' t.nsel := by
  generalize hbdef : (⟨enc t v ++ rest, cap⟩ : Buf) = b
  have hb : BufOK b := by subst hbdef; exact ⟨hcap, hsize⟩
  have hat : At b 0 (enc t v) := by subst hbdef; exact ⟨[], rest, by simp, rfl⟩
  have hw : ∀ p ∈ t.sels, p < t.nsel := by
    intro p hp; rw [hsel] at hp; exact List.mem_range.mp hp
  have hS : t.sels.Nodup := by rw [hsel]; exact List.nodup_range
  obtain ⟨lc, lr, h1, h2, h3⟩ := scanR hb t.nsel t v 0 hw hdom hwt hat
  have hwf0 : WF { s with n := 0, single := s.single.map fun _ => none } t.nsel :=
    ⟨hs.1, by simp [hs.2.1], hs.2.2.1, Nat.zero_le _⟩
  have hscan := h3 _ hwf0
  refine ⟨_, resultScan_ok hscan, ?_⟩
  generalize hs0' : writeCells .single lc { s with n := 0, single := s.single.map fun _ => none } = s0'
  have hwf0' : WF s0' t.nsel := by rw [← hs0']; exact WF_writeCells_single hwf0 lc
  have hn0 : s0'.n = 0 := by rw [← hs0', writeCells_single]
  have hsg : s0'.single = setCells lc (List.replicate t.nsel none) := by
    rw [← hs0', writeCells_single]
    simp only [List.map_const', hs.2.1]
  -- the rows that end up in the collection (with the fallback row)
  have key : ∃ lrF rowsF, LocRows b lrF rowsF ∧ (∀ r ∈ rowsF, (r.map (·.1)).Sublist t.sels) ∧
      (if (pushRows lr s0').n = 0 then (pushRows lr s0').getRow.1 else pushRows lr s0') = pushRows lrF s0' ∧
      rowsOf t v = rowsF.map (fun r => cellsToRow t.nsel (leaves t v ++ r)) := by
    cases lr with
    | nil =>
      have hr := h2.nil_left
      refine ⟨[[]], [[]], ⟨Loc.nil b, trivial⟩, ?_, ?_, ?_⟩
      · intro r hr; simp at hr; subst hr; exact List.nil_sublist _
      · rw [pushRows_nil, if_pos hn0]; rfl
      · unfold rowsOf; rw [hr]; rfl
    | cons l lr' =>
      have hr := h2.cons_left
      refine ⟨l :: lr', arrRows t v, h2, arrRows_keys t v, ?_, ?_⟩
      · have := (pushRows_spec (l :: lr') hwf0').2.1
        rw [if_neg (by rw [this]; simp)]
      · unfold rowsOf
        have : (arrRows t v).isEmpty = false := by
          cases h : arrRows t v with
          | nil => exact absurd h hr
          | cons _ _ => rfl
        simp only [this]
        rfl
  obtain ⟨lrF, rowsF, k1, k2, k3, k4⟩ := key
  obtain ⟨p1, p2, p3, p4⟩ := pushRows_spec lrF hwf0'
  refine ⟨?_, finish_WF k3 p1⟩
  rw [finish_rows k3 p1, p2, p4, p3, hn0, hsg, k4]
  simp only [List.take_zero, List.nil_append]
  have n1 : (lc.map (·.1)).Nodup := (h1.keys.trans (leaves_keys t v)).nodup hS
  exact rows_correct t.nsel t.sels hS h1 n1 lrF rowsF k1 k2

theorem scan_encode_core (t : Ty) (v : Val) (rest : List Nat) (cap : Nat) (s : St)
    (hdom : t.inDomain = true) (hsel : t.sels = List.range t.nsel)
    (hwt : WellTyped t v = true)
    (hsize : (enc t v ++ rest).length < 2 ^ 63) (hcap : (enc t v ++ rest).length ≤ cap)
    (hs : s.ncols = t.nsel ∧ s.single.length = t.nsel ∧ (∀ row ∈ s.coll, row.length = t.nsel) ∧
      s.n ≤ s.coll.length) :
    ∃ s', resultScan ⟨enc t v ++ rest, cap⟩ t s = .ok s' ∧
      s'.rows.map (fun row => row.map (cb ⟨enc t v ++ rest, cap⟩)) = rowsOf t v := by
  obtain ⟨s', h1, h2, _⟩ := scan_encode_core_wf t v rest cap s hdom hsel hwt hsize hcap hs
  exact ⟨s', h1, h2⟩

end Shovel.Abi
