import Shovel.Model.Abi
import Shovel.Spec.Abi
/-
  C09 helper lemmas, part 1: words, positions (`At`), primitive steps of the decoder model.
-/
namespace Shovel.Abi

/-! ### big-endian words -/

def digits : Nat → Nat → List Nat
  | 0, _ => []
  | k + 1, n => digits k (n / 256) ++ [n % 256]

theorem digits_length (k n : Nat) : (digits k n).length = k := by
  induction k generalizing n with
  | zero => rfl
  | succ k ih => simp [digits, ih]

theorem range_digits (k n : Nat) :
    (List.range k).map (fun i => n / 256 ^ (k - 1 - i) % 256) = digits k n := by
  induction k generalizing n with
  | zero => rfl
  | succ k ih =>
    rw [List.range_succ, List.map_append, digits, ← ih]
    congr 1
    · apply List.map_congr_left
      intro i hi
      have hi' : i < k := List.mem_range.mp hi
      have h1 : k + 1 - 1 - i = (k - 1 - i) + 1 := by omega
      rw [h1, Nat.pow_succ, Nat.mul_comm, Nat.div_div_eq_div_mul]
    · simp

theorem word32_eq_digits (n : Nat) : word32 n = digits 32 n := by
  unfold word32
  exact range_digits 32 n

@[simp] theorem word32_length (n : Nat) : (word32 n).length = 32 := by
  rw [word32_eq_digits, digits_length]

theorem foldl_digits (k n : Nat) :
    (digits k n).foldl (fun a x => a * 256 + x) 0 = n % 256 ^ k := by
  induction k generalizing n with
  | zero => simp [digits, Nat.mod_one]
  | succ k ih =>
    rw [digits, List.foldl_append, ih]
    simp only [List.foldl_cons, List.foldl_nil]
    rw [Nat.pow_succ, Nat.mul_comm (256 ^ k) 256, Nat.mod_mul]
    omega

theorem foldl_mod (M : Nat) (l : List Nat) (a : Nat) :
    l.foldl (fun n x => (n * 256 + x) % M) (a % M) = (l.foldl (fun n x => n * 256 + x) a) % M := by
  induction l generalizing a with
  | nil => rfl
  | cons x l ih =>
    simp only [List.foldl_cons]
    have : (a % M * 256 + x) % M = (a * 256 + x) % M := by
      rw [Nat.add_mod, Nat.mul_mod, Nat.mod_mod, ← Nat.mul_mod, ← Nat.add_mod]
    rw [this, ih]

theorem foldl_word32 (n : Nat) (h : n < 2 ^ 63) :
    (word32 n).foldl (fun a x => (a * 256 + x) % U64) 0 = n := by
  have h0 : (0 : Nat) = 0 % U64 := by simp
  rw [h0, foldl_mod, word32_eq_digits, foldl_digits]
  have : n % 256 ^ 32 = n := Nat.mod_eq_of_lt (by
    have : (2:Nat) ^ 63 < 256 ^ 32 := by decide
    omega)
  rw [this]
  exact Nat.mod_eq_of_lt (by unfold U64; omega)

theorem toI64_small (n : Nat) (h : n < 2 ^ 63) : toI64 n = (n : Int) := by
  unfold toI64
  have : n % U64 = n := Nat.mod_eq_of_lt (by unfold U64; omega)
  simp only [this]
  rw [if_pos h]

/-! ### padding -/

theorem padTo32_eq (bs : List Nat) : ∃ z, padTo32 bs = bs ++ z := ⟨_, rfl⟩

/-! ### positions -/

/-- the buffer holds `X` at absolute position `p` -/
def At (b : Buf) (p : Nat) (X : List Nat) : Prop :=
  ∃ pre post, b.data = pre ++ X ++ post ∧ pre.length = p

theorem At.bound {b : Buf} {p : Nat} {X : List Nat} (h : At b p X) :
    p + X.length ≤ b.data.length := by
  obtain ⟨pre, post, hd, hp⟩ := h
  rw [hd]; simp; omega

theorem At.left {b : Buf} {p : Nat} {X Y : List Nat} (h : At b p (X ++ Y)) : At b p X := by
  obtain ⟨pre, post, hd, hp⟩ := h
  exact ⟨pre, Y ++ post, by rw [hd]; simp, hp⟩

theorem At.right {b : Buf} {p : Nat} {X Y : List Nat} (h : At b p (X ++ Y)) :
    At b (p + X.length) Y := by
  obtain ⟨pre, post, hd, hp⟩ := h
  exact ⟨pre ++ X, post, by rw [hd]; simp, by simp [hp]⟩

theorem At.right' {b : Buf} {p q : Nat} {X Y : List Nat} (h : At b p (X ++ Y))
    (hq : q = p + X.length) : At b q Y := hq ▸ h.right

theorem At.read {b : Buf} {p : Nat} {X : List Nat} (h : At b p X) :
    (b.data.take (p + X.length)).drop p = X := by
  obtain ⟨pre, post, hd, hp⟩ := h
  subst hp
  rw [hd, List.append_assoc, List.take_append, List.drop_append]
  simp

theorem At.read' {b : Buf} {p q : Nat} {X : List Nat} (h : At b p X) (hq : q = p + X.length) :
    (b.data.take q).drop p = X := hq ▸ h.read

theorem At.nil {b : Buf} {p : Nat} (h : p ≤ b.data.length) : At b p [] :=
  ⟨b.data.take p, b.data.drop p, by simp, by simp; omega⟩

/-- buffers we decode: `len ≤ cap`, and short enough that `int(uint64)` conversions are exact -/
def BufOK (b : Buf) : Prop := b.data.length ≤ b.cap ∧ b.data.length < 2 ^ 63

theorem word_at {b : Buf} {p n : Nat} {Y : List Nat} (h : At b p (word32 n ++ Y)) (hn : n < 2 ^ 63) :
    b.word p (p + 32) = n := by
  unfold Buf.word
  have := h.left.read
  rw [word32_length] at this
  rw [this, foldl_word32 n hn]

/-! ### primitive steps -/

theorem slice_ok {b : Buf} (hb : BufOK b) (off a hi : Nat) (h1 : a ≤ hi)
    (h2 : off + hi ≤ b.data.length) :
    b.slice (off : Int) (a : Int) (hi : Int) = .ok (off + a, off + hi) := by
  unfold Buf.slice
  have := hb.1
  rw [if_neg (by omega), if_neg (by omega)]
  congr 2 <;> omega

theorem sliceFrom_ok {b : Buf} (off a : Nat) (h : off + a ≤ b.data.length) :
    b.sliceFrom (off : Int) (a : Int) = .ok (((off + a : Nat) : Int)) := by
  unfold Buf.sliceFrom Buf.len
  rw [if_neg (by omega)]
  congr 1

theorem len_eq (b : Buf) (off : Nat) : b.len (off : Int) = (b.data.length : Int) - off := rfl

end Shovel.Abi
