import Shovel.Proofs.AbiScan
/-
  C09 helper lemmas, part 6: the array loop.
-/
namespace Shovel.Abi

/-- the loop body of the array case of `scan` (verbatim) -/
def arrBody (b : Buf) (e : Ty) (off start : Int) : Int → RowRef → St → Res (Int × RowRef × St) :=
  fun pos r s =>
    let (s, r) := if !e.isArr then let (s', r') := s.getRow; (s', r') else (s, r)
    if e.isStatic then
      if b.len off < pos then .err
      else do
        let off' ← b.sliceFrom off pos
        let s' ← scan b e off' r s
        .ok (pos + e.size, r, s')
    else
      if b.len off < pos + 32 then .err
      else do
        let w ← b.slice off pos (pos + 32)
        let offset := toI64 (b.word w.1 w.2)
        if offset < 0 ∨ b.len off - start < offset then .err
        else do
          let off' ← b.sliceFrom off (start + offset)
          let s' ← wrapErr (scan b e off' r s)
          .ok (pos + 32, r, s')

theorem scan_arr (b : Buf) (k : Nat) (e : Ty) (off : Int) (r : RowRef) (s : St) :
    scan b (.arr k e) off r s =
      if !e.hasSelect then .ok s
      else if k = 0 then
        if b.len off < 32 then .err
        else do
          let w ← b.slice off 0 32
          loopN (toI64 (b.word w.1 w.2)).toNat 32 r s (arrBody b e off 32)
      else loopN (k : Int).toNat 0 r s (arrBody b e off 0) := by
  rw [scan]; rfl

/-- the row an element is decoded into: a fresh row unless the element is itself an array -/
def elemSel (e : Ty) (r : RowRef) (s : St) : St × RowRef := if e.isArr then (s, r) else s.getRow

theorem arrBody_static {b : Buf} {e : Ty} {off pos : Nat} (start : Int) {r : RowRef} {s s1 : St}
    (hs : e.isStatic = true) (hbd : off + pos ≤ b.data.length)
    (hscan : scan b e ((off + pos : Nat) : Int) (elemSel e r s).2 (elemSel e r s).1 = .ok s1) :
    arrBody b e off start pos r s = .ok (((pos + e.size : Nat) : Int), (elemSel e r s).2, s1) := by
  unfold arrBody
  have hsel : (if !e.isArr then let (s', r') := s.getRow; (s', r') else (s, r)) = elemSel e r s := by
    unfold elemSel; cases e.isArr <;> rfl
  rw [hsel]
  simp only [hs, if_true]
  rw [len_eq, if_neg (by omega), sliceFrom_ok off pos hbd, bind_ok, hscan, bind_ok, Int.natCast_add]

theorem arrBody_dyn {b : Buf} (hb : BufOK b) {e : Ty} {off pos start T : Nat} {Y : List Nat}
    {r : RowRef} {s s1 : St}
    (hs : ¬ e.isStatic = true) (hat : At b (off + pos) (word32 T ++ Y))
    (hbd : off + start + T ≤ b.data.length)
    (hscan : scan b e ((off + start + T : Nat) : Int) (elemSel e r s).2 (elemSel e r s).1 = .ok s1) :
    arrBody b e off start pos r s = .ok (((pos + 32 : Nat) : Int), (elemSel e r s).2, s1) := by
  have hbd2 := hat.bound
  simp only [List.length_append, word32_length] at hbd2
  have hT : T < 2 ^ 63 := by have := hb.2; omega
  unfold arrBody
  have hsel : (if !e.isArr then let (s', r') := s.getRow; (s', r') else (s, r)) = elemSel e r s := by
    unfold elemSel; cases e.isArr <;> rfl
  rw [hsel]
  simp only [hs, Bool.false_eq_true, if_false]
  rw [len_eq, if_neg (by omega)]
  have h : b.slice (off : Int) (pos : Int) ((pos : Int) + 32) = .ok (off + pos, off + (pos + 32)) :=
    slice_ok hb off pos (pos + 32) (by omega) (by omega)
  rw [h, bind_ok]
  simp only [wrapErr]
  have hw : b.word (off + pos) (off + (pos + 32)) = T := by
    rw [← Nat.add_assoc]; exact word_at hat hT
  have hsf : b.sliceFrom (off : Int) ((start : Int) + (T : Int)) = .ok (((off + start + T : Nat) : Int)) := by
    have := sliceFrom_ok (b := b) off (start + T) (by omega)
    rw [Int.natCast_add, ← Nat.add_assoc] at this
    exact this
  rw [hw, toI64_small T hT, if_neg (by omega), hsf, bind_ok, hscan, bind_ok]
  rfl

def elemRows (e : Ty) (v : Val) : List Cells := if e.isArr then arrRows e v else [leaves e v]
def RefOK (e : Ty) (r : RowRef) : Prop := e.isArr = true → r = .single

theorem RefOK_elemSel {e : Ty} {r : RowRef} (s : St) (h : RefOK e r) : RefOK e (elemSel e r s).2 := by
  intro ha
  unfold elemSel
  rw [if_pos ha]
  exact h ha

/-- what one element contributes: some rows -/
def ElemSpec (b : Buf) (w : Nat) (e : Ty) : Prop :=
  ∀ v o, WellTyped e v = true → At b o (enc e v) →
    ∃ lr, LocRows b lr (elemRows e v) ∧
      ∀ r s, WF s w → RefOK e r →
        scan b e (o : Int) (elemSel e r s).2 (elemSel e r s).1 = .ok (pushRows lr s)

theorem loop_spec {b : Buf} (hb : BufOK b) (w : Nat) (e : Ty) (H : ElemSpec b w e) (off start : Nat) :
    (vs : Vals) → (pos T : Nat) → wellTypedAll e vs = true →
    At b (off + pos) (encArrParts e vs T).1 → At b (off + start + T) (encArrParts e vs T).2 →
    ∃ lr, LocRows b lr (arrRowsElems e vs) ∧
      ∀ r s, WF s w → RefOK e r →
        loopN vs.length pos r s (arrBody b e off start) = .ok (pushRows lr s)
  | .nil, pos, T, _, _, _ => ⟨[], LocRows.nil b, fun r s _ _ => by rw [Vals.length, loopN]; rfl⟩
  | .cons v vr, pos, T, hwt, hat1, hat2 => by
    rw [wellTypedAll, Bool.and_eq_true] at hwt
    rw [encArrParts_cons] at hat1 hat2
    by_cases hs : e.isStatic = true
    · rw [if_pos hs] at hat1 hat2
      simp only at hat1 hat2
      have hlen := enc_static_length e v hs hwt.1
      obtain ⟨lr1, a1, a2⟩ := H v (off + pos) hwt.1 hat1.left
      obtain ⟨lr2, b1, b2⟩ := loop_spec hb w e H off start vr (pos + e.size) T hwt.2
        (hat1.right' (by rw [hlen]; omega)) hat2
      refine ⟨lr1 ++ lr2, by rw [arrRowsElems]; exact LocRows.append b1 _ _ a1, fun r s hwf hr => ?_⟩
      have hbd := hat1.bound
      have hbody := arrBody_static (start := start) hs (by omega) (a2 r s hwf hr)
      have hwf' : WF (pushRows lr1 s) w := (pushRows_spec lr1 hwf).1
      rw [Vals.length, loopN, hbody]
      simp only
      rw [b2 _ _ hwf' (RefOK_elemSel s hr), pushRows_append]
    · rw [if_neg hs] at hat1 hat2
      simp only at hat1 hat2
      obtain ⟨lr1, a1, a2⟩ := H v (off + start + T) hwt.1 hat2.left
      obtain ⟨lr2, b1, b2⟩ := loop_spec hb w e H off start vr (pos + 32) (T + (enc e v).length) hwt.2
        (hat1.right' (by simp; omega)) (hat2.right' (by omega))
      refine ⟨lr1 ++ lr2, by rw [arrRowsElems]; exact LocRows.append b1 _ _ a1, fun r s hwf hr => ?_⟩
      have hbd := hat2.bound
      have hbody := arrBody_dyn hb hs hat1 (by omega) (a2 r s hwf hr)
      have hwf' : WF (pushRows lr1 s) w := (pushRows_spec lr1 hwf).1
      rw [Vals.length, loopN, hbody]
      simp only
      rw [b2 _ _ hwf' (RefOK_elemSel s hr), pushRows_append]

theorem scan_arr_noselect (b : Buf) (k : Nat) {e : Ty} (off : Int) (r : RowRef) (s : St)
    (h : e.hasSelect = false) : scan b (.arr k e) off r s = .ok s := by
  rw [scan_arr, h]; rfl

theorem scan_arr_fix (b : Buf) (k : Nat) {e : Ty} (off : Nat) (r : RowRef) (s : St)
    (h : e.hasSelect = true) :
    scan b (.arr (k + 1) e) off r s =
      loopN (k + 1) ((0 : Nat) : Int) r s (arrBody b e (off : Int) ((0 : Nat) : Int)) := by
  rw [scan_arr, h]
  simp only [Bool.not_true, Bool.false_eq_true, if_false, Nat.add_one_ne_zero]
  rfl

theorem scan_arr_dyn {b : Buf} (hb : BufOK b) {e : Ty} {off n : Nat} {Y : List Nat} (r : RowRef) (s : St)
    (h : e.hasSelect = true) (hat : At b off (word32 n ++ Y)) (hn : n < 2 ^ 63) :
    scan b (.arr 0 e) off r s =
      loopN n ((32 : Nat) : Int) r s (arrBody b e (off : Int) ((32 : Nat) : Int)) := by
  have hbd := hat.bound
  simp only [List.length_append, word32_length] at hbd
  rw [scan_arr, h]
  simp only [Bool.not_true, Bool.false_eq_true, if_false, if_true]
  rw [len_eq, if_neg (by omega)]
  have h1 : b.slice (off : Int) 0 32 = .ok (off, off + 32) := slice_ok hb off 0 32 (by omega) (by omega)
  rw [h1, bind_ok]
  simp only [word_at hat hn, toI64_small n hn, Int.toNat_natCast]
  rfl

end Shovel.Abi
