import Shovel.Proofs.AbiLayout
import Shovel.Proofs.AbiState
/-
  C09 helper lemmas, part 4: single steps of `scan` on a buffer that holds an encoding.
-/
namespace Shovel.Abi

theorem bind_ok {α β} (a : α) (f : α → Res β) : (Res.ok a >>= f) = f a := rfl

theorem scan_stat_none {b : Buf} {off : Nat} {X : List Nat} (hat : At b off X) (hX : X.length = 32)
    (r : RowRef) (s : St) : scan b (.stat none) off r s = .ok s := by
  have := hat.bound
  rw [scan, len_eq, if_neg (by omega)]

theorem scan_stat_some {b : Buf} (hb : BufOK b) {off : Nat} {X : List Nat} (hat : At b off X)
    (hX : X.length = 32) {r : RowRef} {s : St} {w p : Nat} (hr : RowOK s r w) (hp : p < w) :
    scan b (.stat (some p)) off r s = .ok (s.setCol' r (p, (off, off + 32))) := by
  have := hat.bound
  rw [scan, len_eq, if_neg (by omega)]
  have h : b.slice (off : Int) 0 32 = .ok (off, off + 32) := slice_ok hb off 0 32 (by omega) (by omega)
  show (b.slice off 0 32 >>= fun rg => s.setCol r p rg) = _
  rw [h, bind_ok]
  exact setCol_ok _ hr hp

theorem scan_dyn {b : Buf} (hb : BufOK b) {off n : Nat} {Y : List Nat}
    (hat : At b off (word32 n ++ Y)) (hn : n ≤ Y.length) (sel : Option Nat) (r : RowRef) (s : St) :
    scan b (.dyn sel) off r s =
      if n = 0 then .ok s else
        match sel with
        | none => .ok s
        | some p => s.setCol r p (off + 32, off + 32 + n) := by
  have hbd := hat.bound
  simp only [List.length_append, word32_length] at hbd
  have hn63 : n < 2 ^ 63 := by have := hb.2; omega
  rw [scan, len_eq, if_neg (by omega)]
  have h : b.slice (off : Int) 0 32 = .ok (off, off + 32) := slice_ok hb off 0 32 (by omega) (by omega)
  rw [h, bind_ok]
  simp only [word_at hat hn63, toI64_small n hn63]
  by_cases h0 : n = 0
  · rw [if_pos h0, if_pos (by omega)]
  · rw [if_neg h0, if_neg (by omega), if_neg (by omega)]
    cases sel with
    | none => rfl
    | some p =>
      have h2 : b.slice (off : Int) 32 (32 + (n : Int)) = .ok (off + 32, off + (32 + n)) :=
        slice_ok hb off 32 (32 + n) (by omega) (by omega)
      simp only [h2, bind_ok, Nat.add_assoc]

theorem scan_tup (b : Buf) (fs : Tys) (off : Int) (r : RowRef) (s : St) :
    scan b (.tup fs) off r s = if !fs.hasSelect then .ok s else scanTup b fs off 0 r s := by
  rw [scan]

theorem scanTup_nil (b : Buf) (off pos : Int) (r : RowRef) (s : St) :
    scanTup b .nil off pos r s = .ok s := by
  rw [scanTup]

theorem scanTup_cons_static {b : Buf} {f : Ty} (rest : Tys) {off pos : Nat} {r : RowRef} {s s1 : St}
    (hs : f.isStatic = true) (hbd : off + pos ≤ b.data.length)
    (hscan : scan b f ((off + pos : Nat) : Int) r s = .ok s1) :
    scanTup b (.cons f rest) off pos r s = scanTup b rest off ((pos + f.size : Nat) : Int) r s1 := by
  rw [scanTup, if_pos hs, len_eq, if_neg (by omega), sliceFrom_ok off pos hbd, bind_ok]
  simp only [wrapErr]
  rw [hscan, bind_ok, Int.natCast_add]

theorem scanTup_cons_dyn {b : Buf} (hb : BufOK b) {f : Ty} (rest : Tys) {off pos T : Nat} {Y : List Nat}
    {r : RowRef} {s s1 : St}
    (hs : ¬ f.isStatic = true) (hat : At b (off + pos) (word32 T ++ Y))
    (hbd : off + T ≤ b.data.length)
    (hscan : scan b f ((off + T : Nat) : Int) r s = .ok s1) :
    scanTup b (.cons f rest) off pos r s = scanTup b rest off ((pos + 32 : Nat) : Int) r s1 := by
  have hbd2 := hat.bound
  simp only [List.length_append, word32_length] at hbd2
  have hT : T < 2 ^ 63 := by have := hb.2; omega
  rw [scanTup, if_neg hs, len_eq, if_neg (by omega)]
  have h : b.slice (off : Int) (pos : Int) ((pos : Int) + 32) = .ok (off + pos, off + (pos + 32)) :=
    slice_ok hb off pos (pos + 32) (by omega) (by omega)
  rw [h, bind_ok]
  simp only [wrapErr]
  have hw : b.word (off + pos) (off + (pos + 32)) = T := by
    rw [← Nat.add_assoc]; exact word_at hat hT
  rw [hw, toI64_small T hT, if_neg (by omega), sliceFrom_ok off T hbd, bind_ok, hscan, bind_ok]
  rfl

end Shovel.Abi
