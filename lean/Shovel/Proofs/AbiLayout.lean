import Shovel.Proofs.AbiBase
/-
  C09 helper lemmas, part 2: layout facts about `enc`.
-/
namespace Shovel.Abi

theorem encTupParts_cons (f : Ty) (fr : Tys) (v : Val) (vr : Vals) (T : Nat) :
    encTupParts (.cons f fr) (.cons v vr) T =
      if f.isStatic then (enc f v ++ (encTupParts fr vr T).1, (encTupParts fr vr T).2)
      else (word32 T ++ (encTupParts fr vr (T + (enc f v).length)).1,
            enc f v ++ (encTupParts fr vr (T + (enc f v).length)).2) := by
  rw [encTupParts]

theorem encArrParts_cons (e : Ty) (v : Val) (vr : Vals) (T : Nat) :
    encArrParts e (.cons v vr) T =
      if e.isStatic then (enc e v ++ (encArrParts e vr T).1, (encArrParts e vr T).2)
      else (word32 T ++ (encArrParts e vr (T + (enc e v).length)).1,
            enc e v ++ (encArrParts e vr (T + (enc e v).length)).2) := by
  rw [encArrParts]

theorem encArrParts_nil (e : Ty) (T : Nat) : encArrParts e .nil T = ([], []) := by
  rw [encArrParts]

theorem encTupParts_nil (vs : Vals) (T : Nat) : encTupParts .nil vs T = ([], []) := by
  rw [encTupParts]
  intro _ _ _ _ h; cases h

/-- static element type: no tails, heads are the concatenated element encodings -/
theorem encArrParts_static (e : Ty) (hs : e.isStatic = true)
    (he : ∀ v, WellTyped e v = true → (enc e v).length = e.size) :
    (vs : Vals) → wellTypedAll e vs = true → ∀ T,
      (encArrParts e vs T).2 = [] ∧ (encArrParts e vs T).1.length = vs.length * e.size
  | .nil, _, T => by simp [encArrParts_nil, Vals.length]
  | .cons v vr, hwt, T => by
    rw [wellTypedAll, Bool.and_eq_true] at hwt
    have ih := encArrParts_static e hs he vr hwt.2 T
    rw [encArrParts_cons, if_pos hs]
    simp only [List.length_append, he v hwt.1, ih.1, ih.2, Vals.length, true_and]
    rw [Nat.add_mul]; omega

theorem headLenArr_eq (e : Ty) : (vs : Vals) →
    headLenArr e vs = vs.length * (if e.isStatic then e.size else 32)
  | .nil => by simp [headLenArr, Vals.length]
  | .cons v vr => by
    rw [headLenArr, headLenArr_eq e vr, Vals.length, Nat.add_mul]; omega

mutual
theorem enc_static_length : (t : Ty) → (v : Val) → t.isStatic = true → WellTyped t v = true →
    (enc t v).length = t.size
  | .stat _, v, _, hwt => by
    cases v <;> simp [WellTyped] at hwt
    simp [enc, Ty.size, hwt.1]
  | .dyn _, _, hs, _ => by simp [Ty.isStatic] at hs
  | .arr k e, v, hs, hwt => by
    cases v <;> simp only [WellTyped, Bool.false_eq_true] at hwt
    rename_i vs
    rw [Bool.and_eq_true] at hwt
    cases k with
    | zero => simp [Ty.isStatic] at hs
    | succ k =>
      have hse : e.isStatic = true := by simpa [Ty.isStatic] using hs
      have h := encArrParts_static e hse (fun v hv => enc_static_length e v hse hv) vs hwt.2
        (headLenArr e vs)
      have hl : vs.length = k + 1 := by simpa using hwt.1
      rw [enc, encArr, h.1, List.append_nil, h.2, Ty.size, hl]
  | .tup fs, v, hs, hwt => by
    cases v <;> simp only [WellTyped, Bool.false_eq_true] at hwt
    rename_i vs
    have hs' : fs.allStatic = true := by simpa [Ty.isStatic] using hs
    have h := encTupParts_static fs vs hs' hwt (headLenTup fs)
    rw [enc, encTup, h.1, List.append_nil, h.2, Ty.size]
theorem encTupParts_static : (fs : Tys) → (vs : Vals) → fs.allStatic = true →
    wellTypedTup fs vs = true → ∀ T,
      (encTupParts fs vs T).2 = [] ∧ (encTupParts fs vs T).1.length = fs.size
  | .nil, vs, _, _, T => by simp [encTupParts_nil, Tys.size]
  | .cons f fr, vs, hs, hwt, T => by
    cases vs with
    | nil => simp [wellTypedTup] at hwt
    | cons v vr =>
      rw [wellTypedTup, Bool.and_eq_true] at hwt
      rw [Tys.allStatic, Bool.and_eq_true] at hs
      have ih := encTupParts_static fr vr hs.2 hwt.2 T
      have h1 := enc_static_length f v hs.1 hwt.1
      rw [encTupParts_cons, if_pos hs.1]
      simp only [List.length_append, h1, ih.1, ih.2, Tys.size, true_and]
end

theorem encTupParts_head_length : (fs : Tys) → (vs : Vals) → wellTypedTup fs vs = true → ∀ T,
    (encTupParts fs vs T).1.length = headLenTup fs
  | .nil, vs, _, T => by simp [encTupParts_nil, headLenTup]
  | .cons f fr, vs, hwt, T => by
    cases vs with
    | nil => simp [wellTypedTup] at hwt
    | cons v vr =>
      rw [wellTypedTup, Bool.and_eq_true] at hwt
      rw [encTupParts_cons, headLenTup]
      by_cases hs : f.isStatic = true
      · rw [if_pos hs, if_pos hs]
        simp only [List.length_append, enc_static_length f v hs hwt.1,
          encTupParts_head_length fr vr hwt.2 T]
      · rw [if_neg hs, if_neg hs]
        simp only [List.length_append, word32_length, encTupParts_head_length fr vr hwt.2 _]

theorem encArrParts_head_length (e : Ty) : (vs : Vals) → wellTypedAll e vs = true → ∀ T,
    (encArrParts e vs T).1.length = headLenArr e vs
  | .nil, _, T => by simp [encArrParts_nil, headLenArr]
  | .cons v vr, hwt, T => by
    rw [wellTypedAll, Bool.and_eq_true] at hwt
    rw [encArrParts_cons, headLenArr]
    by_cases hs : e.isStatic = true
    · rw [if_pos hs, if_pos hs]
      simp only [List.length_append, enc_static_length e v hs hwt.1,
        encArrParts_head_length e vr hwt.2 T]
    · rw [if_neg hs, if_neg hs]
      simp only [List.length_append, word32_length, encArrParts_head_length e vr hwt.2 _]

mutual
theorem static_select_size : (t : Ty) → t.isStatic = true → t.hasSelect = true → 32 ≤ t.size
  | .stat _, _, _ => by simp [Ty.size]
  | .dyn _, hs, _ => by simp [Ty.isStatic] at hs
  | .arr k e, hs, hsel => by
    cases k with
    | zero => simp [Ty.isStatic] at hs
    | succ k =>
      have hse : e.isStatic = true := by simpa [Ty.isStatic] using hs
      have := static_select_size e hse (by simpa [Ty.hasSelect] using hsel)
      rw [Ty.size, Nat.add_mul]; omega
  | .tup fs, hs, hsel => by
    have := statics_select_size fs (by simpa [Ty.isStatic] using hs)
      (by simpa [Ty.hasSelect] using hsel)
    rw [Ty.size]; exact this
theorem statics_select_size : (fs : Tys) → fs.allStatic = true → fs.hasSelect = true → 32 ≤ fs.size
  | .nil, _, hsel => by simp [Tys.hasSelect] at hsel
  | .cons f fr, hs, hsel => by
    rw [Tys.allStatic, Bool.and_eq_true] at hs
    rw [Tys.hasSelect, Bool.or_eq_true] at hsel
    rw [Tys.size]
    cases hsel with
    | inl h => have := static_select_size f hs.1 h; omega
    | inr h => have := statics_select_size fr hs.2 h; omega
end

/-- every element of a selected array occupies at least 32 bytes of head -/
theorem headLenArr_ge (e : Ty) (hsel : e.hasSelect = true) (vs : Vals) :
    32 * vs.length ≤ headLenArr e vs := by
  rw [headLenArr_eq]
  by_cases hs : e.isStatic = true
  · rw [if_pos hs]
    have := static_select_size e hs hsel
    rw [Nat.mul_comm]
    exact Nat.mul_le_mul_left _ this
  · rw [if_neg hs]; omega

mutual
theorem leaves_noselect : (t : Ty) → (v : Val) → t.hasSelect = false → leaves t v = []
  | .stat sel, v, h => by
    cases sel with
    | none => cases v <;> rfl
    | some p => simp [Ty.hasSelect] at h
  | .dyn sel, v, h => by
    cases sel with
    | none => cases v <;> rfl
    | some p => simp [Ty.hasSelect] at h
  | .arr k e, v, _ => by cases v <;> rfl
  | .tup fs, v, h => by
    cases v with
    | tup vs => rw [leaves]; exact leavesTup_noselect fs vs (by simpa [Ty.hasSelect] using h)
    | _ => rfl
theorem leavesTup_noselect : (fs : Tys) → (vs : Vals) → fs.hasSelect = false → leavesTup fs vs = []
  | .nil, vs, _ => by cases vs <;> rfl
  | .cons f fr, vs, h => by
    cases vs with
    | nil => rfl
    | cons v vr =>
      rw [Tys.hasSelect, Bool.or_eq_false_iff] at h
      rw [leavesTup, leaves_noselect f v h.1, leavesTup_noselect fr vr h.2]; rfl
end

example : True := trivial

end Shovel.Abi
