import Shovel.Model.World
import Shovel.Spec.World
/-
  One iteration of `converge.loop`, restated in phases:
  `plan` (latest / stop / source head / dependencies / delta), then `load`, then either
  `delStep` (Task.Delete, loop again) or `commitStep` (commit 1, insert, update, commit 2).
-/
namespace Shovel.World

inductive Step where
  | ret (r : Result)
  | cont (s : St)

inductive Plan where
  | stop (r : Result)
  | go (localNum : Nat) (localHash : String) (delta : Nat) (s : St)

/-- `latest()`: newest recorded position, else derived from the configuration and the source -/
def localRes (t : Task) (s : St) : Option (Option (Nat × String)) × St :=
  match s.view.latestCur t.src t.ig with
  | some c => (some (some (c.num, c.hash)), s)
  | none =>
    if t.start > 0 then
      match takeHash s (t.start - 1) with
      | (none, s') => (none, s')
      | (some none, s') => (some none, s')
      | (some (some h), s') => (some (some (t.start - 1, h)), s')
    else
      match takeLatest s with
      | (none, s') => (none, s')
      | (some none, s') => (some none, s')
      | (some (some (n, _)), s') =>
        match takeHash s' ((n + U64 - 1) % U64) with
        | (none, s'') => (none, s'')
        | (some none, s'') => (some none, s'')
        | (some (some h), s'') => (some (some ((n + U64 - 1) % U64, h)), s'')

def depStep (t : Task) (fault : Option Pos) (gethNum : Nat) (s : St) : Option (Option Nat) × St :=
  let kd := s.nDeps
  if t.deps.isEmpty then (some (some gethNum), s)
  else
    let s := { s with nDeps := kd + 1 }
    if hit fault (.qdeps kd) then (none, s)
    else match s.view.depTarget t.src t.deps with
      | none => (some none, s)
      | some (dn, _) => if dn == 0 then (some none, s) else (some (some (if dn < gethNum then dn else gethNum)), s)

def clip (t : Task) (target0 : Nat) : Nat := if t.stop > 0 ∧ target0 > t.stop then t.stop else target0

def plan (t : Task) (fault : Option Pos) (s : St) : Plan :=
  let k := s.nLatest
  let s := { s with nLatest := k + 1 }
  if hit fault (.qlatest k) then .stop { outcome := .err, db := s.db }
  else
    match localRes t s with
    | (none, s) => .stop { outcome := .err, db := s.db, scriptOk := false }
    | (some none, s) => .stop { outcome := .err, db := s.db }
    | (some (some (localNum, localHash)), s) =>
      if t.stop > 0 ∧ localNum ≥ t.stop then .stop { outcome := .done, db := s.db }
      else
        match takeLatest s with
        | (none, s) => .stop { outcome := .err, db := s.db, scriptOk := false }
        | (some none, s) => .stop { outcome := .err, db := s.db }
        | (some (some (gethNum, _)), s) =>
          match depStep t fault gethNum s with
          | (none, s) => .stop { outcome := .err, db := s.db }
          | (some none, s) => .stop { outcome := .nothingNew, db := s.db }
          | (some (some target0), s) =>
            let target := clip t target0
            if localNum > target then .stop { outcome := .ahead, db := s.db }
            else if localNum == target then .stop { outcome := .nothingNew, db := s.db }
            else
              let delta := min (target - localNum) t.batch
              if delta == 0 then .stop { outcome := .nothingNew, db := s.db }
              else .go localNum localHash delta s

/-- Task.Delete(localNum): cursor rows, previous position, destination rows -/
def delStep (t : Task) (fault : Option Pos) (s : St) (localNum : Nat) : Step :=
  let kk := s.nDel
  let s := { s with nDel := kk + 1 }
  if hit fault (.delcur kk) then .ret { outcome := .err, db := s.db }
  else
    let v1 := s.view.delCur t.src t.ig localNum
    if hit fault (.qprev kk) then .ret { outcome := .err, db := s.db }
    else
      let n := match v1.latestCur t.src t.ig with
        | some c => min localNum (c.num + 1)
        | none => if t.start > 0 then min localNum t.start else localNum
      if hit fault (.delrows kk) then .ret { outcome := .err, db := s.db }
      else .cont { s with view := v1.delRows t.table t.src t.ig n }

def newRowsOf (t : Task) (bs : List Blk) : List TRow := bs.flatMap (rowsFor t)

def clashOf (db1 : DB) (newRows : List TRow) : Bool :=
  newRows.any (fun r => db1.rows.any fun o => o.table == r.table && o.key == r.key) ||
    !(newRows.map (·.key)).eraseDups.length == newRows.length

def commitStep (t : Task) (fault : Option Pos) (s : St) (bs : List Blk) : Result :=
  if hit fault .commit1 then { outcome := .err, db := s.db }
  else
    let db1 := s.view
    if hit fault .begin2 then { outcome := .err, db := db1, mid := some db1 }
    else if hit fault .insert then { outcome := .err, db := db1, mid := some db1 }
    else
      let newRows := newRowsOf t bs
      if clashOf db1 newRows then { outcome := .err, db := db1, mid := some db1 }
      else if hit fault .update then { outcome := .err, db := db1, mid := some db1 }
      else
        match bs.getLast? with
        | none => { outcome := .panic, db := db1, mid := some db1 }
        | some last =>
          let c : Cur := { src := t.src, ig := t.ig, num := last.num, hash := last.hash }
          if db1.cur.any (fun o => o.src == c.src && o.ig == c.ig && o.num == c.num) then
            { outcome := .err, db := db1, mid := some db1 }
          else if hit fault .commit2 then { outcome := .err, db := db1, mid := some db1 }
          else { outcome := .ok last.num, db := { cur := db1.cur ++ [c], rows := db1.rows ++ newRows }, mid := some db1 }

def exec (t : Task) (fault : Option Pos) (localNum : Nat) (localHash : String) (delta : Nat) (s : St) : Step :=
  match load t s localHash (localNum + 1) delta with
  | (.scriptEnd, s) => .ret { outcome := .err, db := s.db, scriptOk := false }
  | (.err, s) => .ret { outcome := .err, db := s.db }
  | (.panic, s) => .ret { outcome := .panic, db := s.db }
  | (.reorg, s) => delStep t fault s localNum
  | (.blocks bs, s) => .ret (commitStep t fault s bs)

def iter (t : Task) (fault : Option Pos) (s : St) : Step :=
  match plan t fault s with
  | .stop r => .ret r
  | .go localNum localHash delta s => exec t fault localNum localHash delta s

/-- the delete branch in continuation-passing form (textually the model's) -/
def delK (t : Task) (fault : Option Pos) (k : St → Result) (s : St) (localNum : Nat) : Result :=
  let kk := s.nDel
  let s := { s with nDel := kk + 1 }
  if hit fault (.delcur kk) then { outcome := .err, db := s.db }
  else
    let v1 := s.view.delCur t.src t.ig localNum
    if hit fault (.qprev kk) then { outcome := .err, db := s.db }
    else
      let n := match v1.latestCur t.src t.ig with
        | some c => min localNum (c.num + 1)
        | none => if t.start > 0 then min localNum t.start else localNum
      if hit fault (.delrows kk) then { outcome := .err, db := s.db }
      else k { s with view := v1.delRows t.table t.src t.ig n }

/-- the loop body in continuation-passing form (textually the model's) -/
def iterK (t : Task) (fault : Option Pos) (k : St → Result) (s : St) : Result :=
  let n := s.nLatest
  let s := { s with nLatest := n + 1 }
  if hit fault (.qlatest n) then { outcome := .err, db := s.db }
  else
    match localRes t s with
    | (none, s) => { outcome := .err, db := s.db, scriptOk := false }
    | (some none, s) => { outcome := .err, db := s.db }
    | (some (some (localNum, localHash)), s) =>
      if t.stop > 0 ∧ localNum ≥ t.stop then { outcome := .done, db := s.db }
      else
        match takeLatest s with
        | (none, s) => { outcome := .err, db := s.db, scriptOk := false }
        | (some none, s) => { outcome := .err, db := s.db }
        | (some (some (gethNum, _)), s) =>
          match depStep t fault gethNum s with
          | (none, s) => { outcome := .err, db := s.db }
          | (some none, s) => { outcome := .nothingNew, db := s.db }
          | (some (some target0), s) =>
            let target := clip t target0
            if localNum > target then { outcome := .ahead, db := s.db }
            else if localNum == target then { outcome := .nothingNew, db := s.db }
            else
              let delta := min (target - localNum) t.batch
              if delta == 0 then { outcome := .nothingNew, db := s.db }
              else
                match load t s localHash (localNum + 1) delta with
                | (.scriptEnd, s) => { outcome := .err, db := s.db, scriptOk := false }
                | (.err, s) => { outcome := .err, db := s.db }
                | (.panic, s) => { outcome := .panic, db := s.db }
                | (.reorg, s) => delK t fault k s localNum
                | (.blocks bs, s) => commitStep t fault s bs

theorem loop_zero (t : Task) (fault : Option Pos) (s : St) :
    converge.loop t fault 0 s = { outcome := .reorgLimit, db := s.db } := rfl

theorem loop_succK (t : Task) (fault : Option Pos) (fuel : Nat) (s : St) :
    converge.loop t fault (fuel + 1) s = iterK t fault (converge.loop t fault fuel) s := rfl

theorem delK_eq (t : Task) (fault : Option Pos) (k : St → Result) (s : St) (localNum : Nat) :
    delK t fault k s localNum = match delStep t fault s localNum with
      | .ret r => r
      | .cont s' => k s' := by
  unfold delK delStep
  cases h1 : hit fault (.delcur s.nDel)
  case true => simp only [h1, ↓reduceIte]
  case false =>
  cases h2 : hit fault (.qprev s.nDel)
  case true => simp only [h1, h2, Bool.false_eq_true, ↓reduceIte]
  case false =>
  cases h3 : hit fault (.delrows s.nDel)
  case true => simp only [h1, h2, h3, Bool.false_eq_true, ↓reduceIte]
  case false => simp only [h1, h2, h3, Bool.false_eq_true, ↓reduceIte]

theorem iterK_eq (t : Task) (fault : Option Pos) (k : St → Result) (s : St) :
    iterK t fault k s = match iter t fault s with
      | .ret r => r
      | .cont s' => k s' := by
  unfold iterK iter plan
  simp only []
  cases h1 : hit fault (.qlatest s.nLatest)
  case true => simp only [↓reduceIte]
  case false =>
  simp only [Bool.false_eq_true, ↓reduceIte]
  generalize localRes t _ = lr
  obtain ⟨a, s1⟩ := lr
  rcases a with _ | _ | ⟨localNum, localHash⟩
  · rfl
  · rfl
  simp only []
  by_cases h2 : t.stop > 0 ∧ localNum ≥ t.stop
  · simp only [h2, and_self, ↓reduceIte]
  simp only [h2, ↓reduceIte]
  generalize takeLatest s1 = tl
  obtain ⟨a, s2⟩ := tl
  rcases a with _ | _ | ⟨gethNum, gh⟩
  · rfl
  · rfl
  simp only []
  generalize depStep t fault gethNum s2 = ds
  obtain ⟨a, s3⟩ := ds
  rcases a with _ | _ | target0
  · rfl
  · rfl
  simp only []
  by_cases h3 : localNum > clip t target0
  · simp only [h3, ↓reduceIte]
  simp only [h3, ↓reduceIte]
  cases h4 : localNum == clip t target0
  case true => simp only [↓reduceIte]
  case false =>
  simp only [Bool.false_eq_true, ↓reduceIte]
  cases h5 : min (clip t target0 - localNum) t.batch == 0
  case true => simp only [↓reduceIte]
  case false =>
  simp only [Bool.false_eq_true, ↓reduceIte, exec]
  generalize load t s3 localHash (localNum + 1) _ = ld
  obtain ⟨a, s4⟩ := ld
  cases a with
  | scriptEnd => rfl
  | err => rfl
  | panic => rfl
  | blocks bs => rfl
  | reorg => simp only [delK_eq]

theorem loop_succ (t : Task) (fault : Option Pos) (fuel : Nat) (s : St) :
    converge.loop t fault (fuel + 1) s =
      match iter t fault s with
      | .ret r => r
      | .cont s' => converge.loop t fault fuel s' := by
  rw [loop_succK, iterK_eq]

end Shovel.World
