import Shovel.Model.AbiType
import Shovel.Spec.AbiDecl
/-
  Helper lemmas for C09 `parse_correct` / C13 `sig_canonical`.
-/
namespace Shovel.Abi

/-! ### generic list lemmas -/

/-- shape of an array suffix: empty or starting with `[` -/
def SufOK (s : List Char) : Prop := s = [] ∨ ∃ r, s = '[' :: r

theorem isPrefixOf_of_append (p n s : List Char) (hp : '[' ∉ p) (hs : SufOK s)
    (h : p.isPrefixOf (n ++ s) = true) : p.isPrefixOf n = true := by
  induction p generalizing n with
  | nil => simp
  | cons c p ih =>
    cases n with
    | nil =>
      rcases hs with rfl | ⟨r, rfl⟩
      · simp at h
      · simp at h
        simp [h.1] at hp
    | cons d n =>
      simp only [List.cons_append, List.isPrefixOf_cons_cons, Bool.and_eq_true, beq_iff_eq] at h ⊢
      exact ⟨h.1, ih n (by simp at hp; exact hp.2) h.2⟩

theorem isPrefixOf_append_right (p n s : List Char) (h : p.isPrefixOf n = true) :
    p.isPrefixOf (n ++ s) = true := by
  rw [List.isPrefixOf_iff_prefix] at h ⊢
  exact List.IsPrefix.trans h (List.prefix_append n s)

theorem hasPrefix_append (p n s : List Char) (hp : '[' ∉ p) (hs : SufOK s) :
    hasPrefix p (n ++ s) = hasPrefix p n := by
  unfold hasPrefix
  cases h : p.isPrefixOf n with
  | true => exact isPrefixOf_append_right p n s h
  | false =>
    cases h2 : p.isPrefixOf (n ++ s) with
    | false => rfl
    | true => rw [isPrefixOf_of_append p n s hp hs h2] at h; exact h

theorem beforeBracket_append (n s : List Char) (hn : '[' ∉ n) (hs : SufOK s) :
    beforeBracket (n ++ s) = n := by
  unfold beforeBracket
  induction n with
  | nil =>
    rcases hs with rfl | ⟨r, rfl⟩ <;> simp
  | cons c n ih =>
    simp at hn
    have : c ≠ '[' := fun h => hn.1 h.symm
    simpa [this] using ih hn.2

/-! ### replaceFirst -/

theorem replaceFirst_prefix (old new suf : List Char) (h : old ≠ []) :
    replaceFirst (old ++ suf) old new = new ++ suf := by
  unfold replaceFirst
  have h1 : old.isEmpty = false := by cases old <;> simp_all
  simp only [h1]
  unfold replaceFirst.go
  have h2 : old.isPrefixOf (old ++ suf) = true := by
    rw [List.isPrefixOf_iff_prefix]; exact List.prefix_append _ _
  simp [h2]

/-! ### atoi on decimals -/

theorem atoi_foldl_digits (f : Option Nat → Char → Option Nat)
    (hf : ∀ n c, c.isDigit = true → f (some n) c = some (n * 10 + (c.toNat - 48)))
    (cs : List Char) (n : Nat) (h : ∀ c ∈ cs, c.isDigit = true) :
    cs.foldl f (some n) = some (Nat.ofDigitChars 10 cs n) := by
  induction cs generalizing n with
  | nil => simp
  | cons c cs ih =>
    have hc : c.isDigit = true := h c (by simp)
    simp only [List.foldl_cons, hf n c hc]
    rw [ih _ (fun c hc => h c (by simp [hc]))]
    simp [Nat.ofDigitChars_cons, Nat.mul_comm]

theorem atoi_decimal (k : Nat) : atoi (decimal k) = some k := by
  unfold atoi decimal
  have h1 : (Nat.toDigits 10 k).isEmpty = false := by
    cases h : Nat.toDigits 10 k with
    | nil => exact absurd h Nat.toDigits_ne_nil
    | cons _ _ => rfl
  simp only [h1]
  rw [atoi_foldl_digits _ (fun n c hc => by simp [hc]) _ _
    (fun c hc => Nat.isDigit_of_mem_toDigits (by decide) (by decide) hc)]
  simp

theorem decimal_ne_nil (k : Nat) : decimal k ≠ [] := Nat.toDigits_ne_nil

theorem bracket_not_mem_decimal (k : Nat) : '[' ∉ decimal k := by
  intro h
  have := Nat.isDigit_of_mem_toDigits (b := 10) (by decide) (by decide) h
  simp [Char.isDigit] at this

theorem rbracket_not_mem_decimal (k : Nat) : ']' ∉ decimal k := by
  intro h
  have := Nat.isDigit_of_mem_toDigits (b := 10) (by decide) (by decide) h
  simp [Char.isDigit] at this

/-! ### parseArray -/

/-- digits of one dimension: none for `[]` -/
def dimDigits (k : Nat) : List Char := if k = 0 then [] else decimal k

theorem dimSuffix_eq (k : Nat) : dimSuffix k = '[' :: dimDigits k ++ [']'] := by
  unfold dimSuffix dimDigits; split <;> simp

theorem bracket_not_mem_dimDigits (k : Nat) : '[' ∉ dimDigits k := by
  unfold dimDigits; split
  · simp
  · exact bracket_not_mem_decimal k

/-- the `num` string the Go loop collects -/
def numOf (s : List Char) : List Char :=
  ((((s.take (s.length - 1)).drop 1).reverse.takeWhile (· ≠ '[')).reverse)

theorem parseArray_succ (fuel : Nat) (elm : Ty) (s : List Char) :
    parseArray (fuel + 1) elm s =
      if !s.contains ']' then .ok elm
      else if s.length < 2 then .panic
      else if (numOf s).isEmpty then
        match parseArray fuel elm (s.take (s.length - 2)) with
        | .ok e => .ok (.arr 0 e)
        | r => r
      else
        match atoi (numOf s) with
        | none => .panic
        | some k =>
          if s.length < (numOf s).length + 2 then .panic
          else match parseArray fuel elm (s.take (s.length - (numOf s).length - 2)) with
            | .ok e => .ok (.arr k e)
            | r => r := by
  rw [parseArray]; rfl

theorem takeWhile_append_bracket (d r : List Char) (hd : '[' ∉ d) :
    (d ++ '[' :: r).takeWhile (· ≠ '[') = d := by
  induction d with
  | nil => simp
  | cons c d ih =>
    simp at hd
    have : c ≠ '[' := fun h => hd.1 h.symm
    simpa [this] using ih hd.2

theorem numOf_append (s d : List Char) (hs : s ≠ []) (hd : '[' ∉ d) :
    numOf (s ++ '[' :: d ++ [']']) = d := by
  unfold numOf
  have e1 : s ++ '[' :: d ++ [']'] = (s ++ '[' :: d) ++ [']'] := by simp
  rw [e1]
  have e2 : ((s ++ '[' :: d) ++ [']']).length - 1 = (s ++ '[' :: d).length := by simp
  rw [e2, List.take_left']
  · cases s with
    | nil => exact absurd rfl hs
    | cons c s =>
      simp only [List.cons_append, List.drop_succ_cons, List.drop_zero, List.reverse_append,
        List.reverse_cons, List.append_assoc]
      rw [takeWhile_append_bracket _ _ (by simpa using hd)]
      simp
  · rfl

theorem parseArray_step (fuel : Nat) (elm : Ty) (s : List Char) (k : Nat) (hs : s ≠ []) :
    parseArray (fuel + 1) elm (s ++ dimSuffix k) =
      match parseArray fuel elm s with
      | .ok e => .ok (.arr k e)
      | r => r := by
  rw [parseArray_succ, dimSuffix_eq, ← List.append_assoc,
    numOf_append s (dimDigits k) hs (bracket_not_mem_dimDigits k)]
  have hc : (s ++ '[' :: dimDigits k ++ [']']).contains ']' = true := by simp
  have hl : (s ++ '[' :: dimDigits k ++ [']']).length = s.length + (dimDigits k).length + 2 := by
    simp; omega
  have ht : (s ++ '[' :: dimDigits k ++ [']']).take s.length = s := by
    rw [List.append_assoc, List.take_left']; rfl
  have hl2 : ¬ (s.length + (dimDigits k).length + 2 < 2) := by omega
  have hl3 : ¬ (s.length + (dimDigits k).length + 2 < (dimDigits k).length + 2) := by omega
  have hl4 : s.length + (dimDigits k).length + 2 - (dimDigits k).length - 2 = s.length := by omega
  simp only [hc, hl, Bool.not_true, Bool.false_eq_true, if_false, hl2, hl3, hl4, ht]
  by_cases hk : k = 0
  · subst hk
    have : dimDigits 0 = [] := rfl
    rw [this] at ht
    simp only [this, List.isEmpty_nil, if_true, List.length_nil, Nat.add_zero, Nat.add_sub_cancel, ht]
  · have hd : dimDigits k = decimal k := by simp [dimDigits, hk]
    have he : (decimal k).isEmpty = false := by
      cases h : decimal k with
      | nil => exact absurd h (decimal_ne_nil k)
      | cons _ _ => rfl
    simp only [hd, he, Bool.false_eq_true, if_false, atoi_decimal]

/-! ### array layers of a spec type -/

/-- wrap `x` in the array layers of `t` -/
def STy.wrap : STy → Ty → Ty
  | .arr k e, x => .arr k (e.wrap x)
  | _, x => x

theorem dimSuffix_sufOK (k : Nat) : SufOK (dimSuffix k) := by
  right; rw [dimSuffix_eq]; exact ⟨_, rfl⟩

theorem SufOK_append (a b : List Char) (ha : SufOK a) (hb : SufOK b) : SufOK (a ++ b) := by
  rcases ha with rfl | ⟨r, rfl⟩
  · simpa using hb
  · right; exact ⟨r ++ b, rfl⟩

theorem STy.suffix_sufOK : (t : STy) → SufOK t.suffix
  | .arr k e => by
    rw [STy.suffix]; exact SufOK_append _ _ (STy.suffix_sufOK e) (dimSuffix_sufOK k)
  | .elem _ _ => Or.inl rfl
  | .tuple _ => Or.inl rfl

theorem dimSuffix_length (k : Nat) : 2 ≤ (dimSuffix k).length := by
  rw [dimSuffix_eq]; simp

theorem contains_eq_false {c : Char} {l : List Char} (h : c ∉ l) : l.contains c = false := by
  simpa using h

theorem parseArray_suffix : (t : STy) → (fuel : Nat) → (elm : Ty) → (nm : List Char) →
    nm ≠ [] → ']' ∉ nm → t.suffix.length < fuel →
    parseArray fuel elm (nm ++ t.suffix) = .ok (t.wrap elm)
  | .arr k e, fuel, elm, nm, h1, h2, h3 => by
    have := dimSuffix_length k
    rw [STy.suffix, List.length_append] at h3
    cases fuel with
    | zero => omega
    | succ fuel =>
      rw [STy.suffix, ← List.append_assoc, parseArray_step _ _ _ _ (by simp [h1]),
        parseArray_suffix e fuel elm nm h1 h2 (by omega)]
      rfl
  | .elem _ _, fuel, elm, nm, h1, h2, h3 => by
    cases fuel with
    | zero => simp [STy.suffix] at h3
    | succ fuel =>
      rw [parseArray_succ]; simp [STy.suffix, STy.wrap, h2]
  | .tuple _, fuel, elm, nm, h1, h2, h3 => by
    cases fuel with
    | zero => simp [STy.suffix] at h3
    | succ fuel =>
      rw [parseArray_succ]; simp [STy.suffix, STy.wrap, h2]

/-! ### reduction to the base type -/

theorem STys.toInps_cons (t : STy) (ts : STys) :
    STys.toInps (.cons t ts) = .cons (STy.toInp false t) (STys.toInps ts) := rfl
theorem STys.toInps_nil : STys.toInps .nil = .nil := rfl


theorem STy.base_cases : (t : STy) → (∃ n s, t.base = .elem n s) ∨ (∃ fs, t.base = .tuple fs)
  | .arr _ e => by rw [STy.base]; exact STy.base_cases e
  | .elem n s => Or.inl ⟨n, s, rfl⟩
  | .tuple fs => Or.inr ⟨fs, rfl⟩

theorem STy.baseName_base : (t : STy) → t.baseName = t.base.baseName
  | .arr _ e => by rw [STy.baseName, STy.base]; exact STy.baseName_base e
  | .elem _ _ => rfl
  | .tuple _ => rfl

theorem STy.baseSel_base : (t : STy) → t.baseSel = t.base.baseSel
  | .arr _ e => by rw [STy.baseSel, STy.base]; exact STy.baseSel_base e
  | .elem _ _ => rfl
  | .tuple _ => rfl

theorem STy.compsOf_base : (t : STy) → STy.compsOf t = STy.compsOf t.base
  | .arr _ e => by rw [STy.compsOf, STy.base]; exact STy.compsOf_base e
  | .elem _ _ => rfl
  | .tuple _ => rfl

theorem STy.wf_base : (t : STy) → t.wf = t.base.wf
  | .arr _ e => by rw [STy.wf, STy.base]; exact STy.wf_base e
  | .elem _ _ => rfl
  | .tuple _ => rfl

theorem STy.canon_base : (t : STy) → t.canon = t.base.canon ++ t.suffix
  | .arr k e => by
    rw [STy.canon, STy.base, STy.suffix, STy.canon_base e, List.append_assoc]
  | .elem _ _ => by simp [STy.base, STy.suffix]
  | .tuple _ => by simp [STy.base, STy.suffix]

theorem STy.expect_base : (t : STy) → (pos : Nat) →
    STy.expect pos t = ((STy.expect pos t.base).1, t.wrap (STy.expect pos t.base).2)
  | .arr k e, pos => by
    rw [STy.expect, STy.expect_base e pos, STy.base, STy.wrap]
  | .elem _ _, pos => rfl
  | .tuple _, pos => rfl

theorem STy.toInp_eq (ix : Bool) (t : STy) :
    t.toInp ix = .mk ix t.base.baseSel (t.base.baseName ++ t.suffix) (STy.compsOf t.base) := by
  rw [STy.toInp, STy.typeString, STy.baseName_base, STy.baseSel_base, STy.compsOf_base]

/-! ### names -/

theorem nameOK_parts {n : List Char} (h : nameOK n = true) :
    '[' ∉ n ∧ ']' ∉ n ∧ hasPrefix tupleP n = false ∧
    (hasPrefix stringP n = true → n = stringP) ∧ n ≠ [] := by
  unfold nameOK at h
  simp only [Bool.and_eq_true, Bool.not_eq_true', Bool.or_eq_true, beq_iff_eq] at h
  obtain ⟨⟨⟨⟨h1, h2⟩, h3⟩, h4⟩, h5⟩ := h
  refine ⟨by simpa using h1, by simpa using h2, h3, ?_, ?_⟩
  · intro hp; rcases h4 with h4 | h4
    · rw [hp] at h4; cases h4
    · exact h4
  · intro h; subst h; simp at h5

theorem classify (n : List Char) (s : Option Nat) (h : nameOK n = true) :
    (if hasPrefix bytesP n then (if n = bytesP then Ty.dyn s else Ty.stat s)
      else if hasPrefix stringP n then Ty.dyn s else Ty.stat s)
    = if isDynName n then Ty.dyn s else Ty.stat s := by
  obtain ⟨_, _, _, h4, _⟩ := nameOK_parts h
  by_cases hb : n = bytesP
  · subst hb; rfl
  · by_cases hs : n = stringP
    · subst hs; rfl
    · have hd : isDynName n = false := by
        unfold isDynName
        simp only [Bool.or_eq_false_iff, beq_eq_false_iff_ne, ne_eq]
        exact ⟨hb, hs⟩
      have h5 : hasPrefix stringP n = false := by
        cases h6 : hasPrefix stringP n with
        | false => rfl
        | true => exact absurd (h4 h6) hs
      simp [hd, hb, h5]

/-! ### signature -/

theorem bracket_not_mem_tupleP : '[' ∉ tupleP := by decide
theorem bracket_not_mem_bytesP : '[' ∉ bytesP := by decide
theorem bracket_not_mem_stringP : '[' ∉ stringP := by decide

theorem sig_of_base (t : STy) (ix : Bool) (hwf : t.wf = true)
    (h : ∀ fs, t.base = .tuple fs → Inps.signatures (STys.toInps fs) = STys.canon fs) :
    Inp.signature (t.toInp ix) = t.canon := by
  rw [STy.toInp_eq, Inp.signature, STy.canon_base,
    hasPrefix_append _ _ _ bracket_not_mem_tupleP (STy.suffix_sufOK t)]
  rw [STy.wf_base] at hwf
  rcases STy.base_cases t with ⟨n, s, hb⟩ | ⟨fs, hb⟩
  · rw [hb] at hwf ⊢
    rw [STy.wf] at hwf
    obtain ⟨_, _, h3, _, _⟩ := nameOK_parts hwf
    simp [STy.baseName, STy.canon, h3]
  · rw [hb]
    have hp : hasPrefix tupleP tupleP = true := by decide
    simp only [STy.baseName, STy.compsOf, STy.canon]
    show (if (!hasPrefix tupleP tupleP) = true then _ else _) = _
    rw [hp]
    simp only [Bool.not_true, Bool.false_eq_true, if_false]
    show replaceFirst (tupleP ++ t.suffix) tupleP _ = _
    rw [replaceFirst_prefix _ _ _ (by decide), h fs hb]

theorem STy.wf_tuple {fs : STys} (h : (STy.tuple fs).wf = true) :
    (STys.toInps fs).isEmpty = false ∧ fs.wf = true := by
  rw [STy.wf] at h
  simpa using h

theorem STys.wf_cons {t : STy} {ts : STys} (h : (STys.cons t ts).wf = true) :
    t.wf = true ∧ ts.wf = true := by
  rw [STys.wf] at h
  simpa using h

mutual
theorem sigBase : (t : STy) → t.wf = true → ∀ fs, t.base = .tuple fs →
    Inps.signatures (STys.toInps fs) = STys.canon fs
  | .arr _ e, hwf, fs, h =>
    sigBase e (by rw [STy.wf] at hwf; exact hwf) fs (by rw [STy.base] at h; exact h)
  | .elem _ _, _, fs, h => by simp [STy.base] at h
  | .tuple fs', hwf, fs, h => by
    have : fs' = fs := by simpa [STy.base] using h
    subst this
    exact sigAll fs' (STy.wf_tuple hwf).2
theorem sigAll : (ts : STys) → ts.wf = true → Inps.signatures (STys.toInps ts) = STys.canon ts
  | .nil, _ => by simp [STys.toInps_nil, Inps.signatures, STys.canon]
  | .cons t .nil, hwf => by
    have h1 := (STys.wf_cons hwf).1
    simp only [STys.toInps_cons, STys.toInps_nil, Inps.signatures, STys.canon]
    exact sig_of_base t false h1 (sigBase t h1)
  | .cons t (.cons t' ts), hwf => by
    have h1 := (STys.wf_cons hwf).1
    have h2 := (STys.wf_cons hwf).2
    have ih := sigAll (.cons t' ts) h2
    rw [STys.toInps_cons] at ih
    rw [STys.toInps_cons, STys.toInps_cons, Inps.signatures, STys.canon, ih,
      sig_of_base t false h1 (sigBase t h1)]
    all_goals (intro h; cases h)
end

theorem sig_full (t : STy) (ix : Bool) (hwf : t.wf = true) :
    Inp.signature (t.toInp ix) = t.canon :=
  sig_of_base t ix hwf (sigBase t hwf)

theorem sig_decl : (ds : List (Bool × STy)) → (∀ d ∈ ds, d.2.wf = true) →
    Inps.signatures (declInps ds) = declCanon ds
  | [], _ => by simp [declInps, Inps.signatures, declCanon]
  | [(ix, t)], hwf => by
    simp only [declInps, Inps.signatures, declCanon]
    exact sig_full t ix (hwf (ix, t) (by simp))
  | (ix, t) :: (ix', t') :: ds, hwf => by
    have ih := sig_decl ((ix', t') :: ds) (fun d hd => hwf d (by simp [hd]))
    rw [declInps] at ih
    rw [declInps, declInps, Inps.signatures, declCanon, ih, sig_full t ix (hwf (ix, t) (by simp))]
    all_goals (intro h; cases h)

/-! ### ABI type -/

theorem abiType_leaf (ix sel : Bool) (type : List Char) (pos : Nat) (t' : Ty)
    (h : parseArray (type.length + 1)
        (if hasPrefix bytesP type then
          (if beforeBracket type = bytesP then .dyn (if sel then some pos else none)
           else .stat (if sel then some pos else none))
         else if hasPrefix stringP type then .dyn (if sel then some pos else none)
         else .stat (if sel then some pos else none)) type = .ok t') :
    Inp.abiType (.mk ix sel type .nil) pos = .ok (if sel then pos + 1 else pos, t') := by
  rw [Inp.abiType]
  simp only [h]

theorem abiType_tuple (ix sel : Bool) (type : List Char) (comps : Inps) (pos pos1 : Nat)
    (fs : Tys) (t' : Ty) (hne : comps.isEmpty = false)
    (h1 : Inps.abiTypes comps pos = .ok (pos1, fs))
    (h2 : parseArray (type.length + 1) (.tup fs) type = .ok t') :
    Inp.abiType (.mk ix sel type comps) pos = .ok (if sel then pos1 + 1 else pos1, t') := by
  cases comps with
  | nil => simp [Inps.isEmpty] at hne
  | cons i is =>
    rw [Inp.abiType]
    simp only [h1, h2]

theorem abiType_of_base (t : STy) (ix : Bool) (pos : Nat) (hwf : t.wf = true)
    (h : ∀ fs, t.base = .tuple fs →
      ∀ pos, Inps.abiTypes (STys.toInps fs) pos = .ok (STys.expect pos fs)) :
    Inp.abiType (t.toInp ix) pos = .ok (STy.expect pos t) := by
  rw [STy.toInp_eq, STy.expect_base]
  rw [STy.wf_base] at hwf
  rcases STy.base_cases t with ⟨n, s, hb⟩ | ⟨fs, hb⟩
  · rw [hb] at hwf ⊢
    rw [STy.wf] at hwf
    obtain ⟨h1, h2, _, _, h5⟩ := nameOK_parts hwf
    simp only [STy.baseName, STy.baseSel, STy.compsOf]
    rw [abiType_leaf _ _ _ _ (t.wrap (STy.expect pos (.elem n s)).2)]
    · rfl
    · rw [hasPrefix_append _ _ _ bracket_not_mem_bytesP (STy.suffix_sufOK t),
        hasPrefix_append _ _ _ bracket_not_mem_stringP (STy.suffix_sufOK t),
        beforeBracket_append _ _ h1 (STy.suffix_sufOK t), classify _ _ hwf,
        parseArray_suffix t _ _ n h5 h2 (by simp; omega)]
      rfl
  · rw [hb] at hwf ⊢
    obtain ⟨h1, _⟩ := STy.wf_tuple hwf
    simp only [STy.baseName, STy.baseSel, STy.compsOf]
    rw [abiType_tuple _ _ _ _ pos (STys.expect pos fs).1 (STys.expect pos fs).2
      (t.wrap (.tup (STys.expect pos fs).2)) h1 (h fs hb pos)]
    · rfl
    · exact parseArray_suffix t _ _ tupleP (by decide) (by decide) (by simp; omega)

theorem STys.expect_cons (pos : Nat) (t : STy) (ts : STys) :
    STys.expect pos (.cons t ts) =
      ((STys.expect (STy.expect pos t).1 ts).1,
       .cons (STy.expect pos t).2 (STys.expect (STy.expect pos t).1 ts).2) := by
  rw [STys.expect]

theorem abiTypes_cons (i : Inp) (is : Inps) (pos pos1 pos2 : Nat) (t : Ty) (ts : Tys)
    (h1 : Inp.abiType i pos = .ok (pos1, t)) (h2 : Inps.abiTypes is pos1 = .ok (pos2, ts)) :
    Inps.abiTypes (.cons i is) pos = .ok (pos2, .cons t ts) := by
  rw [Inps.abiTypes]
  simp only [h1, h2]

mutual
theorem parseBase : (t : STy) → t.wf = true → ∀ fs, t.base = .tuple fs →
    ∀ pos, Inps.abiTypes (STys.toInps fs) pos = .ok (STys.expect pos fs)
  | .arr _ e, hwf, fs, h =>
    parseBase e (by rw [STy.wf] at hwf; exact hwf) fs (by rw [STy.base] at h; exact h)
  | .elem _ _, _, fs, h => by simp [STy.base] at h
  | .tuple fs', hwf, fs, h => by
    have : fs' = fs := by simpa [STy.base] using h
    subst this
    exact parseAll fs' (STy.wf_tuple hwf).2
theorem parseAll : (ts : STys) → ts.wf = true →
    ∀ pos, Inps.abiTypes (STys.toInps ts) pos = .ok (STys.expect pos ts)
  | .nil, _, pos => by rw [STys.toInps_nil, Inps.abiTypes, STys.expect]
  | .cons t ts, hwf, pos => by
    have h1 := (STys.wf_cons hwf).1
    have h2 := (STys.wf_cons hwf).2
    rw [STys.toInps_cons, STys.expect_cons]
    exact abiTypes_cons _ _ _ _ _ _ _
      (abiType_of_base t false pos h1 (parseBase t h1)) (parseAll ts h2 _)
end

theorem abiType_full (t : STy) (ix : Bool) (pos : Nat) (hwf : t.wf = true) :
    Inp.abiType (t.toInp ix) pos = .ok (STy.expect pos t) :=
  abiType_of_base t ix pos hwf (parseBase t hwf)

theorem toInp_indexed (t : STy) (ix : Bool) : (t.toInp ix).indexed = ix := by
  rw [STy.toInp, Inp.indexed]

theorem eventFields_decl : (ds : List (Bool × STy)) → (∀ d ∈ ds, d.2.wf = true) →
    ∀ pos, eventFields (declInps ds) pos = .ok (declExpect pos ds)
  | [], _, pos => by rw [declInps, eventFields, declExpect]
  | (ix, t) :: ds, hwf, pos => by
    have ih := eventFields_decl ds (fun d hd => hwf d (by simp [hd]))
    rw [declInps, eventFields, declExpect, toInp_indexed]
    cases ix with
    | true => simp only [if_true]; exact ih pos
    | false =>
      simp only [Bool.false_eq_true, if_false]
      rw [abiType_full t false pos (hwf (false, t) (by simp))]
      simp only [ih]

end Shovel.Abi
