import Shovel.Model.Row
import Shovel.Spec.Row
/-
  Helper lemmas for C11 / C12 / C13 (row builder vs. row specification).
-/
set_option linter.unusedSimpArgs false
namespace Shovel.Row
open Shovel.Abi

/-! ### Frs -/

theorem Frs.add_kind (fr : Frs) (b : Bool) : (fr.add b).kind = fr.kind := by
  unfold Frs.add; split
  · rfl
  · split <;> rfl

theorem Frs.add_add (fr : Frs) (b : Bool) : (fr.add b).add b = fr.add b := by
  obtain ⟨k, s, v⟩ := fr
  cases s <;> cases v <;> cases b <;> simp [Frs.add] <;> (split <;> simp)

theorem Frs.foldl_set (kind : String) (v : Bool) (bs : List Bool) :
    (bs.foldl Frs.add { kind := kind, set := true, val := v }).accept =
      if kind == "and" then v && bs.all id else v || bs.any id := by
  induction bs generalizing v with
  | nil => simp [Frs.accept]
  | cons b bs ih =>
    rw [List.foldl_cons]
    have : Frs.add { kind := kind, set := true, val := v } b =
        { kind := kind, set := true, val := if kind == "and" then v && b else v || b } := by
      simp only [Frs.add]; by_cases h : (kind == "and") = true <;> simp [h]
    rw [this, ih]
    by_cases h : (kind == "and") = true <;> simp [h, Bool.and_assoc, Bool.or_assoc]

theorem ends_contains : ("contains".endsWith "contains") = true := by decide +kernel

theorem ends_ncontains : ("!contains".endsWith "contains") = true := by decide +kernel

theorem starts_contains : ("contains".startsWith "!") = false := by decide +kernel

theorem starts_ncontains : ("!contains".startsWith "!") = true := by decide +kernel

theorem ends_eq : ("eq".endsWith "contains") = false := by decide +kernel

theorem ends_ne : ("ne".endsWith "contains") = false := by decide +kernel

theorem not_int_uint (base : List Char) :
    ¬ ("int".toList.isPrefixOf base = true ∧ "uint".toList.isPrefixOf base = true) := by
  cases base with
  | nil => simp
  | cons c cs =>
    intro ⟨h1, h2⟩
    simp [List.isPrefixOf] at h1 h2
    have a := h1.1; have b := h2.1; rw [← a] at b; exact absurd b (by decide)

theorem gate_iff (n : Nat) (sh : List Nat) (lg : Log) :
    gate n sh lg = true ↔ (lg.topics.length = 1 + n ∧ lg.topics.head? = some sh) := by
  unfold gate
  cases h : lg.topics with
  | nil => simp
  | cons t ts => simp; omega

theorem gate_eq_spec (n : Nat) (sh : List Nat) (lg : Log) :
    gate n sh lg = (decide (lg.topics.length = 1 + n) && lg.topics.headD [] == sh) := by
  unfold gate
  congr 1
  simp only [decide_eq_decide]; omega

theorem count_zero (rest : Inps) : ownTopic.count rest 0 = 0 := by
  cases rest <;> rfl

/-- the model's topic position of the top-level input at position `k` is the number of indexed
    inputs among the first `k + 1` -/
theorem inputCols_eq (G : Nat → Nat) : (rest : Inps) → (c k : Nat) →
    (∀ j, G (k + j) = c + ownTopic.count rest (j + 1)) →
    inputCols rest c = (selWithTop rest k).map (fun p => (p.1, G p.2.1, p.2.2))
  | .nil, c, k, _ => by simp [inputCols, selWithTop]
  | .cons i rest, c, k, hG => by
    simp only [inputCols, selWithTop, List.map_append, List.map_map]
    have h0 := hG 0
    simp only [ownTopic.count, Nat.add_zero, count_zero] at h0
    congr 1
    · apply List.map_congr_left
      intro p _
      simp only [Function.comp]
      rw [h0]; split <;> simp
    · apply inputCols_eq G rest _ (k + 1)
      intro j
      have := hG (j + 1)
      simp only [ownTopic.count] at this
      rw [show k + 1 + j = k + (j + 1) by omega, this]
      split <;> omega

theorem sel_ix : (rest : Inps) → (k : Nat) → ixOK rest = true →
    ∀ p ∈ selWithTop rest k, p.1 = true →
      ∃ j, p.2.1 = k + j ∧ ownTopic.count rest (j + 1) = 1 + ownTopic.count rest j
  | .nil, k, _ => by simp [selWithTop]
  | .cons i rest, k, hix => by
    intro p hp hp1
    simp only [ixOK, Bool.and_eq_true, Bool.or_eq_true] at hix
    simp only [selWithTop, List.mem_append, List.mem_map] at hp
    rcases hp with ⟨q, hq, rfl⟩ | hp
    · refine ⟨0, rfl, ?_⟩
      simp only [ownTopic.count, count_zero]
      rcases hix.1 with hi | hall
      · simp [hi]
      · rw [List.all_eq_true] at hall
        have := hall q hq
        simp only at hp1
        simp [hp1] at this
    · obtain ⟨j, hj, hc⟩ := sel_ix rest (k + 1) hix.2 p hp hp1
      refine ⟨j + 1, by omega, ?_⟩
      simp only [ownTopic.count]
      omega

end Shovel.Row
