import Shovel.Proofs.WorldStep
/-
  Structural facts (no chain): frame/stamp invariant, completion, faults.
-/
namespace Shovel.World

/-- `v` differs from `db` only in positions and rows of task `t` -/
structure Sub (t : Task) (db v : DB) : Prop where
  cur : (v.cur.filter fun x => !mineC t x) = (db.cur.filter fun x => !mineC t x)
  rows : (v.rows.filter fun x => !mine t x) = (db.rows.filter fun x => !mine t x)
  curm : ∀ x ∈ v.cur, x ∈ db.cur ∨ mineC t x = true
  rowsm : ∀ x ∈ v.rows, x ∈ db.rows ∨ mine t x = true

theorem Sub.refl (t : Task) (db : DB) : Sub t db db :=
  ⟨rfl, rfl, fun _ h => .inl h, fun _ h => .inl h⟩

theorem delView_cur (t : Task) (v : DB) (ln : Nat) :
    (delView t v ln).cur = v.cur.filter fun c => !(mineC t c && decide (c.num ≥ ln)) := rfl

theorem delView_rows (t : Task) (v : DB) (ln : Nat) :
    (delView t v ln).rows =
      v.rows.filter fun r => !(mine t r && decide (r.blk ≥ delN t (v.delCur t.src t.ig ln) ln)) := rfl

theorem Sub.delView {t : Task} {db v : DB} (h : Sub t db v) (ln : Nat) : Sub t db (delView t v ln) := by
  refine ⟨?_, ?_, ?_, ?_⟩
  · rw [delView_cur, List.filter_filter, ← h.cur]
    apply List.filter_congr
    intro x _
    cases mineC t x <;> rfl
  · rw [delView_rows, List.filter_filter, ← h.rows]
    apply List.filter_congr
    intro x _
    cases mine t x <;> rfl
  · intro x hx
    rw [delView_cur] at hx
    exact h.curm x (List.mem_filter.mp hx).1
  · intro x hx
    rw [delView_rows] at hx
    exact h.rowsm x (List.mem_filter.mp hx).1

theorem mine_newRows (t : Task) (bs : List Blk) : ∀ x ∈ newRowsOf t bs, mine t x = true := by
  intro x hx
  unfold newRowsOf at hx
  obtain ⟨b, _, hx⟩ := List.mem_flatMap.mp hx
  unfold rowsFor at hx
  obtain ⟨kp, _, rfl⟩ := List.mem_map.mp hx
  simp [mine]

theorem mineC_newCur (t : Task) (last : Blk) : mineC t (newCur t last) = true := by
  simp [mineC, newCur]

theorem Sub.committed {t : Task} {db v : DB} (h : Sub t db v) (bs : List Blk) (last : Blk) :
    Sub t db (committed t v bs last) := by
  refine ⟨?_, ?_, ?_, ?_⟩
  · show List.filter _ (v.cur ++ [newCur t last]) = _
    rw [List.filter_append, h.cur]
    have : List.filter (fun x => !mineC t x) [newCur t last] = [] := by
      simp [mineC_newCur]
    rw [this, List.append_nil]
  · show List.filter _ (v.rows ++ newRowsOf t bs) = _
    rw [List.filter_append, h.rows]
    have : List.filter (fun x => !mine t x) (newRowsOf t bs) = [] := by
      rw [List.filter_eq_nil_iff]
      intro a ha
      simp [mine_newRows t bs a ha]
    rw [this, List.append_nil]
  · intro x hx
    rcases List.mem_append.mp hx with hx | hx
    · exact h.curm x hx
    · right
      simp only [List.mem_singleton] at hx
      rw [hx]; exact mineC_newCur t last
  · intro x hx
    rcases List.mem_append.mp hx with hx | hx
    · exact h.rowsm x hx
    · right; exact mine_newRows t bs x hx

/-- an iteration that continues only deleted positions and rows of `t` in the view -/
theorem iter_cont (t : Task) (f : Option Pos) (s s' : St) (h : iter t f s = .cont s') :
    s'.db = s.db ∧ ∃ ln, s'.view = delView t s.view ln := by
  rcases iter_cases t f s with ⟨r, hr, _⟩ | ⟨ln, lh, d, s1, lr, s2, _, _, _, hss, hc⟩
  · rw [hr] at h; cases h
  · rcases hc with ⟨_, hi⟩ | ⟨bs, _, hi⟩
    · rw [hi] at h
      rcases delStep_cases t f s2 ln with hd | hd <;> rw [hd] at h
      · cases h
      · cases h
        exact ⟨hss.db, ln, by rw [← hss.view]⟩
    · rw [hi] at h; cases h

/-- **the frame/stamp invariant of a whole step** -/
theorem converge_sub (t : Task) (db : DB) (sc : Script) (f : Option Pos) :
    Sub t db (converge t db sc f).db ∧ ∀ m, (converge t db sc f).mid = some m → Sub t db m := by
  rw [converge_eq]
  split
  · exact ⟨Sub.refl _ _, fun m h => by cases h⟩
  · apply loop_ind t f (fun s => s.db = db ∧ Sub t db s.view)
      (fun r => Sub t db r.db ∧ ∀ m, r.mid = some m → Sub t db m)
    · intro s ⟨hdb, hsub⟩
      rcases iter_cases t f s with ⟨r, hr, he⟩ | ⟨ln, lh, d, s1, lr, s2, _, _, _, hss, hc⟩
      · rw [hr]
        simp only
        refine ⟨by rw [he.1, hdb]; exact Sub.refl _ _, fun m hm => ?_⟩
        rw [he.2.1] at hm; cases hm
      · rcases hc with ⟨_, hi⟩ | ⟨bs, _, hi⟩
        · rw [hi]
          rcases delStep_cases t f s2 ln with hd | hd <;> rw [hd] <;> simp only
          · refine ⟨by rw [hss.db, hdb]; exact Sub.refl _ _, fun m hm => by cases hm⟩
          · refine ⟨by rw [hss.db, hdb], ?_⟩
            rw [hss.view]; exact hsub.delView ln
        · rw [hi]
          simp only
          have hv : Sub t db s2.view := by rw [hss.view]; exact hsub
          rcases commitStep_cases t f s2 bs with hc | ⟨hmid, hc⟩
          · rw [hc]
            refine ⟨by rw [hss.db, hdb]; exact Sub.refl _ _, fun m hm => by cases hm⟩
          · refine ⟨?_, fun m hm => ?_⟩
            · rcases hc with ⟨hc, _⟩ | ⟨last, _, _, _, hc⟩
              · rw [hc]; exact hv
              · rw [hc]; exact hv.committed bs last
            · rw [hmid] at hm; cases hm; exact hv
    · intro s ⟨hdb, _⟩
      exact ⟨by rw [hdb]; exact Sub.refl _ _, fun m hm => by cases hm⟩
    · exact ⟨rfl, Sub.refl _ _⟩

/-! ### completion -/

theorem converge_done (t : Task) (db : DB) (sc : Script) (f : Option Pos) :
    (converge t db sc f).outcome = .done → 0 < t.stop := by
  rw [converge_eq]
  split
  · intro h; cases h
  · apply loop_ind t f (fun _ => True) (fun r => r.outcome = .done → 0 < t.stop)
    · intro s _
      rcases iter_cases t f s with ⟨r, hr, he⟩ | ⟨ln, lh, d, s1, lr, s2, _, _, _, hss, hc⟩
      · rw [hr]; exact he.2.2.2
      · rcases hc with ⟨_, hi⟩ | ⟨bs, _, hi⟩
        · rw [hi]
          rcases delStep_cases t f s2 ln with hd | hd <;> rw [hd] <;> simp only
          intro h; cases h
        · rw [hi]
          simp only
          rcases commitStep_cases t f s2 bs with hc | ⟨hmid, hc⟩
          · rw [hc]; intro h; cases h
          · rcases hc with ⟨_, hc | hc⟩ | ⟨last, _, _, _, hc⟩ <;> rw [hc] <;> intro h <;> cases h
    · intro s _ h; cases h
    · trivial

theorem plan_done (t : Task) (f : Option Pos) (s : St) (x : Cur)
    (hx : s.view.latestCur t.src t.ig = some x) (hs : 0 < t.stop) (hxs : t.stop ≤ x.num)
    (hf : hit f (.qlatest s.nLatest) = false) :
    plan t f s = .stop { outcome := .done, db := s.db } := by
  unfold plan
  simp only [hf, Bool.false_eq_true, ↓reduceIte]
  have : localRes t { s with nLatest := s.nLatest + 1 } = (some (some (x.num, x.hash)), { s with nLatest := s.nLatest + 1 }) := by
    unfold localRes
    simp only [hx]
  rw [this]
  have hc : t.stop > 0 ∧ x.num ≥ t.stop := ⟨hs, hxs⟩
  simp only [hc, and_self, ↓reduceIte]

theorem converge_done_of (t : Task) (db : DB) (sc : Script) (f : Option Pos) (x : Cur)
    (hx : db.latestCur t.src t.ig = some x) (hs : 0 < t.stop) (hxs : t.stop ≤ x.num)
    (hf1 : f ≠ some .begin1) (hf2 : f ≠ some (.qlatest 0)) :
    (converge t db sc f).outcome = .done ∧ (converge t db sc f).db = db := by
  have h1 : hit f .begin1 = false := by
    unfold hit; simpa using hf1
  have h2 : hit f (.qlatest 0) = false := by
    unfold hit; simpa using hf2
  rw [converge_eq]
  simp only [h1, Bool.false_eq_true, ↓reduceIte]
  rw [loop_succ]
  have := plan_done t f { db := db, view := db, script := sc } x hx hs hxs h2
  unfold iter
  rw [this]
  exact ⟨rfl, rfl⟩

/-! ### faults -/

theorem depStep_fault (t : Task) (p : Pos) (g : Nat) (s : St) :
    depStep t (some p) g s = depStep t none g s ∨ ∃ s', depStep t (some p) g s = (none, s') := by
  unfold depStep
  simp only [hit_none]
  split
  · left; rfl
  · cases h : hit (some p) (.qdeps s.nDeps)
    case true => right; exact ⟨_, by simp only [↓reduceIte]; rfl⟩
    case false => left; rfl

theorem plan_fault (t : Task) (p : Pos) (s : St) :
    plan t (some p) s = plan t none s ∨ ∃ r, plan t (some p) s = .stop r := by
  unfold plan
  simp only [hit_none]
  cases h1 : hit (some p) (.qlatest s.nLatest)
  case true => right; exact ⟨_, by simp only [↓reduceIte]; rfl⟩
  case false =>
  simp only [Bool.false_eq_true, ↓reduceIte]
  generalize localRes t _ = lr
  obtain ⟨a, s1⟩ := lr
  rcases a with _ | _ | ⟨localNum, localHash⟩
  · left; rfl
  · left; rfl
  simp only []
  split
  · left; rfl
  generalize takeLatest s1 = tl
  obtain ⟨a, s2⟩ := tl
  rcases a with _ | _ | ⟨gethNum, gh⟩
  · left; rfl
  · left; rfl
  simp only []
  rcases depStep_fault t p gethNum s2 with hd | ⟨s', hd⟩
  · rw [hd]; left; rfl
  · rw [hd]; right; exact ⟨_, rfl⟩

theorem commitStep_none_mid (t : Task) (s : St) (bs : List Blk) :
    (commitStep t none s bs).mid = some s.view := by
  rcases commitStep_cases' t none s bs _ rfl with h | ⟨h, _⟩
  · exfalso
    unfold commitStep at h
    simp only [hit_none, Bool.false_eq_true, ↓reduceIte] at h
    have := congrArg Result.mid h
    revert this
    repeat' split
    all_goals intro h; cases h
  · exact h

theorem commitStep_fault (t : Task) (p : Pos) (s : St) (bs : List Blk) :
    (commitStep t (some p) s bs).db = s.db ∨
    (commitStep t none s bs).mid = some (commitStep t (some p) s bs).db ∨
    commitStep t (some p) s bs = commitStep t none s bs := by
  rcases commitStep_cases t (some p) s bs with h | ⟨_, ⟨h, _⟩ | ⟨last, h1, h2, h3, h⟩⟩
  · left; rw [h]
  · right; left; rw [h]; exact commitStep_none_mid t s bs
  · right; right; rw [h, commitStep_none t s bs last h1 h2 h3]

theorem iter_fault (t : Task) (p : Pos) (s : St) :
    iter t (some p) s = iter t none s ∨
    (∃ r, iter t (some p) s = .ret r ∧ r.db = s.db) ∨
    (∃ r r0, iter t (some p) s = .ret r ∧ iter t none s = .ret r0 ∧ r0.mid = some r.db) := by
  rcases plan_fault t p s with hp | ⟨r, hp⟩
  · cases hpn : plan t none s with
    | stop r => left; unfold iter; rw [hp, hpn]
    | go ln lh d s1 =>
      rw [hpn] at hp
      have hg := plan_go t none s s1 ln lh d hpn
      unfold iter
      rw [hp, hpn]
      simp only [exec]
      cases hl : load t s1 lh (ln + 1) d with
      | mk lr s2 =>
      have hs2 : Same s1 s2 := by
        have := load_same t s1 lh (ln + 1) d
        rw [hl] at this; exact this
      have hss : Same s s2 := hg.same.trans hs2
      cases lr with
      | scriptEnd => left; rfl
      | err => left; rfl
      | panic => left; rfl
      | reorg =>
        simp only
        rcases delStep_cases t (some p) s2 ln with hd | hd
        · right; left; rw [hd]; exact ⟨_, rfl, hss.db⟩
        · left; rw [hd, delStep_none]
      | blocks bs =>
        simp only
        rcases commitStep_fault t p s2 bs with hc | hc | hc
        · right; left; exact ⟨_, rfl, hc.trans hss.db⟩
        · right; right; exact ⟨_, _, rfl, rfl, hc⟩
        · left; rw [hc]
  · right; left
    unfold iter
    rw [hp]
    exact ⟨r, rfl, (plan_stop t _ s r hp).1⟩

theorem loop_fault (t : Task) (p : Pos) (db : DB) : ∀ fuel s, s.db = db →
    (converge.loop t (some p) fuel s).db = db ∨
    some (converge.loop t (some p) fuel s).db = (converge.loop t none fuel s).mid ∨
    (converge.loop t (some p) fuel s).db = (converge.loop t none fuel s).db := by
  intro fuel
  induction fuel with
  | zero => intro s hs; left; exact hs
  | succ n ih =>
    intro s hs
    rw [loop_succ, loop_succ]
    rcases iter_fault t p s with h | ⟨r, h, hr⟩ | ⟨r, r0, h, h0, hr⟩
    · rw [h]
      cases hi : iter t none s with
      | ret r => right; right; rfl
      | cont s' =>
        simp only
        exact ih s' ((iter_cont t none s s' hi).1.trans hs)
    · rw [h]; left; simp only; rw [hr, hs]
    · rw [h, h0]; right; left; simp only; rw [hr]

end Shovel.World
