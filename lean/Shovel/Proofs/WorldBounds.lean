import Shovel.Proofs.WorldChain
import Shovel.Proofs.WorldDB
/-
  The shape of a whole step, and the range theorems (C05, C06) that follow from it.
-/
namespace Shovel.World

/-- the open transaction's view: the committed state minus deleted positions/rows of `t` -/
structure View (t : Task) (db v : DB) : Prop where
  sub : Sub t db v
  curm : ∀ x ∈ v.cur, x ∈ db.cur
  rowsm : ∀ x ∈ v.rows, x ∈ db.rows

theorem View.refl (t : Task) (db : DB) : View t db db := ⟨Sub.refl _ _, fun _ h => h, fun _ h => h⟩

theorem View.delView {t : Task} {db v : DB} (h : View t db v) (ln : Nat) : View t db (delView t v ln) := by
  refine ⟨h.sub.delView ln, ?_, ?_⟩
  · intro x hx
    rw [delView_cur] at hx
    exact h.curm x (List.mem_filter.mp hx).1
  · intro x hx
    rw [delView_rows] at hx
    exact h.rowsm x (List.mem_filter.mp hx).1

/-- a successful step: the iteration that committed -/
def OkShape (t : Task) (db : DB) (sc : Script) (r : Result) : Prop :=
  ∃ s ln lh d s1 s2 bs last, s.db = db ∧ View t db s.view ∧ s.script.le sc ∧ PlanGo t s ln lh d s1 ∧
    load t s1 lh (ln + 1) d = (.blocks bs, s2) ∧ bs.getLast? = some last ∧
    r = { outcome := .ok last.num, db := committed t s.view bs last, mid := some s.view }

theorem converge_shape (t : Task) (db : DB) (sc : Script) (f : Option Pos) :
    (View t db (converge t db sc f).db ∧ ∀ n, (converge t db sc f).outcome ≠ .ok n) ∨
    OkShape t db sc (converge t db sc f) := by
  rw [converge_eq]
  split
  · left; exact ⟨View.refl _ _, fun _ h => by cases h⟩
  · apply loop_ind t f (fun s => s.db = db ∧ View t db s.view ∧ s.script.le sc)
      (fun r => (View t db r.db ∧ ∀ n, r.outcome ≠ .ok n) ∨ OkShape t db sc r)
    · intro s ⟨hdb, hv, hle⟩
      rcases iter_cases t f s with ⟨r, hr, he⟩ | ⟨ln, lh, d, s1, lr, s2, hpl, hg, hl, hss, hc⟩
      · rw [hr]
        left
        exact ⟨by rw [he.1, hdb]; exact View.refl _ _, he.2.2.1⟩
      · rcases hc with ⟨_, hi⟩ | ⟨bs, hlr, hi⟩
        · rw [hi]
          rcases delStep_cases t f s2 ln with hd | hd <;> rw [hd] <;> simp only
          · left
            exact ⟨by rw [hss.db, hdb]; exact View.refl _ _, fun _ h => by cases h⟩
          · refine ⟨by rw [hss.db, hdb], ?_, Script.le_trans hss.script hle⟩
            rw [hss.view]; exact hv.delView ln
        · rw [hi]
          simp only
          subst hlr
          rcases commitStep_cases' t f s2 bs _ rfl with hc | ⟨_, ⟨hc1, hc2⟩ | ⟨last, hlast, _, _, hc⟩⟩
          · left; rw [hc]
            exact ⟨by rw [hss.db, hdb]; exact View.refl _ _, fun _ h => by cases h⟩
          · left
            refine ⟨by rw [hc1, hss.view]; exact hv, fun n h => ?_⟩
            rcases hc2 with hc2 | hc2 <;> rw [hc2] at h <;> cases h
          · right
            refine ⟨s, ln, lh, d, s1, s2, bs, last, hdb, hv, hle, hg, hl, hlast, ?_⟩
            rw [hc, hss.view]
    · intro s ⟨hdb, _, _⟩
      left
      exact ⟨by rw [hdb]; exact View.refl _ _, fun _ h => by cases h⟩
    · exact ⟨rfl, View.refl _ _, Script.le_refl _⟩

theorem newRows_blk {t : Task} {bs : List Blk} {x : TRow} (h : x ∈ newRowsOf t bs) :
    ∃ b ∈ bs, x.blk = b.num := by
  unfold newRowsOf at h
  obtain ⟨b, hb, hx⟩ := List.mem_flatMap.mp h
  unfold rowsFor at hx
  obtain ⟨kp, _, rfl⟩ := List.mem_map.mp hx
  exact ⟨b, hb, rfl⟩

theorem mem_of_getLast? {α} {l : List α} {a : α} (h : l.getLast? = some a) : a ∈ l := by
  obtain ⟨ys, rfl⟩ := List.getLast?_eq_some_iff.mp h
  simp

theorem clip_le (t : Task) (x : Nat) : clip t x ≤ x := by
  unfold clip; split <;> omega

theorem clip_stop (t : Task) (x : Nat) (h : 0 < t.stop) : clip t x ≤ t.stop := by
  unfold clip; split <;> omega

/-- everything a successful step adds is numbered in `(ln, ln + d]` -/
theorem okshape_upper {c : Chain} (hc : c.WF) {t : Task} {db : DB} {sc : Script} {r : Result}
    (hsc : ScriptOK c sc) (hb : 1 ≤ t.batch) (hcc : 1 ≤ t.conc) (hcb : t.conc * t.batch < 2 ^ 63)
    (h : OkShape t db sc r) :
    ∃ (s : St) (ln : Nat) (lh : String) (d : Nat) (s1 : St) (n : Nat), s.db = db ∧ View t db s.view ∧
      ScriptOK c s.script ∧ PlanGo t s ln lh d s1 ∧
      r.outcome = .ok n ∧ n ≤ ln + d ∧
      (∀ x ∈ r.db.cur, x ∈ db.cur ∨ (x.num = n)) ∧
      (∀ x ∈ r.db.rows, x ∈ db.rows ∨ x.blk ≤ ln + d) := by
  obtain ⟨s, ln, lh, d, s1, s2, bs, last, hdb, hv, hle, hg, hl, hlast, hr⟩ := h
  have hsc0 : ScriptOK c s.script := hsc.mono hle
  have hsc1 : ScriptOK c s1.script := hsc0.mono hg.same.script
  obtain ⟨g, gh, target0, _, _, hlt, hd, hd1⟩ := hg.ex
  have hup := load_upper hc t s1 s2 lh (ln + 1) d bs hsc1 hb hcc hcb (by omega) hl
  have hlastm := mem_of_getLast? hlast
  refine ⟨s, ln, lh, d, s1, last.num, hdb, hv, hsc0, hg, by rw [hr], ?_, ?_, ?_⟩
  · have := hup last hlastm; omega
  · intro x hx
    rw [hr] at hx
    rcases List.mem_append.mp hx with hx | hx
    · exact .inl (hv.curm x hx)
    · simp only [List.mem_singleton] at hx
      right; rw [hx]; rfl
  · intro x hx
    rw [hr] at hx
    rcases List.mem_append.mp hx with hx | hx
    · exact .inl (hv.rowsm x hx)
    · obtain ⟨b, hb1, hb2⟩ := newRows_blk hx
      have := hup b hb1
      right; omega

theorem DepFacts.le {t : Task} {v : DB} {g target0 : Nat} (h : DepFacts t v g target0) : target0 ≤ g := by
  rcases h with ⟨_, h⟩ | ⟨_, _, _, _, _, _, h⟩
  · omega
  · exact h

theorem latest_le_head {c : Chain} {sc : Script} (hsc : ScriptOK c sc) {g : Nat} {gh : String}
    (h : some (g, gh) ∈ sc.latest) : g ≤ c.head ∧ gh = c.hashAt g := by
  rcases hsc.latest _ h with h | ⟨n, hn, h⟩
  · cases h
  · cases h; exact ⟨hn, rfl⟩

/-- the blocks a successful step loaded, when nothing wraps -/
theorem okshape_slice {c : Chain} (hc : c.WF) {t : Task} {db : DB} {sc : Script} {r : Result}
    (hsc : ScriptOK c sc) (hb : 1 ≤ t.batch) (hcc : 1 ≤ t.conc) (hcb : t.conc * t.batch < 2 ^ 63)
    (hhead : c.head < 2 ^ 62) (h : OkShape t db sc r) :
    ∃ (s : St) (ln : Nat) (lh : String) (d : Nat) (s1 : St) (k : Nat), s.db = db ∧ View t db s.view ∧
      ScriptOK c s.script ∧ PlanGo t s ln lh d s1 ∧ 1 ≤ k ∧ k ≤ d ∧ ln + k ≤ c.head ∧ lh = c.hashAt ln ∧
      ∃ last, (c.slice (ln + 1) k).getLast? = some last ∧
      r = { outcome := .ok last.num, db := committed t s.view (c.slice (ln + 1) k) last, mid := some s.view } := by
  obtain ⟨s, ln, lh, d, s1, s2, bs, last, hdb, hv, hle, hg, hl, hlast, hr⟩ := h
  have hsc0 : ScriptOK c s.script := hsc.mono hle
  have hsc1 : ScriptOK c s1.script := hsc0.mono hg.same.script
  obtain ⟨g, gh, target0, hgm, hdf, hlt, hd, hd1⟩ := hg.ex
  have hgh := (latest_le_head hsc0 hgm).1
  have := hdf.le
  have := clip_le t target0
  rcases load_chain hc t s1 s2 lh (ln + 1) d _ hsc1 hb hcc hcb hd1 (by omega) (by omega) (by omega) hl
    with h | ⟨h, _⟩ | ⟨k, hk1, hk2, hk3, ⟨h, _⟩ | ⟨h, hlh⟩⟩
  · cases h
  · cases h
  · cases h
  · cases h
    exact ⟨s, ln, lh, d, s1, k, hdb, hv, hsc0, hg, hk1, hk2, by omega, hlh, last, hlast, hr⟩

end Shovel.World
