import Shovel.Proofs.WorldStep
import Shovel.Proofs.WorldParts
/-
  Chains, slices, sorting, and what `load` returns when the source answers honestly.
-/
namespace Shovel.World

/-! ### slices -/

theorem slice_getElem? (c : Chain) (st k i : Nat) :
    (c.slice st k)[i]? = if i < k then c.blks[st + i]? else none := by
  unfold Chain.slice
  rw [List.getElem?_take, List.getElem?_drop]

theorem mem_slice {c : Chain} {st k : Nat} {b : Blk} (h : b ∈ c.slice st k) :
    ∃ i, i < k ∧ c.blks[st + i]? = some b := by
  obtain ⟨i, hi⟩ := List.mem_iff_getElem?.mp h
  rw [slice_getElem?] at hi
  split at hi
  · exact ⟨i, ‹_›, hi⟩
  · cases hi

theorem mem_slice_num {c : Chain} (hc : c.WF) {st k : Nat} {b : Blk} (h : b ∈ c.slice st k) :
    st ≤ b.num ∧ b.num < st + k ∧ c.blks[b.num]? = some b := by
  obtain ⟨i, hi, hb⟩ := mem_slice h
  have := hc.num _ _ hb
  rw [this]
  exact ⟨by omega, by omega, hb⟩

theorem slice_append (c : Chain) (st a b : Nat) :
    c.slice st (a + b) = c.slice st a ++ c.slice (st + a) b := by
  unfold Chain.slice
  rw [List.take_add, List.drop_drop]

theorem slice_zero (c : Chain) (st : Nat) : c.slice st 0 = [] := by
  unfold Chain.slice; simp

theorem slice_length (c : Chain) (st k : Nat) (h : st + k ≤ c.blks.length) : (c.slice st k).length = k := by
  unfold Chain.slice
  rw [List.length_take, List.length_drop]; omega

theorem slice_one (c : Chain) (n : Nat) (b : Blk) (h : c.blks[n]? = some b) : c.slice n 1 = [b] := by
  obtain ⟨hn, hb⟩ := List.getElem?_eq_some_iff.mp h
  unfold Chain.slice
  rw [List.drop_eq_getElem_cons hn, hb]
  rfl

theorem slice_one_none (c : Chain) (n : Nat) (h : c.blks[n]? = none) : c.slice n 1 = [] := by
  unfold Chain.slice
  rw [List.drop_eq_nil_of_le (List.getElem?_eq_none_iff.mp h)]
  rfl

theorem head_lt {c : Chain} (hc : c.WF) : c.head < c.blks.length := by
  unfold Chain.head
  have : c.blks.length ≠ 0 := fun h => hc.nonempty (List.length_eq_zero_iff.mp h)
  omega

theorem le_head_iff {c : Chain} (hc : c.WF) (n : Nat) : n ≤ c.head ↔ n < c.blks.length := by
  have := head_lt hc
  unfold Chain.head at *
  omega

theorem hashAt_of {c : Chain} {n : Nat} {b : Blk} (h : c.blks[n]? = some b) : c.hashAt n = b.hash := by
  unfold Chain.hashAt; rw [h]

theorem get_of_lt (c : Chain) (n : Nat) (h : n < c.blks.length) : ∃ b, c.blks[n]? = some b :=
  ⟨c.blks[n], List.getElem?_eq_some_iff.mpr ⟨h, rfl⟩⟩

/-! ### sorting -/

theorem mem_insertSorted (b x : Blk) : ∀ l : List Blk, x ∈ insertSorted b l ↔ x = b ∨ x ∈ l
  | [] => by simp [insertSorted]
  | y :: ys => by
    unfold insertSorted
    split
    · simp
    · simp only [List.mem_cons, mem_insertSorted b x ys]
      constructor
      · rintro (h | h | h)
        · exact .inr (.inl h)
        · exact .inl h
        · exact .inr (.inr h)
      · rintro (h | h | h)
        · exact .inr (.inl h)
        · exact .inl h
        · exact .inr (.inr h)

theorem mem_foldl_insert (x : Blk) : ∀ (l acc : List Blk),
    x ∈ l.foldl (fun acc b => insertSorted b acc) acc ↔ x ∈ acc ∨ x ∈ l
  | [], acc => by simp
  | b :: l, acc => by
    simp only [List.foldl_cons, mem_foldl_insert x l, mem_insertSorted, List.mem_cons]
    constructor
    · rintro ((h | h) | h)
      · exact .inr (.inl h)
      · exact .inl h
      · exact .inr (.inr h)
    · rintro (h | h | h)
      · exact .inl (.inr h)
      · exact .inl (.inl h)
      · exact .inr h

theorem mem_sortBlks (x : Blk) (l : List Blk) : x ∈ sortBlks l ↔ x ∈ l := by
  unfold sortBlks
  rw [mem_foldl_insert]; simp

theorem insertSorted_last (b : Blk) : ∀ l : List Blk, (∀ x ∈ l, x.num ≤ b.num) → insertSorted b l = l ++ [b]
  | [], _ => rfl
  | y :: ys, h => by
    unfold insertSorted
    have h1 := h y (List.mem_cons_self ..)
    have : ¬ b.num < y.num := by omega
    simp only [this, ↓reduceIte, List.cons_append]
    rw [insertSorted_last b ys (fun x hx => h x (List.mem_cons_of_mem _ hx))]

theorem sortBlks_snoc (l : List Blk) (b : Blk) : sortBlks (l ++ [b]) = insertSorted b (sortBlks l) := by
  unfold sortBlks
  rw [List.foldl_append]; rfl

theorem sortBlks_slice {c : Chain} (hc : c.WF) (st : Nat) : ∀ k, sortBlks (c.slice st k) = c.slice st k
  | 0 => by rw [slice_zero]; rfl
  | k + 1 => by
    rw [slice_append]
    cases h : c.blks[st + k]? with
    | none => rw [slice_one_none c _ h, List.append_nil]; exact sortBlks_slice hc st k
    | some b =>
      rw [slice_one c _ b h, sortBlks_snoc, sortBlks_slice hc st k]
      apply insertSorted_last
      intro x hx
      have := (mem_slice_num hc hx).2.1
      have := hc.num _ _ h
      omega

/-! ### linked runs -/

theorem linked_of_links : ∀ l : List Blk,
    (∀ (i : Nat) (a b : Blk), l[i]? = some a → l[i + 1]? = some b → b.parent = a.hash) → linked l = true
  | [], _ => rfl
  | [_], _ => rfl
  | a :: b :: rest, h => by
    unfold linked
    have h0 : b.parent = a.hash := h 0 a b rfl rfl
    have ih := linked_of_links (b :: rest) (fun i x y hx hy => h (i + 1) x y hx hy)
    rw [ih, h0]
    simp

/-- a slice of a well-formed chain is one hash-linked run -/
theorem linked_slice {c : Chain} (hc : c.WF) (st k : Nat) : linked (c.slice st k) = true := by
  apply linked_of_links
  intro i a b ha hb
  rw [slice_getElem?] at ha hb
  split at ha
  · split at hb
    · exact hc.link (st + i) a b ha hb
    · cases hb
  · cases ha

/-! ### `load` against an honest source -/

theorem go_flags : ∀ (ps : List (Nat × Nat)) (s : St) (acc : List Blk) (e se : Bool),
    (e = true → (load.go ps s acc e se).2.1 = true) ∧ (se = true → (load.go ps s acc e se).2.2.1 = true)
  | [], s, acc, e, se => by unfold load.go; exact ⟨id, id⟩
  | (m, n) :: rest, s, acc, e, se => by
    unfold load.go
    cases htg : takeGet s m n with
    | mk a s' =>
    rcases a with _ | _ | bs
    · exact ⟨(go_flags rest s' acc e true).1, fun _ => (go_flags rest s' acc e true).2 rfl⟩
    · exact ⟨fun _ => (go_flags rest s' acc true se).1 rfl, (go_flags rest s' acc true se).2⟩
    · exact go_flags rest s' (acc ++ bs) e se

/-- all partitions answered: the blocks are the consecutive slices of the chain -/
theorem go_chain {c : Chain} : ∀ (ps : List (Nat × Nat)) (st : Nat) (s : St) (acc : List Blk) (e se : Bool)
    (bs : List Blk) (s' : St), ScriptOK c s.script → Consec st ps →
    load.go ps s acc e se = (bs, false, false, s') →
    e = false ∧ se = false ∧ bs = acc ++ c.slice st (psum ps) ∧ (ps ≠ [] → st + psum ps - 1 ≤ c.head)
  | [], st, s, acc, e, se, bs, s', _, _, h => by
    unfold load.go at h
    simp only [Prod.mk.injEq] at h
    obtain ⟨rfl, rfl, rfl, rfl⟩ := h
    simp [slice_zero]
  | (m, n) :: rest, st, s, acc, e, se, bs, s', hsc, hcs, h => by
    obtain ⟨rfl, hn, hcs⟩ := hcs
    unfold load.go at h
    rcases takeGet_spec s m n with htg | ⟨a, s1, htg, hm, hs1⟩ <;> rw [htg] at h
    · simp only [] at h
      have := (go_flags rest s acc e true).2 rfl
      rw [h] at this; cases this
    · have hsc1 : ScriptOK c s1.script := hsc.mono hs1.script
      rcases a with _ | b
      · simp only [] at h
        have := (go_flags rest s1 acc true se).1 rfl
        rw [h] at this; cases this
      · simp only [] at h
        obtain ⟨he, hse, hbs, hhd⟩ := go_chain rest (m + n) s1 (acc ++ b) e se bs s' hsc1 hcs h
        rcases hsc.gets _ hm with hg | ⟨_, hg2, hg3⟩
        · cases hg
        · simp only [Option.some.injEq] at hg2 hg3
          subst hg3
          refine ⟨he, hse, ?_, fun _ => ?_⟩
          · rw [hbs, psum_cons, slice_append, List.append_assoc]
          · simp only [psum_cons]
            cases rest with
            | nil => simp only [psum_nil]; omega
            | cons p r => have := hhd (by simp); omega

/-- whatever was answered: every block lies in one of the requested ranges -/
theorem go_members {c : Chain} (hc : c.WF) : ∀ (ps : List (Nat × Nat)) (s : St) (acc : List Blk) (e se : Bool),
    ScriptOK c s.script →
    ∀ b ∈ (load.go ps s acc e se).1, b ∈ acc ∨ ∃ p ∈ ps, p.1 ≤ b.num ∧ b.num < p.1 + p.2
  | [], s, acc, e, se, _ => by unfold load.go; intro b hb; exact .inl hb
  | (m, n) :: rest, s, acc, e, se, hsc => by
    unfold load.go
    intro b
    rcases takeGet_spec s m n with htg | ⟨a, s1, htg, hm, hs1⟩ <;> rw [htg]
    · simp only []
      intro hb
      rcases go_members hc rest s acc e true hsc b hb with h | ⟨p, hp, h⟩
      · exact .inl h
      · exact .inr ⟨p, List.mem_cons_of_mem _ hp, h⟩
    · have hsc1 : ScriptOK c s1.script := hsc.mono hs1.script
      rcases a with _ | bl
      · simp only []
        intro hb
        rcases go_members hc rest s1 acc true se hsc1 b hb with h | ⟨p, hp, h⟩
        · exact .inl h
        · exact .inr ⟨p, List.mem_cons_of_mem _ hp, h⟩
      · simp only []
        intro hb
        rcases go_members hc rest s1 (acc ++ bl) e se hsc1 b hb with h | ⟨p, hp, h⟩
        · rcases List.mem_append.mp h with h | h
          · exact .inl h
          · right
            refine ⟨(m, n), List.mem_cons_self .., ?_⟩
            rcases hsc.gets _ hm with hg | ⟨_, _, hg3⟩
            · cases hg
            · simp only [Option.some.injEq] at hg3
              subst hg3
              have := mem_slice_num hc h
              exact ⟨this.1, this.2.1⟩
        · exact .inr ⟨p, List.mem_cons_of_mem _ hp, h⟩

/-- blocks returned by `load` are numbered below `st + lim`, whatever `st` is -/
theorem load_upper {c : Chain} (hc : c.WF) (t : Task) (s s' : St) (lh : String) (st lim : Nat) (bs : List Blk)
    (hsc : ScriptOK c s.script) (hb : 1 ≤ t.batch) (hcc : 1 ≤ t.conc) (hcb : t.conc * t.batch < 2 ^ 63)
    (hlb : lim ≤ t.batch) (h : load t s lh st lim = (.blocks bs, s')) :
    ∀ b ∈ bs, b.num < st + lim := by
  obtain ⟨bs0, e, se, hg, hcase⟩ := load_cases t s s' lh st lim _ h
  rcases hcase with ⟨_, h⟩ | ⟨_, _, h⟩ | ⟨_, _, ⟨_, h⟩ | ⟨first, rest, hsb, ⟨_, h⟩ | ⟨_, _, h⟩ | ⟨_, _, h⟩⟩⟩ <;> try cases h
  intro b hbm
  rw [← hsb, mem_sortBlks] at hbm
  have := go_members hc (parts t.batch t.conc st lim) s [] false false hsc b (by rw [hg]; exact hbm)
  rcases this with h | ⟨p, hp, h⟩
  · cases h
  · have := parts_upper t.batch t.conc st lim hb hcc hlb hcb p hp
    omega

/-- `load` against an honest source, without wrap-around: a parent mismatch, or the next blocks -/
theorem load_chain {c : Chain} (hc : c.WF) (t : Task) (s s' : St) (lh : String) (st lim : Nat) (lr : LoadRes)
    (hsc : ScriptOK c s.script) (hb : 1 ≤ t.batch) (hcc : 1 ≤ t.conc) (hcb : t.conc * t.batch < 2 ^ 63)
    (hl : 1 ≤ lim) (hlb : lim ≤ t.batch) (hs : st + lim < 2 ^ 63) (hst : 1 ≤ st)
    (h : load t s lh st lim = (lr, s')) :
    lr = .scriptEnd ∨ (lr = .err ∧ (load.go (parts t.batch t.conc st lim) s [] false false).2.1 = true) ∨
    ∃ k, 1 ≤ k ∧ k ≤ lim ∧ st + k - 1 ≤ c.head ∧
      ((lr = .reorg ∧ lh ≠ c.hashAt (st - 1)) ∨ (lr = .blocks (c.slice st k) ∧ lh = c.hashAt (st - 1))) := by
  obtain ⟨bs0, e, se, hg, hcase⟩ := load_cases t s s' lh st lim _ h
  rcases hcase with ⟨_, h⟩ | ⟨_, he, h⟩ | ⟨rfl, rfl, hcase⟩
  · exact .inl h
  · exact .inr (.inl ⟨h, by rw [hg]; exact he⟩)
  right; right
  obtain ⟨hp1, hp2, hp3⟩ := parts_spec t.batch t.conc st lim hb hcc hl hlb hs hcb
  obtain ⟨_, _, hbs, hhd⟩ := go_chain _ st s [] false false bs0 s' hsc hp3 hg
  have hne : parts t.batch t.conc st lim ≠ [] := by
    intro h0; rw [h0] at hp1; simp at hp1
  have hhd := hhd hne
  simp only [List.nil_append] at hbs
  generalize psum (parts t.batch t.conc st lim) = k at *
  have hlen : st + k ≤ c.blks.length := by
    have := (le_head_iff hc (st + k - 1)).mp hhd; omega
  subst hbs
  rw [sortBlks_slice hc] at hcase
  -- the first block
  obtain ⟨b0, hb0⟩ := get_of_lt c st (by omega)
  obtain ⟨bp, hbp⟩ := get_of_lt c (st - 1) (by omega)
  have hfirst : (c.slice st k)[0]? = some b0 := by
    rw [slice_getElem?]; simp only [show 0 < k by omega, ↓reduceIte]; exact hb0
  have hlink : b0.parent = c.hashAt (st - 1) := by
    rw [hashAt_of hbp]
    have h1 : c.blks[st - 1 + 1]? = some b0 := by rw [show st - 1 + 1 = st by omega]; exact hb0
    exact hc.link _ _ _ hbp h1
  have hlen64 : b0.parent.length = 64 := (hc.len _ _ hb0).2
  refine ⟨k, hp1, hp2, hhd, ?_⟩
  rcases hcase with ⟨hnil, _⟩ | ⟨first, rest, hsb, hcase⟩
  · rw [hnil] at hfirst; cases hfirst
  · have : first = b0 := by
      rw [hsb] at hfirst; simpa using hfirst
    subst this
    rcases hcase with ⟨hlk, _⟩ | ⟨_, hbad, h⟩ | ⟨_, hbad, h⟩
    · rw [← hsb, linked_slice hc] at hlk; cases hlk
    · left
      refine ⟨h, ?_⟩
      unfold badParent at hbad
      simp only [Bool.and_eq_true, beq_iff_eq, bne_iff_ne, ne_eq] at hbad
      intro heq; exact hbad.2 (by rw [hlink, heq])
    · right
      refine ⟨by rw [h, hsb], ?_⟩
      unfold badParent at hbad
      simp only [hlen64, beq_self_eq_true, Bool.true_and, bne_eq_false_iff_eq] at hbad
      rw [← hbad, hlink]

end Shovel.World
