import Shovel.Proofs.WorldPhase
/-
  load / Delete / commit lemmas, the case analysis of one iteration, and the loop induction.
-/
namespace Shovel.World

/-! ### load -/

theorem go_same : ∀ (ps : List (Nat × Nat)) (s : St) (acc : List Blk) (e se : Bool),
    Same s (load.go ps s acc e se).2.2.2
  | [], s, acc, e, se => by unfold load.go; exact Same.refl _
  | (m, n) :: rest, s, acc, e, se => by
    unfold load.go
    have h1 := takeGet_same s m n
    cases htg : takeGet s m n with
    | mk a s' =>
    rw [htg] at h1
    rcases a with _ | _ | bs
    · exact h1.trans (go_same rest s' acc e true)
    · exact h1.trans (go_same rest s' acc true se)
    · exact h1.trans (go_same rest s' (acc ++ bs) e se)

def badParent (first : Blk) (lh : String) : Bool := first.parent.length == 64 && first.parent != lh

theorem load_cases (t : Task) (s s' : St) (lh : String) (st lim : Nat) (lr : LoadRes)
    (h : load t s lh st lim = (lr, s')) :
    ∃ bs e se, load.go (parts t.batch t.conc st lim) s [] false false = (bs, e, se, s') ∧
      ((se = true ∧ lr = .scriptEnd) ∨ (se = false ∧ e = true ∧ lr = .err) ∨
       (se = false ∧ e = false ∧
         ((sortBlks bs = [] ∧ lr = .panic) ∨
          ∃ first rest, sortBlks bs = first :: rest ∧
            ((linked (first :: rest) = false ∧ lr = .err) ∨
             (linked (first :: rest) = true ∧ badParent first lh = true ∧ lr = .reorg) ∨
             (linked (first :: rest) = true ∧ badParent first lh = false ∧ lr = .blocks (first :: rest)))))) := by
  unfold load at h
  cases hg : load.go (parts t.batch t.conc st lim) s [] false false with
  | mk bs r1 =>
  obtain ⟨e, se, s1⟩ := r1
  rw [hg] at h
  simp only [] at h
  cases se with
  | true =>
    simp only [↓reduceIte, Prod.mk.injEq] at h
    exact ⟨bs, e, true, by rw [← h.2], .inl ⟨rfl, h.1.symm⟩⟩
  | false =>
    cases e with
    | true =>
      simp only [Bool.false_eq_true, ↓reduceIte, Prod.mk.injEq] at h
      exact ⟨bs, true, false, by rw [← h.2], .inr (.inl ⟨rfl, rfl, h.1.symm⟩)⟩
    | false =>
      simp only [Bool.false_eq_true, ↓reduceIte] at h
      cases hsb : sortBlks bs with
      | nil =>
        rw [hsb] at h
        simp only [Prod.mk.injEq] at h
        exact ⟨bs, false, false, by rw [← h.2], .inr (.inr ⟨rfl, rfl, .inl ⟨hsb, h.1.symm⟩⟩)⟩
      | cons first rest =>
        rw [hsb] at h
        simp only [] at h
        cases hlk : linked (first :: rest) with
        | false =>
          simp only [hlk, Bool.not_false, ↓reduceIte, Prod.mk.injEq] at h
          exact ⟨bs, false, false, by rw [← h.2], .inr (.inr ⟨rfl, rfl, .inr ⟨first, rest, hsb, .inl ⟨hlk, h.1.symm⟩⟩⟩)⟩
        | true =>
        simp only [hlk, Bool.not_true, Bool.false_eq_true, ↓reduceIte] at h
        cases hbp : badParent first lh with
        | true =>
          have hbp' := hbp
          unfold badParent at hbp
          simp only [hbp, ↓reduceIte, Prod.mk.injEq] at h
          exact ⟨bs, false, false, by rw [← h.2], .inr (.inr ⟨rfl, rfl, .inr ⟨first, rest, hsb, .inr (.inl ⟨hlk, hbp', h.1.symm⟩)⟩⟩)⟩
        | false =>
          have hbp' := hbp
          unfold badParent at hbp
          simp only [hbp, Bool.false_eq_true, ↓reduceIte, Prod.mk.injEq] at h
          exact ⟨bs, false, false, by rw [← h.2], .inr (.inr ⟨rfl, rfl, .inr ⟨first, rest, hsb, .inr (.inr ⟨hlk, hbp', h.1.symm⟩)⟩⟩)⟩

theorem load_same (t : Task) (s : St) (lh : String) (st lim : Nat) :
    Same s (load t s lh st lim).2 := by
  cases h : load t s lh st lim with
  | mk lr s' =>
  obtain ⟨bs, e, se, hg, _⟩ := load_cases t s s' lh st lim lr h
  have := go_same (parts t.batch t.conc st lim) s [] false false
  rw [hg] at this
  exact this

/-! ### Task.Delete -/

def delN (t : Task) (v1 : DB) (ln : Nat) : Nat :=
  match v1.latestCur t.src t.ig with
  | some c => min ln (c.num + 1)
  | none => if t.start > 0 then min ln t.start else ln

def delView (t : Task) (v : DB) (ln : Nat) : DB :=
  (v.delCur t.src t.ig ln).delRows t.table t.src t.ig (delN t (v.delCur t.src t.ig ln) ln)

theorem delStep_cases (t : Task) (f : Option Pos) (s : St) (ln : Nat) :
    delStep t f s ln = .ret { outcome := .err, db := s.db } ∨
    delStep t f s ln = .cont { s with nDel := s.nDel + 1, view := delView t s.view ln } := by
  unfold delStep
  simp only []
  cases h1 : hit f (.delcur s.nDel)
  case true => left; simp only [↓reduceIte]
  case false =>
  cases h2 : hit f (.qprev s.nDel)
  case true => left; simp only [Bool.false_eq_true, ↓reduceIte]
  case false =>
  cases h3 : hit f (.delrows s.nDel)
  case true => left; simp only [Bool.false_eq_true, ↓reduceIte]
  case false => right; simp only [Bool.false_eq_true, ↓reduceIte]; rfl

theorem delStep_none (t : Task) (s : St) (ln : Nat) :
    delStep t none s ln = .cont { s with nDel := s.nDel + 1, view := delView t s.view ln } := by
  unfold delStep
  simp only [hit_none, Bool.false_eq_true, ↓reduceIte]
  rfl

/-! ### commit -/

def curClash (t : Task) (v : DB) (n : Nat) : Bool :=
  v.cur.any (fun o => o.src == t.src && o.ig == t.ig && o.num == n)

def newCur (t : Task) (last : Blk) : Cur := { src := t.src, ig := t.ig, num := last.num, hash := last.hash }

def committed (t : Task) (v : DB) (bs : List Blk) (last : Blk) : DB :=
  { cur := v.cur ++ [newCur t last], rows := v.rows ++ newRowsOf t bs }

theorem commitStep_cases' (t : Task) (f : Option Pos) (s : St) (bs : List Blk) (r : Result)
    (h : commitStep t f s bs = r) :
    r = { outcome := .err, db := s.db } ∨
    (r.mid = some s.view ∧
      ((r.db = s.view ∧ (r.outcome = .err ∨ r.outcome = .panic)) ∨
       ∃ last, bs.getLast? = some last ∧ clashOf s.view (newRowsOf t bs) = false ∧
         curClash t s.view last.num = false ∧
         r = { outcome := .ok last.num, db := committed t s.view bs last, mid := some s.view })) := by
  unfold commitStep at h
  simp only [] at h
  cases h1 : hit f .commit1
  case true => left; simp only [h1, ↓reduceIte] at h; exact h.symm
  case false =>
  right
  simp only [h1, Bool.false_eq_true, ↓reduceIte] at h
  cases h2 : hit f .begin2
  case true =>
    simp only [h2, ↓reduceIte] at h; subst h; exact ⟨rfl, .inl ⟨rfl, .inl rfl⟩⟩
  case false =>
  simp only [h2, Bool.false_eq_true, ↓reduceIte] at h
  cases h3 : hit f .insert
  case true =>
    simp only [h3, ↓reduceIte] at h; subst h; exact ⟨rfl, .inl ⟨rfl, .inl rfl⟩⟩
  case false =>
  simp only [h3, Bool.false_eq_true, ↓reduceIte] at h
  cases h4 : clashOf s.view (newRowsOf t bs)
  case true =>
    simp only [h4, ↓reduceIte] at h; subst h; exact ⟨rfl, .inl ⟨rfl, .inl rfl⟩⟩
  case false =>
  simp only [h4, Bool.false_eq_true, ↓reduceIte] at h
  cases h5 : hit f .update
  case true =>
    simp only [h5, ↓reduceIte] at h; subst h; exact ⟨rfl, .inl ⟨rfl, .inl rfl⟩⟩
  case false =>
  simp only [h5, Bool.false_eq_true, ↓reduceIte] at h
  cases h6 : bs.getLast? with
  | none => simp only [h6] at h; subst h; exact ⟨rfl, .inl ⟨rfl, .inr rfl⟩⟩
  | some last =>
  simp only [h6] at h
  cases h7 : curClash t s.view last.num
  case true =>
    have h7' := h7
    unfold curClash at h7
    simp only [h7, ↓reduceIte] at h; subst h; exact ⟨rfl, .inl ⟨rfl, .inl rfl⟩⟩
  case false =>
  have h7' := h7
  unfold curClash at h7
  simp only [h7, Bool.false_eq_true, ↓reduceIte] at h
  cases h8 : hit f .commit2
  case true =>
    simp only [h8, ↓reduceIte] at h; subst h; exact ⟨rfl, .inl ⟨rfl, .inl rfl⟩⟩
  case false =>
  simp only [h8, Bool.false_eq_true, ↓reduceIte] at h
  subst h
  exact ⟨rfl, .inr ⟨last, rfl, rfl, h7', rfl⟩⟩

theorem commitStep_cases (t : Task) (f : Option Pos) (s : St) (bs : List Blk) :
    commitStep t f s bs = { outcome := .err, db := s.db } ∨
    ((commitStep t f s bs).mid = some s.view ∧
      (((commitStep t f s bs).db = s.view ∧ ((commitStep t f s bs).outcome = .err ∨ (commitStep t f s bs).outcome = .panic)) ∨
       ∃ last, bs.getLast? = some last ∧ clashOf s.view (newRowsOf t bs) = false ∧
         curClash t s.view last.num = false ∧
         commitStep t f s bs = { outcome := .ok last.num, db := committed t s.view bs last, mid := some s.view })) :=
  commitStep_cases' t f s bs _ rfl

theorem commitStep_none (t : Task) (s : St) (bs : List Blk) (last : Blk)
    (h1 : bs.getLast? = some last) (h2 : clashOf s.view (newRowsOf t bs) = false)
    (h3 : curClash t s.view last.num = false) :
    commitStep t none s bs = { outcome := .ok last.num, db := committed t s.view bs last, mid := some s.view } := by
  unfold commitStep
  unfold curClash at h3
  simp only [hit_none, Bool.false_eq_true, ↓reduceIte, h1, h2, h3]
  rfl

/-! ### one iteration -/

/-- results of an iteration that stops before anything is committed -/
def Early (t : Task) (db : DB) (r : Result) : Prop :=
  r.db = db ∧ r.mid = none ∧ (∀ n, r.outcome ≠ .ok n) ∧ (r.outcome = .done → 0 < t.stop)

theorem iter_cases (t : Task) (f : Option Pos) (s : St) :
    (∃ r, iter t f s = .ret r ∧ Early t s.db r) ∨
    ∃ ln lh d s1 lr s2, plan t f s = .go ln lh d s1 ∧ PlanGo t s ln lh d s1 ∧
      load t s1 lh (ln + 1) d = (lr, s2) ∧ Same s s2 ∧
      ((lr = .reorg ∧ iter t f s = delStep t f s2 ln) ∨
       ∃ bs, lr = .blocks bs ∧ iter t f s = .ret (commitStep t f s2 bs)) := by
  unfold iter
  cases hp : plan t f s with
  | stop r => left; exact ⟨r, rfl, plan_stop t f s r hp⟩
  | go ln lh d s1 =>
    have hg := plan_go t f s s1 ln lh d hp
    simp only [exec]
    cases hl : load t s1 lh (ln + 1) d with
    | mk lr s2 =>
    have hs2 : Same s1 s2 := by
      have := load_same t s1 lh (ln + 1) d
      rw [hl] at this; exact this
    have hss : Same s s2 := hg.same.trans hs2
    cases lr with
    | scriptEnd => left; exact ⟨_, rfl, hss.db, rfl, (fun _ h => by cases h), (fun h => by cases h)⟩
    | err => left; exact ⟨_, rfl, hss.db, rfl, (fun _ h => by cases h), (fun h => by cases h)⟩
    | panic => left; exact ⟨_, rfl, hss.db, rfl, (fun _ h => by cases h), (fun h => by cases h)⟩
    | reorg => right; exact ⟨ln, lh, d, s1, _, s2, rfl, hg, hl, hss, .inl ⟨rfl, rfl⟩⟩
    | blocks bs => right; exact ⟨ln, lh, d, s1, _, s2, rfl, hg, hl, hss, .inr ⟨bs, rfl, rfl⟩⟩

/-! ### loop induction -/

theorem loop_ind (t : Task) (f : Option Pos) (P : St → Prop) (Q : Result → Prop)
    (hstep : ∀ s, P s → match iter t f s with | .ret r => Q r | .cont s' => P s')
    (hlimit : ∀ s, P s → Q { outcome := .reorgLimit, db := s.db }) :
    ∀ fuel s, P s → Q (converge.loop t f fuel s) := by
  intro fuel
  induction fuel with
  | zero => intro s hs; exact hlimit s hs
  | succ n ih =>
    intro s hs
    rw [loop_succ]
    have := hstep s hs
    cases hi : iter t f s with
    | ret r => rw [hi] at this; exact this
    | cont s' => rw [hi] at this; exact ih s' this

theorem converge_eq (t : Task) (db : DB) (sc : Script) (f : Option Pos) :
    converge t db sc f =
      if hit f .begin1 then { outcome := .err, db := db }
      else converge.loop t f 1001 { db := db, view := db, script := sc } := rfl

end Shovel.World
