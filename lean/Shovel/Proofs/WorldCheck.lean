import Shovel.Model.World
import Shovel.Spec.World
/-
  Executable checkers for the specification-side predicates, so that concrete instances
  (non-vacuity examples, counterexamples) can be closed by `decide +kernel`.
-/
namespace Shovel.World

def Chain.wfb (c : Chain) : Bool :=
  !c.blks.isEmpty &&
  (List.range c.blks.length).all fun i =>
    match c.blks[i]? with
    | none => true
    | some a =>
      a.num == i && a.hash.length == 64 && a.parent.length == 64 &&
      (match c.blks[i + 1]? with
        | none => true
        | some b => b.parent == a.hash) &&
      (List.range c.blks.length).all fun j =>
        match c.blks[j]? with
        | none => true
        | some b => !(a.hash == b.hash) || i == j

theorem Chain.wfb_sound (c : Chain) (h : c.wfb = true) : c.WF := by
  unfold Chain.wfb at h
  rw [Bool.and_eq_true] at h
  obtain ⟨h0, h1⟩ := h
  rw [List.all_eq_true] at h1
  have key : ∀ i a, c.blks[i]? = some a →
      a.num = i ∧ a.hash.length = 64 ∧ a.parent.length = 64 ∧
      (∀ b, c.blks[i + 1]? = some b → b.parent = a.hash) ∧
      (∀ j b, c.blks[j]? = some b → a.hash = b.hash → i = j) := by
    intro i a hi
    have hlt : i < c.blks.length := (List.getElem?_eq_some_iff.mp hi).1
    have := h1 i (List.mem_range.mpr hlt)
    rw [hi] at this
    simp only [Bool.and_eq_true, beq_iff_eq] at this
    obtain ⟨⟨⟨⟨p1, p2⟩, p3⟩, p4⟩, p5⟩ := this
    refine ⟨p1, p2, p3, ?_, ?_⟩
    · intro b hb
      rw [hb] at p4
      simpa using p4
    · intro j b hj heq
      rw [List.all_eq_true] at p5
      have hjl : j < c.blks.length := (List.getElem?_eq_some_iff.mp hj).1
      have := p5 j (List.mem_range.mpr hjl)
      rw [hj] at this
      simpa [heq] using this
  refine ⟨?_, ?_, ?_, ?_, ?_⟩
  · intro hn; rw [hn] at h0; simp at h0
  · intro i b hb; exact (key i b hb).1
  · intro i b hb; exact ⟨(key i b hb).2.1, (key i b hb).2.2.1⟩
  · intro i a b ha hb; exact (key i a ha).2.2.2.1 b hb
  · intro i j a b ha hb heq; exact (key i a ha).2.2.2.2 j b hb heq

def scriptOKb (c : Chain) (sc : Script) : Bool :=
  (sc.latest.all fun a => match a with
    | none => true
    | some (n, h) => decide (n ≤ c.head) && h == c.hashAt n) &&
  (sc.hash.all fun p => match p.2 with
    | none => true
    | some h => decide (p.1 ≤ c.head) && h == c.hashAt p.1) &&
  (sc.gets.all fun g => match g.2 with
    | none => true
    | some bs => decide (1 ≤ g.1.2) && decide (g.1.1 + g.1.2 - 1 ≤ c.head) && bs == c.slice g.1.1 g.1.2)

theorem scriptOKb_sound (c : Chain) (sc : Script) (h : scriptOKb c sc = true) : ScriptOK c sc := by
  unfold scriptOKb at h
  simp only [Bool.and_eq_true, List.all_eq_true] at h
  obtain ⟨⟨h1, h2⟩, h3⟩ := h
  refine ⟨?_, ?_, ?_⟩
  · intro a ha
    have := h1 a ha
    rcases a with _ | ⟨n, hh⟩
    · exact .inl rfl
    · simp only [Bool.and_eq_true, decide_eq_true_eq, beq_iff_eq] at this
      exact .inr ⟨n, this.1, by rw [this.2]⟩
  · intro p hp
    have := h2 p hp
    obtain ⟨n, a⟩ := p
    cases a with
    | none => exact .inl rfl
    | some hh =>
      simp only [Bool.and_eq_true, decide_eq_true_eq, beq_iff_eq] at this
      exact .inr ⟨this.1, by rw [this.2]⟩
  · intro g hg
    have := h3 g hg
    obtain ⟨mn, a⟩ := g
    cases a with
    | none => exact .inl rfl
    | some bs =>
      simp only [Bool.and_eq_true, decide_eq_true_eq, beq_iff_eq] at this
      exact .inr ⟨this.1.1, this.1.2, by rw [this.2]⟩

instance (t : Task) (c : Chain) (s : Nat) (db : DB) : Decidable (Inv t c s db) := by
  unfold Inv; exact inferInstance

instance (t : Task) (c : Chain) (db : DB) : Decidable (KeysOK t c db) := by
  unfold KeysOK; exact inferInstance

end Shovel.World
