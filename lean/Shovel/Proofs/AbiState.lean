import Shovel.Proofs.AbiBase
/-
  C09 helper lemmas, part 3: the decoder state (`St`): writing cells, creating rows.
-/
namespace Shovel.Abi

/-- located cells: column, (lo, hi) -/
abbrev LCells := List (Nat × (Nat × Nat))

def setCells (lc : LCells) (row : Row) : Row := lc.foldl (fun row c => row.set c.1 (some c.2)) row

@[simp] theorem setCells_length (lc : LCells) (row : Row) : (setCells lc row).length = row.length := by
  induction lc generalizing row with
  | nil => rfl
  | cons c lc ih => simp [setCells, List.foldl_cons] at *; rw [ih]; simp

/-- total version of `St.setCol` -/
def St.setCol' (s : St) (r : RowRef) (c : Nat × (Nat × Nat)) : St :=
  match r with
  | .single => { s with single := s.single.set c.1 (some c.2) }
  | .coll i => { s with coll := s.coll.set i ((s.coll.getD i []).set c.1 (some c.2)) }

def writeCells (r : RowRef) (lc : LCells) (s : St) : St := lc.foldl (fun s c => s.setCol' r c) s

theorem writeCells_nil (r : RowRef) (s : St) : writeCells r [] s = s := rfl
theorem writeCells_cons (r : RowRef) (c) (lc : LCells) (s : St) :
    writeCells r (c :: lc) s = writeCells r lc (s.setCol' r c) := rfl
theorem writeCells_append (r : RowRef) (l1 l2 : LCells) (s : St) :
    writeCells r (l1 ++ l2) s = writeCells r l2 (writeCells r l1 s) := by
  simp [writeCells, List.foldl_append]

/-- the row `r` exists and has width `w` -/
def RowOK (s : St) (r : RowRef) (w : Nat) : Prop :=
  match r with
  | .single => s.single.length = w
  | .coll i => ∃ row, s.coll[i]? = some row ∧ row.length = w

theorem setCol_ok {s : St} {r : RowRef} {w p : Nat} (v : Nat × Nat) (h : RowOK s r w) (hp : p < w) :
    s.setCol r p v = .ok (s.setCol' r (p, v)) := by
  cases r with
  | single =>
    simp only [RowOK] at h
    simp only [St.setCol, St.setCol']
    rw [if_pos (by omega)]
  | coll i =>
    obtain ⟨row, h1, h2⟩ := h
    simp only [St.setCol, St.setCol', h1]
    rw [if_pos (by omega)]
    simp [List.getD, h1]

theorem RowOK_setCol' {s : St} {r : RowRef} {w : Nat} (c) (h : RowOK s r w) :
    RowOK (s.setCol' r c) r w := by
  cases r with
  | single => simpa [RowOK, St.setCol'] using h
  | coll i =>
    obtain ⟨row, h1, h2⟩ := h
    have hi : i < s.coll.length := by
      rcases List.getElem?_eq_some_iff.mp h1 with ⟨hi, _⟩; exact hi
    rcases List.getElem?_eq_some_iff.mp h1 with ⟨_, h1'⟩
    refine ⟨row.set c.1 (some c.2), ?_, by simpa using h2⟩
    simp [St.setCol', List.getD, hi, h1']

theorem RowOK_writeCells {r : RowRef} {w : Nat} (lc : LCells) {s : St} (h : RowOK s r w) :
    RowOK (writeCells r lc s) r w := by
  induction lc generalizing s with
  | nil => exact h
  | cons c lc ih => rw [writeCells_cons]; exact ih (RowOK_setCol' c h)

theorem writeCells_single (lc : LCells) (s : St) :
    writeCells .single lc s = { s with single := setCells lc s.single } := by
  induction lc generalizing s with
  | nil => rfl
  | cons c lc ih => rw [writeCells_cons, ih]; rfl

theorem writeCells_coll (i : Nat) (lc : LCells) (s : St) (row : Row) (h : s.coll[i]? = some row) :
    writeCells (.coll i) lc s = { s with coll := s.coll.set i (setCells lc row) } := by
  have hi : i < s.coll.length := by
    rcases List.getElem?_eq_some_iff.mp h with ⟨hi, _⟩; exact hi
  induction lc generalizing s row with
  | nil =>
    simp only [writeCells_nil, setCells, List.foldl_nil]
    rcases List.getElem?_eq_some_iff.mp h with ⟨hi, h'⟩
    cases s; simp only [St.mk.injEq, true_and, and_true] at *
    rw [← h', List.set_getElem_self]
  | cons c lc ih =>
    rw [writeCells_cons]
    have hstep : s.setCol' (.coll i) c = { s with coll := s.coll.set i (row.set c.1 (some c.2)) } := by
      simp [St.setCol', List.getD, h]
    rw [hstep, ih _ (row.set c.1 (some c.2)) (by simp [hi]) (by simpa using hi)]
    simp [setCells]

/-! ### rows -/

def WF (s : St) (w : Nat) : Prop :=
  s.ncols = w ∧ s.single.length = w ∧ (∀ row ∈ s.coll, row.length = w) ∧ s.n ≤ s.coll.length

theorem getRow_snd (s : St) : s.getRow.2 = .coll s.n := by
  simp [St.getRow]

theorem getRow_spec {s : St} {w : Nat} (h : WF s w) :
    WF s.getRow.1 w ∧ s.getRow.1.n = s.n + 1 ∧ s.getRow.1.single = s.single ∧
    s.getRow.1.coll[s.n]? = some (List.replicate w none) ∧
    s.getRow.1.coll.take s.n = s.coll.take s.n := by
  obtain ⟨h1, h2, h3, h4⟩ := h
  -- the possibly extended collection
  generalize hc1 : (if s.n + 1 ≥ s.coll.length then s.coll ++ [emptyRow s.ncols] else s.coll) = c1
  have hlen : s.n + 1 ≤ c1.length := by
    rw [← hc1]; split
    · simp; omega
    · omega
  have hrows : ∀ row ∈ c1, row.length = w := by
    rw [← hc1]; split
    · intro row hr
      rcases List.mem_append.mp hr with hr | hr
      · exact h3 row hr
      · simp at hr; subst hr; simp [emptyRow, h1]
    · exact h3
  have htake : c1.take s.n = s.coll.take s.n := by
    rw [← hc1]; split
    · rw [List.take_append_of_le_length h4]
    · rfl
  have hget : ∃ row, c1[s.n]? = some row ∧ row.length = w := by
    have hlt : s.n < c1.length := by omega
    exact ⟨c1[s.n], List.getElem?_eq_getElem hlt, hrows _ (List.getElem_mem hlt)⟩
  obtain ⟨row, hr1, hr2⟩ := hget
  have hgr : s.getRow.1 = { s with coll := c1.set s.n (List.replicate w none), n := s.n + 1 } := by
    simp only [St.getRow, Nat.add_sub_cancel, hc1]
    simp [List.getD, hr1, List.map_const', hr2]
  rw [hgr]
  refine ⟨⟨h1, h2, ?_, ?_⟩, rfl, rfl, ?_, ?_⟩
  · intro r hr
    rcases List.mem_or_eq_of_mem_set hr with hr | hr
    · exact hrows r hr
    · subst hr; simp
  · show s.n + 1 ≤ (c1.set s.n (List.replicate w none)).length
    rw [List.length_set]; exact hlen
  · show (c1.set s.n (List.replicate w none))[s.n]? = _
    rw [List.getElem?_set_self (by omega)]
  · show (c1.set s.n (List.replicate w none)).take s.n = _
    rw [List.take_set, List.set_eq_of_length_le (by rw [List.length_take]; omega), htake]

def pushRow (s : St) (lc : LCells) : St := writeCells (.coll s.n) lc s.getRow.1
def pushRows (lrows : List LCells) (s : St) : St := lrows.foldl pushRow s

theorem pushRows_nil (s : St) : pushRows [] s = s := rfl
theorem pushRows_cons (lc : LCells) (l : List LCells) (s : St) :
    pushRows (lc :: l) s = pushRows l (pushRow s lc) := rfl
theorem pushRows_append (l1 l2 : List LCells) (s : St) :
    pushRows (l1 ++ l2) s = pushRows l2 (pushRows l1 s) := by
  simp [pushRows, List.foldl_append]

theorem pushRow_spec {s : St} {w : Nat} (h : WF s w) (lc : LCells) :
    WF (pushRow s lc) w ∧ (pushRow s lc).n = s.n + 1 ∧ (pushRow s lc).single = s.single ∧
    (pushRow s lc).coll.take (s.n + 1) = s.coll.take s.n ++ [setCells lc (List.replicate w none)] := by
  obtain ⟨g1, g2, g3, g4, g5⟩ := getRow_spec h
  have hw := writeCells_coll s.n lc s.getRow.1 _ g4
  have hlt : s.n < s.getRow.1.coll.length := by
    rcases List.getElem?_eq_some_iff.mp g4 with ⟨hi, _⟩; exact hi
  unfold pushRow
  rw [hw]
  refine ⟨⟨g1.1, g1.2.1, ?_, ?_⟩, g2, g3, ?_⟩
  · intro r hr
    rcases List.mem_or_eq_of_mem_set hr with hr | hr
    · exact g1.2.2.1 r hr
    · subst hr; simp
  · show s.getRow.1.n ≤ (s.getRow.1.coll.set s.n _).length
    rw [List.length_set, g2]; omega
  · show (s.getRow.1.coll.set s.n _).take (s.n + 1) = _
    rw [List.take_add_one, List.take_set,
      List.set_eq_of_length_le (by rw [List.length_take]; omega), g5,
      List.getElem?_set_self hlt]
    rfl

theorem pushRows_spec (lrows : List LCells) {s : St} {w : Nat} (h : WF s w) :
    WF (pushRows lrows s) w ∧ (pushRows lrows s).n = s.n + lrows.length ∧
    (pushRows lrows s).single = s.single ∧
    (pushRows lrows s).coll.take (s.n + lrows.length) =
      s.coll.take s.n ++ lrows.map (fun lc => setCells lc (List.replicate w none)) := by
  induction lrows generalizing s with
  | nil => simp [pushRows_nil, h]
  | cons lc l ih =>
    obtain ⟨p1, p2, p3, p4⟩ := pushRow_spec h lc
    obtain ⟨q1, q2, q3, q4⟩ := ih p1
    rw [pushRows_cons]
    refine ⟨q1, by rw [q2, p2]; simp; omega, by rw [q3, p3], ?_⟩
    have : s.n + (lc :: l).length = (pushRow s lc).n + l.length := by rw [p2]; simp; omega
    rw [this, q4, p2, p4]; simp

/-- writing the singleton commutes with creating rows -/
theorem setCol'_single_getRow (s : St) (c) :
    (s.setCol' .single c).getRow.1 = (s.getRow.1).setCol' .single c := rfl

theorem writeCells_coll_setCol'_single (c) (s : St) (i : Nat) (lc' : LCells) :
    writeCells (.coll i) lc' (s.setCol' .single c) = (writeCells (.coll i) lc' s).setCol' .single c := by
  induction lc' generalizing s with
  | nil => rfl
  | cons c' l ih =>
    rw [writeCells_cons, writeCells_cons, ← ih]; rfl

theorem pushRow_setCol'_single (c) (s : St) (lc' : LCells) :
    pushRow (s.setCol' .single c) lc' = (pushRow s lc').setCol' .single c := by
  unfold pushRow
  rw [setCol'_single_getRow]
  exact writeCells_coll_setCol'_single c s.getRow.1 s.n lc'

theorem pushRows_setCol'_single (c) (l : List LCells) (s : St) :
    pushRows l (s.setCol' .single c) = (pushRows l s).setCol' .single c := by
  induction l generalizing s with
  | nil => rfl
  | cons lc' l ih => rw [pushRows_cons, pushRows_cons, pushRow_setCol'_single, ih]

theorem pushRows_writeCells_single (l : List LCells) (lc : LCells) (s : St) :
    pushRows l (writeCells .single lc s) = writeCells .single lc (pushRows l s) := by
  induction lc generalizing s with
  | nil => rfl
  | cons c lc ih => rw [writeCells_cons, writeCells_cons, ih, pushRows_setCol'_single]

/-- sequencing two scans in row mode -/
theorem post_seq (l1 l2 : List LCells) (c1 c2 : LCells) (s : St) :
    pushRows l2 (writeCells .single c2 (pushRows l1 (writeCells .single c1 s))) =
      pushRows (l1 ++ l2) (writeCells .single (c1 ++ c2) s) := by
  rw [pushRows_append, writeCells_append, pushRows_writeCells_single l1 c2]

theorem WF_writeCells_single {s : St} {w : Nat} (h : WF s w) (lc : LCells) :
    WF (writeCells .single lc s) w := by
  rw [writeCells_single]
  exact ⟨h.1, by simp [h.2.1], h.2.2.1, h.2.2.2⟩

/-! ### locations denote bytes -/

def bytesAt (b : Buf) (c : Nat × Nat) : List Nat := (b.data.take c.2).drop c.1
def locF (b : Buf) (c : Nat × (Nat × Nat)) : Nat × List Nat := (c.1, bytesAt b c.2)

/-- the located cells `lc` are the non-empty cells of `cs`, in order -/
def Loc (b : Buf) (lc : LCells) (cs : Cells) : Prop :=
  lc.map (locF b) = cs.filter (fun c => !c.2.isEmpty)

theorem Loc.nil (b : Buf) : Loc b [] [] := rfl
theorem Loc.append {b : Buf} {l1 l2 : LCells} {c1 c2 : Cells} (h1 : Loc b l1 c1) (h2 : Loc b l2 c2) :
    Loc b (l1 ++ l2) (c1 ++ c2) := by
  unfold Loc at *
  rw [List.map_append, List.filter_append, h1, h2]
theorem Loc.nil_inv {b : Buf} {lc : LCells} (h : Loc b lc []) : lc = [] := by
  unfold Loc at h
  simpa using h

def LocRows (b : Buf) : List LCells → List Cells → Prop
  | [], [] => True
  | l :: ls, c :: cs => Loc b l c ∧ LocRows b ls cs
  | _, _ => False

theorem LocRows.nil (b : Buf) : LocRows b [] [] := trivial
theorem LocRows.append {b : Buf} {l2 : List LCells} {c2 : List Cells} (h2 : LocRows b l2 c2) :
    (l1 : List LCells) → (c1 : List Cells) → LocRows b l1 c1 → LocRows b (l1 ++ l2) (c1 ++ c2)
  | [], [], _ => h2
  | _ :: _, [], h1 => False.elim h1
  | [], _ :: _, h1 => False.elim h1
  | _ :: ls, _ :: cs, h1 => And.intro h1.1 (LocRows.append h2 ls cs h1.2)

end Shovel.Abi
