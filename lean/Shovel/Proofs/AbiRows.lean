import Shovel.Proofs.AbiArr
/-
  C09 helper lemmas, part 7: `scan` on an encoding, row mode (`r = .single`): scalars go to the
  singleton, every element of a selected (innermost) array gets a fresh row.
-/
namespace Shovel.Abi

theorem leaves_isArr {e : Ty} (h : e.isArr = true) (v : Val) : leaves e v = [] := by
  cases e <;> simp [Ty.isArr] at h
  cases v <;> rfl

theorem RowOK_single_of_WF {s : St} {w : Nat} (h : WF s w) : RowOK s .single w := h.2.1

theorem WF_post {s : St} {w : Nat} (h : WF s w) (lc : LCells) (lr : List LCells) :
    WF (pushRows lr (writeCells .single lc s)) w :=
  (pushRows_spec lr (WF_writeCells_single h lc)).1

/-- element of a non-array type inside a selected array: decoded into a fresh row -/
theorem elemSpec_of_L {b : Buf} (w : Nat) (e : Ty) (ha : e.isArr = false)
    (hL : ∀ v o, WellTyped e v = true → At b o (enc e v) →
      ∃ lc, Loc b lc (leaves e v) ∧ ∀ r s, RowOK s r w → scan b e (o : Int) r s = .ok (writeCells r lc s)) :
    ElemSpec b w e := by
  intro v o hwt hat
  obtain ⟨lc, h1, h2⟩ := hL v o hwt hat
  refine ⟨[lc], ?_, fun r s hwf _ => ?_⟩
  · unfold elemRows; rw [ha]; exact ⟨h1, trivial⟩
  · have hsel : elemSel e r s = s.getRow := by unfold elemSel; rw [ha]; rfl
    obtain ⟨g1, g2, g3, g4, g5⟩ := getRow_spec hwf
    have hrow : RowOK s.getRow.1 (.coll s.n) w := ⟨_, g4, by simp⟩
    rw [hsel, getRow_snd, h2 _ _ hrow]
    rfl

/-- element that is itself an array: no row is created at this level -/
theorem elemSpec_of_R {b : Buf} (w : Nat) (e : Ty) (ha : e.isArr = true)
    (hR : ∀ v o, WellTyped e v = true → At b o (enc e v) →
      ∃ lc lr, Loc b lc (leaves e v) ∧ LocRows b lr (arrRows e v) ∧
        ∀ s, WF s w → scan b e (o : Int) .single s = .ok (pushRows lr (writeCells .single lc s))) :
    ElemSpec b w e := by
  intro v o hwt hat
  obtain ⟨lc, lr, h1, h2, h3⟩ := hR v o hwt hat
  rw [leaves_isArr ha] at h1
  have := h1.nil_inv; subst this
  refine ⟨lr, ?_, fun r s hwf hr => ?_⟩
  · unfold elemRows; rw [if_pos ha]; exact h2
  · have hsel : elemSel e r s = (s, r) := by unfold elemSel; rw [if_pos ha]
    rw [hsel, hr ha, h3 s hwf]; rfl

theorem arrRows_stat (sel : Option Nat) (v : Val) : arrRows (.stat sel) v = [] := by cases v <;> rfl
theorem arrRows_dyn (sel : Option Nat) (v : Val) : arrRows (.dyn sel) v = [] := by cases v <;> rfl

mutual
theorem arrRows_noselect : (t : Ty) → (v : Val) → t.hasSelect = false → arrRows t v = []
  | .stat sel, v, _ => arrRows_stat sel v
  | .dyn sel, v, _ => arrRows_dyn sel v
  | .arr k e, v, h => by
    cases v with
    | arr vs => rw [arrRows, if_neg (by rw [Ty.hasSelect] at h; simp [h])]
    | _ => rfl
  | .tup fs, v, h => by
    cases v with
    | tup vs => rw [arrRows]; exact arrRowsTup_noselect fs vs (by simpa [Ty.hasSelect] using h)
    | _ => rfl
theorem arrRowsTup_noselect : (fs : Tys) → (vs : Vals) → fs.hasSelect = false → arrRowsTup fs vs = []
  | .nil, vs, _ => by cases vs <;> rfl
  | .cons f fr, vs, h => by
    cases vs with
    | nil => rfl
    | cons v vr =>
      rw [Tys.hasSelect, Bool.or_eq_false_iff] at h
      rw [arrRowsTup, arrRows_noselect f v h.1, arrRowsTup_noselect fr vr h.2]; rfl
end

mutual
theorem scanR {b : Buf} (hb : BufOK b) (w : Nat) : (t : Ty) → (v : Val) → (off : Nat) →
    (∀ p ∈ t.sels, p < w) → t.inDomain = true → WellTyped t v = true → At b off (enc t v) →
    ∃ lc lr, Loc b lc (leaves t v) ∧ LocRows b lr (arrRows t v) ∧
      ∀ s, WF s w → scan b t off .single s = .ok (pushRows lr (writeCells .single lc s))
  | .stat sel, v, off, hw, _, hwt, hat => by
    obtain ⟨lc, h1, h2⟩ := scanL_stat hb w sel v off hw hwt hat
    exact ⟨lc, [], h1, by rw [arrRows_stat]; exact LocRows.nil b,
      fun s hwf => h2 .single s (RowOK_single_of_WF hwf)⟩
  | .dyn sel, v, off, hw, _, hwt, hat => by
    obtain ⟨lc, h1, h2⟩ := scanL_dyn hb w sel v off hw hwt hat
    exact ⟨lc, [], h1, by rw [arrRows_dyn]; exact LocRows.nil b,
      fun s hwf => h2 .single s (RowOK_single_of_WF hwf)⟩
  | .arr k e, v, off, hw, hdom, hwt, hat => by
    cases v <;> simp only [WellTyped, Bool.false_eq_true] at hwt
    rename_i vs
    rw [Bool.and_eq_true] at hwt
    by_cases hsel : e.hasSelect = true
    · have hwe : ∀ p ∈ e.sels, p < w := by simpa [Ty.sels] using hw
      have hE : ElemSpec b w e := by
        by_cases ha : e.isArr = true
        · have hde : e.inDomain = true := by rw [Ty.inDomain, if_pos ha] at hdom; exact hdom
          exact elemSpec_of_R w e ha (fun v o hv ho => scanR hb w e v o hwe hde hv ho)
        · have ha' : e.isArr = false := by simpa using ha
          rw [Ty.inDomain, if_neg ha, Bool.and_eq_true] at hdom
          exact elemSpec_of_L w e ha'
            (fun v o hv ho => scanL hb w e v o hwe (by simpa using hdom.1) hv ho)
      have hl := encArrParts_head_length e vs hwt.2 (headLenArr e vs)
      cases k with
      | zero =>
        rw [enc, encArr] at hat
        have hbd := hat.bound
        have hge := headLenArr_ge e hsel vs
        simp only [List.length_append, word32_length, hl] at hbd
        have hn : vs.length < 2 ^ 63 := by have := hb.2; omega
        have hat32 : At b (off + 32) ((encArrParts e vs (headLenArr e vs)).1 ++
            (encArrParts e vs (headLenArr e vs)).2) := hat.right' (by simp)
        obtain ⟨lr, c1, c2⟩ := loop_spec hb w e hE off 32 vs 32 (headLenArr e vs) hwt.2
          hat32.left (hat32.right' (by omega))
        refine ⟨[], lr, Loc.nil b, ?_, fun s hwf => ?_⟩
        · rw [arrRows, if_pos hsel]; exact c1
        · rw [scan_arr_dyn hb .single s hsel hat hn]
          exact c2 .single s hwf (fun _ => rfl)
      | succ k =>
        rw [enc, encArr] at hat
        have hvl : vs.length = k + 1 := by simpa using hwt.1
        obtain ⟨lr, c1, c2⟩ := loop_spec hb w e hE off 0 vs 0 (headLenArr e vs) hwt.2
          hat.left (hat.right' (by omega))
        refine ⟨[], lr, Loc.nil b, ?_, fun s hwf => ?_⟩
        · rw [arrRows, if_pos hsel]; exact c1
        · rw [scan_arr_fix b k off .single s hsel, ← hvl]
          exact c2 .single s hwf (fun _ => rfl)
    · have hsel' : e.hasSelect = false := by simpa using hsel
      refine ⟨[], [], Loc.nil b, ?_, fun s _ => scan_arr_noselect b k off .single s hsel'⟩
      rw [arrRows, hsel']; exact LocRows.nil b
  | .tup fs, v, off, hw, hdom, hwt, hat => by
    cases v <;> simp only [WellTyped, Bool.false_eq_true] at hwt
    rename_i vs
    rw [enc, encTup] at hat
    have hl := encTupParts_head_length fs vs hwt (headLenTup fs)
    obtain ⟨lc, lr, h1, h2, h3⟩ := scanTupR hb w fs vs off 0 (headLenTup fs)
      (by simpa [Ty.sels] using hw) (by simpa [Ty.inDomain] using hdom) hwt
      hat.left (hat.right' (by rw [hl]))
    by_cases hsel : fs.hasSelect = true
    · refine ⟨lc, lr, by rw [leaves]; exact h1, by rw [arrRows]; exact h2, fun s hwf => ?_⟩
      rw [scan_tup, hsel]
      exact h3 s hwf
    · have hsel' : fs.hasSelect = false := by simpa using hsel
      have hs2 : (Ty.tup fs).hasSelect = false := by simpa [Ty.hasSelect] using hsel'
      refine ⟨[], [], ?_, ?_, fun s _ => by rw [scan_tup, hsel']; rfl⟩
      · rw [leaves_noselect _ _ hs2]; exact Loc.nil b
      · rw [arrRows_noselect _ _ hs2]; exact LocRows.nil b
theorem scanTupR {b : Buf} (hb : BufOK b) (w : Nat) : (fs : Tys) → (vs : Vals) → (off pos T : Nat) →
    (∀ p ∈ fs.sels, p < w) → fs.inDomain = true → wellTypedTup fs vs = true →
    At b (off + pos) (encTupParts fs vs T).1 → At b (off + T) (encTupParts fs vs T).2 →
    ∃ lc lr, Loc b lc (leavesTup fs vs) ∧ LocRows b lr (arrRowsTup fs vs) ∧
      ∀ s, WF s w → scanTup b fs off pos .single s = .ok (pushRows lr (writeCells .single lc s))
  | .nil, vs, off, pos, T, _, _, _, _, _ => by
    refine ⟨[], [], ?_, ?_, fun s _ => by rw [scanTup_nil]; rfl⟩
    · cases vs <;> exact Loc.nil b
    · cases vs <;> exact LocRows.nil b
  | .cons f fr, vs, off, pos, T, hw, hdom, hwt, hat1, hat2 => by
    cases vs with
    | nil => simp [wellTypedTup] at hwt
    | cons v vr =>
      rw [wellTypedTup, Bool.and_eq_true] at hwt
      rw [Tys.inDomain, Bool.and_eq_true] at hdom
      have hwf : ∀ p ∈ f.sels, p < w := fun p hp => hw p (by simp [Tys.sels, hp])
      have hwr : ∀ p ∈ fr.sels, p < w := fun p hp => hw p (by simp [Tys.sels, hp])
      rw [encTupParts_cons] at hat1 hat2
      by_cases hs : f.isStatic = true
      · rw [if_pos hs] at hat1 hat2
        simp only at hat1 hat2
        have hlen := enc_static_length f v hs hwt.1
        obtain ⟨lc1, lr1, a1, a2, a3⟩ := scanR hb w f v (off + pos) hwf hdom.1 hwt.1 hat1.left
        obtain ⟨lc2, lr2, b1, b2, b3⟩ := scanTupR hb w fr vr off (pos + f.size) T hwr hdom.2 hwt.2
          (hat1.right' (by rw [hlen]; omega)) hat2
        refine ⟨lc1 ++ lc2, lr1 ++ lr2, by rw [leavesTup]; exact a1.append b1,
          by rw [arrRowsTup]; exact LocRows.append b2 _ _ a2, fun s hwf => ?_⟩
        have hbd := hat1.bound
        rw [scanTup_cons_static fr hs (by omega) (a3 s hwf), b3 _ (WF_post hwf lc1 lr1), post_seq]
      · rw [if_neg hs] at hat1 hat2
        simp only at hat1 hat2
        obtain ⟨lc1, lr1, a1, a2, a3⟩ := scanR hb w f v (off + T) hwf hdom.1 hwt.1 hat2.left
        obtain ⟨lc2, lr2, b1, b2, b3⟩ := scanTupR hb w fr vr off (pos + 32) (T + (enc f v).length)
          hwr hdom.2 hwt.2 (hat1.right' (by simp; omega)) (hat2.right' (by omega))
        refine ⟨lc1 ++ lc2, lr1 ++ lr2, by rw [leavesTup]; exact a1.append b1,
          by rw [arrRowsTup]; exact LocRows.append b2 _ _ a2, fun s hwf => ?_⟩
        have hbd := hat2.bound
        rw [scanTup_cons_dyn hb fr hs hat1 (by omega) (a3 s hwf), b3 _ (WF_post hwf lc1 lr1),
          post_seq]
end

end Shovel.Abi
