import Shovel.Model.World
import Shovel.Spec.World
/-
  Arithmetic of the partition ranges `parts` that `load` spawns.
-/
namespace Shovel.World

/-- consecutive non-empty ranges starting at `s` -/
def Consec : Nat → List (Nat × Nat) → Prop
  | _, [] => True
  | s, (m, n) :: r => m = s ∧ 1 ≤ n ∧ Consec (s + n) r

def psum (ps : List (Nat × Nat)) : Nat := (ps.map (·.2)).sum

@[simp] theorem psum_nil : psum [] = 0 := rfl
@[simp] theorem psum_cons (p : Nat × Nat) (r) : psum (p :: r) = p.2 + psum r := by
  simp [psum]
theorem psum_append (a b : List (Nat × Nat)) : psum (a ++ b) = psum a + psum b := by
  simp [psum, List.sum_append]

theorem consec_append (s : Nat) (a b : List (Nat × Nat)) :
    Consec s (a ++ b) ↔ Consec s a ∧ Consec (s + psum a) b := by
  induction a generalizing s with
  | nil => simp [Consec]
  | cons p r ih =>
    obtain ⟨m, n⟩ := p
    simp only [List.cons_append, Consec, ih, psum_cons, Nat.add_assoc, and_assoc]

theorem consec_getElem (s : Nat) (ps : List (Nat × Nat)) (h : Consec s ps) :
    ∀ i m n, ps[i]? = some (m, n) → m = s + psum (ps.take i) ∧ 1 ≤ n := by
  induction ps generalizing s with
  | nil => intro i m n hi; simp at hi
  | cons p r ih =>
    obtain ⟨m0, n0⟩ := p
    obtain ⟨h1, h2, h3⟩ := h
    intro i m n hi
    cases i with
    | zero =>
      simp at hi
      obtain ⟨rfl, rfl⟩ := hi
      simp [h1, h2]
    | succ j =>
      simp only [List.getElem?_cons_succ] at hi
      have := ih _ h3 j m n hi
      simp only [List.take_succ_cons, psum_cons]
      omega

theorem filterMap_congr' {α β} (l : List α) (f g : α → Option β) (h : ∀ x ∈ l, f x = g x) :
    l.filterMap f = l.filterMap g := by
  induction l with
  | nil => rfl
  | cons a r ih =>
    simp only [List.filterMap_cons, h a (List.mem_cons_self ..)]
    rw [ih (fun x hx => h x (List.mem_cons_of_mem _ hx))]

/-- the wrap-free form of `parts` -/
def partsS (part start limit conc : Nat) : List (Nat × Nat) :=
  (List.range conc).filterMap fun i =>
    if i * part < limit then some (start + i * part, min part (limit - i * part)) else none

theorem part_bounds (batch conc : Nat) (hb : 1 ≤ batch) (hc : 1 ≤ conc) (hcb : conc * batch < 2 ^ 63) :
    1 ≤ max 1 (batch / conc) ∧ max 1 (batch / conc) ≤ batch ∧ conc * max 1 (batch / conc) < 2 ^ 63 := by
  have _ := hc
  have h1 : batch / conc ≤ batch := Nat.div_le_self _ _
  have h2 : max 1 (batch / conc) ≤ batch := by omega
  have h3 : conc * max 1 (batch / conc) ≤ conc * batch := Nat.mul_le_mul_left _ h2
  omega

theorem parts_eq (batch conc start limit : Nat) (hb : 1 ≤ batch) (hc : 1 ≤ conc)
    (hlb : limit ≤ batch) (hs : start + limit < 2 ^ 63) (hcb : conc * batch < 2 ^ 63) :
    parts batch conc start limit = partsS (max 1 (batch / conc)) start limit conc := by
  unfold parts partsS
  apply filterMap_congr'
  intro i hi
  have hi : i < conc := List.mem_range.mp hi
  obtain ⟨p1, p2, p3⟩ := part_bounds batch conc hb hc hcb
  generalize max 1 (batch / conc) = part at *
  have hq : i * part ≤ conc * part := Nat.mul_le_mul_right _ (Nat.le_of_lt hi)
  generalize i * part = q at *
  have hU : U64 = 2 ^ 64 := rfl
  by_cases hql : q < limit
  · have e1 : (start + q) % U64 = start + q := Nat.mod_eq_of_lt (by omega)
    have e2 : q % U64 = q := Nat.mod_eq_of_lt (by omega)
    have e3 : (limit + U64 - q) % U64 = limit - q := by
      have : limit + U64 - q = (limit - q) + U64 := by omega
      rw [this, Nat.add_mod_right]; exact Nat.mod_eq_of_lt (by omega)
    rw [e1, e2, e3]
    have : ¬ (start + q > start + limit ∨ min part (limit - q) = 0) := by omega
    simp only [this, hql, if_false, if_true]
  · simp only [hql, if_false]
    have e2 : q % U64 = q := Nat.mod_eq_of_lt (by omega)
    rw [e2]
    by_cases hq2 : q = limit
    · subst hq2
      have : (q + U64 - q) % U64 = 0 := by
        have : q + U64 - q = U64 := by omega
        rw [this]; exact Nat.mod_self _
      rw [this]
      simp
    · have e1 : (start + q) % U64 = start + q := Nat.mod_eq_of_lt (by omega)
      rw [e1]
      have : start + q > start + limit := by omega
      simp [this]

theorem partsS_spec (part start limit conc : Nat) (hp : 1 ≤ part) :
    psum (partsS part start limit conc) = min limit (conc * part) ∧
    Consec start (partsS part start limit conc) := by
  induction conc with
  | zero => simp [partsS, Consec]
  | succ k ih =>
    obtain ⟨ih1, ih2⟩ := ih
    have e : partsS part start limit (k + 1) = partsS part start limit k ++
        (if k * part < limit then [(start + k * part, min part (limit - k * part))] else []) := by
      unfold partsS
      rw [List.range_succ, List.filterMap_append]
      congr 1
      by_cases h : k * part < limit <;> simp [h]
    have hk : (k + 1) * part = k * part + part := Nat.succ_mul _ _
    rw [e, psum_append, consec_append, ih1, hk]
    generalize k * part = q at *
    by_cases h : q < limit
    · simp only [h, if_true, psum_cons, psum_nil, Consec]
      refine ⟨by omega, ih2, by omega, by omega, trivial⟩
    · simp only [h, if_false, psum_nil, Consec]
      refine ⟨by omega, ih2, trivial⟩

theorem parts_spec (batch conc start limit : Nat) (hb : 1 ≤ batch) (hc : 1 ≤ conc)
    (hl : 1 ≤ limit) (hlb : limit ≤ batch) (hs : start + limit < 2 ^ 63) (hcb : conc * batch < 2 ^ 63) :
    1 ≤ psum (parts batch conc start limit) ∧ psum (parts batch conc start limit) ≤ limit ∧
    Consec start (parts batch conc start limit) := by
  rw [parts_eq batch conc start limit hb hc hlb hs hcb]
  obtain ⟨p1, p2, p3⟩ := part_bounds batch conc hb hc hcb
  obtain ⟨h1, h2⟩ := partsS_spec (max 1 (batch / conc)) start limit conc p1
  refine ⟨?_, ?_, h2⟩
  · rw [h1]
    have : 1 * 1 ≤ conc * max 1 (batch / conc) := Nat.mul_le_mul hc p1
    omega
  · rw [h1]; omega

/-- every range ends at or below `start + limit` — even when `start` is so large that the
    64-bit arithmetic wraps -/
theorem parts_upper (batch conc start limit : Nat) (hb : 1 ≤ batch) (hc : 1 ≤ conc)
    (hlb : limit ≤ batch) (hcb : conc * batch < 2 ^ 63) :
    ∀ p ∈ parts batch conc start limit, p.1 + p.2 ≤ start + limit := by
  intro p hp
  unfold parts at hp
  simp only [List.mem_filterMap, List.mem_range] at hp
  obtain ⟨i, hi, hp⟩ := hp
  obtain ⟨p1, p2, p3⟩ := part_bounds batch conc hb hc hcb
  generalize max 1 (batch / conc) = part at *
  have hq : i * part ≤ conc * part := Nat.mul_le_mul_right _ (Nat.le_of_lt hi)
  generalize i * part = q at *
  have hU : U64 = 2 ^ 64 := rfl
  have hbb : batch ≤ conc * batch := Nat.le_mul_of_pos_left _ hc
  have e2 : q % U64 = q := Nat.mod_eq_of_lt (by omega)
  simp only [e2] at hp
  have hA1 : (start + q) % U64 ≤ start + q := Nat.mod_le _ _
  have hA2 : U64 ≤ start + q → (start + q) % U64 ≤ start + q - U64 := by
    intro hw
    have h1 : (start + q) % U64 = (start + q - U64) % U64 := by
      have : start + q = (start + q - U64) + U64 := by omega
      conv => lhs; rw [this, Nat.add_mod_right]
    rw [h1]; exact Nat.mod_le _ _
  have hA3 : start + q < U64 → (start + q) % U64 = start + q := fun hw => Nat.mod_eq_of_lt hw
  have hB : q ≤ limit → (limit + U64 - q) % U64 = limit - q := by
    intro hql
    by_cases hq2 : q = limit
    · subst hq2
      have : q + U64 - q = U64 := by omega
      rw [this, Nat.mod_self]; omega
    · have : limit + U64 - q = (limit - q) + U64 := by omega
      rw [this, Nat.add_mod_right]; exact Nat.mod_eq_of_lt (by omega)
  have hm1 : min part ((limit + U64 - q) % U64) ≤ part := Nat.min_le_left _ _
  have hm2 : min part ((limit + U64 - q) % U64) ≤ (limit + U64 - q) % U64 := Nat.min_le_right _ _
  generalize (start + q) % U64 = A at *
  generalize (limit + U64 - q) % U64 = B at *
  generalize min part B = M at *
  by_cases hcond : A > start + limit ∨ M = 0
  · rw [if_pos hcond] at hp; cases hp
  · rw [if_neg hcond] at hp
    cases hp
    simp only
    by_cases hql : q ≤ limit
    · have := hB hql; omega
    · by_cases hw : start + q < U64
      · have := hA3 hw; omega
      · have := hA2 (by omega); omega

theorem consec_lower (s : Nat) (ps : List (Nat × Nat)) (h : Consec s ps) :
    ∀ p ∈ ps, s ≤ p.1 ∧ 1 ≤ p.2 := by
  induction ps generalizing s with
  | nil => intro p hp; cases hp
  | cons q r ih =>
    obtain ⟨m, n⟩ := q
    obtain ⟨h1, h2, h3⟩ := h
    intro p hp
    rcases List.mem_cons.mp hp with rfl | hp
    · simp [h1, h2]
    · have := ih _ h3 p hp; omega

end Shovel.World
