import Shovel.Proofs.WorldStruct
/-
  SQL-level facts: newest position, dependency target.
-/
namespace Shovel.World

def bestStep (best : Option Cur) (c : Cur) : Option Cur :=
  match best with
  | none => some c
  | some b => if c.num > b.num then some c else some b

theorem latestCur_def (db : DB) (src ig : String) :
    db.latestCur src ig = (db.cur.filter fun c => c.src == src && c.ig == ig).foldl bestStep none := rfl

theorem best_spec : ∀ (l : List Cur) (init : Option Cur),
    match l.foldl bestStep init with
    | none => init = none ∧ l = []
    | some c => (init = some c ∨ c ∈ l) ∧ (∀ x ∈ l, x.num ≤ c.num) ∧ (∀ b, init = some b → b.num ≤ c.num)
  | [], init => by
    cases init with
    | none => exact ⟨rfl, rfl⟩
    | some b => exact ⟨.inl rfl, (fun _ h => by cases h), (fun b' h => by cases h; exact Nat.le_refl _)⟩
  | a :: l, init => by
    simp only [List.foldl_cons]
    have ih := best_spec l (bestStep init a)
    cases hr : l.foldl bestStep (bestStep init a) with
    | none =>
      rw [hr] at ih
      simp only
      obtain ⟨h1, _⟩ := ih
      cases init with
      | none => cases h1
      | some b => unfold bestStep at h1; simp only at h1; split at h1 <;> cases h1
    | some c =>
      rw [hr] at ih
      simp only at ih ⊢
      obtain ⟨h1, h2, h3⟩ := ih
      cases init with
      | none =>
        have hb : bestStep none a = some a := rfl
        rw [hb] at h1 h3
        have := h3 a rfl
        refine ⟨?_, ?_, fun b h => by cases h⟩
        · rcases h1 with h1 | h1
          · cases h1; exact .inr (List.mem_cons_self ..)
          · exact .inr (List.mem_cons_of_mem _ h1)
        · intro x hx
          rcases List.mem_cons.mp hx with rfl | hx
          · exact this
          · exact h2 x hx
      | some b =>
        by_cases hab : a.num > b.num
        · have hb : bestStep (some b) a = some a := by unfold bestStep; simp only [hab, ↓reduceIte]
          rw [hb] at h1 h3
          have := h3 a rfl
          refine ⟨?_, ?_, fun b' h => by cases h; omega⟩
          · rcases h1 with h1 | h1
            · cases h1; exact .inr (List.mem_cons_self ..)
            · exact .inr (List.mem_cons_of_mem _ h1)
          · intro x hx
            rcases List.mem_cons.mp hx with rfl | hx
            · exact this
            · exact h2 x hx
        · have hb : bestStep (some b) a = some b := by unfold bestStep; simp only [hab, ↓reduceIte]
          rw [hb] at h1 h3
          have := h3 b rfl
          refine ⟨?_, ?_, fun b' h => by cases h; exact this⟩
          · rcases h1 with h1 | h1
            · exact .inl h1
            · exact .inr (List.mem_cons_of_mem _ h1)
          · intro x hx
            rcases List.mem_cons.mp hx with rfl | hx
            · omega
            · exact h2 x hx

theorem latestCur_some {db : DB} {src ig : String} {c : Cur} (h : db.latestCur src ig = some c) :
    c ∈ db.cur ∧ c.src = src ∧ c.ig = ig ∧ ∀ x ∈ db.cur, x.src = src → x.ig = ig → x.num ≤ c.num := by
  rw [latestCur_def] at h
  have := best_spec (db.cur.filter fun c => c.src == src && c.ig == ig) none
  rw [h] at this
  obtain ⟨h1, h2, _⟩ := this
  rcases h1 with h1 | h1
  · cases h1
  · have hm := List.mem_filter.mp h1
    simp only [Bool.and_eq_true, beq_iff_eq] at hm
    refine ⟨hm.1, hm.2.1, hm.2.2, fun x hx h3 h4 => h2 x ?_⟩
    rw [List.mem_filter]
    simp [hx, h3, h4]

theorem latestCur_none {db : DB} {src ig : String} (h : db.latestCur src ig = none) :
    (db.cur.filter fun c => c.src == src && c.ig == ig) = [] := by
  rw [latestCur_def] at h
  have := best_spec (db.cur.filter fun c => c.src == src && c.ig == ig) none
  rw [h] at this
  exact this.2

theorem latestCur_congr {a b : DB} {src ig : String}
    (h : (a.cur.filter fun c => c.src == src && c.ig == ig) = (b.cur.filter fun c => c.src == src && c.ig == ig)) :
    a.latestCur src ig = b.latestCur src ig := by
  rw [latestCur_def, latestCur_def, h]

/-- the view of another integration's positions is the committed one -/
theorem Sub.latestCur_other {t : Task} {db v : DB} (h : Sub t db v) (d : String) (hd : d ≠ t.ig) :
    v.latestCur t.src d = db.latestCur t.src d := by
  apply latestCur_congr
  have e : ∀ l : List Cur, (l.filter fun c => c.src == t.src && c.ig == d) =
      ((l.filter fun x => !mineC t x).filter fun c => c.src == t.src && c.ig == d) := by
    intro l
    rw [List.filter_filter]
    apply List.filter_congr
    intro x _
    by_cases hx : x.ig = d
    · have : (x.ig == t.ig) = false := by rw [hx]; simpa using hd
      simp [mineC, this]
    · simp [hx]
  rw [e v.cur, e db.cur, h.cur]

/-! ### topOf -/

def topStep (m : Option Nat) (x : Cur) : Option Nat :=
  match m with
  | none => some x.num
  | some n => some (max n x.num)

theorem topOf_def (cs : List Cur) : topOf cs = cs.foldl topStep none := rfl

theorem top_best : ∀ (l : List Cur) (init : Option Cur),
    l.foldl topStep (init.map (·.num)) = (l.foldl bestStep init).map (·.num)
  | [], init => rfl
  | a :: l, init => by
    simp only [List.foldl_cons]
    rw [← top_best l (bestStep init a)]
    congr 1
    cases init with
    | none => rfl
    | some b =>
      unfold bestStep topStep
      simp only [Option.map_some]
      split
      · simp only [Option.map_some]; congr 1; omega
      · simp only [Option.map_some]; congr 1; omega

theorem topOf_latest (t : Task) (db : DB) :
    topOf (db.cur.filter (mineC t)) = (db.latestCur t.src t.ig).map (·.num) := by
  rw [topOf_def]
  exact top_best _ none

/-! ### dependency target -/

def minStep (best : Option (Nat × String)) (c : Cur) : Option (Nat × String) :=
  match best with
  | none => some (c.num, c.hash)
  | some (n, h) => if c.num < n then some (c.num, c.hash) else some (n, h)

theorem min_spec : ∀ (l : List Cur) (init : Option (Nat × String)) (n : Nat) (h : String),
    l.foldl minStep init = some (n, h) →
    (∀ x ∈ l, n ≤ x.num) ∧ (∀ n0 h0, init = some (n0, h0) → n ≤ n0)
  | [], init, n, h, hr => by
    simp only [List.foldl_nil] at hr
    exact ⟨(fun _ h => by cases h), (fun n0 h0 hi => by rw [hr] at hi; cases hi; exact Nat.le_refl _)⟩
  | a :: l, init, n, h, hr => by
    simp only [List.foldl_cons] at hr
    obtain ⟨h1, h2⟩ := min_spec l (minStep init a) n h hr
    have key : n ≤ a.num ∧ ∀ n0 h0, init = some (n0, h0) → n ≤ n0 := by
      cases init with
      | none =>
        have := h2 a.num a.hash rfl
        exact ⟨this, fun _ _ h => by cases h⟩
      | some p =>
        obtain ⟨n0, h0⟩ := p
        by_cases hlt : a.num < n0
        · have hb : minStep (some (n0, h0)) a = some (a.num, a.hash) := by
            unfold minStep; simp only [hlt, ↓reduceIte]
          have := h2 a.num a.hash hb
          exact ⟨this, fun n1 h1 h => by cases h; omega⟩
        · have hb : minStep (some (n0, h0)) a = some (n0, h0) := by
            unfold minStep; simp only [hlt, ↓reduceIte]
          have := h2 n0 h0 hb
          exact ⟨by omega, fun n1 h1 h => by cases h; exact this⟩
    refine ⟨fun x hx => ?_, key.2⟩
    rcases List.mem_cons.mp hx with rfl | hx
    · exact key.1
    · exact h1 x hx

theorem filterMap_full {α β} (f : α → Option β) : ∀ (l : List α),
    (l.filterMap f).length ≤ l.length ∧
    (¬ (l.filterMap f).length < l.length → ∀ a ∈ l, ∃ b, f a = some b ∧ b ∈ l.filterMap f)
  | [] => ⟨Nat.le_refl _, fun _ _ h => by cases h⟩
  | a :: l => by
    obtain ⟨ih1, ih2⟩ := filterMap_full f l
    rw [List.filterMap_cons]
    cases hfa : f a with
    | none =>
      simp only [List.length_cons]
      exact ⟨by omega, fun h => by omega⟩
    | some b =>
      simp only [List.length_cons]
      refine ⟨by omega, fun h x hx => ?_⟩
      rcases List.mem_cons.mp hx with rfl | hx
      · exact ⟨b, hfa, List.mem_cons_self ..⟩
      · obtain ⟨b', hb1, hb2⟩ := ih2 (by omega) x hx
        exact ⟨b', hb1, List.mem_cons_of_mem _ hb2⟩

theorem depTarget_some {db : DB} {src : String} {deps : List String} {n : Nat} {h : String}
    (hd : db.depTarget src deps = some (n, h)) :
    ∀ d ∈ deps, ∃ x, db.latestCur src d = some x ∧ n ≤ x.num := by
  unfold DB.depTarget at hd
  simp only [] at hd
  split at hd
  · cases hd
  · rename_i hlen
    intro d hdm
    have hdu : d ∈ deps.eraseDups := List.mem_eraseDups.mpr hdm
    obtain ⟨x, hx1, hx2⟩ := (filterMap_full (fun d => db.latestCur src d) deps.eraseDups).2 hlen d hdu
    exact ⟨x, hx1, (min_spec _ none n h hd).1 x hx2⟩

end Shovel.World
