import Shovel.Spec.Rpc
/-
  Helper lemmas for C07 (Shovel/Props/C07.lean): what every step of the block request keeps.
-/
namespace Shovel.Rpc

/-! ### pointwise relation of two block lists -/

inductive Rel (R : Block → Block → Prop) : List Block → List Block → Prop
  | nil : Rel R [] []
  | cons {a b : Block} {as bs : List Block} : R a b → Rel R as bs → Rel R (a :: as) (b :: bs)

theorem Rel.refl {R : Block → Block → Prop} (hr : ∀ a, R a a) : ∀ l, Rel R l l
  | [] => .nil
  | a :: l => .cons (hr a) (Rel.refl hr l)

theorem Rel.trans {R : Block → Block → Prop} (ht : ∀ a b c, R a b → R b c → R a c) :
    ∀ {l1 l2 l3}, Rel R l1 l2 → Rel R l2 l3 → Rel R l1 l3
  | _, _, _, .nil, .nil => .nil
  | _, _, _, .cons h1 t1, .cons h2 t2 => .cons (ht _ _ _ h1 h2) (Rel.trans ht t1 t2)

theorem Rel.length_eq {R : Block → Block → Prop} : ∀ {l1 l2}, Rel R l1 l2 → l2.length = l1.length
  | _, _, .nil => rfl
  | _, _, .cons _ t => by simp [Rel.length_eq t]

theorem Rel.get_left {R : Block → Block → Prop} : ∀ {l1 l2}, Rel R l1 l2 → ∀ {i : Nat} {a : Block}, l1[i]? = some a →
    ∃ b, l2[i]? = some b ∧ R a b
  | _, _, .nil, i, a, h => by simp at h
  | _, _, .cons h1 t, 0, a, h => by simp at h; subst h; exact ⟨_, by simp, h1⟩
  | _, _, .cons _ t, i + 1, a, h => by
    simp at h
    obtain ⟨b, hb, hr⟩ := Rel.get_left t h
    exact ⟨b, by simpa using hb, hr⟩

theorem Rel.get_right {R : Block → Block → Prop} : ∀ {l1 l2}, Rel R l1 l2 → ∀ {i : Nat} {b : Block}, l2[i]? = some b →
    ∃ a, l1[i]? = some a ∧ R a b
  | _, _, .nil, i, a, h => by simp at h
  | _, _, .cons h1 t, 0, a, h => by simp at h; subst h; exact ⟨_, by simp, h1⟩
  | _, _, .cons _ t, i + 1, a, h => by
    simp at h
    obtain ⟨b, hb, hr⟩ := Rel.get_right t h
    exact ⟨b, by simpa using hb, hr⟩

theorem Rel.mem_right {R : Block → Block → Prop} : ∀ {l1 l2}, Rel R l1 l2 → ∀ {b}, b ∈ l2 →
    ∃ a, a ∈ l1 ∧ R a b
  | _, _, .nil, b, h => by simp at h
  | _, _, .cons h1 t, b, h => by
    rcases List.mem_cons.1 h with h | h
    · subst h; exact ⟨_, List.mem_cons_self, h1⟩
    · obtain ⟨a, ha, hr⟩ := Rel.mem_right t h
      exact ⟨a, List.mem_cons_of_mem _ ha, hr⟩

theorem Rel.map_eq {R : Block → Block → Prop} {β : Type} (f : Block → β) (hf : ∀ a b, R a b → f b = f a) :
    ∀ {l1 l2}, Rel R l1 l2 → l2.map f = l1.map f
  | _, _, .nil => rfl
  | _, _, .cons h t => by simp [hf _ _ h, Rel.map_eq f hf t]

theorem Rel.mono {R S : Block → Block → Prop} (h : ∀ a b, R a b → S a b) :
    ∀ {l1 l2}, Rel R l1 l2 → Rel S l1 l2
  | _, _, .nil => .nil
  | _, _, .cons h1 t => .cons (h _ _ h1) (Rel.mono h t)

/-! ### what a step keeps of a block: number, parent, and a non-empty hash -/

def Keep (a b : Block) : Prop :=
  b.num = a.num ∧ b.parent = a.parent ∧ (a.hash ≠ "" → b.hash = a.hash)

theorem Keep.refl (a : Block) : Keep a a := ⟨rfl, rfl, fun _ => rfl⟩

theorem Keep.trans (a b d : Block) (h1 : Keep a b) (h2 : Keep b d) : Keep a d := by
  obtain ⟨n1, p1, k1⟩ := h1
  obtain ⟨n2, p2, k2⟩ := h2
  refine ⟨n2.trans n1, p2.trans p1, fun hne => ?_⟩
  have e1 := k1 hne
  have e2 := k2 (e1 ▸ hne)
  exact e2.trans e1

theorem rel_refl (l : List Block) : Rel Keep l l := Rel.refl Keep.refl l

theorem rel_trans {l1 l2 l3 : List Block} (h1 : Rel Keep l1 l2) (h2 : Rel Keep l2 l3) :
    Rel Keep l1 l3 := Rel.trans Keep.trans h1 h2

/-! ### setHash, withTx, updBlock -/

/-- `setHash` touches only the hash; a hash that is held stays; a non-empty argument becomes the hash -/
theorem setHash_some {b b' : Block} {x : String} (h : setHash b x = some b') :
    b'.num = b.num ∧ b'.parent = b.parent ∧ b'.txs = b.txs ∧ (b.hash ≠ "" → b'.hash = b.hash) ∧
      (x ≠ "" → b'.hash = x) ∧ (x = "" → b' = b) := by
  unfold setHash at h
  by_cases hx : (x == "") = true
  · rw [if_pos hx] at h
    cases h
    simp at hx
    exact ⟨rfl, rfl, rfl, fun _ => rfl, fun hne => absurd hx hne, fun _ => rfl⟩
  · rw [if_neg hx] at h
    split at h
    · cases h
    · rename_i hc
      simp at hc h hx
      subst h
      exact ⟨rfl, rfl, rfl, fun h1 => (hc h1).symm, fun _ => rfl, fun h0 => absurd h0 hx⟩

theorem setHash_keep {b b' : Block} {x : String} (h : setHash b x = some b') : Keep b b' :=
  ⟨(setHash_some h).1, (setHash_some h).2.1, (setHash_some h).2.2.2.1⟩

/-- a non-empty argument of a successful `setHash` is the hash held, if one is held -/
theorem setHash_agree {b b' : Block} {x : String} (h : setHash b x = some b') (hb : b.hash ≠ "") (hx : x ≠ "") :
    x = b.hash := by
  obtain ⟨_, _, _, h1, h2, _⟩ := setHash_some h
  rw [← h2 hx, h1 hb]

@[simp] theorem withTx_num (b : Block) (i : Nat) (f : Tx → Tx) : (withTx b i f).num = b.num := by
  unfold withTx; split <;> rfl
@[simp] theorem withTx_hash (b : Block) (i : Nat) (f : Tx → Tx) : (withTx b i f).hash = b.hash := by
  unfold withTx; split <;> rfl
@[simp] theorem withTx_parent (b : Block) (i : Nat) (f : Tx → Tx) : (withTx b i f).parent = b.parent := by
  unfold withTx; split <;> rfl

theorem withTx_keep (b : Block) (i : Nat) (f : Tx → Tx) : Keep b (withTx b i f) :=
  ⟨by simp, by simp, fun _ => by simp⟩

theorem updBlock_rel {R : Block → Block → Prop} (hr : ∀ a, R a a) {n : Nat} {f : Block → Option Block}
    (hf : ∀ b b', b.num = n → f b = some b' → R b b') :
    ∀ {bs bs'}, updBlock bs n f = some bs' → Rel R bs bs'
  | [], _, h => by simp [updBlock] at h
  | b :: rest, bs', h => by
    unfold updBlock at h
    split at h
    · rename_i hb
      cases hfb : f b with
      | none => simp [hfb] at h
      | some b' =>
        simp [hfb] at h; subst h
        exact .cons (hf b b' (by simpa using hb) hfb) (Rel.refl hr rest)
    · cases hu : updBlock rest n f with
      | none => simp [hu] at h
      | some r' =>
        simp [hu] at h; subst h
        exact .cons (hr b) (updBlock_rel hr hf hu)

/-- a successful `updBlock` found a block with that number on which `f` succeeded -/
theorem updBlock_found {n : Nat} {f : Block → Option Block} :
    ∀ {bs bs'}, updBlock bs n f = some bs' → ∃ b b', b ∈ bs ∧ b.num = n ∧ f b = some b'
  | [], _, h => by simp [updBlock] at h
  | b :: rest, bs', h => by
    unfold updBlock at h
    split at h
    · rename_i hb
      cases hfb : f b with
      | none => simp [hfb] at h
      | some b' => exact ⟨b, b', List.mem_cons_self, by simpa using hb, hfb⟩
    · cases hu : updBlock rest n f with
      | none => simp [hu] at h
      | some r' =>
        obtain ⟨x, x', hx, hn, hfx⟩ := updBlock_found hu
        exact ⟨x, x', List.mem_cons_of_mem _ hx, hn, hfx⟩

/-! ### folds over `Option` states that stop at the first `none` -/

theorem foldl_none {α β : Type} {F : Option β → α → Option β} (hn : ∀ i, F none i = none) :
    ∀ l : List α, l.foldl F none = none
  | [] => rfl
  | i :: l => by simp [List.foldl_cons, hn, foldl_none hn l]

/-- invariant rule: every step that succeeds keeps `Inv` and establishes `P` of its element -/
theorem foldl_opt {α β : Type} {F : Option β → α → Option β} (hn : ∀ i, F none i = none)
    (Inv : β → Prop) (P : α → Prop) :
    ∀ (l : List α), (∀ s i s', i ∈ l → Inv s → F (some s) i = some s' → Inv s' ∧ P i) →
      ∀ s s', Inv s → l.foldl F (some s) = some s' → Inv s' ∧ ∀ i ∈ l, P i
  | [], _, s, s', hi, h => by
    simp at h; subst h; exact ⟨hi, by simp⟩
  | i :: l, hstep, s, s', hi, h => by
    rw [List.foldl_cons] at h
    cases hF : F (some s) i with
    | none => rw [hF, foldl_none hn] at h; cases h
    | some s1 =>
      rw [hF] at h
      obtain ⟨hi1, hp⟩ := hstep s i s1 List.mem_cons_self hi hF
      obtain ⟨hi', hps⟩ := foldl_opt hn Inv P l
        (fun s i s' hm => hstep s i s' (List.mem_cons_of_mem _ hm)) s1 s' hi1 h
      refine ⟨hi', fun j hj => ?_⟩
      rcases List.mem_cons.1 hj with rfl | hj
      · exact hp
      · exact hps j hj

/-! ### validate -/

def Linked : Option String → List Block → Prop
  | _, [] => True
  | prev, b :: bs => (∀ p, prev = some p → b.parent = p) ∧ Linked (some b.hash) bs

/-- the batch element a validated block came from -/
def elOf (b : Block) : El (Hdr × List Nat) :=
  .val ({ num := b.num, hash := b.hash, parent := b.parent }, b.txs.map (·.idx))

def badPar (prev : Option String) (hd : Hdr) : Bool :=
  match prev with | some p => hd.parent != p | none => false

theorem validate_go_val (start : Nat) (hd : Hdr) (txs : List Nat) (rest : List (El (Hdr × List Nat))) (i : Nat)
    (prev : Option String) :
    validate.go start (.val (hd, txs) :: rest) i prev =
      if hd.num != start + i then none else if badPar prev hd then none
      else (validate.go start rest (i + 1) (some hd.hash)).map fun bs =>
        { num := hd.num, hash := hd.hash, parent := hd.parent, txs := txs.map fun t => { idx := t } } :: bs := by
  rw [validate.go.eq_def]
  cases prev <;> simp only [badPar] <;>
    cases validate.go start rest (i + 1) (some hd.hash) <;> rfl

theorem validate_go_some {start : Nat} : ∀ (l : List (El (Hdr × List Nat))) (i : Nat) (prev : Option String)
    (bs : List Block), validate.go start l i prev = some bs →
    bs.map (·.num) = List.range' (start + i) l.length ∧ Linked prev bs ∧ l = bs.map elOf
  | [], i, prev, bs, h => by
    simp [validate.go] at h; subst h; simp [Linked]
  | .error :: _, _, _, _, h => by simp [validate.go] at h
  | .null :: _, _, _, _, h => by simp [validate.go] at h
  | .val (hd, txs) :: rest, i, prev, bs, h => by
    rw [validate_go_val] at h
    by_cases hnum : (hd.num != start + i) = true
    · simp [hnum] at h
    rw [if_neg hnum] at h
    by_cases hpar : badPar prev hd = true
    · rw [if_pos hpar] at h; cases h
    rw [if_neg hpar] at h
    cases hgo : validate.go start rest (i + 1) (some hd.hash) with
    | none => simp [hgo] at h
    | some bs1 =>
      simp [hgo] at h
      subst h
      obtain ⟨h1, h2, h3⟩ := validate_go_some rest (i + 1) (some hd.hash) bs1 hgo
      simp at hnum
      refine ⟨?_, ?_, ?_⟩
      · simp [List.range'_succ, hnum, h1, Nat.add_assoc]
      · refine ⟨fun p hp => ?_, h2⟩
        subst hp
        simpa [badPar] using hpar
      · simp [elOf, ← h3, Function.comp_def]

theorem validate_some {start limit : Nat} {es : List (El (Hdr × List Nat))} {bs : List Block}
    (h : validate start limit es = some bs) :
    0 < limit ∧ limit ≤ es.length ∧ (∀ e ∈ es, ∃ a, e = .val a) ∧
    validate.go start (es.take limit) 0 none = some bs := by
  unfold validate at h
  by_cases h1 : es.length < limit
  · simp [h1] at h
  rw [if_neg h1] at h
  split at h
  · cases h
  rename_i h2
  by_cases h3 : (limit == 0) = true
  · simp [h3] at h
  simp only [h3] at h
  refine ⟨?_, by omega, ?_, h⟩
  · simp at h3; omega
  · intro e he
    cases e with
    | val a => exact ⟨a, rfl⟩
    | error => exact absurd (List.any_eq_true.2 ⟨_, he, rfl⟩) h2
    | null => exact absurd (List.any_eq_true.2 ⟨_, he, rfl⟩) h2

theorem Linked.get : ∀ {prev : Option String} {bs : List Block}, Linked prev bs → ∀ {j : Nat} {a b : Block},
    bs[j]? = some a → bs[j + 1]? = some b → b.parent = a.hash
  | _, [], _, j, a, b, h1, _ => by simp at h1
  | _, [x], _, j, a, b, _, h2 => by simp at h2
  | _, x :: y :: bs, h, 0, a, b, h1, h2 => by
    simp at h1 h2; subst h1; subst h2
    exact h.2.1 _ rfl
  | _, x :: y :: bs, h, j + 1, a, b, h1, h2 => by
    simp only [List.getElem?_cons_succ] at h1 h2
    exact Linked.get h.2 h1 h2

theorem num_of_map_range' {bs : List Block} {s n : Nat} (h : bs.map (·.num) = List.range' s n) {j : Nat} {b : Block}
    (hb : bs[j]? = some b) : b.num = s + j ∧ j < n := by
  have := congrArg (·[j]?) h
  simp [hb] at this
  by_cases hj : j < n
  · rw [List.getElem?_range' hj] at this
    simp at this
    exact ⟨this, hj⟩
  · rw [List.getElem?_eq_none (by simp; omega)] at this
    cases this

/-- what a validated header batch looks like -/
theorem validate_spec {start limit : Nat} {es : List (El (Hdr × List Nat))} {bs : List Block}
    (h : validate start limit es = some bs) :
    0 < limit ∧ limit ≤ es.length ∧ (∀ e ∈ es, ∃ a, e = .val a) ∧
    bs.map (·.num) = List.range' start limit ∧ Linked none bs ∧ es.take limit = bs.map elOf := by
  obtain ⟨h0, h1, h2, h3⟩ := validate_some h
  obtain ⟨g1, g2, g3⟩ := validate_go_some _ _ _ _ h3
  refine ⟨h0, h1, h2, ?_, g2, g3⟩
  rw [g1, List.length_take, Nat.min_eq_left h1]; rfl

/-! ### receipts, logs, traces -/

/-- the hash checks of one block's items (receipts / logs of a transaction / traces): every item
    names block `n0`, and every item hash went through `setHash` -/
theorem chain_spec {α : Type} (bn : α → Nat) (bh : α → String) (post : α → Block → Block) (n0 : Nat)
    (hpost : ∀ i x, (post i x).num = x.num ∧ (post i x).hash = x.hash ∧ (post i x).parent = x.parent)
    {G : Option Block → α → Option Block} {l : List α} {b b' : Block} {h0 : String}
    (h : l.foldl G (setHash b h0) = some b')
    (hn : ∀ i, G none i = none)
    (hs : ∀ x i, G (some x) i = if bn i != n0 then none else (setHash x (bh i)).map (post i)) :
    Keep b b' ∧ (∀ i ∈ l, bn i = n0) ∧
      (b.hash ≠ "" → (h0 ≠ "" → h0 = b.hash) ∧ ∀ i ∈ l, bh i ≠ "" → bh i = b.hash) := by
  cases hs0 : setHash b h0 with
  | none => rw [hs0, foldl_none hn] at h; cases h
  | some b1 =>
    rw [hs0] at h
    have k1 : Keep b b1 := setHash_keep hs0
    have key := foldl_opt hn (fun x => Keep b x)
      (fun i => bn i = n0 ∧ (b.hash ≠ "" → bh i ≠ "" → bh i = b.hash)) l
      (by
        intro x i x' hi hx hG
        rw [hs] at hG
        by_cases hb : (bn i != n0) = true
        · simp [hb] at hG
        rw [if_neg hb] at hG
        have hb' : bn i = n0 := by simpa using hb
        cases hsx : setHash x (bh i) with
        | none => simp [hsx] at hG
        | some y =>
          simp [hsx] at hG
          subst hG
          have k2 : Keep x y := setHash_keep hsx
          have k3 : Keep y (post i y) := by
            obtain ⟨p1, p2, p3⟩ := hpost i y
            exact ⟨p1, p3, fun _ => p2⟩
          refine ⟨Keep.trans _ _ _ hx (Keep.trans _ _ _ k2 k3), hb', fun hne' hne2 => ?_⟩
          have hxh : x.hash = b.hash := hx.2.2 hne'
          have := setHash_agree hsx (hxh ▸ hne') hne2
          rw [this, hxh])
      b1 b' k1 h
    refine ⟨key.1, fun i hi => (key.2 i hi).1, fun hne' => ⟨fun h0ne => ?_, fun i hi => (key.2 i hi).2 hne'⟩⟩
    exact setHash_agree hs0 hne' h0ne

/-- the hash held for a block that is the only one of its number survives every `Keep` step -/
theorem held_hash {bs0 s : List Block} (hrel : Rel Keep bs0 s) {x b : Block}
    (hx : x ∈ s) (hb : b ∈ bs0) (hn : x.num = b.num) (hne : b.hash ≠ "")
    (hu : ∀ b2 ∈ bs0, b2.num = b.num → b2 = b) : x.hash = b.hash ∧ x.hash ≠ "" := by
  obtain ⟨a, ha, hk⟩ := Rel.mem_right hrel hx
  have : a = b := hu a ha (by rw [← hk.1, hn])
  subst this
  have := hk.2.2 hne
  exact ⟨this, this ▸ hne⟩

theorem foldl_withTx_fields {α : Type} (g : α → Nat) (f : α → Tx → Tx) : ∀ (l : List α) (x : Block),
    (l.foldl (fun b a => withTx b (g a) (f a)) x).num = x.num ∧
    (l.foldl (fun b a => withTx b (g a) (f a)) x).hash = x.hash ∧
    (l.foldl (fun b a => withTx b (g a) (f a)) x).parent = x.parent
  | [], x => ⟨rfl, rfl, rfl⟩
  | a :: l, x => by
    simp only [List.foldl_cons]
    obtain ⟨h1, h2, h3⟩ := foldl_withTx_fields g f l (withTx x (g a) (f a))
    exact ⟨by simp [h1], by simp [h2], by simp [h3]⟩

theorem updBlock_rel_mem {R : Block → Block → Prop} (hr : ∀ a, R a a) {n : Nat} {f : Block → Option Block} :
    ∀ {bs bs'}, (∀ b b', b ∈ bs → b.num = n → f b = some b' → R b b') → updBlock bs n f = some bs' → Rel R bs bs'
  | [], _, _, h => by simp [updBlock] at h
  | b :: rest, bs', hf, h => by
    unfold updBlock at h
    split at h
    · rename_i hb
      cases hfb : f b with
      | none => simp [hfb] at h
      | some b' =>
        simp [hfb] at h; subst h
        exact .cons (hf b b' List.mem_cons_self (by simpa using hb) hfb) (Rel.refl hr rest)
    · cases hu : updBlock rest n f with
      | none => simp [hu] at h
      | some r' =>
        simp [hu] at h; subst h
        exact .cons (hr b) (updBlock_rel_mem hr (fun x x' hm => hf x x' (List.mem_cons_of_mem _ hm)) hu)

theorem updBlock_both {R : Block → Block → Prop} (hr : ∀ a, R a a) {n : Nat} {f : Block → Option Block}
    {bs bs' : List Block} {P : Prop}
    (hf : ∀ b b', b ∈ bs → b.num = n → f b = some b' → R b b' ∧ P) (h : updBlock bs n f = some bs') :
    Rel R bs bs' ∧ P := by
  obtain ⟨b, b', hm, hbn, hfb⟩ := updBlock_found h
  exact ⟨updBlock_rel_mem hr (fun x x' hm hn hx => (hf x x' hm hn hx).1) h, (hf b b' hm hbn hfb).2⟩

/-- receipts: relative to any earlier state `bs0` of the block list -/
theorem applyReceipts_go_spec {start : Nat} (bs0 : List Block) :
    ∀ (es : List (El (List Rcpt))) (i : Nat) (bs bs' : List Block),
    Rel Keep bs0 bs → applyReceipts.go start es i bs = some bs' →
    Rel Keep bs0 bs' ∧ (∀ e ∈ es, ∃ rs, e = .val rs) ∧
      (∀ (j : Nat) (rs : List Rcpt) (r : Rcpt), es[j]? = some (.val rs) → r ∈ rs → r.bnum = start + (i + j)) ∧
      (∀ (j : Nat) (rs : List Rcpt) (r : Rcpt), es[j]? = some (.val rs) → r ∈ rs → ∀ b ∈ bs0, b.num = r.bnum →
        b.hash ≠ "" → (∀ b2 ∈ bs0, b2.num = b.num → b2 = b) → r.bhash ≠ "" → r.bhash = b.hash)
  | [], i, bs, bs', hr0, h => by
    simp [applyReceipts.go] at h; subst h; simp [hr0]
  | .error :: _, _, _, _, _, h => by simp [applyReceipts.go] at h
  | .null :: _, _, _, _, _, h => by simp [applyReceipts.go] at h
  | .val [] :: rest, i, bs, bs', hr0, h => by
    rw [applyReceipts.go] at h
    obtain ⟨h1, h2, h3, h4⟩ := applyReceipts_go_spec bs0 rest (i + 1) bs bs' hr0 h
    refine ⟨h1, ?_, ?_, ?_⟩
    · intro e he
      rcases List.mem_cons.1 he with rfl | he
      · exact ⟨_, rfl⟩
      · exact h2 e he
    · intro j rs r hj hr
      cases j with
      | zero => simp at hj; subst hj; cases hr
      | succ j =>
        simp only [List.getElem?_cons_succ] at hj
        have := h3 j rs r hj hr
        omega
    · intro j rs r hj hr
      cases j with
      | zero => simp at hj; subst hj; cases hr
      | succ j =>
        simp only [List.getElem?_cons_succ] at hj
        exact h4 j rs r hj hr
  | .val (r0 :: rs0) :: rest, i, bs, bs', hr0, h => by
    rw [applyReceipts.go] at h
    by_cases hnum : (r0.bnum != start + i) = true
    · simp [hnum] at h
    rw [if_neg hnum] at h
    simp at hnum
    split at h
    · cases h
    rename_i bs1 hu
    have hboth : Rel Keep bs bs1 ∧ ∃ x ∈ bs, x.num = r0.bnum ∧ (∀ r ∈ r0 :: rs0, r.bnum = r0.bnum) ∧
        (x.hash ≠ "" → ∀ r ∈ r0 :: rs0, r.bhash ≠ "" → r.bhash = x.hash) := by
      refine updBlock_both Keep.refl ?_ hu
      intro b b' hm hb hf
      have := chain_spec Rcpt.bnum Rcpt.bhash
        (fun r b => withTx b r.tx fun t => { t with logs := r.logs, fromRcpt := true }) r0.bnum
        (fun _ _ => ⟨by simp, by simp, by simp⟩) hf (fun _ => rfl) (fun _ _ => rfl)
      exact ⟨this.1, b, hm, hb, this.2.1, fun hn => (this.2.2 hn).2⟩
    obtain ⟨h1, h2, h3, h4⟩ := applyReceipts_go_spec bs0 rest (i + 1) bs1 bs' (rel_trans hr0 hboth.1) h
    obtain ⟨x, hxm, hxn, hall, hag⟩ := hboth.2
    refine ⟨h1, ?_, ?_, ?_⟩
    · intro e he
      rcases List.mem_cons.1 he with rfl | he
      · exact ⟨_, rfl⟩
      · exact h2 e he
    · intro j rs r hj hr
      cases j with
      | zero =>
        simp at hj; subst hj
        rw [hall r hr, hnum]; rfl
      | succ j =>
        simp only [List.getElem?_cons_succ] at hj
        have := h3 j rs r hj hr
        omega
    · intro j rs r hj hr
      cases j with
      | zero =>
        simp at hj; subst hj
        intro b hb hbn hne hu hrne
        obtain ⟨e1, e3⟩ := held_hash hr0 hxm hb (by rw [hxn, hbn, hall r hr]) hne hu
        rw [hag e3 r hr hrne, e1]
      | succ j =>
        simp only [List.getElem?_cons_succ] at hj
        exact h4 j rs r hj hr

theorem applyReceipts_spec {start limit : Nat} {es : List (El (List Rcpt))} {bs bs' : List Block}
    (h : applyReceipts start limit es bs = some bs') :
    limit ≤ es.length ∧ Rel Keep bs bs' ∧ (∀ e ∈ es, ∃ rs, e = .val rs) ∧
      (∀ (j : Nat) (rs : List Rcpt) (r : Rcpt), es[j]? = some (.val rs) → r ∈ rs → r.bnum = start + j) ∧
      (∀ (j : Nat) (rs : List Rcpt) (r : Rcpt), es[j]? = some (.val rs) → r ∈ rs → ∀ b ∈ bs, b.num = r.bnum →
        b.hash ≠ "" → (∀ b2 ∈ bs, b2.num = b.num → b2 = b) → r.bhash ≠ "" → r.bhash = b.hash) := by
  unfold applyReceipts at h
  by_cases h1 : es.length < limit
  · simp [h1] at h
  rw [if_neg h1] at h
  split at h
  · cases h
  obtain ⟨g1, g2, g3, g4⟩ := applyReceipts_go_spec bs es 0 bs bs' (rel_refl bs) h
  exact ⟨by omega, g1, g2, fun j rs r hj hr => by simpa using g3 j rs r hj hr, g4⟩

theorem trace_chain {n0 : Nat} {G : Option Block → Item → Option Block} {l : List Item}
    {b b' : Block} {h0 : String}
    (h : l.foldl G (setHash b h0) = some b')
    (hn : ∀ i, G none i = none)
    (hs : ∀ x i, G (some x) i = if i.bnum != n0 then none else setHash x i.bhash) :
    Keep b b' ∧ (∀ i ∈ l, i.bnum = n0) ∧
      (b.hash ≠ "" → (h0 ≠ "" → h0 = b.hash) ∧ ∀ i ∈ l, i.bhash ≠ "" → i.bhash = b.hash) :=
  chain_spec Item.bnum Item.bhash (fun _ b => b) n0 (fun _ _ => ⟨rfl, rfl, rfl⟩) h hn
    (fun x i => by rw [hs]; split <;> simp)

/-- traces of one block: relative to any earlier state `bs0` of the block list -/
theorem applyTraces_spec {want : Nat} {e : El (List Item)} {bs0 bs bs' : List Block}
    (hr0 : Rel Keep bs0 bs) (h : applyTraces want e bs = some bs') :
    Rel Keep bs bs' ∧ ∃ items, e = .val items ∧ (∀ i ∈ items, i.bnum = want) ∧
      (∀ i ∈ items, ∀ b ∈ bs0, b.num = i.bnum → b.hash ≠ "" →
        (∀ b2 ∈ bs0, b2.num = b.num → b2 = b) → i.bhash ≠ "" → i.bhash = b.hash) := by
  unfold applyTraces at h
  split at h
  · cases h
  · cases h
  · cases h; exact ⟨rel_refl _, [], rfl, by simp, by simp⟩
  rename_i i0 is
  by_cases hnum : (i0.bnum != want) = true
  · simp [hnum] at h
  rw [if_neg hnum] at h
  simp at hnum
  have key : Rel Keep bs bs' ∧ ∃ x ∈ bs, x.num = i0.bnum ∧ (∀ i ∈ i0 :: is, i.bnum = i0.bnum) ∧
      (x.hash ≠ "" → ∀ i ∈ i0 :: is, i.bhash ≠ "" → i.bhash = x.hash) := by
    refine updBlock_both Keep.refl ?_ h
    intro b b' hm hb hf
    split at hf
    · cases hf
    rename_i x hx
    obtain ⟨k1, k2, k3⟩ := trace_chain hx (fun _ => rfl) (fun _ _ => rfl)
    refine ⟨?_, b, hm, hb, k2, fun hn => (k3 hn).2⟩
    simp at hf
    subst hf
    obtain ⟨p1, p2, p3⟩ := foldl_withTx_fields (fun tx : Nat => tx)
      (fun tx t => { t with traces := ((i0 :: is).filter (·.tx == tx)).length })
      ((i0 :: is).map (·.tx)).eraseDups x
    exact Keep.trans _ _ _ k1 ⟨p1, p3, fun _ => p2⟩
  obtain ⟨x, hxm, hxn, hall, hag⟩ := key.2
  refine ⟨key.1, _, rfl, fun i hi => by rw [hall i hi, hnum], ?_⟩
  intro i hi b hb hbn hne hu hine
  obtain ⟨e1, e3⟩ := held_hash hr0 hxm hb (by rw [hxn, hbn, hall i hi]) hne hu
  rw [hag e3 i hi hine, e1]

theorem log_chain {G : Option Block → Item → Option Block} {l : List Item}
    {b b' : Block} {h0 : String}
    (h : l.foldl G (setHash b h0) = some b')
    (hn : ∀ i, G none i = none)
    (hs : ∀ x i, G (some x) i = setHash x i.bhash) :
    Keep b b' ∧ (b.hash ≠ "" → (h0 ≠ "" → h0 = b.hash) ∧ ∀ i ∈ l, i.bhash ≠ "" → i.bhash = b.hash) := by
  have := chain_spec (fun _ : Item => 0) Item.bhash (fun _ b => b) 0 (fun _ _ => ⟨rfl, rfl, rfl⟩) h hn
    (fun x i => by rw [hs]; simp)
  exact ⟨this.1, this.2.2⟩

theorem applyLogs_spec {start limit : Nat} {h : El Hdr} {l : El (List Item)} {n : Nat}
    {bs bs' : List Block}
    (hok : applyLogs start limit h l n bs = some bs') :
    n = 2 ∧ ∃ hd items, h = .val hd ∧ l = .val items ∧
      (∀ i ∈ items, start ≤ i.bnum ∧ i.bnum < start + limit) ∧ Rel Keep bs bs' ∧
      (∀ b ∈ bs, b.num = start + limit - 1 → b.hash ≠ "" → (∀ b2 ∈ bs, b2.num = b.num → b2 = b) →
        hd.hash ≠ "" → hd.hash = b.hash) ∧
      (∀ i ∈ items, ∀ b ∈ bs, b.num = i.bnum → b.hash ≠ "" → (∀ b2 ∈ bs, b2.num = b.num → b2 = b) →
        i.bhash ≠ "" → i.bhash = b.hash) := by
  unfold applyLogs at hok
  by_cases hn : (n != 2) = true
  · simp [hn] at hok
  rw [if_neg hn] at hok
  simp at hn
  cases h with
  | error => simp at hok
  | null => cases l <;> simp at hok
  | val hd =>
  cases l with
  | error => simp at hok
  | null => simp at hok
  | val items =>
  simp only [] at hok
  split at hok
  · cases hok
  rename_i bs1 hbs1
  by_cases hr : (items.any fun i => decide (i.bnum < start) || decide (i.bnum ≥ start + limit)) = true
  · rw [if_pos hr] at hok; cases hok
  rw [if_neg hr] at hok
  -- the accompanying header
  have h1 : Rel Keep bs bs1 ∧ (∀ b ∈ bs, b.num = start + limit - 1 → b.hash ≠ "" →
      (∀ b2 ∈ bs, b2.num = b.num → b2 = b) → hd.hash ≠ "" → hd.hash = b.hash) := by
    by_cases hany : (bs.any fun x => x.num == start + limit - 1) = true
    · rw [if_pos hany] at hbs1
      have := updBlock_both (R := Keep) Keep.refl
        (P := ∃ b0 ∈ bs, b0.num = start + limit - 1 ∧ (b0.hash ≠ "" → hd.hash ≠ "" → hd.hash = b0.hash))
        (fun b b' hm (hb : b.num = start + limit - 1) hf =>
          ⟨setHash_keep hf, b, hm, hb, fun h1 h2 => setHash_agree hf h1 h2⟩) hbs1
      refine ⟨this.1, ?_⟩
      obtain ⟨b0, hm0, hn0, hk⟩ := this.2
      intro b hm hb hne hu hhd
      have : b0 = b := hu b0 hm0 (hn0.trans hb.symm)
      subst this
      exact hk hne hhd
    · rw [if_neg hany] at hbs1
      cases hbs1
      refine ⟨rel_refl _, fun b hm hb => ?_⟩
      exact absurd (List.any_eq_true.2 ⟨b, hm, by simp [hb]⟩) hany
  have hrange : ∀ i ∈ items, start ≤ i.bnum ∧ i.bnum < start + limit := by
    intro i him
    have : ¬ ((decide (i.bnum < start) || decide (i.bnum ≥ start + limit)) = true) :=
      fun hx => hr (List.any_eq_true.2 ⟨i, him, hx⟩)
    simp at this
    omega
  have key := foldl_opt (fun _ => rfl) (fun s => Rel Keep bs s)
    (fun k : Nat × Nat => ∀ i ∈ items, (i.bnum, i.tx) = k → ∀ b ∈ bs, b.num = i.bnum → b.hash ≠ "" →
      (∀ b2 ∈ bs, b2.num = b.num → b2 = b) → i.bhash ≠ "" → i.bhash = b.hash)
    (groupKeys items)
    (by
      intro s k s' _ hinv hF
      simp only [] at hF
      split at hF
      · rename_i hgrp
        cases hF
        refine ⟨hinv, fun i him hk => ?_⟩
        have : i ∈ List.filter (fun i => i.bnum == k.fst && i.tx == k.snd) items :=
          List.mem_filter.2 ⟨him, by simp [← hk]⟩
        rw [hgrp] at this
        cases this
      · rename_i i0 tl hgrp
        have := updBlock_both (R := Keep) Keep.refl
          (P := ∃ x ∈ s, x.num = k.1 ∧ (x.hash ≠ "" →
            ∀ i ∈ List.filter (fun i => i.bnum == k.fst && i.tx == k.snd) items, i.bhash ≠ "" → i.bhash = x.hash))
          (by
            intro x x' hm hx hf
            split at hf
            · cases hf
            rename_i y hy
            simp at hf
            subst hf
            obtain ⟨k1, k2⟩ := log_chain hy (fun _ => rfl) (fun _ _ => rfl)
            exact ⟨Keep.trans _ _ _ k1 (withTx_keep _ _ _), x, hm, hx, fun hne => (k2 hne).2⟩) hF
        refine ⟨rel_trans hinv this.1, fun i him hk b hbm hb hne hu hine => ?_⟩
        obtain ⟨x, hxm, hxn, hx⟩ := this.2
        have hkn : k.1 = i.bnum := by rw [← hk]
        obtain ⟨e1, e3⟩ := held_hash hinv hxm hbm (by rw [hxn, hkn, hb]) hne hu
        rw [hx e3 i (List.mem_filter.2 ⟨him, by simp [← hk]⟩) hine, e1])
    bs1 bs' h1.1 hok
  refine ⟨hn, hd, items, rfl, rfl, hrange, key.1, h1.2, fun i him => ?_⟩
  exact key.2 (i.bnum, i.tx) (by simp [groupKeys, List.mem_eraseDups]; exact ⟨i, him, rfl, rfl⟩) i him rfl

/-! ### the three stages of `get` -/

def stage1 (p : Plan) (start limit : Nat) (xs : List Exch) : Option (List Block × List Exch) :=
  if p.blocks || p.headers then
    match xs with
    | .headers es :: rest => (validate start limit es).map (·, rest)
    | _ => none
  else some ((List.range limit).map (fun i => ({ num := start + i } : Block)), xs)

def stage2 (p : Plan) (start limit : Nat) (bs : List Block) (xs : List Exch) : Option (List Block × List Exch) :=
  if p.receipts then
    match xs with
    | .receipts es :: rest => (applyReceipts start limit es bs).map (·, rest)
    | _ => none
  else if p.logs then
    match xs with
    | .logs h l n :: rest => (applyLogs start limit h l n bs).map (·, rest)
    | _ => none
  else some (bs, xs)

def stage3 (p : Plan) (start limit : Nat) (bs : List Block) (xs : List Exch) : Option (List Block) :=
  if p.traces then get.go start limit limit xs bs else some bs

theorem get_eq (p : Plan) (start limit : Nat) (xs : List Exch) :
    get p start limit xs =
      match stage1 p start limit xs with
      | none => none
      | some (bs, xs) =>
        match stage2 p start limit bs xs with
        | none => none
        | some (bs, xs) => stage3 p start limit bs xs := by
  rfl

theorem get_some {p : Plan} {start limit : Nat} {xs : List Exch} {bs : List Block}
    (h : get p start limit xs = some bs) :
    ∃ bs0 xs1 bs1 xs2, stage1 p start limit xs = some (bs0, xs1) ∧
      stage2 p start limit bs0 xs1 = some (bs1, xs2) ∧ stage3 p start limit bs1 xs2 = some bs := by
  rw [get_eq] at h
  split at h
  · cases h
  rename_i bs0 xs1 h1
  split at h
  · cases h
  rename_i bs1 xs2 h2
  exact ⟨bs0, xs1, bs1, xs2, h1, h2, h⟩

/-- the traces loop: relative to any earlier state `bs0` of the block list -/
theorem get_go_spec {start limit : Nat} (bs0 : List Block) : ∀ (k : Nat) (xs : List Exch) (bs bs' : List Block),
    Rel Keep bs0 bs → get.go start limit k xs bs = some bs' →
    Rel Keep bs0 bs' ∧
      ∀ j, j < k → ∃ items, xs[j]? = some (.traces (.val items)) ∧
        (∀ i ∈ items, i.bnum = start + (limit - (k - j))) ∧
        (∀ i ∈ items, ∀ b ∈ bs0, b.num = i.bnum → b.hash ≠ "" →
          (∀ b2 ∈ bs0, b2.num = b.num → b2 = b) → i.bhash ≠ "" → i.bhash = b.hash)
  | 0, xs, bs, bs', hr0, h => by
    simp [get.go] at h; subst h; exact ⟨hr0, fun j hj => by omega⟩
  | k + 1, xs, bs, bs', hr0, h => by
    rw [get.go.eq_def] at h
    simp only [] at h
    split at h
    · rename_i e rest
      split at h
      · cases h
      rename_i bs1 htr
      obtain ⟨r1, items, rfl, hit, hag⟩ := applyTraces_spec hr0 htr
      obtain ⟨r2, hrest⟩ := get_go_spec bs0 k rest bs1 bs' (rel_trans hr0 r1) h
      refine ⟨r2, fun j hj => ?_⟩
      cases j with
      | zero => exact ⟨items, rfl, fun i hi => by rw [hit i hi]; rfl, hag⟩
      | succ j =>
        obtain ⟨its, h1, h2, h3⟩ := hrest j (by omega)
        refine ⟨its, by simpa using h1, fun i hi => ?_, h3⟩
        rw [h2 i hi]; congr 2; omega
    · cases h

theorem stage1_spec {p : Plan} {start limit : Nat} {xs xs1 : List Exch} {bs0 : List Block}
    (h : stage1 p start limit xs = some (bs0, xs1)) :
    bs0.map (·.num) = List.range' start limit ∧ (∀ x ∈ xs1, x ∈ xs) ∧
      (p.blocks = true ∨ p.headers = true → ∃ es, xs = .headers es :: xs1 ∧ validate start limit es = some bs0) := by
  unfold stage1 at h
  by_cases hp : (p.blocks || p.headers) = true
  · rw [if_pos hp] at h
    split at h
    · rename_i es rest
      cases hv : validate start limit es with
      | none => simp [hv] at h
      | some bs =>
        simp [hv] at h
        obtain ⟨rfl, rfl⟩ := h
        exact ⟨(validate_spec hv).2.2.2.1, fun x hx => List.mem_cons_of_mem _ hx, fun _ => ⟨es, rfl, hv⟩⟩
    · cases h
  · rw [if_neg hp] at h
    simp at h
    obtain ⟨rfl, rfl⟩ := h
    refine ⟨?_, fun x hx => hx, fun hh => ?_⟩
    · simp [List.range'_eq_map_range, Function.comp_def]
    · simp at hp
      rcases hh with hh | hh <;> simp [hh] at hp

theorem stage2_spec {p : Plan} {start limit : Nat} {xs xs2 : List Exch} {bs bs1 : List Block}
    (h : stage2 p start limit bs xs = some (bs1, xs2)) :
    Rel Keep bs bs1 ∧ (∀ x ∈ xs2, x ∈ xs) ∧
      (p.receipts = true → ∃ es, xs = .receipts es :: xs2 ∧ applyReceipts start limit es bs = some bs1) ∧
      (p.receipts = false → p.logs = true →
        ∃ hd l n, xs = .logs hd l n :: xs2 ∧ applyLogs start limit hd l n bs = some bs1) ∧
      (p.receipts = false → p.logs = false → xs2 = xs) := by
  unfold stage2 at h
  by_cases hr : p.receipts = true
  · rw [if_pos hr] at h
    split at h
    · rename_i es rest
      cases hv : applyReceipts start limit es bs with
      | none => simp [hv] at h
      | some bs' =>
        simp [hv] at h
        obtain ⟨rfl, rfl⟩ := h
        exact ⟨(applyReceipts_spec hv).2.1, fun x hx => List.mem_cons_of_mem _ hx, fun _ => ⟨es, rfl, hv⟩,
          fun h' => by simp [hr] at h', fun h' => by simp [hr] at h'⟩
    · cases h
  · rw [if_neg hr] at h
    by_cases hl : p.logs = true
    · rw [if_pos hl] at h
      split at h
      · rename_i hd l n rest
        cases hv : applyLogs start limit hd l n bs with
        | none => simp [hv] at h
        | some bs' =>
          simp [hv] at h
          obtain ⟨rfl, rfl⟩ := h
          obtain ⟨_, _, _, _, _, _, hrel, _⟩ := applyLogs_spec hv
          exact ⟨hrel, fun x hx => List.mem_cons_of_mem _ hx, fun h' => absurd h' hr,
            fun _ _ => ⟨hd, l, n, rfl, hv⟩, fun _ h' => by simp [hl] at h'⟩
      · cases h
    · rw [if_neg hl] at h
      simp at h
      obtain ⟨rfl, rfl⟩ := h
      exact ⟨rel_refl _, fun x hx => hx, fun h' => absurd h' hr, fun _ h' => absurd h' hl, fun _ _ => rfl⟩

/-- in a validated batch the block of a requested number exists, is the only one of that number,
    and is the batch element at its place -/
theorem validate_lookup {start limit : Nat} {es : List (El (Hdr × List Nat))} {bs0 : List Block}
    (hv : validate start limit es = some bs0) {m : Nat} (h1 : start ≤ m) (h2 : m < start + limit) :
    ∃ b ∈ bs0, b.num = m ∧ (∀ b2 ∈ bs0, b2.num = b.num → b2 = b) ∧ es[m - start]? = some (elOf b) := by
  obtain ⟨_, hlen, _, hnum, _, htake⟩ := validate_spec hv
  have hl : bs0.length = limit := by
    have := congrArg List.length hnum
    simpa using this
  have hj : m - start < bs0.length := by omega
  have hb : bs0[m - start]? = some bs0[m - start] := List.getElem?_eq_getElem hj
  have hbn := (num_of_map_range' hnum hb).1
  refine ⟨bs0[m - start], List.getElem_mem hj, by omega, ?_, ?_⟩
  · intro b2 hb2 hn2
    obtain ⟨j2, hj2, rfl⟩ := List.getElem_of_mem hb2
    have h2 := (num_of_map_range' hnum (List.getElem?_eq_getElem hj2)).1
    have : j2 = m - start := by omega
    subst this
    rfl
  · have : (es.take limit)[m - start]? = some (elOf bs0[m - start]) := by rw [htake]; simp [hb]
    rw [List.getElem?_take, if_pos (by omega)] at this
    exact this

/-! ### forward: a non-empty hash that went through `setHash` is the hash of the block afterwards -/

theorem Rel.mem_left {R : Block → Block → Prop} : ∀ {l1 l2}, Rel R l1 l2 → ∀ {a}, a ∈ l1 →
    ∃ b, b ∈ l2 ∧ R a b
  | _, _, .nil, a, h => by simp at h
  | _, _, .cons h1 t, a, h => by
    rcases List.mem_cons.1 h with h | h
    · subst h; exact ⟨_, List.mem_cons_self, h1⟩
    · obtain ⟨b, hb, hr⟩ := Rel.mem_left t h
      exact ⟨b, List.mem_cons_of_mem _ hb, hr⟩

/-- the list holds a block numbered `N` with hash `H` -/
def Has (N : Nat) (H : String) (s : List Block) : Prop := ∃ x ∈ s, x.num = N ∧ x.hash = H

theorem Has.mono {N : Nat} {H : String} {s s' : List Block} (hH : H ≠ "") (hrel : Rel Keep s s')
    (h : Has N H s) : Has N H s' := by
  obtain ⟨x, hx, hn, hh⟩ := h
  obtain ⟨y, hy, hk⟩ := Rel.mem_left hrel hx
  exact ⟨y, hy, hk.1.trans hn, (hk.2.2 (hh ▸ hH)).trans hh⟩

theorem updBlock_mem {n : Nat} {f : Block → Option Block} :
    ∀ {bs bs'}, updBlock bs n f = some bs' → ∃ b b', b ∈ bs ∧ b.num = n ∧ f b = some b' ∧ b' ∈ bs'
  | [], _, h => by simp [updBlock] at h
  | b :: rest, bs', h => by
    unfold updBlock at h
    split at h
    · rename_i hb
      cases hfb : f b with
      | none => simp [hfb] at h
      | some b' =>
        simp [hfb] at h; subst h
        exact ⟨b, b', List.mem_cons_self, by simpa using hb, hfb, List.mem_cons_self⟩
    · cases hu : updBlock rest n f with
      | none => simp [hu] at h
      | some r' =>
        simp [hu] at h; subst h
        obtain ⟨x, x', hx, hn, hfx, hx'⟩ := updBlock_mem hu
        exact ⟨x, x', List.mem_cons_of_mem _ hx, hn, hfx, List.mem_cons_of_mem _ hx'⟩

theorem chain_final_aux {α : Type} (bn : α → Nat) (bh : α → String) (post : α → Block → Block) (n0 : Nat)
    (hpost : ∀ i x, (post i x).num = x.num ∧ (post i x).hash = x.hash ∧ (post i x).parent = x.parent)
    {G : Option Block → α → Option Block}
    (hn : ∀ i, G none i = none)
    (hs : ∀ x i, G (some x) i = if bn i != n0 then none else (setHash x (bh i)).map (post i)) :
    ∀ (l : List α) (x b' : Block), l.foldl G (some x) = some b' →
      Keep x b' ∧ ∀ i ∈ l, bh i ≠ "" → b'.hash = bh i
  | [], x, b', h => by simp at h; subst h; exact ⟨Keep.refl _, by simp⟩
  | i :: l, x, b', h => by
    rw [List.foldl_cons, hs] at h
    by_cases hb : (bn i != n0) = true
    · rw [if_pos hb, foldl_none hn] at h; cases h
    rw [if_neg hb] at h
    cases hsx : setHash x (bh i) with
    | none => rw [hsx] at h; simp [foldl_none hn] at h
    | some y =>
      rw [hsx] at h
      simp only [Option.map_some] at h
      obtain ⟨k, hrest⟩ := chain_final_aux bn bh post n0 hpost hn hs l (post i y) b' h
      obtain ⟨p1, p2, p3⟩ := hpost i y
      have k2 : Keep x (post i y) := Keep.trans _ _ _ (setHash_keep hsx) ⟨p1, p3, fun _ => p2⟩
      refine ⟨Keep.trans _ _ _ k2 k, fun j hj hne => ?_⟩
      rcases List.mem_cons.1 hj with rfl | hj
      · have hy : y.hash = bh j := (setHash_some hsx).2.2.2.2.1 hne
        have : (post j y).hash = bh j := p2.trans hy
        rw [k.2.2 (this ▸ hne), this]
      · exact hrest j hj hne

/-- after the hash checks of one block's items the block has every non-empty hash that was named -/
theorem chain_final {α : Type} (bn : α → Nat) (bh : α → String) (post : α → Block → Block) (n0 : Nat)
    (hpost : ∀ i x, (post i x).num = x.num ∧ (post i x).hash = x.hash ∧ (post i x).parent = x.parent)
    {G : Option Block → α → Option Block} {l : List α} {b b' : Block} {h0 : String}
    (h : l.foldl G (setHash b h0) = some b')
    (hn : ∀ i, G none i = none)
    (hs : ∀ x i, G (some x) i = if bn i != n0 then none else (setHash x (bh i)).map (post i)) :
    b'.num = b.num ∧ (h0 ≠ "" → b'.hash = h0) ∧ ∀ i ∈ l, bh i ≠ "" → b'.hash = bh i := by
  cases hs0 : setHash b h0 with
  | none => rw [hs0, foldl_none hn] at h; cases h
  | some b1 =>
    rw [hs0] at h
    obtain ⟨k, hrest⟩ := chain_final_aux bn bh post n0 hpost hn hs l b1 b' h
    refine ⟨k.1.trans (setHash_some hs0).1, fun hne => ?_, hrest⟩
    have : b1.hash = h0 := (setHash_some hs0).2.2.2.2.1 hne
    rw [k.2.2 (this ▸ hne), this]

theorem applyReceipts_go_final {start : Nat} :
    ∀ (es : List (El (List Rcpt))) (i : Nat) (bs bs' : List Block),
    applyReceipts.go start es i bs = some bs' →
    ∀ (j : Nat) (rs : List Rcpt) (r : Rcpt), es[j]? = some (.val rs) → r ∈ rs → r.bhash ≠ "" →
      Has r.bnum r.bhash bs'
  | [], i, bs, bs', h => by simp
  | .error :: _, _, _, _, h => by simp [applyReceipts.go] at h
  | .null :: _, _, _, _, h => by simp [applyReceipts.go] at h
  | .val [] :: rest, i, bs, bs', h => by
    rw [applyReceipts.go] at h
    have ih := applyReceipts_go_final rest (i + 1) bs bs' h
    intro j rs r hj hr
    cases j with
    | zero => simp at hj; subst hj; cases hr
    | succ j =>
      simp only [List.getElem?_cons_succ] at hj
      exact ih j rs r hj hr
  | .val (r0 :: rs0) :: rest, i, bs, bs', h => by
    rw [applyReceipts.go] at h
    by_cases hnum : (r0.bnum != start + i) = true
    · simp [hnum] at h
    rw [if_neg hnum] at h
    split at h
    · cases h
    rename_i bs1 hu
    have ih := applyReceipts_go_final rest (i + 1) bs1 bs' h
    intro j rs r hj hr hne
    cases j with
    | zero =>
      simp at hj; subst hj
      obtain ⟨b, b', _, hbn, hfb, hb'⟩ := updBlock_mem hu
      have c1 := chain_spec Rcpt.bnum Rcpt.bhash
        (fun r b => withTx b r.tx fun t => { t with logs := r.logs, fromRcpt := true }) r0.bnum
        (fun _ _ => ⟨by simp, by simp, by simp⟩) hfb (fun _ => rfl) (fun _ _ => rfl)
      have c2 := chain_final Rcpt.bnum Rcpt.bhash
        (fun r b => withTx b r.tx fun t => { t with logs := r.logs, fromRcpt := true }) r0.bnum
        (fun _ _ => ⟨by simp, by simp, by simp⟩) hfb (fun _ => rfl) (fun _ _ => rfl)
      have h1 : Has r.bnum r.bhash bs1 :=
        ⟨b', hb', by rw [c2.1, hbn, c1.2.1 r hr], c2.2.2 r hr hne⟩
      exact h1.mono hne (applyReceipts_go_spec bs1 rest (i + 1) bs1 bs' (rel_refl _) h).1
    | succ j =>
      simp only [List.getElem?_cons_succ] at hj
      exact ih j rs r hj hr hne

theorem applyReceipts_final {start limit : Nat} {es : List (El (List Rcpt))} {bs bs' : List Block}
    (h : applyReceipts start limit es bs = some bs') :
    ∀ (j : Nat) (rs : List Rcpt) (r : Rcpt), es[j]? = some (.val rs) → r ∈ rs → r.bhash ≠ "" →
      Has r.bnum r.bhash bs' := by
  unfold applyReceipts at h
  by_cases h1 : es.length < limit
  · simp [h1] at h
  rw [if_neg h1] at h
  split at h
  · cases h
  exact applyReceipts_go_final es 0 bs bs' h

theorem applyTraces_final {want : Nat} {items : List Item} {bs bs' : List Block}
    (h : applyTraces want (.val items) bs = some bs') :
    ∀ i ∈ items, i.bhash ≠ "" → Has i.bnum i.bhash bs' := by
  unfold applyTraces at h
  split at h
  · cases h
  · cases h
  · rename_i heq; cases heq; simp
  rename_i i0 is heq
  cases heq
  by_cases hnum : (i0.bnum != want) = true
  · simp [hnum] at h
  rw [if_neg hnum] at h
  obtain ⟨b, b', _, hbn, hfb, hb'⟩ := updBlock_mem h
  split at hfb
  · cases hfb
  rename_i x hx
  cases hfb
  have c1 := (trace_chain hx (fun _ => rfl) (fun _ _ => rfl)).2.1
  have c2 := chain_final Item.bnum Item.bhash (fun _ b => b) i0.bnum (fun _ _ => ⟨rfl, rfl, rfl⟩) hx
    (fun _ => rfl) (fun x i => by simp only []; split <;> simp)
  obtain ⟨p1, p2, _⟩ := foldl_withTx_fields (fun tx : Nat => tx)
    (fun tx t => { t with traces := ((i0 :: is).filter (·.tx == tx)).length })
    ((i0 :: is).map (·.tx)).eraseDups x
  intro i hi hne
  exact ⟨_, hb', p1.trans (by rw [c2.1, hbn, c1 i hi]), p2.trans (c2.2.2 i hi hne)⟩

/-- forward rule for folds: what a step establishes (`W`) survives the later steps -/
theorem foldl_opt_fwd {α β : Type} {F : Option β → α → Option β} (hn : ∀ i, F none i = none)
    (Inv : β → Prop) (W : α → β → Prop) :
    ∀ (l : List α), (∀ s i s', i ∈ l → Inv s → F (some s) i = some s' → Inv s' ∧ W i s' ∧ ∀ j, W j s → W j s') →
      ∀ s s', Inv s → l.foldl F (some s) = some s' → Inv s' ∧ (∀ j, W j s → W j s') ∧ ∀ i ∈ l, W i s'
  | [], _, s, s', hi, h => by
    simp at h; subst h; exact ⟨hi, fun _ h => h, by simp⟩
  | i :: l, hstep, s, s', hi, h => by
    rw [List.foldl_cons] at h
    cases hF : F (some s) i with
    | none => rw [hF, foldl_none hn] at h; cases h
    | some s1 =>
      rw [hF] at h
      obtain ⟨hi1, hw, hm⟩ := hstep s i s1 List.mem_cons_self hi hF
      obtain ⟨hi', hm', hws⟩ := foldl_opt_fwd hn Inv W l
        (fun s i s' hmem => hstep s i s' (List.mem_cons_of_mem _ hmem)) s1 s' hi1 h
      refine ⟨hi', fun j hj => hm' j (hm j hj), fun j hj => ?_⟩
      rcases List.mem_cons.1 hj with rfl | hj
      · exact hm' _ hw
      · exact hws j hj

theorem applyLogs_final {start limit : Nat} {hd : Hdr} {items : List Item} {n : Nat} {bs bs' : List Block}
    (hok : applyLogs start limit (.val hd) (.val items) n bs = some bs') :
    (hd.hash ≠ "" → (∃ b ∈ bs, b.num = start + limit - 1) → Has (start + limit - 1) hd.hash bs') ∧
      ∀ i ∈ items, i.bhash ≠ "" → Has i.bnum i.bhash bs' := by
  unfold applyLogs at hok
  by_cases hn : (n != 2) = true
  · simp [hn] at hok
  rw [if_neg hn] at hok
  simp only [] at hok
  split at hok
  · cases hok
  rename_i bs1 hbs1
  by_cases hr : (items.any fun i => decide (i.bnum < start) || decide (i.bnum ≥ start + limit)) = true
  · rw [if_pos hr] at hok; cases hok
  rw [if_neg hr] at hok
  have key := foldl_opt_fwd (fun _ => rfl) (fun s => Rel Keep bs1 s)
    (fun (k : Nat × Nat) s => ∀ i ∈ items, (i.bnum, i.tx) = k → i.bhash ≠ "" → Has i.bnum i.bhash s)
    (groupKeys items)
    (by
      intro s k s' _ hinv hF
      simp only [] at hF
      split at hF
      · rename_i hgrp
        cases hF
        refine ⟨hinv, fun i him hk => ?_, fun _ h => h⟩
        have : i ∈ List.filter (fun i => i.bnum == k.fst && i.tx == k.snd) items :=
          List.mem_filter.2 ⟨him, by simp [← hk]⟩
        rw [hgrp] at this
        cases this
      · rename_i i0 tl hgrp
        have hrel : Rel Keep s s' := by
          refine updBlock_rel Keep.refl ?_ hF
          intro x x' hx hf
          split at hf
          · cases hf
          rename_i y hy
          cases hf
          exact Keep.trans _ _ _ (log_chain hy (fun _ => rfl) (fun _ _ => rfl)).1 (withTx_keep _ _ _)
        refine ⟨rel_trans hinv hrel, fun i him hk hne => ?_,
          fun j hj i him hk hne => (hj i him hk hne).mono hne hrel⟩
        obtain ⟨x, x', _, hxn, hfx, hx'⟩ := updBlock_mem hF
        split at hfx
        · cases hfx
        rename_i y hy
        cases hfx
        have c2 := chain_final (fun _ : Item => 0) Item.bhash (fun _ b => b) 0 (fun _ _ => ⟨rfl, rfl, rfl⟩) hy
          (fun _ => rfl) (fun x i => by simp)
        have him' : i ∈ List.filter (fun i => i.bnum == k.fst && i.tx == k.snd) items :=
          List.mem_filter.2 ⟨him, by simp [← hk]⟩
        have hkn : k.1 = i.bnum := by rw [← hk]
        exact ⟨_, hx', by rw [withTx_num, c2.1, hxn, hkn], by rw [withTx_hash]; exact c2.2.2 i him' hne⟩)
    bs1 bs' (rel_refl _) hok
  refine ⟨fun hhd hex => ?_, fun i him hne => ?_⟩
  · obtain ⟨b0, hb0, hn0⟩ := hex
    have hany : (bs.any fun x => x.num == start + limit - 1) = true :=
      List.any_eq_true.2 ⟨b0, hb0, by simp [hn0]⟩
    rw [if_pos hany] at hbs1
    obtain ⟨b, b', _, hbn, hfb, hb'⟩ := updBlock_mem hbs1
    have hs := setHash_some hfb
    exact Has.mono hhd key.1 ⟨b', hb', hs.1.trans hbn, hs.2.2.2.2.1 hhd⟩
  · exact key.2.2 (i.bnum, i.tx) (by simp [groupKeys, List.mem_eraseDups]; exact ⟨i, him, rfl, rfl⟩) i him rfl hne

theorem get_go_final {start limit : Nat} : ∀ (k : Nat) (xs : List Exch) (bs bs' : List Block),
    get.go start limit k xs bs = some bs' →
    ∀ (j : Nat) (items : List Item), j < k → xs[j]? = some (.traces (.val items)) →
      ∀ i ∈ items, i.bhash ≠ "" → Has i.bnum i.bhash bs'
  | 0, xs, bs, bs', h => fun j _ hj => by omega
  | k + 1, xs, bs, bs', h => by
    rw [get.go.eq_def] at h
    simp only [] at h
    split at h
    · rename_i e rest
      split at h
      · cases h
      rename_i bs1 htr
      have ih := get_go_final k rest bs1 bs' h
      intro j its hj hx
      cases j with
      | zero =>
        simp at hx; subst hx
        intro i hi hne
        exact (applyTraces_final htr i hi hne).mono hne (get_go_spec bs1 k rest bs1 bs' (rel_refl _) h).1
      | succ j =>
        simp only [List.getElem?_cons_succ] at hx
        exact ih j its (by omega) hx
    · cases h

/-- in a list numbered consecutively a number names one block -/
theorem Has.unique {s n : Nat} {bs : List Block} (hnum : bs.map (·.num) = List.range' s n) {N : Nat} {H : String}
    (h : Has N H bs) : ∀ b ∈ bs, b.num = N → b.hash = H := by
  obtain ⟨x, hx, hxn, hxh⟩ := h
  intro b hb hbn
  obtain ⟨j1, hj1, rfl⟩ := List.getElem_of_mem hx
  obtain ⟨j2, hj2, rfl⟩ := List.getElem_of_mem hb
  have h1 := (num_of_map_range' hnum (List.getElem?_eq_getElem hj1)).1
  have h2 := (num_of_map_range' hnum (List.getElem?_eq_getElem hj2)).1
  have : j1 = j2 := by omega
  subst this
  exact hxh

theorem exists_of_range' {s n : Nat} {bs : List Block} (hnum : bs.map (·.num) = List.range' s n) {m : Nat}
    (h1 : s ≤ m) (h2 : m < s + n) : ∃ b ∈ bs, b.num = m := by
  have hl : bs.length = n := by simpa using congrArg List.length hnum
  have hj : m - s < bs.length := by omega
  have := (num_of_map_range' hnum (List.getElem?_eq_getElem hj)).1
  exact ⟨bs[m - s], List.getElem_mem hj, by omega⟩

end Shovel.Rpc
