import Shovel
/-
  Line-protocol driver: one operation per input line, one result line per operation.
  Core Lean only, so it is built as the native executable `driver`.
-/
open Shovel

def hexArg (s : String) : Option (List Nat) :=
  if s == "-" then some [] else bytesOfHex? s

def showHex (bs : List Nat) : String := if bs.isEmpty then "-" else hexOfBytes bs

def showResNat : Res Nat → String
  | .ok n => s!"ok {n}"
  | r => r.tag

def showResBytes : Res (List Nat) → String
  | .ok b => s!"ok {showHex b}"
  | r => r.tag

def showRow (b : Abi.Buf) (r : Abi.Row) : String :=
  ",".intercalate (r.map fun c => match c with
    | some (lo, hi) => showHex ((b.data.take hi).drop lo)
    | none => "-")

def showRows (b : Abi.Buf) (rs : List Abi.Row) : String := ";".intercalate (rs.map (showRow b))

/-- run a sequence of inputs through ONE `Result` (reuse) -/
def scanSeq (t : Abi.Ty) (capx : Nat) : Abi.St → List String → List String
  | _, [] => []
  | s, h :: rest =>
    match hexArg h with
    | none => ["bad-op"]
    | some d =>
      let b : Abi.Buf := { data := d, cap := d.length + capx }
      match Abi.resultScan b t s with
      | .ok s' => ("ok " ++ showRows b s'.rows) :: scanSeq t capx s' rest
      | r => r.tag :: scanSeq t capx s rest

def step (line : String) : String :=
  match (line.splitOn " ").filter (· ≠ "") with
  | ["abitype", desc] =>
    match Abi.parseDesc desc with
    | none => "bad-op"
    | some is => match Abi.eventAbiType is with
      | .ok t => "ok " ++ t.show
      | r => r.tag
  | "scanseq" :: desc :: capx :: inputs =>
    match Abi.parseDesc desc, capx.toNat? with
    | some is, some cx => match Abi.eventAbiType is with
      | .ok t => " | ".intercalate (scanSeq t cx (Abi.newResult t) inputs)
      | r => r.tag
    | _, _ => "bad-op"
  | ["enc", desc, vdesc] =>
    -- specification side: ABI-encode a value and state the rows the row rule demands
    match Abi.parseDesc desc, Abi.parseValDesc vdesc with
    | some is, some v => match Abi.eventAbiType is with
      | .ok t =>
        if !Abi.WellTyped t v then "ill-typed"
        else
          let rows := Abi.rowsOf t v
          let showCell (c : Option (List Nat)) : String := match c with | some b => showHex b | none => "-"
          s!"ok {showHex (Abi.enc t v)} {if t.inDomain then "dom" else "nodom"} " ++
            ";".intercalate (rows.map fun r => ",".intercalate (r.map showCell))
      | r => r.tag
    | _, _ => "bad-op"
  | ["c10rows", desc, len, rows] =>
    -- oracle: the number of result rows is within the proved bound for this declaration and data size
    match Abi.parseDesc desc, len.toNat?, rows.toNat? with
    | some is, some n, some k => match Abi.eventAbiType is with
      | .ok t =>
        let bound := max 1 (t.rowBound (n / 32))
        if k ≤ bound then "ok" else s!"viol rows={k} exceed bound={bound} for {n} bytes"
      | r => r.tag
    | _, _, _ => "bad-op"
  | ["planflags", fields] =>
    let fs := if fields == "-" then [] else fields.splitOn ","
    let flags := Plan.plan fs
    let shown := ["UseHeaders", "UseBlocks", "UseReceipts", "UseLogs", "UseTraces"].filter flags.contains
    if shown.isEmpty then "-" else ",".intercalate shown
  | ["plan", fields] =>
    let fs := if fields == "-" then [] else fields.splitOn ","
    let flags := Plan.plan fs
    let order := ["UseHeaders", "UseBlocks", "UseReceipts", "UseLogs", "UseTraces"]
    let shown := order.filter flags.contains
    let unsupplied := (fs.filter fun f => Plan.knownFields.contains f && !Plan.suppliedBy flags f)
    (if shown.isEmpty then "-" else ",".intercalate shown) ++ " unsupplied=" ++
      (if unsupplied.isEmpty then "-" else ",".intercalate unsupplied)
  | ["sig", name, desc] =>
    match Abi.parseDesc desc with
    | none => "bad-op"
    | some is => String.ofList (Abi.eventSignature (if name == "-" then [] else name.toList) is)
  | ["u64", tok] =>
    match hexArg tok with
    | some t => showResNat (Codec.uint64Unmarshal t)
    | none => "bad-op"
  | ["bytes", old, tok] =>
    match hexArg old, hexArg tok with
    | some o, some t => showResBytes (Codec.bytesUnmarshal o t)
    | _, _ => "bad-op"
  | ["bwrite", old, p] =>
    match hexArg old, hexArg p with
    | some o, some p => showHex (Codec.bytesWrite o p)
    | _, _ => "bad-op"
  | ["benc", pad, n] =>
    match pad.toInt?, n.toNat? with
    | some pad, some n =>
      showResBytes (Codec.encode (if pad < 0 then none else some (List.replicate pad.toNat 0)) n)
    | _, _ => "bad-op"
  | ["bdec", b] =>
    match hexArg b with
    | some b => toString (Codec.bdecode b)
    | none => "bad-op"
  | _ => "bad-op"

partial def loop (h : IO.FS.Stream) (out : IO.FS.Stream) : IO Unit := do
  let line ← h.getLine
  if line.isEmpty then return ()
  out.putStrLn (step line.trimAscii.toString)
  loop h out

def main : IO Unit := do
  let out ← IO.getStdout
  loop (← IO.getStdin) out
  out.flush
