import Shovel
/-
  Line-protocol driver: one operation per input line, one result line per operation.
  Core Lean only, so it is built as the native executable `driver`.
-/
open Shovel

def hexArg (s : String) : Option (List Nat) :=
  if s == "-" then some [] else bytesOfHex? s

def showHex (bs : List Nat) : String := if bs.isEmpty then "-" else hexOfBytes bs

def showResNat : Res Nat → String
  | .ok n => s!"ok {n}"
  | r => r.tag

def showResBytes : Res (List Nat) → String
  | .ok b => s!"ok {showHex b}"
  | r => r.tag

def showRow (b : Abi.Buf) (r : Abi.Row) : String :=
  ",".intercalate (r.map fun c => match c with
    | some (lo, hi) => showHex ((b.data.take hi).drop lo)
    | none => "-")

def showRows (b : Abi.Buf) (rs : List Abi.Row) : String := ";".intercalate (rs.map (showRow b))

/-- run a sequence of inputs through ONE `Result` (reuse) -/
def scanSeq (t : Abi.Ty) (capx : Nat) : Abi.St → List String → List String
  | _, [] => []
  | s, h :: rest =>
    match hexArg h with
    | none => ["bad-op"]
    | some d =>
      let b : Abi.Buf := { data := d, cap := d.length + capx }
      match Abi.resultScan b t s with
      | .ok s' => ("ok " ++ showRows b s'.rows) :: scanSeq t capx s' rest
      | r => r.tag :: scanSeq t capx s rest

def splitList (s : String) (sep : String) : List String := if s == "_" then [] else s.splitOn sep

def pad12 (n : Nat) : String :=
  let d := toString n
  String.ofList (List.replicate (12 - d.length) '0') ++ d

def sortStrings (xs : List String) : List String :=
  let ins (x : String) : List String → List String :=
    fun l => (l.takeWhile (· < x)) ++ x :: (l.dropWhile (· < x))
  xs.foldl (fun acc x => ins x acc) []


/-! ### RPC client ops (C07) -/

def parseEl {α} (s : String) (f : String → Option α) : Option (Rpc.El α) :=
  if s == "E" then some .error else if s == "N" then some .null
  else (f s).map .val

def parseHdrEl (s : String) : Option (Rpc.El (Rpc.Hdr × List Nat)) :=
  parseEl s fun s => match s.splitOn ":" with
    | [_, n, h, p, txs] => n.toNat?.map fun n =>
        ({ num := n, hash := h, parent := p }, (splitList txs ",").filterMap (·.toNat?))
    | _ => none

def parseItems (s : String) : List Rpc.Item :=
  (splitList s ";").filterMap fun e => match e.splitOn "/" with
    | [b, h, t, i] => match b.toNat?, t.toNat?, i.toNat? with
      | some b, some t, some i => some { bnum := b, bhash := h, tx := t, idx := i }
      | _, _, _ => none
    | _ => none

def parseRcpts (s : String) : List Rpc.Rcpt :=
  (splitList s ";").filterMap fun e => match e.splitOn "/" with
    | [b, h, t, ls] => match b.toNat?, t.toNat? with
      | some b, some t => some { bnum := b, bhash := h, tx := t, logs := (splitList ls ".").filterMap (·.toNat?) }
      | _, _ => none
    | _ => none

/-- one exchange: `X` | `H=el,el` | `R=el|el` | `L=hdrEl|logsEl|n` | `T=el` -/
def parseExch (s : String) : Option Rpc.Exch :=
  if s == "X" then some .fail
  else match s.splitOn "=" with
  | ["H", body] => ((splitList body "|").mapM parseHdrEl).map .headers
  | ["R", body] => ((splitList body "|").mapM fun e => parseEl e fun x => some (parseRcpts (x.drop 2).toString)).map .receipts
  | ["L", body] => match body.splitOn "|" with
    | [h, l, n] =>
      match parseEl h (fun s => match s.splitOn ":" with
          | [_, n, hh, p, _] => n.toNat?.map fun n => ({ num := n, hash := hh, parent := p } : Rpc.Hdr)
          | _ => none),
        parseEl l (fun x => some (parseItems (x.drop 2).toString)), n.toNat? with
      | some h, some l, some n => some (.logs h l n)
      | _, _, _ => none
    | _ => none
  | ["T", body] => (parseEl body fun x => some (parseItems (x.drop 2).toString)).map .traces
  | _ => none

def showBlocks (bs : List Rpc.Block) : String :=
  "|".intercalate (bs.map fun b =>
    let txs := sortStrings (b.txs.map fun t => s!"{pad12 t.idx}:" ++ ".".intercalate (t.logs.map toString) ++ s!":{t.traces}")
    s!"{b.num}/{b.hash}/{b.parent}/" ++ ",".intercalate txs)


/-! ### row builder ops -/

def parseFilter (s : String) : Row.Filter :=
  if s == "-" then {}
  else
    let parts := s.splitOn "|"
    let op := match parts with | o :: _ => (if o == "~" then "" else o) | [] => ""
    let rest := parts.drop 1
    let refp := rest.find? (·.startsWith "@")
    let args := rest.filter fun a => !a.startsWith "@"
    match refp with
    | some r =>
      match ((r.drop 1).toString.splitOn ".") with
      | [t, c, i] => { op := op, args := args, refTable := (if t == "~" then "" else t), refCol := c, refInteg := i }
      | _ => { op := op, args := args }
    | none => { op := op, args := args }


def parseDVal (s : String) : Row.DVal :=
  match s.splitOn ":" with
  | ["x", h] => .bytes ((hexArg (if h == "" then "-" else h)).getD [])
  | ["s", h] => .str ((hexArg (if h == "" then "-" else h)).getD [])
  | ["n", d] => .u64 (d.toNat?.getD 0)
  | ["u", d] => .u256 (d.toNat?.getD 0)
  | ["y", d] => .byte (d.toNat?.getD 0)
  | _ => .null

def showDVal : Row.DVal → String
  | .bytes b => "x:" ++ hexOfBytes b
  | .str b => "s:" ++ hexOfBytes b
  | .u64 n => s!"n:{n}"
  | .u256 n => s!"n:{n}"
  | .neg n => s!"n:{n}"
  | .bool b => s!"b:{b}"
  | .byte n => s!"n:{n}"
  | .int n => s!"n:{n}"
  | .null => "nil"

def showDRows (rs : List (List Row.DVal)) : String :=
  if rs.isEmpty then "ok" else "ok " ++ ";".intercalate (rs.map fun r => ",".intercalate (r.map showDVal))

def parseDecl (agg desc ifl bsp sh : String) : Option Row.Decl :=
  match Abi.parseDesc desc with
  | none => none
  | some is =>
    some { inputs := is, inputFilters := (splitList ifl ";").map parseFilter,
           block := (splitList bsp ";").map (fun e => match e.splitOn "=" with
             | [n, f] => (n, parseFilter f)
             | _ => (e, {})),
           agg := (if agg == "-" then "" else agg), sighash := (hexArg sh).getD [] }

def parseRefs (s : String) : Row.Refs :=
  (splitList s ";").filterMap fun e => match e.splitOn "=" with
    | [tc, vs] => match tc.splitOn "." with
      | [t, c] => some (t, c, (splitList vs ",").map fun h => (hexArg h).getD [])
      | _ => none
    | _ => none

def parseCtx (s : String) : Row.Ctx :=
  (splitList s ";").filterMap fun e => match e.splitOn "=" with
    | [n, v] => some (n, parseDVal v)
    | _ => none


/-! ### whole-batch row builder ops (Model/Insert, Spec/Insert)
    batch := block `!` block …      block := ctx `~` tx `^` tx …      tx := ctx `&` log `+` log … `&` trace `+` trace …
    log := ctx `%` topics `%` payload `%` cap      payload := `V@`vdesc | `R@`hex      (`_` = empty list) -/

def parseALog (s : String) : Option Shovel.Insert.ALog :=
  match s.splitOn "%" with
  | [c, tops, pl, cap] =>
    let topics := (splitList tops ",").map (fun h => (hexArg h).getD [])
    let payload : Option Shovel.Insert.Payload :=
      match pl.splitOn "@" with
      | ["V", vd] => (Abi.parseValDesc vd).map fun v => .enc v []
      | ["R", h] => (hexArg h).map .raw
      | _ => none
    match payload, cap.toNat? with
    | some p, some k => some { fields := parseCtx c, topics := topics, payload := p, cap := k }
    | _, _ => none
  | _ => none

def parseATx (s : String) : Option Shovel.Insert.ATx :=
  match s.splitOn "&" with
  | [c, ls, ts] =>
    ((splitList ls "+").mapM parseALog).map fun logs =>
      { fields := parseCtx c, logs := logs, traces := (splitList ts "+").map parseCtx }
  | _ => none

def parseABlock (s : String) : Option Shovel.Insert.ABlock :=
  match s.splitOn "~" with
  | [c, txs] => ((splitList txs "^").mapM parseATx).map fun ts => { fields := parseCtx c, txs := ts }
  | _ => none

def parseMode (s : String) : Option Shovel.Insert.Mode :=
  if s == "tx" then some .tx else if s == "trace" then some .trace else if s == "log" then some .log else none

/-- capacity: the harness gives the real slice's capacity; never below the length -/
def fixCaps (ty : Abi.Ty) (bs : List Shovel.Insert.ABlock) : List Shovel.Insert.ABlock :=
  bs.map fun b => { b with txs := b.txs.map fun t => { t with logs := t.logs.map fun l =>
    { l with cap := max l.cap (l.data ty).length } } }

def step (line : String) : String :=
  match (line.splitOn " ").filter (· ≠ "") with
  | ["abitype", desc] =>
    match Abi.parseDesc desc with
    | none => "bad-op"
    | some is => match Abi.eventAbiType is with
      | .ok t => "ok " ++ t.show
      | r => r.tag
  | "scanseq" :: desc :: capx :: inputs =>
    match Abi.parseDesc desc, capx.toNat? with
    | some is, some cx => match Abi.eventAbiType is with
      | .ok t => " | ".intercalate (scanSeq t cx (Abi.newResult t) inputs)
      | r => r.tag
    | _, _ => "bad-op"
  | ["enc", desc, vdesc] =>
    -- specification side: ABI-encode a value and state the rows the row rule demands
    match Abi.parseDesc desc, Abi.parseValDesc vdesc with
    | some is, some v => match Abi.eventAbiType is with
      | .ok t =>
        if !Abi.WellTyped t v then "ill-typed"
        else
          let rows := Abi.rowsOf t v
          let showCell (c : Option (List Nat)) : String := match c with | some b => showHex b | none => "-"
          s!"ok {showHex (Abi.enc t v)} {if t.inDomain then "dom" else "nodom"} " ++
            ";".intercalate (rows.map fun r => ",".intercalate (r.map showCell))
      | r => r.tag
    | _, _ => "bad-op"
  | ["c10rows", desc, len, rows] =>
    -- oracle: the number of result rows is within the proved bound for this declaration and data size
    match Abi.parseDesc desc, len.toNat?, rows.toNat? with
    | some is, some n, some k => match Abi.eventAbiType is with
      | .ok t =>
        let bound := max 1 (t.rowBound (n / 32))
        if k ≤ bound then "ok" else s!"viol rows={k} exceed bound={bound} for {n} bytes"
      | r => r.tag
    | _, _, _ => "bad-op"
  | ["plog", agg, desc, ifl, bsp, sh, refs, topics, data, ctx] =>
    match parseDecl agg desc ifl bsp sh, hexArg data with
    | some d, some dat =>
      let lg : Row.Log := { topics := (splitList topics ",").map (fun h => (hexArg h).getD []), data := dat }
      let scanRows : Res (List (List (Option (List Nat)))) :=
        match Abi.eventAbiType d.inputs with
        | .ok t =>
          let b : Abi.Buf := { data := dat, cap := dat.length }
          (match Abi.resultScan b t (Abi.newResult t) with
           | .ok s' => .ok (s'.rows.map fun row => row.map fun c => c.map fun (lo, hi) => (b.data.take hi).drop lo)
           | .err => .err | .panic => .panic | .overread => .overread)
        | .err => .err | .panic => .panic | .overread => .overread
      match Row.processLog (parseRefs refs) d (parseCtx ctx) lg scanRows with
      | .ok rows => showDRows rows
      | r => r.tag
    | _, _ => "bad-op"
  | ["plogspec", agg, desc, ifl, bsp, sh, refs, topics, vdesc, ctx, impl] =>
    -- oracle: the rows the Lean Spec demands for this log vs what the implementation produced
    match parseDecl agg desc ifl bsp sh, Abi.parseValDesc vdesc with
    | some d, some v =>
      match Abi.eventAbiType d.inputs with
      | .ok t =>
        let dat := Abi.enc t v
        let lg : Row.Log := { topics := (splitList topics ",").map (fun h => (hexArg h).getD []), data := dat }
        if !Abi.WellTyped t v || !t.inDomain then "ok"
        else match Row.specRows (parseRefs refs) d (parseCtx ctx) lg t (if dat.isEmpty then none else some v) with
          | .unspecified => "ok"
          | .rows rs =>
            let want := (showDRows rs).replace " " "#"
            if want == impl then "ok" else s!"viol spec demands {want}"
      | _ => "ok"
    | _, _ => "bad-op"
  | ["ptx", agg, bsp, refs, ctx] =>
    match parseDecl agg "0" "_" bsp "-" with
    | some d => match Row.processTx (parseRefs refs) d (parseCtx ctx) with
      | .ok rows => showDRows rows
      | r => r.tag
    | none => "bad-op"
  | ["ptxspec", agg, bsp, refs, ctx, impl] =>
    -- oracle: the rows the Lean Spec demands for this transaction / trace action vs what the implementation produced
    match parseDecl agg "0" "_" bsp "-" with
    | some d => match Row.specTxRows (parseRefs refs) d (parseCtx ctx) with
      | .unspecified => "ok"
      | .rows rs =>
        let want := (showDRows rs).replace " " "#"
        if want == impl then "ok" else s!"viol spec demands {want}"
    | none => "bad-op"
  | ["pushaddrs", agg, desc, ifl, bsp] =>
    match parseDecl agg desc ifl bsp "-" with
    | some d =>
      let as := Row.pushedAddrs d
      if as.isEmpty then "-" else ",".intercalate (as.map hexOfBytes)
    | none => "bad-op"
  | ["insertb", mode, agg, desc, ifl, bsp, sh, refs, base, nprev, batch] =>
    -- model side: Integration.Insert on a batch, on a decoder that has already served `nprev` copies of the batch
    match parseMode mode, parseDecl agg desc ifl bsp sh, (splitList batch "!").mapM parseABlock, nprev.toNat? with
    | some m, some d, some bs, some k =>
      match Abi.eventAbiType d.inputs with
      | .ok ty =>
        let bs := fixCaps ty bs
        let es := bs.map (Shovel.Insert.ABlock.toE ty)
        let rec warm : Nat → Abi.St → Abi.St
          | 0, s => s
          | n + 1, s => match Shovel.Insert.insert (parseRefs refs) d ty m (parseCtx base) es s with
            | .ok (_, s') => warm n s'
            | _ => warm n s
        match Shovel.Insert.insert (parseRefs refs) d ty m (parseCtx base) es (warm k (Abi.newResult ty)) with
        | .ok (rows, _) => showDRows rows
        | r => r.tag
      | r => r.tag
    | _, _, _, _ => "bad-op"
  | ["insertbspec", mode, agg, desc, ifl, bsp, sh, refs, base, batch, impl] =>
    -- oracle: the rows the Lean Spec demands for the whole batch vs what the implementation handed to COPY
    match parseMode mode, parseDecl agg desc ifl bsp sh, (splitList batch "!").mapM parseABlock with
    | some m, some d, some bs =>
      match Abi.eventAbiType d.inputs with
      | .ok ty =>
        if !ty.inDomain then "ok"
        else
          let bs := fixCaps ty bs
          let wt := bs.all fun b => b.txs.all fun t => t.logs.all fun l =>
            match l.payload with
            | .enc v _ => Abi.WellTyped ty v && !(Abi.enc ty v).isEmpty
            | .raw r => r.isEmpty || !Shovel.Insert.isDeclared d l
          if !wt then "ok"
          else match Shovel.Insert.specInsert (parseRefs refs) d ty m (parseCtx base) bs with
            | none => "ok"
            | some rs =>
              let want := (showDRows rs).replace " " "#"
              if want == impl then "ok" else s!"viol spec demands {want}"
      | _ => "ok"
    | _, _, _ => "bad-op"
  | "rpcget" :: plan :: start :: limit :: xs =>
    match start.toNat?, limit.toNat?, xs.mapM parseExch with
    | some st, some lim, some xs =>
      let p : Rpc.Plan := { blocks := plan.contains 'b', headers := plan.contains 'h', receipts := plan.contains 'r',
                            logs := plan.contains 'l', traces := plan.contains 't' }
      match Rpc.get p st lim xs with
      | some bs => "ok " ++ showBlocks bs
      | none => "err"
    | _, _, _ => "bad-op"
  | ["decu64", h] =>
    -- eth.DecodeUint64 on the string whose bytes are given in hex
    match hexArg h with
    | some bs => showResNat (Codec.decodeUint64 bs)
    | none => "bad-op"
  | ["encu64", d] =>
    -- eth.EncodeUint64
    match d.toNat? with
    | some n => "ok " ++ String.ofList ((Codec.encodeUint64 n).map Char.ofNat)
    | none => "bad-op"
  | ["dechex", h] =>
    -- eth.DecodeHex on the string whose bytes are given in hex
    match hexArg h with
    | some bs => "ok " ++ showHex (Row.decodeHexStr (String.ofList (bs.map Char.ofNat)))
    | none => "bad-op"
  | ["envu64", d, env] =>
    -- wos.EnvUint64.UnmarshalJSON on the JSON token `d` (bytes in hex); `env` = value of the named variable
    match hexArg d, hexArg env with
    | some db, some eb =>
      match EnvNum.envUint64 eb db with
      | .ok n => s!"ok {n}"
      | .err => "err"
      | .exit => "exit"
    | _, _ => "bad-op"
  | ["safe", h] =>
    match hexArg h with
    | some bs => if Safe.safe (fun _ => false) bs then "ok" else "err"
    | none => "bad-op"
  | ["authn", d, e, lb, ck] =>
    let cfg : Auth.Cfg := { disableAuthn := d == "1", enableLoopbackAuthn := e == "1" }
    let c : Auth.Cookie := if ck == "mine" then .minted 1 else if ck == "other" then .minted 2
      else if ck == "garbage" then .garbage else .none
    match Auth.authn cfg 1 (lb == "1") c with
    | .served => "served"
    | .redirectLogin => "redirect-login"
  | ["login", m, ok] =>
    match Auth.login 1 m (ok == "1") with
    | .page => "page"
    | .issued _ => "issued"
    | .unauthorized => "unauthorized"
    | .badMethod => "bad-method"
  | ["c16fix", sel, blk, cols] =>
    -- AddRequiredFields + AddUniqueIndex on (selected inputs, block fields, table columns)
    let pairs (x : String) : List (String × String) := (splitList x ",").filterMap fun e =>
      match e.splitOn ":" with | [a, b] => some (a, b) | _ => none
    let ig : Schema.Ig := { block := pairs blk, cols := splitList cols ",",
                            selInputs := (pairs sel).map fun p => (p.1 == "i", p.2) }
    let ig' := Schema.addUnique (Schema.addRequired ig)
    ",".intercalate (ig'.block.map (·.1)) ++ " | " ++ ",".intercalate ig'.cols ++ " | " ++
      ";".intercalate (ig'.unique.map (",".intercalate ·)) ++ " | " ++ toString (Schema.colRefsOK ig')
  | ["logsadd", init, adds] =>
    -- eth.Logs.Add: attach logs (by index) to a transaction already holding `init`
    let ns (x : String) : List Nat := (splitList x ",").filterMap (·.toNat?)
    let out := (ns adds).foldl Cache.addLog (ns init)
    "ok " ++ ",".intercalate (out.map toString)
  | ["cfgdeps", cfg] =>
    -- ig = name/table/col,col/ref+ref/ref+ref   ref = integration:column:table  ("~" = empty string)
    let un (x : String) : String := if x == "~" then "" else x
    let parseRef (r : String) : Option Deps.Ref :=
      match r.splitOn ":" with
      | [i, c, t] => some { integration := un i, column := un c, table := un t }
      | _ => none
    let parseIg (e : String) : Option Deps.Ig :=
      match e.splitOn "/" with
      | [n, t, cols, ir, br] =>
        some { name := n, table := t, columns := splitList cols ",",
               inputRefs := (splitList ir "+").filterMap parseRef, blockRefs := (splitList br "+").filterMap parseRef }
      | _ => none
    let igs := (splitList cfg ";").filterMap parseIg
    if igs.length != (splitList cfg ";").length then "bad-op" else
    match Deps.validate igs with
    | none => "reject"
    | some out => "ok " ++ ";".intercalate (out.map fun (n, d) => n ++ "=" ++ ",".intercalate d)
  | ["loadtasks", fi, di, fs, ds] =>
    let parseRef (r : String) : Option Manager.SrcRef :=
      match r.splitOn ":" with
      | [sn, a, b] =>
        match a.toNat?, b.toNat? with
        | some a, some b => some { name := sn, start := a, stop := b }
        | _, _ => none
      | _ => none
    let parseIg (e : String) : Option Manager.IgCfg :=
      match e.splitOn "/" with
      | [n, en, refs] =>
        let rs := (splitList refs "+").filterMap parseRef
        some { name := n, enabled := en == "1", sources := rs }
      | _ => none
    let parseSrc (e : String) : Option Manager.SrcCfg :=
      match e.splitOn "/" with
      | [n, c, b, cc, p] =>
        match c.toNat?, b.toNat?, cc.toNat?, p.toNat? with
        | some c, some b, some cc, some p => some { name := n, chainId := c, batch := b, conc := cc, poll := p }
        | _, _, _, _ => none
      | _ => none
    let igs (x : String) : List Manager.IgCfg := (splitList x ";").filterMap parseIg
    let srcs (x : String) : List Manager.SrcCfg := (splitList x ";").filterMap parseSrc
    match Manager.loadTasks (igs fi) (igs di) (srcs fs) (srcs ds) with
    | none => "err"
    | some ts => "ok " ++ ",".intercalate (sortStrings (ts.map fun t =>
        s!"{t.src}/{t.ig}/{t.start}/{t.stop}/{t.batch}/{t.conc}/{t.poll}/{t.chainId}"))
  | ["planflags", fields] =>
    let fs := if fields == "-" then [] else fields.splitOn ","
    let flags := Plan.plan fs
    let shown := ["UseHeaders", "UseBlocks", "UseReceipts", "UseLogs", "UseTraces"].filter flags.contains
    if shown.isEmpty then "-" else ",".intercalate shown
  | ["plan", fields] =>
    let fs := if fields == "-" then [] else fields.splitOn ","
    let flags := Plan.plan fs
    let order := ["UseHeaders", "UseBlocks", "UseReceipts", "UseLogs", "UseTraces"]
    let shown := order.filter flags.contains
    let unsupplied := (fs.filter fun f => Plan.knownFields.contains f && !Plan.suppliedBy flags f)
    (if shown.isEmpty then "-" else ",".intercalate shown) ++ " unsupplied=" ++
      (if unsupplied.isEmpty then "-" else ",".intercalate unsupplied)
  | ["sig", name, desc] =>
    match Abi.parseDesc desc with
    | none => "bad-op"
    | some is => String.ofList (Abi.eventSignature (if name == "-" then [] else name.toList) is)
  | ["u64", tok] =>
    match hexArg tok with
    | some t => showResNat (Codec.uint64Unmarshal t)
    | none => "bad-op"
  | ["bytes", old, tok] =>
    match hexArg old, hexArg tok with
    | some o, some t => showResBytes (Codec.bytesUnmarshal o t)
    | _, _ => "bad-op"
  | ["bwrite", old, p] =>
    match hexArg old, hexArg p with
    | some o, some p => showHex (Codec.bytesWrite o p)
    | _, _ => "bad-op"
  | ["benc", pad, n] =>
    match pad.toInt?, n.toNat? with
    | some pad, some n =>
      showResBytes (Codec.encode (if pad < 0 then none else some (List.replicate pad.toNat 0)) n)
    | _, _ => "bad-op"
  | ["bdec", b] =>
    match hexArg b with
    | some b => toString (Codec.bdecode b)
    | none => "bad-op"
  | _ => "bad-op"

/-! ### World session (stateful ops) -/

structure DState where
  cache : Cache.Cache := { maxreads := 0 }
  head : Cache.Head := { maxreads := 0 }
  db : World.DB := {}
  tasks : List (String × World.Task) := []
  saved : List (String × World.DB) := []

def dbDigest (db : World.DB) : String :=
  let cs := sortStrings (db.cur.map fun c => s!"{c.src}/{c.ig}/{pad12 c.num}/{c.hash}")
  let rs := sortStrings (db.rows.map fun r => s!"{r.table}/{r.src}/{r.ig}/{pad12 r.blk}/{r.key}/{r.pay}")
  "C[" ++ ",".intercalate cs ++ "] R[" ++ ",".intercalate rs ++ "]"

def parseBlk (s : String) : Option World.Blk :=
  match s.splitOn "/" with
  | [n, h, p, rows] =>
    n.toNat?.map fun n =>
      { num := n, hash := h, parent := (if p == "-" then "" else p),
        rows := (if rows == "" then [] else (rows.splitOn "+").map fun r =>
          match r.splitOn "~" with
          | [k, v] => (k, v)
          | _ => (r, "")) }
  | _ => none

def parseScript (l h g : String) : World.Script :=
  let lat := (splitList l ",").map fun a =>
    if a == "!" then none else match a.splitOn ":" with
      | [n, hh] => n.toNat?.map fun n => (n, hh)
      | _ => none
  let hs := (splitList h ",").filterMap fun a =>
    match a.splitOn "=" with
    | [n, v] => n.toNat?.map fun n => (n, if v == "!" then none else some v)
    | _ => none
  let gs := (splitList g ";").filterMap fun e =>
    match e.splitOn "=" with
    | [key, body] =>
      match key.splitOn ":" with
      | [a, b] =>
        match a.toNat?, b.toNat? with
        | some a, some b =>
          if body == "!" then some ((a, b), none)
          else some ((a, b), some ((splitList body "|").filterMap parseBlk))
        | _, _ => none
      | _ => none
    | _ => none
  { latest := lat, hash := hs, gets := gs }

def parsePos (s : String) : Option World.Pos :=
  match s.splitOn "#" with
  | ["begin1"] => some .begin1
  | ["commit1"] => some .commit1
  | ["begin2"] => some .begin2
  | ["insert"] => some .insert
  | ["update"] => some .update
  | ["commit2"] => some .commit2
  | ["qlatest", k] => k.toNat?.map .qlatest
  | ["qdeps", k] => k.toNat?.map .qdeps
  | ["delcur", k] => k.toNat?.map .delcur
  | ["qprev", k] => k.toNat?.map .qprev
  | ["delrows", k] => k.toNat?.map .delrows
  | _ => none

def showOutcome : World.Outcome → String
  | .ok n => s!"ok {n}"
  | .done => "done"
  | .nothingNew => "nothing-new"
  | .ahead => "ahead"
  | .reorgLimit => "reorg-limit"
  | .err => "err"
  | .panic => "panic"

def stepS (st : DState) (line : String) : DState × String :=
  match (line.splitOn " ").filter (· ≠ "") with
  | ["c-init", m] =>
    match m.toNat? with
    | some m => ({ st with cache := { maxreads := m } }, "ok")
    | none => (st, "bad-op")
  | ["c-get", a, b, f] =>
    match a.toNat?, b.toNat? with
    | some a, some b =>
      let fetch := if f == "!" then none else f.toNat?
      let (c, out) := st.cache.get (a, b) fetch
      let dump := sortStrings (c.map.map fun e =>
        let sg := c.seg e.2
        s!"{pad12 e.1.1}:{e.1.2}:{sg.nreads}:{sg.done}")
      let o := match out with
        | .hit d => s!"hit {d}"
        | .fetched d => s!"fetched {d}"
        | .err => "err"
      ({ st with cache := c }, o ++ " [" ++ ",".intercalate dump ++ "]")
    | _, _ => (st, "bad-op")
  | ["c-getc", a, b, f] =>
    -- class only (hit / fetched / err): used where the harness observes the real client from outside
    match a.toNat?, b.toNat? with
    | some a, some b =>
      let (c, out) := st.cache.get (a, b) (if f == "!" then none else f.toNat?)
      ({ st with cache := c }, match out with | .hit _ => "hit" | .fetched _ => "fetched" | .err => "err")
    | _, _ => (st, "bad-op")
  | ["h-init", m] =>
    match m.toNat? with
    | some m => ({ st with head := { maxreads := m } }, "ok")
    | none => (st, "bad-op")
  | ["h-update", n, h] =>
    match n.toNat? with
    | some n =>
      let hd := st.head.update n h
      ({ st with head := hd }, s!"{hd.num} {hd.hash} {hd.nreads} {hd.err}")
    | none => (st, "bad-op")
  | ["h-error"] =>
    let hd := st.head.error
    ({ st with head := hd }, s!"{hd.num} {hd.hash} {hd.nreads} {hd.err}")
  | ["h-get", n] =>
    match n.toNat? with
    | some n =>
      let (hd, r) := st.head.get n
      let o := match r with
        | some (m, h) => s!"hit {m} {h}"
        | none => "miss"
      ({ st with head := hd }, o ++ s!" | {hd.num} {hd.hash} {hd.nreads} {hd.err}")
    | none => (st, "bad-op")
  | ["w-init"] => ({ st with db := {}, tasks := [], saved := [] }, "ok")
  | ["w-others", id] =>
    -- digest of everything that does NOT belong to task `id` (frame check, C04)
    match st.tasks.find? (·.1 == id) with
    | some (_, t) =>
      (st, dbDigest { cur := st.db.cur.filter (fun x => !World.mineC t x), rows := st.db.rows.filter (fun x => !World.mine t x) })
    | none => (st, "bad-op")
  | ["w-task", id, src, ig, table, start, stop, batch, conc, deps] =>
    match start.toNat?, stop.toNat?, batch.toNat?, conc.toNat? with
    | some a, some b, some c, some d =>
      let t : World.Task := { src := src, ig := ig, table := table, start := a, stop := b, batch := c, conc := d, deps := splitList deps "," }
      ({ st with tasks := (id, t) :: st.tasks.filter (·.1 != id) }, "ok")
    | _, _, _, _ => (st, "bad-op")
  | ["w-step", id, fault, l, h, g] =>
    match st.tasks.find? (·.1 == id) with
    | none => (st, "bad-op")
    | some (_, t) =>
      let f := if fault == "-" then none else parsePos fault
      if fault != "-" && f.isNone then (st, "bad-op")
      else
        let r := World.converge t st.db (parseScript l h g) f
        ({ st with db := r.db }, showOutcome r.outcome ++ (if r.scriptOk then "" else " SCRIPT-MISMATCH") ++ " " ++ dbDigest r.db)
  | ["w-prune", n] =>
    match n.toNat? with
    | some n =>
      let db := World.prune n st.db
      ({ st with db := db }, dbDigest db)
    | none => (st, "bad-op")
  | ["w-cur", src, ig, num, hash] =>
    -- a position recorded by an earlier run
    match num.toNat? with
    | some n => ({ st with db := { st.db with cur := st.db.cur ++ [{ src := src, ig := ig, num := n, hash := hash }] } }, "ok")
    | none => (st, "bad-op")
  | ["w-db"] => (st, dbDigest st.db)
  | ["w-save", name] => ({ st with saved := (name, st.db) :: st.saved.filter (·.1 != name) }, "ok")
  | ["w-load", name] =>
    match st.saved.find? (·.1 == name) with
    | some (_, db) => ({ st with db := db }, "ok")
    | none => (st, "bad-op")
  | ["w-proj", s, n, rows, want] =>
    -- oracle: the implementation's rows (blk:digest) are the projection of the canonical chain over (s, n]
    let parse (x : String) : List (Nat × String) := (splitList x ",").filterMap fun e =>
      match e.splitOn ":" with
      | [b, d] => b.toNat?.map fun b => (b, d)
      | _ => none
    match s.toNat?, n.toNat? with
    | some s, some n =>
      (st, if World.tableIsProjection (parse rows) (parse want) s n then "ok"
           else s!"viol table is not the projection of blocks ({s}, {n}]")
    | _, _ => (st, "bad-op")
  | ["w-within", lo, n, stop, rows] =>
    let parse (x : String) : List (Nat × String) := (splitList x ",").filterMap fun e =>
      match e.splitOn ":" with
      | [b, d] => b.toNat?.map fun b => (b, d)
      | _ => none
    match lo.toNat?, n.toNat?, stop.toNat? with
    | some lo, some n, some stop =>
      (st, if World.rowsWithin (parse rows) lo n stop then "ok" else s!"viol a row lies outside ({lo}, {n}] / stop {stop}")
    | _, _, _ => (st, "bad-op")
  | _ => (st, step line)

partial def loop (h : IO.FS.Stream) (out : IO.FS.Stream) (st : DState) : IO Unit := do
  let line ← h.getLine
  if line.isEmpty then return ()
  let (st', o) := stepS st line.trimAscii.toString
  out.putStrLn o
  loop h out st'

def main : IO Unit := do
  let out ← IO.getStdout
  loop (← IO.getStdin) out {}
  out.flush
