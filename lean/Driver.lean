import Shovel
/-
  Line-protocol driver: one operation per input line, one result line per operation.
  Core Lean only, so it is built as the native executable `driver`.
-/
open Shovel

def hexArg (s : String) : Option (List Nat) :=
  if s == "-" then some [] else bytesOfHex? s

def showHex (bs : List Nat) : String := if bs.isEmpty then "-" else hexOfBytes bs

def showResNat : Res Nat → String
  | .ok n => s!"ok {n}"
  | r => r.tag

def showResBytes : Res (List Nat) → String
  | .ok b => s!"ok {showHex b}"
  | r => r.tag

def step (line : String) : String :=
  match (line.splitOn " ").filter (· ≠ "") with
  | ["u64", tok] =>
    match hexArg tok with
    | some t => showResNat (Codec.uint64Unmarshal t)
    | none => "bad-op"
  | ["bytes", old, tok] =>
    match hexArg old, hexArg tok with
    | some o, some t => showResBytes (Codec.bytesUnmarshal o t)
    | _, _ => "bad-op"
  | ["bwrite", old, p] =>
    match hexArg old, hexArg p with
    | some o, some p => showHex (Codec.bytesWrite o p)
    | _, _ => "bad-op"
  | ["benc", pad, n] =>
    match pad.toInt?, n.toNat? with
    | some pad, some n =>
      showResBytes (Codec.encode (if pad < 0 then none else some (List.replicate pad.toNat 0)) n)
    | _, _ => "bad-op"
  | ["bdec", b] =>
    match hexArg b with
    | some b => toString (Codec.bdecode b)
    | none => "bad-op"
  | _ => "bad-op"

partial def loop (h : IO.FS.Stream) (out : IO.FS.Stream) : IO Unit := do
  let line ← h.getLine
  if line.isEmpty then return ()
  out.putStrLn (step line.trimAscii.toString)
  loop h out

def main : IO Unit := do
  let out ← IO.getStdout
  loop (← IO.getStdin) out
  out.flush
