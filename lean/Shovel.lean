import Shovel.Model.Basic
import Shovel.Model.Codec
import Shovel.Model.Abi
import Shovel.Model.AbiType
import Shovel.Model.Parse
import Shovel.Spec.Abi
import Shovel.Spec.AbiDecl
import Shovel.Model.Plan
