import Shovel.Model.Basic
import Shovel.Model.Codec
