#!/bin/bash
# runs every registered check (tier from $1, default quick) on the current tree; prints one line each
tier=${1:-quick}
cd /verif
for i in $(seq -w 1 20); do
  t0=$(date +%s)
  out=$(./check C$i --tier $tier 2>&1); rc=$?
  echo "C$i rc=$rc $(( $(date +%s) - t0 ))s $(echo "$out" | grep -E '^C[0-9]+ tier' | cut -c1-220) $(echo "$out" | grep -c VIOLATION) violation-lines"
done
