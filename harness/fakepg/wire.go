package fakepg

import (
	"encoding/binary"
	"fmt"
	"math/big"
	"net"
	"strconv"
	"strings"
	"time"

	"github.com/jackc/pgx/v5/pgproto3"
	"github.com/jackc/pgx/v5/pgtype"
)

type prepared struct {
	st     *stmt
	params []uint32
	fields []Column
}

type portal struct {
	p       *prepared
	args    []Value
	formats []int16
}

type conn struct {
	s  *Server
	id int
	nc net.Conn
	be *pgproto3.Backend
	m  *pgtype.Map

	// guarded by s.mu
	tx    byte // 0 idle, 'T' in transaction block, 'E' aborted transaction block
	effs  []effect
	notes []*Notification
	dead  bool

	// owned by the serving goroutine
	stmts      map[string]*prepared
	portals    map[string]*portal
	skip       bool // discarding messages until Sync after an extended-protocol error
	terminated bool
}

func newConn(s *Server, id int, nc net.Conn) *conn {
	return &conn{s: s, id: id, nc: nc, be: pgproto3.NewBackend(nc, nc), m: pgtype.NewMap(),
		stmts: map[string]*prepared{}, portals: map[string]*portal{}}
}

func (c *conn) startup() bool {
	for {
		msg, err := c.be.ReceiveStartupMessage()
		if err != nil {
			return false
		}
		switch msg.(type) {
		case *pgproto3.SSLRequest, *pgproto3.GSSEncRequest:
			if _, err := c.nc.Write([]byte{'N'}); err != nil {
				return false
			}
		case *pgproto3.StartupMessage:
			c.be.Send(&pgproto3.AuthenticationOk{})
			for _, kv := range [][2]string{{"server_version", "14.0"}, {"client_encoding", "UTF8"},
				{"standard_conforming_strings", "on"}, {"integer_datetimes", "on"}} {
				c.be.Send(&pgproto3.ParameterStatus{Name: kv[0], Value: kv[1]})
			}
			c.be.Send(&pgproto3.BackendKeyData{ProcessID: uint32(c.id), SecretKey: 1})
			c.be.Send(&pgproto3.ReadyForQuery{TxStatus: 'I'})
			return c.be.Flush() == nil
		default:
			return false
		}
	}
}

func (c *conn) serve() {
	defer func() {
		c.s.mu.Lock()
		c.s.kill(c, !c.terminated)
		c.s.mu.Unlock()
	}()
	if !c.startup() {
		c.terminated = true
		return
	}
	for alive := true; alive; {
		msg, err := c.be.Receive()
		if err != nil {
			return
		}
		if _, isSync := msg.(*pgproto3.Sync); c.skip && !isSync {
			if _, bye := msg.(*pgproto3.Terminate); !bye {
				continue
			}
		}
		switch m := msg.(type) {
		case *pgproto3.Query:
			alive = c.simple(m.String)
		case *pgproto3.Parse:
			c.parse(m)
		case *pgproto3.Describe:
			c.describe(m)
		case *pgproto3.Bind:
			c.bind(m)
		case *pgproto3.Execute:
			alive = c.execute(m)
		case *pgproto3.Sync:
			c.skip = false
			c.ready()
		case *pgproto3.Close:
			if m.ObjectType == 'S' {
				delete(c.stmts, m.Name)
			} else {
				delete(c.portals, m.Name)
			}
			c.be.Send(&pgproto3.CloseComplete{})
		case *pgproto3.Flush:
			c.be.Flush()
		case *pgproto3.Terminate:
			c.terminated = true
			return
		default: // stray CopyData / CopyDone / CopyFail after a failed COPY are dropped, as PostgreSQL does
		}
	}
}

func (c *conn) ready() {
	c.s.mu.Lock()
	st := c.tx
	c.s.mu.Unlock()
	if st == 0 {
		st = 'I'
	}
	c.be.Send(&pgproto3.ReadyForQuery{TxStatus: st})
	c.be.Flush()
}

func (c *conn) sendErr(e *pgErr) {
	c.be.Send(&pgproto3.ErrorResponse{Severity: "ERROR", SeverityUnlocalized: "ERROR", Code: e.code, Message: e.msg})
}

// xfail reports an extended-protocol error: everything up to Sync is skipped.
func (c *conn) xfail(e *pgErr) {
	c.sendErr(e)
	c.skip = true
}

func fmtAt(f []int16, i int) int16 {
	switch {
	case len(f) == 1:
		return f[0]
	case i < len(f):
		return f[i]
	}
	return 0
}

func rowDesc(cols []Column, formats []int16) *pgproto3.RowDescription {
	rd := &pgproto3.RowDescription{}
	for i, col := range cols {
		rd.Fields = append(rd.Fields, pgproto3.FieldDescription{Name: []byte(col.Name), DataTypeOID: typeOID[col.Type],
			DataTypeSize: -1, TypeModifier: -1, Format: fmtAt(formats, i)})
	}
	return rd
}

func (c *conn) sendResult(res *result, formats []int16, describe bool) *pgErr {
	if describe && res.cols != nil {
		c.be.Send(rowDesc(res.cols, formats))
	}
	for _, r := range res.rows {
		dr := &pgproto3.DataRow{Values: make([][]byte, len(r))}
		for i, v := range r {
			b, err := encode(c.m, v, res.cols[i].Type, fmtAt(formats, i))
			if err != nil {
				return errf("XX000", "fakepg: encoding column %s: %v", res.cols[i].Name, err)
			}
			dr.Values[i] = b
		}
		c.be.Send(dr)
	}
	c.be.Send(&pgproto3.CommandComplete{CommandTag: []byte(res.tag)})
	return nil
}

// ---------------------------------------------------------------- simple query protocol

func (c *conn) simple(sql string) bool {
	sts := parseSQL(sql)
	if len(sts) == 0 { // e.g. pgx's "-- ping"; not logged
		c.be.Send(&pgproto3.EmptyQueryResponse{})
	}
	for _, st := range sts {
		var (
			res   *result
			perr  *pgErr
			alive bool
		)
		if st.kind == "copy" && st.err == nil {
			res, perr, alive = c.copyIn(st)
		} else {
			res, perr, alive = c.op(st, nil, nil)
		}
		if !alive {
			return false
		}
		if perr == nil {
			perr = c.sendResult(res, nil, true)
		}
		if perr != nil { // the rest of a multi-statement string is skipped
			c.sendErr(perr)
			break
		}
	}
	c.ready()
	return true
}

// copyIn handles COPY ... FROM STDIN BINARY. The data is read completely
// first; the operation (fault hook, execution, log entry) happens at CopyDone.
func (c *conn) copyIn(st *stmt) (*result, *pgErr, bool) {
	c.s.mu.Lock()
	var oids []uint32
	t, perr := c.view().lookup(st.table)
	if c.tx == 'E' {
		perr = errf("25P02", "current transaction is aborted, commands ignored until end of transaction block")
	}
	if perr == nil {
		var pos []int
		pos, perr = t.positions(st.cols)
		for _, p := range pos {
			oids = append(oids, typeOID[t.cols[p].Type])
		}
	}
	c.s.mu.Unlock()
	if perr != nil {
		c.logErr(st, nil, perr)
		return nil, perr, true
	}
	cir := &pgproto3.CopyInResponse{OverallFormat: 1}
	for range oids {
		cir.ColumnFormatCodes = append(cir.ColumnFormatCodes, 1)
	}
	c.be.Send(cir)
	if c.be.Flush() != nil {
		return nil, nil, false
	}
	var buf []byte
	for done := false; !done; {
		msg, err := c.be.Receive()
		if err != nil {
			return nil, nil, false
		}
		switch m := msg.(type) {
		case *pgproto3.CopyData:
			buf = append(buf, m.Data...)
		case *pgproto3.CopyDone:
			done = true
		case *pgproto3.CopyFail:
			perr = errf("57014", "COPY from stdin failed: %s", m.Message)
			c.logErr(st, nil, perr)
			return nil, perr, true
		case *pgproto3.Flush, *pgproto3.Sync:
		default:
			return nil, nil, false
		}
	}
	rows, perr := decodeCopy(c.m, buf, oids)
	if perr != nil {
		c.logErr(st, nil, perr)
		return nil, perr, true
	}
	return c.op(st, nil, rows)
}

func decodeCopy(m *pgtype.Map, buf []byte, oids []uint32) ([][]Value, *pgErr) {
	bad := errf("22P04", "invalid COPY binary data")
	if len(buf) < 19 || string(buf[:11]) != "PGCOPY\n\377\r\n\000" {
		return nil, bad
	}
	p := 19 + int(binary.BigEndian.Uint32(buf[15:]))
	var rows [][]Value
	for {
		if p == len(buf) { // pgx omits the -1 trailer; PostgreSQL accepts that too
			return rows, nil
		}
		if p+2 > len(buf) {
			return nil, bad
		}
		n := int(int16(binary.BigEndian.Uint16(buf[p:])))
		if p += 2; n == -1 {
			return rows, nil
		}
		if n != len(oids) {
			return nil, bad
		}
		r := make([]Value, n)
		for i := range r {
			if p+4 > len(buf) {
				return nil, bad
			}
			l := int(int32(binary.BigEndian.Uint32(buf[p:])))
			if p += 4; l == -1 {
				continue
			}
			if l < 0 || p+l > len(buf) {
				return nil, bad
			}
			v, err := decode(m, oids[i], 1, buf[p:p+l:p+l])
			if err != nil {
				return nil, errf("22P03", "incorrect binary data format in column %d: %v", i+1, err)
			}
			r[i], p = v, p+l
		}
		rows = append(rows, r)
	}
}

// ---------------------------------------------------------------- extended query protocol

func (c *conn) parse(m *pgproto3.Parse) {
	sts := parseSQL(m.Query)
	if len(sts) != 1 {
		c.xfail(errf("42601", "cannot insert multiple commands into a prepared statement"))
		return
	}
	p := &prepared{st: sts[0]}
	c.s.mu.Lock()
	perr := p.st.err
	if txn := p.st.kind == "commit" || p.st.kind == "rollback"; perr == nil && c.tx == 'E' && !txn {
		perr = errf("25P02", "current transaction is aborted, commands ignored until end of transaction block")
	}
	if perr == nil {
		r := &run{db: c.view(), c: c}
		_, perr = r.safely(func() (_ *result, perr *pgErr) { p.params, p.fields, perr = r.plan(p.st); return })
	}
	c.s.mu.Unlock()
	if perr != nil { // PostgreSQL, too, rejects the statement at Parse time
		c.logErr(p.st, nil, perr)
		c.xfail(perr)
		return
	}
	c.stmts[m.Name] = p
	c.be.Send(&pgproto3.ParseComplete{})
}

func (c *conn) describe(m *pgproto3.Describe) {
	var fields []Column
	var formats []int16
	if m.ObjectType == 'S' {
		p := c.stmts[m.Name]
		if p == nil {
			c.xfail(errf("26000", "prepared statement %q does not exist", m.Name))
			return
		}
		c.be.Send(&pgproto3.ParameterDescription{ParameterOIDs: append([]uint32{}, p.params...)})
		fields = p.fields
	} else {
		po := c.portals[m.Name]
		if po == nil {
			c.xfail(errf("34000", "portal %q does not exist", m.Name))
			return
		}
		fields, formats = po.p.fields, po.formats
	}
	if fields == nil {
		c.be.Send(&pgproto3.NoData{})
	} else {
		c.be.Send(rowDesc(fields, formats))
	}
}

func (c *conn) bind(m *pgproto3.Bind) {
	p := c.stmts[m.PreparedStatement]
	if p == nil {
		c.xfail(errf("26000", "prepared statement %q does not exist", m.PreparedStatement))
		return
	}
	perr := (*pgErr)(nil)
	if len(m.Parameters) != len(p.params) {
		perr = errf("08P01", "bind message supplies %d parameters, but prepared statement requires %d", len(m.Parameters), len(p.params))
	}
	args := make([]Value, len(p.params))
	for i := 0; i < len(args) && perr == nil; i++ {
		v, err := decode(c.m, p.params[i], fmtAt(m.ParameterFormatCodes, i), m.Parameters[i])
		if args[i] = v; err != nil {
			perr = errf("22P02", "invalid parameter $%d: %v", i+1, err)
		}
	}
	if perr != nil {
		c.logErr(p.st, nil, perr)
		c.xfail(perr)
		return
	}
	c.portals[m.DestinationPortal] = &portal{p, args, append([]int16{}, m.ResultFormatCodes...)}
	c.be.Send(&pgproto3.BindComplete{})
}

func (c *conn) execute(m *pgproto3.Execute) bool {
	po := c.portals[m.Portal]
	if po == nil || po.p.st.kind == "copy" {
		c.xfail(errf("34000", "portal %q does not exist or is a COPY", m.Portal))
		return true
	}
	res, perr, alive := c.op(po.p.st, po.args, nil)
	if !alive {
		return false
	}
	if perr == nil {
		perr = c.sendResult(res, po.formats, false)
	}
	if perr != nil {
		c.xfail(perr)
	}
	return true
}

// ---------------------------------------------------------------- value codec

func numeric(n Num) pgtype.Numeric {
	s, exp := string(n), int32(0)
	if i := strings.IndexByte(s, '.'); i >= 0 {
		exp, s = -int32(len(s)-i-1), s[:i]+s[i+1:]
	}
	i, _ := new(big.Int).SetString(s, 10)
	return pgtype.Numeric{Int: i, Exp: exp, Valid: true}
}

func fromNumeric(n pgtype.Numeric) (Value, error) {
	if !n.Valid {
		return nil, nil
	}
	if n.NaN || n.InfinityModifier != 0 || n.Int == nil {
		return nil, fmt.Errorf("NaN/Infinity not supported")
	}
	v, ok := normNum(n.Int.String() + "e" + strconv.Itoa(int(n.Exp)))
	if !ok {
		return nil, fmt.Errorf("bad numeric")
	}
	return v, nil
}

// encode renders a Value of column type typ in the requested wire format.
func encode(m *pgtype.Map, v Value, typ string, format int16) ([]byte, error) {
	if v == nil {
		return nil, nil
	}
	if typ == "void" {
		return []byte{}, nil
	}
	arg := any(v)
	switch x := v.(type) {
	case Num:
		if arg = numeric(x); typ != "numeric" {
			i, err := strconv.ParseInt(string(x), 10, 64)
			if err != nil {
				return nil, err
			}
			arg = i
		}
	case JSON:
		arg = []byte(x)
	case Interval:
		arg = pgtype.Interval{Microseconds: int64(x), Valid: true}
	case string:
		if typ == "timestamp with time zone" {
			t, err := time.Parse(time.RFC3339Nano, x)
			if err != nil {
				return nil, err
			}
			arg = t
		}
	}
	return m.Encode(typeOID[typ], format, arg, []byte{})
}

// decode parses a wire value of type oid into the normalized Value model.
func decode(m *pgtype.Map, oid uint32, format int16, src []byte) (Value, error) {
	if src == nil {
		return nil, nil
	}
	scan := func(dst any) error { return m.Scan(oid, format, src, dst) }
	switch oid {
	case 25, 1043:
		var s string
		return s, scan(&s)
	case 20, 21, 23:
		var i int64
		err := scan(&i)
		return Num(strconv.FormatInt(i, 10)), err
	case 1700:
		var n pgtype.Numeric
		if err := scan(&n); err != nil {
			return nil, err
		}
		return fromNumeric(n)
	case 17:
		var b []byte
		err := scan(&b)
		return append([]byte{}, b...), err
	case 16:
		var b bool
		return b, scan(&b)
	case 3802, 114:
		var s string
		err := scan(&s)
		return JSON(s), err
	case 1186:
		var iv pgtype.Interval
		err := scan(&iv)
		return Interval(iv.Microseconds + (int64(iv.Days)+30*int64(iv.Months))*86400e6), err
	case 1184:
		var t time.Time
		err := scan(&t)
		return t.UTC().Format(time.RFC3339Nano), err
	}
	switch oid { // array parameters for "= ANY($n)"
	case 1009:
		return arr(scan, func(s string) Value { return s })
	case 1005, 1007, 1016:
		return arr(scan, func(i int64) Value { return Num(strconv.FormatInt(i, 10)) })
	case 1231:
		return arr(scan, func(n pgtype.Numeric) Value { v, _ := fromNumeric(n); return v })
	case 1001:
		return arr(scan, func(b []byte) Value { return append([]byte{}, b...) })
	case 1000:
		return arr(scan, func(b bool) Value { return b })
	}
	return nil, fmt.Errorf("fakepg: unsupported type oid %d", oid)
}

func arr[T any](scan func(any) error, conv func(T) Value) (Value, error) {
	var a []*T
	if err := scan(&a); err != nil {
		return nil, err
	}
	out := make([]Value, len(a))
	for i, p := range a {
		if p != nil {
			out[i] = conv(*p)
		}
	}
	return out, nil
}
